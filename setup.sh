#!/bin/sh
# Build the framework from files on disk only (offline).
set -e
cd "$(dirname "$0")"
export CARGO_NET_OFFLINE=true
(cd harness && cargo build --quiet 2>&1 | tail -3)
./harness/target/debug/sle_harness gen-tables lean/SLE/Gen
(cd lean && lake build 2>&1 | tail -3)
echo setup-done
