#!/bin/sh
# Build the framework from files on disk only (offline).
set -e
cd "$(dirname "$0")"
export CARGO_NET_OFFLINE=true
(cd harness && cargo build 2>&1 | tail -3)
(cd lean && lake build 2>&1 | tail -3)
