//! sle_harness — runs the real crate in-process for the correspondence check.
//!
//!   sle_harness gen-tables <outdir>        regenerate lean/SLE/Gen/*.lean from the code
//!   sle_harness gen <family> <seed> <n>    print `family\tpayload` request lines
//!   sle_harness eval                       stdin `family\tpayload` -> `family\tpayload\tanswer`
//!
//! Every case runs under `catch_unwind`; a panic is reported as the answer `PANIC <msg>`.

mod fam;
mod sv;
mod sv_gen;
mod rng;
mod tables;
mod util;

use std::io::{BufRead, Write};

fn main() {
    // Silence the default panic printer; panics are turned into answers.
    std::panic::set_hook(Box::new(|_| {}));
    let args: Vec<String> = std::env::args().collect();
    if args.len() < 2 {
        eprintln!("usage: sle_harness gen-tables|gen|eval ...");
        std::process::exit(2);
    }
    match args[1].as_str() {
        "gen-tables" => {
            let out = args.get(2).expect("outdir");
            tables::generate(out);
        }
        "gen" => {
            let family = args.get(2).expect("family");
            let seed: u64 = args.get(3).expect("seed").parse().expect("seed int");
            let n: usize = args.get(4).expect("n").parse().expect("n int");
            let tier = args.get(5).map(|s| s.as_str()).unwrap_or("quick");
            let stdout = std::io::stdout();
            let mut w = std::io::BufWriter::new(stdout.lock());
            fam::generate(family, seed, n, tier, &mut |payload: String| {
                writeln!(w, "{family}\t{payload}").unwrap();
            });
        }
        "eval" => {
            let stdin = std::io::stdin();
            let stdout = std::io::stdout();
            let mut w = std::io::BufWriter::new(stdout.lock());
            for line in stdin.lock().lines() {
                let line = line.unwrap();
                if line.is_empty() {
                    continue;
                }
                let mut it = line.splitn(3, '\t');
                let family = it.next().unwrap().to_string();
                let payload = it.next().unwrap_or("").to_string();
                let ans = util::guarded(|| fam::eval(&family, &payload));
                writeln!(w, "{family}\t{payload}\t{ans}").unwrap();
            }
        }
        other => {
            eprintln!("unknown subcommand {other}");
            std::process::exit(2);
        }
    }
}
