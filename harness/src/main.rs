fn main() { println!("hi"); }
