//! One xorshift64* state per run; every random choice derives from it.
#[derive(Clone)]
pub struct Rng(pub u64);

impl Rng {
    pub fn new(seed: u64) -> Self {
        let mut r = Rng(seed ^ 0x9E37_79B9_7F4A_7C15);
        if r.0 == 0 {
            r.0 = 0x1234_5678_9abc_def1;
        }
        for _ in 0..4 {
            r.next();
        }
        r
    }
    pub fn next(&mut self) -> u64 {
        let mut x = self.0;
        x ^= x >> 12;
        x ^= x << 25;
        x ^= x >> 27;
        self.0 = x;
        x.wrapping_mul(0x2545_F491_4F6C_DD1D)
    }
    pub fn below(&mut self, n: usize) -> usize {
        if n == 0 {
            0
        } else {
            (self.next() % (n as u64)) as usize
        }
    }
    pub fn chance(&mut self, num: usize, den: usize) -> bool {
        self.below(den) < num
    }
    pub fn byte(&mut self) -> u8 {
        (self.next() & 0xff) as u8
    }
    pub fn pick<'a, T>(&mut self, xs: &'a [T]) -> &'a T {
        &xs[self.below(xs.len())]
    }
    /// Independent stream for case `idx` of a family (so a case replays from (seed, idx)).
    pub fn for_case(seed: u64, family: &str, idx: usize) -> Self {
        let mut h: u64 = 0xcbf2_9ce4_8422_2325;
        for b in family.bytes() {
            h ^= b as u64;
            h = h.wrapping_mul(0x100_0000_01b3);
        }
        Rng::new(seed.wrapping_mul(0x9E37_79B9).wrapping_add(h).wrapping_add((idx as u64).wrapping_mul(0xD1B5_4A32_D192_ED03)))
    }
}
