pub mod disasm;

pub fn generate(family: &str, seed: u64, n: usize, tier: &str, emit: &mut dyn FnMut(String)) {
    match family {
        "disasm" => disasm::generate(seed, n, tier, emit),
        _ => panic!("unknown family {family}"),
    }
}

pub fn eval(family: &str, payload: &str) -> String {
    match family {
        "disasm" => disasm::eval(payload),
        _ => format!("err unknown-family-{family}"),
    }
}
