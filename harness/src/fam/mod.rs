pub mod containers;
pub mod disasm;
pub mod evm;
pub mod idiom;
pub mod json;
pub mod lift;
pub mod pipeline;
pub mod tc;
pub mod types;
pub mod value;
pub mod vm;
pub mod watchdog;

pub fn generate(family: &str, seed: u64, n: usize, tier: &str, emit: &mut dyn FnMut(String)) {
    match family {
        "disasm" => disasm::generate(seed, n, tier, emit),
        "ds" => containers::generate_ds(seed, n, tier, emit),
        "vmap" => containers::generate_vmap(seed, n, tier, emit),
        "word" => value::generate_word(seed, n, tier, emit),
        "vm" => vm::generate(seed, n, tier, emit),
        "vm2" => vm::generate2(seed, n, tier, emit),
        "pipeline" => pipeline::generate(seed, n, tier, emit),
        "orders" => pipeline::generate_orders(seed, n, tier, emit),
        "json" => json::generate(seed, n, tier, emit),
        "merge" => types::generate_merge(seed, n, tier, emit),
        "unify" => types::generate_unify(seed, n, tier, emit),
        "truth" => types::generate_truth(seed, n, tier, emit),
        "hash" => lift::generate_hash(seed, n, tier, emit),
        "lift" => lift::generate_lift(seed, n, tier, emit),
        "watchdog" => watchdog::generate(seed, n, tier, emit),
        "tc" => tc::generate(seed, n, tier, emit),
        "evm" => evm::generate(seed, n, tier, emit),
        "idiom" => idiom::generate_idiom(seed, n, tier, emit),
        "frag" => idiom::generate_frag(seed, n, tier, emit),
        "fold" => value::generate_fold(seed, n, tier, emit),
        "size" => value::generate_size(seed, n, tier, emit),
        _ => panic!("unknown family {family}"),
    }
}

pub fn eval(family: &str, payload: &str) -> String {
    match family {
        "disasm" => disasm::eval(payload),
        "ds" => containers::eval_ds(payload),
        "vmap" => containers::eval_vmap(payload),
        "word" => value::eval_word(payload),
        "vm" => vm::eval(payload),
        "vm2" => vm::eval2(payload),
        "pipeline" => pipeline::eval(payload),
        "orders" => pipeline::eval_orders(payload),
        "json" => json::eval(payload),
        "merge" => types::eval_merge(payload),
        "unify" => types::eval_unify(payload),
        "truth" => types::eval_truth(payload),
        "hash" => lift::eval_hash(payload),
        "lift" => lift::eval_lift(payload),
        "watchdog" => watchdog::eval(payload),
        "tc" => tc::eval(payload),
        "evm" => vm::eval(payload),
        "idiom" => idiom::eval_idiom(payload),
        "frag" => idiom::eval_frag(payload),
        "fold" => value::eval_fold(payload),
        "size" => value::eval_size(payload),
        _ => format!("err unknown-family-{family}"),
    }
}
