//! Family `evm` (property C07): stack-safe, loop-free, constants-only programs over the
//! instruction subset the property names.  payload and answer as in family `vm`; the driver
//! compares every explored path with a concrete reference EVM.
use crate::{fam::{value, vm}, rng::Rng, util};

const BIN: [u8; 21] = [0x01, 0x02, 0x03, 0x04, 0x05, 0x06, 0x07, 0x0a, 0x0b, 0x10, 0x11, 0x12, 0x13, 0x14, 0x16, 0x17, 0x18, 0x1a, 0x1b, 0x1c, 0x1d];

struct G<'a> {
    a: vm::Asm,
    r: &'a mut Rng,
    depth: usize,
    labels: usize,
    jumpis: usize,
    flavour: usize,
}

impl G<'_> {
    fn word(&mut self) {
        let bw = value::boundary_words();
        match self.r.below(10) {
            0 => self.a.op(0x5f),
            1..=3 => self.a.push_u(self.r.below(40) as u64),
            4 => {
                // full-width push of a small number (leading zero bytes kept)
                let n = 1 + self.r.below(32);
                let mut v = vec![0u8; n];
                v[n - 1] = self.r.below(256) as u8;
                self.a.bytes.push(0x5f + n as u8);
                self.a.bytes.extend(v);
            }
            _ => {
                let w = value::random_word(self.r, &bw);
                self.a.push_word(&w.to_be_bytes());
            }
        }
        self.depth += 1;
    }

    fn key(&mut self) {
        // literal keys from a small set so that loads meet stores; computed keys only in flavour 3
        if self.flavour == 3 && self.r.chance(1, 2) {
            self.a.push_u(self.r.below(3) as u64);
            self.a.push_u(self.r.below(3) as u64);
            self.a.op(0x01);
        } else {
            match self.r.below(6) {
                0 => self.a.push_word(&[0xff; 32]),
                1 => {
                    let mut v = vec![0u8; 17];
                    v[0] = 1;
                    v[16] = self.r.below(3) as u8;
                    self.a.push_word(&v);
                }
                _ => self.a.push_u(self.r.below(4) as u64),
            }
        }
        self.depth += 1;
    }

    fn step(&mut self) {
        let c = self.r.below(100);
        if self.depth < 2 || c < 25 {
            self.word();
        } else if c < 50 {
            let op = *self.r.pick(&BIN);
            // the operators with recorded findings are kept to their own flavours so that the
            // other flavours exercise everything else undisturbed
            let op = match (op, self.flavour) {
                (0x0b, f) if f != 1 => 0x01,
                (0x1a, f) if f != 2 => 0x16,
                (o, _) => o,
            };
            self.a.op(op);
            self.depth -= 1;
        } else if c < 54 && self.depth >= 3 && self.flavour == 2 {
            self.a.op(if self.r.chance(1, 2) { 0x08 } else { 0x09 });
            self.depth -= 2;
        } else if c < 58 {
            self.a.op(if self.r.chance(1, 2) { 0x15 } else { 0x19 });
        } else if c < 68 && self.depth < 1000 {
            let n = 1 + self.r.below(self.depth.min(16));
            self.a.op(0x7f + n as u8);
            self.depth += 1;
        } else if c < 76 {
            let n = 1 + self.r.below((self.depth - 1).min(16));
            self.a.op(0x8f + n as u8);
        } else if c < 79 {
            self.a.op(0x50);
            self.depth -= 1;
        } else if c < 81 {
            self.a.op(if self.r.chance(1, 2) { 0x58 } else { 0x38 });
            self.depth += 1;
        } else if c < 86 {
            // MSTORE of the top of the stack at a word-aligned offset
            self.a.push_u(32 * self.r.below(6) as u64);
            self.a.op(0x52);
            self.depth -= 1;
        } else if c < 90 {
            self.a.push_u(32 * self.r.below(6) as u64);
            self.a.op(0x51);
            self.depth += 1;
        } else if c < 95 {
            self.key();
            self.a.op(0x55);
            self.depth -= 2;
        } else {
            self.key();
            self.a.op(0x54);
        }
    }

    /// a block whose net stack effect is zero
    fn block(&mut self, n: usize, nest: usize) {
        let entry = self.depth;
        for _ in 0..n {
            if nest > 0 && self.jumpis < 5 && self.labels + 1 < 24 && self.r.chance(1, 6) && self.depth >= 1 {
                // condition = top of stack; JUMPI skips a nested block
                let l = self.labels;
                self.labels += 1;
                self.jumpis += 1;
                self.a.push_label(l);
                self.a.op(0x57);
                self.depth -= 1;
                let inner = 1 + self.r.below(5);
                self.block(inner, nest - 1);
                self.a.label(l);
            } else if self.labels + 1 < 24 && self.r.chance(1, 30) {
                // unconditional forward jump over dead code
                let l = self.labels;
                self.labels += 1;
                self.a.push_label(l);
                self.a.op(0x56);
                self.a.op(0xfe);
                self.a.label(l);
            } else {
                self.step();
            }
        }
        while self.depth > entry {
            // keep what was computed observable: store it rather than drop it
            match self.r.below(4) {
                0 => self.a.op(0x50),
                1 => {
                    self.a.push_u(32 * self.r.below(6) as u64);
                    self.a.op(0x52);
                }
                _ => {
                    self.a.push_u(self.r.below(6) as u64);
                    self.a.op(0x55);
                }
            }
            self.depth -= 1;
        }
        while self.depth < entry {
            self.a.op(0x5f);
            self.depth += 1;
        }
    }
}

pub fn gen_program(r: &mut Rng, flavour: usize) -> Vec<u8> {
    let n = 4 + r.below(30);
    let mut g = G { a: vm::Asm::new(24), r, depth: 0, labels: 0, jumpis: 0, flavour };
    g.block(n, 3);
    // leave something on the stack for the comparison
    let extra = g.r.below(4);
    for _ in 0..extra {
        g.step();
    }
    match g.r.below(4) {
        0 => g.a.op(0x00),
        1 => g.a.op(0xfe),
        _ => {}
    }
    g.a.finish()
}

pub const FIXED: [&str; 15] = [
    "6003600501",                          // 5 + 3
    "600360050300",                        // 5 - 3 (operand order)
    "6001600260036004818391",              // DUP / SWAP depths
    "7fffffffffffffffffffffffffffffffffffffffffffffffffffffffffffffffff6001016000",   // wrap-around add
    "60ff60000b",                          // SIGNEXTEND(0, 0xff)
    "600160ff0b",                          // SIGNEXTEND(0xff, 1)
    "60056002600108",                      // ADDMOD small
    "60077fffffffffffffffffffffffffffffffffffffffffffffffffffffffffffffffff600208",   // ADDMOD with a wrapping sum
    "602a6000526000516020526020515f",      // memory round trips
    "602a600155600154600255",              // storage round trip
    "60016008576002600155005b6003600155",  // writes on the two sides of a branch
    "600760176011565b600f60106011565b005b60019057565b00",  // a subroutine's JUMPI reached twice: valid target, then a bad one
    "602a600160020155600354",              // computed key then literal load
    "60077fffffffffffffffffffffffffffffffffffffffffffffffffffffffffffffffff600209",   // MULMOD with a wrapping product
    "7faa000000000000000000000000000000000000000000000000000000000000007f20000000000000000000000000000000000000000000000000000000000000001a",      // BYTE(2^253, 0xaa << 248)
];

pub fn generate(seed: u64, n: usize, _tier: &str, emit: &mut dyn FnMut(String)) {
    let cfg = "30000000,10,50,250,394,0";
    if seed % 1000 == 1 {
        for f in FIXED {
            emit(format!("{cfg} {f}"));
        }
    }
    for idx in 0..n {
        let mut r = Rng::for_case(seed, "evm", idx);
        // flavour 0: everything but the operators with findings; 1: + SIGNEXTEND;
        // 2: + BYTE / ADDMOD / MULMOD; 3: + computed storage keys
        let flavour = match r.below(10) {
            0..=5 => 0,
            6 => 1,
            7 | 8 => 2,
            _ => 3,
        };
        let prog = gen_program(&mut r, flavour);
        emit(format!("{cfg} {}", util::bytes_to_hex(&prog)));
    }
}
