//! Family `merge`: `unification::merge` on pairs and (via two calls) triples of type expressions.
//!
//! TE text: `any` `eq:N` `word:W:usage` (W = `?` or bits) `bytes` `fixed:E:LEN` `map:K:V` `dyn:E`
//!          `packed:s|p:typ,off,size/...` (`packed:p:` = no spans) `conflict`
//! payload: `<nvars> <parent> <te> <te> [<te>]`
//! answer (pair):   `ab=<out> ba=<out>`      answer (triple): `l=<out> r=<out>`
//! out: `expr;eqs;judgements;newvars` with eqs `a=b,...`, judgements `tv:te,...`
use storage_layout_extractor::tc::{
    expression::{Span, TypeExpression, WordUse, TE},
    state::{type_variable::TypeVariable, TypeCheckerState},
    unification::{merge, Merge},
};
use storage_layout_extractor::data::vector_map::{FromUniqueIndex, ToUniqueIndex};
use ethnum::U256;

use crate::rng::Rng;

pub fn tv(i: usize) -> TypeVariable {
    TypeVariable::from_index(i)
}

pub fn usage_name(u: WordUse) -> &'static str {
    match u {
        WordUse::Bytes => "bytes",
        WordUse::Numeric => "numeric",
        WordUse::UnsignedNumeric => "unsignedNumeric",
        WordUse::SignedNumeric => "signedNumeric",
        WordUse::Bool => "bool",
        WordUse::Address => "address",
        WordUse::Selector => "selector",
        WordUse::Function => "function",
    }
}

pub const USAGES: [WordUse; 8] = [
    WordUse::Bytes,
    WordUse::Numeric,
    WordUse::UnsignedNumeric,
    WordUse::SignedNumeric,
    WordUse::Bool,
    WordUse::Address,
    WordUse::Selector,
    WordUse::Function,
];

pub fn parse_usage(s: &str) -> WordUse {
    *USAGES.iter().find(|u| usage_name(**u) == s).expect("usage")
}

pub fn te_text(e: &TE) -> String {
    match e {
        TE::Any => "any".into(),
        TE::Equal { id } => format!("eq:{}", id.index()),
        TE::Word { width, usage } => match width {
            Some(w) => format!("word:{w}:{}", usage_name(*usage)),
            None => format!("word:?:{}", usage_name(*usage)),
        },
        TE::Bytes => "bytes".into(),
        TE::FixedArray { element, length } => format!("fixed:{}:{}", element.index(), length),
        TE::Mapping { key, value } => format!("map:{}:{}", key.index(), value.index()),
        TE::DynamicArray { element } => format!("dyn:{}", element.index()),
        TE::Packed { types, is_struct } => {
            let spans: Vec<String> =
                types.iter().map(|s| format!("{},{},{}", s.typ.index(), s.offset, s.size)).collect();
            format!("packed:{}:{}", if *is_struct { "s" } else { "p" }, spans.join("/"))
        }
        TE::Conflict { .. } => "conflict".into(),
    }
}

pub fn parse_te(s: &str) -> TE {
    let p: Vec<&str> = s.split(':').collect();
    match p[0] {
        "any" => TE::Any,
        "eq" => TE::eq(tv(p[1].parse().unwrap())),
        "word" => TE::word(if p[1] == "?" { None } else { Some(p[1].parse().unwrap()) }, parse_usage(p[2])),
        "bytes" => TE::Bytes,
        "fixed" => TE::FixedArray { element: tv(p[1].parse().unwrap()), length: U256::from_str_radix(p[2], 10).unwrap() },
        "map" => TE::mapping(tv(p[1].parse().unwrap()), tv(p[2].parse().unwrap())),
        "dyn" => TE::dyn_array(tv(p[1].parse().unwrap())),
        "packed" => {
            let spans: Vec<Span> = p
                .get(2)
                .copied()
                .unwrap_or("")
                .split('/')
                .filter(|x| !x.is_empty())
                .map(|x| {
                    let q: Vec<usize> = x.split(',').map(|n| n.parse().unwrap()).collect();
                    Span::new(tv(q[0]), q[1], q[2])
                })
                .collect();
            TE::Packed { types: spans, is_struct: p[1] == "s" }
        }
        "conflict" => TE::conflict(TE::Any, TE::Bytes, "generated"),
        _ => panic!("bad te {s}"),
    }
}

#[derive(Default)]
pub struct Acc {
    eqs: Vec<String>,
    judgements: Vec<String>,
    new_vars: Vec<String>,
}

impl Acc {
    pub fn add(&mut self, m: &Merge) {
        for e in &m.equalities {
            self.eqs.push(format!("{}={}", e.left.index(), e.right.index()));
        }
        for j in &m.judgements {
            self.judgements.push(format!("{}>{}", j.tv.index(), te_text(&j.expr)));
        }
        for v in &m.ty_vars {
            self.new_vars.push(v.index().to_string());
        }
    }
    pub fn render(&self, expr: &TE) -> String {
        format!("{};{};{};{}", te_text(expr), self.eqs.join(","), self.judgements.join(","), self.new_vars.join(","))
    }
}

pub fn fresh_state(nvars: usize) -> TypeCheckerState {
    let mut st = TypeCheckerState::empty();
    for _ in 0..nvars {
        let _ = unsafe { st.allocate_ty_var() };
    }
    st
}

fn run1(nvars: usize, parent: usize, a: &TE, b: &TE) -> String {
    crate::util::guarded(|| {
        let mut st = fresh_state(nvars);
        let m = merge(a.clone(), b.clone(), tv(parent), &mut st);
        let mut acc = Acc::default();
        acc.add(&m);
        acc.render(&m.expression)
    })
    .replace(' ', "_")
}

fn run_left(nvars: usize, parent: usize, a: &TE, b: &TE, c: &TE) -> String {
    crate::util::guarded(|| {
        let mut st = fresh_state(nvars);
        let m1 = merge(a.clone(), b.clone(), tv(parent), &mut st);
        let m2 = merge(m1.expression.clone(), c.clone(), tv(parent), &mut st);
        let mut acc = Acc::default();
        acc.add(&m1);
        acc.add(&m2);
        acc.render(&m2.expression)
    })
    .replace(' ', "_")
}

fn run_right(nvars: usize, parent: usize, a: &TE, b: &TE, c: &TE) -> String {
    crate::util::guarded(|| {
        let mut st = fresh_state(nvars);
        let m1 = merge(b.clone(), c.clone(), tv(parent), &mut st);
        let m2 = merge(a.clone(), m1.expression.clone(), tv(parent), &mut st);
        let mut acc = Acc::default();
        acc.add(&m1);
        acc.add(&m2);
        acc.render(&m2.expression)
    })
    .replace(' ', "_")
}

pub fn eval_merge(payload: &str) -> String {
    let t: Vec<&str> = payload.split_whitespace().collect();
    let nvars: usize = t[0].parse().unwrap();
    let parent: usize = t[1].parse().unwrap();
    let tes: Vec<TE> = t[2..].iter().map(|s| parse_te(s)).collect();
    if tes.len() == 2 {
        format!("ab={} ba={}", run1(nvars, parent, &tes[0], &tes[1]), run1(nvars, parent, &tes[1], &tes[0]))
    } else {
        format!(
            "l={} r={}",
            run_left(nvars, parent, &tes[0], &tes[1], &tes[2]),
            run_right(nvars, parent, &tes[0], &tes[1], &tes[2])
        )
    }
}

/// The finite evidence domain named by C16.
pub fn c16_domain() -> Vec<String> {
    let mut d: Vec<String> = vec!["any".into(), "bytes".into()];
    for u in USAGES {
        match u.size() {
            Some(w) => d.push(format!("word:{w}:{}", usage_name(u))),
            None => {
                for w in ["?", "8", "32", "160", "192", "256"] {
                    d.push(format!("word:{w}:{}", usage_name(u)));
                }
            }
        }
    }
    d.extend(["map:0:1", "map:1:0", "dyn:0", "dyn:1", "fixed:0:2", "fixed:1:2", "fixed:0:3", "conflict"].map(String::from));
    d
}

fn random_te(r: &mut Rng, nvars: usize, allow_packed: bool) -> String {
    let v = |r: &mut Rng| r.below(nvars);
    match r.below(if allow_packed { 14 } else { 11 }) {
        0 => "any".into(),
        1 => "bytes".into(),
        2..=5 => {
            let u = USAGES[r.below(8)];
            let w = match r.below(4) {
                0 => "?".to_string(),
                1 => u.size().map(|x| x.to_string()).unwrap_or_else(|| "256".into()),
                _ => [8usize, 16, 32, 64, 128, 160, 192, 248, 256][r.below(9)].to_string(),
            };
            format!("word:{w}:{}", usage_name(u))
        }
        6 => format!("map:{}:{}", v(r), v(r)),
        7 => format!("dyn:{}", v(r)),
        8 => format!("fixed:{}:{}", v(r), r.below(3)),
        9 => "conflict".into(),
        10 => format!("word:{}:{}", [8, 160, 256][r.below(3)], usage_name(USAGES[r.below(8)])),
        _ => {
            // packed with arbitrary (also overlapping, unsorted) spans
            let n = r.below(4);
            let mut spans = vec![];
            let canon = r.chance(1, 3);
            for i in 0..n {
                if canon {
                    let (o, s) = [(0, 1), (1, 7), (8, 248)][i % 3];
                    spans.push(format!("{},{},{}", v(r), o, s));
                } else {
                    let o = [0usize, 0, 8, 16, 32, 64, 128, 160][r.below(8)];
                    let s = [8usize, 8, 16, 32, 64, 96, 128, 160][r.below(8)];
                    spans.push(format!("{},{},{}", v(r), o, s));
                }
            }
            format!("packed:{}:{}", if r.chance(1, 5) { "s" } else { "p" }, spans.join("/"))
        }
    }
}

pub fn generate_merge(seed: u64, n: usize, tier: &str, emit: &mut dyn FnMut(String)) {
    let d = c16_domain();
    for a in &d {
        for b in &d {
            emit(format!("2 0 {a} {b}"));
        }
    }
    // all ordered triples of the finite domain (quick: every triple containing an element of a
    // stride-selected third plus all absorber triples; thorough: all)
    for (i, a) in d.iter().enumerate() {
        for (j, b) in d.iter().enumerate() {
            for (k, c) in d.iter().enumerate() {
                if tier == "thorough" || (i + 2 * j + 3 * k) % 4 == 0 {
                    emit(format!("2 0 {a} {b} {c}"));
                }
            }
        }
    }
    for idx in 0..n {
        let mut r = Rng::for_case(seed, "merge", idx);
        let nvars = 2 + r.below(5);
        let allow_packed = r.chance(1, 2);
        let k = 2 + r.below(2);
        let tes: Vec<String> = (0..k).map(|_| random_te(&mut r, nvars, allow_packed)).collect();
        emit(format!("{nvars} {} {}", r.below(nvars), tes.join(" ")));
    }
}

// ------------------------------------------------------------------------------ unify

use std::{cell::Cell, collections::BTreeMap, rc::Rc};
use storage_layout_extractor::{tc::unification::unify, verif_hooks, watchdog::Watchdog};

/// A watchdog that counts polls and says stop once `budget` polls have been answered.
#[derive(Debug)]
pub struct CountingWatchdog {
    pub polls: Cell<usize>,
    pub stop_at: usize,
    pub every: usize,
}

impl Watchdog for CountingWatchdog {
    fn should_stop(&self) -> bool {
        let n = self.polls.get();
        self.polls.set(n + 1);
        n >= self.stop_at
    }
    fn poll_every(&self) -> usize {
        self.every
    }
}

pub fn set_order(name: &str) {
    let o = match name {
        "natural" => verif_hooks::Order::Natural,
        "reversed" => verif_hooks::Order::Reversed,
        "sorted" => verif_hooks::Order::Sorted,
        s if s.starts_with("seed") => verif_hooks::Order::Seeded(s[4..].parse().unwrap_or(1)),
        _ => verif_hooks::Order::Natural,
    };
    verif_hooks::set_order(o);
}

/// Variable-name-free rendering of what a variable resolved to.
fn resolve(st: &mut TypeCheckerState, v: TypeVariable, depth: usize, seen: &mut Vec<usize>) -> String {
    let root = st.result().find(&v).index();
    if seen.contains(&root) {
        return "#cycle".into();
    }
    if depth == 0 {
        return "#deep".into();
    }
    let data = st.result().get_data(&v).cloned();
    let Some(set) = data else { return "#nodata".into() };
    let mut items: Vec<TE> = set.into_iter().collect();
    if items.is_empty() {
        return "any0".into();
    }
    if items.len() > 1 {
        items.sort_by_cached_key(|e| format!("{e:?}"));
        let parts: Vec<String> = items.iter().map(te_text).collect();
        return format!("#multi({})", parts.join("&"));
    }
    seen.push(root);
    let r = match &items[0] {
        TE::Mapping { key, value } => {
            format!("map({},{})", resolve(st, *key, depth - 1, seen), resolve(st, *value, depth - 1, seen))
        }
        TE::DynamicArray { element } => format!("dyn({})", resolve(st, *element, depth - 1, seen)),
        TE::FixedArray { element, length } => format!("fixed({},{length})", resolve(st, *element, depth - 1, seen)),
        TE::Packed { types, is_struct } => {
            let parts: Vec<String> =
                types.iter().map(|s| format!("{}+{}:{}", s.offset, s.size, resolve(st, s.typ, depth - 1, seen))).collect();
            format!("{}[{}]", if *is_struct { "struct" } else { "packed" }, parts.join(","))
        }
        TE::Equal { .. } => "#EQUAL".into(),
        other => te_text(other),
    };
    seen.pop();
    r
}

pub fn eval_unify(payload: &str) -> String {
    let t: Vec<&str> = payload.split_whitespace().collect();
    // `<order>[@<poll interval>]`
    let (order, every) = match t[0].split_once('@') {
        Some((o, e)) => (o, e.parse::<usize>().expect("interval")),
        None => (t[0], 1),
    };
    set_order(order);
    let nvars: usize = t[1].parse().unwrap();
    let budget: usize = t[2].parse().unwrap();
    let mut st = fresh_state(nvars);
    for j in &t[3..] {
        let (v, e) = j.split_once('>').expect("judgement");
        st.infer(tv(v.parse().unwrap()), parse_te(e));
    }
    let wd = Rc::new(CountingWatchdog { polls: Cell::new(0), stop_at: budget, every });
    let dynwd: Rc<dyn Watchdog> = wd.clone();
    let res = unify(&mut st, &dynwd);
    set_order("natural");
    let polls = wd.polls.get();
    let head = match &res {
        Ok(()) => "res=ok".to_string(),
        Err(es) => {
            let names: Vec<String> = es
                .payloads()
                .iter()
                .map(|e| format!("{:?}", e.payload).split(|c: char| !c.is_alphanumeric()).next().unwrap_or("?").to_string())
                .collect();
            format!("res=err:{}", names.join(","))
        }
    };
    if res.is_err() {
        return format!("{head} polls={polls}");
    }
    // partition of the original variables
    let mut classes: BTreeMap<usize, Vec<usize>> = BTreeMap::new();
    for v in 0..nvars {
        let r = st.result().find(&tv(v)).index();
        classes.entry(r).or_default().push(v);
    }
    let mut cl: Vec<Vec<usize>> = classes.into_values().collect();
    cl.sort();
    let cls: Vec<String> = cl.iter().map(|c| c.iter().map(|x| x.to_string()).collect::<Vec<_>>().join(",")).collect();
    let types: Vec<String> = (0..nvars).map(|v| format!("{v}:{}", resolve(&mut st, tv(v), 6, &mut vec![]))).collect();
    format!("{head} polls={polls} classes=[{}] types=[{}]", cls.join("|"), types.join(";"))
}

pub fn gen_judgements(r: &mut Rng, nvars: usize, packed: bool, cyclic: bool) -> Vec<String> {
    let mut js = vec![];
    let n = 1 + r.below(nvars * 2);
    for _ in 0..n {
        let v = r.below(nvars);
        let e = match r.below(10) {
            0..=2 => format!("eq:{}", r.below(nvars)),
            3 if cyclic => format!("map:{}:{}", r.below(nvars), v),
            _ => random_te(r, nvars, packed),
        };
        if e == "conflict" {
            continue;
        }
        js.push(format!("{v}>{e}"));
    }
    js
}

pub const UNIFY_FIXED: [&str; 8] = [
    "sorted 3 2000 0>eq:1 1>eq:2 0>word:?:numeric 2>word:256:unsignedNumeric",
    "sorted 4 2000 0>map:1:2 0>map:3:3 1>word:160:address 2>word:?:bytes",
    "sorted 3 2000 0>dyn:1 0>word:?:unsignedNumeric 0>bytes",
    "sorted 3 2000 0>word:8:bool 0>word:160:address 0>bytes",
    "sorted 2 2000 0>packed:p:0,0,160 0>word:160:address",            // self-referential packed (D12)
    "sorted 4 2000 0>packed:p:1,0,8/2,8,8 0>packed:p:3,0,16",
    "sorted 3 2000 0>packed:p:1,0,128 0>word:128:unsignedNumeric",
    "sorted 2 2000 0>map:0:1 0>eq:1",
];

pub fn generate_unify(seed: u64, n: usize, _tier: &str, emit: &mut dyn FnMut(String)) {
    for f in UNIFY_FIXED {
        emit(f.to_string());
    }
    for idx in 0..n {
        let mut r = Rng::for_case(seed, "unify", idx);
        let big = r.chance(1, 8);
        let nvars = 1 + r.below(if big { 40 } else { 7 });
        let packed = r.chance(1, 3);
        let cyclic = r.chance(1, 5);
        let js = gen_judgements(&mut r, nvars, packed, cyclic);
        // polling interval: 1 for most, otherwise anything from 2 up (C13: the unification loop
        // polls once per `interval` classes that hold evidence)
        let every = if r.chance(1, 2) { 1 } else { [2usize, 3, 5, 7, 10, 100][r.below(6)] };
        if every == 1 {
            emit(format!("sorted {nvars} 3000 {}", js.join(" ")));
        } else {
            emit(format!("sorted@{every} {nvars} 3000 {}", js.join(" ")));
        }
    }
}

// ------------------------------------------------------------------------------ truth (C15)

/// Family `truth`: judgement sets generated from a hidden ground-truth typing.
/// payload: `<mode> <nvars> <budget> <judgements…>` exactly as family `unify` (so `eval_unify` serves
/// it); the generator emits weakenings of the true type of each variable plus equalities between
/// same-typed variables, and (for odd indices) one injected contradiction.
#[derive(Clone)]
enum Truth {
    Word(Option<usize>, WordUse),
    Map(usize, usize),
    Dyn(usize),
    Fixed(usize, usize),
}

fn weaker_usages(u: WordUse) -> Vec<WordUse> {
    USAGES.iter().copied().filter(|x| x.merge(u) == Some(u)).collect()
}

pub fn generate_truth(seed: u64, n: usize, _tier: &str, emit: &mut dyn FnMut(String)) {
    for idx in 0..n {
        let mut r = Rng::for_case(seed, "truth", idx);
        let ngroups = 1 + r.below(5);
        // each group = a set of variables sharing one ground-truth type
        let mut truths: Vec<Truth> = vec![];
        let mut members: Vec<Vec<usize>> = vec![];
        let mut nvars = 0usize;
        for _ in 0..ngroups {
            let size = 1 + r.below(3);
            members.push((nvars..nvars + size).collect());
            nvars += size;
            truths.push(Truth::Word(None, WordUse::Bytes)); // placeholder
        }
        for g in 0..ngroups {
            let t = match r.below(10) {
                0..=5 => {
                    let u = USAGES[r.below(8)];
                    let w = match u.size() {
                        Some(s) => Some(s),
                        None => if r.chance(1, 4) { None } else { Some([8usize, 32, 64, 128, 160, 256][r.below(6)]) },
                    };
                    Truth::Word(w, u)
                }
                6 | 7 => Truth::Map(r.below(ngroups), r.below(ngroups)),
                8 => Truth::Dyn(r.below(ngroups)),
                _ => Truth::Fixed(r.below(ngroups), 1 + r.below(3)),
            };
            truths[g] = t;
        }
        let mut js: Vec<String> = vec![];
        // some key / value groups of a mapping are left without explicit equalities: their variables
        // are joined only through the component equalities of the mapping evidence itself (one
        // mapping judgement per member, all sharing the other component's variable)
        let mut unchained = vec![false; ngroups];
        for g in 0..ngroups {
            if let Truth::Map(k, val) = &truths[g] {
                let (k, val) = (*k, *val);
                // (not when a contradiction is injected below: a class that resolves to a conflict owes
                // nobody its component equalities, cf. the carve-out of C14)
                if idx % 2 == 0 && k != g && val != g && k != val && r.chance(1, 2) {
                    let (loose, fixed) = if r.chance(1, 2) { (k, val) } else { (val, k) };
                    if members[loose].len() >= 2 && !unchained[fixed] {
                        unchained[loose] = true;
                        let x = members[g][0];
                        let f0 = members[fixed][0];
                        for &m in &members[loose] {
                            if loose == k {
                                js.push(format!("{x}>map:{m}:{f0}"));
                            } else {
                                js.push(format!("{x}>map:{f0}:{m}"));
                            }
                        }
                    }
                }
            }
        }
        for g in 0..ngroups {
            let vs = members[g].clone();
            // equalities chaining the group's variables (sometimes redundantly)
            for w in vs.windows(2) {
                if unchained[g] {
                    continue;
                }
                if r.chance(4, 5) {
                    js.push(format!("{}>eq:{}", w[0], w[1]));
                } else {
                    js.push(format!("{}>eq:{}", w[1], w[0]));
                }
            }
            for &v in &vs {
                for _ in 0..1 + r.below(3) {
                    let e = match &truths[g] {
                        Truth::Word(w, u) => {
                            let us = weaker_usages(*u);
                            let uu = us[r.below(us.len())];
                            // a usage with a fixed size can only be stated at that size
                            let ww = match uu.size() {
                                Some(s) => Some(s),
                                None => if r.chance(1, 2) { None } else { *w },
                            };
                            if ww.is_some() && w.is_some() && ww != *w {
                                "any".to_string()
                            } else if r.chance(1, 6) {
                                "any".to_string()
                            } else {
                                format!("word:{}:{}", ww.map(|x| x.to_string()).unwrap_or_else(|| "?".into()), usage_name(uu))
                            }
                        }
                        Truth::Map(k, val) => {
                            if r.chance(1, 6) { "any".into() } else {
                                let kv = members[*k][r.below(members[*k].len())];
                                let vv = members[*val][r.below(members[*val].len())];
                                format!("map:{kv}:{vv}")
                            }
                        }
                        Truth::Dyn(e) => {
                            if r.chance(1, 6) { "any".into() } else {
                                format!("dyn:{}", members[*e][r.below(members[*e].len())])
                            }
                        }
                        Truth::Fixed(e, len) => {
                            if r.chance(1, 6) { "any".into() } else {
                                format!("fixed:{}:{len}", members[*e][r.below(members[*e].len())])
                            }
                        }
                    };
                    js.push(format!("{v}>{e}"));
                }
            }
        }
        let mut mode = "join";
        if idx % 2 == 1 {
            // inject one plain contradiction into a random group
            let g = r.below(ngroups);
            let v = members[g][r.below(members[g].len())];
            let bad = match &truths[g] {
                Truth::Word(w, u) => match r.below(3) {
                    0 if w.is_some() => format!("word:{}:{}", w.unwrap() + 8, usage_name(if u.size().is_some() { WordUse::Numeric } else { *u })),
                    1 => format!("map:{v}:{v}"),
                    _ => {
                        // an incomparable usage
                        let bads: Vec<WordUse> = USAGES.iter().copied().filter(|x| x.merge(*u).is_none()).collect();
                        if bads.is_empty() { format!("map:{v}:{v}") } else {
                            let b = bads[r.below(bads.len())];
                            format!("word:{}:{}", b.size().map(|x| x.to_string()).unwrap_or_else(|| "?".into()), usage_name(b))
                        }
                    }
                },
                Truth::Map(..) => if r.chance(1, 2) { format!("fixed:{v}:2") } else { "word:160:address".to_string() },
                Truth::Dyn(_) => format!("map:{v}:{v}"),
                Truth::Fixed(e, len) => if r.chance(1, 2) { format!("fixed:{}:{}", members[*e][0], len + 1) } else { format!("map:{v}:{v}") },
            };
            js.push(format!("{v}>{bad}"));
            mode = "contra";
            // remember which variable was poisoned by putting it first
            js.insert(0, format!("{v}>any"));
        }
        emit(format!("sorted {nvars} 3000 {mode} {}", js.join(" ")));
    }
}

pub fn eval_truth(payload: &str) -> String {
    // strip the mode token and reuse the unify evaluation
    let t: Vec<&str> = payload.split_whitespace().collect();
    let rest: Vec<&str> = t[..3].iter().chain(t[4..].iter()).copied().collect();
    eval_unify(&rest.join(" "))
}
