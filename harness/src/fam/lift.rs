//! Families `hash` (Keccak used by the passes) and `lift` (the nine lifting passes).
//! lift payload: a value tree; answer: the lifted tree (or `err …` / `PANIC …`).
use std::rc::Rc;

use ethnum::U256;
use storage_layout_extractor::{
    disassembly::InstructionStream,
    tc::{lift::{proxy_slots::ProxySlots, LiftingPasses}, state::TypeCheckerState},
    vm::{value::known::KnownWord, VM},
    watchdog::LazyWatchdog,
};

use crate::{fam::{pipeline, vm}, rng::Rng, sv, util};

pub fn eval_hash(payload: &str) -> String {
    let words: Vec<KnownWord> =
        payload.split_whitespace().map(|w| KnownWord::from_le(U256::from_str_hex(w).expect("hex"))).collect();
    format!("0x{:x}", ProxySlots::sha3_known_words(&words).value_le())
}

pub fn generate_hash(seed: u64, n: usize, _tier: &str, emit: &mut dyn FnMut(String)) {
    for i in 0..40u64 {
        emit(format!("0x{i:x}"));
    }
    emit("0x20 0x5 0x68656c6c6f000000000000000000000000000000000000000000000000000000".into());
    let bw = crate::fam::value::boundary_words();
    for idx in 0..n {
        let mut r = Rng::for_case(seed, "hash", idx);
        let k = 1 + r.below(5);
        let ws: Vec<String> = (0..k).map(|_| format!("0x{:x}", crate::fam::value::random_word(&mut r, &bw))).collect();
        emit(ws.join(" "));
    }
}

/// `ok`, or the first node (preorder) whose reported size is not its number of nodes
fn size_check<A: Clone + std::fmt::Debug + PartialEq>(v: &std::sync::Arc<storage_layout_extractor::vm::value::SV<A>>) -> String
where
    storage_layout_extractor::vm::value::SV<A>: Sized,
{
    fn count<A: Clone + std::fmt::Debug + PartialEq>(v: &std::sync::Arc<storage_layout_extractor::vm::value::SV<A>>, bad: &mut Option<String>) -> usize {
        let kids = v.children();
        let n = 1 + kids.iter().map(|c| count(c, bad)).sum::<usize>();
        if bad.is_none() && v.size() != n {
            *bad = Some(format!("bad:reports-{}-has-{}", v.size(), n));
        }
        n
    }
    let mut bad = None;
    count(v, &mut bad);
    bad.unwrap_or_else(|| "ok".into())
}

pub fn eval_lift(payload: &str) -> String {
    let mut ids = sv::Ids::default();
    let Some(v) = sv::parse(payload, &mut ids, None) else { return "err unparsable".into() };
    let state = TypeCheckerState::empty();
    // building the default passes hashes 10,000 slot numbers: do it once per process
    thread_local! {
        static PASSES: std::cell::RefCell<Option<LiftingPasses>> = const { std::cell::RefCell::new(None) };
    }
    PASSES.with(|p| {
        let mut p = p.borrow_mut();
        let passes = p.get_or_insert_with(LiftingPasses::default);
        match passes.run(v, &state) {
            Ok(out) => {
                // C18: after the passes every node still reports its true number of nodes
                let sz = size_check(&out);
                format!("{} ## sz={sz}", sv::to_text(&*out, &mut ids))
            }
            Err(_) => "err lift".into(),
        }
    })
}

/// values harvested from executing a program
pub fn harvest(cfg: &str, bytes: &[u8]) -> Vec<String> {
    let Ok(stream) = InstructionStream::try_from(bytes) else { return vec![] };
    let Ok(mut machine) = VM::new(stream, vm::parse_cfg(cfg), LazyWatchdog.in_rc()) else { return vec![] };
    let _ = machine.execute();
    let result = machine.consume();
    let mut seen = std::collections::HashSet::new();
    let mut out = vec![];
    for v in result.all_values() {
        let mut ids = sv::Ids::default();
        let t = sv::to_text(&*v, &mut ids);
        if t.len() < 6000 && seen.insert(t.clone()) {
            out.push(t);
        }
    }
    out.sort();
    out
}

fn k(w: &str) -> String {
    format!("(knownData 1 {w} |)")
}

pub fn generate_lift(seed: u64, n: usize, _tier: &str, emit: &mut dyn FnMut(String)) {
    // directed trees: masks and shifts anywhere in 0..2^256, mapping / array key shapes in keys and values
    let sload = format!("(sLoad 0 | {} (unwrittenStorageValue 0 | {}))", k("0x0"), k("0x0"));
    let masks = ["0xff", "0xff00", "0xffffffffffffffffffffffffffffffffffffffff", "0x8000000000000000000000000000000000000000000000000000000000000000",
                 "0xffffffffffffffffffffffffffffffffffffffffffffffffffffffffffffffff", "0x5", "0x0", "0xff0000000000000000000000000000000000000000000000000000000000"];
    let shifts = ["0x0", "0x8", "0xa0", "0xff", "0x100", "0x12c", "0xffffffffffffffff", "0x10000000000000000", "0xffffffffffffffffffffffffffffffffffffffffffffffffffffffffffffffff"];
    for m in masks {
        for s in shifts {
            emit(format!("(and 0 | (rightShift 0 | {} {sload}) {})", k(s), k(m)));
            emit(format!("(storageWrite 0 | {} (and 0 | {} (rightShift 0 | {} {sload})))", k("0x1"), k(m), k(s)));
            emit(format!("(storageWrite 0 | {} (multiply 0 | {} (and 0 | (caller 1 |) {})))", k("0x2"), k(s), k(m)));
            emit(format!("(and 0 | (divide 0 | {sload} {}) {})", k(s), k(m)));
        }
    }
    // fields moved by a multiplication right up to the end of the word: ends at 255, 256, 257, 258
    for (mask, len) in [("0x1", 1usize), ("0xff", 8), ("0xffffffffffffffffffffffffffffffff", 128),
                        ("0xffffffffffffffffffffffffffffffffffffffff", 160)] {
        for end in [255usize, 256, 257, 258] {
            let sh = end - len;
            if sh >= 256 {
                continue;
            }
            let pow = format!("0x{:x}", ethnum::U256::ONE << (sh as u32));
            emit(format!("(storageWrite 0 | {} (multiply 0 | (and 0 | (caller 1 |) {}) {}))", k("0x2"), k(mask), k(&pow)));
            emit(format!("(storageWrite 0 | {} (or 0 | (and 0 | (callValue 1 |) {}) (multiply 0 | {} (and 0 | (caller 1 |) {}))))",
                k("0x3"), k("0xff"), k(&pow), k(mask)));
        }
    }
    // hash look-alikes in keys and in values
    let mapkey = |slot: &str| format!("(sha3 0 | (concat 0 | (caller 1 |) {}))", k(slot));
    for slot in ["0x0", "0x5", "0x270f", "0x2710", "0xffffffffffffffffffffffffffffffff"] {
        emit(format!("(sLoad 0 | {} (unwrittenStorageValue 0 | {}))", mapkey(slot), mapkey(slot)));
        emit(format!("(storageWrite 0 | {} {})", k("0x0"), mapkey(slot)));
        emit(format!("(storageWrite 0 | (add 0 | (sha3 0 | (concat 0 | {})) (callValue 1 |)) (caller 1 |))", k(slot)));
        emit(format!("(storageWrite 0 | (add 0 | {} {}) (caller 1 |))", mapkey(slot), k("0x3")));
        emit(format!("(log 0 | {} {})", mapkey(slot), k("0x1")));
    }
    // constants that are the Keccak image of a small slot number: the one pass that turns a leaf into
    // a tree (sizes must follow, C18), as key, inside key arithmetic, and as a stored value
    {
        use storage_layout_extractor::{tc::lift::proxy_slots::ProxySlots, vm::value::known::KnownWord};
        for i in [0usize, 1, 3, 9999, 10000] {
            let h = format!("0x{:x}", ProxySlots::sha3_known_words(&[KnownWord::from(i)]).value_le());
            emit(format!("(sLoad 0 | {} (unwrittenStorageValue 0 | {}))", k(&h), k(&h)));
            emit(format!("(storageWrite 0 | (add 0 | {} (callValue 1 |)) (caller 1 |))", k(&h)));
            emit(format!("(storageWrite 0 | {} {})", k("0x7"), k(&h)));
            emit(format!("(add 0 | (add 0 | {} {}) (and 0 | {} {}))", k(&h), k("0x1"), k(&h), k("0xff")));
        }
    }
    // harvested from executed programs
    let mut count = 0;
    let mut idx = 0;
    while count < n && idx < n * 4 + 10 {
        let mut r = Rng::for_case(seed, "lift", idx);
        idx += 1;
        let (cfg, prog) = if r.chance(1, 3) {
            // ground-truth idiom programs (incl. multi-field packed writes, text-like slots)
            let mut used = vec![];
            let nv = 1 + r.below(4);
            let vars: Vec<crate::fam::idiom::Var> = (0..nv).map(|_| crate::fam::idiom::random_var(&mut r, &mut used)).collect();
            let shape = r.below(2);
            ("30000000,10,50,250,394,1".to_string(), crate::fam::idiom::program(&mut r, &vars, shape))
        } else if r.chance(1, 2) {
            ("30000000,10,50,250,394,1".to_string(), pipeline::gen_idiom_program(&mut r))
        } else {
            let f = r.below(4);
            (vm::gen_cfg(&mut r, f), vm::gen_program(&mut r, f))
        };
        for t in harvest(&cfg, &prog) {
            if count >= n {
                break;
            }
            // skip the trivial leaves most of the time
            if t.len() < 40 && !r.chance(1, 10) {
                continue;
            }
            emit(t);
            count += 1;
        }
    }
    let _ = Rc::new(0);
}
