//! Family `vm`: payload `<gas>,<iter>,<fork>,<valsize>,<mem>,<permissive 0|1> <hex bytecode>`.
//! Answer: a canonical dump of the finished machine (see `dump`).
use std::rc::Rc;

use storage_layout_extractor::{
    disassembly::InstructionStream,
    error::execution::Error as XErr,
    opcode::{control, DynOpcode},
    vm::{state::memory::MemStoreSize, state::VMState, Config, VM},
    watchdog::LazyWatchdog,
};

use crate::{rng::Rng, sv, util};

pub fn parse_cfg(s: &str) -> Config {
    let p: Vec<usize> = s.split(',').map(|x| x.parse().unwrap()).collect();
    Config::default()
        .with_gas_limit(p[0])
        .with_max_iterations_per_opcode(p[1])
        .with_max_forks_per_fork_target(p[2])
        .with_value_size_limit(p[3])
        .with_memory_max_bytes(p[4])
        .with_permissive_errors(p[5] != 0)
}

pub fn err_name(e: &XErr) -> String {
    match e {
        XErr::InstructionPointerOutOfBounds { .. } => "InstructionPointerOutOfBounds".into(),
        XErr::StackDepthExceeded { .. } => "StackDepthExceeded".into(),
        XErr::NoSuchStackFrame { .. } => "NoSuchStackFrame".into(),
        XErr::NoSuchThread => "NoSuchThread".into(),
        XErr::InvalidStep => "InvalidStep".into(),
        XErr::InvalidOffsetForJump { .. } => "InvalidOffsetForJump".into(),
        XErr::InvalidJumpTarget { .. } => "InvalidJumpTarget".into(),
        XErr::NonExistentJumpTarget { .. } => "NonExistentJumpTarget".into(),
        XErr::NoConcreteJumpDestination => "NoConcreteJumpDestination".into(),
        XErr::GasLimitExceeded => "GasLimitExceeded".into(),
        XErr::NotJumpTarget { .. } => "NotJumpTarget".into(),
        XErr::NotJumpSource { .. } => "NotJumpSource".into(),
        XErr::StoppedByWatchdog => "StoppedByWatchdog".into(),
        #[allow(unreachable_patterns)]
        other => format!("{other:?}").split(|c: char| !c.is_alphanumeric()).next().unwrap_or("?").to_string(),
    }
}

fn gens(vals: &[(String, char)]) -> String {
    let items: Vec<String> = vals.iter().map(|(t, c)| format!("{t}/{c}")).collect();
    items.join(";")
}

pub fn dump_state(st: &VMState, len: usize) -> String {
    let mut out = String::new();
    out.push_str(&format!("fp={} vis=[", st.fork_point()));
    let vis: Vec<String> = (0..len)
        .map(|i| st.visited_instructions().visit_count(i as u32).map(|c| c.to_string()).unwrap_or_else(|_| "?".into()))
        .collect();
    out.push_str(&vis.join(","));
    out.push_str("] stack=[");
    let depth = st.stack().depth();
    let stack: Vec<String> = (0..depth).map(|d| sv::to_text_ip(&**st.stack().read(d as u32).unwrap())).collect();
    out.push_str(&stack.join(";"));
    out.push_str("] memc=[");
    let mut mc = st.memory().verif_constant_generations();
    mc.sort_by_key(|(k, _)| *k);
    let mcs: Vec<String> = mc
        .iter()
        .map(|(k, g)| {
            let v: Vec<(String, char)> =
                g.iter().map(|(d, s)| (sv::to_text_ip(&**d), if *s == MemStoreSize::Word { 'W' } else { 'B' })).collect();
            format!("{k}:{{{}}}", gens(&v))
        })
        .collect();
    out.push_str(&mcs.join(" "));
    out.push_str("] mems=[");
    let mut ms: Vec<String> = st
        .memory()
        .offsets()
        .iter()
        .map(|k| {
            let sizes = st.memory().verif_symbolic_sizes(k).unwrap_or_default();
            let g = st.memory().generations(k).unwrap_or_default();
            let v: Vec<(String, char)> = g
                .iter()
                .zip(sizes.iter())
                .map(|(d, s)| (sv::to_text_ip(&***d), if *s == MemStoreSize::Word { 'W' } else { 'B' }))
                .collect();
            format!("{}=>{{{}}}", sv::to_text_ip(&***k), gens(&v))
        })
        .collect();
    ms.sort();
    out.push_str(&ms.join(" "));
    out.push_str("] st=[");
    let mut ss: Vec<String> = st
        .storage()
        .keys()
        .iter()
        .map(|k| {
            let g = st.storage().generations(k).unwrap_or_default();
            let v: Vec<String> = g.iter().map(|d| sv::to_text_ip(&***d)).collect();
            format!("{}=>{{{}}}", sv::to_text_ip(&***k), v.join(";"))
        })
        .collect();
    ss.sort();
    out.push_str(&ss.join(" "));
    out.push_str("] rec=[");
    let rec: Vec<String> = st.recorded_values().iter().map(|v| sv::to_text_ip(&**v)).collect();
    out.push_str(&rec.join(";"));
    out.push_str("] log=[");
    let log: Vec<String> = st.logged_values().iter().map(|v| sv::to_text_ip(&**v)).collect();
    out.push_str(&log.join(";"));
    out.push(']');
    out
}

pub fn run_vm(cfg: &str, bytes: &[u8]) -> String {
    let stream = match InstructionStream::try_from(bytes) {
        Ok(s) => s,
        Err(e) => return format!("disasm-err {}", crate::fam::disasm::err_name(&e.payload)),
    };
    let len = stream.len();
    let ops: Rc<Vec<DynOpcode>> = stream.clone().into();
    let config = parse_cfg(cfg);
    let mut vm = match VM::new(stream, config, LazyWatchdog.in_rc()) {
        Ok(v) => v,
        Err(e) => return format!("vm-new-err {}", err_name(&e.payload)),
    };
    let res = vm.execute();
    let mut out = String::new();
    match &res {
        Ok(()) => out.push_str("res=ok errs=[]"),
        Err(es) => {
            let items: Vec<String> = es.payloads().iter().map(|e| format!("{}:{}", e.location, err_name(&e.payload))).collect();
            out.push_str(&format!("res=err errs=[{}]", items.join(";")));
        }
    }
    let forks: Vec<String> = (0..len)
        .filter(|i| ops[*i].as_any().downcast_ref::<control::JumpDest>().is_some())
        .map(|i| format!("{i}:{}", vm.jump_targets().cond_jump_count(i as u32).unwrap_or(9999)))
        .collect();
    out.push_str(&format!(" queue={} forks=[{}]", vm.remaining_thread_count(), forks.join(";")));
    let states = vm.stored_states();
    out.push_str(&format!(" nstates={}", states.len()));
    for (i, st) in states.iter().enumerate() {
        out.push_str(&format!(" || S{i} "));
        out.push_str(&dump_state(st, len));
    }
    out
}

pub fn eval(payload: &str) -> String {
    let (cfg, hexs) = payload.split_once(' ').expect("cfg bytes");
    let bytes = util::hex_to_bytes(hexs);
    run_vm(cfg, &bytes)
}

/// Family `vm2`: the same program under strict and permissive error mode.
pub fn eval2(payload: &str) -> String {
    let (cfg, hexs) = payload.split_once(' ').expect("cfg bytes");
    let bytes = util::hex_to_bytes(hexs);
    let base: Vec<&str> = cfg.split(',').collect();
    let strict = format!("{},{},{},{},{},0", base[0], base[1], base[2], base[3], base[4]);
    let perm = format!("{},{},{},{},{},1", base[0], base[1], base[2], base[3], base[4]);
    format!("{} ### {}", run_vm(&strict, &bytes), run_vm(&perm, &bytes))
}

pub fn generate2(seed: u64, n: usize, _tier: &str, emit: &mut dyn FnMut(String)) {
    for f in FIXED {
        emit(format!("30000000,10,50,250,394,0 {f}"));
        emit(format!("300,2,2,5,64,0 {f}"));
        emit(format!("50,3,3,50,64,0 {f}"));
        emit(format!("5,1,2,50,64,0 {f}"));
    }
    for idx in 0..n {
        let mut r = Rng::for_case(seed, "vm2", idx);
        // bias towards bad jumps / underflows / gas exhaustion
        let flavour = [2usize, 2, 2, 0, 3][r.below(5)];
        let prog = gen_program(&mut r, flavour);
        let cfg = gen_cfg(&mut r, flavour);
        emit(format!("{cfg} {}", util::bytes_to_hex(&prog)));
    }
}

// ------------------------------------------------------------------------------ generator

pub struct Asm {
    pub bytes: Vec<u8>,
    fixups: Vec<(usize, usize)>, // (position of 2-byte immediate, label)
    labels: Vec<Option<usize>>,
}

impl Asm {
    pub fn new(nlabels: usize) -> Self {
        Asm { bytes: vec![], fixups: vec![], labels: vec![None; nlabels] }
    }
    pub fn op(&mut self, b: u8) {
        self.bytes.push(b);
    }
    pub fn push_word(&mut self, w: &[u8]) {
        // minimal-width push of a big-endian word (at least one byte)
        let w: Vec<u8> = {
            let mut v: Vec<u8> = w.iter().copied().skip_while(|b| *b == 0).collect();
            if v.is_empty() {
                v.push(0);
            }
            v
        };
        self.bytes.push(0x5f + w.len() as u8);
        self.bytes.extend(w);
    }
    pub fn push_u(&mut self, n: u64) {
        self.push_word(&n.to_be_bytes());
    }
    pub fn push_label(&mut self, l: usize) {
        self.bytes.push(0x61);
        self.fixups.push((self.bytes.len(), l));
        self.bytes.extend([0, 0]);
    }
    /// PUSH5 of `2^32 + address of label` (a target whose low 32 bits name a JUMPDEST)
    pub fn push_label_high(&mut self, l: usize) {
        self.push_label_bit(l, 32);
    }
    /// PUSHn of `2^bit + address of label` for `bit >= 16`: the low bits name a JUMPDEST, the
    /// whole 256-bit value does not.
    pub fn push_label_bit(&mut self, l: usize, bit: usize) {
        let nbytes = bit / 8 + 1;
        self.bytes.push(0x5f + nbytes as u8);
        let mut imm = vec![0u8; nbytes];
        imm[0] = 1 << (bit % 8);
        let start = self.bytes.len();
        self.bytes.extend(imm);
        self.fixups.push((start + nbytes - 2, l));
    }
    pub fn label(&mut self, l: usize) {
        self.labels[l] = Some(self.bytes.len());
        self.bytes.push(0x5b);
    }
    pub fn finish(mut self) -> Vec<u8> {
        for (pos, l) in &self.fixups {
            let t = self.labels[*l].unwrap_or(0xffff) as u16;
            self.bytes[*pos] = (t >> 8) as u8;
            self.bytes[*pos + 1] = (t & 0xff) as u8;
        }
        self.bytes
    }
}

const ALU2: [u8; 22] = [0x01, 0x02, 0x03, 0x04, 0x05, 0x06, 0x07, 0x0a, 0x0b, 0x10, 0x11, 0x12, 0x13, 0x14, 0x16, 0x17, 0x18, 0x1a, 0x1b, 0x1c, 0x1d, 0x01];
const ENV0: [u8; 17] = [0x30, 0x32, 0x33, 0x34, 0x36, 0x38, 0x3a, 0x3d, 0x41, 0x42, 0x43, 0x44, 0x45, 0x46, 0x47, 0x48, 0x5a];

fn hostile_word(r: &mut Rng) -> Vec<u8> {
    let bw = crate::fam::value::boundary_words();
    let w = crate::fam::value::random_word(r, &bw);
    w.to_be_bytes().to_vec()
}

/// Emits a stack-safe body; `depth` tracks the stack.
fn body(r: &mut Rng, a: &mut Asm, depth: &mut usize, n: usize, flavour: usize) {
    for _ in 0..n {
        let c = r.below(100);
        if *depth < 2 || c < 22 {
            match r.below(6) {
                0 => a.push_u(r.below(8) as u64),
                1 => a.push_u([0u64, 1, 31, 32, 64, 255, 256, 0x40, 0x80][r.below(9)]),
                2 => { let w = hostile_word(r); a.push_word(&w) }
                3 => a.op(*r.pick(&ENV0)),
                4 => a.op(0x5f),
                _ => a.push_u(r.next() & 0xffff),
            }
            *depth += 1;
        } else if c < 45 {
            a.op(*r.pick(&ALU2));
            *depth -= 1;
        } else if c < 50 {
            a.op([0x15u8, 0x19, 0x31, 0x35, 0x3b, 0x3f, 0x40][r.below(7)]); // unary
        } else if c < 58 {
            let k = 1 + r.below((*depth).min(16));
            a.op(0x7f + k as u8); // DUPk
            *depth += 1;
        } else if c < 64 {
            let k = 1 + r.below((*depth - 1).min(16));
            a.op(0x8f + k as u8); // SWAPk
        } else if c < 68 {
            a.op(0x50);
            *depth -= 1;
        } else if c < 76 {
            // MSTORE / MSTORE8 at a mostly-constant, mostly-aligned offset
            if r.chance(3, 4) {
                a.push_u([0u64, 32, 64, 96, 0x40, 0x80, 1, 33][r.below(8)]);
                *depth += 1;
            }
            a.op(if r.chance(1, 8) { 0x53 } else { 0x52 });
            *depth -= 2;
        } else if c < 82 {
            if r.chance(3, 4) {
                a.push_u([0u64, 32, 64, 96, 0x40, 1][r.below(6)]);
            } else {
                a.op(0x33);
            }
            a.op(0x51); // MLOAD
            *depth += 1;
        } else if c < 89 {
            // SSTORE / SLOAD with literal, computed or symbolic keys
            match r.below(4) {
                0 => a.push_u(r.below(6) as u64),
                1 => { a.push_u(r.below(3) as u64); a.push_u(r.below(3) as u64); a.op(0x01) }
                2 => { let w = hostile_word(r); a.push_word(&w) }
                _ => a.op(0x33),
            }
            *depth += 1;
            if r.chance(1, 2) {
                a.op(0x54);
            } else {
                a.op(0x55);
                *depth -= 2;
            }
        } else if c < 93 && flavour != 1 {
            // SHA3 over a constant window
            a.push_u([0u64, 32, 64, 100][r.below(4)]);
            a.push_u([0u64, 0, 32, 64][r.below(4)]);
            a.op(0x20);
            *depth += 1;
        } else if c < 96 && flavour != 1 {
            // a copy opcode with constant size
            a.push_u([0u64, 1, 32, 64, 100][r.below(5)]);
            a.push_u(r.below(64) as u64);
            a.push_u([0u64, 32, 64][r.below(3)]);
            a.op([0x37u8, 0x39, 0x3e][r.below(3)]);
        } else if c < 98 {
            a.op(0x58); // PC
            *depth += 1;
        } else {
            a.op([0x59u8, 0x36, 0x3d][r.below(3)]);
            *depth += 1;
        }
        if *depth > 900 {
            a.op(0x50);
            *depth -= 1;
        }
    }
}

/// A program of blocks behind JUMPDESTs linked by JUMP / JUMPI, with optional bad targets,
/// underflows, dead code, loops.
pub fn gen_program(r: &mut Rng, flavour: usize) -> Vec<u8> {
    let nblocks = 1 + r.below(6);
    let mut a = Asm::new(nblocks + 2);
    let mut depth = 0usize;
    let bad_jumps = flavour == 2 || r.chance(1, 5);
    // label `nblocks + 1`: a 0x5b byte inside the immediate of a PUSH cut short by the end of the code
    let tail_label = nblocks + 1;
    let mut wants_tail = false;
    let loops = flavour == 3 || r.chance(1, 4);
    for b in 0..nblocks {
        if b > 0 {
            a.label(b);
            // a fresh block may be entered with any depth >= the minimum we keep
        }
        let nbody = r.below(8);
        body(r, &mut a, &mut depth, nbody, flavour);
        let t = r.below(100);
        let target = if loops && r.chance(1, 2) { 1 + r.below(b.max(1)) } else { (b + 1 + r.below(nblocks)).min(nblocks) };
        let target = if target >= nblocks { b.max(1).min(nblocks - 1).max(1).min(nblocks.saturating_sub(1)).max(0) } else { target };
        let mut push_target = |r: &mut Rng, a: &mut Asm| {
            if bad_jumps && r.chance(1, 3) {
                match r.below(7) {
                    6 => { wants_tail = true; a.push_label(tail_label) }
                    0 => a.push_u(0xffff),                         // out of range
                    1 => a.push_u(1),                              // not a JUMPDEST (probably)
                    2 => {
                        // a huge target whose low bits name a JUMPDEST
                        if target > 0 && target < nblocks {
                            let bit = [32usize, 33, 40, 63, 64, 65, 96, 127, 128, 160, 200, 255][r.below(12)];
                            a.push_label_bit(target, bit)
                        } else {
                            a.push_word(&[1, 0, 0, 0, 0])
                        }
                    }
                    3 => { let w = hostile_word(r); a.push_word(&w) }
                    4 => a.op(0x33),                               // symbolic
                    _ => { a.push_u(2); a.push_u(3); a.op(0x01) }  // computed constant
                }
            } else if target == 0 || target >= nblocks {
                a.push_u(0xfff0);
            } else {
                a.push_label(target);
            }
        };
        if t < 30 && nblocks > 1 {
            push_target(r, &mut a);
            a.op(0x56);
        } else if t < 65 && nblocks > 1 {
            // condition then target
            match r.below(3) {
                0 => a.op(0x36),
                1 => a.push_u(r.below(2) as u64),
                _ => { a.op(0x34); a.op(0x15) }
            }
            push_target(r, &mut a);
            a.op(0x57);
        } else if t < 75 {
            a.op(0x00);
        } else if t < 82 {
            a.push_u([0u64, 32, 64][r.below(3)]);
            a.push_u([0u64, 0, 32][r.below(3)]);
            a.op(if r.chance(1, 2) { 0xf3 } else { 0xfd });
        } else if t < 86 {
            a.op(0xfe);
        } else if t < 89 {
            a.op(0x33);
            a.op(0xff);
        } else if t < 92 {
            a.op([0x0cu8, 0x21, 0xef, 0xa5][r.below(4)]); // unassigned byte
        } else if flavour == 2 && t < 96 {
            a.op(0x50); // possible underflow
            a.op(0x50);
        }
        // otherwise fall through
    }
    if r.chance(1, 3) {
        a.op(0x00);
    }
    if wants_tail {
        // PUSHn with fewer immediate bytes than announced, the last one being 0x5b
        let n = 2 + r.below(31);
        let k = 1 + r.below(n - 1);
        a.bytes.push(0x5f + n as u8);
        for _ in 0..k - 1 {
            let b = if r.chance(1, 3) { 0x5b } else { r.byte() };
            a.bytes.push(b);
        }
        a.label(tail_label);
        return a.finish();
    }
    let mut bytes = a.finish();
    if bytes.is_empty() {
        bytes.push(0x00);
    }
    if r.chance(1, 12) {
        // leave a truncated push at the very end
        bytes.push(0x60 + r.below(32) as u8);
    }
    bytes
}

/// Loop shapes: headers entered from several places, conditional edges pointing forwards or
/// backwards, unconditional back edges, nested loops.
pub fn gen_loop_program(r: &mut Rng) -> Vec<u8> {
    let n = 2 + r.below(4);
    let mut a = Asm::new(n + 1);
    let mut depth = 0usize;
    let cond = |r: &mut Rng, a: &mut Asm| match r.below(3) {
        0 => a.op(0x36),
        1 => { a.op(0x36); a.op(0x15) }
        _ => a.push_u(1),
    };
    // entry: optionally jump conditionally into the middle of the loop structure
    for _ in 0..r.below(3) {
        cond(r, &mut a);
        a.push_label(1 + r.below(n - 1));
        a.op(0x57);
    }
    if r.chance(1, 3) {
        a.op(0x00);
    }
    for b in 1..n {
        a.label(b);
        let nb = r.below(3);
        body(r, &mut a, &mut depth, nb, 1);
        match r.below(6) {
            0 | 1 => {
                // conditional edge to any block (forwards or backwards), then fall through / stop
                cond(r, &mut a);
                a.push_label(1 + r.below(n - 1));
                a.op(0x57);
                if r.chance(1, 3) {
                    a.op(0x00);
                }
            }
            2 | 3 => {
                // unconditional edge to any block
                a.push_label(1 + r.below(n - 1));
                a.op(0x56);
            }
            4 => {
                // two conditional edges
                cond(r, &mut a);
                a.push_label(1 + r.below(n - 1));
                a.op(0x57);
                cond(r, &mut a);
                a.push_label(1 + r.below(n - 1));
                a.op(0x57);
            }
            _ => {}
        }
    }
    a.op(0x00);
    a.finish()
}

pub fn gen_cfg(r: &mut Rng, flavour: usize) -> String {
    let iter = if flavour == 3 { 1 + r.below(12) } else { [1usize, 2, 3, 10][r.below(4)] };
    let fork = if flavour == 3 { 1 + r.below(60) } else { [1usize, 2, 5, 50][r.below(4)] };
    let gas = [5usize, 50, 300, 1000, 30_000, 30_000_000, 30_000_000][r.below(7)];
    let val = [1usize, 3, 9, 30, 250][r.below(5)];
    let mem = [32usize, 64, 394][r.below(3)];
    format!("{gas},{iter},{fork},{val},{mem},{}", r.below(2))
}

pub const FIXED: [&str; 28] = [
    "67ffffffffffffffff600060003900",      // CODECOPY with size 2^64-1
    "600019600060003900",                  // CODECOPY with size 2^256-1
    "67ffffffffffffffe1600060003700",      // CALLDATACOPY with size 2^64-31
    "600019600060003e00",                  // RETURNDATACOPY with size 2^256-1
    "67ffffffffffffffff60006000333c00",    // EXTCODECOPY with size 2^64-1
    "67fffffffffffffff0600160003900",       // CODECOPY, size 2^64-16, offset 1

    "60055600615b",                       // JUMP into the only immediate byte (0x5b) of a PUSH2 cut short by the end of the code
    "6001600757005b00615b",               // JUMPI into a truncated tail ... and a real JUMPDEST before it
    "600556007f5b5b",                     // PUSH32 with two immediate bytes, both 0x5b
    "6004565b605b",                       // complete PUSH1 0x5b as the last instruction: its immediate is not a destination
    "6003565b00",                         // PUSH1 3 JUMP JUMPDEST STOP
    "600160ff5700",                       // JUMPI to a bad target
    "6401000000095600005b00",             // jump target >= 2^32 whose low bits name a JUMPDEST
    "6001640100000009570000005b6001600055", // the same through JUMPI
    "33ff6001600055",                     // code after SELFDESTRUCT
    "5b6001600057",                       // JUMPI loop onto offset 0
    "5b600056",                           // JUMP loop
    "5b366000575b36600657",               // two fork targets
    "6005600161010001b500",               // junk
    "60016002016000556003600054",         // computed storage key vs literal
    "7fffffffffffffffffffffffffffffffffffffffffffffffffffffffffffffffff600052",
    "6040356020350160005260206000f3",
    "5b60018054016001555b366000576000ff",
    "36600b57005b36600b57005b600556",     // forward conditional edge into a header that a backward JUMP re-enters
    "6001600055",                         // SSTORE as the last byte (gas exhaustion on the final instruction)
    "365600",                             // symbolic JUMP kills the thread (gas exhaustion on a thread-ending step)
    "50",                                 // stack underflow
    "60",                                 // bare push
];

pub fn generate(seed: u64, n: usize, _tier: &str, emit: &mut dyn FnMut(String)) {
    for f in FIXED {
        emit(format!("30000000,10,50,250,394,0 {f}"));
        emit(format!("1000,2,2,5,64,1 {f}"));
        emit(format!("50,3,3,50,64,0 {f}"));
        emit(format!("5,1,2,50,64,1 {f}"));
    }
    for idx in 0..n {
        let mut r = Rng::for_case(seed, "vm", idx);
        let flavour = r.below(5);
        let prog = if flavour == 4 { gen_loop_program(&mut r) } else { gen_program(&mut r, flavour) };
        let cfg = gen_cfg(&mut r, if flavour == 4 { 3 } else { flavour });
        emit(format!("{cfg} {}", util::bytes_to_hex(&prog)));
    }
}
