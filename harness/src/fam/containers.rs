//! Families `vmap` and `ds`: operation histories on `VectorMap` / `DisjointSet`.
//!
//! vmap ops (`;`-separated): `i k v` insert, `g k` get, `r k` remove, `l` len, `e` is_empty, `t` iter
//! ds ops: `i v` insert, `u a b` union, `a v d` add_data, `s v d` set_data, `f v` find,
//!         `g v` get_data, `S` sets, `V` values
//! The forest carries a *bag* (multiset) so that lost and duplicated data are both visible.
use storage_layout_extractor::data::{combine::Combine, disjoint_set::DisjointSet, vector_map::VectorMap};

use crate::rng::Rng;

#[derive(Clone, Debug, Default, Eq, PartialEq)]
pub struct Bag(pub Vec<u32>);

impl Combine for Bag {
    fn combine(self, other: Self) -> Self {
        let mut v = self.0;
        v.extend(other.0);
        v.sort_unstable();
        Bag(v)
    }
    fn identity() -> Self {
        Bag(vec![])
    }
}

fn bag_str(b: &Bag) -> String {
    let items: Vec<String> = b.0.iter().map(|x| x.to_string()).collect();
    format!("[{}]", items.join(","))
}

pub fn eval_vmap(payload: &str) -> String {
    let mut m: VectorMap<usize, u64> = VectorMap::new();
    let mut out: Vec<String> = vec![];
    for op in payload.split(';') {
        let t: Vec<&str> = op.split_whitespace().collect();
        if t.is_empty() {
            continue;
        }
        match t[0] {
            "i" => {
                m.insert(&t[1].parse().unwrap(), t[2].parse().unwrap());
                out.push("-".into());
            }
            "g" => out.push(match m.get(&t[1].parse().unwrap()) {
                Some(v) => format!("some{v}"),
                None => "none".into(),
            }),
            "r" => out.push(match m.remove(&t[1].parse().unwrap()) {
                Some(v) => format!("some{v}"),
                None => "none".into(),
            }),
            "l" => out.push(format!("{}", m.len())),
            "e" => out.push(format!("{}", m.is_empty())),
            "t" => {
                let items: Vec<String> = m.iter().map(|(k, v)| format!("{k}={v}")).collect();
                out.push(format!("{{{}}}", items.join(",")));
            }
            _ => out.push("?".into()),
        }
    }
    out.join(";")
}

pub fn eval_ds(payload: &str) -> String {
    let mut d: DisjointSet<usize, Bag> = DisjointSet::new();
    let mut out: Vec<String> = vec![];
    for op in payload.split(';') {
        let t: Vec<&str> = op.split_whitespace().collect();
        if t.is_empty() {
            continue;
        }
        let n = |i: usize| -> usize { t[i].parse().unwrap() };
        match t[0] {
            "i" => {
                d.insert(n(1));
                out.push("-".into());
            }
            "u" => {
                d.union(&n(1), &n(2));
                out.push("-".into());
            }
            "a" => {
                d.add_data(&n(1), Bag(vec![n(2) as u32]));
                out.push("-".into());
            }
            "s" => {
                d.set_data(&n(1), Bag(vec![n(2) as u32]));
                out.push("-".into());
            }
            "f" => out.push(format!("{}", d.find(&n(1)))),
            "g" => out.push(match d.get_data(&n(1)) {
                Some(b) => bag_str(b),
                None => "none".into(),
            }),
            "S" => {
                let mut sets: Vec<(usize, Bag)> = d.sets();
                sets.sort_by_key(|(k, _)| *k);
                let items: Vec<String> = sets.iter().map(|(k, b)| format!("{k}:{}", bag_str(b))).collect();
                out.push(format!("{{{}}}", items.join(" ")));
            }
            "V" => {
                let mut v = d.values();
                v.sort_unstable();
                let items: Vec<String> = v.iter().map(|x| x.to_string()).collect();
                out.push(format!("<{}>", items.join(",")));
            }
            _ => out.push("?".into()),
        }
    }
    out.join(";")
}

pub fn ds_suffix(universe: usize) -> String {
    let mut s = String::new();
    for v in 0..universe {
        s.push_str(&format!(";f {v}"));
    }
    for v in 0..universe {
        s.push_str(&format!(";g {v}"));
    }
    s.push_str(";S;V");
    s
}

pub fn ds_alphabet(universe: usize) -> Vec<String> {
    let mut a = vec![];
    for v in 0..universe {
        a.push(format!("i {v}"));
        a.push(format!("a {v} {}", v + 1));
        a.push(format!("s {v} 9"));
        a.push(format!("f {v}"));
        for w in 0..universe {
            a.push(format!("u {v} {w}"));
        }
    }
    a.push("S".into());
    a
}

pub fn enumerate(alpha: &[String], len: usize, suffix: &str, emit: &mut dyn FnMut(String)) {
    let mut idx = vec![0usize; len];
    loop {
        let ops: Vec<&str> = idx.iter().map(|&i| alpha[i].as_str()).collect();
        emit(format!("{}{}", ops.join(";"), suffix));
        let mut p = len;
        loop {
            if p == 0 {
                return;
            }
            p -= 1;
            idx[p] += 1;
            if idx[p] < alpha.len() {
                break;
            }
            idx[p] = 0;
        }
    }
}

pub fn generate_ds(seed: u64, n: usize, tier: &str, emit: &mut dyn FnMut(String)) {
    let uni = 3;
    let alpha = ds_alphabet(uni);
    let suffix = ds_suffix(uni);
    let maxlen = if tier == "thorough" { 4 } else { 3 };
    for len in 1..=maxlen {
        enumerate(&alpha, len, &suffix, emit);
    }
    // random longer histories over a larger universe
    for idx in 0..n {
        let mut r = Rng::for_case(seed, "ds", idx);
        let uni = [4usize, 8, 64][r.below(3)];
        let len = 1 + r.below(if tier == "thorough" { 400 } else { 60 });
        let mut ops: Vec<String> = vec![];
        for _ in 0..len {
            let v = r.below(uni);
            let w = if r.chance(1, 4) { v } else { r.below(uni) };
            ops.push(match r.below(20) {
                0..=2 => format!("i {v}"),
                3..=8 => format!("u {v} {w}"),
                9..=12 => format!("a {v} {}", r.below(5)),
                13 => format!("s {v} {}", r.below(5)),
                14..=15 => format!("f {v}"),
                16..=17 => format!("g {v}"),
                18 => "S".into(),
                _ => "V".into(),
            });
        }
        let mut s = ops.join(";");
        if uni <= 8 {
            s.push_str(&ds_suffix(uni));
        } else {
            s.push_str(";S;V");
        }
        emit(s);
    }
}

pub fn generate_vmap(seed: u64, n: usize, tier: &str, emit: &mut dyn FnMut(String)) {
    // exhaustive short histories over keys {0,1,2}
    let mut alpha: Vec<String> = vec![];
    for k in 0..3 {
        alpha.push(format!("i {k} {}", k + 7));
        alpha.push(format!("r {k}"));
    }
    let suffix = ";l;e;g 0;g 1;g 2;g 5;t";
    let maxlen = if tier == "thorough" { 6 } else { 5 };
    for len in 1..=maxlen {
        enumerate(&alpha, len, suffix, emit);
    }
    for idx in 0..n {
        let mut r = Rng::for_case(seed, "vmap", idx);
        let uni = [3usize, 10, 64][r.below(3)];
        let len = 1 + r.below(if tier == "thorough" { 400 } else { 60 });
        let mut ops: Vec<String> = vec![];
        for _ in 0..len {
            let k = r.below(uni);
            ops.push(match r.below(10) {
                0..=3 => format!("i {k} {}", r.below(100)),
                4..=6 => format!("r {k}"),
                7 => format!("g {k}"),
                8 => "l".into(),
                _ => "t".into(),
            });
        }
        ops.push("l".into());
        ops.push("e".into());
        ops.push("t".into());
        emit(ops.join(";"));
    }
}
