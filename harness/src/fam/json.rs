//! Family `json`: payload `<index hex> <offset> <abi type>`; answer `rt=<0|1> json=<canonical JSON>`.
//! AbiType text: `any` `(number ?|N)` `(uint ?|N)` `(int ?|N)` `address` `selector` `function` `bool`
//! `(array 0xHEX T)` `(bytes ?|N)` `(bits ?|N)` `(dynarray T)` `dynbytes` `(mapping K V)`
//! `(struct (OFF T)*)` `infinite` `(conflict a,b|c)` (payload words are [a-z]+, or `~` followed by the
//! hex of the UTF-8 bytes of an arbitrary string).
use ethnum::U256;
use storage_layout_extractor::{
    layout::StorageSlot,
    tc::abi::{AbiType, StructElement},
    utility::U256Wrapper,
};

use crate::rng::Rng;

fn toks(s: &str) -> Vec<String> {
    s.replace('(', " ( ").replace(')', " ) ").split_whitespace().map(String::from).collect()
}

/// a conflict payload word: `[a-z]+` as is, `~<hex>` = the string with these UTF-8 bytes
fn word(s: &str) -> String {
    match s.strip_prefix('~') {
        Some(h) => String::from_utf8(crate::util::hex_to_bytes(h)).expect("utf-8 payload"),
        None => s.to_string(),
    }
}

fn opt(s: &str) -> Option<usize> {
    if s == "?" {
        None
    } else {
        Some(s.parse().unwrap())
    }
}

fn parse(t: &[String], p: &mut usize) -> AbiType {
    let tok = t[*p].clone();
    *p += 1;
    if tok != "(" {
        return match tok.as_str() {
            "any" => AbiType::Any,
            "address" => AbiType::Address,
            "selector" => AbiType::Selector,
            "function" => AbiType::Function,
            "bool" => AbiType::Bool,
            "dynbytes" => AbiType::DynBytes,
            "infinite" => AbiType::InfiniteType,
            x => panic!("bad abi token {x}"),
        };
    }
    let head = t[*p].clone();
    *p += 1;
    let r = match head.as_str() {
        "number" => { let s = opt(&t[*p]); *p += 1; AbiType::Number { size: s } }
        "uint" => { let s = opt(&t[*p]); *p += 1; AbiType::UInt { size: s } }
        "int" => { let s = opt(&t[*p]); *p += 1; AbiType::Int { size: s } }
        "bytes" => { let s = opt(&t[*p]); *p += 1; AbiType::Bytes { length: s } }
        "bits" => { let s = opt(&t[*p]); *p += 1; AbiType::Bits { length: s } }
        "array" => {
            let n = U256::from_str_hex(&t[*p]).unwrap();
            *p += 1;
            let tp = parse(t, p);
            AbiType::Array { size: U256Wrapper(n), tp: Box::new(tp) }
        }
        "dynarray" => AbiType::DynArray { tp: Box::new(parse(t, p)) },
        "mapping" => {
            let k = parse(t, p);
            let v = parse(t, p);
            AbiType::Mapping { key_type: Box::new(k), value_type: Box::new(v) }
        }
        "struct" => {
            let mut es = vec![];
            while t[*p] == "(" {
                *p += 1;
                let off: usize = t[*p].parse().unwrap();
                *p += 1;
                let ty = parse(t, p);
                assert_eq!(t[*p], ")");
                *p += 1;
                es.push(StructElement::new(off, ty));
            }
            AbiType::Struct { elements: es }
        }
        "conflict" => {
            let body = t[*p].clone();
            *p += 1;
            let mut parts = body.split('|');
            let c: Vec<String> = parts.next().unwrap_or("").split(',').filter(|x| !x.is_empty()).map(word).collect();
            let r: Vec<String> = parts.next().unwrap_or("").split(',').filter(|x| !x.is_empty()).map(word).collect();
            AbiType::ConflictedType { conflicts: c, reasons: r }
        }
        x => panic!("bad abi head {x}"),
    };
    assert_eq!(t[*p], ")");
    *p += 1;
    r
}

/// Structural equality including conflict payloads (the derived `PartialEq` ignores them).
fn deep_eq(a: &AbiType, b: &AbiType) -> bool {
    format!("{a:?}") == format!("{b:?}")
}

pub fn eval(payload: &str) -> String {
    let mut it = payload.splitn(3, ' ');
    let idx = U256::from_str_hex(it.next().unwrap()).unwrap();
    let off: usize = it.next().unwrap().parse().unwrap();
    let t = toks(it.next().unwrap());
    let mut p = 0;
    let ty = parse(&t, &mut p);
    let slot = StorageSlot::new(U256Wrapper(idx), off, ty);
    let text = serde_json::to_string(&slot).expect("serialises");
    let back: Result<StorageSlot, _> = serde_json::from_str(&text);
    let rt = match &back {
        Ok(b) => *b == slot && deep_eq(&b.typ, &slot.typ) && b.index == slot.index && b.offset == slot.offset,
        Err(_) => false,
    };
    let canon = serde_json::to_value(&slot).expect("to_value").to_string();
    // the text the library's own serialiser writes is the canonical one (same field order)
    format!("rt={} same={} json={}", u8::from(rt), u8::from(canon == text), text)
}

fn gen_type(r: &mut Rng, depth: usize, out: &mut String) {
    let o = |r: &mut Rng| -> String { if r.chance(1, 3) { "?".into() } else { [8usize, 16, 32, 64, 128, 160, 248, 256][r.below(8)].to_string() } };
    let leaf = depth == 0 || r.chance(1, 4);
    if leaf {
        match r.below(13) {
            0 => out.push_str("any"),
            1 => out.push_str(&format!("(number {})", o(r))),
            2 => out.push_str(&format!("(uint {})", o(r))),
            3 => out.push_str(&format!("(int {})", o(r))),
            4 => out.push_str("address"),
            5 => out.push_str("selector"),
            6 => out.push_str("function"),
            7 => out.push_str("bool"),
            8 => out.push_str(&format!("(bytes {})", o(r))),
            9 => out.push_str(&format!("(bits {})", o(r))),
            10 => out.push_str("dynbytes"),
            11 => out.push_str("infinite"),
            _ => {
                let words = ["a", "word", "mapping", "conflicts", "x"];
                // strings that need escaping in JSON text: quotes, backslashes, control characters,
                // DEL, separators, non-ASCII of 2, 3 and 4 UTF-8 bytes, the empty string
                let odd = ["a\"b", "back\\slash", "\n", "\t\r", "\u{1}", "\u{1f}\u{8}\u{c}", "\u{7f}", "\u{e9}", "\u{20ac}",
                    "\u{1f600}", "", "/", "\u{2028}", "Word { width: Some(8), usage: Bool }", "\\u0041", "\"", "{\"k\":[1,2]}", " "];
                let pick = |r: &mut Rng| -> String {
                    if r.chance(1, 2) {
                        r.pick(&words).to_string()
                    } else {
                        let mut s = String::new();
                        for _ in 0..1 + r.below(3) {
                            s.push_str(*r.pick(&odd));
                        }
                        format!("~{}", crate::util::bytes_to_hex(s.as_bytes()))
                    }
                };
                let c: Vec<String> = (0..r.below(3)).map(|_| pick(r)).collect();
                let rs: Vec<String> = (0..r.below(3)).map(|_| pick(r)).collect();
                out.push_str(&format!("(conflict {}|{})", c.join(","), rs.join(",")));
            }
        }
        return;
    }
    match r.below(4) {
        0 => {
            let bw = crate::fam::value::boundary_words();
            let n = crate::fam::value::random_word(r, &bw);
            out.push_str(&format!("(array 0x{n:x} "));
            gen_type(r, depth - 1, out);
            out.push(')');
        }
        1 => {
            out.push_str("(dynarray ");
            gen_type(r, depth - 1, out);
            out.push(')');
        }
        2 => {
            out.push_str("(mapping ");
            gen_type(r, depth - 1, out);
            out.push(' ');
            gen_type(r, depth - 1, out);
            out.push(')');
        }
        _ => {
            out.push_str("(struct");
            for _ in 0..r.below(4) {
                out.push_str(&format!(" ({} ", r.below(256)));
                gen_type(r, depth - 1, out);
                out.push(')');
            }
            out.push(')');
        }
    }
}

pub fn generate(seed: u64, n: usize, _tier: &str, emit: &mut dyn FnMut(String)) {
    let bw = crate::fam::value::boundary_words();
    // every leaf variant once at boundary indices
    for (i, t) in ["any", "(number ?)", "(number 8)", "(uint 256)", "(int ?)", "address", "selector", "function", "bool",
        "(bytes 32)", "(bits ?)", "dynbytes", "infinite", "(conflict a,b|c)", "(conflict |)", "(struct)",
        "(conflict ~6122,~5c|~0a)", "(conflict ~|~01)", "(conflict ~c3a9e282acf09f9880|~7f)", "(conflict a|)", "(conflict |b)",
        "(array 0xffffffffffffffffffffffffffffffffffffffffffffffffffffffffffffffff any)"].iter().enumerate() {
        let idx = bw[(i * 37) % bw.len()];
        emit(format!("0x{idx:x} {} {t}", (i * 17) % 256));
    }
    for w in &bw {
        emit(format!("0x{w:x} 0 any"));
    }
    for idx in 0..n {
        let mut r = Rng::for_case(seed, "json", idx);
        let w = crate::fam::value::random_word(&mut r, &bw);
        let mut s = String::new();
        let depth = r.below(6);
        gen_type(&mut r, depth, &mut s);
        emit(format!("0x{w:x} {} {s}", r.below(256)));
    }
}
