//! Family `watchdog` (C13): payload `<cfg> <every> <hex>`.
//! One unmonitored-equivalent run (a watchdog that never stops) records, through the poll-site
//! hook, every loop iteration that reached a polling check and which of them polled; then the
//! analysis is re-run with a watchdog that starts answering "stop" at poll k, for every k up to
//! the total (all of them when few, stratified otherwise).
//! answer: `lazy=<res> base=<res> every=<e> N=<polls> log=<site:iters:polledIdx,..|…> stops=<k:class:further;…>`
use std::{cell::{Cell, RefCell}, rc::Rc};

use storage_layout_extractor::{verif_hooks, watchdog::{LazyWatchdog, Watchdog}};

use crate::{fam::pipeline, rng::Rng, util};

/// Counts polls, remembers for each poll how many loop iterations had been logged (so the poll
/// can be attributed to the site of the last logged iteration), stops from poll `stop_at` on.
#[derive(Debug)]
pub struct SiteWatchdog {
    pub polls: Cell<usize>,
    pub stop_at: usize,
    pub every: usize,
    pub log: RefCell<Vec<&'static str>>,     // every iteration that reached a polling check
    pub polled_at: RefCell<Vec<usize>>,      // index into `log` of the iteration of each poll
}

impl SiteWatchdog {
    pub fn new(stop_at: usize, every: usize) -> Self {
        SiteWatchdog { polls: Cell::new(0), stop_at, every, log: RefCell::new(vec![]), polled_at: RefCell::new(vec![]) }
    }
    fn drain(&self) {
        self.log.borrow_mut().extend(verif_hooks::take_polls());
    }
}

impl Watchdog for SiteWatchdog {
    fn should_stop(&self) -> bool {
        self.drain();
        let n = self.polls.get();
        self.polls.set(n + 1);
        self.polled_at.borrow_mut().push(self.log.borrow().len().saturating_sub(1));
        n >= self.stop_at
    }
    fn poll_every(&self) -> usize {
        self.every
    }
}

fn run_with(cfg: &str, bytes: &[u8], wd: Rc<SiteWatchdog>) -> String {
    verif_hooks::record_polls(true);
    let dynwd: Rc<dyn Watchdog> = wd.clone();
    // a fixed iteration order, so that every run of one program polls identically
    let r = util::guarded(|| pipeline::run("sorted", cfg, bytes, dynwd));
    wd.drain();
    verif_hooks::record_polls(false);
    r
}

fn class_of(res: &str) -> &'static str {
    if res.starts_with("PANIC") {
        "panic"
    } else if res.starts_with("res=ok") {
        "layout"
    } else if res.contains("StoppedByWatchdog") {
        "stopped"
    } else {
        "error"
    }
}

pub fn eval(payload: &str) -> String {
    let t: Vec<&str> = payload.split_whitespace().collect();
    let cfg = t[0];
    let every: usize = t[1].parse().unwrap();
    let bytes = util::hex_to_bytes(t[2]);
    let lazy = util::guarded(|| pipeline::run("sorted", cfg, &bytes, LazyWatchdog.in_rc()));
    let base_wd = Rc::new(SiteWatchdog::new(usize::MAX, every));
    let base = run_with(cfg, &bytes, base_wd.clone());
    let n = base_wd.polls.get();
    // segment the log into loop instances: a maximal run of one tag, where `op.*` runs are
    // additionally cut at every `vm.execute` entry (they restart per opcode execution)
    let log = base_wd.log.borrow().clone();
    let polled: Vec<usize> = base_wd.polled_at.borrow().clone();
    let mut insts: Vec<(String, usize, usize)> = vec![]; // (site, start, len)
    let mut vm_total = 0usize;
    let mut vm_polled: Vec<usize> = vec![];
    {
        let mut i = 0;
        while i < log.len() {
            let tag = log[i];
            if tag == "vm.execute" {
                if polled.contains(&i) {
                    vm_polled.push(vm_total);
                }
                vm_total += 1;
                i += 1;
                continue;
            }
            let start = i;
            while i < log.len() && log[i] == tag {
                i += 1;
            }
            insts.push((tag.to_string(), start, i - start));
        }
    }
    let mut parts: Vec<String> = vec![format!(
        "vm.execute:{}:{}",
        vm_total,
        vm_polled.iter().map(|x| x.to_string()).collect::<Vec<_>>().join(",")
    )];
    for (site, start, len) in &insts {
        let idxs: Vec<String> =
            polled.iter().filter(|p| **p >= *start && **p < *start + *len).map(|p| (p - start).to_string()).collect();
        parts.push(format!("{site}:{len}:{}", idxs.join(",")));
    }
    // stop at every k (stratified when there are many)
    let exhaustive = t.get(3).copied() == Some("all");
    let ks: Vec<usize> = if n <= 40 || exhaustive {
        (0..n).collect()
    } else {
        // one poll of every loop instance, the first and last few, and a stratified sample
        let mut v: Vec<usize> = (0..6).collect();
        v.extend((1..12).map(|i| i * n / 12));
        v.extend(n - 6..n);
        let polled_sorted = {
            let mut p = polled.clone();
            p.sort_unstable();
            p
        };
        for (_, start, len) in &insts {
            if let Some(pos) = polled_sorted.iter().position(|p| *p >= *start && *p < *start + *len) {
                v.push(pos);
            }
        }
        v.sort_unstable();
        v.dedup();
        v.retain(|k| *k < n);
        v
    };
    let mut stops: Vec<String> = vec![];
    for k in ks {
        let wd = Rc::new(SiteWatchdog::new(k, every));
        let r = run_with(cfg, &bytes, wd.clone());
        let total = wd.polls.get();
        let site = {
            let log = wd.log.borrow();
            let at = wd.polled_at.borrow();
            at.get(k).and_then(|i| log.get(*i)).copied().unwrap_or("?")
        };
        stops.push(format!("{k}:{}:{}:{}", class_of(&r), total.saturating_sub(k + 1), site));
    }
    // one run beyond the end: the watchdog never fires
    let beyond = Rc::new(SiteWatchdog::new(n, every));
    let rb = run_with(cfg, &bytes, beyond);
    format!(
        "lazy={} ;; base={} ;; beyond={} ;; every={every} N={n} log={} stops={}",
        lazy.replace(' ', "_"),
        base.replace(' ', "_"),
        rb.replace(' ', "_"),
        parts.join("|"),
        stops.join(";")
    )
}

pub fn generate(seed: u64, n: usize, _tier: &str, emit: &mut dyn FnMut(String)) {
    // programs that spend their time in each polled loop
    let fixed = [
        "6064600060003760646000600039606460006000333c606460006000" , // calldatacopy, codecopy, extcodecopy (sizes 100)
        "60206000600060006000335af1506064600060003e00",                // call + returndatacopy
        "5b36600057",                                                  // vm loop
        "6001600055600260015560036002556000546001540160035500",        // storage: lifting / inference / unification / layout
        "33600052602060002060005460010160005500",
        // plain slots mixed with packed ones (two fields each): the layout loop adds two entries for one slot
        "6000546000526001548067ffffffffffffffff1660405260401c6fffffffffffffffffffffffffffffffff166060526002548067ffffffffffffffff1660805260401c6fffffffffffffffffffffffffffffffff1660a0526003548067ffffffffffffffff1660c05260401c6fffffffffffffffffffffffffffffffff1660e05260055460005260065460005200",
    ];
    for f in fixed {
        for every in [1usize, 2, 3, 4, 7, 100] {
            emit(format!("30000000,10,50,250,394,0 {every} {f}"));
        }
    }
    pipeline::pipeline_programs(seed, "watchdog", n, &mut |cfg, prog| {
        let mut r = Rng::for_case(seed, "watchdog-every", prog.len());
        let every = [1usize, 2, 3, 7, 100, 1000][r.below(6)];
        // keep the (quadratic) stop-at-every-poll exploration affordable
        if prog.len() <= 120 {
            emit(format!("{cfg} {every} {}", util::bytes_to_hex(&prog)));
        }
    });
}
