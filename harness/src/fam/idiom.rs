//! Families `idiom` (property C04) and `frag` (property C11): programs built from a ground-truth
//! storage layout through the standard compiler idioms.
//! idiom payload: `<spec> <hex>`; spec = `;`-separated variables `kind:slothex[:params]`
//!   w = plain word, a = address-masked word, m:<keys> = mapping (one letter per level, a|w),
//!   d = dynamic array, p:<w1,w2,..> = packed fields (bit widths, from bit 0 upwards)
//! answer: as family `pipeline` (`res=ok layout=[..]`).
//! frag payload: `<hexA> <hexB> <hexAB> <hexP> <hexRenamedP> <renaming old>new,...`
//! answer: the five layouts joined by ` ### `.
use std::rc::Rc;

use storage_layout_extractor::watchdog::LazyWatchdog;

use crate::{fam::{pipeline, vm}, rng::Rng, util};

#[derive(Clone, Debug)]
pub enum Kind {
    Word,
    Addr,
    Map(Vec<bool>), // per level: is the key an address?
    Dyn,
    Packed(Vec<usize>),
}

#[derive(Clone, Debug)]
pub struct Var {
    pub slot: Vec<u8>,
    pub kind: Kind,
    pub read: bool,
    pub write: bool,
    /// packed writes: bit 0 = all fields in one store (else one read-modify-write per field),
    /// bit 1 = shifts written as multiplications by 2^k (else SHL)
    pub style: u8,
}

pub const CFG: &str = "30000000,10,50,250,394,0";

fn mask_bytes(width_bits: usize) -> Vec<u8> {
    vec![0xff; width_bits / 8]
}

fn push_value(a: &mut vm::Asm, r: &mut Rng) {
    push_value_m(a, r, true)
}

/// `narrow`: may the value be narrowed by a mask of its own (not when the caller masks it again:
/// a mask nested in a narrower field is finding D20's shape, kept to its own generator)
fn push_value_m(a: &mut vm::Asm, r: &mut Rng, narrow: bool) {
    if r.chance(1, 3) {
        // a numeric environment word, raw or narrowed by a mask (the same opcode may be read by
        // several fragments: every read is its own value)
        // … or an opaque one (CALLDATASIZE, RETURNDATASIZE, MSIZE: a fresh value per execution)
        a.op([0x34u8, 0x42, 0x43, 0x3a, 0x46, 0x48, 0x45, 0x44, 0x36, 0x3d, 0x59][r.below(11)]);
        if narrow && r.chance(1, 2) {
            a.push_word(&vec![0xff; [1usize, 4, 8, 16][r.below(4)]]);
            a.op(0x16);
        }
    } else {
        a.push_u(4 + 32 * (4 + r.below(3)) as u64);
        a.op(0x35);
    }
}

/// leaves the storage key of `v` on the stack
fn push_key(a: &mut vm::Asm, r: &mut Rng, v: &Var) {
    match &v.kind {
        Kind::Word | Kind::Addr | Kind::Packed(_) => a.push_word(&v.slot),
        Kind::Map(keys) => {
            a.push_word(&v.slot);
            for (i, is_addr) in keys.iter().enumerate() {
                // stack: inner slot expression
                a.push_u(0x20);
                a.op(0x52);
                if *is_addr {
                    if r.chance(1, 2) {
                        a.op(0x33);
                    } else {
                        a.push_u(4 + 32 * i as u64);
                        a.op(0x35);
                        a.push_word(&[0xff; 20]);
                        a.op(0x16);
                    }
                } else {
                    a.push_u(4 + 32 * i as u64);
                    a.op(0x35);
                }
                a.push_u(0);
                a.op(0x52);
                a.push_u(0x40);
                a.push_u(0);
                a.op(0x20);
            }
        }
        Kind::Dyn => {
            a.push_word(&v.slot);
            a.push_u(0);
            a.op(0x52);
            a.push_u(0x20);
            a.push_u(0);
            a.op(0x20);
            a.push_u(4);
            a.op(0x35);
            a.op(0x01);
        }
    }
}

/// `x << sh`, as SHL or as a multiplication by 2^sh (the two forms compilers have used)
fn shift_left(a: &mut vm::Asm, sh: usize, use_mul: bool) {
    if use_mul {
        let mut w = vec![0u8; 32];
        w[31 - sh / 8] = 1 << (sh % 8);
        a.push_word(&w);
        a.op(0x02);
    } else {
        a.push_u(sh as u64);
        a.op(0x1b);
    }
}

fn ret_top(a: &mut vm::Asm) {
    a.push_u(0);
    a.op(0x52);
    a.push_u(0x20);
    a.push_u(0);
    a.op(0xf3);
}

/// the branches (bodies) that access `v`
fn bodies(r: &mut Rng, v: &Var) -> Vec<Vec<u8>> {
    let mut out = vec![];
    let all_at_once = v.style & 1 != 0;
    let use_mul = v.style & 2 != 0;
    let mut body = |f: &mut dyn FnMut(&mut vm::Asm, &mut Rng)| {
        let mut a = vm::Asm::new(0);
        f(&mut a, r);
        out.push(a.bytes);
    };
    match &v.kind {
        Kind::Packed(widths) => {
            if v.write && all_at_once {
                // all fields written at once: f0 | f1 << s1 | f2 << s2 … in stack-machine order
                // (each OR takes the newest field as its left operand: a right-nested chain)
                let ws = widths.clone();
                body(&mut |a, r| {
                    let mut sh = 0usize;
                    for (i, w) in ws.iter().enumerate() {
                        push_value_m(a, r, false);
                        a.push_word(&mask_bytes(*w));
                        a.op(0x16);
                        if sh > 0 {
                            shift_left(a, sh, use_mul);
                        }
                        if i > 0 {
                            a.op(0x17);
                        }
                        sh += w;
                    }
                    a.push_word(&v.slot);
                    a.op(0x55);
                    a.op(0x00);
                });
            }
            let mut shift = 0usize;
            for w in widths {
                let (sh, w) = (shift, *w);
                shift += w;
                if v.write && !all_at_once {
                    body(&mut |a, r| {
                        // (sload(slot) & ~(mask << shift)) | ((value & mask) << shift)
                        let mut hole = vec![0xffu8; 32];
                        for i in 0..w / 8 {
                            hole[31 - sh / 8 - i] = 0;
                        }
                        push_value_m(a, r, false);
                        a.push_word(&mask_bytes(w));
                        a.op(0x16);
                        if sh > 0 {
                            shift_left(a, sh, use_mul);
                        }
                        a.push_word(&v.slot);
                        a.op(0x54);
                        a.push_word(&hole);
                        a.op(0x16);
                        a.op(0x17);
                        a.push_word(&v.slot);
                        a.op(0x55);
                        a.op(0x00);
                    });
                }
                if v.read {
                    body(&mut |a, _| {
                        a.push_word(&v.slot);
                        a.op(0x54);
                        if sh > 0 {
                            a.push_u(sh as u64);
                            a.op(0x1c);
                        }
                        a.push_word(&mask_bytes(w));
                        a.op(0x16);
                        ret_top(a);
                    });
                }
            }
        }
        _ => {
            if v.write {
                body(&mut |a, r| {
                    match v.kind {
                        Kind::Addr => {
                            if r.chance(1, 2) {
                                a.op(0x33);
                            } else {
                                push_value_m(a, r, false);
                                a.push_word(&[0xff; 20]);
                                a.op(0x16);
                            }
                        }
                        _ => {
                            push_value(a, r);
                            if r.chance(1, 2) {
                                // a use of the stored value that says how it is read (unsigned / signed
                                // division or remainder); the quotient stays on the stack to the end
                                a.op(0x80);
                                a.push_u(3);
                                a.op(0x90);
                                a.op([0x04u8, 0x05, 0x06, 0x07][r.below(4)]);
                                a.op(0x90);
                            }
                        }
                    }
                    push_key(a, r, v);
                    a.op(0x55);
                    a.op(0x00);
                });
            }
            if v.read {
                body(&mut |a, r| {
                    push_key(a, r, v);
                    a.op(0x54);
                    if matches!(v.kind, Kind::Addr) {
                        a.push_word(&[0xff; 20]);
                        a.op(0x16);
                    }
                    ret_top(a);
                });
            }
        }
    }
    out
}

/// dispatcher over position-independent bodies (no body contains a jump)
pub fn assemble(bodies: &[Vec<u8>], shape: usize) -> Vec<u8> {
    let mut a = vm::Asm::new(bodies.len() + 1);
    for (i, _) in bodies.iter().enumerate() {
        match shape % 2 {
            0 => {
                a.op(0x36);
                a.push_u(i as u64 + 1);
                a.op(0x14);
            }
            _ => {
                a.push_u(0);
                a.op(0x35);
                a.push_u(0xe0);
                a.op(0x1c);
                a.push_u(0x1000 + i as u64);
                a.op(0x14);
            }
        }
        a.push_label(i);
        a.op(0x57);
    }
    a.op(0x00);
    for (i, b) in bodies.iter().enumerate() {
        a.label(i);
        a.bytes.extend(b);
    }
    a.finish()
}

pub fn program(r: &mut Rng, vars: &[Var], shape: usize) -> Vec<u8> {
    let mut bs = vec![];
    for v in vars {
        bs.extend(bodies(r, v));
    }
    // branches in arbitrary order
    for i in (1..bs.len()).rev() {
        let j = r.below(i + 1);
        bs.swap(i, j);
    }
    assemble(&bs, shape)
}

/// the same key computations and masking as the storage idioms, with the storage instruction
/// replaced by a memory write / log / return: code that performs no storage access at all
pub fn storage_free_program(r: &mut Rng) -> Vec<u8> {
    let mut used = vec![];
    let n = 1 + r.below(5);
    let mut bs: Vec<Vec<u8>> = vec![];
    for _ in 0..n {
        let v = random_var(r, &mut used);
        let mut a = vm::Asm::new(0);
        if r.chance(1, 4) {
            // a literal that is the Keccak image of a small slot number (what the compiler emits for
            // the data of a dynamic array), here with no storage access anywhere
            use storage_layout_extractor::{tc::lift::proxy_slots::ProxySlots, vm::value::known::KnownWord};
            let i = [0usize, 1, 3, 7, 9999][r.below(5)];
            a.push_word(&ProxySlots::sha3_known_words(&[KnownWord::from(i)]).value_le().to_be_bytes());
        } else {
            push_key(&mut a, r, &v);
        }
        match r.below(4) {
            0 => {
                // keep the key on the stack and compute with it
                a.push_u(1 + r.below(7) as u64);
                a.op(0x01);
                a.push_word(&[0xff; 20]);
                a.op(0x16);
                ret_top(&mut a);
            }
            1 => {
                // LOG1 with the key as topic
                a.push_u(0x20);
                a.push_u(0);
                a.op(0xa1);
                a.op(0x00);
            }
            2 => ret_top(&mut a),
            _ => {
                a.push_u(0x40);
                a.op(0x52);
                a.op(0x00);
            }
        }
        bs.push(a.bytes);
    }
    let shape = r.below(2);
    assemble(&bs, shape)
}

/// a value grown to just below / at / above the configured size limit and written to a literal
/// slot (and the same with a small limit on ordinary idiom programs): returns (config, program)
pub fn near_limit_program(r: &mut Rng) -> (String, Vec<u8>) {
    let limit = [1usize, 2, 3, 5, 8, 20, 50, 250][r.below(8)];
    let cfg = format!("30000000,10,50,{limit},394,0");
    if r.chance(1, 2) {
        // ordinary storage idioms under that limit
        let mut used = vec![];
        let n = 1 + r.below(3);
        let vars: Vec<Var> = (0..n).map(|_| random_var(r, &mut used)).collect();
        let shape = r.below(2);
        return (cfg, program(r, &vars, shape));
    }
    let mut a = vm::Asm::new(0);
    let mut used = vec![];
    for _ in 0..1 + r.below(3) {
        // CALLVALUE followed by k NOTs has k + 1 nodes
        let nodes = (limit + 2).saturating_sub(r.below(5)).max(1);
        a.op(0x34);
        for _ in 1..nodes {
            a.op(0x19);
        }
        let slot = random_slot(r, &mut used);
        a.push_word(&slot);
        a.op(0x55);
    }
    a.op(0x00);
    (cfg, a.bytes)
}

/// self-referential storage dataflow: a container element receives what was loaded from the
/// container's own base slot (or the other way round), so the unified types are cyclic
pub fn self_ref_program(r: &mut Rng) -> Vec<u8> {
    let mut used = vec![];
    let n = 1 + r.below(3);
    let mut bs: Vec<Vec<u8>> = vec![];
    for _ in 0..n {
        let slot = random_slot(r, &mut used);
        let container = Var {
            slot: slot.clone(),
            kind: match r.below(3) {
                0 => Kind::Dyn,
                1 => Kind::Map(vec![r.chance(1, 2)]),
                _ => Kind::Map((0..2 + r.below(2)).map(|_| r.chance(1, 2)).collect()),
            },
            read: true,
            write: true,
            style: 0,
        };
        let base = Var { slot, kind: Kind::Word, read: true, write: true, style: 0 };
        let (src, dst) = if r.chance(2, 3) { (&base, &container) } else { (&container, &base) };
        let mut a = vm::Asm::new(0);
        push_key(&mut a, r, src);
        a.op(0x54);
        if r.chance(1, 4) {
            a.push_word(&[0xff; 20]);
            a.op(0x16);
        }
        push_key(&mut a, r, dst);
        a.op(0x55);
        a.op(0x00);
        bs.push(a.bytes);
        if r.chance(1, 2) {
            // and an element copied to another element of the same container
            let mut a = vm::Asm::new(0);
            push_key(&mut a, r, &container);
            a.op(0x54);
            push_key(&mut a, r, &container);
            a.op(0x55);
            a.op(0x00);
            bs.push(a.bytes);
        }
    }
    let shape = r.below(2);
    assemble(&bs, shape)
}

/// one small motif repeated many times in straight-line code: values, keys and nesting that grow
/// with the length of the program (native-stack depth, tree size, storage history length)
pub fn repeated_motif_program(r: &mut Rng) -> Vec<u8> {
    const MOTIFS: [&[u8]; 13] = [
        &[0x5f, 0x5f, 0x5f, 0xf5],                                        // x = create2(0, mem, salt = x)
        &[0x5f, 0x5f, 0x82, 0xf0],                                        // create(value = x, mem)
        &[0x5f, 0x5f, 0x5f, 0x5f, 0x84, 0x5a, 0xfa],                      // staticcall(gas, address = x, ...)
        &[0x54],                                                          // load from the loaded word
        &[0x60, 0x01, 0x55, 0x60, 0x01, 0x54, 0x5f, 0x55, 0x5f, 0x54],    // copy between two slots, re-loading
        &[0x80, 0x01],                                                    // x = x + x
        &[0x5f, 0x52, 0x60, 0x20, 0x5f, 0x20],                            // x = keccak(x)
        &[0x60, 0x20, 0x52, 0x33, 0x5f, 0x52, 0x60, 0x40, 0x5f, 0x20],    // x = keccak(caller . x)
        &[0x80, 0x54, 0x01],                                              // x = x + sload(x)
        &[0x80, 0x80, 0x55],                                              // sstore(x, x)
        &[0x60, 0xff, 0x16, 0x60, 0x08, 0x1b],                            // x = (x & 0xff) << 8
        &[0x80, 0x51, 0x18],                                              // x = x ^ mload(x)
        &[0x5f, 0x54, 0x01, 0x80, 0x5f, 0x55],                            // s0 = s0 + x
    ];
    let m = MOTIFS[r.below(MOTIFS.len())];
    let reps = [3usize, 10, 30, 100, 300, 1000, 2400][r.below(7)].min(24_000 / m.len());
    let mut out = vec![0x5f, 0x54];
    for _ in 0..reps {
        out.extend_from_slice(m);
    }
    out.extend_from_slice(&[0x5f, 0x55, 0x00]);
    out
}

/// sub-word values loaded once and shared between several packed stores that lay them out in
/// different orders (mapping values, array elements, plain slots): the fields are stably typed
/// and registered once, so their type variables are numbered in the order the stores happen to
/// be visited
pub fn shared_fields_program(r: &mut Rng) -> Vec<u8> {
    let mut a = vm::Asm::new(0);
    let nf = 2 + r.below(2);
    let widths: Vec<usize> = (0..nf).map(|_| [8usize, 16, 32, 64][r.below(4)]).collect();
    for (i, w) in widths.iter().enumerate() {
        a.push_word(&vec![0xff; w / 8]);
        a.push_u(0x24 + 0x20 * i as u64);
        a.op(0x35);
        a.op(0x16);
    }
    let use_mul = !r.chance(1, 4);
    let nstores = 2 + r.below(2);
    for s in 0..nstores {
        let mut order: Vec<usize> = (0..nf).collect();
        for i in (1..order.len()).rev() {
            let j = r.below(i + 1);
            order.swap(i, j);
        }
        let take = if nf > 2 && r.chance(1, 3) { 2 } else { nf };
        let mut off = 0usize;
        for (j, &fi) in order[..take].iter().enumerate() {
            let extra = usize::from(j > 0);
            a.op(0x80 + (nf - 1 - fi + extra) as u8);
            if off > 0 {
                shift_left(&mut a, off, use_mul);
            }
            if j > 0 {
                a.op(0x17);
            }
            off += widths[fi];
        }
        match r.below(4) {
            0 => a.push_u(s as u64),
            1 => {
                // element of the dynamic array at slot s
                a.push_u(s as u64);
                a.push_u(0);
                a.op(0x52);
                a.push_u(0x20);
                a.push_u(0);
                a.op(0x20);
                a.push_u(4);
                a.op(0x35);
                a.op(0x01);
            }
            _ => {
                // value of the mapping at slot s
                a.push_u(4);
                a.op(0x35);
                a.push_u(0);
                a.op(0x52);
                a.push_u(s as u64);
                a.push_u(0x20);
                a.op(0x52);
                a.push_u(0x40);
                a.push_u(0);
                a.op(0x20);
            }
        }
        a.op(0x55);
    }
    for _ in 0..nf {
        a.op(0x50);
    }
    a.op(0x00);
    a.finish()
}

/// hashes over unusual memory regions (empty, one byte, not a multiple of a word, unaligned, three
/// words) combined with the arithmetic the lifting passes look for and used as storage keys, as
/// stored values, or merely returned
pub fn odd_hash_program(r: &mut Rng) -> Vec<u8> {
    let mut bs: Vec<Vec<u8>> = vec![];
    for _ in 0..1 + r.below(3) {
        let mut a = vm::Asm::new(0);
        if r.chance(1, 2) {
            // something in memory first
            a.push_u(r.below(12) as u64);
            a.push_u([0u64, 0x20, 5][r.below(3)]);
            a.op(0x52);
        }
        let (off, size) = [(0u64, 0u64), (0, 1), (0, 0x1f), (0, 0x21), (0x20, 0), (5, 0x20), (0, 0x60), (0, 0x20), (0, 0x40)][r.below(9)];
        a.push_u(size);
        a.push_u(off);
        a.op(0x20);
        match r.below(4) {
            0 => {
                a.push_u(1 + r.below(3) as u64);
                a.op(0x01);
            }
            1 => {
                a.push_u(4);
                a.op(0x35);
                a.op(0x01);
            }
            2 => {
                a.push_u(0);
                a.op(0x54);
                a.op(0x01);
            }
            _ => {}
        }
        match r.below(4) {
            0 => {
                a.op(0x54);
                ret_top(&mut a);
            }
            1 => {
                a.op(0x33);
                a.op(0x90);
                a.op(0x55);
                a.op(0x00);
            }
            2 => {
                a.push_u(r.below(4) as u64);
                a.op(0x55);
                a.op(0x00);
            }
            _ => ret_top(&mut a),
        }
        bs.push(a.bytes);
    }
    assemble(&bs, r.below(2))
}

/// a `bytes` / `string` slot the way the compiler lays it out: the length / flag fields of the short
/// form masked *in place* ([0,1), [1,8), [8,256)) and or-ed into the slot, the data in the dynamic
/// array at keccak(slot); the fields are loaded once and some are also stored elsewhere, before or
/// after, so that their type variables are numbered by whichever store is visited first
pub fn string_slot_program(r: &mut Rng) -> Vec<u8> {
    let mut a = vm::Asm::new(0);
    let spans: [(usize, usize); 3] = [(0, 1), (1, 7), (8, 248)];
    let mut pick: Vec<usize> = (0..3).collect();
    for i in (1..3).rev() {
        let j = r.below(i + 1);
        pick.swap(i, j);
    }
    let n = 2 + r.below(2);
    let pick = &pick[..n];
    let slot = r.below(4) as u64;
    // the fields, each loaded once
    for (i, &p) in pick.iter().enumerate() {
        let (off, len) = spans[p];
        let mut w = vec![0u8; 32];
        for b in off..off + len {
            w[31 - b / 8] |= 1 << (b % 8);
        }
        a.push_word(&w);
        a.push_u(0x20 * i as u64);
        a.op(0x35);
        a.op(0x16);
    }
    let share_first = r.chance(1, 2);
    let shared = r.below(n);
    let store_shared = |a: &mut vm::Asm| {
        a.op(0x80 + (n - 1 - shared) as u8);
        a.push_u(5 + slot);
        a.op(0x55);
    };
    if share_first {
        store_shared(&mut a);
    }
    // the packed word
    for i in 0..n {
        let extra = usize::from(i > 0);
        a.op(0x80 + (n - 1 - i + extra) as u8);
        if i > 0 {
            a.op(0x17);
        }
    }
    a.push_u(slot);
    a.op(0x55);
    if !share_first && r.chance(2, 3) {
        store_shared(&mut a);
    }
    // the data
    if r.chance(3, 4) {
        a.push_u(0x60);
        a.op(0x35);
        a.push_u(slot);
        a.push_u(0);
        a.op(0x52);
        a.push_u(0x20);
        a.push_u(0);
        a.op(0x20);
        a.push_u(0x80);
        a.op(0x35);
        a.op(0x01);
        a.op(0x55);
    }
    for _ in 0..n {
        a.op(0x50);
    }
    a.op(0x00);
    a.finish()
}

/// a field at the top of its slot (bits A..256) with a sub-field cut out of it at a non-zero inner
/// offset that stays inside the field (so not the over-wide nesting of finding D20): nested packed
/// encodings whose offsets accumulate right up to the end of the word
pub fn nested_top_field_program(r: &mut Rng) -> Vec<u8> {
    let mut a = vm::Asm::new(0);
    let slot = r.below(4) as u64;
    let top = [64usize, 96, 128, 160, 192, 248][r.below(6)];
    let w = 256 - top;
    let inner_off = [8usize, 16, 32, 64, w / 2][r.below(5)].min(w - 8).max(1);
    // half of the time the sub-field reaches the top of the field (and so the top of the word)
    let inner_len = if r.chance(1, 2) { w - inner_off } else { [8usize, 16, 32, 64][r.below(4)].min(w - inner_off) };
    let mask = |len: usize| -> Vec<u8> {
        let mut m = vec![0u8; 32];
        for b in 0..len {
            m[31 - b / 8] |= 1 << (b % 8);
        }
        m
    };
    // hi = (sload(slot) >> top) & mask(w)
    a.push_u(slot);
    a.op(0x54);
    a.push_u(top as u64);
    a.op(0x1c);
    a.push_word(&mask(w));
    a.op(0x16);
    // sub = (hi >> inner_off) & mask(inner_len)
    a.op(0x80);
    a.push_u(inner_off as u64);
    a.op(0x1c);
    a.push_word(&mask(inner_len));
    a.op(0x16);
    match r.below(3) {
        0 => {
            a.push_u(slot + 1);
            a.op(0x55);
            a.push_u(slot + 2);
            a.op(0x55);
        }
        1 => {
            a.push_u(slot + 1);
            a.op(0x55);
            a.op(0x50);
        }
        _ => {
            a.push_u(0);
            a.op(0x52);
            a.push_u(0x20);
            a.op(0x52);
        }
    }
    a.op(0x00);
    a.finish()
}

/// storage accesses on a path that ends in a jump to a target that is not a JUMPDEST (run in
/// permissive mode: the error is tolerated, the path's slots must still be reported)
pub fn bad_jump_tail_program(r: &mut Rng) -> Vec<u8> {
    let mut bs: Vec<Vec<u8>> = vec![];
    for i in 0..1 + r.below(3) {
        let mut a = vm::Asm::new(0);
        let slot = |r: &mut Rng| -> Vec<u8> {
            let mut s = vec![0u8; 32];
            match r.below(3) {
                0 => s[31] = r.below(50) as u8,
                1 => {
                    s[15] = 1;
                    s[31] = r.below(50) as u8;
                }
                _ => {
                    s[0] = 0x80 | r.byte();
                    s[31] = r.below(50) as u8;
                }
            }
            s
        };
        for _ in 0..1 + r.below(3) {
            if r.chance(1, 2) {
                a.op(0x33);
                a.push_word(&slot(r));
                a.op(0x55);
            } else {
                a.push_word(&slot(r));
                a.op(0x54);
                a.op(0x50);
            }
        }
        match r.below(3) {
            0 => {
                a.push_u(1);
                a.op(0x56);
            }
            1 => {
                a.push_u(0xffff);
                a.op(0x56);
            }
            _ => a.op(0x00),
        }
        let _ = i;
        bs.push(a.bytes);
    }
    assemble(&bs, r.below(2))
}

/// real storage accesses whose results meet look-alike hashes (keccak(key . CONST),
/// keccak(CONST) + i) in the same expression, outside the access itself
pub fn mixed_lookalike_program(r: &mut Rng) -> Vec<u8> {
    let mut used = vec![];
    let n = 1 + r.below(3);
    let mut bs: Vec<Vec<u8>> = vec![];
    for i in 0..n {
        let real = random_var(r, &mut used);
        let mut fake = random_var(r, &mut used);
        if matches!(fake.kind, Kind::Word | Kind::Addr | Kind::Packed(_)) {
            fake.kind = if r.chance(1, 2) { Kind::Map(vec![r.chance(1, 2)]) } else { Kind::Dyn };
        }
        let mut a = vm::Asm::new(0);
        // look-alike first (it uses memory), then the real access
        push_key(&mut a, r, &fake);
        push_key(&mut a, r, &real);
        a.op(0x54);
        a.op([0x14u8, 0x01, 0x18, 0x10][r.below(4)]);
        match r.below(3) {
            0 => ret_top(&mut a),
            1 => {
                a.push_u(i as u64 + 200);
                a.op(0x55);
                a.op(0x00);
            }
            _ => {
                a.push_u(0x60);
                a.op(0x52);
                a.push_u(0x20);
                a.push_u(0x60);
                a.op(0xa0);
                a.op(0x00);
            }
        }
        bs.push(a.bytes);
    }
    let shape = r.below(2);
    assemble(&bs, shape)
}

/// literal keys that are Keccak images of small numbers, on either side of the recognised table
pub fn hashed_literal_program(r: &mut Rng) -> Vec<u8> {
    use storage_layout_extractor::{tc::lift::proxy_slots::ProxySlots, vm::value::known::KnownWord};
    let i = [0usize, 1, 5, 9998, 9999, 10000, 10001, 20000][r.below(8)];
    let h = ProxySlots::sha3_known_words(&[KnownWord::from(i)]).value_le().to_be_bytes().to_vec();
    let mut bs: Vec<Vec<u8>> = vec![];
    if r.chance(2, 3) {
        let mut a = vm::Asm::new(0);
        a.op(0x36);
        a.push_word(&h);
        a.op(0x55);
        a.op(0x00);
        bs.push(a.bytes);
    }
    if bs.is_empty() || r.chance(1, 2) {
        let mut a = vm::Asm::new(0);
        a.push_word(&h);
        a.op(0x54);
        ret_top(&mut a);
        bs.push(a.bytes);
    }
    assemble(&bs, r.below(2))
}

/// chains of shifts and masks over a loaded word, stored into another slot: nested sub-words
pub fn mask_chain_program(r: &mut Rng) -> Vec<u8> {
    let n = 1 + r.below(3);
    let mut bs: Vec<Vec<u8>> = vec![];
    for i in 0..n {
        let mut a = vm::Asm::new(0);
        // several chains over one slot: their spans land in one packed word, in the order the
        // flattening meets them
        a.push_u(if r.chance(1, 3) { 0 } else { i as u64 });
        a.op(0x54);
        let steps = 2 + r.below(4);
        if r.chance(1, 3) {
            // a narrow field high in the word, masked again with a wider mask
            let k = [200u64, 240, 248, 250, 255][r.below(5)];
            a.push_u(k);
            a.op(0x1c);
            a.push_u([0x3fu64, 0xff, 0x1, 0xffff][r.below(4)]);
            a.op(0x16);
            a.push_word(&vec![0xff; [2usize, 16, 20, 32][r.below(4)]]);
            a.op(0x16);
        }
        for _ in 0..steps {
            match r.below(7) {
                0 | 1 => {
                    // right shift by a constant
                    let k = [0u64, 8, 16, 96, 100, 128, 160, 200, 248, 250, 255, 256, 300][r.below(13)];
                    a.push_u(k);
                    a.op(0x1c);
                }
                2 => {
                    let k = [8u64, 16, 96, 160, 248, 255][r.below(6)];
                    a.push_u(k);
                    a.op(0x1b);
                }
                3 => {
                    // multiply / divide by a power of two
                    let k = [8usize, 16, 96, 160, 248][r.below(5)];
                    let mut w = vec![0u8; 32];
                    w[31 - k / 8] = 1;
                    a.push_word(&w);
                    a.op(if r.chance(1, 2) { 0x02 } else { 0x04 });
                    if r.chance(1, 2) {
                        a.op(0x90);
                    }
                }
                _ => {
                    // mask: `len` one-bits starting at `off`
                    let len = [1usize, 6, 8, 16, 32, 64, 128, 160, 255, 256][r.below(10)];
                    let off = [0usize, 0, 0, 8, 96, 100, 128, 200, 250][r.below(9)];
                    let mut w = vec![0u8; 32];
                    for b in off..(off + len).min(256) {
                        w[31 - b / 8] |= 1 << (b % 8);
                    }
                    a.push_word(&w);
                    a.op(0x16);
                }
            }
        }
        if r.chance(1, 2) {
            a.push_u(10 + i as u64);
            a.op(0x55);
            a.op(0x00);
        } else {
            ret_top(&mut a);
        }
        bs.push(a.bytes);
    }
    let shape = r.below(2);
    assemble(&bs, shape)
}

pub fn random_slot(r: &mut Rng, used: &mut Vec<Vec<u8>>) -> Vec<u8> {
    loop {
        let mut s = vec![0u8; 32];
        match r.below(10) {
            9 => {
                // a slot number that shares its leading bytes (8, 16 or 31 of them) with the Keccak
                // image of a small slot number without being it
                use storage_layout_extractor::{tc::lift::proxy_slots::ProxySlots, vm::value::known::KnownWord};
                let i = [0usize, 1, 3, 5, 9999][r.below(5)];
                let h = ProxySlots::sha3_known_words(&[KnownWord::from(i)]).value_le().to_be_bytes();
                let keep = [8usize, 16, 31][r.below(3)];
                s[..keep].copy_from_slice(&h[..keep]);
                s[31] = h[31].wrapping_add(1 + r.below(200) as u8);
            }
            8 => {
                // a slot number whose bytes read as text (what the proxy-slot pass looks for in hashes)
                let n = 1 + r.below(31);
                for b in s.iter_mut().take(n) {
                    *b = 0x61 + r.below(26) as u8;
                }
            }
            0..=4 => s[31] = r.below(100) as u8,
            5 => {
                s[30] = 1 + r.below(30) as u8;
                s[31] = r.below(256) as u8;
            }
            6 => {
                s[0] = 0x36;
                s[15] = 0x7f;
                s[31] = r.below(255) as u8;
            }
            _ => {
                for b in s.iter_mut() {
                    *b = r.byte();
                }
                s[0] |= 0x80;
            }
        }
        if !used.contains(&s) {
            used.push(s.clone());
            return s;
        }
    }
}

pub fn random_var(r: &mut Rng, used: &mut Vec<Vec<u8>>) -> Var {
    let slot = random_slot(r, used);
    let kind = match r.below(5) {
        0 => Kind::Word,
        1 => Kind::Addr,
        2 => Kind::Map((0..1 + r.below(4)).map(|_| r.chance(1, 2)).collect()),
        3 => Kind::Dyn,
        _ => {
            // 2-6 fields at byte boundaries filling at most the word
            let n = 2 + r.below(5);
            let mut widths = vec![];
            let mut left = 32usize;
            for i in 0..n {
                let remaining_fields = n - i - 1;
                if left <= remaining_fields {
                    break;
                }
                let max = left - remaining_fields;
                let w = match r.below(4) {
                    0 => 20.min(max),
                    1 => 1,
                    _ => 1 + r.below(max.min(16)),
                };
                widths.push(w * 8);
                left -= w;
            }
            if widths.len() < 2 {
                widths = vec![8, 160];
            }
            Kind::Packed(widths)
        }
    };
    let (read, write) = match r.below(3) {
        0 => (true, false),
        1 => (false, true),
        _ => (true, true),
    };
    let style = r.below(4) as u8;
    Var { slot, kind, read, write, style }
}

pub fn spec_text(vars: &[Var]) -> String {
    let items: Vec<String> = vars
        .iter()
        .map(|v| {
            let slot = util::bytes_to_hex(&v.slot);
            let rw = format!("{}{}", if v.read { "r" } else { "" }, if v.write { "w" } else { "" });
            match &v.kind {
                Kind::Word => format!("w:{slot}:{rw}"),
                Kind::Addr => format!("a:{slot}:{rw}"),
                Kind::Map(keys) => format!("m:{slot}:{rw}:{}", keys.iter().map(|k| if *k { 'a' } else { 'w' }).collect::<String>()),
                Kind::Dyn => format!("d:{slot}:{rw}"),
                Kind::Packed(ws) => format!(
                    "p:{slot}:{rw}{}{}:{}",
                    if v.write && v.style & 1 != 0 { "A" } else { "" },
                    if v.write && v.style & 2 != 0 { "M" } else { "" },
                    ws.iter().map(|w| w.to_string()).collect::<Vec<_>>().join(",")
                ),
            }
        })
        .collect();
    items.join(";")
}

pub fn analyse(bytes: &[u8]) -> String {
    let wd: Rc<dyn storage_layout_extractor::watchdog::Watchdog> = LazyWatchdog.in_rc();
    util::guarded(|| pipeline::run("sorted", CFG, bytes, wd))
}

pub fn eval_idiom(payload: &str) -> String {
    let (_, hexs) = payload.split_once(' ').expect("spec hex");
    analyse(&util::hex_to_bytes(hexs))
}

pub fn generate_idiom(seed: u64, n: usize, _tier: &str, emit: &mut dyn FnMut(String)) {
    for idx in 0..n {
        let mut r = Rng::for_case(seed, "idiom", idx);
        let top = if r.chance(1, 4) { 12 } else { 4 };
        let nvars = 1 + r.below(top);
        let mut used = vec![];
        let vars: Vec<Var> = (0..nvars).map(|_| random_var(&mut r, &mut used)).collect();
        let shape = r.below(2);
        let prog = program(&mut r, &vars, shape);
        emit(format!("{} {}", spec_text(&vars), util::bytes_to_hex(&prog)));
    }
}

// ---------------------------------------------------------------------------------- frag

pub fn eval_frag(payload: &str) -> String {
    let t: Vec<&str> = payload.split(' ').collect();
    let outs: Vec<String> = t[..5].iter().map(|h| analyse(&util::hex_to_bytes(h))).collect();
    outs.join(" ### ")
}

pub fn generate_frag(seed: u64, n: usize, _tier: &str, emit: &mut dyn FnMut(String)) {
    for idx in 0..n {
        let mut r = Rng::for_case(seed, "frag", idx);
        let mut used = vec![];
        let na = 1 + r.below(3);
        let nb = 1 + r.below(3);
        let va: Vec<Var> = (0..na).map(|_| random_var(&mut r, &mut used)).collect();
        let vb: Vec<Var> = (0..nb).map(|_| random_var(&mut r, &mut used)).collect();
        // bodies are generated once so that A, B and A+B contain the very same code
        let ba: Vec<Vec<u8>> = va.iter().flat_map(|v| bodies(&mut r, v)).collect();
        let bb: Vec<Vec<u8>> = vb.iter().flat_map(|v| bodies(&mut r, v)).collect();
        let shape = r.below(2);
        let pa = assemble(&ba, shape);
        let pb = assemble(&bb, shape);
        let mut both = ba.clone();
        both.extend(bb.clone());
        if r.chance(1, 2) {
            both.reverse();
        }
        let pab = assemble(&both, r.below(2));
        // renaming: P = A's variables, P' = the same code over injectively renamed slots
        let mut renamed = va.clone();
        let mut pairs = vec![];
        let mut used2 = used.clone();
        for v in renamed.iter_mut() {
            let new = random_slot(&mut r, &mut used2);
            pairs.push(format!("{}>{}", util::bytes_to_hex(&v.slot), util::bytes_to_hex(&new)));
            v.slot = new;
        }
        // same random choices for P and P': replay the generator from one saved state
        let save = r.clone();
        let mut r1 = save.clone();
        let p = assemble(&va.iter().flat_map(|v| bodies(&mut r1, v)).collect::<Vec<_>>(), shape);
        let mut r2 = save.clone();
        let p2 = assemble(&renamed.iter().flat_map(|v| bodies(&mut r2, v)).collect::<Vec<_>>(), shape);
        emit(format!(
            "{} {} {} {} {} {}",
            util::bytes_to_hex(&pa),
            util::bytes_to_hex(&pb),
            util::bytes_to_hex(&pab),
            util::bytes_to_hex(&p),
            util::bytes_to_hex(&p2),
            pairs.join(",")
        ));
    }
}
