//! Family `disasm`: payload = hex bytecode; answer = `ok <token>*` | `err <Variant>`.
//! Tokens: `o<hh>` recognised opcode, `p<n>:<hex>` PUSHn with its immediate (code order),
//! `n` Nop placeholder, `i<hh>` Invalid.
use storage_layout_extractor::{
    disassembly::InstructionStream,
    error::disassembly::Error,
    opcode::{control, memory, DynOpcode},
};
use std::rc::Rc;

use crate::{rng::Rng, util};

pub fn token(op: &DynOpcode) -> String {
    let any = op.as_any();
    if any.downcast_ref::<control::Nop>().is_some() {
        "n".to_string()
    } else if let Some(inv) = any.downcast_ref::<control::Invalid>() {
        format!("i{:02x}", inv.byte)
    } else if let Some(p) = any.downcast_ref::<memory::PushN>() {
        let be: Vec<u8> = p.bytes_data().iter().rev().copied().collect();
        format!("p{}:{}", p.byte_size(), util::bytes_to_hex(&be))
    } else {
        format!("o{:02x}", op.as_byte())
    }
}

pub fn err_name(e: &Error) -> String {
    match e {
        Error::InvalidTopicCount(_) => "InvalidTopicCount".into(),
        Error::InvalidPushSize(n) => format!("InvalidPushSize({n})"),
        Error::InvalidStackItem { .. } => "InvalidStackItem".into(),
        Error::EmptyBytecode => "EmptyBytecode".into(),
        Error::InvalidHexLength => "InvalidHexLength".into(),
        Error::InvalidHexCharacter(..) => "InvalidHexCharacter".into(),
        Error::BytecodeTooLarge => "BytecodeTooLarge".into(),
        // a variant this harness does not know (added by a later change to the library): named by its
        // Debug rendering, so that the harness keeps compiling and the oracles see the error
        #[allow(unreachable_patterns)]
        other => format!("{other:?}").split(|c: char| !c.is_alphanumeric()).next().unwrap_or("?").to_string(),
    }
}

pub fn eval(payload: &str) -> String {
    let bytes = util::hex_to_bytes(payload);
    match InstructionStream::try_from(bytes.as_slice()) {
        Err(e) => format!("err {}", err_name(&e.payload)),
        Ok(stream) => {
            let len = stream.len();
            let rt = stream.as_bytecode() == bytes;
            let ops: Rc<Vec<DynOpcode>> = stream.into();
            let toks: Vec<String> = ops.iter().map(token).collect();
            format!("ok len={} rt={} {}", len, u8::from(rt), toks.join(" "))
        }
    }
}

const INTERESTING: [u8; 12] = [0x5b, 0x60, 0x61, 0x7f, 0x5f, 0x00, 0xfe, 0xff, 0x56, 0x57, 0x0c, 0xef];

pub fn generate(seed: u64, n: usize, tier: &str, emit: &mut dyn FnMut(String)) {
    // (1) exhaustive: every string of length 1 and 2 (thorough) / length 1 plus every
    //     (opcode, second byte in INTERESTING) (quick).
    for a in 0..=255u8 {
        emit(util::bytes_to_hex(&[a]));
    }
    if tier == "thorough" {
        for a in 0..=255u8 {
            for b in 0..=255u8 {
                emit(util::bytes_to_hex(&[a, b]));
            }
        }
    } else {
        for a in 0..=255u8 {
            for b in INTERESTING {
                emit(util::bytes_to_hex(&[a, b]));
            }
        }
    }
    // (2) every PUSHn x every truncation length of its immediate, immediates made of
    //     JUMPDEST / PUSH bytes, with and without a prefix.
    for nn in 1..=32u8 {
        for m in 0..=(nn as usize + 1) {
            for fill in [0x5bu8, 0x60, 0x7f, 0x00] {
                let mut v = vec![0x5f + nn];
                v.extend(std::iter::repeat(fill).take(m));
                emit(util::bytes_to_hex(&v));
                let mut w = vec![0x5b, 0x60, 0x5b];
                w.extend(v);
                emit(util::bytes_to_hex(&w));
            }
        }
    }
    // (3) random strings, biased towards PUSH / JUMPDEST bytes.
    for idx in 0..n {
        let mut r = Rng::for_case(seed, "disasm", idx);
        let maxlen = if tier == "thorough" && idx % 50 == 0 { 24576 } else { 96 };
        let len = 1 + r.below(maxlen);
        let mut v = Vec::with_capacity(len);
        for _ in 0..len {
            let b = match r.below(10) {
                0..=2 => *r.pick(&INTERESTING),
                3..=4 => 0x60 + (r.below(32) as u8),
                _ => r.byte(),
            };
            v.push(b);
        }
        emit(util::bytes_to_hex(&v));
    }
}
