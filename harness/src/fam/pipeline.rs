//! Family `pipeline`: the whole analysis. payload `<order> <cfg> <hex>` (cfg as in family `vm`).
//! answer `res=ok layout=[<index>:<offset>:<type>;...]` | `res=err kinds=[loc:Kind;...]`
use std::{cell::Cell, rc::Rc};

use storage_layout_extractor as sle;
use storage_layout_extractor::{
    error::Error as TopErr,
    extractor::{
        chain::{version::EthereumVersion, Chain},
        contract::Contract,
    },
    layout::StorageLayout,
    tc,
    tc::abi::AbiType,
    watchdog::{LazyWatchdog, Watchdog},
};

use crate::{
    fam::{types::{set_order, CountingWatchdog}, vm},
    rng::Rng,
    util,
};

pub fn abi_text(t: &AbiType) -> String {
    let o = |x: &Option<usize>| x.map(|n| n.to_string()).unwrap_or_else(|| "?".into());
    match t {
        AbiType::Any => "any".into(),
        AbiType::Number { size } => format!("(number {})", o(size)),
        AbiType::UInt { size } => format!("(uint {})", o(size)),
        AbiType::Int { size } => format!("(int {})", o(size)),
        AbiType::Address => "address".into(),
        AbiType::Selector => "selector".into(),
        AbiType::Function => "function".into(),
        AbiType::Bool => "bool".into(),
        AbiType::Array { size, tp } => format!("(array 0x{:x} {})", size.0, abi_text(tp)),
        AbiType::Bytes { length } => format!("(bytes {})", o(length)),
        AbiType::Bits { length } => format!("(bits {})", o(length)),
        AbiType::DynArray { tp } => format!("(dynarray {})", abi_text(tp)),
        AbiType::DynBytes => "dynbytes".into(),
        AbiType::Mapping { key_type, value_type } => format!("(mapping {} {})", abi_text(key_type), abi_text(value_type)),
        AbiType::Struct { elements } => {
            let es: Vec<String> = elements.iter().map(|e| format!("({} {})", e.offset, abi_text(&e.typ))).collect();
            format!("(struct{}{})", if es.is_empty() { "" } else { " " }, es.join(" "))
        }
        AbiType::InfiniteType => "infinite".into(),
        AbiType::ConflictedType { .. } => "conflict".into(),
    }
}

pub fn layout_text(l: &StorageLayout) -> String {
    let items: Vec<String> =
        l.slots().iter().map(|s| format!("0x{:x}:{}:{}", s.index.0, s.offset, abi_text(&s.typ))).collect();
    format!("[{}]", items.join(";"))
}

pub fn top_err_name(e: &TopErr) -> String {
    match e {
        TopErr::Disassembly(d) => format!("D.{}", crate::fam::disasm::err_name(d)),
        TopErr::Execution(x) => format!("X.{}", vm::err_name(x)),
        TopErr::Unification(u) => format!(
            "U.{}",
            format!("{u:?}").split(|c: char| !c.is_alphanumeric()).next().unwrap_or("?")
        ),
        TopErr::Other(_) => "Other".into(),
    }
}

pub fn run(order: &str, cfg: &str, bytes: &[u8], wd: Rc<dyn Watchdog>) -> String {
    set_order(order);
    let contract = Contract::new(bytes.to_vec(), Chain::Ethereum { version: EthereumVersion::Shanghai });
    let res = sle::new(contract, vm::parse_cfg(cfg), tc::Config::default(), wd).analyze();
    set_order("natural");
    match res {
        Ok(l) => format!("res=ok layout={}", layout_text(&l)),
        Err(es) => {
            let items: Vec<String> = es.payloads().iter().map(|e| format!("{}:{}", e.location, top_err_name(&e.payload))).collect();
            format!("res=err kinds=[{}]", items.join(";"))
        }
    }
}

/// the layout itself (None: the analysis returned errors)
pub fn run_layout(order: &str, cfg: &str, bytes: &[u8]) -> Option<StorageLayout> {
    set_order(order);
    let contract = Contract::new(bytes.to_vec(), Chain::Ethereum { version: EthereumVersion::Shanghai });
    let res = sle::new(contract, vm::parse_cfg(cfg), tc::Config::default(), lazy()).analyze();
    set_order("natural");
    res.ok()
}

/// prefix code of an `AbiType` as natural numbers (the pipeline table; `Props/Program.lean` has the
/// same function on the model's type)
pub fn abi_code(t: &AbiType, out: &mut Vec<String>) {
    let o = |x: &Option<usize>| x.unwrap_or(0).to_string();
    match t {
        AbiType::Any => out.push("0".into()),
        AbiType::Number { size } => out.extend(["1".into(), o(size)]),
        AbiType::UInt { size } => out.extend(["2".into(), o(size)]),
        AbiType::Int { size } => out.extend(["3".into(), o(size)]),
        AbiType::Address => out.push("4".into()),
        AbiType::Selector => out.push("5".into()),
        AbiType::Function => out.push("6".into()),
        AbiType::Bool => out.push("7".into()),
        AbiType::Array { size, tp } => {
            out.extend(["8".into(), format!("{}", size.0)]);
            abi_code(tp, out);
        }
        AbiType::Bytes { length } => out.extend(["9".into(), o(length)]),
        AbiType::Bits { length } => out.extend(["10".into(), o(length)]),
        AbiType::DynArray { tp } => {
            out.push("11".into());
            abi_code(tp, out);
        }
        AbiType::DynBytes => out.push("12".into()),
        AbiType::Mapping { key_type, value_type } => {
            out.push("13".into());
            abi_code(key_type, out);
            abi_code(value_type, out);
        }
        AbiType::Struct { elements } => {
            out.extend(["14".into(), elements.len().to_string()]);
            for e in elements {
                out.push(e.offset.to_string());
                abi_code(&e.typ, out);
            }
        }
        AbiType::InfiniteType => out.push("15".into()),
        AbiType::ConflictedType { .. } => out.push("16".into()),
    }
}

pub fn eval(payload: &str) -> String {
    let t: Vec<&str> = payload.split_whitespace().collect();
    let bytes = util::hex_to_bytes(t[2]);
    // a generous step budget so that a non-terminating analysis is reported, not hung on
    let wd = Rc::new(CountingWatchdog { polls: Cell::new(0), stop_at: 3_000_000, every: 1 });
    let r = run(t[0], t[1], &bytes, wd.clone());
    format!("{r} polls={}", wd.polls.get())
}

/// Runs the VM once and then the type checker phase by phase.
fn staged(order: &str, cfg: &str, bytes: &[u8], dump_judgements: bool) -> (String, String) {
    use storage_layout_extractor::{disassembly::InstructionStream, tc::TypeChecker, vm::VM};
    use storage_layout_extractor::data::vector_map::FromUniqueIndex;
    let wd: Rc<dyn Watchdog> = Rc::new(CountingWatchdog { polls: Cell::new(0), stop_at: 3_000_000, every: 1 });
    let stream = match InstructionStream::try_from(bytes) {
        Ok(s) => s,
        Err(e) => return (format!("res=err kinds=[{}:D.{}]", e.location, crate::fam::disasm::err_name(&e.payload)), String::new()),
    };
    set_order(order);
    let out = (|| {
        let mut machine = match VM::new(stream, vm::parse_cfg(cfg), wd.clone()) {
            Ok(v) => v,
            Err(e) => return (format!("res=err kinds=[{}:X.{}]", e.location, vm::err_name(&e.payload)), String::new()),
        };
        if let Err(es) = machine.execute() {
            let items: Vec<String> = es.payloads().iter().map(|e| format!("{}:X.{}", e.location, vm::err_name(&e.payload))).collect();
            return (format!("res=err kinds=[{}]", items.join(";")), String::new());
        }
        let result = machine.consume();
        let mut checker = TypeChecker::new(tc::Config::default(), wd.clone());
        let uerr = |es: &storage_layout_extractor::error::unification::Errors| {
            let items: Vec<String> = es
                .payloads()
                .iter()
                .map(|e| format!("{}:U.{}", e.location, format!("{:?}", e.payload).split(|c: char| !c.is_alphanumeric()).next().unwrap_or("?")))
                .collect();
            format!("res=err kinds=[{}]", items.join(";"))
        };
        let lifted = match checker.lift(result) {
            Ok(v) => v,
            Err(es) => return (uerr(&es), String::new()),
        };
        if let Err(es) = checker.assign_vars(lifted) {
            return (uerr(&es), String::new());
        }
        if let Err(es) = checker.infer() {
            return (uerr(&es), String::new());
        }
        let mut dump = String::new();
        if dump_judgements {
            let n = checker.state().tyvar_count();
            let mut js: Vec<String> = vec![];
            for v in 0..n {
                let tvar = storage_layout_extractor::tc::state::type_variable::TypeVariable::from_index(v);
                let mut es: Vec<String> =
                    checker.state().inferences(tvar).iter().map(crate::fam::types::te_text).collect();
                es.sort();
                for e in es {
                    js.push(format!("{v}>{e}"));
                }
            }
            dump = format!("{n} {}", js.join(" "));
        }
        match checker.unify() {
            Ok(l) => (format!("res=ok layout={}", layout_text(&l)), dump),
            Err(es) => (uerr(&es), dump),
        }
    })();
    set_order("natural");
    out
}

/// The same program under several iteration orders: the answers joined by ` ### `, followed by
/// ` @@@ <nvars> <judgements…>` (the typing judgements the inference rules produced under the
/// `sorted` order, for attribution of an order dependence).
pub fn eval_orders(payload: &str) -> String {
    let t: Vec<&str> = payload.split_whitespace().collect();
    let bytes = util::hex_to_bytes(t[1]);
    let orders = ["natural", "reversed", "sorted", "seed1", "seed2", "seed3", "seed4", "natural"];
    let mut dump = String::new();
    let outs: Vec<String> = orders
        .iter()
        .map(|o| {
            let want = *o == "sorted";
            let r = std::panic::catch_unwind(std::panic::AssertUnwindSafe(|| staged(o, t[0], &bytes, want)));
            match r {
                Ok((text, d)) => {
                    if want {
                        dump = d;
                    }
                    text
                }
                Err(_) => {
                    set_order("natural");
                    "PANIC".to_string()
                }
            }
        })
        .collect();
    let distinct: std::collections::HashSet<&String> = outs.iter().collect();
    if distinct.len() > 1 {
        format!("{} @@@ {}", outs.join(" ### "), dump)
    } else {
        outs.join(" ### ")
    }
}

#[allow(dead_code)]
pub fn lazy() -> Rc<dyn Watchdog> {
    LazyWatchdog.in_rc()
}

// ------------------------------------------------------------------------------- generator

/// Storage-idiom program builder: each "function" is behind a dispatcher branch.
pub struct Idioms<'a> {
    pub a: vm::Asm,
    pub r: &'a mut Rng,
}

pub fn slot_word(r: &mut Rng) -> Vec<u8> {
    match r.below(6) {
        0..=2 => vec![r.below(12) as u8],
        3 => {
            let mut v = vec![0u8; 32];
            v[0] = 0x36;
            v[31] = r.below(255) as u8;
            v[15] = 0x7f;
            v
        }
        4 => vec![0xff; 32],
        _ => {
            let bw = crate::fam::value::boundary_words();
            crate::fam::value::random_word(r, &bw).to_be_bytes().to_vec()
        }
    }
}

/// pushes a storage key expression for variable kind `k` at `slot` (leaves it on the stack)
fn push_key(a: &mut vm::Asm, r: &mut Rng, kind: usize, slot: &[u8], depth: usize) {
    match kind {
        // plain word / address-masked / packed: key = slot
        0 | 1 | 4 => a.push_word(slot),
        // mapping of depth `depth`: keccak(key . inner)
        2 => {
            a.push_word(slot);
            for _ in 0..depth {
                // stack: inner ; store inner at 0x20, key at 0x00, hash 0x40 bytes
                a.push_u(0x20);
                a.op(0x52);
                if r.chance(1, 2) {
                    a.op(0x33); // caller as key
                } else {
                    a.push_u(4);
                    a.op(0x35); // calldataload(4)
                }
                a.push_u(0);
                a.op(0x52);
                a.push_u(0x40);
                a.push_u(0);
                a.op(0x20);
            }
        }
        // dynamic array: keccak(slot) + index
        _ => {
            a.push_word(slot);
            a.push_u(0);
            a.op(0x52);
            a.push_u(0x20);
            a.push_u(0);
            a.op(0x20);
            a.push_u(4);
            a.op(0x35);
            a.op(0x01);
        }
    }
}

pub fn gen_idiom_program(r: &mut Rng) -> Vec<u8> {
    let nvars = 1 + r.below(5);
    let mut a = vm::Asm::new(nvars * 2 + 2);
    // dispatcher: for each variable two branches (read / write) selected by calldatasize tests
    let mut branches: Vec<(usize, usize, Vec<u8>, usize, bool)> = vec![];
    for v in 0..nvars {
        let kind = r.below(5);
        let slot = slot_word(r);
        let depth = 1 + r.below(3);
        for write in [false, true] {
            if r.chance(3, 4) {
                branches.push((branches.len() + 1, kind, slot.clone(), depth, write));
            }
        }
        let _ = v;
    }
    for (label, ..) in &branches {
        a.op(0x36);
        a.push_u(*label as u64);
        a.op(0x14);
        a.push_label(*label);
        a.op(0x57);
    }
    a.op(0x00);
    for (label, kind, slot, depth, write) in &branches {
        a.label(*label);
        if *write {
            // value to store
            match kind {
                1 => {
                    a.op(0x33);
                }
                4 => {
                    // packed: (sload(slot) & ~mask) | ((value & fieldmask) << shift)
                    let (shift, width) = [(0u64, 8u64), (8, 160), (168, 32), (0, 128), (128, 128)][r.below(5)];
                    let field_mask: Vec<u8> = { let mut m = vec![0u8; 32]; for i in 0..(width / 8) as usize { m[31 - i] = 0xff; } m };
                    let mut hole = vec![0xffu8; 32];
                    for i in 0..(width / 8) as usize { hole[31 - (shift / 8) as usize - i] = 0; }
                    a.push_u(4); a.op(0x35);
                    a.push_word(&field_mask); a.op(0x16);
                    a.push_u(shift); a.op(0x1b);
                    a.push_word(slot); a.op(0x54);
                    a.push_word(&hole); a.op(0x16);
                    a.op(0x17);
                }
                _ => {
                    a.push_u(36);
                    a.op(0x35);
                }
            }
            push_key(&mut a, r, *kind, slot, *depth);
            a.op(0x55);
            a.op(0x00);
        } else {
            push_key(&mut a, r, *kind, slot, *depth);
            a.op(0x54);
            match kind {
                1 => {
                    a.push_word(&[0xff; 20]);
                    a.op(0x16);
                }
                4 => {
                    let (shift, width) = [(0u64, 8u64), (8, 160), (168, 32)][r.below(3)];
                    let field_mask: Vec<u8> = { let mut m = vec![0u8; 32]; for i in 0..(width / 8) as usize { m[31 - i] = 0xff; } m };
                    a.push_u(shift); a.op(0x1c);
                    a.push_word(&field_mask); a.op(0x16);
                }
                _ => {}
            }
            a.push_u(0);
            a.op(0x52);
            a.push_u(0x20);
            a.push_u(0);
            a.op(0xf3);
        }
    }
    a.finish()
}

pub fn pipeline_programs(seed: u64, family: &str, n: usize, emit: &mut dyn FnMut(String, Vec<u8>)) {
    for idx in 0..n {
        let mut r = Rng::for_case(seed, family, idx);
        let (cfg, prog) = match r.below(10) {
            5 if r.chance(1, 2) => ("30000000,10,50,250,394,0".to_string(), crate::fam::idiom::mask_chain_program(&mut r)),
            5 if r.chance(1, 2) => crate::fam::idiom::near_limit_program(&mut r),
            3 | 4 if r.chance(1, 5) => crate::fam::idiom::near_limit_program(&mut r),
            4 if r.chance(1, 3) => ("30000000,10,50,250,394,0".to_string(), crate::fam::idiom::shared_fields_program(&mut r)),
            2 if r.chance(1, 4) => ("30000000,10,50,250,394,0".to_string(), crate::fam::idiom::string_slot_program(&mut r)),
            1 if r.chance(1, 4) => ("30000000,10,50,250,394,0".to_string(), crate::fam::idiom::nested_top_field_program(&mut r)),
            0 if r.chance(1, 5) => ("30000000,10,50,250,394,1".to_string(), crate::fam::idiom::bad_jump_tail_program(&mut r)),
            3 if r.chance(1, 4) => ("30000000,10,50,250,394,0".to_string(), crate::fam::idiom::odd_hash_program(&mut r)),
            6 if r.chance(1, 4) => ("30000000,10,50,250,394,0".to_string(), crate::fam::idiom::repeated_motif_program(&mut r)),
            6 if r.chance(1, 2) => ("30000000,10,50,250,394,0".to_string(), crate::fam::idiom::mixed_lookalike_program(&mut r)),
            7 if r.chance(1, 3) => ("30000000,10,50,250,394,0".to_string(), crate::fam::idiom::hashed_literal_program(&mut r)),
            7 if r.chance(1, 2) => ("30000000,10,50,250,394,0".to_string(), crate::fam::idiom::self_ref_program(&mut r)),
            8 if r.chance(1, 2) => ("30000000,10,50,250,394,0".to_string(), crate::fam::idiom::storage_free_program(&mut r)),
            0..=4 => ("30000000,10,50,250,394,0".to_string(), gen_idiom_program(&mut r)),
            5..=7 => {
                let flavour = r.below(4);
                let p = vm::gen_program(&mut r, flavour);
                (vm::gen_cfg(&mut r, flavour), p)
            }
            8 => {
                // random bytes
                let len = 1 + r.below(80);
                ("30000000,10,50,250,394,1".to_string(), (0..len).map(|_| r.byte()).collect())
            }
            _ => {
                let mut p = gen_idiom_program(&mut r);
                // mutate a few bytes
                for _ in 0..1 + r.below(3) {
                    let i = r.below(p.len());
                    p[i] = r.byte();
                }
                ("30000000,5,10,50,394,1".to_string(), p)
            }
        };
        emit(cfg, prog);
    }
}

pub fn generate(seed: u64, n: usize, _tier: &str, emit: &mut dyn FnMut(String)) {
    for f in vm::FIXED {
        emit(format!("natural 30000000,10,50,250,394,0 {f}"));
    }
    // growth with program length: a chain of loads from loaded words, and a word copied between two
    // slots with a re-load after every copy
    // a hash over an empty region inside key arithmetic
    emit("sorted 30000000,10,50,250,394,0 6000600020600101545000".to_string());
    emit("sorted 30000000,10,50,250,394,0 602a60006000206001015500".to_string());
    emit(format!("natural 30000000,10,50,250,394,0 5f{}5f5500", "54".repeat(40)));
    emit(format!("natural 30000000,10,50,250,394,0 5f{}5f5500", "54".repeat(3000)));
    emit(format!("natural 30000000,10,50,250,394,0 5f54{}5f5500", "6001556001545f555f54".repeat(2400)));
    // three quarters under the hooks' deterministic `sorted` order (compared with the model), the
    // rest under the natural hash order of the process (oracles only)
    let mut i = 0usize;
    pipeline_programs(seed, "pipeline", n, &mut |cfg, prog| {
        i += 1;
        let order = if i % 4 == 0 { "natural" } else { "sorted" };
        emit(format!("{order} {cfg} {}", util::bytes_to_hex(&prog)))
    });
}

pub fn generate_orders(seed: u64, n: usize, _tier: &str, emit: &mut dyn FnMut(String)) {
    pipeline_programs(seed, "orders", n, &mut |cfg, prog| emit(format!("{cfg} {}", util::bytes_to_hex(&prog))));
}
