//! Families `word` (KnownWord operators) and `fold` (constant folding of value trees).
use ethnum::U256;
use storage_layout_extractor::vm::value::known::KnownWord;

use crate::{rng::Rng, sv};

fn parse_word(s: &str) -> KnownWord {
    KnownWord::from_le(U256::from_str_hex(s).expect("hex word"))
}

fn word_hex(w: KnownWord) -> String {
    format!("0x{:x}", w.value_le())
}

pub const BIN_OPS: [&str; 19] = [
    "add", "mul", "sub", "div", "sdiv", "mod", "smod", "exp", "lt", "gt", "slt", "sgt", "eq", "and", "or",
    "xor", "shl", "shr", "sar",
];

pub fn eval_word(payload: &str) -> String {
    let t: Vec<&str> = payload.split_whitespace().collect();
    let a = parse_word(t[1]);
    let r = if t[0] == "iszero" {
        a.is_zero()
    } else if t[0] == "not" {
        !a
    } else {
        let b = parse_word(t[2]);
        match t[0] {
            "add" => a + b,
            "mul" => a * b,
            "sub" => a - b,
            "div" => a / b,
            "sdiv" => a.signed_div(b),
            "mod" => a % b,
            "smod" => a.signed_rem(b),
            "exp" => a.exp(b),
            "lt" => a.lt(b),
            "gt" => a.gt(b),
            "slt" => a.signed_lt(b),
            "sgt" => a.signed_gt(b),
            "eq" => a.eq(b),
            "and" => a & b,
            "or" => a | b,
            "xor" => a ^ b,
            // shifts: `a` is the shift amount, `b` the value (kid order [shift, value])
            "shl" => b << a,
            "shr" => b >> a,
            "sar" => b.sar(a),
            _ => return "err unknown-op".into(),
        }
    };
    word_hex(r)
}

/// The boundary set of C09: 0, 1, 2, 2^k, 2^k±1 (k in 7..=255), 255, 256, 257, 2^32, 2^64,
/// 2^255, 2^256-1, -1, MIN.
pub fn boundary_words() -> Vec<U256> {
    let mut v: Vec<U256> = vec![U256::ZERO, U256::ONE, U256::new(2), U256::new(255), U256::new(256), U256::new(257), U256::MAX];
    for k in 7..=255u32 {
        let p = U256::ONE << k;
        v.push(p);
        v.push(p - 1);
        v.push(p + 1);
    }
    v.push(U256::MAX - 1);
    v.push((U256::ONE << 255u32) | U256::ONE);
    v.sort();
    v.dedup();
    v
}

pub fn random_word(r: &mut Rng, boundary: &[U256]) -> U256 {
    match r.below(10) {
        0..=5 => *r.pick(boundary),
        6 => U256::new(r.below(600) as u128),
        7 => U256::MAX - U256::new(r.below(600) as u128),
        _ => {
            let hi = ((r.next() as u128) << 64) | r.next() as u128;
            let lo = ((r.next() as u128) << 64) | r.next() as u128;
            U256::from_words(hi, lo)
        }
    }
}

pub fn generate_word(seed: u64, n: usize, tier: &str, emit: &mut dyn FnMut(String)) {
    let bw = boundary_words();
    // a small core set crossed exhaustively with itself for every operator
    let core: Vec<U256> = {
        let mut c = vec![U256::ZERO, U256::ONE, U256::new(2), U256::new(3), U256::new(31), U256::new(32), U256::new(255), U256::new(256),
                         U256::new(257), U256::ONE << 32u32, (U256::ONE << 32u32) + 1, U256::ONE << 64u32, U256::ONE << 128u32,
                         (U256::ONE << 255u32) - 1, U256::ONE << 255u32, (U256::ONE << 255u32) + 1, U256::MAX - 1, U256::MAX];
        if tier == "thorough" {
            c.extend(bw.iter().step_by(7).copied());
        }
        c.sort();
        c.dedup();
        c
    };
    for op in BIN_OPS {
        for a in &core {
            for b in &core {
                emit(format!("{op} 0x{a:x} 0x{b:x}"));
            }
        }
    }
    for a in &bw {
        emit(format!("iszero 0x{a:x}"));
        emit(format!("not 0x{a:x}"));
    }
    for idx in 0..n {
        let mut r = Rng::for_case(seed, "word", idx);
        let op = BIN_OPS[r.below(BIN_OPS.len())];
        let a = random_word(&mut r, &bw);
        let b = random_word(&mut r, &bw);
        emit(format!("{op} 0x{a:x} 0x{b:x}"));
    }
}

// ------------------------------------------------------------------------------- fold

pub fn eval_fold(payload: &str) -> String {
    let mut ids = sv::Ids::default();
    let Some(v) = sv::parse(payload, &mut ids, None) else { return "err unparsable".into() };
    let f1 = v.constant_fold();
    let f2 = f1.constant_fold();
    format!("{} ;; {}", sv::to_text(&*f1, &mut ids), sv::to_text(&*f2, &mut ids))
}

const FOLD_KINDS: [&str; 21] = [
    "add", "multiply", "subtract", "divide", "signedDivide", "modulo", "signedModulo", "exp", "lessThan",
    "greaterThan", "signedLessThan", "signedGreaterThan", "equals", "and", "or", "xor", "leftShift",
    "rightShift", "arithmeticRightShift", "isZero", "not",
];
const OPAQUE_LEAVES: [&str; 6] = ["caller", "callValue", "callDataSize", "address", "gas", "origin"];

fn gen_tree(r: &mut Rng, depth: usize, bw: &[U256], out: &mut String) {
    let leaf = depth == 0 || r.chance(1, 5);
    if leaf {
        match r.below(10) {
            0..=5 => {
                // small constants often, so that exp/shift stay meaningful; boundary otherwise
                let w = if r.chance(1, 2) { U256::new(r.below(300) as u128) } else { random_word(r, bw) };
                out.push_str(&format!("(knownData 1 0x{w:x} |)"));
            }
            6..=7 => out.push_str(&format!("(value 1 {} |)", r.below(3))),
            _ => out.push_str(&format!("({} 1 |)", r.pick(&OPAQUE_LEAVES))),
        }
        return;
    }
    match r.below(15) {
        12..=14 => {
            // any node kind of the value language, with its own arity and payload (the size of a
            // node is computed by one match arm per kind)
            let (k, sig, nk) = crate::sv_gen::KIND_SHAPES[r.below(crate::sv_gen::KIND_SHAPES.len())];
            let n = if nk == 255 { 1 + r.below(3) } else { nk };
            out.push_str(&format!("({k} 0"));
            if sig == "P" {
                for i in 0..n {
                    out.push_str(&format!(" {} {}", 8 * i, 8));
                }
            } else {
                for c in sig.chars() {
                    match c {
                        'i' => out.push_str(&format!(" {}", r.below(3))),
                        'w' => out.push_str(&format!(" 0x{:x}", random_word(r, bw))),
                        'o' => out.push_str(&format!(" {}", r.below(3))),
                        _ => out.push_str(&format!(" {}", r.below(200))),
                    }
                }
            }
            out.push_str(" |");
            for _ in 0..n {
                out.push(' ');
                gen_tree(r, depth - 1, bw, out);
            }
            out.push(')');
        }
        0..=8 => {
            let k = FOLD_KINDS[r.below(FOLD_KINDS.len())];
            out.push_str(&format!("({k} 0 |"));
            let arity = if k == "isZero" || k == "not" { 1 } else { 2 };
            for _ in 0..arity {
                out.push(' ');
                gen_tree(r, depth - 1, bw, out);
            }
            out.push(')');
        }
        9 => {
            out.push_str("(sha3 0 | ");
            gen_tree(r, depth - 1, bw, out);
            out.push(')');
        }
        10 => {
            out.push_str("(concat 0 |");
            for _ in 0..r.below(4) {
                out.push(' ');
                gen_tree(r, depth - 1, bw, out);
            }
            out.push(')');
        }
        _ => {
            out.push_str("(sLoad 0 | ");
            gen_tree(r, depth - 1, bw, out);
            out.push(' ');
            gen_tree(r, depth - 1, bw, out);
            out.push(')');
        }
    }
}

pub fn generate_fold(seed: u64, n: usize, _tier: &str, emit: &mut dyn FnMut(String)) {
    let bw = boundary_words();
    // every foldable kind x the four operand patterns (K,K) (K,V) (V,K) (V,V)
    for k in FOLD_KINDS {
        let unary = k == "isZero" || k == "not";
        let kk = "(knownData 1 0x7 |)";
        let vv = "(value 1 0 |)";
        if unary {
            emit(format!("({k} 0 | {kk})"));
            emit(format!("({k} 0 | {vv})"));
        } else {
            for (a, b) in [(kk, "(knownData 1 0x3 |)"), (kk, vv), (vv, kk), (vv, "(value 1 1 |)")] {
                emit(format!("({k} 0 | {a} {b})"));
            }
        }
    }
    for idx in 0..n {
        let mut r = Rng::for_case(seed, "fold", idx);
        let mut s = String::new();
        let depth = 1 + r.below(4);
        gen_tree(&mut r, depth, &bw, &mut s);
        emit(s);
    }
}

// ------------------------------------------------------------------------------- size

/// Family `size`: payload `<limit|none> <tree>`; the tree is rebuilt bottom-up through the culling
/// constructor `RSV::new(.., limit)`; answer `<built> ;; <constant_fold(built)>`.
pub fn eval_size(payload: &str) -> String {
    let (lim, tree) = payload.split_once(' ').expect("limit tree");
    let limit: Option<usize> = if lim == "none" { None } else { Some(lim.parse().unwrap()) };
    let mut ids = sv::Ids::default();
    let Some(v) = sv::parse(tree, &mut ids, limit) else { return "err unparsable".into() };
    let f = v.constant_fold();
    format!("{} ;; {}", sv::to_text(&*v, &mut ids), sv::to_text(&*f, &mut ids))
}

pub fn generate_size(seed: u64, n: usize, _tier: &str, emit: &mut dyn FnMut(String)) {
    let bw = boundary_words();
    for idx in 0..n {
        let mut r = Rng::for_case(seed, "size", idx);
        let mut s = String::new();
        let depth = 1 + r.below(6);
        gen_tree(&mut r, depth, &bw, &mut s);
        let lim = match r.below(8) {
            0 => "none".to_string(),
            1 => "1".to_string(),
            2 => "2".to_string(),
            3 => "3".to_string(),
            _ => (1 + r.below(40)).to_string(),
        };
        emit(format!("{lim} {s}"));
    }
}
