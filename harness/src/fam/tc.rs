//! Family `tc`: the type-checking pipeline on an explicit list of values.
//! payload: value trees separated by ` $ `.
//! answer: `n=<registered> m=<allocated> J=[v>te ...] res=ok layout=[...]` | `... res=err U.Kind`
//! Values are de-duplicated, lifted, registered in order, the sixteen rules are applied to the
//! registered values in order of their type variable, then `TypeChecker::unify` builds the layout.
use std::{cell::Cell, collections::VecDeque, rc::Rc};

use storage_layout_extractor::{
    tc::{self, lift::LiftingPasses, rule::InferenceRules, state::type_variable::TypeVariable, TypeChecker},
    watchdog::Watchdog,
};
use storage_layout_extractor::data::vector_map::{FromUniqueIndex, ToUniqueIndex};

use crate::{
    fam::{lift, pipeline, types::{set_order, te_text, CountingWatchdog}, vm},
    rng::Rng,
    sv,
};

pub fn eval(payload: &str) -> String {
    let mut ids = sv::Ids::default();
    let mut values = vec![];
    for part in payload.split(" $ ") {
        let Some(v) = sv::parse(part, &mut ids, None) else { return "err unparsable".into() };
        if !values.contains(&v) {
            values.push(v);
        }
    }
    thread_local! {
        static PASSES: std::cell::RefCell<Option<LiftingPasses>> = const { std::cell::RefCell::new(None) };
    }
    let wd: Rc<dyn Watchdog> = Rc::new(CountingWatchdog { polls: Cell::new(0), stop_at: 2_000_000, every: 1 });
    let config = tc::Config { lifting_passes: LiftingPasses::new(vec![]), inference_rules: InferenceRules::default() };
    let mut checker = TypeChecker::new(config, wd);
    let mut lifted = VecDeque::new();
    let failed = PASSES.with(|p| {
        let mut p = p.borrow_mut();
        let passes = p.get_or_insert_with(LiftingPasses::default);
        for v in values {
            match passes.run(v, checker.state()) {
                Ok(out) => lifted.push_back(out),
                Err(_) => return true,
            }
        }
        false
    });
    if failed {
        return "err lift".into();
    }
    if checker.assign_vars(lifted).is_err() {
        return "err assign".into();
    }
    let n = checker.state().tyvar_count();
    let mut vals = checker.values_under_analysis_cloned();
    vals.sort_by_key(|v| v.type_var().index());
    let mut rules = InferenceRules::default();
    for v in &vals {
        if rules.infer(v, unsafe { checker.state_mut() }).is_err() {
            return "err infer".into();
        }
    }
    let m = checker.state().tyvar_count();
    let mut js: Vec<String> = vec![];
    for v in 0..m {
        let mut es: Vec<String> = checker.state().inferences(TypeVariable::from_index(v)).iter().map(te_text).collect();
        es.sort();
        for e in es {
            js.push(format!("{v}>{e}"));
        }
    }
    set_order("sorted");
    let res = checker.unify();
    set_order("natural");
    let tail = match res {
        Ok(l) => format!("res=ok layout={}", pipeline::layout_text(&l)),
        Err(es) => {
            let k = es
                .payloads()
                .first()
                .map(|e| format!("{:?}", e.payload).split(|c: char| !c.is_alphanumeric()).next().unwrap_or("?").to_string())
                .unwrap_or_default();
            format!("res=err U.{k}")
        }
    };
    format!("n={n} m={m} J=[{}] {tail}", js.join(" "))
}

fn k(w: &str) -> String {
    format!("(knownData 1 {w} |)")
}

/// directed value lists: literal keys of every magnitude, look-alike hashes in key and value
/// position, masks and shifts at the word boundary, hostile sizes
pub fn directed(emit: &mut dyn FnMut(String)) {
    let keys = ["0x0", "0x1", "0x7", "0xffffffffffffffff", "0x10000000000000000", "0x100000000000000000000000000000000",
                "0x360894a13ba1a3210667c828492db98dca3e2076cc3735a920a3ca505d382bbc",
                "0xffffffffffffffffffffffffffffffffffffffffffffffffffffffffffffffff",
                "0x290decd9548b62a8d60345a988386fc84ba6bc95484008f6362f93160ef3e563"];
    for key in keys {
        let unwritten = format!("(unwrittenStorageValue 0 | {})", k(key));
        emit(format!("(sLoad 0 | {} {unwritten})", k(key)));
        emit(format!("(storageWrite 0 | {} (caller 1 |))", k(key)));
        emit(format!("(storageWrite 0 | {} (and 0 | (sLoad 0 | {} {unwritten}) {})) $ (sLoad 0 | {} {unwritten})", k(key), k(key), k("0xff"), k(key)));
        // the same key read and written with different evidence
        emit(format!("(storageWrite 0 | {} (caller 1 |)) $ (storageWrite 0 | {} (isZero 0 | (callValue 1 |))) $ (sLoad 0 | {} {unwritten})", k(key), k(key), k(key)));
    }
    // look-alike hashing in value position / outside any storage access
    let mapkey = |slot: &str| format!("(sha3 0 | (concat 0 | (caller 1 |) {}))", k(slot));
    for slot in ["0x0", "0x5", "0x270f", "0x2710", "0xffffffffffffffffffffffffffffffff"] {
        emit(format!("(storageWrite 0 | {} {})", k("0x0"), mapkey(slot)));
        emit(format!("(storageWrite 0 | {} (add 0 | (sha3 0 | (concat 0 | {})) (callValue 1 |)))", k("0x1"), k(slot)));
        emit(format!("(log 0 | {} {})", mapkey(slot), k("0x1")));
        emit(format!("(return 0 | {}) $ (add 0 | (sha3 0 | (concat 0 | {})) (callValue 1 |))", mapkey(slot), k(slot)));
        emit(format!("(sLoad 0 | {} (unwrittenStorageValue 0 | {}))", mapkey(slot), mapkey(slot)));
        emit(format!("(storageWrite 0 | (add 0 | {} {}) (caller 1 |))", mapkey(slot), k("0x3")));
        emit(format!("(storageWrite 0 | (add 0 | (sha3 0 | (concat 0 | {})) (callValue 1 |)) (caller 1 |))", k(slot)));
    }
    // a storage access and a look-alike hash in the *same* tree, the hash outside the access
    let load0 = format!("(sLoad 0 | {} (unwrittenStorageValue 0 | {}))", k("0x0"), k("0x0"));
    for slot in ["0x5", "0x270f", "0xffffffffffffffffffffffffffffffff"] {
        emit(format!("(equals 0 | {load0} {})", mapkey(slot)));
        emit(format!("(add 0 | {} {load0})", mapkey(slot)));
        emit(format!("(return 0 | (concat 0 | {load0} {}))", mapkey(slot)));
        emit(format!("(log 0 | (concat 0 | {load0}) {})", mapkey(slot)));
        emit(format!("(isZero 0 | (equals 0 | {load0} (add 0 | (sha3 0 | (concat 0 | {})) (callValue 1 |))))", k(slot)));
    }
    // literal keys around the end of the recognised-hash table: keccak(9999) is array data of
    // slot 9999, keccak(10000) is an ordinary 256-bit literal
    for i in [0u64, 1, 9998, 9999, 10000, 10001] {
        let h = format!("0x{:x}", storage_layout_extractor::tc::lift::proxy_slots::ProxySlots::sha3_known_words(&[
            storage_layout_extractor::vm::value::known::KnownWord::from(i as usize)]).value_le());
        emit(format!("(sLoad 0 | {} (unwrittenStorageValue 0 | {}))", k(&h), k(&h)));
        emit(format!("(storageWrite 0 | {} (callDataSize 1 |))", k(&h)));
        emit(format!("(storageWrite 0 | {} (callDataSize 1 |)) $ (sLoad 0 | {} (unwrittenStorageValue 0 | {}))", k(&h), k(&h), k(&h)));
    }
    // masks and shifts
    let sload = format!("(sLoad 0 | {} (unwrittenStorageValue 0 | {}))", k("0x0"), k("0x0"));
    let masks = ["0xff", "0xff00", "0xffffffffffffffffffffffffffffffffffffffff", "0x8000000000000000000000000000000000000000000000000000000000000000",
                 "0xffffffffffffffffffffffffffffffffffffffffffffffffffffffffffffffff", "0xff0000000000000000000000000000000000000000000000000000000000"];
    let shifts = ["0x0", "0x8", "0xa0", "0xf8", "0xff", "0x100", "0xffffffffffffffff", "0x10000000000000000"];
    for m in masks {
        for s in shifts {
            emit(format!("(storageWrite 0 | {} (and 0 | {} (rightShift 0 | {} {sload})))", k("0x1"), k(m), k(s)));
            emit(format!("(storageWrite 0 | {} (or 0 | (multiply 0 | {} (and 0 | (caller 1 |) {})) (and 0 | {sload} {})))", k("0x0"), k(s), k(m), k("0xff")));
        }
    }
    // sizes
    // nested masks: a narrow field cut high in the word, masked again with a wider mask
    for s in ["0xc8", "0xf0", "0xfa", "0xff"] {
        for (m1, m2) in [("0x3f", "0xffffffffffffffffffffffffffffffff"), ("0xff", "0xffff"), ("0x1", "0xffffffffffffffffffffffffffffffffffffffff"),
                         ("0xffffffffffffffffffffffffffffffff", "0x3f")] {
            emit(format!("(storageWrite 0 | {} (and 0 | (and 0 | (rightShift 0 | {} {sload}) {}) {}))", k("0x1"), k(s), k(m1), k(m2)));
            emit(format!("(storageWrite 0 | {} (and 0 | {} (and 0 | {} (rightShift 0 | {} {sload}))))", k("0x1"), k(m2), k(m1), k(s)));
        }
    }
    // (a `callData` node with a constant size other than 32 cannot come out of the machine:
    // CALLDATACOPY splits a constant size into 32-byte words, CALLDATALOAD reads one word)
    emit(format!("(storageWrite 0 | {} (callData 0 1 | {} {}))", k("0x2"), k("0x4"), k("0x20")));
    emit(format!("(storageWrite 0 | {} (callData 0 1 | {} (callDataSize 1 |)))", k("0x2"), k("0x4")));
    for sz in ["0x0", "0x1f", "0x20", "0x100", "0xffffffffffffffff", "0x10000000000000000"] {
        emit(format!("(storageWrite 0 | {} (signExtend 0 | {} (callValue 1 |)))", k("0x3"), k(sz)));
    }
}

pub fn generate(seed: u64, n: usize, _tier: &str, emit: &mut dyn FnMut(String)) {
    if seed % 1000 == 1 {
        directed(emit);
    }
    let mut idx = 0;
    let mut count = 0;
    while count < n && idx < n * 3 + 10 {
        let mut r = Rng::for_case(seed, "tc", idx);
        idx += 1;
        let (cfg, prog) = if r.chance(1, 6) {
            ("30000000,10,50,250,394,1".to_string(), crate::fam::idiom::self_ref_program(&mut r))
        } else if r.chance(3, 4) {
            ("30000000,10,50,250,394,1".to_string(), pipeline::gen_idiom_program(&mut r))
        } else {
            let f = r.below(4);
            (vm::gen_cfg(&mut r, f), vm::gen_program(&mut r, f))
        };
        let all = lift::harvest(&cfg, &prog);
        if all.is_empty() {
            continue;
        }
        // a window of the harvested values (keeps a case readable and the model run quick)
        let take = 1 + r.below(all.len().min(24));
        let start = r.below(all.len() - take + 1);
        let mut chosen: Vec<String> = all[start..start + take].to_vec();
        // prefer the storage-relevant ones: pull in every write / load among the rest, up to a bound
        for t in all.iter() {
            if chosen.len() >= take + 8 {
                break;
            }
            if (t.starts_with("(storageWrite") || t.starts_with("(sLoad")) && !chosen.contains(t) {
                chosen.push(t.clone());
            }
        }
        let text = chosen.join(" $ ");
        if text.len() > 40_000 {
            continue;
        }
        emit(text);
        count += 1;
    }
}
