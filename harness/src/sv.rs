//! Text form of symbolic value trees shared with the Lean driver:
//!   `(kind size attr* | kid*)`   e.g. `(add 3 | (knownData 1 0x3 |) (value 1 0 |))`
//! Kids are in field-declaration order; opaque ids are renumbered by first occurrence.
use std::{collections::HashMap, sync::Arc};

use storage_layout_extractor::vm::value::{BoxedVal, Provenance, RuntimeBoxedVal, RSV, SV};
use uuid::Uuid;

pub use crate::sv_gen::{attrs, build, kids, kind_name};

#[derive(Default)]
pub struct Ids {
    map: HashMap<Uuid, usize>,
    rev: HashMap<usize, Uuid>,
    next: usize,
}

impl Ids {
    /// Canonical number of an opaque id: the number it was built from, or the next unused one.
    pub fn number(&mut self, u: &Uuid) -> usize {
        if let Some(n) = self.map.get(u) {
            return *n;
        }
        while self.rev.contains_key(&self.next) {
            self.next += 1;
        }
        let n = self.next;
        self.map.insert(*u, n);
        self.rev.insert(n, *u);
        n
    }
    pub fn fresh(&mut self, n: usize) -> Uuid {
        if let Some(u) = self.rev.get(&n) {
            return *u;
        }
        let u = Uuid::new_v4();
        self.rev.insert(n, u);
        self.map.insert(u, n);
        u
    }
}

pub fn print<A: Clone + PartialEq>(v: &SV<A>, ids: &mut Ids, out: &mut String) {
    out.push('(');
    out.push_str(kind_name(v.data()));
    out.push(' ');
    out.push_str(&v.size().to_string());
    for a in attrs(v.data(), &mut |u| ids.number(u)) {
        out.push(' ');
        out.push_str(&a);
    }
    out.push_str(" |");
    for k in kids(v.data()) {
        out.push(' ');
        print(&k, ids, out);
    }
    out.push(')');
}

/// VM-dump form: opaque ids (of `value` / `callData` nodes) are printed as the instruction
/// pointer at which the node was created, so the text does not depend on random `Uuid`s.
pub fn print_ip<A: Clone + PartialEq>(v: &SV<A>, out: &mut String) {
    out.push('(');
    let kind = kind_name(v.data());
    out.push_str(kind);
    out.push(' ');
    out.push_str(&v.size().to_string());
    let ip = v.instruction_pointer();
    let at = attrs(v.data(), &mut |_| ip as usize);
    for a in at {
        out.push(' ');
        out.push_str(&a);
    }
    out.push_str(" |");
    for k in kids(v.data()) {
        out.push(' ');
        print_ip(&k, out);
    }
    out.push(')');
}

pub fn to_text_ip<A: Clone + PartialEq>(v: &SV<A>) -> String {
    let mut s = String::new();
    print_ip(v, &mut s);
    s
}

pub fn to_text<A: Clone + PartialEq>(v: &SV<A>, ids: &mut Ids) -> String {
    let mut s = String::new();
    print(v, ids, &mut s);
    s
}

/// Parse the text form and build a runtime value with `RSV::new(.., limit)` at every node
/// (so the recorded sizes are whatever the implementation computes, not the printed ones).
pub fn parse(text: &str, ids: &mut Ids, limit: Option<usize>) -> Option<RuntimeBoxedVal> {
    let spaced = text.replace('(', " ( ").replace(')', " ) ");
    let toks: Vec<&str> = spaced.split_whitespace().collect();
    let mut pos = 0;
    let v = parse_node(&toks, &mut pos, ids, limit)?;
    if pos == toks.len() {
        Some(v)
    } else {
        None
    }
}

fn parse_node(toks: &[&str], pos: &mut usize, ids: &mut Ids, limit: Option<usize>) -> Option<RuntimeBoxedVal> {
    if toks.get(*pos) != Some(&"(") {
        return None;
    }
    *pos += 1;
    let kind = (*toks.get(*pos)?).to_string();
    *pos += 1;
    let _size = toks.get(*pos)?;
    *pos += 1;
    let mut at: Vec<String> = vec![];
    while *toks.get(*pos)? != "|" {
        at.push((*toks.get(*pos)?).to_string());
        *pos += 1;
    }
    *pos += 1;
    let mut ks: Vec<BoxedVal<()>> = vec![];
    while *toks.get(*pos)? != ")" {
        ks.push(parse_node(toks, pos, ids, limit)?);
    }
    *pos += 1;
    let data = build::<()>(&kind, &at, ks, &mut |n| ids.fresh(n))?;
    Some(RSV::new(0, data, Provenance::Synthetic, limit))
}

#[allow(dead_code)]
pub fn arc_ptr_eq<A>(a: &Arc<SV<A>>, b: &Arc<SV<A>>) -> bool {
    Arc::ptr_eq(a, b)
}
