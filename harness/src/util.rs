use std::panic::{catch_unwind, AssertUnwindSafe};

pub fn guarded<F: FnOnce() -> String>(f: F) -> String {
    match catch_unwind(AssertUnwindSafe(f)) {
        Ok(s) => s,
        Err(e) => {
            let msg = if let Some(s) = e.downcast_ref::<&str>() {
                (*s).to_string()
            } else if let Some(s) = e.downcast_ref::<String>() {
                s.clone()
            } else {
                "?".to_string()
            };
            let msg: String = msg.chars().map(|c| if c.is_whitespace() { '_' } else { c }).take(80).collect();
            format!("PANIC {msg}")
        }
    }
}

pub fn hex_to_bytes(s: &str) -> Vec<u8> {
    hex::decode(s.trim_start_matches("0x")).expect("hex payload")
}

pub fn bytes_to_hex(b: &[u8]) -> String {
    hex::encode(b)
}
