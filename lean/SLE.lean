-- This module serves as the root of the `SLE` library.
-- Import modules here that should be built as part of the library.
import SLE.Basic
