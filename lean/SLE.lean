import SLE.Model.Disasm
import SLE.Lemmas.Disasm
import SLE.Props.C10
