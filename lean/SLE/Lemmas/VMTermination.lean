import SLE.Lemmas.VMControl
/-
C03 — termination of the control loop with an explicit bound on the number of iterations.
-/
namespace SLE.VM
open SLE SLE.SV SLE.Disasm

/-! ### sums over `List.range` -/

theorem sum_map_range_le (f : Nat → Nat) (B : Nat) (h : ∀ i, f i ≤ B) :
    ∀ n, ((List.range n).map f).sum ≤ n * B
  | 0 => by simp
  | n + 1 => by
    have ih := sum_map_range_le f B h n
    have := h n
    simp only [List.range_succ, List.map_append, List.sum_append, List.map_cons, List.map_nil,
      List.sum_cons, List.sum_nil, Nat.succ_mul]
    omega

theorem sum_map_range_congr (f g : Nat → Nat) :
    ∀ n, (∀ j, j < n → g j = f j) → ((List.range n).map g).sum = ((List.range n).map f).sum
  | 0, _ => rfl
  | n + 1, h => by
    have ih := sum_map_range_congr f g n (fun j hj => h j (by omega))
    simp only [List.range_succ, List.map_append, List.sum_append, List.map_cons, List.map_nil,
      List.sum_cons, List.sum_nil, ih, h n (by omega)]

/-- `g` is `f` lowered by one at the single position `i < n`. -/
theorem sum_map_range_update (f g : Nat → Nat) (i : Nat) (hi' : g i + 1 = f i)
    (hne : ∀ j, j ≠ i → g j = f j) :
    ∀ n, i < n → ((List.range n).map g).sum + 1 = ((List.range n).map f).sum
  | 0, h => by omega
  | n + 1, h => by
    simp only [List.range_succ, List.map_append, List.sum_append, List.map_cons, List.map_nil,
      List.sum_cons, List.sum_nil]
    by_cases hin : i = n
    · subst hin
      rw [sum_map_range_congr f g i (fun j hj => hne j (by omega))]
      omega
    · have ih := sum_map_range_update f g i hi' hne n (by omega)
      rw [hne n (fun h => hin h.symm)]
      omega

/-! ### the measure -/

/-- number of JUMPDEST entries of the stream -/
def jdCount (code : List Instr) : Nat := (code.filter (· == .op 0x5b)).length

/-- how many more instructions this thread may execute, at most -/
def cap (cfg : Cfg) (code : List Instr) (t : Thread) : Nat :=
  ((List.range code.length).map (fun off => cfg.iterLimit - t.visited.getD off 0)).sum

def qsum (cfg : Cfg) (code : List Instr) (q : List Thread) : Nat :=
  (q.map (fun t => cap cfg code t + 1)).sum

def μ (cfg : Cfg) (code : List Instr) (s : VMS) : Nat :=
  qsum cfg code s.queue +
    (cfg.forkLimit * jdCount code - s.forks.sum) * (code.length * cfg.iterLimit + 1)

theorem cap_congr {cfg : Cfg} {code : List Instr} {t t' : Thread} (h : t'.visited = t.visited) :
    cap cfg code t' = cap cfg code t := by
  unfold cap; rw [h]

theorem cap_le (cfg : Cfg) (code : List Instr) (t : Thread) :
    cap cfg code t ≤ code.length * cfg.iterLimit :=
  sum_map_range_le _ _ (fun _ => Nat.sub_le _ _) _

theorem cap_bump {cfg : Cfg} {code : List Instr} {t v : Thread} (hip : t.ip < code.length)
    (hlen : t.visited.length = code.length) (hlt : t.visited.getD t.ip 0 < cfg.iterLimit)
    (hv : v.visited = bump t.visited t.ip) : cap cfg code v + 1 = cap cfg code t := by
  unfold cap
  rw [hv]
  refine sum_map_range_update _ _ t.ip ?_ ?_ _ hip
  · rw [bump_getD_self _ (by omega)]; omega
  · intro j hj
    rw [bump_getD_ne _ (fun h => hj h.symm)]

theorem qsum_cons (cfg : Cfg) (code : List Instr) (t : Thread) (q : List Thread) :
    qsum cfg code (t :: q) = cap cfg code t + 1 + qsum cfg code q := by
  simp [qsum]

theorem qsum_append (cfg : Cfg) (code : List Instr) (q q' : List Thread) :
    qsum cfg code (q ++ q') = qsum cfg code q + qsum cfg code q' := by
  simp [qsum, List.sum_append]

theorem qsum_nil (cfg : Cfg) (code : List Instr) : qsum cfg code [] = 0 := rfl

/-- `advance` never increases the measure. -/
theorem μ_advance_le (cfg : Cfg) (code : List Instr) (s : VMS) :
    μ cfg code (advance cfg code s) ≤ μ cfg code s := by
  cases hq : s.queue with
  | nil => rw [advance_nil hq]; exact Nat.le_refl _
  | cons t rest =>
    rw [advance_cons hq]
    unfold μ
    split
    · dsimp only
      rw [hq, qsum_cons]; omega
    · dsimp only
      rw [hq, qsum_cons, qsum_cons, cap_congr (t := t) rfl]
      exact Nat.le_refl _

theorem forksOk_bump {cfg : Cfg} {code : List Instr} {forks : List Nat} {tgt : Nat}
    (h : ForksOk cfg code forks) (hc : code[tgt]? = some (.op 0x5b))
    (hlt : forks.getD tgt 0 < cfg.forkLimit) : ForksOk cfg code (bump forks tgt) := by
  refine ⟨by rw [bump_length]; exact h.len, fun off => ?_, fun off hne => ?_⟩
  · rw [bump_getD]
    split
    · omega
    · exact h.le off
  · by_cases ho : tgt = off
    · rw [← ho]; exact hc
    · rw [bump_getD_ne _ ho] at hne; exact h.supp off hne

/-- Executing an instruction strictly lowers the measure (whatever its data effect). -/
theorem μ_midOk_lt {cfg : Cfg} {code : List Instr} {s : VMS} {t : Thread} {rest : List Thread}
    (ins : Instr) {o : OpOut} (h : Inv cfg code s) (hq : s.queue = t :: rest)
    (hf : ∀ tgt, o.forkTo = some tgt → code[tgt]? = some (.op 0x5b)) :
    μ cfg code (midOk cfg s t rest ins o) < μ cfg code s := by
  have htq : t ∈ s.queue := by rw [hq]; simp
  have htOk := h.queueOk t htq
  have htRun := h.runnable t htq
  have hcap : ∀ v : Thread, v.visited = bump t.visited t.ip →
      cap cfg code v + 1 = cap cfg code t := fun v hv => cap_bump htRun.ip htOk.len htRun.lt hv
  have hcapt := cap_le cfg code t
  have hcap' : ∀ (ip gas : Nat) (d : TData),
      cap cfg code { ip := ip, visited := bump t.visited t.ip, gas := gas, d := d } + 1 =
        cap cfg code t := fun _ _ _ => hcap _ rfl
  unfold μ midOk
  dsimp only
  rw [hq, qsum_cons]
  split
  · rename_i tgt _
    dsimp only
    rw [qsum_cons]
    have := hcap' tgt (t.gas + minGas ins) o.d
    omega
  · split
    · rename_i tgt hft
      split
      · rename_i hcond
        simp only [Bool.and_eq_true, Bool.not_eq_true', decide_eq_false_iff_not, Nat.not_le,
          decide_eq_true_eq, ge_iff_le] at hcond
        have hfo := forksOk_bump h.forks (hf tgt hft) hcond.2
        have hs1 := forks_sum_le hfo
        have hlen : tgt < s.forks.length := by
          rw [h.forks.len]; exact (List.getElem?_eq_some_iff.mp (hf tgt hft)).1
        rw [bump_sum _ _ hlen] at hs1
        dsimp only
        rw [bump_sum _ _ hlen]
        have hA : cfg.forkLimit * jdCount code - s.forks.sum =
            (cfg.forkLimit * jdCount code - (s.forks.sum + 1)) + 1 := by
          unfold jdCount; omega
        rw [hA, Nat.add_mul, Nat.one_mul, List.cons_append, qsum_cons, qsum_append, qsum_cons,
          qsum_nil]
        have h1 := hcap' t.ip (t.gas + minGas ins) o.d
        have h2 := hcap' tgt t.gas { o.d with forkPoint := t.ip }
        dsimp only at h2
        omega
      · dsimp only
        rw [qsum_cons]
        have := hcap' t.ip (t.gas + minGas ins) o.d
        omega
    · split
      · dsimp only
        rw [qsum_cons]
        have := hcap' t.ip (t.gas + minGas ins) o.d
        omega
      · dsimp only
        rw [qsum_cons]
        have := hcap' t.ip (t.gas + minGas ins) o.d
        omega

theorem μ_midErr_lt {cfg : Cfg} {code : List Instr} {s : VMS} {t : Thread} {rest : List Thread}
    (o : OpOut) (e : XErr) (h : Inv cfg code s) (hq : s.queue = t :: rest) :
    μ cfg code (midErr cfg s t rest o e) < μ cfg code s := by
  have htq : t ∈ s.queue := by rw [hq]; simp
  have htOk := h.queueOk t htq
  have htRun := h.runnable t htq
  have := cap_bump (cfg := cfg) (v := { t with visited := bump t.visited t.ip, d := o.d })
    htRun.ip htOk.len htRun.lt rfl
  unfold μ midErr
  dsimp only
  rw [hq, qsum_cons, qsum_cons]
  omega

/-- Every iteration strictly lowers the measure, unless it aborts. -/
theorem μ_step_lt {cfg : Cfg} {code : List Instr} {s : VMS} (h : Inv cfg code s)
    (hne : s.queue ≠ []) (_ : s.aborted = none) :
    μ cfg code (step cfg code s) < μ cfg code s ∨ (step cfg code s).aborted.isSome := by
  cases hq : s.queue with
  | nil => exact absurd hq hne
  | cons t rest =>
    cases hi : code[t.ip]? with
    | none => right; rw [step_oob hq hi]; rfl
    | some ins =>
      cases he : (opOut cfg code s t ins).err with
      | none =>
        left
        rw [step_ok hq hi he]
        exact Nat.lt_of_le_of_lt (μ_advance_le _ _ _)
          (μ_midOk_lt ins h hq (fun tgt hh => execOp_forkTo_jumpdest hh))
      | some e =>
        by_cases hp : ∃ site, e = .panic site
        · obtain ⟨site, rfl⟩ := hp
          right; rw [step_panic hq hi he]; rfl
        · left
          rw [step_err hq hi he (fun site hs => hp ⟨site, hs⟩)]
          exact Nat.lt_of_le_of_lt (μ_advance_le _ _ _) (μ_midErr_lt _ e h hq)

theorem run_aborted (cfg : Cfg) (code : List Instr) :
    ∀ (fuel : Nat) (s : VMS), s.aborted.isSome = true → run cfg code fuel s = s
  | 0, _, _ => rfl
  | fuel + 1, s, h => by unfold run; simp [h]

/-- Fuel `μ s` suffices. -/
theorem run_reaches (cfg : Cfg) (code : List Instr) :
    ∀ (fuel : Nat) (s : VMS), Inv cfg code s → μ cfg code s ≤ fuel →
      (run cfg code fuel s).queue = [] ∨ (run cfg code fuel s).aborted.isSome = true
  | 0, s, _, hμ => by
    left
    show s.queue = []
    cases hq : s.queue with
    | nil => rfl
    | cons t rest =>
      unfold μ at hμ
      rw [hq, qsum_cons] at hμ
      omega
  | fuel + 1, s, h, hμ => by
    unfold run
    split
    · rename_i hc
      simp only [Bool.or_eq_true, List.isEmpty_iff] at hc
      exact hc
    · rename_i hc
      simp only [Bool.or_eq_true, List.isEmpty_iff, not_or, Bool.not_eq_true,
        Option.isSome_eq_false_iff, Option.isNone_iff_eq_none] at hc
      rcases μ_step_lt h hc.1 hc.2 with hlt | hab
      · exact run_reaches cfg code fuel _ (inv_step' h) (by omega)
      · rw [run_aborted cfg code fuel _ hab]
        exact .inr hab

theorem μ_init_le (cfg : Cfg) (code : List Instr) :
    μ cfg code (initVM cfg code) ≤
      (code.length * cfg.iterLimit + 1) * (1 + cfg.forkLimit * jdCount code) := by
  have h1 := cap_le cfg code
    { ip := 0, visited := List.replicate code.length 0, gas := 0, d := {} }
  unfold μ initVM
  dsimp only
  generalize code.length * cfg.iterLimit = LI at *
  generalize cfg.forkLimit * jdCount code = FJ
  have : (LI + 1) * (1 + FJ) = LI + 1 + (FJ * LI + FJ) := by
    rw [Nat.mul_add, Nat.mul_one, Nat.mul_comm (LI + 1) FJ, Nat.mul_add, Nat.mul_one]
  rw [qsum_cons, qsum_nil, List.sum_replicate_nat, Nat.mul_zero, Nat.sub_zero, this, Nat.mul_add,
    Nat.mul_one]
  omega

/-- The loop terminates within an explicit number of iterations that depends only on
`code.length`, `iterLimit`, `forkLimit` and the number of JUMPDESTs. -/
theorem run_terminates {cfg : Cfg} {code : List Instr} (hc : 0 < code.length)
    (hi : 0 < cfg.iterLimit) :
    let bound := (code.length * cfg.iterLimit + 1) *
      (1 + cfg.forkLimit * (code.filter (· == .op 0x5b)).length)
    ∀ fuel, fuel ≥ bound →
      let s := run cfg code fuel (initVM cfg code)
      s.queue = [] ∨ s.aborted.isSome = true := by
  intro bound fuel hfuel
  exact run_reaches cfg code fuel _ (inv_init hc hi)
    (Nat.le_trans (μ_init_le cfg code) hfuel)

end SLE.VM
