import SLE.Model.TC
import SLE.Model.Unify
import SLE.Lemmas.TCSlots
import SLE.Lemmas.Rename
import SLE.Lemmas.OrderFacts
import SLE.Lemmas.Unify
import SLE.Lemmas.MergePacked
/-
C11 (model level, second half): independence of two code fragments `vs` (A) and `ws` (B) that share
no stable-typed sub-tree (`Disjoint vs ws`).

* I1 `registerAll_append_prefix` (no hypothesis), `registerAll_append`, `I1_registration`:
     `registerAll (vs ++ ws) = (registerAll vs).join (registerAll ws)` — B's trees, memo and counter
     shifted by `(registerAll vs).next`.
* I2 `applyRules_mapSt` (the sixteen rules commute with an injective renaming of type variables that
     respects the successor of the counter), `inferAll_good` (all judgement variables are below the
     counter), `inferAll_append`, `I2_rules`, `I2_rules_shift`:
     judgements (vs ++ ws) = map rhoA (judgements vs) ++ map rhoB (judgements ws), counters add up.
* I3 `embed_rep`, `I3_initial_forest`: in the initial forest of the joint run no class mixes the two
     images; classes and evidence of an A-class are the `rA`-image of A alone (same for B).
* I4 `merge_loc`, `foldClass_loc` (a merge only mentions variables of its inputs, the parent and fresh
     ones), `round_sep`, `unifyLoop_sep`, `initForest_sep`, `I4_unify_separated`, `I4_no_crosstalk`:
     every round, hence the whole unification of the joint program — packed encodings and allocation
     included, any permutation orders — keeps the forest separated.
     `round_sep_frame`, `round_frame`, `unifyLoop_frame`: once one side is resolved, later rounds leave
     its classes and evidence untouched.
     NOT proved: that the A-part of the joint forest evolves round by round like A alone (this
     needs a concrete simulation that depends on the iteration orders).
-/

/-! ### renaming of type variables -/

namespace SLE.TC
open SLE SLE.SV

mutual
/-- rename every type variable of a registered tree -/
def TV.mapVar (ρ : Nat → Nat) : TV → TV
  | .node k a ks t => .node k a (TV.mapVarList ρ ks) (ρ t)
def TV.mapVarList (ρ : Nat → Nat) : List TV → List TV
  | [] => []
  | x :: xs => TV.mapVar ρ x :: TV.mapVarList ρ xs
end

/-- add `k` to every type variable of a registered tree -/
def TV.shift (k : Nat) (t : TV) : TV := t.mapVar (· + k)

mutual
/-- every type variable of the tree is below `n` -/
def TV.allLt (n : Nat) : TV → Prop
  | .node _ _ ks t => t < n ∧ TV.allLtList n ks
def TV.allLtList (n : Nat) : List TV → Prop
  | [] => True
  | x :: xs => TV.allLt n x ∧ TV.allLtList n xs
end

/-- `B` registered after `A`: the counter continues, `B`'s trees and memo entries are shifted by
`A.next`; judgements are those of `A` (registration does not touch them). -/
def RegState.join (A s : RegState) : RegState :=
  { next := A.next + s.next
    stable := A.stable ++ s.stable.map (fun p => (p.1, p.2.shift A.next))
    values := A.values ++ s.values.map (TV.shift A.next)
    judgements := A.judgements }

end SLE.TC

namespace SLE.Independence
open SLE SLE.SV SLE.TC SLE.TCSlots
set_option linter.unusedVariables false
set_option linter.unusedSimpArgs false

/-! ### definitions -/

mutual
/-- all nodes of a value -/
def subterms : SV → List SV
  | .node k a ks s => .node k a ks s :: subtermsList ks
def subtermsList : List SV → List SV
  | [] => []
  | x :: xs => subterms x ++ subtermsList xs
end

/-- No stable-typed sub-term of a value in `ws` is a sub-term of a value in `vs`. -/
def Disjoint (vs ws : List SV) : Prop :=
  ∀ w ∈ ws, ∀ t ∈ subterms w, isStable (nodeCount t + 1) t = true → ∀ v ∈ vs, t ∉ subterms v

/-- `x ↦ x` below `n`, `x ↦ x + k` from `n` on -/
def shiftVar (k n : Nat) (x : Nat) : Nat := if x < n then x else x + k

/-- rename the type variables of a type expression -/
def mapTE (ρ : Nat → Nat) : TE → TE
  | .any => .any
  | .equal id => .equal (ρ id)
  | .word w u => .word w u
  | .bytes => .bytes
  | .fixedArray e l => .fixedArray (ρ e) l
  | .mapping k v => .mapping (ρ k) (ρ v)
  | .dynamicArray e => .dynamicArray (ρ e)
  | .packed ts s => .packed (ts.map (fun sp => ⟨ρ sp.typ, sp.offset, sp.size⟩)) s
  | .conflict => .conflict

/-- renumber every type variable `≥ n` of a type expression by adding `k` -/
def shiftTE (k n : Nat) : TE → TE := mapTE (shiftVar k n)

/-- rename a judgement -/
def mapJ (ρ : Nat → Nat) (p : Nat × TE) : Nat × TE := (ρ p.1, mapTE ρ p.2)

/-- the type variables occurring in a type expression -/
def varsTE : TE → List Nat
  | .equal id => [id]
  | .fixedArray e _ => [e]
  | .mapping k v => [k, v]
  | .dynamicArray e => [e]
  | .packed ts _ => ts.map (·.typ)
  | _ => []

/-! ### sub-terms -/

theorem self_mem_subterms (v : SV) : v ∈ subterms v := by
  obtain ⟨k, a, ks, s⟩ := v
  simp [subterms]

theorem mem_subtermsList_of_mem : ∀ (ks : List SV) (c t : SV), c ∈ ks → t ∈ subterms c → t ∈ subtermsList ks
  | [], _, _, h, _ => by cases h
  | x :: xs, c, t, h, ht => by
    simp only [subtermsList, List.mem_append]
    rcases List.mem_cons.mp h with rfl | h
    · exact .inl ht
    · exact .inr (mem_subtermsList_of_mem xs c t h ht)

mutual
theorem subterms_kid : ∀ (v : SV) (k : Kind) (a : List Nat) (ks : List SV) (s : Nat) (c : SV),
    .node k a ks s ∈ subterms v → c ∈ ks → c ∈ subterms v
  | .node k' a' ks' s', k, a, ks, s, c, h, hc => by
    simp only [subterms, List.mem_cons] at h ⊢
    rcases h with h | h
    · injection h with h1 h2 h3 h4
      subst h3
      exact .inr (mem_subtermsList_of_mem ks c c hc (self_mem_subterms c))
    · exact .inr (subtermsList_kid ks' k a ks s c h hc)
theorem subtermsList_kid : ∀ (vs : List SV) (k : Kind) (a : List Nat) (ks : List SV) (s : Nat) (c : SV),
    .node k a ks s ∈ subtermsList vs → c ∈ ks → c ∈ subtermsList vs
  | [], _, _, _, _, _, h, _ => by simp [subtermsList] at h
  | x :: xs, k, a, ks, s, c, h, hc => by
    simp only [subtermsList, List.mem_append] at h ⊢
    rcases h with h | h
    · exact .inl (subterms_kid x k a ks s c h hc)
    · exact .inr (subtermsList_kid xs k a ks s c h hc)
end

/-- being a sub-term of one of `vs` -/
def SubOf (vs : List SV) (t : SV) : Prop := ∃ v ∈ vs, t ∈ subterms v

theorem subOf_kid (vs : List SV) : ∀ k a ks s, SubOf vs (.node k a ks s) → ∀ c ∈ ks, SubOf vs c := by
  rintro k a ks s ⟨v, hv, ht⟩ c hc
  exact ⟨v, hv, subterms_kid v k a ks s c ht hc⟩

theorem subOf_self (vs : List SV) : ∀ v ∈ vs, SubOf vs v := fun v hv => ⟨v, hv, self_mem_subterms v⟩

/-! ### `mapVar`, `allLt` -/

theorem mapVarList_eq_map (ρ : Nat → Nat) : ∀ ks, TV.mapVarList ρ ks = ks.map (TV.mapVar ρ)
  | [] => rfl
  | x :: xs => by simp only [TV.mapVarList, List.map_cons, mapVarList_eq_map ρ xs]

mutual
theorem allLt_mono {n m : Nat} (h : n ≤ m) : ∀ t : TV, t.allLt n → t.allLt m
  | .node _ _ ks t, ht => by
    simp only [TV.allLt] at ht ⊢
    exact ⟨by omega, allLtList_mono h ks ht.2⟩
theorem allLtList_mono {n m : Nat} (h : n ≤ m) : ∀ ts : List TV, TV.allLtList n ts → TV.allLtList m ts
  | [], _ => trivial
  | x :: xs, ht => by
    simp only [TV.allLtList] at ht ⊢
    exact ⟨allLt_mono h x ht.1, allLtList_mono h xs ht.2⟩
end

mutual
theorem mapVar_congr {n : Nat} {ρ σ : Nat → Nat} (h : ∀ x < n, ρ x = σ x) :
    ∀ t : TV, t.allLt n → t.mapVar ρ = t.mapVar σ
  | .node _ _ ks t, ht => by
    simp only [TV.allLt] at ht
    simp only [TV.mapVar, h t ht.1, mapVarList_congr h ks ht.2]
theorem mapVarList_congr {n : Nat} {ρ σ : Nat → Nat} (h : ∀ x < n, ρ x = σ x) :
    ∀ ts : List TV, TV.allLtList n ts → TV.mapVarList ρ ts = TV.mapVarList σ ts
  | [], _ => rfl
  | x :: xs, ht => by
    simp only [TV.allLtList] at ht
    simp only [TV.mapVarList, mapVar_congr h x ht.1, mapVarList_congr h xs ht.2]
end

mutual
theorem mapVar_id : ∀ t : TV, t.mapVar (fun x => x) = t
  | .node _ _ ks t => by simp only [TV.mapVar, mapVarList_id ks]
theorem mapVarList_id : ∀ ts : List TV, TV.mapVarList (fun x => x) ts = ts
  | [] => rfl
  | x :: xs => by simp only [TV.mapVarList, mapVar_id x, mapVarList_id xs]
end

theorem allLtList_mem {n : Nat} : ∀ (ts : List TV), TV.allLtList n ts → ∀ c ∈ ts, c.allLt n
  | [], _, c, hc => by cases hc
  | x :: xs, h, c, hc => by
    simp only [TV.allLtList] at h
    rcases List.mem_cons.mp hc with rfl | hc
    · exact h.1
    · exact allLtList_mem xs h.2 c hc

theorem allLtList_of_mem {n : Nat} : ∀ (ts : List TV), (∀ c ∈ ts, c.allLt n) → TV.allLtList n ts
  | [], _ => trivial
  | x :: xs, h => by
    simp only [TV.allLtList]
    exact ⟨h x List.mem_cons_self, allLtList_of_mem xs (fun c hc => h c (List.mem_cons_of_mem _ hc))⟩

@[simp] theorem tv_mapVar (ρ : Nat → Nat) (t : TV) : (t.mapVar ρ).tv = ρ t.tv := by
  cases t; rfl

@[simp] theorem kind_mapVar (ρ : Nat → Nat) (t : TV) : (t.mapVar ρ).kind = t.kind := by
  cases t; rfl

theorem allLt_tv {n : Nat} {t : TV} (h : t.allLt n) : t.tv < n := by
  obtain ⟨k, a, ks, tv⟩ := t
  simp only [TV.allLt] at h
  exact h.1

theorem allLt_kids {n : Nat} {t : TV} (h : t.allLt n) : ∀ c ∈ t.kids, c.allLt n := by
  obtain ⟨k, a, ks, tv⟩ := t
  simp only [TV.allLt] at h
  exact allLtList_mem ks h.2

/-! ### I1: registration -/

/-- registration invariant: memo keys satisfy `Q`, all variables are below the counter -/
structure RInv (Q : SV → Prop) (st : RegState) : Prop where
  keys : ∀ p ∈ st.stable, Q p.1
  memoLt : ∀ p ∈ st.stable, p.2.allLt st.next
  valsLt : ∀ t ∈ st.values, t.allLt st.next

theorem rinv_empty (Q : SV → Prop) : RInv Q {} :=
  ⟨(by intro p hp; cases hp), (by intro p hp; cases hp), (by intro p hp; cases hp)⟩

def RPost (Q : SV → Prop) (st : RegState) (r : RegState × TV) : Prop :=
  RInv Q r.1 ∧ r.2.allLt r.1.next ∧ st.next ≤ r.1.next ∧ ∃ l, r.1.values = st.values ++ l

theorem regList_rinv (Q : SV → Prop) (fuel : Nat)
    (ih : ∀ st v, nodeCount v < fuel → RInv Q st → Q v → RPost Q st (register fuel st v)) :
    ∀ (ks : List SV) (st : RegState), (∀ c ∈ ks, nodeCount c < fuel ∧ Q c) → RInv Q st →
      RInv Q (regList fuel st ks).1 ∧ TV.allLtList (regList fuel st ks).1.next (regList fuel st ks).2 ∧
      st.next ≤ (regList fuel st ks).1.next ∧ ∃ l, (regList fuel st ks).1.values = st.values ++ l := by
  intro ks
  induction ks with
  | nil =>
    intro st _ hi
    simp only [regList, TV.allLtList]
    exact ⟨hi, trivial, Nat.le_refl _, [], by simp⟩
  | cons c cs ihks =>
    intro st hks hi
    have hc := hks c List.mem_cons_self
    obtain ⟨i1, lt1, le1, l1, e1⟩ := ih st c hc.1 hi hc.2
    obtain ⟨i2, lt2, le2, l2, e2⟩ := ihks (register fuel st c).1
      (fun x hx => hks x (List.mem_cons_of_mem _ hx)) i1
    simp only [regList, TV.allLtList]
    refine ⟨i2, ⟨allLt_mono le2 _ lt1, lt2⟩, Nat.le_trans le1 le2, l1 ++ l2, ?_⟩
    rw [e2, e1, List.append_assoc]

theorem register_rinv (Q : SV → Prop) (hQ : ∀ k a ks s, Q (.node k a ks s) → ∀ c ∈ ks, Q c) :
    ∀ (fuel : Nat) (st : RegState) (v : SV), nodeCount v < fuel → RInv Q st → Q v →
      RPost Q st (register fuel st v) := by
  intro fuel
  induction fuel with
  | zero => intro st v h; omega
  | succ fuel ih =>
    intro st v hn hi hq
    obtain ⟨k, a, ks, s⟩ := v
    rw [register_succ]
    split
    · rename_i tvn heq
      split at heq
      · simp only [Option.map_eq_some_iff] at heq
        obtain ⟨p, hp, rfl⟩ := heq
        have hmem := List.mem_of_find?_eq_some hp
        exact ⟨hi, hi.memoLt p hmem, Nat.le_refl _, [], by simp⟩
      · cases heq
    · have hks : ∀ c ∈ ks, nodeCount c < fuel ∧ Q c := by
        intro c hc
        have := nodeCount_le_of_mem ks c hc
        simp only [nodeCount] at hn
        exact ⟨by omega, hQ k a ks s hq c hc⟩
      obtain ⟨i1, lt, le, l, e⟩ := regList_rinv Q fuel ih ks st hks hi
      have hnode : (TV.node k a (regList fuel st ks).2 (regList fuel st ks).1.next).allLt
          ((regList fuel st ks).1.next + 1) := by
        simp only [TV.allLt]
        exact ⟨by omega, allLtList_mono (by omega) _ lt⟩
      refine ⟨⟨?_, ?_, ?_⟩, hnode, by simp only; omega,
        l ++ [TV.node k a (regList fuel st ks).2 (regList fuel st ks).1.next],
        by simp only [e, List.append_assoc]⟩
      · intro p hp
        simp only at hp
        split at hp
        · rcases List.mem_append.mp hp with h | h
          · exact i1.keys p h
          · simp only [List.mem_singleton] at h
            subst h
            exact hq
        · exact i1.keys p hp
      · intro p hp
        simp only at hp ⊢
        split at hp
        · rcases List.mem_append.mp hp with h | h
          · exact allLt_mono (by omega) _ (i1.memoLt p h)
          · simp only [List.mem_singleton] at h
            subst h
            exact hnode
        · exact allLt_mono (by omega) _ (i1.memoLt p hp)
      · intro t ht
        simp only at ht ⊢
        rcases List.mem_append.mp ht with h | h
        · exact allLt_mono (by omega) _ (i1.valsLt t h)
        · simp only [List.mem_singleton] at h
          subst h
          exact hnode

theorem registerFold_rinv (Q : SV → Prop) (hQ : ∀ k a ks s, Q (.node k a ks s) → ∀ c ∈ ks, Q c) :
    ∀ (vs : List SV) (st : RegState), (∀ v ∈ vs, Q v) → RInv Q st →
      RInv Q (vs.foldl (fun st v => (register (nodeCount v + 1) st v).1) st) ∧
      st.next ≤ (vs.foldl (fun st v => (register (nodeCount v + 1) st v).1) st).next ∧
      ∃ l, (vs.foldl (fun st v => (register (nodeCount v + 1) st v).1) st).values = st.values ++ l := by
  intro vs
  induction vs with
  | nil => intro st _ hi; exact ⟨hi, Nat.le_refl _, [], by simp⟩
  | cons v vs ih =>
    intro st hvs hi
    obtain ⟨i1, _, le1, l1, e1⟩ :=
      register_rinv Q hQ (nodeCount v + 1) st v (by omega) hi (hvs v List.mem_cons_self)
    obtain ⟨i2, le2, l2, e2⟩ := ih (register (nodeCount v + 1) st v).1
      (fun x hx => hvs x (List.mem_cons_of_mem _ hx)) i1
    simp only [List.foldl_cons]
    exact ⟨i2, Nat.le_trans le1 le2, l1 ++ l2, by rw [e2, e1, List.append_assoc]⟩

theorem registerAll_rinv (vs : List SV) : RInv (SubOf vs) (registerAll vs) :=
  (registerFold_rinv (SubOf vs) (subOf_kid vs) vs {} (subOf_self vs) (rinv_empty _)).1

/-- **I1, first half** (no hypothesis): the values registered for `vs` are a prefix of those
registered for `vs ++ ws`, unchanged; the counter only grows. -/
theorem registerAll_append_prefix (vs ws : List SV) :
    (∃ l, (registerAll (vs ++ ws)).values = (registerAll vs).values ++ l) ∧
      (registerAll vs).next ≤ (registerAll (vs ++ ws)).next := by
  have h := registerFold_rinv (fun _ => True) (fun _ _ _ _ _ _ _ => trivial) ws (registerAll vs)
    (fun _ _ => trivial)
    (registerFold_rinv (fun _ => True) (fun _ _ _ _ _ _ _ => trivial) vs {} (fun _ _ => trivial)
      (rinv_empty _)).1
  have e : registerAll (vs ++ ws)
      = ws.foldl (fun st v => (register (nodeCount v + 1) st v).1) (registerAll vs) := by
    simp [registerAll, List.foldl_append]
  rw [e]
  exact ⟨h.2.2, h.2.1⟩

/-! registration of `B` on top of `A` -/

theorem join_empty (A : RegState) : A.join {} = A := by
  cases A
  simp [RegState.join]

theorem shift_node (n : Nat) (k : Kind) (a : List Nat) (ks : List TV) (t : Nat) :
    (TV.node k a ks t).shift n = .node k a (ks.map (TV.shift n)) (t + n) := by
  simp only [TV.shift, TV.mapVar, mapVarList_eq_map]
  rfl

theorem find_join (A s : RegState) (v : SV)
    (hA : A.stable.find? (fun p => p.1.beq v) = none) :
    ((A.join s).stable.find? (fun p => p.1.beq v)).map (·.2)
      = ((s.stable.find? (fun p => p.1.beq v)).map (·.2)).map (TV.shift A.next) := by
  simp only [RegState.join, List.find?_append, hA, Option.none_or, List.find?_map, Option.map_map]
  rfl

theorem regList_join (A : RegState) (R : SV → Prop) (fuel : Nat)
    (ih : ∀ s v, nodeCount v < fuel → R v → register fuel (A.join s) v
        = (A.join (register fuel s v).1, (register fuel s v).2.shift A.next)) :
    ∀ (ks : List SV) (s : RegState), (∀ c ∈ ks, nodeCount c < fuel ∧ R c) →
      regList fuel (A.join s) ks
        = (A.join (regList fuel s ks).1, (regList fuel s ks).2.map (TV.shift A.next)) := by
  intro ks
  induction ks with
  | nil => intro s _; rfl
  | cons c cs ihks =>
    intro s h
    have hc := h c List.mem_cons_self
    simp only [regList, ih s c hc.1 hc.2, ihks _ (fun x hx => h x (List.mem_cons_of_mem _ hx)),
      List.map_cons]

theorem register_join (A : RegState) (R : SV → Prop)
    (hR : ∀ k a ks s, R (.node k a ks s) → ∀ c ∈ ks, R c)
    (hfresh : ∀ t, R t → isStable (nodeCount t + 1) t = true →
      A.stable.find? (fun p => p.1.beq t) = none) :
    ∀ (fuel : Nat) (s : RegState) (v : SV), nodeCount v < fuel → R v →
      register fuel (A.join s) v
        = (A.join (register fuel s v).1, (register fuel s v).2.shift A.next) := by
  intro fuel
  induction fuel with
  | zero => intro s v h; omega
  | succ fuel ih =>
    intro s v hn hr
    obtain ⟨k, a, ks, sz⟩ := v
    have hks : ∀ c ∈ ks, nodeCount c < fuel ∧ R c := by
      intro c hc
      have := nodeCount_le_of_mem ks c hc
      simp only [nodeCount] at hn
      exact ⟨by omega, hR k a ks sz hr c hc⟩
    rw [register_succ, register_succ, regList_join A R fuel ih ks s hks]
    cases hst : isStable (nodeCount (.node k a ks sz) + 1) (.node k a ks sz)
    · simp only [Bool.false_eq_true, if_false]
      simp [RegState.join, shift_node, Nat.add_assoc]
      omega
    · simp only [if_true]
      rw [find_join A s _ (hfresh _ hr hst)]
      cases (s.stable.find? (fun p => p.1.beq (.node k a ks sz))).map (·.2) with
      | some tvn => rfl
      | none =>
        simp [RegState.join, shift_node, Nat.add_assoc]
        omega

theorem registerFold_join (A : RegState) (R : SV → Prop)
    (hR : ∀ k a ks s, R (.node k a ks s) → ∀ c ∈ ks, R c)
    (hfresh : ∀ t, R t → isStable (nodeCount t + 1) t = true →
      A.stable.find? (fun p => p.1.beq t) = none) :
    ∀ (ws : List SV) (s : RegState), (∀ w ∈ ws, R w) →
      ws.foldl (fun st v => (register (nodeCount v + 1) st v).1) (A.join s)
        = A.join (ws.foldl (fun st v => (register (nodeCount v + 1) st v).1) s) := by
  intro ws
  induction ws with
  | nil => intro s _; rfl
  | cons w ws ih =>
    intro s h
    simp only [List.foldl_cons]
    rw [register_join A R hR hfresh (nodeCount w + 1) s w (by omega) (h w List.mem_cons_self)]
    exact ih _ (fun x hx => h x (List.mem_cons_of_mem _ hx))

/-- under `Disjoint`, the memo of `A` never answers for a stable sub-term of `B` -/
theorem disjoint_fresh {vs ws : List SV} (hd : Disjoint vs ws) :
    ∀ t, SubOf ws t → isStable (nodeCount t + 1) t = true →
      (registerAll vs).stable.find? (fun p => p.1.beq t) = none := by
  rintro t ⟨w, hw, ht⟩ hst
  cases hf : (registerAll vs).stable.find? (fun p => p.1.beq t) with
  | none => rfl
  | some p =>
    exfalso
    have hb0 : p.1.beq t = true :=
      @List.find?_some _ (fun p : SV × TV => p.1.beq t) p (registerAll vs).stable hf
    have hb := beq_eq _ _ hb0
    obtain ⟨v, hv, hsub⟩ := (registerAll_rinv vs).keys p (List.mem_of_find?_eq_some hf)
    rw [hb] at hsub
    exact hd w hw t ht hst v hv hsub

/-- **I1, whole state.** Under `Disjoint vs ws`, registering `vs ++ ws` is registering `ws` on top
of `vs`: counter, values and memo of `ws` alone, shifted by `(registerAll vs).next`. -/
theorem registerAll_append (vs ws : List SV) (hd : Disjoint vs ws) :
    registerAll (vs ++ ws) = (registerAll vs).join (registerAll ws) := by
  have e : registerAll (vs ++ ws)
      = ws.foldl (fun st v => (register (nodeCount v + 1) st v).1) (registerAll vs) := by
    simp [registerAll, List.foldl_append]
  rw [e]
  have := registerFold_join (registerAll vs) (SubOf ws) (subOf_kid ws) (disjoint_fresh hd) ws {}
    (subOf_self ws)
  rw [join_empty] at this
  exact this

/-- **I1.** -/
theorem I1_registration (vs ws : List SV) (hd : Disjoint vs ws) :
    (registerAll (vs ++ ws)).values
        = (registerAll vs).values ++ (registerAll ws).values.map (TV.shift (registerAll vs).next)
      ∧ (registerAll (vs ++ ws)).next = (registerAll vs).next + (registerAll ws).next := by
  rw [registerAll_append vs ws hd]
  exact ⟨rfl, rfl⟩

/-! ### I2: the rules commute with a renaming of the type variables -/

/-- rename the counter and the judgements (after a fixed prefix `pre`); `values`, `stable` are
replaced by the given ones (the rules never read them) -/
def mapSt (ρ : Nat → Nat) (pre : List (Nat × TE)) (vals : List TV) (stab : List (SV × TV))
    (st : RegState) : RegState :=
  { next := ρ st.next, stable := stab, values := vals, judgements := pre ++ st.judgements.map (mapJ ρ) }

section equivariance
variable (ρ : Nat → Nat) (hρ : Function.Injective ρ) (pre : List (Nat × TE)) (vals : List TV)
  (stab : List (SV × TV))

theorem infer_mapSt (hρ : Function.Injective ρ) (st : RegState) (v : Nat) (e : TE) :
    infer (mapSt ρ pre vals stab st) (ρ v) (mapTE ρ e) = mapSt ρ pre vals stab (infer st v e) := by
  cases e with
  | equal id =>
    simp only [infer, mapTE, beq_iff_eq, hρ.eq_iff]
    split
    · rfl
    · simp [mapSt, mapJ, mapTE]
  | _ => simp [infer, mapTE, mapSt, mapJ]

theorem infer_mapSt_word (hρ : Function.Injective ρ) (st : RegState) (v : Nat) (w : Option Nat) (u : WordUse) :
    infer (mapSt ρ pre vals stab st) (ρ v) (.word w u) = mapSt ρ pre vals stab (infer st v (.word w u)) :=
  infer_mapSt ρ pre vals stab hρ st v (.word w u)

theorem infer_mapSt_equal (hρ : Function.Injective ρ) (st : RegState) (v x : Nat) :
    infer (mapSt ρ pre vals stab st) (ρ v) (.equal (ρ x)) = mapSt ρ pre vals stab (infer st v (.equal x)) :=
  infer_mapSt ρ pre vals stab hρ st v (.equal x)

theorem infer_mapSt_packed1 (hρ : Function.Injective ρ) (st : RegState) (v t o s : Nat) :
    infer (mapSt ρ pre vals stab st) (ρ v) (.packed [⟨ρ t, o, s⟩] false)
      = mapSt ρ pre vals stab (infer st v (.packed [⟨t, o, s⟩] false)) :=
  infer_mapSt ρ pre vals stab hρ st v (.packed [⟨t, o, s⟩] false)

theorem infer_mapSt_mapping (hρ : Function.Injective ρ) (st : RegState) (v k x : Nat) :
    infer (mapSt ρ pre vals stab st) (ρ v) (.mapping (ρ k) (ρ x))
      = mapSt ρ pre vals stab (infer st v (.mapping k x)) :=
  infer_mapSt ρ pre vals stab hρ st v (.mapping k x)

theorem infer_mapSt_dynamicArray (hρ : Function.Injective ρ) (st : RegState) (v x : Nat) :
    infer (mapSt ρ pre vals stab st) (ρ v) (.dynamicArray (ρ x))
      = mapSt ρ pre vals stab (infer st v (.dynamicArray x)) :=
  infer_mapSt ρ pre vals stab hρ st v (.dynamicArray x)

@[simp] theorem infer_next (st : RegState) (v : Nat) (e : TE) : (infer st v e).next = st.next := by
  unfold infer
  split
  · split <;> rfl
  · rfl

theorem mapVarList_eq_nil (l : List TV) : TV.mapVarList ρ l = [] ↔ l = [] := by
  cases l <;> simp [TV.mapVarList]

theorem mapVarList_eq_cons (l : List TV) (x : TV) (xs : List TV) :
    TV.mapVarList ρ l = x :: xs ↔ ∃ y ys, l = y :: ys ∧ y.mapVar ρ = x ∧ TV.mapVarList ρ ys = xs := by
  cases l with
  | nil => simp [TV.mapVarList]
  | cons c cs =>
    simp only [TV.mapVarList, List.cons.injEq]
    constructor
    · rintro ⟨rfl, rfl⟩; exact ⟨_, _, ⟨rfl, rfl⟩, rfl, rfl⟩
    · rintro ⟨y, ys, ⟨rfl, rfl⟩, rfl, rfl⟩; exact ⟨rfl, rfl⟩

theorem mapVar_eq_node (t : TV) (k : Kind) (a : List Nat) (ks : List TV) (tv : Nat) :
    t.mapVar ρ = .node k a ks tv ↔
      ∃ ks0 tv0, t = .node k a ks0 tv0 ∧ ρ tv0 = tv ∧ TV.mapVarList ρ ks0 = ks := by
  obtain ⟨k0, a0, ks0, tv0⟩ := t
  simp only [TV.mapVar, TV.node.injEq]
  constructor
  · rintro ⟨rfl, rfl, rfl, rfl⟩
    exact ⟨_, _, ⟨rfl, rfl, rfl, rfl⟩, rfl, rfl⟩
  · rintro ⟨ks1, tv1, ⟨rfl, rfl, rfl, rfl⟩, rfl, rfl⟩
    exact ⟨rfl, rfl, rfl, rfl⟩

theorem knownNat_mapVar (t : TV) : knownNat (t.mapVar ρ) = knownNat t := by
  obtain ⟨k, a, ks, tv⟩ := t
  cases k <;> cases a <;> rfl

theorem toSV_mapVar : ∀ (fuel : Nat) (t : TV), toSV fuel (t.mapVar ρ) = toSV fuel t := by
  intro fuel
  induction fuel with
  | zero => intro t; rfl
  | succ n ih =>
    intro t
    obtain ⟨k, a, ks, tv⟩ := t
    simp only [TV.mapVar, toSV, mapVarList_eq_map, List.map_map]
    congr 1
    apply List.map_congr_left
    intro x _
    exact ih x

theorem knownOfFolded_mapVar (t : TV) :
    applyRules.knownOfFolded (t.mapVar ρ) = applyRules.knownOfFolded t := by
  simp only [applyRules.knownOfFolded, toSV_mapVar]

open SLE.Rename in
theorem dynView_mapVar (key : TV) :
    dynView (key.mapVar ρ) = (dynView key).map (fun p => (p.1, ρ p.2.1, ρ p.2.2)) := by
  unfold dynView
  split
  · rename_i heq
    simp only [mapVar_eq_node, mapVarList_eq_cons, mapVarList_eq_nil] at heq
    obtain ⟨ks0, tv0, rfl, -, c, cs, rfl, ⟨ks1, tv1, rfl, -, d0, r1, rfl, rfl, f0, r2, rfl, rfl, rfl⟩, rfl⟩ := heq
    simp
  · rename_i hne
    split
    · exfalso
      rename_i a1 a2 d f t1 t2
      exact hne _ _ _ _ _ _ rfl
    · rfl

open SLE.Rename in
theorem mapView_mapVar (key : TV) :
    mapView (key.mapVar ρ) = (mapView key).map (fun p => (p.1, ρ p.2.1, ρ p.2.2)) := by
  unfold mapView
  split
  · rename_i heq
    simp only [mapVar_eq_node, mapVarList_eq_cons, mapVarList_eq_nil] at heq
    obtain ⟨ks0, tv0, rfl, -, s0, r1, rfl, rfl, m0, r2, rfl, rfl, rfl⟩ := heq
    simp
  · rename_i hne
    split
    · exfalso
      exact hne _ _ _ _ rfl
    · rfl

/-- the spans the packed rule builds -/
def mkSpans (a : List Nat) (tvs : List Nat) : List Span :=
  ((applyRules.spansOf a).zip tvs).map (fun ((o, s), tvk) => (⟨tvk, o, s⟩ : Span))

theorem applyRules_packed (st : RegState) (a : List Nat) (ks : List TV) (t : Nat) :
    applyRules st (.node .packed a ks t) = infer st t (.packed (mkSpans a (ks.map TV.tv)) false) := by
  rcases ks with _ | ⟨x, _ | ⟨y, _ | ⟨z, _ | ⟨u, _ | ⟨v, _ | ⟨w, _ | ⟨w', r⟩⟩⟩⟩⟩⟩⟩ <;>
    simp [applyRules, mkSpans]

theorem mkSpans_map (a : List Nat) (tvs : List Nat) :
    mkSpans a (tvs.map ρ) = (mkSpans a tvs).map (fun sp => ⟨ρ sp.typ, sp.offset, sp.size⟩) := by
  simp only [mkSpans, List.zip_map_right, List.map_map]
  rfl

theorem applyRules_packed_mapSt (hρ : Function.Injective ρ) (st : RegState) (a : List Nat) (ks : List TV) (t : Nat) :
    applyRules (mapSt ρ pre vals stab st) ((TV.node .packed a ks t).mapVar ρ)
      = mapSt ρ pre vals stab (applyRules st (.node .packed a ks t)) := by
  simp only [TV.mapVar, applyRules_packed, mapVarList_eq_map, List.map_map]
  have : (ks.map (TV.tv ∘ TV.mapVar ρ)) = (ks.map TV.tv).map ρ := by
    simp [List.map_map, Function.comp_def]
  rw [this, mkSpans_map]
  exact infer_mapSt ρ pre vals stab hρ st t (.packed (mkSpans a (ks.map TV.tv)) false)

open SLE.Rename in
theorem applyRules_storageWrite_mapSt (hρ : Function.Injective ρ) (st : RegState) (a : List Nat) (x y : TV) (t : Nat) :
    applyRules (mapSt ρ pre vals stab st) ((TV.node .storageWrite a [x, y] t).mapVar ρ)
      = mapSt ρ pre vals stab (applyRules st (.node .storageWrite a [x, y] t)) := by
  simp only [TV.mapVar, TV.mapVarList, applyRules_storageWrite, dynView_mapVar, tv_mapVar]
  cases dynView x with
  | none => simp only [Option.map_none, infer_mapSt_equal ρ pre vals stab hρ]
  | some p =>
    obtain ⟨dk, dt, ft⟩ := p
    simp only [Option.map_some]
    split
    · simp only [infer_mapSt_equal ρ pre vals stab hρ, uword, infer_mapSt_word ρ pre vals stab hρ,
        infer_mapSt_dynamicArray ρ pre vals stab hρ]
    · simp only [infer_mapSt_equal ρ pre vals stab hρ]

open SLE.Rename in
theorem applyRules_storageSlot_mapSt (hρ : Function.Injective ρ) (st : RegState) (a : List Nat) (x : TV) (t : Nat)
    (hs : ρ (st.next + 1) = ρ st.next + 1) :
    applyRules (mapSt ρ pre vals stab st) ((TV.node .storageSlot a [x] t).mapVar ρ)
      = mapSt ρ pre vals stab (applyRules st (.node .storageSlot a [x] t)) := by
  simp only [TV.mapVar, TV.mapVarList, applyRules_storageSlot, mapView_mapVar, tv_mapVar]
  cases mapView x with
  | none => simp only [Option.map_none, uword, infer_mapSt_word ρ pre vals stab hρ]
  | some p =>
    obtain ⟨ma, sl, mk⟩ := p
    simp only [Option.map_some, uword, infer_mapSt_word ρ pre vals stab hρ, infer_next]
    have e : ({ mapSt ρ pre vals stab (infer st x.tv (TE.word none WordUse.unsignedNumeric)) with
          next := (mapSt ρ pre vals stab (infer st x.tv (TE.word none WordUse.unsignedNumeric))).next + 1 } : RegState)
        = mapSt ρ pre vals stab { infer st x.tv (TE.word none WordUse.unsignedNumeric) with next := st.next + 1 } := by
      simp [mapSt, hs]
    rw [e]
    have e2 : (mapSt ρ pre vals stab (infer st x.tv (TE.word none WordUse.unsignedNumeric))).next = ρ st.next := by
      simp [mapSt]
    rw [e2, infer_mapSt_packed1 ρ pre vals stab hρ, infer_mapSt_mapping ρ pre vals stab hρ]

theorem applyRules_signExtend_mapSt (hρ : Function.Injective ρ) (st : RegState) (a : List Nat) (x y : TV) (t : Nat) :
    applyRules (mapSt ρ pre vals stab st) ((TV.node .signExtend a [x, y] t).mapVar ρ)
      = mapSt ρ pre vals stab (applyRules st (.node .signExtend a [x, y] t)) := by
  simp only [applyRules, TV.mapVar, TV.mapVarList, tv_mapVar, knownNat_mapVar, sword, uword,
    infer_mapSt_word ρ pre vals stab hρ]

theorem applyRules_callData_mapSt (hρ : Function.Injective ρ) (st : RegState) (a : List Nat) (x y : TV) (t : Nat) :
    applyRules (mapSt ρ pre vals stab st) ((TV.node .callData a [x, y] t).mapVar ρ)
      = mapSt ρ pre vals stab (applyRules st (.node .callData a [x, y] t)) := by
  simp only [applyRules, TV.mapVar, TV.mapVarList, tv_mapVar, knownOfFolded_mapVar, uword, inferMany,
    List.foldl_cons, List.foldl_nil, infer_mapSt_word ρ pre vals stab hρ]
  cases applyRules.knownOfFolded y with
  | none => rfl
  | some b => simp only [bytesN, infer_mapSt_word ρ pre vals stab hρ]

theorem applyRules_subWord_mapSt (hρ : Function.Injective ρ) (st : RegState) (a : List Nat) (x : TV) (t : Nat) :
    applyRules (mapSt ρ pre vals stab st) ((TV.node .subWord a [x] t).mapVar ρ)
      = mapSt ρ pre vals stab (applyRules st (.node .subWord a [x] t)) := by
  simp only [applyRules, TV.mapVar, TV.mapVarList, tv_mapVar]
  split
  · simp only [bytesN, infer_mapSt_word ρ pre vals stab hρ, infer_mapSt_packed1 ρ pre vals stab hρ]
  · rfl

section arity
variable (st : RegState) (a : List Nat) (t : Nat)

local macro "rules_simp" hw:term "," he:term : tactic =>
  `(tactic| (simp [applyRules, inferMany, TV.mapVar, TV.mapVarList, numeric, uword, sword, bytesN, TC.address,
      boolT, $hw:term, $he:term]))

theorem applyRules_ar0 (hρ : Function.Injective ρ) (k : Kind) (hp : k ≠ .packed) :
    applyRules (mapSt ρ pre vals stab st) ((TV.node k a [] t).mapVar ρ)
      = mapSt ρ pre vals stab (applyRules st (.node k a [] t)) := by
  cases k <;> first | exact absurd rfl hp | rules_simp (infer_mapSt_word ρ pre vals stab hρ), (infer_mapSt_equal ρ pre vals stab hρ)

theorem applyRules_ar1 (hρ : Function.Injective ρ) (k : Kind) (x : TV) (hp : k ≠ .packed)
    (hs : ρ (st.next + 1) = ρ st.next + 1) :
    applyRules (mapSt ρ pre vals stab st) ((TV.node k a [x] t).mapVar ρ)
      = mapSt ρ pre vals stab (applyRules st (.node k a [x] t)) := by
  by_cases h : k = .storageSlot
  · subst h; exact applyRules_storageSlot_mapSt ρ pre vals stab hρ st a x t hs
  by_cases h2 : k = .subWord
  · subst h2; exact applyRules_subWord_mapSt ρ pre vals stab hρ st a x t
  cases k <;> first | exact absurd rfl hp | exact absurd rfl h | exact absurd rfl h2 | rules_simp (infer_mapSt_word ρ pre vals stab hρ), (infer_mapSt_equal ρ pre vals stab hρ)

theorem applyRules_ar2 (hρ : Function.Injective ρ) (k : Kind) (x y : TV) (hp : k ≠ .packed) :
    applyRules (mapSt ρ pre vals stab st) ((TV.node k a [x, y] t).mapVar ρ)
      = mapSt ρ pre vals stab (applyRules st (.node k a [x, y] t)) := by
  by_cases h1 : k = .signExtend
  · subst h1; exact applyRules_signExtend_mapSt ρ pre vals stab hρ st a x y t
  by_cases h2 : k = .callData
  · subst h2; exact applyRules_callData_mapSt ρ pre vals stab hρ st a x y t
  by_cases h3 : k = .storageWrite
  · subst h3; exact applyRules_storageWrite_mapSt ρ pre vals stab hρ st a x y t
  cases k <;> first | exact absurd rfl hp | exact absurd rfl h1 | exact absurd rfl h2 | exact absurd rfl h3 | rules_simp (infer_mapSt_word ρ pre vals stab hρ), (infer_mapSt_equal ρ pre vals stab hρ)

theorem applyRules_ar3 (hρ : Function.Injective ρ) (k : Kind) (x y z : TV) (hp : k ≠ .packed) :
    applyRules (mapSt ρ pre vals stab st) ((TV.node k a [x, y, z] t).mapVar ρ)
      = mapSt ρ pre vals stab (applyRules st (.node k a [x, y, z] t)) := by
  cases k <;> first | exact absurd rfl hp | rules_simp (infer_mapSt_word ρ pre vals stab hρ), (infer_mapSt_equal ρ pre vals stab hρ)

theorem applyRules_ar4 (hρ : Function.Injective ρ) (k : Kind) (x y z u : TV) (hp : k ≠ .packed) :
    applyRules (mapSt ρ pre vals stab st) ((TV.node k a [x, y, z, u] t).mapVar ρ)
      = mapSt ρ pre vals stab (applyRules st (.node k a [x, y, z, u] t)) := by
  cases k <;> first | exact absurd rfl hp | rules_simp (infer_mapSt_word ρ pre vals stab hρ), (infer_mapSt_equal ρ pre vals stab hρ)

theorem applyRules_ar5 (hρ : Function.Injective ρ) (k : Kind) (x y z u v : TV) (hp : k ≠ .packed) :
    applyRules (mapSt ρ pre vals stab st) ((TV.node k a [x, y, z, u, v] t).mapVar ρ)
      = mapSt ρ pre vals stab (applyRules st (.node k a [x, y, z, u, v] t)) := by
  cases k <;> first | exact absurd rfl hp | rules_simp (infer_mapSt_word ρ pre vals stab hρ), (infer_mapSt_equal ρ pre vals stab hρ)

theorem applyRules_ar6 (hρ : Function.Injective ρ) (k : Kind) (x y z u v w : TV) (hp : k ≠ .packed) :
    applyRules (mapSt ρ pre vals stab st) ((TV.node k a [x, y, z, u, v, w] t).mapVar ρ)
      = mapSt ρ pre vals stab (applyRules st (.node k a [x, y, z, u, v, w] t)) := by
  cases k <;> first | exact absurd rfl hp | rules_simp (infer_mapSt_word ρ pre vals stab hρ), (infer_mapSt_equal ρ pre vals stab hρ)

theorem applyRules_ar7 (hρ : Function.Injective ρ) (k : Kind) (x y z u v w w' : TV) (r : List TV) (hp : k ≠ .packed) :
    applyRules (mapSt ρ pre vals stab st) ((TV.node k a (x :: y :: z :: u :: v :: w :: w' :: r) t).mapVar ρ)
      = mapSt ρ pre vals stab (applyRules st (.node k a (x :: y :: z :: u :: v :: w :: w' :: r) t)) := by
  cases k <;> first | exact absurd rfl hp | rules_simp (infer_mapSt_word ρ pre vals stab hρ), (infer_mapSt_equal ρ pre vals stab hρ)

end arity

/-- the rules commute with an injective renaming of the type variables that maps the successor of the
counter to the successor -/
theorem applyRules_mapSt (hρ : Function.Injective ρ) (st : RegState) (t : TV)
    (hs : ρ (st.next + 1) = ρ st.next + 1) :
    applyRules (mapSt ρ pre vals stab st) (t.mapVar ρ) = mapSt ρ pre vals stab (applyRules st t) := by
  obtain ⟨k, a, ks, tv⟩ := t
  by_cases hp : k = .packed
  · subst hp; exact applyRules_packed_mapSt ρ pre vals stab hρ st a ks tv
  rcases ks with _ | ⟨x, _ | ⟨y, _ | ⟨z, _ | ⟨u, _ | ⟨v, _ | ⟨w, _ | ⟨w', r⟩⟩⟩⟩⟩⟩⟩
  · exact applyRules_ar0 ρ pre vals stab st a tv hρ k hp
  · exact applyRules_ar1 ρ pre vals stab st a tv hρ k x hp hs
  · exact applyRules_ar2 ρ pre vals stab st a tv hρ k x y hp
  · exact applyRules_ar3 ρ pre vals stab st a tv hρ k x y z hp
  · exact applyRules_ar4 ρ pre vals stab st a tv hρ k x y z u hp
  · exact applyRules_ar5 ρ pre vals stab st a tv hρ k x y z u v hp
  · exact applyRules_ar6 ρ pre vals stab st a tv hρ k x y z u v w hp
  · exact applyRules_ar7 ρ pre vals stab st a tv hρ k x y z u v w w' r hp

end equivariance

/-! ### the variables of the judgements are below the counter -/

/-- every variable mentioned by the judgements is below `n` -/
def JBound (n : Nat) (J : List (Nat × TE)) : Prop := ∀ p ∈ J, p.1 < n ∧ ∀ x ∈ varsTE p.2, x < n

theorem JBound.mono {n m : Nat} {J : List (Nat × TE)} (h : JBound n J) (hnm : n ≤ m) : JBound m J := by
  intro p hp
  obtain ⟨h1, h2⟩ := h p hp
  exact ⟨by omega, fun x hx => by have := h2 x hx; omega⟩

/-- the counter is at least `N` and bounds the judgements -/
def Good (N : Nat) (st : RegState) : Prop := N ≤ st.next ∧ JBound st.next st.judgements

theorem infer_good {N : Nat} {st : RegState} {v : Nat} {e : TE} (h : Good N st) (hv : v < st.next)
    (he : ∀ x ∈ varsTE e, x < st.next) : Good N (infer st v e) := by
  have key : Good N { st with judgements := st.judgements ++ [(v, e)] } := by
    refine ⟨h.1, ?_⟩
    intro p hp
    simp only [List.mem_append, List.mem_singleton] at hp
    rcases hp with hp | rfl
    · exact h.2 p hp
    · exact ⟨hv, he⟩
  unfold infer
  split
  · split
    · exact h
    · exact key
  · exact key

theorem good_bump {N : Nat} {st : RegState} (h : Good N st) : Good N { st with next := st.next + 1 } :=
  ⟨by have := h.1; simp only; omega, h.2.mono (by simp only; omega)⟩

theorem mkSpans_typ (a : List Nat) (tvs : List Nat) : ∀ sp ∈ mkSpans a tvs, sp.typ ∈ tvs := by
  intro sp hsp
  simp only [mkSpans, List.mem_map] at hsp
  obtain ⟨⟨⟨o, s⟩, tvk⟩, hz, rfl⟩ := hsp
  exact (List.of_mem_zip hz).2

open SLE.Rename in
theorem dynView_lt {n : Nat} {key : TV} {dk : Kind} {dt ft : Nat} (h : dynView key = some (dk, dt, ft))
    (hk : key.allLt n) : dt < n ∧ ft < n := by
  unfold dynView at h
  split at h
  · simp only [Option.some.injEq, Prod.mk.injEq] at h
    obtain ⟨-, rfl, rfl⟩ := h
    simp only [TV.allLt, TV.allLtList] at hk
    exact ⟨allLt_tv hk.2.1.2.1, allLt_tv hk.2.1.2.2.1⟩
  · cases h

open SLE.Rename in
theorem mapView_lt {n : Nat} {key : TV} {ma : List Nat} {sl mk : Nat} (h : mapView key = some (ma, sl, mk))
    (hk : key.allLt n) : sl < n ∧ mk < n := by
  unfold mapView at h
  split at h
  · simp only [Option.some.injEq, Prod.mk.injEq] at h
    obtain ⟨-, rfl, rfl⟩ := h
    simp only [TV.allLt, TV.allLtList] at hk
    exact ⟨allLt_tv hk.2.1, allLt_tv hk.2.2.1⟩
  · cases h

section good
variable {N : Nat} {st : RegState} (hg : Good N st) (a : List Nat) {t : Nat} (ht : t < N)

local macro "good_chain" hg:term : tactic =>
  `(tactic| ((repeat (first | exact $hg | apply infer_good)) <;>
      (first | omega | (simp [varsTE, numeric, uword, sword, bytesN, TC.address, boolT]; try omega))))

theorem applyRules_packed_good (hg : Good N st) (ht : t < N) (ks : List TV) (hks : ∀ c ∈ ks, c.tv < N) :
    Good N (applyRules st (.node .packed a ks t)) := by
  rw [applyRules_packed]
  have hN := hg.1
  apply infer_good hg (by omega)
  intro x hx
  simp only [varsTE, List.mem_map] at hx
  obtain ⟨sp, hsp, rfl⟩ := hx
  have := mkSpans_typ a _ sp hsp
  simp only [List.mem_map] at this
  obtain ⟨c, hc, hct⟩ := this
  have := hks c hc
  omega

open SLE.Rename in
theorem applyRules_storageWrite_good (hg : Good N st) (ht : t < N) (x y : TV) (hx : x.allLt N) (hy : y.tv < N) :
    Good N (applyRules st (.node .storageWrite a [x, y] t)) := by
  rw [applyRules_storageWrite]
  have hN := hg.1
  have hxt := allLt_tv hx
  cases hd : dynView x with
  | none => simp only; good_chain hg
  | some p =>
    obtain ⟨dk, dt, ft⟩ := p
    obtain ⟨h1, h2⟩ := dynView_lt hd hx
    simp only
    split <;> good_chain hg

open SLE.Rename in
theorem applyRules_storageSlot_good (hg : Good N st) (ht : t < N) (x : TV) (hx : x.allLt N) :
    Good N (applyRules st (.node .storageSlot a [x] t)) := by
  rw [applyRules_storageSlot]
  have hN := hg.1
  have hxt := allLt_tv hx
  cases hd : mapView x with
  | none => simp only; good_chain hg
  | some p =>
    obtain ⟨ma, sl, mk⟩ := p
    obtain ⟨h1, h2⟩ := mapView_lt hd hx
    simp only
    have hg1 : Good N (infer st x.tv uword) := by good_chain hg
    have hg2 := good_bump hg1
    apply infer_good
    · apply infer_good hg2
      · simp
      · simp [varsTE]; omega
    · simp; omega
    · simp [varsTE]; omega

theorem applyRules_signExtend_good (hg : Good N st) (ht : t < N) (x y : TV) (hx : x.tv < N) (hy : y.tv < N) :
    Good N (applyRules st (.node .signExtend a [x, y] t)) := by
  simp only [applyRules]
  have hN := hg.1
  good_chain hg

theorem applyRules_callData_good (hg : Good N st) (ht : t < N) (x y : TV) (hx : x.tv < N) (hy : y.tv < N) :
    Good N (applyRules st (.node .callData a [x, y] t)) := by
  simp only [applyRules, inferMany, List.foldl_cons, List.foldl_nil]
  have hN := hg.1
  split <;> good_chain hg

theorem applyRules_subWord_good (hg : Good N st) (ht : t < N) (x : TV) (hx : x.tv < N) :
    Good N (applyRules st (.node .subWord a [x] t)) := by
  simp only [applyRules]
  have hN := hg.1
  split
  · good_chain hg
  · exact hg

local macro "good_simp" hg:term : tactic =>
  `(tactic| (simp only [applyRules, inferMany, List.foldl_cons, List.foldl_nil]; good_chain $hg))

theorem applyRules_good0 (hg : Good N st) (ht : t < N) (k : Kind) (hp : k ≠ .packed) :
    Good N (applyRules st (.node k a [] t)) := by
  have hN := hg.1
  cases k <;> first | exact absurd rfl hp | good_simp hg

theorem applyRules_good1 (hg : Good N st) (ht : t < N) (k : Kind) (hp : k ≠ .packed) (x : TV) (hx : x.allLt N) :
    Good N (applyRules st (.node k a [x] t)) := by
  have hN := hg.1
  have hxt := allLt_tv hx
  by_cases h : k = .storageSlot
  · subst h; exact applyRules_storageSlot_good a hg ht x hx
  by_cases h2 : k = .subWord
  · subst h2; exact applyRules_subWord_good a hg ht x hxt
  cases k <;> first | exact absurd rfl hp | exact absurd rfl h | exact absurd rfl h2 | good_simp hg

theorem applyRules_good2 (hg : Good N st) (ht : t < N) (k : Kind) (hp : k ≠ .packed) (x y : TV) (hx : x.allLt N)
    (hy : y.tv < N) : Good N (applyRules st (.node k a [x, y] t)) := by
  have hN := hg.1
  have hxt := allLt_tv hx
  by_cases h1 : k = .signExtend
  · subst h1; exact applyRules_signExtend_good a hg ht x y hxt hy
  by_cases h2 : k = .callData
  · subst h2; exact applyRules_callData_good a hg ht x y hxt hy
  by_cases h3 : k = .storageWrite
  · subst h3; exact applyRules_storageWrite_good a hg ht x y hx hy
  cases k <;> first | exact absurd rfl hp | exact absurd rfl h1 | exact absurd rfl h2 | exact absurd rfl h3 | good_simp hg

theorem applyRules_good3 (hg : Good N st) (ht : t < N) (k : Kind) (hp : k ≠ .packed) (x y z : TV) (hx : x.tv < N)
    (hy : y.tv < N) (hz : z.tv < N) : Good N (applyRules st (.node k a [x, y, z] t)) := by
  have hN := hg.1
  cases k <;> first | exact absurd rfl hp | good_simp hg

theorem applyRules_good4 (hg : Good N st) (ht : t < N) (k : Kind) (hp : k ≠ .packed) (x y z u : TV) (hx : x.tv < N)
    (hy : y.tv < N) (hz : z.tv < N) (hu : u.tv < N) : Good N (applyRules st (.node k a [x, y, z, u] t)) := by
  have hN := hg.1
  cases k <;> first | exact absurd rfl hp | good_simp hg

theorem applyRules_good5 (hg : Good N st) (ht : t < N) (k : Kind) (hp : k ≠ .packed) (x y z u v : TV) (hx : x.tv < N)
    (hy : y.tv < N) (hz : z.tv < N) (hu : u.tv < N) (hv : v.tv < N) :
    Good N (applyRules st (.node k a [x, y, z, u, v] t)) := by
  have hN := hg.1
  cases k <;> first | exact absurd rfl hp | good_simp hg

theorem applyRules_good6 (hg : Good N st) (ht : t < N) (k : Kind) (hp : k ≠ .packed) (x y z u v w : TV) (hx : x.tv < N)
    (hy : y.tv < N) (hz : z.tv < N) (hu : u.tv < N) (hv : v.tv < N) (hw : w.tv < N) :
    Good N (applyRules st (.node k a [x, y, z, u, v, w] t)) := by
  have hN := hg.1
  cases k <;> first | exact absurd rfl hp | good_simp hg

theorem applyRules_good7 (hg : Good N st) (ht : t < N) (k : Kind) (hp : k ≠ .packed) (x y z u v w w' : TV) (r : List TV) :
    Good N (applyRules st (.node k a (x :: y :: z :: u :: v :: w :: w' :: r) t)) := by
  have hN := hg.1
  cases k <;> first | exact absurd rfl hp | good_simp hg

end good

/-- the rules keep the judgements below the counter, and never decrease the counter -/
theorem applyRules_good {N : Nat} {st : RegState} (hg : Good N st) (t : TV) (ht : t.allLt N) :
    Good N (applyRules st t) := by
  obtain ⟨k, a, ks, tv⟩ := t
  have htv : tv < N := allLt_tv ht
  have hks : ∀ c ∈ ks, c.allLt N := allLt_kids ht
  by_cases hp : k = .packed
  · subst hp; exact applyRules_packed_good a hg htv ks (fun c hc => allLt_tv (hks c hc))
  rcases ks with _ | ⟨x, _ | ⟨y, _ | ⟨z, _ | ⟨u, _ | ⟨v, _ | ⟨w, _ | ⟨w', r⟩⟩⟩⟩⟩⟩⟩
  · exact applyRules_good0 a hg htv k hp
  · exact applyRules_good1 a hg htv k hp x (hks x (by simp))
  · exact applyRules_good2 a hg htv k hp x y (hks x (by simp)) (allLt_tv (hks y (by simp)))
  · exact applyRules_good3 a hg htv k hp x y z (allLt_tv (hks x (by simp))) (allLt_tv (hks y (by simp)))
      (allLt_tv (hks z (by simp)))
  · exact applyRules_good4 a hg htv k hp x y z u (allLt_tv (hks x (by simp))) (allLt_tv (hks y (by simp)))
      (allLt_tv (hks z (by simp))) (allLt_tv (hks u (by simp)))
  · exact applyRules_good5 a hg htv k hp x y z u v (allLt_tv (hks x (by simp))) (allLt_tv (hks y (by simp)))
      (allLt_tv (hks z (by simp))) (allLt_tv (hks u (by simp))) (allLt_tv (hks v (by simp)))
  · exact applyRules_good6 a hg htv k hp x y z u v w (allLt_tv (hks x (by simp))) (allLt_tv (hks y (by simp)))
      (allLt_tv (hks z (by simp))) (allLt_tv (hks u (by simp))) (allLt_tv (hks v (by simp)))
      (allLt_tv (hks w (by simp)))
  · exact applyRules_good7 a hg htv k hp x y z u v w w' r

/-! ### the fold over the registered values -/

theorem foldl_applyRules_good {N : Nat} : ∀ (l : List TV) (st : RegState), Good N st → (∀ t ∈ l, t.allLt N) →
    Good N (l.foldl applyRules st) := by
  intro l
  induction l with
  | nil => intro st h _; exact h
  | cons t ts ih =>
    intro st h hl
    simp only [List.foldl_cons]
    exact ih _ (applyRules_good h t (hl t List.mem_cons_self)) (fun x hx => hl x (List.mem_cons_of_mem _ hx))

theorem foldl_applyRules_mapSt (ρ : Nat → Nat) (hρ : Function.Injective ρ) (pre : List (Nat × TE))
    (vals : List TV) (stab : List (SV × TV)) (N : Nat) (hsucc : ∀ n, N ≤ n → ρ (n + 1) = ρ n + 1) :
    ∀ (l : List TV) (st : RegState), Good N st → (∀ t ∈ l, t.allLt N) →
      (l.map (TV.mapVar ρ)).foldl applyRules (mapSt ρ pre vals stab st)
        = mapSt ρ pre vals stab (l.foldl applyRules st) := by
  intro l
  induction l with
  | nil => intro st _ _; rfl
  | cons t ts ih =>
    intro st h hl
    simp only [List.map_cons, List.foldl_cons]
    rw [applyRules_mapSt ρ pre vals stab hρ st t (hsucc _ h.1)]
    exact ih _ (applyRules_good h t (hl t List.mem_cons_self)) (fun x hx => hl x (List.mem_cons_of_mem _ hx))

/-! registration adds no judgement -/

theorem regList_judgements (fuel : Nat)
    (ih : ∀ st v, (register fuel st v).1.judgements = st.judgements) :
    ∀ (ks : List SV) (st : RegState), (regList fuel st ks).1.judgements = st.judgements := by
  intro ks
  induction ks with
  | nil => intro st; rfl
  | cons c cs ihks => intro st; simp only [regList, ihks, ih]

theorem register_judgements : ∀ (fuel : Nat) (st : RegState) (v : SV),
    (register fuel st v).1.judgements = st.judgements := by
  intro fuel
  induction fuel with
  | zero => intro st v; rfl
  | succ fuel ih =>
    intro st v
    obtain ⟨k, a, ks, s⟩ := v
    rw [register_succ]
    split
    · rfl
    · exact regList_judgements fuel ih ks st

theorem registerAll_judgements (vs : List SV) : (registerAll vs).judgements = [] := by
  unfold registerAll
  have : ∀ (l : List SV) (st : RegState),
      (l.foldl (fun st v => (register (nodeCount v + 1) st v).1) st).judgements = st.judgements := by
    intro l
    induction l with
    | nil => intro st; rfl
    | cons v vs ih => intro st; simp only [List.foldl_cons, ih, register_judgements]
  exact this vs {}

theorem registerAll_good (vs : List SV) : Good (registerAll vs).next (registerAll vs) :=
  ⟨Nat.le_refl _, by rw [registerAll_judgements]; intro p hp; cases hp⟩

/-- the judgements of a program mention only variables below the final counter, which is at least
the number of registered nodes -/
theorem inferAll_good (vs : List SV) : Good (registerAll vs).next (inferAll (registerAll vs)) :=
  foldl_applyRules_good _ _ (registerAll_good vs) (registerAll_rinv vs).valsLt

/-! ### the two renamings -/

/-- `A`'s variables in the joint numbering: registered ones (`< nA`) fixed, fresh ones moved up by `nB` -/
def rhoA (nA nB : Nat) : Nat → Nat := shiftVar nB nA

/-- `B`'s variables in the joint numbering: registered ones (`< nB`) shifted by `nA`, fresh ones by
`nA + fA` (`fA` = number of fresh variables of `A`) -/
def rhoB (nA nB fA : Nat) (x : Nat) : Nat := shiftVar fA nB x + nA

theorem shiftVar_injective (k n : Nat) : Function.Injective (shiftVar k n) := by
  intro x y h
  unfold shiftVar at h
  split at h <;> split at h <;> omega

theorem shiftVar_succ (k n m : Nat) (h : n ≤ m) : shiftVar k n (m + 1) = shiftVar k n m + 1 := by
  unfold shiftVar
  rw [if_neg (by omega), if_neg (by omega)]
  omega

theorem rhoA_injective (nA nB : Nat) : Function.Injective (rhoA nA nB) := shiftVar_injective _ _

theorem rhoB_injective (nA nB fA : Nat) : Function.Injective (rhoB nA nB fA) := by
  intro x y h
  unfold rhoB at h
  exact shiftVar_injective fA nB (by omega)

/-- the images are disjoint (on the variables `A` actually uses) -/
theorem rho_disjoint (nA nB fA : Nat) (x y : Nat) (hx : x < nA + fA) : rhoA nA nB x ≠ rhoB nA nB fA y := by
  unfold rhoA rhoB shiftVar
  split <;> split <;> omega

theorem rhoB_eq (nA nB fA x : Nat) : rhoB nA nB fA x = shiftVar fA (nA + nB) (shiftVar nA 0 x) := by
  unfold rhoB shiftVar
  simp only [Nat.not_lt_zero, if_false]
  split <;> split <;> omega

theorem mapTE_comp (ρ σ : Nat → Nat) (e : TE) : mapTE ρ (mapTE σ e) = mapTE (ρ ∘ σ) e := by
  cases e <;> simp [mapTE]

theorem mapTE_congr {ρ σ : Nat → Nat} (h : ∀ x, ρ x = σ x) (e : TE) : mapTE ρ e = mapTE σ e := by
  have : ρ = σ := funext h
  rw [this]

/-- `rhoA` on a type expression is `shiftTE nB nA`; `rhoB` is `shiftTE fA (nA + nB) ∘ shiftTE nA 0` -/
theorem mapTE_rhoA (nA nB : Nat) (e : TE) : mapTE (rhoA nA nB) e = shiftTE nB nA e := rfl

theorem mapTE_rhoB (nA nB fA : Nat) (e : TE) :
    mapTE (rhoB nA nB fA) e = shiftTE fA (nA + nB) (shiftTE nA 0 e) := by
  unfold shiftTE
  rw [mapTE_comp]
  exact mapTE_congr (fun x => rhoB_eq nA nB fA x) e

/-! ### I2 -/

/-- **I2, whole state.** Running the rules on the joint registration: counter and judgements are
those of `A` renamed by `rhoA`, followed by those of `B` renamed by `rhoB`. -/
theorem inferAll_append (vs ws : List SV) (hd : Disjoint vs ws) :
    inferAll (registerAll (vs ++ ws))
      = mapSt (rhoB (registerAll vs).next (registerAll ws).next
                ((inferAll (registerAll vs)).next - (registerAll vs).next))
          ((inferAll (registerAll vs)).judgements.map (mapJ (rhoA (registerAll vs).next (registerAll ws).next)))
          (registerAll (vs ++ ws)).values (registerAll (vs ++ ws)).stable
          (inferAll (registerAll ws)) := by
  have hA := inferAll_good vs
  have hjoin := registerAll_append vs ws hd
  generalize hnA : (registerAll vs).next = nA at *
  generalize hnB : (registerAll ws).next = nB at *
  obtain ⟨hA1, hA2⟩ := hA
  generalize hNA : (inferAll (registerAll vs)).next = NA at *
  generalize hV : (registerAll (vs ++ ws)).values = V
  generalize hS : (registerAll (vs ++ ws)).stable = S
  have hVe : V = (registerAll vs).values ++ (registerAll ws).values.map (TV.shift nA) := by
    rw [← hV, hjoin, ← hnA]; rfl
  -- the start state, seen from `A`
  have e0 : registerAll (vs ++ ws) = mapSt (rhoA nA nB) [] V S (registerAll vs) := by
    rw [← hV, ← hS, hjoin]
    simp only [mapSt, RegState.join, registerAll_judgements, List.map_nil, List.append_nil, hnA, hnB, rhoA,
      shiftVar, Nat.lt_irrefl, if_false]
  -- `A`'s trees are fixed by `rhoA`
  have eA : (registerAll vs).values = (registerAll vs).values.map (TV.mapVar (rhoA nA nB)) := by
    conv => lhs; rw [← List.map_id (registerAll vs).values]
    apply List.map_congr_left
    intro t ht
    have hlt := (registerAll_rinv vs).valsLt t ht
    rw [hnA] at hlt
    rw [mapVar_congr (σ := fun x => x) (n := nA) (fun x hx => by simp [rhoA, shiftVar, hx]) t hlt, mapVar_id]
    rfl
  -- `B`'s trees shifted are `B`'s trees renamed by `rhoB`
  have eB : (registerAll ws).values.map (TV.shift nA)
      = (registerAll ws).values.map (TV.mapVar (rhoB nA nB (NA - nA))) := by
    apply List.map_congr_left
    intro t ht
    have hlt := (registerAll_rinv ws).valsLt t ht
    rw [hnB] at hlt
    exact mapVar_congr (n := nB) (fun x hx => by simp [rhoB, shiftVar, hx]) t hlt
  have stepA : (registerAll vs).values.foldl applyRules (registerAll (vs ++ ws))
      = mapSt (rhoA nA nB) [] V S (inferAll (registerAll vs)) := by
    rw [e0]
    conv => lhs; rw [eA]
    exact foldl_applyRules_mapSt (rhoA nA nB) (rhoA_injective nA nB) [] V S nA
      (fun n hn => shiftVar_succ nB nA n hn) _ _ (by rw [← hnA]; exact registerAll_good vs)
      (by rw [← hnA]; exact (registerAll_rinv vs).valsLt)
  have e1 : mapSt (rhoA nA nB) [] V S (inferAll (registerAll vs))
      = mapSt (rhoB nA nB (NA - nA)) ((inferAll (registerAll vs)).judgements.map (mapJ (rhoA nA nB))) V S
          (registerAll ws) := by
    simp only [mapSt, registerAll_judgements, List.map_nil, List.append_nil, List.nil_append, hNA, hnB, rhoA,
      rhoB, shiftVar, Nat.lt_irrefl, if_false, RegState.mk.injEq, and_true, true_and]
    rw [if_neg (by omega)]
    omega
  show (registerAll (vs ++ ws)).values.foldl applyRules (registerAll (vs ++ ws)) = _
  rw [hV]
  conv => lhs; rw [hVe, List.foldl_append, stepA, e1, eB]
  exact foldl_applyRules_mapSt (rhoB nA nB (NA - nA)) (rhoB_injective nA nB (NA - nA)) _ V S nB
    (fun n hn => by unfold rhoB; rw [shiftVar_succ _ nB n hn]; omega) _ _
    (by rw [← hnB]; exact registerAll_good ws) (by rw [← hnB]; exact (registerAll_rinv ws).valsLt)

/-- **I2.** The judgements of the joint program are those of `A` renamed by `rhoA` followed by those
of `B` renamed by `rhoB`; the counters add up. -/
theorem I2_rules (vs ws : List SV) (hd : Disjoint vs ws) :
    (inferAll (registerAll (vs ++ ws))).judgements
        = (inferAll (registerAll vs)).judgements.map (mapJ (rhoA (registerAll vs).next (registerAll ws).next))
          ++ (inferAll (registerAll ws)).judgements.map
              (mapJ (rhoB (registerAll vs).next (registerAll ws).next
                ((inferAll (registerAll vs)).next - (registerAll vs).next)))
      ∧ (inferAll (registerAll (vs ++ ws))).next
        = (inferAll (registerAll vs)).next + (inferAll (registerAll ws)).next := by
  rw [inferAll_append vs ws hd]
  refine ⟨rfl, ?_⟩
  have hA := (inferAll_good vs).1
  have hB := (inferAll_good ws).1
  simp only [mapSt, rhoB, shiftVar]
  rw [if_neg (by omega)]
  omega

/-- **I2, in terms of `shiftTE`**: an `A`-judgement `(v, e)` becomes
`(shiftVar nB nA v, shiftTE nB nA e)`; a `B`-judgement `(v, e)` becomes
`(shiftVar fA (nA+nB) (v + nA), shiftTE fA (nA+nB) (shiftTE nA 0 e))`. -/
theorem I2_rules_shift (vs ws : List SV) (hd : Disjoint vs ws) :
    (inferAll (registerAll (vs ++ ws))).judgements
        = (inferAll (registerAll vs)).judgements.map
            (fun p => (shiftVar (registerAll ws).next (registerAll vs).next p.1,
                       shiftTE (registerAll ws).next (registerAll vs).next p.2))
          ++ (inferAll (registerAll ws)).judgements.map
            (fun p =>
              (shiftVar ((inferAll (registerAll vs)).next - (registerAll vs).next)
                  ((registerAll vs).next + (registerAll ws).next) (p.1 + (registerAll vs).next),
               shiftTE ((inferAll (registerAll vs)).next - (registerAll vs).next)
                  ((registerAll vs).next + (registerAll ws).next) (shiftTE (registerAll vs).next 0 p.2))) := by
  rw [(I2_rules vs ws hd).1]
  congr 1
  apply List.map_congr_left
  intro p _
  simp only [mapJ, mapTE_rhoB, rhoB_eq, Prod.mk.injEq, and_true]
  simp [shiftVar]

/-! ### I3: the initial forest -/

/-- membership in the inference sets (`OrderFacts.mem_infSets`) as a predicate on the judgements -/
def Q (J : List (Nat × TE)) (a : Nat) (x : TE) : Prop :=
  ((a, x) ∈ J ∧ x ≠ .equal a) ∨ (∃ id, x = .equal id ∧ (id, .equal a) ∈ J ∧ id ≠ a)

/-- `y` occurs in the judgements -/
def Occ (J : List (Nat × TE)) (y : Nat) : Prop := ∃ p ∈ J, y = p.1 ∨ y ∈ varsTE p.2

theorem Q_append (J1 J2 : List (Nat × TE)) (a : Nat) (x : TE) :
    Q (J1 ++ J2) a x ↔ Q J1 a x ∨ Q J2 a x := by
  simp only [Q, List.mem_append]
  constructor
  · rintro (⟨h | h, hn⟩ | ⟨id, rfl, h | h, hn⟩)
    · exact .inl (.inl ⟨h, hn⟩)
    · exact .inr (.inl ⟨h, hn⟩)
    · exact .inl (.inr ⟨id, rfl, h, hn⟩)
    · exact .inr (.inr ⟨id, rfl, h, hn⟩)
  · rintro ((⟨h, hn⟩ | ⟨id, rfl, h, hn⟩) | (⟨h, hn⟩ | ⟨id, rfl, h, hn⟩))
    · exact .inl ⟨.inl h, hn⟩
    · exact .inr ⟨id, rfl, .inl h, hn⟩
    · exact .inl ⟨.inr h, hn⟩
    · exact .inr ⟨id, rfl, .inr h, hn⟩

theorem Q_occ {J : List (Nat × TE)} {a : Nat} {x : TE} (h : Q J a x) : Occ J a := by
  rcases h with ⟨h, _⟩ | ⟨id, rfl, h, _⟩
  · exact ⟨_, h, .inl rfl⟩
  · exact ⟨_, h, .inr (by simp [varsTE])⟩

theorem Q_occ_equal {J : List (Nat × TE)} {a b : Nat} (h : Q J a (.equal b)) : Occ J b := by
  rcases h with ⟨h, _⟩ | ⟨id, he, h, _⟩
  · exact ⟨_, h, .inr (by simp [varsTE])⟩
  · injection he with he; subst he; exact ⟨_, h, .inl rfl⟩

theorem Q_symm {J : List (Nat × TE)} {a b : Nat} (h : Q J a (.equal b)) : Q J b (.equal a) := by
  rcases h with ⟨h, hn⟩ | ⟨id, he, h, hn⟩
  · refine .inr ⟨a, rfl, h, ?_⟩
    intro hab; subst hab; exact hn rfl
  · injection he with he; subst he
    refine .inl ⟨h, ?_⟩
    intro hab; injection hab with hab; exact hn hab.symm

theorem occ_lt {n : Nat} {J : List (Nat × TE)} (hb : JBound n J) {y : Nat} (h : Occ J y) : y < n := by
  obtain ⟨p, hp, rfl | hy⟩ := h
  · exact (hb p hp).1
  · exact (hb p hp).2 y hy

theorem mapTE_eq_equal {ρ : Nat → Nat} {e : TE} {c : Nat} (h : mapTE ρ e = .equal c) :
    ∃ b, e = .equal b ∧ ρ b = c := by
  cases e <;> simp only [mapTE, reduceCtorEq, TE.equal.injEq] at h
  exact ⟨_, rfl, h⟩

theorem noEq_mapTE (ρ : Nat → Nat) (e : TE) : Unify.NoEq (mapTE ρ e) = Unify.NoEq e := by
  cases e <;> rfl

theorem Q_map {ρ : Nat → Nat} (hρ : Function.Injective ρ) (J : List (Nat × TE)) (a : Nat) (x : TE) :
    Q (J.map (mapJ ρ)) (ρ a) x ↔ ∃ x', x = mapTE ρ x' ∧ Q J a x' := by
  constructor
  · rintro (⟨h, hn⟩ | ⟨id, rfl, h, hn⟩)
    · simp only [List.mem_map, mapJ, Prod.mk.injEq] at h
      obtain ⟨⟨b, y⟩, hp, hb, hx⟩ := h
      simp only at hb hx
      subst hx
      have := hρ hb; subst this
      refine ⟨y, rfl, .inl ⟨hp, ?_⟩⟩
      intro hy; subst hy; exact hn rfl
    · simp only [List.mem_map, mapJ, Prod.mk.injEq] at h
      obtain ⟨⟨b, y⟩, hp, hid, hy⟩ := h
      simp only at hid hy
      subst hid
      obtain ⟨c, rfl, hc⟩ := mapTE_eq_equal hy
      have := hρ hc; subst this
      refine ⟨.equal b, rfl, .inr ⟨b, rfl, hp, ?_⟩⟩
      intro hbc; subst hbc; exact hn rfl
  · rintro ⟨x', rfl, ⟨h, hn⟩ | ⟨id, rfl, h, hn⟩⟩
    · refine .inl ⟨List.mem_map.mpr ⟨_, h, rfl⟩, ?_⟩
      intro he
      obtain ⟨b, rfl, hb⟩ := mapTE_eq_equal he
      have := hρ hb; subst this; exact hn rfl
    · refine .inr ⟨ρ id, rfl, List.mem_map.mpr ⟨_, h, rfl⟩, ?_⟩
      intro he; exact hn (hρ he)

theorem Q_map_other {ρ2 : Nat → Nat} (J2 : List (Nat × TE)) (c : Nat) (x : TE)
    (hdis : ∀ y, Occ J2 y → c ≠ ρ2 y) : ¬ Q (J2.map (mapJ ρ2)) c x := by
  rintro (⟨h, hn⟩ | ⟨id, rfl, h, hn⟩)
  · simp only [List.mem_map, mapJ, Prod.mk.injEq] at h
    obtain ⟨⟨b, y⟩, hp, hb, hx⟩ := h
    simp only at hb hx
    exact hdis b ⟨_, hp, .inl rfl⟩ hb.symm
  · simp only [List.mem_map, mapJ, Prod.mk.injEq] at h
    obtain ⟨⟨b, y⟩, hp, hid, hy⟩ := h
    simp only at hid hy
    obtain ⟨d, rfl, hd⟩ := mapTE_eq_equal hy
    exact hdis d ⟨_, hp, .inr (by simp [varsTE])⟩ hd.symm

open SLE.OrderFacts (Eqv sameClass evidence) in
/-- **Embedding of a component into the forest of a disjoint union.**  `f` represents the judgement
predicate of `J1` renamed by `ρ1` together with `J2` renamed by `ρ2`, `f1` that of `J1` alone.  If `ρ1`
is injective and no variable of `J1` (all `< N1`) is sent by `ρ1` onto the `ρ2`-image of a variable
occurring in `J2`, then the classes and the evidence of `f` on the image of `ρ1` are exactly the
`ρ1`-images of those of `f1`, and no such class contains anything else. -/
theorem embed_rep {ρ1 ρ2 : Nat → Nat} (hρ1 : Function.Injective ρ1) {J1 J2 : List (Nat × TE)} {N1 : Nat}
    (hb1 : JBound N1 J1) (hdis : ∀ a, a < N1 → ∀ y, Occ J2 y → ρ1 a ≠ ρ2 y)
    {f f1 : Unify.Forest} {P P1 : Nat → TE → Prop}
    (hf : OrderFacts.Rep f P) (hf1 : OrderFacts.Rep f1 P1)
    (hP : ∀ a x, P a x ↔ (Q (J1.map (mapJ ρ1)) a x ∨ Q (J2.map (mapJ ρ2)) a x))
    (hP1 : ∀ a x, P1 a x ↔ Q J1 a x) :
    (∀ a, a < N1 → ∀ c, sameClass f (ρ1 a) c → ∃ b, b < N1 ∧ c = ρ1 b ∧ sameClass f1 a b) ∧
    (∀ a b, a < N1 → b < N1 → (sameClass f (ρ1 a) (ρ1 b) ↔ sameClass f1 a b)) ∧
    (∀ a, a < N1 → ∀ e, e ∈ evidence f (ρ1 a) ↔ ∃ e', e' ∈ evidence f1 a ∧ e = mapTE ρ1 e') := by
  -- `P` on the image of `ρ1`
  have hPimg : ∀ a, a < N1 → ∀ x, P (ρ1 a) x ↔ ∃ x', x = mapTE ρ1 x' ∧ P1 a x' := by
    intro a ha x
    rw [hP]
    constructor
    · rintro (h | h)
      · obtain ⟨x', rfl, hq⟩ := (Q_map hρ1 J1 a x).mp h
        exact ⟨x', rfl, (hP1 a x').mpr hq⟩
      · exact absurd h (Q_map_other J2 _ x (hdis a ha))
    · rintro ⟨x', rfl, hq⟩
      exact .inl ((Q_map hρ1 J1 a _).mpr ⟨x', rfl, (hP1 a x').mp hq⟩)
  have hlt : ∀ a x, P1 a x → a < N1 := fun a x h => occ_lt hb1 (Q_occ ((hP1 a x).mp h))
  have hlt2 : ∀ a b, P1 a (.equal b) → b < N1 := fun a b h => occ_lt hb1 (Q_occ_equal ((hP1 a _).mp h))
  have hPsymm : ∀ c d, P c (.equal d) → P d (.equal c) := by
    intro c d h
    have := (hP c _).mp h
    rw [← Q_append] at this
    have := Q_symm this
    rw [Q_append] at this
    exact (hP d _).mpr this
  -- forward: the closure of `P1` embeds
  have hfwd : ∀ a b, Eqv P1 a b → a < N1 → b < N1 ∧ Eqv P (ρ1 a) (ρ1 b) := by
    intro a b h
    induction h with
    | rel hp =>
      intro ha
      exact ⟨hlt2 _ _ hp, .rel ((hPimg _ ha _).mpr ⟨_, rfl, hp⟩)⟩
    | refl a => intro ha; exact ⟨ha, .refl _⟩
    | symm h ih =>
      rename_i a b
      intro hb
      -- need `a < N1`: go through the closure backwards
      have : ∀ a b, Eqv P1 a b → (a < N1 ↔ b < N1) := by
        intro a b h
        induction h with
        | rel hp => exact ⟨fun _ => hlt2 _ _ hp, fun _ => hlt _ _ hp⟩
        | refl a => exact Iff.rfl
        | symm _ ih => exact ih.symm
        | trans _ _ ih1 ih2 => exact ih1.trans ih2
      have ha := (this _ _ h).mpr hb
      exact ⟨ha, .symm (ih ha).2⟩
    | trans _ _ ih1 ih2 =>
      intro ha
      obtain ⟨hb, e1⟩ := ih1 ha
      obtain ⟨hc, e2⟩ := ih2 hb
      exact ⟨hc, .trans e1 e2⟩
  -- backward: the closure of `P` stays inside the image
  have hbwd : ∀ x y, Eqv P x y →
      (∀ a, a < N1 → x = ρ1 a → ∃ b, b < N1 ∧ y = ρ1 b ∧ Eqv P1 a b) ∧
      (∀ b, b < N1 → y = ρ1 b → ∃ a, a < N1 ∧ x = ρ1 a ∧ Eqv P1 a b) := by
    intro x y h
    induction h with
    | rel hp =>
      rename_i x y
      constructor
      · rintro a ha rfl
        obtain ⟨x', hx', hp1⟩ := (hPimg a ha _).mp hp
        obtain ⟨b, rfl, rfl⟩ := mapTE_eq_equal hx'.symm
        exact ⟨b, hlt2 _ _ hp1, rfl, .rel hp1⟩
      · rintro b hb rfl
        obtain ⟨x', hx', hp1⟩ := (hPimg b hb _).mp (hPsymm _ _ hp)
        obtain ⟨a, rfl, rfl⟩ := mapTE_eq_equal hx'.symm
        exact ⟨a, hlt2 _ _ hp1, rfl, .symm (.rel hp1)⟩
    | refl x =>
      exact ⟨fun a ha hx => ⟨a, ha, hx, .refl a⟩, fun b hb hx => ⟨b, hb, hx, .refl b⟩⟩
    | symm _ ih =>
      constructor
      · intro a ha hx
        obtain ⟨b, hb, e, h⟩ := ih.2 a ha hx
        exact ⟨b, hb, e, .symm h⟩
      · intro b hb hy
        obtain ⟨a, ha, e, h⟩ := ih.1 b hb hy
        exact ⟨a, ha, e, .symm h⟩
    | trans _ _ ih1 ih2 =>
      constructor
      · intro a ha hx
        obtain ⟨b, hb, e1, h1⟩ := ih1.1 a ha hx
        obtain ⟨c, hc, e2, h2⟩ := ih2.1 b hb e1
        exact ⟨c, hc, e2, .trans h1 h2⟩
      · intro c hc hz
        obtain ⟨b, hb, e1, h1⟩ := ih2.2 c hc hz
        obtain ⟨a, ha, e2, h2⟩ := ih1.2 b hb e1
        exact ⟨a, ha, e2, .trans h2 h1⟩
  refine ⟨?_, ?_, ?_⟩
  · intro a ha c hc
    obtain ⟨b, hb, e, h⟩ := (hbwd _ _ ((hf.part _ _).mp hc)).1 a ha rfl
    exact ⟨b, hb, e, (hf1.part _ _).mpr h⟩
  · intro a b ha hb
    constructor
    · intro h
      obtain ⟨b', hb', e, h'⟩ := (hbwd _ _ ((hf.part _ _).mp h)).1 a ha rfl
      have := hρ1 e; subst this
      exact (hf1.part _ _).mpr h'
    · intro h
      exact (hf.part _ _).mpr (hfwd a b ((hf1.part _ _).mp h) ha).2
  · intro a ha e
    rw [hf.data]
    constructor
    · rintro ⟨w, hw, hn, hwa⟩
      obtain ⟨w', hw', rfl, h'⟩ := (hbwd _ _ hwa).2 a ha rfl
      obtain ⟨e', rfl, hp1⟩ := (hPimg w' hw' _).mp hw
      refine ⟨e', (hf1.data a e').mpr ⟨w', hp1, ?_, h'⟩, rfl⟩
      rw [← noEq_mapTE ρ1]; exact hn
    · rintro ⟨e', he', rfl⟩
      obtain ⟨w', hp1, hn, h'⟩ := (hf1.data a e').mp he'
      have hw' := hlt _ _ hp1
      refine ⟨ρ1 w', (hPimg w' hw' _).mpr ⟨e', rfl, hp1⟩, ?_, (hfwd _ _ h' hw').2⟩
      rw [noEq_mapTE]; exact hn

/-- the judgements the rules produce for a list of (lifted) values -/
def judgementsOf (us : List SV) : List (Nat × TE) := (inferAll (registerAll us)).judgements
/-- the number of type variables after the rules -/
def nvarsOf (us : List SV) : Nat := (inferAll (registerAll us)).next
/-- the inference set of a variable, as `analyse` passes it to `unify` -/
def infOf (us : List SV) (v : Nat) : List TE := ((infSets (judgementsOf us)).lookup v).getD []

/-- `A`'s variables inside the joint numbering of `vs ++ ws` -/
def rA (vs ws : List SV) : Nat → Nat := rhoA (registerAll vs).next (registerAll ws).next
/-- `B`'s variables inside the joint numbering of `vs ++ ws` -/
def rB (vs ws : List SV) : Nat → Nat :=
  rhoB (registerAll vs).next (registerAll ws).next (nvarsOf vs - (registerAll vs).next)

/-- `analyse` unifies exactly this forest (definitional). -/
theorem unify_initForest (o : Unify.Orders) (fuel : Nat) (us : List SV) :
    Unify.unify o fuel (nvarsOf us) (infOf us)
      = (match Unify.initForest o (List.range (nvarsOf us)) (infOf us) with
         | .error e => .error e
         | .ok f => Unify.unifyLoop o fuel f (nvarsOf us) 0 0) := rfl

theorem judgementsOf_bound (us : List SV) : JBound (nvarsOf us) (judgementsOf us) := (inferAll_good us).2

theorem P_iff_Q (us : List SV) (a : Nat) (x : TE) :
    (a ∈ List.range (nvarsOf us) ∧ x ∈ infOf us a) ↔ Q (judgementsOf us) a x := by
  unfold infOf
  rw [OrderFacts.mem_infSets]
  constructor
  · rintro ⟨_, h⟩; exact h
  · intro h
    refine ⟨?_, h⟩
    rw [List.mem_range]
    exact occ_lt (judgementsOf_bound us) (Q_occ h)

theorem judgementsOf_append (vs ws : List SV) (hd : Disjoint vs ws) :
    judgementsOf (vs ++ ws) = (judgementsOf vs).map (mapJ (rA vs ws)) ++ (judgementsOf ws).map (mapJ (rB vs ws)) :=
  (I2_rules vs ws hd).1

theorem nvarsOf_append (vs ws : List SV) (hd : Disjoint vs ws) :
    nvarsOf (vs ++ ws) = nvarsOf vs + nvarsOf ws := (I2_rules vs ws hd).2

theorem rA_injective (vs ws : List SV) : Function.Injective (rA vs ws) := rhoA_injective _ _
theorem rB_injective (vs ws : List SV) : Function.Injective (rB vs ws) := rhoB_injective _ _ _

/-- the two images are disjoint -/
theorem rA_ne_rB (vs ws : List SV) (a b : Nat) (ha : a < nvarsOf vs) : rA vs ws a ≠ rB vs ws b := by
  have h := (inferAll_good vs).1
  apply rho_disjoint
  unfold nvarsOf at ha ⊢
  omega

/-- every variable of the joint run is an `A`-variable or a `B`-variable -/
theorem rA_rB_cover (vs ws : List SV) (x : Nat) (hx : x < nvarsOf vs + nvarsOf ws) :
    (∃ a, a < nvarsOf vs ∧ x = rA vs ws a) ∨ (∃ b, b < nvarsOf ws ∧ x = rB vs ws b) := by
  have hA := (inferAll_good vs).1
  have hB := (inferAll_good ws).1
  unfold nvarsOf at hx ⊢
  unfold rA rB rhoA rhoB shiftVar nvarsOf
  generalize (registerAll vs).next = nA at *
  generalize (registerAll ws).next = nB at *
  generalize (inferAll (registerAll vs)).next = NA at *
  generalize (inferAll (registerAll ws)).next = NB at *
  by_cases h1 : x < nA
  · exact .inl ⟨x, by omega, by rw [if_pos h1]⟩
  by_cases h2 : x < nA + nB
  · exact .inr ⟨x - nA, by omega, by rw [if_pos (by omega)]; omega⟩
  by_cases h3 : x < NA + nB
  · exact .inl ⟨x - nB, by omega, by rw [if_neg (by omega)]; omega⟩
  · exact .inr ⟨x - NA, by omega, by rw [if_neg (by omega)]; omega⟩

open SLE.OrderFacts (sameClass evidence) in
/-- **I3.** The initial forests of the joint run, of `A` alone and of `B` alone exist (for any
permutation orders, possibly different ones), and
* no class of the joint forest contains an `A`-variable and a `B`-variable;
* two `A`-variables are in the same joint class iff they are in the same class of `A` alone, and the
  evidence of that class is the `rA`-image of the evidence of `A`'s class (as sets);
* the same for `B` with `rB`. -/
theorem I3_initial_forest {o oA oB : Unify.Orders} (ho : Unify.OrdersOk o) (hoA : Unify.OrdersOk oA)
    (hoB : Unify.OrdersOk oB) (vs ws : List SV) (hd : Disjoint vs ws) :
    ∃ f fA fB,
      Unify.initForest o (List.range (nvarsOf (vs ++ ws))) (infOf (vs ++ ws)) = .ok f ∧
      Unify.initForest oA (List.range (nvarsOf vs)) (infOf vs) = .ok fA ∧
      Unify.initForest oB (List.range (nvarsOf ws)) (infOf ws) = .ok fB ∧
      (∀ a b, a < nvarsOf vs → b < nvarsOf ws → ¬ sameClass f (rA vs ws a) (rB vs ws b)) ∧
      (∀ a a', a < nvarsOf vs → a' < nvarsOf vs →
        (sameClass f (rA vs ws a) (rA vs ws a') ↔ sameClass fA a a')) ∧
      (∀ a, a < nvarsOf vs → ∀ e,
        e ∈ evidence f (rA vs ws a) ↔ ∃ e', e' ∈ evidence fA a ∧ e = mapTE (rA vs ws) e') ∧
      (∀ b b', b < nvarsOf ws → b' < nvarsOf ws →
        (sameClass f (rB vs ws b) (rB vs ws b') ↔ sameClass fB b b')) ∧
      (∀ b, b < nvarsOf ws → ∀ e,
        e ∈ evidence f (rB vs ws b) ↔ ∃ e', e' ∈ evidence fB b ∧ e = mapTE (rB vs ws) e') := by
  obtain ⟨f, ef, rf⟩ := OrderFacts.initForest_rep ho (List.range (nvarsOf (vs ++ ws))) (infOf (vs ++ ws))
  obtain ⟨fA, efA, rfA⟩ := OrderFacts.initForest_rep hoA (List.range (nvarsOf vs)) (infOf vs)
  obtain ⟨fB, efB, rfB⟩ := OrderFacts.initForest_rep hoB (List.range (nvarsOf ws)) (infOf ws)
  have hP : ∀ a x, (a ∈ List.range (nvarsOf (vs ++ ws)) ∧ x ∈ infOf (vs ++ ws) a) ↔
      (Q ((judgementsOf vs).map (mapJ (rA vs ws))) a x ∨ Q ((judgementsOf ws).map (mapJ (rB vs ws))) a x) := by
    intro a x
    rw [P_iff_Q, judgementsOf_append vs ws hd, Q_append]
  have hA := embed_rep (ρ1 := rA vs ws) (ρ2 := rB vs ws) (rA_injective vs ws) (judgementsOf_bound vs)
    (fun a ha y _ => rA_ne_rB vs ws a y ha) rf rfA hP (P_iff_Q vs)
  have hB := embed_rep (ρ1 := rB vs ws) (ρ2 := rA vs ws) (rB_injective vs ws) (judgementsOf_bound ws)
    (fun b _ y hy => (rA_ne_rB vs ws y b (occ_lt (judgementsOf_bound vs) hy)).symm) rf rfB
    (fun a x => (hP a x).trans Or.comm) (P_iff_Q ws)
  refine ⟨f, fA, fB, ef, efA, efB, ?_, hA.2.1, hA.2.2, hB.2.1, hB.2.2⟩
  intro a b ha hb hc
  obtain ⟨a', ha', e, _⟩ := hA.1 a ha _ hc
  exact rA_ne_rB vs ws a' b ha' e.symm

/-! ### I4, part 1: `merge` is local

Every variable a merge outputs (in the merged expression, the emitted equalities and judgements, the
new variables) is a variable of one of the two inputs, the parent, or freshly allocated from the
counter.  Phrased with an arbitrary predicate `S`: if the inputs, the parent and the fresh range
satisfy `S`, so does everything that comes out. -/

open SLE.Merge in
/-- everything in the output satisfies `S` -/
def OutS (S : Nat → Prop) (m : MergeOut) : Prop :=
  (∀ x ∈ varsTE m.expr, S x) ∧ (∀ p ∈ m.eqs, S p.1 ∧ S p.2) ∧
    (∀ j ∈ m.judgements, S j.1 ∧ ∀ x ∈ varsTE j.2, S x) ∧ (∀ v ∈ m.newVars, S v)

/-- locality of a merge result w.r.t. the counter `next` -/
def LocR (S : Nat → Prop) (next : Nat) (r : Except MFault MergeOut) : Prop :=
  ∀ m, r = .ok m →
    next ≤ m.next ∧ (∀ v ∈ m.newVars, next ≤ v ∧ v < m.next) ∧
      ((∀ x, next ≤ x → x < m.next → S x) → OutS S m)

section mergeLocal
open SLE.Merge
variable {S : Nat → Prop}

theorem out_loc (e : TE) (next : Nat) (he : ∀ x ∈ varsTE e, S x) : LocR S next (out e next) := by
  intro m hm
  simp only [out, Except.ok.injEq] at hm
  subst hm
  exact ⟨Nat.le_refl _, by simp, fun _ => ⟨he, by simp, by simp, by simp⟩⟩

theorem packedWord_loc (ts : List Span) (s : Bool) (w : Option Nat) (u : WordUse) (p n : Nat)
    (hl : ∀ x ∈ varsTE (.packed ts s), S x) (hp : S p) :
    LocR S n (packedWord (.packed ts s) ts w u p n) := by
  unfold packedWord
  simp only []
  repeat' split
  all_goals first
    | exact out_loc _ _ hl
    | (refine out_loc _ _ ?_
       simp [varsTE]
       done)
    | (intro m hm
       simp only [Except.ok.injEq] at hm
       subst hm
       refine ⟨by simp, by simp, fun hf => ⟨hl, by simp, ?_, ?_⟩⟩
       · simp only [List.mem_singleton, forall_eq, varsTE, List.map_cons, List.map_nil]
         exact ⟨hp, hf n (Nat.le_refl _) (Nat.lt_succ_self _)⟩
       · simp only [List.mem_singleton, forall_eq]
         exact hf n (Nat.le_refl _) (Nat.lt_succ_self _)
       done)
    | (intro m hm
       simp only [Except.ok.injEq] at hm
       subst hm
       refine ⟨by simp, by simp, fun hf => ⟨hl, by simp, ?_, by simp⟩⟩
       simp only [List.mem_singleton, forall_eq, varsTE, List.not_mem_nil, false_imp_iff, implies_true, and_true]
       apply hl
       simp [varsTE]
       done)

theorem mem_insertSpanBy (key : Span → Nat × Nat) (s x : Span) : ∀ l : List Span,
    x ∈ insertSpanBy key s l ↔ x = s ∨ x ∈ l := by
  intro l
  induction l with
  | nil => simp [insertSpanBy]
  | cons t r ih =>
    simp only [insertSpanBy]
    split
    · simp
    · simp only [List.mem_cons, ih]
      constructor
      · rintro (h | h | h)
        · exact .inr (.inl h)
        · exact .inl h
        · exact .inr (.inr h)
      · rintro (h | h | h)
        · exact .inr (.inl h)
        · exact .inl h
        · exact .inr (.inr h)

theorem mem_sortSpans (x : Span) : ∀ ts : List Span, x ∈ sortSpans ts ↔ x ∈ ts := by
  intro ts
  induction ts with
  | nil => simp [sortSpans]
  | cons t r ih =>
    have : sortSpans (t :: r) = insertSpanBy (fun x => (x.offset, x.size)) t (sortSpans r) := rfl
    rw [this, mem_insertSpanBy, ih]
    simp

theorem newSpans_typ (bs : List Nat) : ∀ (n : Nat) (x : Nat × Nat × Nat),
    x ∈ newSpans n bs → n ≤ x.1 ∧ x.1 < n + (newSpans n bs).length := by
  induction bs with
  | nil => intro n x h; simp [newSpans] at h
  | cons a r ih =>
    intro n x h
    cases r with
    | nil => simp [newSpans] at h
    | cons b r =>
      simp only [newSpans, List.mem_cons, List.length_cons] at h ⊢
      rcases h with rfl | h
      · simp only; omega
      · have := ih (n + 1) x h
        omega

/-- the `processSpans` fold: the left components are types of the input spans, everything else is
the type of a new span -/
theorem processSpans_fold_loc (spans : List (Nat × Nat × Nat)) (hs : ∀ t ∈ spans, S t.1) (xs : List Span)
    (hx : ∀ s ∈ xs, S s.typ) :
    ∀ acc : List (Nat × Nat) × List (Nat × TE),
      ((∀ p ∈ acc.1, S p.1 ∧ S p.2) ∧ (∀ j ∈ acc.2, S j.1 ∧ ∀ x ∈ varsTE j.2, S x)) →
      let r := (xs.foldl (fun (acc : List (Nat × Nat) × List (Nat × TE)) s =>
        let c := corresponding spans s
        match c with
        | [one] => (acc.1 ++ [(s.typ, one.typ)], acc.2)
        | _ => (acc.1, acc.2 ++ [(s.typ, TE.packed (c.map (fun x => ⟨x.typ, x.offset - s.offset, x.size⟩)) false)])) acc)
      (∀ p ∈ r.1, S p.1 ∧ S p.2) ∧ (∀ j ∈ r.2, S j.1 ∧ ∀ x ∈ varsTE j.2, S x) := by
  induction xs with
  | nil => intro acc h; simpa using h
  | cons x xs ih =>
    intro acc h
    rw [List.foldl_cons]
    apply ih (fun s hs' => hx s (List.mem_cons_of_mem _ hs'))
    have hxs : S x.typ := hx x List.mem_cons_self
    have hc : ∀ z ∈ corresponding spans x, S z.typ := by
      intro z hz
      obtain ⟨t, ht, rfl⟩ := MergePacked.mem_corresponding spans x z hz
      exact hs t ht
    simp only []
    split
    · rename_i one heq
      refine ⟨?_, h.2⟩
      intro p hp
      rcases List.mem_append.mp hp with hp | hp
      · exact h.1 p hp
      · simp only [List.mem_singleton] at hp
        subst hp
        exact ⟨hxs, hc one (by rw [heq]; simp)⟩
    · refine ⟨h.1, ?_⟩
      intro j hj
      rcases List.mem_append.mp hj with hj | hj
      · exact h.2 j hj
      · simp only [List.mem_singleton] at hj
        subst hj
        refine ⟨hxs, ?_⟩
        intro y hy
        simp only [varsTE, List.map_map, List.mem_map, Function.comp] at hy
        obtain ⟨z, hz, rfl⟩ := hy
        exact hc z hz

theorem processSpans_loc (spans : List (Nat × Nat × Nat)) (hs : ∀ t ∈ spans, S t.1) (input : List Span)
    (hx : ∀ s ∈ input, S s.typ) :
    (∀ p ∈ (processSpans spans input).1, S p.1 ∧ S p.2) ∧
      (∀ j ∈ (processSpans spans input).2, S j.1 ∧ ∀ x ∈ varsTE j.2, S x) :=
  processSpans_fold_loc spans hs _ (fun s h => hx s ((mem_sortSpans s input).mp h)) _ (by simp)

theorem packedPacked_loc (tl : List Span) (sl : Bool) (tr : List Span) (sr : Bool) (n : Nat)
    (hl : ∀ x ∈ varsTE (.packed tl sl), S x) (hr : ∀ x ∈ varsTE (.packed tr sr), S x) :
    LocR S n (packedPacked tl sl tr sr n) := by
  unfold packedPacked
  simp only []
  split
  · exact out_loc _ _ (by simpa [varsTE] using hr)
  · split
    · exact out_loc _ _ (by simpa [varsTE] using hl)
    · intro m hm
      simp only [Except.ok.injEq] at hm
      subst hm
      have hty := newSpans_typ (boundaries (tl ++ tr)) n
      refine ⟨by simp, ?_, ?_⟩
      · intro v hv
        simp only [List.mem_map] at hv
        obtain ⟨t, ht, rfl⟩ := hv
        exact hty t ht
      · intro hf
        have hs : ∀ t ∈ newSpans n (boundaries (tl ++ tr)), S t.1 := by
          intro t ht
          exact hf _ (hty t ht).1 (hty t ht).2
        have h1 := processSpans_loc _ hs tl (fun s hs' => hl _ (by simp [varsTE]; exact ⟨s, hs', rfl⟩))
        have h2 := processSpans_loc _ hs tr (fun s hs' => hr _ (by simp [varsTE]; exact ⟨s, hs', rfl⟩))
        refine ⟨?_, ?_, ?_, ?_⟩
        · intro x hx
          simp only [varsTE, List.map_map, List.mem_map, Function.comp] at hx
          obtain ⟨t, ht, rfl⟩ := hx
          exact hs t ht
        · intro p hp
          rcases List.mem_append.mp hp with hp | hp
          · exact h1.1 p hp
          · exact h2.1 p hp
        · intro j hj
          rcases List.mem_append.mp hj with hj | hj
          · exact h1.2 j hj
          · exact h2.2 j hj
        · intro v hv
          simp only [List.mem_map] at hv
          obtain ⟨t, ht, rfl⟩ := hv
          exact hs t ht

theorem ok_loc (m : MergeOut) (next : Nat) (hn : m.next = next) (hnv : m.newVars = [])
    (h : OutS S m) : LocR S next (.ok m) := by
  intro m' hm
  simp only [Except.ok.injEq] at hm
  subst hm
  exact ⟨by omega, by simp [hnv], fun _ => h⟩

/-- **`merge` is local.** -/
theorem merge_loc (l r : TE) (p n : Nat) (hl : ∀ x ∈ varsTE l, S x) (hr : ∀ x ∈ varsTE r, S x) (hp : S p) :
    LocR S n (merge l r p n) := by
  unfold merge
  by_cases h : l = r
  · rw [if_pos h]; exact out_loc _ _ hl
  · rw [if_neg h]
    cases l <;> cases r
    all_goals simp only []
    all_goals first
      | (intro m hm; cases hm; done)
      | exact out_loc _ _ hl
      | exact out_loc _ _ hr
      | (refine out_loc _ _ ?_
         simp [varsTE]
         done)
      | exact packedWord_loc _ _ _ _ _ _ hl hp
      | exact packedWord_loc _ _ _ _ _ _ hr hp
      | exact packedPacked_loc _ _ _ _ _ hl hr
      | (simp only [varsTE, List.mem_cons, List.mem_singleton, List.not_mem_nil, or_false, forall_eq_or_imp,
           forall_eq] at hl hr
         refine ok_loc _ _ rfl rfl ⟨?_, ?_, ?_, ?_⟩ <;> simp [varsTE, hl, hr]
         done)
      | (simp only [varsTE, List.mem_cons, List.mem_singleton, List.not_mem_nil, or_false, forall_eq_or_imp,
           forall_eq] at hl hr
         split
         · refine ok_loc _ _ rfl rfl ⟨?_, ?_, ?_, ?_⟩ <;> simp [varsTE, hl, hr]
         · refine out_loc _ _ ?_
           simp [varsTE]
         done)
      | (repeat' split
         all_goals first
           | exact out_loc _ _ hl
           | exact out_loc _ _ hr
           | (refine out_loc _ _ ?_
              simp [varsTE]
              done))

end mergeLocal

/-! ### I4, part 2: folding a class is local -/

section foldClassLocal
open SLE.Merge SLE.Unify
variable {S : Nat → Prop}

/-- everything accumulated so far satisfies `S` -/
def AccS (S : Nat → Prop) (a : FCAcc) : Prop :=
  (∀ x ∈ varsTE a.1, S x) ∧ (∀ p ∈ a.2.2.1, S p.1 ∧ S p.2) ∧
    (∀ j ∈ a.2.2.2.1, S j.1 ∧ ∀ x ∈ varsTE j.2, S x) ∧ (∀ v ∈ a.2.2.2.2, S v)

theorem fcFold_loc (root : Nat) (hroot : S root) : ∀ (rest : List TE) (acc acc' : FCAcc),
    rest.foldlM (fcStep root) acc = .ok acc' → (∀ e ∈ rest, ∀ x ∈ varsTE e, S x) →
      acc.2.1 ≤ acc'.2.1 ∧
      (∀ v ∈ acc'.2.2.2.2, v ∈ acc.2.2.2.2 ∨ (acc.2.1 ≤ v ∧ v < acc'.2.1)) ∧
      ((∀ x, acc.2.1 ≤ x → x < acc'.2.1 → S x) → AccS S acc → AccS S acc') := by
  intro rest
  induction rest with
  | nil =>
    intro acc acc' h _
    injection h with h; subst h
    exact ⟨Nat.le_refl _, fun v hv => .inl hv, fun _ h => h⟩
  | cons e rest ih =>
    intro acc acc' h hrest
    obtain ⟨cur, n1, eqs, js, nvs⟩ := acc
    rw [List.foldlM_cons] at h
    cases hm : merge cur e root n1 with
    | error x =>
      have hstep : fcStep root (cur, n1, eqs, js, nvs) e = .error (.merge x) := by
        simp only [fcStep, hm]
      rw [hstep] at h
      cases h
    | ok m =>
      have hstep : fcStep root (cur, n1, eqs, js, nvs) e
          = .ok (m.expr, m.next, eqs ++ m.eqs, js ++ m.judgements, nvs ++ m.newVars) := by
        simp only [fcStep, hm]
      rw [hstep] at h
      obtain ⟨le2, nv2, s2⟩ := ih _ acc' h (fun e' he' => hrest e' (List.mem_cons_of_mem _ he'))
      -- facts about this merge that do not depend on `S`
      obtain ⟨le1, nv1, -⟩ := merge_loc (S := fun _ => True) cur e root n1 (fun _ _ => trivial)
        (fun _ _ => trivial) trivial m hm
      simp only at le2 nv2 s2 ⊢
      refine ⟨Nat.le_trans le1 le2, ?_, ?_⟩
      · intro v hv
        rcases nv2 v hv with h1 | h1
        · rcases List.mem_append.mp h1 with h1 | h1
          · exact .inl h1
          · have := nv1 v h1; exact .inr ⟨this.1, by omega⟩
        · exact .inr ⟨by omega, h1.2⟩
      · intro hf hacc
        obtain ⟨a1, a2, a3, a4⟩ := hacc
        simp only at a1 a2 a3 a4
        obtain ⟨-, -, o1⟩ := merge_loc cur e root n1 a1 (hrest e List.mem_cons_self) hroot m hm
        obtain ⟨b1, b2, b3, b4⟩ := o1 (fun x h1 h2 => hf x h1 (by omega))
        apply s2 (fun x h1 h2 => hf x (by omega) h2)
        refine ⟨b1, ?_, ?_, ?_⟩
        · intro p hp
          rcases List.mem_append.mp hp with hp | hp
          · exact a2 p hp
          · exact b2 p hp
        · intro j hj
          rcases List.mem_append.mp hj with hj | hj
          · exact a3 j hj
          · exact b3 j hj
        · intro v hv
          rcases List.mem_append.mp hv with hv | hv
          · exact a4 v hv
          · exact b4 v hv

/-- **Folding a class is local**: the merged expression, the emitted equalities, judgements and new
variables mention only variables of the class's evidence, its root, and fresh variables. -/
theorem foldClass_loc (root : Nat) (ev : List TE) (next : Nat) {cur : TE} {nx : Nat}
    {eqs : List (Nat × Nat)} {js : List (Nat × TE)} {nvs : List Nat}
    (h : foldClass root ev next = .ok (cur, nx, eqs, js, nvs)) (hroot : S root)
    (hev : ∀ e ∈ ev, ∀ x ∈ varsTE e, S x) :
    next ≤ nx ∧ (∀ v ∈ nvs, next ≤ v ∧ v < nx) ∧
      ((∀ x, next ≤ x → x < nx → S x) →
        (∀ x ∈ varsTE cur, S x) ∧ (∀ p ∈ eqs, S p.1 ∧ S p.2) ∧
          (∀ j ∈ js, S j.1 ∧ ∀ x ∈ varsTE j.2, S x) ∧ (∀ v ∈ nvs, S v)) := by
  cases ev with
  | nil => simp [foldClass] at h
  | cons first rest =>
    rw [foldClass_cons] at h
    obtain ⟨a, b, c⟩ := fcFold_loc root hroot rest _ _ h (fun e he => hev e (List.mem_cons_of_mem _ he))
    simp only at a b c
    refine ⟨a, ?_, ?_⟩
    · intro v hv
      rcases b v hv with h1 | h1
      · cases h1
      · exact h1
    · intro hf
      exact c hf ⟨hev first List.mem_cons_self, by simp, by simp, by simp⟩

end foldClassLocal

/-! ### I4, part 3: separated forests

`Sep U N f`: the predicate `U` ("is on `A`'s side") is constant on every class of `f`, the evidence
of a class mentions only variables on the side of the class, and everything is below `N`. -/

section sep
open SLE.Containers SLE.Unify

structure Sep (U : Nat → Prop) (N : Nat) (f : Forest) : Prop where
  cls : ∀ a, U (DS.rootOf f a) ↔ U a
  dat : ∀ k d, f.data.get k = some d → ∀ e ∈ d, ∀ x ∈ varsTE e, (U x ↔ U k) ∧ x < N
  memLt : ∀ w, f.mem w = true → w < N

variable {U U' : Nat → Prop} {N M : Nat} {f f' : Forest}

theorem Sep.mono (h : Sep U N f) (hNM : N ≤ M) : Sep U M f :=
  ⟨h.cls, fun k d hk e he x hx => ⟨(h.dat k d hk e he x hx).1, by have := (h.dat k d hk e he x hx).2; omega⟩,
    fun w hw => by have := h.memLt w hw; omega⟩

theorem absent_of_not_mem {w : Nat} (h : ¬ f.mem w = true) : f.reps.get w = none := by
  simp only [DS.mem] at h
  cases hg : f.reps.get w with
  | none => rfl
  | some _ => rw [hg] at h; exact absurd rfl h

/-- only the values of `U` below `N` matter -/
theorem Sep.congr (hu : UInv f) (h : Sep U N f) (hU : ∀ x, x < N → (U' x ↔ U x)) : Sep U' N f := by
  refine ⟨?_, ?_, h.memLt⟩
  · intro a
    by_cases hm : f.mem a = true
    · have h1 := h.memLt a hm
      have h2 := h.memLt _ (mem_rootOf hu.1 hm)
      rw [hU _ h1, hU _ h2]
      exact h.cls a
    · rw [DS.rootOf_absent hu.1 (absent_of_not_mem hm)]
  · intro k d hk e he x hx
    obtain ⟨h1, h2⟩ := h.dat k d hk e he x hx
    have hk' := h.memLt k (hu.2.2 k d hk).1
    rw [hU _ h2, hU _ hk']
    exact ⟨h1, h2⟩

theorem mem_dataAt {r : Nat} {e : TE} (h : e ∈ DS.dataAt setM f r) : ∃ d, f.data.get r = some d ∧ e ∈ d := by
  unfold DS.dataAt at h
  cases hg : f.data.get r with
  | none => rw [hg] at h; cases h
  | some d => rw [hg] at h; exact ⟨d, rfl, h⟩

theorem sep_sets (hi : DS.Inv f) (h : Sep U N f) : Sep U N (f.sets setM).1 := by
  obtain ⟨f1, l, e, i1, i2, i3, _, i5, i6, i7⟩ := DS.sets_spec setM f hi
  rw [e]
  refine ⟨?_, ?_, ?_⟩
  · intro a; rw [i3]; exact h.cls a
  · intro k d hk
    rw [i7] at hk
    split at hk
    · injection hk with hk
      subst hk
      cases hg : f.data.get k with
      | none => intro e he; simp [setM] at he
      | some d0 => simpa using h.dat k d0 hg
    · exact h.dat k d hk
  · intro w hw
    apply h.memLt
    simp only [DS.mem] at hw ⊢
    rw [← i2]; exact hw

theorem sep_setData (hi : DS.Inv f) (h : Sep U N f) {v : Nat} {d : List TE} (hv : v < N)
    (hd : ∀ e ∈ d, ∀ x ∈ varsTE e, (U x ↔ U (DS.rootOf f v)) ∧ x < N) (he : f.setData v d = .ok f') :
    Sep U N f' := by
  obtain ⟨f'', e, i1, i2, i3, i4⟩ := DS.setData_spec f v d hi
  rw [e] at he; injection he with he; subst he
  refine ⟨?_, ?_, ?_⟩
  · intro a; rw [i2]; exact h.cls a
  · intro k d' hk
    rw [i3] at hk
    split at hk
    · rename_i hkr
      injection hk with hk
      subst hk hkr
      exact hd
    · exact h.dat k d' hk
  · intro w hw
    rw [i4] at hw
    simp only [Bool.or_eq_true, decide_eq_true_eq] at hw
    rcases hw with hw | rfl
    · exact h.memLt w hw
    · exact hv

theorem sep_insert (hi : DS.Inv f) (h : Sep U N f) {v : Nat} (hv : v < N) : Sep U N (f.insert v) := by
  obtain ⟨i1, i2, i3, i4, i5⟩ := DS.insert_spec f v hi
  refine ⟨?_, ?_, ?_⟩
  · intro a; rw [i2]; exact h.cls a
  · intro k d hk; rw [i5] at hk; exact h.dat k d hk
  · intro w hw
    rw [i4] at hw
    simp only [Bool.or_eq_true, decide_eq_true_eq] at hw
    rcases hw with hw | rfl
    · exact h.memLt w hw
    · exact hv

theorem sep_union (hi : DS.Inv f) (h : Sep U N f) {a b : Nat} (ha : a < N) (hb : b < N) (hab : U a ↔ U b)
    (he : f.union setM a b = .ok f') : Sep U N f' := by
  obtain ⟨f'', e, i1, i2, i3, i4⟩ := DS.union_spec setM f a b hi
  rw [e] at he; injection he with he; subst he
  have hmem : ∀ w, f''.mem w = true → w < N := by
    intro w hw
    rw [i2] at hw
    simp only [Bool.or_eq_true, decide_eq_true_eq] at hw
    rcases hw with (hw | rfl) | rfl
    · exact h.memLt w hw
    · exact ha
    · exact hb
  by_cases hr : DS.rootOf f a = DS.rootOf f b
  · obtain ⟨j1, j2⟩ := i3 hr
    refine ⟨?_, ?_, hmem⟩
    · intro w; rw [j1]; exact h.cls w
    · intro k d hk; rw [j2] at hk; exact h.dat k d hk
  · obtain ⟨j1, j2⟩ := i4 hr
    have hroots : U (DS.rootOf f a) ↔ U (DS.rootOf f b) := (h.cls a).trans (hab.trans (h.cls b).symm)
    refine ⟨?_, ?_, hmem⟩
    · intro w
      rw [j1]
      split
      · rename_i hw
        rw [hroots, ← hw]
        exact h.cls w
      · exact h.cls w
    · intro k d hk
      rw [j2] at hk
      split at hk
      · rename_i hka
        injection hk with hk
        subst hk hka
        intro e he x hx
        rcases (mem_setUnion _ _ _).mp he with he | he
        · obtain ⟨d0, hd0, he0⟩ := mem_dataAt he
          exact h.dat _ d0 hd0 e he0 x hx
        · obtain ⟨d0, hd0, he0⟩ := mem_dataAt he
          obtain ⟨h1, h2⟩ := h.dat _ d0 hd0 e he0 x hx
          exact ⟨h1.trans hroots.symm, h2⟩
      · split at hk
        · cases hk
        · exact h.dat k d hk

theorem sep_addData (hi : DS.Inv f) (h : Sep U N f) {v : Nat} {d : List TE} (hv : v < N)
    (hd : ∀ e ∈ d, ∀ x ∈ varsTE e, (U x ↔ U v) ∧ x < N) (he : f.addData setM v d = .ok f') :
    Sep U N f' := by
  obtain ⟨f'', e, i1, i2, i3, i4⟩ := DS.addData_spec setM f v d hi
  rw [e] at he; injection he with he; subst he
  refine ⟨?_, ?_, ?_⟩
  · intro a; rw [i2]; exact h.cls a
  · intro k d' hk
    rw [i3] at hk
    split at hk
    · rename_i hkr
      injection hk with hk
      subst hk hkr
      intro e he x hx
      rcases (mem_setUnion _ _ _).mp he with he | he
      · obtain ⟨d0, hd0, he0⟩ := mem_dataAt he
        exact h.dat _ d0 hd0 e he0 x hx
      · obtain ⟨h1, h2⟩ := hd e he x hx
        exact ⟨h1.trans (h.cls v).symm, h2⟩
    · exact h.dat k d' hk
  · intro w hw
    rw [i4] at hw
    simp only [Bool.or_eq_true, decide_eq_true_eq] at hw
    rcases hw with hw | rfl
    · exact h.memLt w hw
    · exact hv

end sep

/-! ### I4, part 4: a round keeps a separated forest separated -/

section roundSep
open SLE.Containers SLE.Unify

/-- loop invariant of the fold over the classes; `U` is the current side predicate (it is extended
whenever a class allocates fresh variables: they join the side of the class) -/
structure LoopJ (U0 : Nat → Prop) (next0 : Nat) (f1 : Forest) (acc : RoundAcc) (U : Nat → Prop) : Prop where
  loopI : LoopI acc
  sep : Sep U acc.next acc.forest
  le : next0 ≤ acc.next
  agree : ∀ x, x < next0 → (U x ↔ U0 x)
  roots : ∀ w, DS.rootOf acc.forest w = DS.rootOf f1 w
  eqs : ∀ p ∈ acc.eqs, (U p.1 ↔ U p.2) ∧ p.1 < acc.next ∧ p.2 < acc.next
  js : ∀ j ∈ acc.judgements, j.1 < acc.next ∧ ∀ x ∈ varsTE j.2, (U x ↔ U j.1) ∧ x < acc.next
  nvs : ∀ v ∈ acc.newVars, v < acc.next

theorem roundStep_sep {o : Orders} (ho : OrdersOk o) {U0 : Nat → Prop} {next0 : Nat} {f1 : Forest}
    {acc acc' : RoundAcc} {U : Nat → Prop} {p : Nat × List TE}
    (hJ : LoopJ U0 next0 f1 acc U) (hp1 : p.1 < next0) (hp2 : DS.rootOf f1 p.1 = p.1)
    (hp3 : ∀ e ∈ p.2, NoEq e = true)
    (hp4 : ∀ e ∈ p.2, ∀ x ∈ varsTE e, (U0 x ↔ U0 p.1) ∧ x < next0)
    (h : roundStep o acc p = .ok acc') :
    ∃ U', LoopJ U0 next0 f1 acc' U' ∧ (∀ x, x < acc.next → (U' x ↔ U x)) ∧
      (∀ q ∈ acc'.eqs, q ∈ acc.eqs ∨ ((U' q.1 ↔ U p.1) ∧ (U' q.2 ↔ U p.1))) ∧
      (∀ j ∈ acc'.judgements, j ∈ acc.judgements ∨ (U' j.1 ↔ U p.1)) ∧
      (∀ x, acc.next ≤ x → x < acc'.next → (U' x ↔ U p.1)) := by
  obtain ⟨acc'', e1, hL, hR⟩ := roundStep_inv ho hJ.loopI hp3
  rw [h] at e1; injection e1 with e1; subst e1
  rcases roundStep_cases h with ⟨_, rfl⟩ | ⟨hne, cur, nx, eqs, js, nvs, f', hfc, hsd, rfl⟩
  · exact ⟨U, ⟨hL, hJ.sep, hJ.le, hJ.agree, hJ.roots, hJ.eqs, hJ.js, hJ.nvs⟩, fun _ _ => Iff.rfl,
      fun q hq => .inl hq, fun j hj => .inl hj, fun x h1 h2 => absurd h2 (by simp only; omega)⟩
  · have hle0 := hJ.le
    obtain ⟨hle, -, -⟩ := foldClass_loc (S := fun _ => True) p.1 (o.tes p.2) acc.next hfc trivial
      (fun _ _ _ _ => trivial)
    -- the extended side predicate
    let U' : Nat → Prop := fun x => if acc.next ≤ x ∧ x < nx then U p.1 else U x
    have hlt : ∀ x, x < acc.next → (U' x ↔ U x) := by
      intro x hx
      show (if acc.next ≤ x ∧ x < nx then U p.1 else U x) ↔ U x
      rw [if_neg (by omega)]
    have hfresh : ∀ x, acc.next ≤ x → x < nx → (U' x ↔ U p.1) := by
      intro x h1 h2
      show (if acc.next ≤ x ∧ x < nx then U p.1 else U x) ↔ U p.1
      rw [if_pos ⟨h1, h2⟩]
    have hroot' : U' p.1 ↔ U p.1 := hlt _ (by omega)
    have hperm := ho.2.1 p.2
    have hev : ∀ e ∈ o.tes p.2, ∀ x ∈ varsTE e, (U' x ↔ U' p.1) ∧ x < nx := by
      intro e he x hx
      obtain ⟨h1, h2⟩ := hp4 e (hperm.mem_iff.mp he) x hx
      refine ⟨?_, by omega⟩
      rw [hlt x (by omega), hroot', hJ.agree x h2, hJ.agree p.1 hp1]
      exact h1
    obtain ⟨-, hnv, hS⟩ := foldClass_loc (S := fun x => (U' x ↔ U' p.1) ∧ x < nx) p.1 (o.tes p.2) acc.next hfc
      ⟨Iff.rfl, by omega⟩ hev
    obtain ⟨c1, c2, c3, c4⟩ := hS (fun x h1 h2 => ⟨(hfresh x h1 h2).trans hroot'.symm, h2⟩)
    have s1 : Sep U' acc.next acc.forest := hJ.sep.congr hJ.loopI.1 (fun x hx => hlt x hx)
    have s3 : Sep U' nx f' := by
      refine sep_setData hJ.loopI.1.1 (s1.mono hle) (v := p.1) (by omega) ?_ hsd
      intro e he x hx
      simp only [List.mem_singleton] at he
      subst he
      rw [hJ.roots, hp2]
      exact c1 x hx
    refine ⟨U', ⟨hL, s3, by simp only; omega, ?_, ?_, ?_, ?_, ?_⟩, hlt, ?_, ?_, hfresh⟩
    · intro x hx
      rw [hlt x (by omega)]
      exact hJ.agree x hx
    · intro w
      rw [hR w]
      exact hJ.roots w
    · intro q hq
      simp only at hq ⊢
      rcases List.mem_append.mp hq with hq | hq
      · obtain ⟨h1, h2, h3⟩ := hJ.eqs q hq
        refine ⟨?_, by omega, by omega⟩
        rw [hlt _ h2, hlt _ h3]; exact h1
      · obtain ⟨⟨h1, h2⟩, ⟨h3, h4⟩⟩ := c2 q hq
        exact ⟨h1.trans h3.symm, h2, h4⟩
    · intro j hj
      simp only at hj ⊢
      rcases List.mem_append.mp hj with hj | hj
      · obtain ⟨h1, h2⟩ := hJ.js j hj
        refine ⟨by omega, ?_⟩
        intro x hx
        obtain ⟨h3, h4⟩ := h2 x hx
        refine ⟨?_, by omega⟩
        rw [hlt _ h4, hlt _ h1]; exact h3
      · obtain ⟨⟨h1, h2⟩, h3⟩ := c3 j hj
        refine ⟨h2, ?_⟩
        intro x hx
        obtain ⟨h4, h5⟩ := h3 x hx
        exact ⟨h4.trans h1.symm, h5⟩
    · intro v hv
      simp only at hv ⊢
      rcases List.mem_append.mp hv with hv | hv
      · have := hJ.nvs v hv; omega
      · exact (hnv v hv).2
    · intro q hq
      simp only at hq ⊢
      rcases List.mem_append.mp hq with hq | hq
      · exact .inl hq
      · obtain ⟨⟨h1, _⟩, ⟨h3, _⟩⟩ := c2 q hq
        exact .inr ⟨h1.trans hroot', h3.trans hroot'⟩
    · intro j hj
      simp only at hj ⊢
      rcases List.mem_append.mp hj with hj | hj
      · exact .inl hj
      · obtain ⟨⟨h1, _⟩, _⟩ := c3 j hj
        exact .inr (h1.trans hroot')

theorem unionStep_ok {f f' : Forest} {p : Nat × Nat} (h : unionStep f p = .ok f') :
    f.union setM p.1 p.2 = .ok f' := by
  unfold unionStep at h
  split at h
  · injection h with h; subst h; assumption
  · cases h

theorem judgeStep_ok {f f' : Forest} {p : Nat × TE} (h : judgeStep f p = .ok f') :
    f.addData setM p.1 [p.2] = .ok f' := by
  unfold judgeStep at h
  split at h
  · injection h with h; subst h; assumption
  · cases h

theorem roundTail_sep {o : Orders} (ho : OrdersOk o) {acc acc' : RoundAcc} {U : Nat → Prop}
    (hi : LoopI acc) (hs : Sep U acc.next acc.forest)
    (heqs : ∀ p ∈ acc.eqs, (U p.1 ↔ U p.2) ∧ p.1 < acc.next ∧ p.2 < acc.next)
    (hjs : ∀ j ∈ acc.judgements, j.1 < acc.next ∧ ∀ x ∈ varsTE j.2, (U x ↔ U j.1) ∧ x < acc.next)
    (hnvs : ∀ v ∈ acc.newVars, v < acc.next)
    (h : roundTail o acc = .ok acc') :
    Sep U acc'.next acc'.forest ∧ UInv acc'.forest ∧ acc'.next = acc.next := by
  unfold roundTail at h
  split at h
  · cases h
  · rename_i f3 e3
    split at h
    · cases h
    · rename_i f4 e4
      injection h with h
      subst h
      -- inserts
      have h2 : UInv ((o.vars (dedup acc.newVars)).foldl (fun f v => f.insert v) acc.forest) ∧
          Sep U acc.next ((o.vars (dedup acc.newVars)).foldl (fun f v => f.insert v) acc.forest) := by
        apply foldl_inv (fun (f : Forest) v => f.insert v) (fun f => UInv f ∧ Sep U acc.next f)
        · intro f v hv hf
          have hv' : v ∈ acc.newVars := (mem_dedup _ _).mp ((ho.1 _).mem_iff.mp hv)
          exact ⟨(uinv_insert hf.1 v).1, sep_insert hf.1.1 hf.2 (hnvs v hv')⟩
        · exact ⟨hi.1, hs⟩
      -- unions
      have h3 := (foldlM_rel unionStep (fun f => UInv f ∧ Sep U acc.next f) (fun _ _ => True) (fun _ _ => True)
        (fun _ => trivial) (fun _ _ _ _ _ => trivial) (fun _ _ _ _ _ => trivial) (o.eqs (dedup acc.eqs))
        (by
          intro f p f' hp hf hstep
          have hp' : p ∈ acc.eqs := (mem_dedup _ _).mp ((ho.2.2.1 _).mem_iff.mp hp)
          obtain ⟨f'', e, u, _, _⟩ := unionStep_spec hf.1 p
          rw [hstep] at e; injection e with e; subst e
          obtain ⟨q1, q2, q3⟩ := heqs p hp'
          exact ⟨⟨u, sep_union hf.1.1 hf.2 q2 q3 q1 (unionStep_ok hstep)⟩, trivial, trivial⟩)
        _ _ h2 e3).1
      -- judgements
      have h4 := (foldlM_rel judgeStep (fun f => UInv f ∧ Sep U acc.next f) (fun _ _ => True) (fun _ _ => True)
        (fun _ => trivial) (fun _ _ _ _ _ => trivial) (fun _ _ _ _ _ => trivial)
        (o.judgements (dedup acc.judgements))
        (by
          intro f p f' hp hf hstep
          have hp' : p ∈ acc.judgements := (mem_dedup _ _).mp ((ho.2.2.2 _).mem_iff.mp hp)
          obtain ⟨f'', e, u, _⟩ := judgeStep_spec hf.1 p (hi.2 p hp')
          rw [hstep] at e; injection e with e; subst e
          obtain ⟨q1, q2⟩ := hjs p hp'
          refine ⟨⟨u, sep_addData hf.1.1 hf.2 q1 ?_ (judgeStep_ok hstep)⟩, trivial, trivial⟩
          intro e he x hx
          simp only [List.mem_singleton] at he
          subst he
          exact q2 x hx)
        _ _ h3 e4).1
      exact ⟨h4.2, h4.1, rfl⟩

/-- **I4, first clause, one round.** A round maps a separated forest to a separated forest: no class
ever contains variables of both sides, and evidence only mentions variables of its own side.  The
side predicate is extended to the variables the round allocates (they join the side of the class
whose merge allocated them) and unchanged below the old counter.  Any permutation orders. -/
theorem round_sep {o : Orders} (ho : OrdersOk o) {f : Forest} (hu : UInv f) {U0 : Nat → Prop}
    {next counter : Nat} {acc : RoundAcc} (hs : Sep U0 next f) (hr : round o f next counter = .ok acc) :
    ∃ U, (∀ x, x < next → (U x ↔ U0 x)) ∧ Sep U acc.next acc.forest ∧ next ≤ acc.next ∧
      UInv acc.forest := by
  rw [round_eq] at hr
  cases hl : roundLoop o f next counter with
  | error e => rw [hl] at hr; cases hr
  | ok acc0 =>
    rw [hl] at hr
    simp only at hr
    unfold roundLoop at hl
    obtain ⟨u1, r1, l1, _, _⟩ := uinv_sets hu
    have sep1 : Sep U0 next (f.sets setM).1 := sep_sets hu.1 hs
    have hloop := (foldlM_rel (roundStep o) (fun a => ∃ U, LoopJ U0 next (f.sets setM).1 a U)
      (fun _ _ => True) (fun _ _ => True) (fun _ => trivial) (fun _ _ _ _ _ => trivial)
      (fun _ _ _ _ _ => trivial) (f.sets setM).2
      (by
        intro a p a' hp hI hstep
        obtain ⟨U, hJ⟩ := hI
        obtain ⟨q1, q2, q3⟩ := l1 p hp
        have hp1 : p.1 < next := sep1.memLt p.1 (u1.2.2 p.1 p.2 q2).1
        have hp2 : DS.rootOf (f.sets setM).1 p.1 = p.1 := by rw [r1]; exact q3
        obtain ⟨U', hJ', -⟩ := roundStep_sep ho hJ hp1 hp2 q1 (sep1.dat p.1 p.2 q2) hstep
        exact ⟨⟨U', hJ'⟩, trivial, trivial⟩)
      _ _
      ⟨U0, ⟨⟨u1, by simp⟩, sep1, Nat.le_refl _, fun _ _ => Iff.rfl, fun _ => rfl, by simp, by simp, by simp⟩⟩
      hl).1
    obtain ⟨U, hJ⟩ := hloop
    obtain ⟨t1, t2, t3⟩ := roundTail_sep ho hJ.loopI hJ.sep hJ.eqs hJ.js hJ.nvs hr
    exact ⟨U, hJ.agree, t1, by rw [t3]; exact hJ.le, t2⟩

/-- … and if the round allocated nothing (in particular: no packed encodings), the side predicate
is literally unchanged. -/
theorem round_sep_noalloc {o : Orders} (ho : OrdersOk o) {f : Forest} (hu : UInv f) {U0 : Nat → Prop}
    {next counter : Nat} {acc : RoundAcc} (hs : Sep U0 next f) (hr : round o f next counter = .ok acc)
    (hn : acc.next = next) : Sep U0 next acc.forest := by
  obtain ⟨U, h1, h2, _, h4⟩ := round_sep ho hu hs hr
  rw [hn] at h2
  exact h2.congr h4 (fun x hx => (h1 x hx).symm)

/-- **I4, first clause, the whole loop.** -/
theorem unifyLoop_sep {o : Orders} (ho : OrdersOk o) : ∀ (fuel : Nat) {f : Forest} (hu : UInv f)
    {U0 : Nat → Prop} {next counter rounds : Nat} {f' : Forest} {n r : Nat} (hs : Sep U0 next f)
    (hr : unifyLoop o fuel f next counter rounds = .ok (f', n, r)),
    ∃ U, (∀ x, x < next → (U x ↔ U0 x)) ∧ Sep U n f' ∧ next ≤ n ∧ UInv f' := by
  intro fuel
  induction fuel with
  | zero => intro f hu U0 next counter rounds f' n r hs hr; simp [unifyLoop] at hr
  | succ fuel ih =>
    intro f hu U0 next counter rounds f' n r hs hr
    rw [unifyLoop] at hr
    cases hround : round o f next counter with
    | error e => rw [hround] at hr; cases hr
    | ok acc =>
      rw [hround] at hr
      simp only at hr
      obtain ⟨U, h1, h2, h3, h4⟩ := round_sep ho hu hs hround
      split at hr
      · obtain ⟨U', g1, g2, g3, g4⟩ := ih h4 h2 hr
        refine ⟨U', ?_, g2, by omega, g4⟩
        intro x hx
        rw [g1 x (by omega)]
        exact h1 x hx
      · injection hr with hr
        simp only [Prod.mk.injEq] at hr
        obtain ⟨rfl, rfl, rfl⟩ := hr
        exact ⟨U, h1, h2, h3, h4⟩

end roundSep

/-! ### I4, part 4b: a round does not touch the resolved classes of the other side

If every class on the `U0`-side already holds at most one piece of evidence (that side's unification
has stopped), a round of the joint forest — which may still make progress on the other side —
leaves the classes and the evidence of the `U0`-side exactly as they are. -/

section roundFrame
open SLE.Containers SLE.Unify

/-- a loop step on a class with at most one piece of evidence changes nothing but the counters -/
theorem roundStep_single_noop {o : Orders} (ho : OrdersOk o) {acc acc' : RoundAcc} {p : Nat × List TE}
    (hi : DS.Inv acc.forest) (hlen : p.2.length ≤ 1)
    (hdata : acc.forest.data.get (DS.rootOf acc.forest p.1) = some p.2)
    (h : roundStep o acc p = .ok acc') :
    acc'.eqs = acc.eqs ∧ acc'.judgements = acc.judgements ∧ acc'.newVars = acc.newVars ∧
      acc'.next = acc.next ∧ acc'.progress = acc.progress ∧
      ∀ k, acc'.forest.data.get k = acc.forest.data.get k := by
  rcases roundStep_cases h with ⟨_, rfl⟩ | ⟨hne, cur, nx, eqs, js, nvs, f', h1, h2, rfl⟩
  · exact ⟨rfl, rfl, rfl, rfl, rfl, fun _ => rfl⟩
  · have hperm := ho.2.1 p.2
    have hlen' : (o.tes p.2).length = 1 := by
      have h3 := hperm.length_eq
      have h4 : p.2.length ≠ 0 := fun h => hne (List.eq_nil_of_length_eq_zero h)
      omega
    obtain ⟨e, he⟩ := List.length_eq_one_iff.mp hlen'
    have hp2 : p.2 = [e] := by
      rw [he] at hperm
      exact List.perm_singleton.mp hperm.symm
    rw [he, foldClass_single] at h1
    injection h1 with h1
    simp only [Prod.mk.injEq] at h1
    obtain ⟨rfl, rfl, rfl, rfl, rfl⟩ := h1
    obtain ⟨f'', e2, _, _, i3, _⟩ := DS.setData_spec acc.forest p.1 [e] hi
    rw [h2] at e2; injection e2 with e2; subst e2
    refine ⟨by simp, by simp, by simp, rfl, by simp [he], ?_⟩
    intro k
    simp only
    rw [i3]
    split
    · rename_i hk; rw [hk, hdata, hp2]
    · rfl

/-- frame invariant of the loop: nothing recorded so far concerns the `U`-side, whose data cells
are still those of the forest the round started with -/
structure LoopF (U0 : Nat → Prop) (next0 : Nat) (f1 : Forest) (acc : RoundAcc) (U : Nat → Prop) : Prop where
  eqsB : ∀ p ∈ acc.eqs, ¬ U p.1 ∧ ¬ U p.2
  jsB : ∀ j ∈ acc.judgements, ¬ U j.1
  dataA : ∀ k, U0 k → k < next0 → acc.forest.data.get k = f1.data.get k
  freshB : ∀ x, next0 ≤ x → x < acc.next → ¬ U x

theorem roundStep_frame {o : Orders} (ho : OrdersOk o) {U0 : Nat → Prop} {next0 : Nat} {f1 : Forest}
    {acc acc' : RoundAcc} {U : Nat → Prop} {p : Nat × List TE}
    (hJ : LoopJ U0 next0 f1 acc U) (hF : LoopF U0 next0 f1 acc U) (hp1 : p.1 < next0)
    (hp2 : DS.rootOf f1 p.1 = p.1) (hp3 : ∀ e ∈ p.2, NoEq e = true)
    (hp4 : ∀ e ∈ p.2, ∀ x ∈ varsTE e, (U0 x ↔ U0 p.1) ∧ x < next0)
    (hp5 : f1.data.get p.1 = some p.2) (hp6 : U0 p.1 → p.2.length ≤ 1)
    (h : roundStep o acc p = .ok acc') :
    ∃ U', LoopJ U0 next0 f1 acc' U' ∧ LoopF U0 next0 f1 acc' U' := by
  obtain ⟨U', hJ', hlt, he, hj, hfr⟩ := roundStep_sep ho hJ hp1 hp2 hp3 hp4 h
  refine ⟨U', hJ', ?_⟩
  have hroot : DS.rootOf acc.forest p.1 = p.1 := by rw [hJ.roots, hp2]
  have oldE : ∀ q ∈ acc.eqs, ¬ U' q.1 ∧ ¬ U' q.2 := by
    intro q hq
    obtain ⟨_, h2, h3⟩ := hJ.eqs q hq
    obtain ⟨g1, g2⟩ := hF.eqsB q hq
    rw [hlt _ h2, hlt _ h3]
    exact ⟨g1, g2⟩
  have oldJ : ∀ j ∈ acc.judgements, ¬ U' j.1 := by
    intro j hj'
    rw [hlt _ (hJ.js j hj').1]
    exact hF.jsB j hj'
  by_cases hU : U0 p.1
  · -- a resolved class of the `U0`-side: nothing happens
    have hdata : acc.forest.data.get (DS.rootOf acc.forest p.1) = some p.2 := by
      rw [hroot, hF.dataA p.1 hU hp1, hp5]
    obtain ⟨n1, n2, _, n4, _, n6⟩ := roundStep_single_noop ho hJ.loopI.1.1 (hp6 hU) hdata h
    refine ⟨?_, ?_, ?_, ?_⟩
    · intro q hq; rw [n1] at hq; exact oldE q hq
    · intro j hj'; rw [n2] at hj'; exact oldJ j hj'
    · intro k hk hk'; rw [n6]; exact hF.dataA k hk hk'
    · intro x h1 h2
      rw [n4] at h2
      rw [hlt x h2]
      exact hF.freshB x h1 h2
  · -- a class of the other side
    have hUp : ¬ U p.1 := fun hc => hU ((hJ.agree _ hp1).mp hc)
    refine ⟨?_, ?_, ?_, ?_⟩
    · intro q hq
      rcases he q hq with h1 | ⟨h1, h2⟩
      · exact oldE q h1
      · exact ⟨fun hc => hUp (h1.mp hc), fun hc => hUp (h2.mp hc)⟩
    · intro j hj'
      rcases hj j hj' with h1 | h1
      · exact oldJ j h1
      · exact fun hc => hUp (h1.mp hc)
    · intro k hk hk'
      rw [← hF.dataA k hk hk']
      rcases roundStep_cases h with ⟨_, rfl⟩ | ⟨hne, cur, nx, eqs, js, nvs, f', h1, h2, rfl⟩
      · rfl
      · obtain ⟨f'', e2, _, _, i3, _⟩ := DS.setData_spec acc.forest p.1 [cur] hJ.loopI.1.1
        rw [h2] at e2; injection e2 with e2; subst e2
        simp only
        rw [i3, hroot, if_neg]
        rintro rfl
        exact hU hk
    · intro x h1 h2
      by_cases hx : x < acc.next
      · rw [hlt x hx]; exact hF.freshB x h1 hx
      · exact fun hc => hUp ((hfr x (by omega) h2).mp hc)

/-- `f` agrees with `f0` on the `U`-side: same roots, same data cells -/
def FrameOK (U : Nat → Prop) (f0 f : Forest) : Prop :=
  (∀ a, U a → DS.rootOf f a = DS.rootOf f0 a) ∧ (∀ k, U k → f.data.get k = f0.data.get k)

theorem frame_insert {U : Nat → Prop} {f0 f : Forest} (hi : DS.Inv f) (h : FrameOK U f0 f) (v : Nat) :
    FrameOK U f0 (f.insert v) := by
  obtain ⟨_, i2, _, _, i5⟩ := DS.insert_spec f v hi
  exact ⟨fun a ha => by rw [i2]; exact h.1 a ha, fun k hk => by rw [i5]; exact h.2 k hk⟩

theorem frame_union {U : Nat → Prop} {N : Nat} {f0 f f' : Forest} (hi : DS.Inv f) (hs : Sep U N f)
    (h : FrameOK U f0 f) {a b : Nat} (ha : ¬ U a) (hb : ¬ U b) (he : f.union setM a b = .ok f') :
    FrameOK U f0 f' := by
  obtain ⟨f'', e, _, _, i3, i4⟩ := DS.union_spec setM f a b hi
  rw [e] at he; injection he with he; subst he
  by_cases hr : DS.rootOf f a = DS.rootOf f b
  · obtain ⟨j1, j2⟩ := i3 hr
    exact ⟨fun w hw => by rw [j1]; exact h.1 w hw, fun k hk => by rw [j2]; exact h.2 k hk⟩
  · obtain ⟨j1, j2⟩ := i4 hr
    have hra : ¬ U (DS.rootOf f a) := fun hc => ha ((hs.cls a).mp hc)
    have hrb : ¬ U (DS.rootOf f b) := fun hc => hb ((hs.cls b).mp hc)
    refine ⟨?_, ?_⟩
    · intro w hw
      rw [j1, if_neg]
      · exact h.1 w hw
      · intro hc
        exact hrb (hc ▸ (hs.cls w).mpr hw)
    · intro k hk
      rw [j2, if_neg (by rintro rfl; exact hra hk), if_neg (by rintro rfl; exact hrb hk)]
      exact h.2 k hk

theorem frame_addData {U : Nat → Prop} {N : Nat} {f0 f f' : Forest} (hi : DS.Inv f) (hs : Sep U N f)
    (h : FrameOK U f0 f) {v : Nat} {d : List TE} (hv : ¬ U v) (he : f.addData setM v d = .ok f') :
    FrameOK U f0 f' := by
  obtain ⟨f'', e, _, i2, i3, _⟩ := DS.addData_spec setM f v d hi
  rw [e] at he; injection he with he; subst he
  have hrv : ¬ U (DS.rootOf f v) := fun hc => hv ((hs.cls v).mp hc)
  refine ⟨fun w hw => by rw [i2]; exact h.1 w hw, ?_⟩
  intro k hk
  rw [i3, if_neg (by rintro rfl; exact hrv hk)]
  exact h.2 k hk

theorem roundTail_frame {o : Orders} (ho : OrdersOk o) {acc acc' : RoundAcc} {U : Nat → Prop}
    (hi : LoopI acc) (hs : Sep U acc.next acc.forest)
    (heqs : ∀ p ∈ acc.eqs, (U p.1 ↔ U p.2) ∧ p.1 < acc.next ∧ p.2 < acc.next)
    (hjs : ∀ j ∈ acc.judgements, j.1 < acc.next ∧ ∀ x ∈ varsTE j.2, (U x ↔ U j.1) ∧ x < acc.next)
    (hnvs : ∀ v ∈ acc.newVars, v < acc.next)
    (heB : ∀ p ∈ acc.eqs, ¬ U p.1 ∧ ¬ U p.2) (hjB : ∀ j ∈ acc.judgements, ¬ U j.1)
    (h : roundTail o acc = .ok acc') : FrameOK U acc.forest acc'.forest := by
  unfold roundTail at h
  split at h
  · cases h
  · rename_i f3 e3
    split at h
    · cases h
    · rename_i f4 e4
      injection h with h
      subst h
      have h2 : (UInv ((o.vars (dedup acc.newVars)).foldl (fun f v => f.insert v) acc.forest) ∧
          Sep U acc.next ((o.vars (dedup acc.newVars)).foldl (fun f v => f.insert v) acc.forest)) ∧
          FrameOK U acc.forest ((o.vars (dedup acc.newVars)).foldl (fun f v => f.insert v) acc.forest) := by
        apply foldl_inv (fun (f : Forest) v => f.insert v)
          (fun f => (UInv f ∧ Sep U acc.next f) ∧ FrameOK U acc.forest f)
        · intro f v hv hf
          have hv' : v ∈ acc.newVars := (mem_dedup _ _).mp ((ho.1 _).mem_iff.mp hv)
          exact ⟨⟨(uinv_insert hf.1.1 v).1, sep_insert hf.1.1.1 hf.1.2 (hnvs v hv')⟩,
            frame_insert hf.1.1.1 hf.2 v⟩
        · exact ⟨⟨hi.1, hs⟩, fun _ _ => rfl, fun _ _ => rfl⟩
      have h3 := (foldlM_rel unionStep (fun f => (UInv f ∧ Sep U acc.next f) ∧ FrameOK U acc.forest f)
        (fun _ _ => True) (fun _ _ => True)
        (fun _ => trivial) (fun _ _ _ _ _ => trivial) (fun _ _ _ _ _ => trivial) (o.eqs (dedup acc.eqs))
        (by
          intro f p f' hp hf hstep
          have hp' : p ∈ acc.eqs := (mem_dedup _ _).mp ((ho.2.2.1 _).mem_iff.mp hp)
          obtain ⟨f'', e, u, _, _⟩ := unionStep_spec hf.1.1 p
          rw [hstep] at e; injection e with e; subst e
          obtain ⟨q1, q2, q3⟩ := heqs p hp'
          obtain ⟨b1, b2⟩ := heB p hp'
          exact ⟨⟨⟨u, sep_union hf.1.1.1 hf.1.2 q2 q3 q1 (unionStep_ok hstep)⟩,
            frame_union hf.1.1.1 hf.1.2 hf.2 b1 b2 (unionStep_ok hstep)⟩, trivial, trivial⟩)
        _ _ h2 e3).1
      have h4 := (foldlM_rel judgeStep (fun f => (UInv f ∧ Sep U acc.next f) ∧ FrameOK U acc.forest f)
        (fun _ _ => True) (fun _ _ => True)
        (fun _ => trivial) (fun _ _ _ _ _ => trivial) (fun _ _ _ _ _ => trivial)
        (o.judgements (dedup acc.judgements))
        (by
          intro f p f' hp hf hstep
          have hp' : p ∈ acc.judgements := (mem_dedup _ _).mp ((ho.2.2.2 _).mem_iff.mp hp)
          obtain ⟨f'', e, u, _⟩ := judgeStep_spec hf.1.1 p (hi.2 p hp')
          rw [hstep] at e; injection e with e; subst e
          obtain ⟨q1, q2⟩ := hjs p hp'
          refine ⟨⟨⟨u, sep_addData hf.1.1.1 hf.1.2 q1 ?_ (judgeStep_ok hstep)⟩,
            frame_addData hf.1.1.1 hf.1.2 hf.2 (hjB p hp') (judgeStep_ok hstep)⟩, trivial, trivial⟩
          intro e he x hx
          simp only [List.mem_singleton] at he
          subst he
          exact q2 x hx)
        _ _ h3 e4).1
      exact h4.2

/-- **I4, "afterwards rounds are idempotent on `A`-classes".**  In a separated forest in which every
class of the `U0`-side holds at most one piece of evidence, a round leaves the `U0`-side alone: same
classes (roots), same evidence — whatever the other side does in that round (merges, packed
allocation, new equalities); and the variables allocated in the round all belong to the other
side.  (Combined with `round_sep`: the new forest is separated by the extended predicate `U`.) -/
theorem round_sep_frame {o : Orders} (ho : OrdersOk o) {f : Forest} (hu : UInv f) {U0 : Nat → Prop}
    {next counter : Nat} {acc : RoundAcc} (hs : Sep U0 next f)
    (hA : ∀ k d, U0 k → f.data.get k = some d → d.length ≤ 1)
    (hr : round o f next counter = .ok acc) :
    ∃ U, (∀ x, x < next → (U x ↔ U0 x)) ∧ Sep U acc.next acc.forest ∧ next ≤ acc.next ∧
      UInv acc.forest ∧ (∀ x, next ≤ x → x < acc.next → ¬ U x) ∧
      (∀ a, U0 a → a < next → DS.rootOf acc.forest a = DS.rootOf f a) ∧
      (∀ k, U0 k → k < next → DS.dataAt setM acc.forest k = DS.dataAt setM f k) := by
  rw [round_eq] at hr
  cases hl : roundLoop o f next counter with
  | error e => rw [hl] at hr; cases hr
  | ok acc0 =>
    rw [hl] at hr
    simp only at hr
    unfold roundLoop at hl
    obtain ⟨u1, r1, l1, _, _⟩ := uinv_sets hu
    have sep1 : Sep U0 next (f.sets setM).1 := sep_sets hu.1 hs
    obtain ⟨f1, l, e, _, i2, _, _, _, i6, i7⟩ := DS.sets_spec setM f hu.1
    have hf1 : (f.sets setM).1 = f1 := by rw [e]
    have hl' : (f.sets setM).2 = l := by rw [e]
    have hloop := (foldlM_rel (roundStep o)
      (fun a => ∃ U, LoopJ U0 next (f.sets setM).1 a U ∧ LoopF U0 next (f.sets setM).1 a U)
      (fun _ _ => True) (fun _ _ => True) (fun _ => trivial) (fun _ _ _ _ _ => trivial)
      (fun _ _ _ _ _ => trivial) (f.sets setM).2
      (by
        intro a p a' hp hI hstep
        obtain ⟨U, hJ, hF⟩ := hI
        obtain ⟨q1, q2, q3⟩ := l1 p hp
        have hp1 : p.1 < next := sep1.memLt p.1 (u1.2.2 p.1 p.2 q2).1
        have hp2 : DS.rootOf (f.sets setM).1 p.1 = p.1 := by rw [r1]; exact q3
        have hp6 : U0 p.1 → p.2.length ≤ 1 := by
          intro hU
          rw [hl'] at hp
          obtain ⟨_, hd⟩ := (i6 p.1 p.2).mp hp
          rw [hd]
          cases hg : f.data.get p.1 with
          | none => simp [setM]
          | some d0 => simpa using hA p.1 d0 hU hg
        exact ⟨roundStep_frame ho hJ hF hp1 hp2 q1 (sep1.dat p.1 p.2 q2) q2 hp6 hstep, trivial, trivial⟩)
      _ _
      ⟨U0, ⟨⟨u1, by simp⟩, sep1, Nat.le_refl _, fun _ _ => Iff.rfl, fun _ => rfl, by simp, by simp, by simp⟩,
        ⟨by simp, by simp, fun _ _ _ => rfl, fun x h1 h2 => absurd h2 (by simp only; omega)⟩⟩
      hl).1
    obtain ⟨U, hJ, hF⟩ := hloop
    obtain ⟨t1, t2⟩ := roundTail_frame ho hJ.loopI hJ.sep hJ.eqs hJ.js hJ.nvs hF.eqsB hF.jsB hr
    obtain ⟨s1, s2, s3⟩ := roundTail_sep ho hJ.loopI hJ.sep hJ.eqs hJ.js hJ.nvs hr
    refine ⟨U, hJ.agree, s1, by rw [s3]; exact hJ.le, s2, by rw [s3]; exact hF.freshB, ?_, ?_⟩
    · intro a ha ha'
      rw [t1 a ((hJ.agree a ha').mpr ha), hJ.roots, r1]
    · intro k hk hk'
      unfold DS.dataAt
      rw [t2 k ((hJ.agree k hk').mpr hk), hF.dataA k hk hk', hf1, i7]
      split
      · cases f.data.get k <;> rfl
      · rfl

theorem round_frame {o : Orders} (ho : OrdersOk o) {f : Forest} (hu : UInv f) {U0 : Nat → Prop}
    {next counter : Nat} {acc : RoundAcc} (hs : Sep U0 next f)
    (hA : ∀ k d, U0 k → f.data.get k = some d → d.length ≤ 1)
    (hr : round o f next counter = .ok acc) :
    (∀ a, U0 a → a < next → DS.rootOf acc.forest a = DS.rootOf f a) ∧
      (∀ k, U0 k → k < next → DS.dataAt setM acc.forest k = DS.dataAt setM f k) := by
  obtain ⟨_, _, _, _, _, _, h1, h2⟩ := round_sep_frame ho hu hs hA hr
  exact ⟨h1, h2⟩

/-- **… for all remaining rounds.**  Once the `U0`-side is resolved (one piece of evidence per class),
the final forest of the unification loop has, on the `U0`-side, exactly the classes and evidence it
had at that point: the other side's continuing unification never reaches it. -/
theorem unifyLoop_frame {o : Orders} (ho : OrdersOk o) : ∀ (fuel : Nat) {f : Forest} (hu : UInv f)
    {U0 : Nat → Prop} {next counter rounds : Nat} {f' : Forest} {n r : Nat} (hs : Sep U0 next f)
    (hA : ∀ k d, U0 k → f.data.get k = some d → d.length ≤ 1)
    (hr : unifyLoop o fuel f next counter rounds = .ok (f', n, r)),
    (∀ a, U0 a → a < next → DS.rootOf f' a = DS.rootOf f a) ∧
      (∀ k, U0 k → k < next → DS.dataAt setM f' k = DS.dataAt setM f k) := by
  intro fuel
  induction fuel with
  | zero => intro f hu U0 next counter rounds f' n r hs hA hr; simp [unifyLoop] at hr
  | succ fuel ih =>
    intro f hu U0 next counter rounds f' n r hs hA hr
    rw [unifyLoop] at hr
    cases hround : round o f next counter with
    | error e => rw [hround] at hr; cases hr
    | ok acc =>
      rw [hround] at hr
      simp only at hr
      obtain ⟨U, h1, h2, h3, h4, h5, h6, h7⟩ := round_sep_frame ho hu hs hA hround
      split at hr
      · -- the `U`-side of the new forest is still resolved
        have hA' : ∀ k d, U k → acc.forest.data.get k = some d → d.length ≤ 1 := by
          intro k d hk hd
          have hkN : k < acc.next := h2.memLt k (h4.2.2 k d hd).1
          by_cases hkn : k < next
          · have hk0 := (h1 k hkn).mp hk
            have := h7 k hk0 hkn
            unfold DS.dataAt at this
            rw [hd] at this
            simp only [Option.getD_some] at this
            rw [this]
            cases hg : f.data.get k with
            | none => simp [setM]
            | some d0 => simpa using hA k d0 hk0 hg
          · exact absurd hk (h5 k (by omega) hkN)
        obtain ⟨g1, g2⟩ := ih h4 h2 hA' hr
        refine ⟨?_, ?_⟩
        · intro a ha ha'
          rw [g1 a ((h1 a ha').mpr ha) (by omega), h6 a ha ha']
        · intro k hk hk'
          rw [g2 k ((h1 k hk').mpr hk) (by omega), h7 k hk hk']
      · injection hr with hr
        simp only [Prod.mk.injEq] at hr
        obtain ⟨rfl, rfl, rfl⟩ := hr
        exact ⟨h6, h7⟩

/-- separation is symmetric in the two sides -/
theorem Sep.compl {U : Nat → Prop} {N : Nat} {f : Forest} (h : Sep U N f) : Sep (fun x => ¬ U x) N f :=
  ⟨fun a => not_congr (h.cls a),
   fun k d hk e he x hx => ⟨not_congr (h.dat k d hk e he x hx).1, (h.dat k d hk e he x hx).2⟩, h.memLt⟩

end roundFrame

/-! ### I4, part 5: the initial joint forest is separated, hence every later forest -/

section jointSep
open SLE.Containers SLE.Unify
open SLE.OrderFacts (Eqv sameClass evidence)

theorem varsTE_mapTE (ρ : Nat → Nat) (e : TE) : varsTE (mapTE ρ e) = (varsTE e).map ρ := by
  cases e <;> simp [varsTE, mapTE, List.map_map, Function.comp_def]

theorem initStep_mem {N : Nat} {f f' : Forest} (hu : UInv f) (hm : ∀ w, f.mem w = true → w < N) {v : Nat}
    (hv : v < N) {e : TE} (he : ∀ x ∈ varsTE e, x < N) (h : initStep v f e = .ok f') :
    UInv f' ∧ ∀ w, f'.mem w = true → w < N := by
  obtain ⟨f'', e1, u, _, _⟩ := initStep_spec hu v e
  rw [h] at e1; injection e1 with e1; subst e1
  refine ⟨u, ?_⟩
  have hadd : ∀ e : TE, f.addData setM v [e] = .ok f' → ∀ w, f'.mem w = true → w < N := by
    intro e0 h0 w hw
    obtain ⟨f'', e2, _, _, _, i4⟩ := DS.addData_spec setM f v [e0] hu.1
    rw [h0] at e2; injection e2 with e2; subst e2
    rw [i4] at hw
    simp only [Bool.or_eq_true, decide_eq_true_eq] at hw
    rcases hw with hw | rfl
    · exact hm w hw
    · exact hv
  cases e with
  | equal id =>
    simp only [initStep] at h
    split at h
    · rename_i f2 h0
      injection h with h; subst h
      intro w hw
      obtain ⟨f'', e2, _, i2, _, _⟩ := DS.union_spec setM f v id hu.1
      rw [h0] at e2; injection e2 with e2; subst e2
      rw [i2] at hw
      simp only [Bool.or_eq_true, decide_eq_true_eq] at hw
      rcases hw with (hw | rfl) | rfl
      · exact hm w hw
      · exact hv
      · exact he _ (by simp [varsTE])
    · cases h
  | _ =>
    simp only [initStep] at h
    split at h
    · rename_i f2 h0
      injection h with h; subst h
      exact hadd _ h0
    · cases h

theorem initForest_mem {o : Orders} (ho : OrdersOk o) {N : Nat} {vars : List Nat} {infs : Nat → List TE}
    {f : Forest} (hv : ∀ v ∈ vars, v < N) (hi : ∀ v ∈ vars, ∀ e ∈ infs v, ∀ x ∈ varsTE e, x < N)
    (h : initForest o vars infs = .ok f) : ∀ w, f.mem w = true → w < N := by
  rw [initForest_eq] at h
  have h0 : UInv ((o.vars vars).foldl (fun (f : Forest) v => f.insert v) {}) ∧
      ∀ w, ((o.vars vars).foldl (fun (f : Forest) v => f.insert v) {}).mem w = true → w < N := by
    apply foldl_inv (fun (f : Forest) v => f.insert v) (fun f => UInv f ∧ ∀ w, f.mem w = true → w < N)
    · intro f v hv' hf
      have hvN := hv v ((ho.1 _).mem_iff.mp hv')
      refine ⟨(uinv_insert hf.1 v).1, ?_⟩
      intro w hw
      rw [(DS.insert_spec f v hf.1.1).2.2.2.1] at hw
      simp only [Bool.or_eq_true, decide_eq_true_eq] at hw
      rcases hw with hw | rfl
      · exact hf.2 w hw
      · exact hvN
    · refine ⟨uinv_empty, ?_⟩
      intro w hw
      have : ({} : Forest).reps.get w = none := DS.get_empty w
      simp [DS.mem, this] at hw
  exact ((foldlM_rel (fun (f : Forest) v => (o.tes (infs v)).foldlM (initStep v) f)
    (fun f => UInv f ∧ ∀ w, f.mem w = true → w < N) (fun _ _ => True) (fun _ _ => True)
    (fun _ => trivial) (fun _ _ _ _ _ => trivial) (fun _ _ _ _ _ => trivial) (o.vars vars)
    (by
      intro f v f' hv' hf hstep
      have hvm := (ho.1 _).mem_iff.mp hv'
      refine ⟨?_, trivial, trivial⟩
      exact (foldlM_rel (initStep v) (fun f => UInv f ∧ ∀ w, f.mem w = true → w < N) (fun _ _ => True)
        (fun _ _ => True) (fun _ => trivial) (fun _ _ _ _ _ => trivial) (fun _ _ _ _ _ => trivial)
        (o.tes (infs v))
        (by
          intro g e g' he hg hs
          have hem := (ho.2.1 _).mem_iff.mp he
          exact ⟨initStep_mem hg.1 hg.2 (hv v hvm) (hi v hvm e hem) hs, trivial, trivial⟩)
        _ _ hf hstep).1)
    _ _ h0 h).1).2

/-- being an `A`-variable of the joint run -/
def InA (vs ws : List SV) (x : Nat) : Prop := ∃ a, a < nvarsOf vs ∧ x = rA vs ws a

theorem not_inA_rB (vs ws : List SV) (b : Nat) : ¬ InA vs ws (rB vs ws b) := by
  rintro ⟨a, ha, e⟩
  exact rA_ne_rB vs ws a b ha e.symm

theorem rA_lt (vs ws : List SV) {a : Nat} (ha : a < nvarsOf vs) : rA vs ws a < nvarsOf vs + nvarsOf ws := by
  have hB := (inferAll_good ws).1
  unfold nvarsOf at ha ⊢
  unfold rA rhoA shiftVar
  split <;> omega

theorem rB_lt (vs ws : List SV) {b : Nat} (hb : b < nvarsOf ws) : rB vs ws b < nvarsOf vs + nvarsOf ws := by
  have hA := (inferAll_good vs).1
  have hB := (inferAll_good ws).1
  unfold nvarsOf at hb ⊢
  unfold rB rhoB shiftVar nvarsOf
  split <;> omega

/-- **I3, as a separation invariant**: the initial forest of the joint run is separated by `InA`. -/
theorem initForest_sep {o : Orders} (ho : OrdersOk o) (vs ws : List SV) (hd : Disjoint vs ws) {f : Forest}
    (hf : initForest o (List.range (nvarsOf (vs ++ ws))) (infOf (vs ++ ws)) = .ok f) :
    UInv f ∧ Sep (InA vs ws) (nvarsOf (vs ++ ws)) f := by
  have hu : UInv f := initForest_inv ho hf
  obtain ⟨f', ef, rf⟩ := OrderFacts.initForest_rep ho (List.range (nvarsOf (vs ++ ws))) (infOf (vs ++ ws))
  rw [hf] at ef; injection ef with ef; subst ef
  obtain ⟨fA, efA, rfA⟩ := OrderFacts.initForest_rep ho (List.range (nvarsOf vs)) (infOf vs)
  have hP : ∀ a x, (a ∈ List.range (nvarsOf (vs ++ ws)) ∧ x ∈ infOf (vs ++ ws) a) ↔
      (Q ((judgementsOf vs).map (mapJ (rA vs ws))) a x ∨ Q ((judgementsOf ws).map (mapJ (rB vs ws))) a x) := by
    intro a x
    rw [P_iff_Q, judgementsOf_append vs ws hd, Q_append]
  have hA := embed_rep (ρ1 := rA vs ws) (ρ2 := rB vs ws) (rA_injective vs ws) (judgementsOf_bound vs)
    (fun a ha y _ => rA_ne_rB vs ws a y ha) rf rfA hP (P_iff_Q vs)
  have hJ := judgementsOf_bound (vs ++ ws)
  -- `InA` is constant on classes
  have hcls : ∀ x y, sameClass f x y → InA vs ws x → InA vs ws y := by
    rintro x y hxy ⟨a, ha, rfl⟩
    obtain ⟨b, hb, e, _⟩ := hA.1 a ha y hxy
    exact ⟨b, hb, e⟩
  refine ⟨hu, ⟨?_, ?_, ?_⟩⟩
  · intro a
    have h1 : sameClass f (DS.rootOf f a) a := DS.rootOf_idem hu.1 a
    exact ⟨hcls _ _ h1, hcls _ _ h1.symm⟩
  · intro k d hk e he x hx
    have hroot := (hu.2.2 k d hk).2
    have hev : e ∈ evidence f k := by
      unfold evidence DS.dataAt
      rw [hroot, hk]; exact he
    obtain ⟨w, hw, hn, hwk⟩ := (rf.data k e).mp hev
    have hwk' : sameClass f w k := (rf.part w k).mpr hwk
    have hq := (P_iff_Q (vs ++ ws) w e).mp hw
    have hmemJ : (w, e) ∈ judgementsOf (vs ++ ws) := by
      rcases hq with ⟨h1, _⟩ | ⟨id, rfl, _, _⟩
      · exact h1
      · cases hn
    refine ⟨?_, (hJ _ hmemJ).2 x hx⟩
    rw [judgementsOf_append vs ws hd] at hmemJ
    rcases List.mem_append.mp hmemJ with h1 | h1
    · simp only [List.mem_map, mapJ, Prod.mk.injEq] at h1
      obtain ⟨⟨w', e'⟩, hp, hw', he'⟩ := h1
      simp only at hw' he'
      subst hw' he'
      have hb := judgementsOf_bound vs _ hp
      rw [varsTE_mapTE] at hx
      obtain ⟨x', hx', rfl⟩ := List.mem_map.mp hx
      have hUx : InA vs ws (rA vs ws x') := ⟨x', hb.2 x' hx', rfl⟩
      have hUw : InA vs ws (rA vs ws w') := ⟨w', hb.1, rfl⟩
      exact ⟨fun _ => hcls _ _ hwk' hUw, fun _ => hUx⟩
    · simp only [List.mem_map, mapJ, Prod.mk.injEq] at h1
      obtain ⟨⟨w', e'⟩, hp, hw', he'⟩ := h1
      simp only at hw' he'
      subst hw' he'
      rw [varsTE_mapTE] at hx
      obtain ⟨x', hx', rfl⟩ := List.mem_map.mp hx
      constructor
      · intro h; exact absurd h (not_inA_rB vs ws x')
      · intro h; exact absurd (hcls _ _ hwk'.symm h) (not_inA_rB vs ws w')
  · apply initForest_mem ho (N := nvarsOf (vs ++ ws)) _ _ hf
    · intro v hv; exact List.mem_range.mp hv
    · intro v hv e he x hx
      have hq := (P_iff_Q (vs ++ ws) v e).mp ⟨hv, he⟩
      rcases hq with ⟨h1, _⟩ | ⟨id, rfl, h1, _⟩
      · exact (hJ _ h1).2 x hx
      · simp only [varsTE, List.mem_singleton] at hx
        subst hx
        exact (hJ _ h1).1

/-- **I4 (first clause), for the whole unification of the joint program.**  Whatever the iteration
orders and however many rounds run (packed encodings and allocation included): the final forest is
separated by a predicate `U` that coincides with "is an `A`-variable" on the variables of the
rules.  So no class ever contains an `A`-variable and a `B`-variable, and the evidence (hence the
resolved type) of an `A`-class mentions only `A`-variables and variables allocated by merges of
`A`-classes — and symmetrically for `B`. -/
theorem I4_unify_separated {o : Orders} (ho : OrdersOk o) (vs ws : List SV) (hd : Disjoint vs ws)
    {fuel : Nat} {f : Forest} {n r : Nat}
    (h : unify o fuel (nvarsOf (vs ++ ws)) (infOf (vs ++ ws)) = .ok (f, n, r)) :
    ∃ U, (∀ x, x < nvarsOf (vs ++ ws) → (U x ↔ InA vs ws x)) ∧ Sep U n f ∧ nvarsOf (vs ++ ws) ≤ n ∧
      UInv f := by
  unfold unify at h
  split at h
  · cases h
  · rename_i f0 hf0
    obtain ⟨hu, hs⟩ := initForest_sep ho vs ws hd hf0
    exact unifyLoop_sep ho fuel hu hs h

/-- … in particular: after unification an `A`-variable and a `B`-variable are never in the same
class. -/
theorem I4_no_crosstalk {o : Orders} (ho : OrdersOk o) (vs ws : List SV) (hd : Disjoint vs ws)
    {fuel : Nat} {f : Forest} {n r : Nat}
    (h : unify o fuel (nvarsOf (vs ++ ws)) (infOf (vs ++ ws)) = .ok (f, n, r))
    {a b : Nat} (ha : a < nvarsOf vs) (hb : b < nvarsOf ws) :
    DS.rootOf f (rA vs ws a) ≠ DS.rootOf f (rB vs ws b) := by
  obtain ⟨U, h1, h2, _, _⟩ := I4_unify_separated ho vs ws hd h
  have hN := nvarsOf_append vs ws hd
  intro heq
  have ua : U (rA vs ws a) := (h1 _ (by rw [hN]; exact rA_lt vs ws ha)).mpr ⟨a, ha, rfl⟩
  have ub : ¬ U (rB vs ws b) := fun hU =>
    not_inA_rB vs ws b ((h1 _ (by rw [hN]; exact rB_lt vs ws hb)).mp hU)
  exact ub ((h2.cls _).mp (heq ▸ (h2.cls _).mpr ua))

end jointSep

/-! ### glue for the layout loop -/

section glue
open SLE.Rename (analyseLifted)

theorem isConstSlot_mapVar (ρ : Nat → Nat) (t : TV) : isConstSlot (t.mapVar ρ) = isConstSlot t := by
  unfold isConstSlot
  split
  · rename_i heq
    simp only [mapVar_eq_node, mapVarList_eq_cons, mapVarList_eq_nil] at heq
    obtain ⟨ks0, tv0, rfl, -, c, cs, rfl, ⟨ks1, tv1, rfl, -, -⟩, rfl⟩ := heq
    rfl
  · rename_i hne
    split
    · exfalso
      rename_i sa w r ks tv tv'
      exact hne sa w r (TV.mapVarList ρ ks) (ρ tv) (ρ tv') (by simp [TV.mapVar, TV.mapVarList])
    · rfl

/-- the layout loop over a concatenation is the concatenation of the layout loops -/
theorem layoutEntries_append (typeOf : Nat → Except RErr TE) (fuel : Nat) (l1 l2 : List TV) :
    layoutEntries typeOf fuel (l1 ++ l2)
      = (match layoutEntries typeOf fuel l1 with
         | .error e => .error e
         | .ok r1 =>
           match layoutEntries typeOf fuel l2 with
           | .error e => .error e
           | .ok r2 => .ok (r1 ++ r2)) := by
  induction l1 with
  | nil =>
    simp only [List.nil_append, layoutEntries]
    cases layoutEntries typeOf fuel l2 <;> simp
  | cons v vs ih =>
    simp only [List.cons_append, layoutEntries]
    cases isConstSlot v with
    | none => exact ih
    | some w =>
      simp only
      cases abiTypeFor typeOf fuel v.tv [] false with
      | error e => rfl
      | ok p =>
        obtain ⟨av, sn⟩ := p
        simp only [ih]
        cases layoutEntries typeOf fuel vs with
        | error e => rfl
        | ok r1 =>
          cases layoutEntries typeOf fuel l2 with
          | error e => rfl
          | ok r2 => simp

/-- the layout loop of the joint program visits `A`'s registered values (unchanged) and then `B`'s
registered values with every type variable shifted by `(registerAll vs).next` -/
theorem layoutEntries_joint (typeOf : Nat → Except RErr TE) (fuel : Nat) (vs ws : List SV)
    (hd : Disjoint vs ws) :
    layoutEntries typeOf fuel (registerAll (vs ++ ws)).values
      = (match layoutEntries typeOf fuel (registerAll vs).values with
         | .error e => .error e
         | .ok r1 =>
           match layoutEntries typeOf fuel ((registerAll ws).values.map (TV.shift (registerAll vs).next)) with
           | .error e => .error e
           | .ok r2 => .ok (r1 ++ r2)) := by
  rw [(I1_registration vs ws hd).1, layoutEntries_append]

/-- the counters reported by `analyse` add up -/
theorem analyseLifted_counters_append (o : Unify.Orders) (fuel : Nat) (vs ws : List SV) (hd : Disjoint vs ws) :
    (analyseLifted o fuel (vs ++ ws)).registered
        = (analyseLifted o fuel vs).registered + (analyseLifted o fuel ws).registered ∧
    (analyseLifted o fuel (vs ++ ws)).allocated
        = (analyseLifted o fuel vs).allocated + (analyseLifted o fuel ws).allocated := by
  have hreg : ∀ us, (analyseLifted o fuel us).registered = (registerAll us).next ∧
      (analyseLifted o fuel us).allocated = (inferAll (registerAll us)).next := by
    intro us
    unfold analyseLifted
    simp only
    split
    · exact ⟨rfl, rfl⟩
    · split <;> exact ⟨rfl, rfl⟩
  rw [(hreg _).1, (hreg _).1, (hreg _).1, (hreg _).2, (hreg _).2, (hreg _).2]
  exact ⟨(I1_registration vs ws hd).2, (I2_rules vs ws hd).2⟩

end glue

/-! ### a checker for `Disjoint`, non-vacuity, necessity -/

/-- executable version of `Disjoint` -/
def disjointB (vs ws : List SV) : Bool :=
  ws.all (fun w => (subterms w).all (fun t =>
    !isStable (nodeCount t + 1) t || vs.all (fun v => !(subterms v).any (fun u => u.beq t))))

theorem disjoint_of_disjointB {vs ws : List SV} (h : disjointB vs ws = true) : Disjoint vs ws := by
  intro w hw t ht hst v hv hmem
  simp only [disjointB, List.all_eq_true, Bool.or_eq_true, Bool.not_eq_true', List.any_eq_false] at h
  rcases h w hw t ht with h | h
  · rw [hst] at h; cases h
  · have := h v hv t hmem
    rw [beq_refl] at this
    exact this rfl

/-- two writes to different slots with different values are disjoint … -/
example : Disjoint
    [.node .storageWrite [] [.node .storageSlot [] [.node .knownData [0] [] 1] 2, .node .value [7] [] 1] 4]
    [.node .storageWrite [] [.node .storageSlot [] [.node .knownData [1] [] 1] 2, .node .value [8] [] 1] 4] :=
  disjoint_of_disjointB (by decide)

/-- … and a mapping access (which allocates a fresh variable) next to a plain write: the joint
judgements are the renamed union (I2 on a concrete instance, checked by evaluation). -/
example :
    let a : SV := .node .storageWrite []
      [.node .storageSlot [] [.node .mappingIndex [1] [.node .storageSlot [] [.node .knownData [0] [] 1] 2,
        .node .callData [3] [.node .knownData [4] [] 1, .node .knownData [32] [] 1] 3] 6] 7, .node .value [7] [] 1] 9
    let b : SV := .node .storageWrite [] [.node .storageSlot [] [.node .knownData [1] [] 1] 2, .node .value [8] [] 1] 4
    disjointB [a] [b] = true ∧ (registerAll [a]).next = 9 ∧ (inferAll (registerAll [a])).next = 10 ∧
      (registerAll [b]).next = 4 ∧ (inferAll (registerAll [b])).next = 4 ∧
      (inferAll (registerAll ([a] ++ [b]))).next = 14 := by
  decide

/-- `Disjoint` cannot be dropped from I1: a stable sub-term common to both fragments is registered
once, so the counters do not add up (and `B`'s tree reuses `A`'s variable). -/
example :
    let v : SV := .node .value [7] [] 1
    (registerAll ([v] ++ [v])).next ≠ (registerAll [v]).next + (registerAll [v]).next := by
  decide

/-- … nor from I3: sharing the value `7` between a numeric use in `A` and a boolean use in `B`
puts both uses into one class of the joint forest. -/
example :
    let v : SV := .node .value [7] [] 1
    let a : SV := .node .isZero [] [v] 2
    let b : SV := .node .not_ [] [v] 2
    (inferAll (registerAll ([a] ++ [b]))).judgements
      = [(0, numeric), (1, boolT), (2, bytesN none), (0, bytesN none)] := by
  decide


end SLE.Independence
