import SLE.Model.VM
/-
Facts about `execOp` (the data effect of one instruction) that the control theorems need.
`execOp` is unfolded ONLY in this file.
-/
namespace SLE.VM
open SLE SLE.SV SLE.Disasm

/-- The output carries no control request. -/
def NoCtl (o : OpOut) : Prop := o.jumpTo = none ∧ o.forkTo = none ∧ o.softErr = none

/-- split every `if`/`match`, looking through `have` binders -/
macro "split_all" : tactic => `(tactic| repeat' (first | split | (dsimp only; split)))
macro "split_all" "at" h:ident : tactic =>
  `(tactic| repeat' (first | split at $h:ident | (dsimp only at $h:ident; split at $h:ident)))

theorem noCtl_fail (d : TData) (ctr : Nat) (e : XErr) : NoCtl (fail d ctr e) := ⟨rfl, rfl, rfl⟩

theorem noCtl_pushOut (d : TData) (ctr : Nat) (v : SV) : NoCtl (pushOut d ctr v) := by
  unfold pushOut; split
  · exact ⟨rfl, rfl, rfl⟩
  · exact noCtl_fail ..

theorem noCtl_copyOp (c : Ctx) (d : TData) (ctr : Nat) (k : Kind) (wa : Bool) (bound : Nat) :
    NoCtl (copyOp c d ctr k wa bound) := by
  unfold copyOp
  split_all
  all_goals first | exact noCtl_fail .. | exact ⟨rfl, rfl, rfl⟩

theorem noCtl_callOp (c : Ctx) (d : TData) (ctr : Nat) (wv : Bool) :
    NoCtl (callOp c d ctr wv) := by
  unfold callOp
  split_all
  all_goals first | exact noCtl_fail .. | exact noCtl_pushOut .. | exact ⟨rfl, rfl, rfl⟩

theorem noCtl_ite {p : Prop} [Decidable p] {a b : OpOut} (ha : p → NoCtl a) (hb : ¬p → NoCtl b) :
    NoCtl (if p then a else b) := by
  split
  · exact ha ‹_›
  · exact hb ‹_›

set_option maxRecDepth 8000 in
theorem execOp_noCtl (c : Ctx) (code : List Instr) (ins : Instr) (d : TData) (ctr : Nat)
    (h56 : ins ≠ .op 0x56) (h57 : ins ≠ .op 0x57) : NoCtl (execOp c code ins d ctr) := by
  unfold execOp
  split
  · exact ⟨rfl, rfl, rfl⟩
  · exact ⟨rfl, rfl, rfl⟩
  · exact noCtl_pushOut ..
  · rename_i b
    have hb56 : (b == 0x56) = false := by
      cases hb : b == 0x56 with
      | false => rfl
      | true => exact absurd (by rw [eq_of_beq hb]) h56
    have hb57 : (b == 0x57) = false := by
      cases hb : b == 0x57 with
      | false => rfl
      | true => exact absurd (by rw [eq_of_beq hb]) h57
    repeat' (refine noCtl_ite (fun _ => ?_) (fun _ => ?_))
    all_goals first
      | exact ⟨rfl, rfl, rfl⟩
      | exact noCtl_pushOut ..
      | exact noCtl_copyOp ..
      | exact noCtl_callOp ..
      | (exfalso; revert ‹(b == 0x56) = true›; rw [hb56]; exact Bool.false_ne_true)
      | (exfalso; revert ‹(b == 0x57) = true›; rw [hb57]; exact Bool.false_ne_true)
      | (split_all
         all_goals first
           | exact ⟨rfl, rfl, rfl⟩
           | exact noCtl_fail ..
           | exact noCtl_pushOut ..)

theorem execOp_jump_eq (c : Ctx) (code : List Instr) (d : TData) (ctr : Nat) :
    execOp c code (.op 0x56) d ctr =
      (match pop d with
       | .error e => fail d ctr e
       | .ok (counter, d1) =>
         (match validateJump code counter with
          | .ok t => { d := d1, ctr := ctr, jumpTo := some t }
          | .error e =>
            let d2 := record d1 counter
            if e == .noConcreteJumpDestination then { d := d2, ctr := ctr, kill := true }
            else fail d2 ctr e)) := rfl

theorem execOp_jumpi_eq (c : Ctx) (code : List Instr) (d : TData) (ctr : Nat) :
    execOp c code (.op 0x57) d ctr =
      (match pop d with
       | .error e => fail d ctr e
       | .ok (counter, d1) =>
         (match pop d1 with
          | .error e => fail d1 ctr e
          | .ok (cond, d2) =>
            let d3 := record d2 cond
            (match validateJump code counter with
             | .ok t => { d := d3, ctr := ctr, forkTo := some t }
             | .error e => { d := record d3 counter, ctr := ctr, softErr := some e }))) := rfl

/-! ### `validateJump` -/

/-- (J3, second half) a validated target is the WHOLE popped 256-bit constant, it fits 32 bits,
and the stream entry there is JUMPDEST. -/
theorem validateJump_ok {code : List Instr} {counter : SV} {t : Nat}
    (h : validateJump code counter = .ok t) :
    ∃ w, isKnown (fold counter) = some w ∧ w.toNat = t ∧ t < 2 ^ 32 ∧
      code[t]? = some (.op 0x5b) := by
  unfold validateJump at h
  split at h
  · cases h
  · rename_i w hw
    split at h
    · cases h
    · rename_i hlt
      split at h
      · cases h
      · rename_i ins hins
        split at h
        · rename_i hjd
          cases h
          refine ⟨w, hw, rfl, by omega, ?_⟩
          rw [hins, eq_of_beq hjd]
        · cases h

theorem validateJump_lt {code : List Instr} {counter : SV} {t : Nat}
    (h : validateJump code counter = .ok t) : t < code.length := by
  obtain ⟨_, _, _, _, hc⟩ := validateJump_ok h
  exact (List.getElem?_eq_some_iff.mp hc).1

/-- `validateJump` only fails with one of the jump kinds. -/
theorem validateJump_error {code : List Instr} {counter : SV} {e : XErr}
    (h : validateJump code counter = .error e) : e.isJumpKind = true := by
  unfold validateJump at h
  split_all at h
  all_goals first | (cases h; rfl) | cases h

/-! ### J1–J3 and the soft error -/

/-- (J3) `jumpTo` is set only by JUMP, with the validated popped counter. -/
theorem execOp_jumpTo {c : Ctx} {code : List Instr} {ins : Instr} {d : TData} {ctr t : Nat}
    (h : (execOp c code ins d ctr).jumpTo = some t) :
    ins = .op 0x56 ∧ ∃ counter d1, pop d = .ok (counter, d1) ∧
      validateJump code counter = .ok t := by
  by_cases h56 : ins = .op 0x56
  · subst h56
    refine ⟨rfl, ?_⟩
    rw [execOp_jump_eq] at h
    split at h
    · cases h
    · rename_i counter d1 hp
      split at h
      · rename_i t' hv
        cases h
        exact ⟨counter, d1, hp, hv⟩
      · dsimp only at h
        split at h <;> cases h
  · by_cases h57 : ins = .op 0x57
    · subst h57
      rw [execOp_jumpi_eq] at h
      split_all at h
      all_goals cases h
    · rw [(execOp_noCtl c code ins d ctr h56 h57).1] at h
      cases h

/-- (J3) `forkTo` is set only by JUMPI, with the validated popped counter. -/
theorem execOp_forkTo {c : Ctx} {code : List Instr} {ins : Instr} {d : TData} {ctr t : Nat}
    (h : (execOp c code ins d ctr).forkTo = some t) :
    ins = .op 0x57 ∧ ∃ counter d1, pop d = .ok (counter, d1) ∧
      validateJump code counter = .ok t := by
  by_cases h57 : ins = .op 0x57
  · subst h57
    refine ⟨rfl, ?_⟩
    rw [execOp_jumpi_eq] at h
    split at h
    · cases h
    · rename_i counter d1 hp
      split at h
      · cases h
      · dsimp only at h
        split at h
        · rename_i t' hv
          cases h
          exact ⟨counter, d1, hp, hv⟩
        · cases h
  · by_cases h56 : ins = .op 0x56
    · subst h56
      rw [execOp_jump_eq] at h
      split_all at h
      all_goals cases h
    · rw [(execOp_noCtl c code ins d ctr h56 h57).2.1] at h
      cases h

/-- The soft error (JUMPI with a bad target) is always a jump kind. -/
theorem execOp_softErr {c : Ctx} {code : List Instr} {ins : Instr} {d : TData} {ctr : Nat}
    {e : XErr} (h : (execOp c code ins d ctr).softErr = some e) : e.isJumpKind = true := by
  by_cases h57 : ins = .op 0x57
  · subst h57
    rw [execOp_jumpi_eq] at h
    split at h
    · cases h
    · split at h
      · cases h
      · dsimp only at h
        split at h
        · cases h
        · rename_i e' hv
          cases h
          exact validateJump_error hv
  · by_cases h56 : ins = .op 0x56
    · subst h56
      rw [execOp_jump_eq] at h
      split_all at h
      all_goals cases h
    · rw [(execOp_noCtl c code ins d ctr h56 h57).2.2] at h
      cases h

/-- (J1) -/
theorem execOp_jumpTo_jumpdest {c : Ctx} {code : List Instr} {ins : Instr} {d : TData}
    {ctr t : Nat} (h : (execOp c code ins d ctr).jumpTo = some t) :
    code[t]? = some (.op 0x5b) := by
  obtain ⟨_, _, _, _, hv⟩ := execOp_jumpTo h
  obtain ⟨_, _, _, _, hc⟩ := validateJump_ok hv
  exact hc

/-- (J2) -/
theorem execOp_forkTo_jumpdest {c : Ctx} {code : List Instr} {ins : Instr} {d : TData}
    {ctr t : Nat} (h : (execOp c code ins d ctr).forkTo = some t) :
    code[t]? = some (.op 0x5b) := by
  obtain ⟨_, _, _, _, hv⟩ := execOp_forkTo h
  obtain ⟨_, _, _, _, hc⟩ := validateJump_ok hv
  exact hc

/-- An instruction that kills its thread requests no control transfer. -/
theorem execOp_kill_noCtl {c : Ctx} {code : List Instr} {ins : Instr} {d : TData} {ctr : Nat}
    (h : (execOp c code ins d ctr).kill = true) :
    (execOp c code ins d ctr).jumpTo = none ∧ (execOp c code ins d ctr).forkTo = none := by
  by_cases h56 : ins = .op 0x56
  · subst h56
    rw [execOp_jump_eq] at h ⊢
    split_all
    all_goals first | exact ⟨rfl, rfl⟩ | (exfalso; simp_all; done)
  · by_cases h57 : ins = .op 0x57
    · subst h57
      rw [execOp_jumpi_eq] at h ⊢
      split_all
      all_goals first | exact ⟨rfl, rfl⟩ | (exfalso; simp_all; done)
    · have := execOp_noCtl c code ins d ctr h56 h57
      exact ⟨this.1, this.2.1⟩

/-! ### `kill_ops` -/

theorem kill_ops_stop (c : Ctx) (code : List Instr) (d : TData) (ctr : Nat) :
    (execOp c code (.op 0x00) d ctr).kill = true ∧ (execOp c code (.op 0x00) d ctr).err = none :=
  ⟨rfl, rfl⟩

theorem kill_ops_invalid_op (c : Ctx) (code : List Instr) (d : TData) (ctr : Nat) :
    (execOp c code (.op 0xfe) d ctr).kill = true ∧ (execOp c code (.op 0xfe) d ctr).err = none :=
  ⟨rfl, rfl⟩

theorem kill_ops_invalid (c : Ctx) (code : List Instr) (b : Nat) (d : TData) (ctr : Nat) :
    (execOp c code (.invalid b) d ctr).kill = true ∧
      (execOp c code (.invalid b) d ctr).err = none :=
  ⟨rfl, rfl⟩

theorem execOp_ret_eq (c : Ctx) (code : List Instr) (d : TData) (ctr : Nat) (b : Nat)
    (hb : b = 0xf3 ∨ b = 0xfd) :
    execOp c code (.op b) d ctr =
      (match popN 2 d [] with
       | .error (e, d') => fail d' ctr e
       | .ok ([off, size], d1) =>
         (match memLoadSlice c d1 off size with
          | .error e => fail d1 ctr e
          | .ok (data, d2) =>
            let (v, ctr1) := build c ctr (if b == 0xf3 then .return_ else .revert) [] [data]
            { d := record d2 v, ctr := ctr1, kill := true })
       | .ok (_, d1) => fail d1 ctr .noSuchStackFrame) := by
  rcases hb with rfl | rfl <;> rfl

theorem execOp_selfdestruct_eq (c : Ctx) (code : List Instr) (d : TData) (ctr : Nat) :
    execOp c code (.op 0xff) d ctr =
      (match pop d with
       | .error e => fail d ctr e
       | .ok (target, d1) =>
         let (v, ctr1) := build c ctr .selfDestruct [] [target]
         { d := record d1 v, ctr := ctr1, kill := true }) := rfl

/-- RETURN / REVERT / SELFDESTRUCT kill the thread whenever they do not fail. -/
theorem kill_ops_halt (c : Ctx) (code : List Instr) (d : TData) (ctr : Nat) (b : Nat)
    (hb : b = 0xf3 ∨ b = 0xfd ∨ b = 0xff)
    (he : (execOp c code (.op b) d ctr).err = none) :
    (execOp c code (.op b) d ctr).kill = true := by
  rcases hb with hb | hb | hb
  · rw [execOp_ret_eq c code d ctr b (.inl hb)] at he ⊢
    split_all
    all_goals first | rfl | (exfalso; simp_all [fail]; done)
  · rw [execOp_ret_eq c code d ctr b (.inr hb)] at he ⊢
    split_all
    all_goals first | rfl | (exfalso; simp_all [fail]; done)
  · subst hb
    rw [execOp_selfdestruct_eq] at he ⊢
    split_all
    all_goals first | rfl | (exfalso; simp_all [fail]; done)

/-- `kill_ops`, collected. -/
theorem kill_ops (c : Ctx) (code : List Instr) (d : TData) (ctr : Nat) :
    (∀ ins, (ins = .op 0x00 ∨ ins = .op 0xfe ∨ ∃ b, ins = .invalid b) →
      (execOp c code ins d ctr).kill = true ∧ (execOp c code ins d ctr).err = none) ∧
    (∀ ins, (ins = .op 0xf3 ∨ ins = .op 0xfd ∨ ins = .op 0xff) →
      (execOp c code ins d ctr).err = none → (execOp c code ins d ctr).kill = true) := by
  constructor
  · rintro ins (rfl | rfl | ⟨b, rfl⟩)
    · exact kill_ops_stop ..
    · exact kill_ops_invalid_op ..
    · exact kill_ops_invalid ..
  · rintro ins (rfl | rfl | rfl) he
    · exact kill_ops_halt c code d ctr _ (.inl rfl) he
    · exact kill_ops_halt c code d ctr _ (.inr (.inl rfl)) he
    · exact kill_ops_halt c code d ctr _ (.inr (.inr rfl)) he

/-! ### `execOp` does not read `cfg.permissive` -/

@[reducible] def Ctx.setPerm (c : Ctx) (p : Bool) : Ctx := { c with cfg := { c.cfg with permissive := p } }

theorem build_perm (c : Ctx) (p : Bool) : build (c.setPerm p) = build c := rfl
theorem buildKnown_perm (c : Ctx) (p : Bool) : buildKnown (c.setPerm p) = buildKnown c := rfl
theorem buildValue_perm (c : Ctx) (p : Bool) : buildValue (c.setPerm p) = buildValue c := rfl
theorem memLoadSlice_perm (c : Ctx) (p : Bool) : memLoadSlice (c.setPerm p) = memLoadSlice c := rfl
theorem copyLoop_perm (c : Ctx) (p : Bool) : copyLoop (c.setPerm p) = copyLoop c := rfl
theorem copyOp_perm (c : Ctx) (p : Bool) : copyOp (c.setPerm p) = copyOp c := rfl
theorem storeReturnData_perm (c : Ctx) (p : Bool) : storeReturnData (c.setPerm p) = storeReturnData c := rfl
theorem callOp_perm (c : Ctx) (p : Bool) : callOp (c.setPerm p) = callOp c := rfl

mutual
theorem instantiate_perm (c : Ctx) (p : Bool) (args : List SV) :
    ∀ (t : SV) (ctr : Nat), instantiate (c.setPerm p) args t ctr = instantiate c args t ctr
  | .node k attrs kids s, ctr => by
    simp only [instantiate, instantiate_go_perm c p args kids, build_perm, buildValue_perm]
theorem instantiate_go_perm (c : Ctx) (p : Bool) (args : List SV) :
    ∀ (ts : List SV) (n : Nat),
      instantiate.go (c.setPerm p) args ts n = instantiate.go c args ts n
  | [], n => by simp only [instantiate.go]
  | x :: xs, n => by
    simp only [instantiate.go, instantiate_perm c p args x, instantiate_go_perm c p args xs]
end

set_option maxRecDepth 8000 in
theorem execOp_perm (c : Ctx) (code : List Instr) (ins : Instr) (d : TData) (ctr : Nat) (p : Bool) :
    execOp (c.setPerm p) code ins d ctr = execOp c code ins d ctr := by
  unfold execOp
  simp only [instantiate_perm, callOp_perm, copyOp_perm, memLoadSlice_perm, buildKnown_perm, build_perm,
    buildValue_perm, Ctx.setPerm]

theorem execOp_cfg_perm (cfg : Cfg) (p : Bool) (ip len : Nat) (code : List Instr) (ins : Instr)
    (d : TData) (ctr : Nat) :
    execOp { cfg := { cfg with permissive := p }, ip := ip, codeLen := len } code ins d ctr =
      execOp { cfg := cfg, ip := ip, codeLen := len } code ins d ctr :=
  execOp_perm { cfg := cfg, ip := ip, codeLen := len } code ins d ctr p

end SLE.VM
