import SLE.Lemmas.VMExecFacts
/-
C03 (bounds, termination) and C08 (control transfers) for the control loop of `SLE.VM`.
`execOp` is opaque here: only J1/J2 (`execOp_jumpTo_jumpdest`, `execOp_forkTo_jumpdest`) and
their refinements from `VMExecFacts` are used.
-/
namespace SLE.VM
open SLE SLE.SV SLE.Disasm

/-! ### list helpers -/

theorem bump_length (l : List Nat) (i : Nat) : (bump l i).length = l.length := by
  simp [bump]

theorem bump_getD (l : List Nat) (i j : Nat) :
    (bump l i).getD j 0 = if i = j ∧ i < l.length then l.getD i 0 + 1 else l.getD j 0 := by
  simp only [bump, List.getD_eq_getElem?_getD, List.getElem?_set]
  by_cases hij : i = j
  · subst hij
    by_cases hl : i < l.length
    · simp [hl]
    · have : l[i]? = none := List.getElem?_eq_none (by omega)
      simp [hl]
  · simp [hij]

theorem bump_getD_le (l : List Nat) (i j : Nat) : (bump l i).getD j 0 ≤ l.getD j 0 + 1 := by
  rw [bump_getD]; split
  · rename_i h; rw [h.1]; omega
  · omega

theorem bump_getD_ne (l : List Nat) {i j : Nat} (h : i ≠ j) : (bump l i).getD j 0 = l.getD j 0 := by
  rw [bump_getD, if_neg (fun hh => h hh.1)]

theorem bump_getD_self (l : List Nat) {i : Nat} (h : i < l.length) :
    (bump l i).getD i 0 = l.getD i 0 + 1 := by
  rw [bump_getD, if_pos ⟨rfl, h⟩]

theorem bump_sum : ∀ (l : List Nat) (i : Nat), i < l.length → (bump l i).sum = l.sum + 1
  | [], i, h => by simp at h
  | x :: xs, 0, _ => by simp [bump]; omega
  | x :: xs, i + 1, h => by
    have ih := bump_sum xs i (by simpa using h)
    simp only [bump, List.set_cons_succ, List.getD_cons_succ, List.sum_cons] at ih ⊢
    omega

theorem getD_lt_length_of_ne_zero {l : List Nat} {i : Nat} (h : l.getD i 0 ≠ 0) : i < l.length := by
  false_or_by_contra
  rename_i hn
  apply h
  rw [List.getD_eq_getElem?_getD, List.getElem?_eq_none (by omega)]
  rfl

/-- A list bounded pointwise by `F` and supported on the positions where `code` holds `x`
sums to at most `F * #x`. -/
theorem sum_le_mul_count {α : Type} [DecidableEq α] (x : α) (F : Nat) :
    ∀ (code : List α) (l : List Nat), l.length = code.length →
      (∀ off, l.getD off 0 ≤ F) → (∀ off, l.getD off 0 ≠ 0 → code[off]? = some x) →
      l.sum ≤ F * (code.filter (· == x)).length
  | [], [], _, _, _ => by simp
  | [], _ :: _, h, _, _ => by simp at h
  | _ :: _, [], h, _, _ => by simp at h
  | c :: code, a :: l, hlen, hle, hsupp => by
    have ih := sum_le_mul_count x F code l (by simpa using hlen)
      (fun off => by simpa using hle (off + 1))
      (fun off h => by simpa using hsupp (off + 1) (by simpa using h))
    have h0 := hle 0
    simp only [List.getD_cons_zero] at h0
    simp only [List.sum_cons, List.filter_cons]
    by_cases hc : c = x
    · subst hc
      simp only [beq_self_eq_true, if_true, List.length_cons, Nat.mul_succ]
      omega
    · have ha : a = 0 := by
        false_or_by_contra
        rename_i hne
        have := hsupp 0 (by simpa using hne)
        simp at this
        exact hc this
      have : (c == x) = false := by simpa using hc
      simp only [this]
      subst ha
      simpa using ih

/-! ### the two halves of `step` -/

/-- The output of the instruction the head thread stands on. -/
def opOut (cfg : Cfg) (code : List Instr) (s : VMS) (t : Thread) (ins : Instr) : OpOut :=
  execOp { cfg := cfg, ip := t.ip, codeLen := code.length } code ins t.d s.ctr

/-- The state handed to `advance` when the instruction returned `Ok`. -/
def midOk (cfg : Cfg) (s : VMS) (t : Thread) (rest : List Thread) (ins : Instr) (o : OpOut) : VMS :=
  let t1 : Thread := { t with visited := bump t.visited t.ip }
  let t2 : Thread := { t1 with d := o.d, gas := t1.gas + minGas ins }
  let s1 : VMS := { s with ctr := o.ctr, killed := s.killed || o.kill }
  match o.jumpTo with
  | some tgt => { s1 with queue := { t2 with ip := tgt } :: rest }
  | none =>
    match o.forkTo with
    | some tgt =>
      let atVisitLimit := t2.visited.getD tgt 0 ≥ cfg.iterLimit
      if !atVisitLimit && s1.forks.getD tgt 0 < cfg.forkLimit then
        let child : Thread := { t2 with ip := tgt, gas := t1.gas, d := { t2.d with forkPoint := t.ip } }
        { s1 with queue := (t2 :: rest) ++ [child], forks := bump s1.forks tgt, created := s1.created + 1 }
      else { s1 with queue := t2 :: rest }
    | none =>
      match o.softErr with
      | some e =>
        { s1 with queue := t2 :: rest,
                  errors := if cfg.permissive then s1.errors else s1.errors ++ [(t.ip, e)] }
      | none => { s1 with queue := t2 :: rest }

/-- The state handed to `advance` when the instruction returned `Err(e)` (not a panic). -/
def midErr (cfg : Cfg) (s : VMS) (t : Thread) (rest : List Thread) (o : OpOut) (e : XErr) : VMS :=
  let t1 : Thread := { t with visited := bump t.visited t.ip }
  let errs := if e.isJumpKind && cfg.permissive then s.errors else s.errors ++ [(t.ip, e)]
  { s with queue := { t1 with d := o.d } :: rest, ctr := o.ctr, errors := errs, killed := true }

/-- `advance` retires the head thread. -/
def retire (cfg : Cfg) (code : List Instr) (t : Thread) (killed : Bool) : Bool :=
  ((decide (t.ip + 1 ≥ code.length) || decide (t.visited.getD (t.ip + 1) 0 ≥ cfg.iterLimit)) ||
    decide (t.gas > cfg.gasLimit)) || killed

theorem advance_nil {cfg : Cfg} {code : List Instr} {s : VMS} (hq : s.queue = []) :
    advance cfg code s = { s with aborted := some .invalidStep } := by
  unfold advance; rw [hq]

theorem advance_cons {cfg : Cfg} {code : List Instr} {s : VMS} {t : Thread} {rest : List Thread}
    (hq : s.queue = t :: rest) :
    advance cfg code s =
      if retire cfg code t s.killed then
        { s with queue := rest, stored := s.stored ++ [t], killed := false,
                 errors := if t.gas > cfg.gasLimit then
                   insertLocated s.errors (t.ip, .gasLimitExceeded) else s.errors }
      else { s with queue := { t with ip := t.ip + 1 } :: rest } := by
  unfold advance; rw [hq]; rfl

theorem step_nil {cfg : Cfg} {code : List Instr} {s : VMS} (hq : s.queue = []) :
    step cfg code s = s := by
  unfold step; rw [hq]

theorem step_oob {cfg : Cfg} {code : List Instr} {s : VMS} {t : Thread} {rest : List Thread}
    (hq : s.queue = t :: rest) (hi : code[t.ip]? = none) :
    step cfg code s = { s with aborted := some .instructionPointerOutOfBounds } := by
  unfold step; rw [hq]; dsimp only; rw [hi]

theorem step_ok {cfg : Cfg} {code : List Instr} {s : VMS} {t : Thread} {rest : List Thread}
    {ins : Instr} (hq : s.queue = t :: rest) (hi : code[t.ip]? = some ins)
    (he : (opOut cfg code s t ins).err = none) :
    step cfg code s = advance cfg code (midOk cfg s t rest ins (opOut cfg code s t ins)) := by
  unfold step; rw [hq]; dsimp only; rw [hi]; dsimp only
  unfold opOut at he
  rw [he]
  rfl

theorem step_panic {cfg : Cfg} {code : List Instr} {s : VMS} {t : Thread} {rest : List Thread}
    {ins : Instr} {site : String} (hq : s.queue = t :: rest) (hi : code[t.ip]? = some ins)
    (he : (opOut cfg code s t ins).err = some (.panic site)) :
    step cfg code s = { s with aborted := some (.panic site) } := by
  unfold step; rw [hq]; dsimp only; rw [hi]; dsimp only
  unfold opOut at he
  rw [he]

theorem step_err {cfg : Cfg} {code : List Instr} {s : VMS} {t : Thread} {rest : List Thread}
    {ins : Instr} {e : XErr} (hq : s.queue = t :: rest) (hi : code[t.ip]? = some ins)
    (he : (opOut cfg code s t ins).err = some e) (hp : ∀ site, e ≠ .panic site) :
    step cfg code s = advance cfg code (midErr cfg s t rest (opOut cfg code s t ins) e) := by
  unfold step; rw [hq]; dsimp only; rw [hi]; dsimp only
  unfold opOut at he
  rw [he]
  cases e with
  | panic site => exact absurd rfl (hp site)
  | _ => rfl

/-! ### membership in the sorted error buffer -/

theorem mem_insertLocated_go (x y : Nat × XErr) :
    ∀ l : List (Nat × XErr), y ∈ insertLocated.go x l ↔ y = x ∨ y ∈ l
  | [] => by simp [insertLocated.go]
  | z :: r => by
    rw [insertLocated.go]
    split
    · simp
    · simp only [List.mem_cons, mem_insertLocated_go x y r]
      constructor
      · rintro (h | h | h) <;> simp [h]
      · rintro (h | h | h) <;> simp [h]

theorem mem_foldl_insertLocated_go (y : Nat × XErr) :
    ∀ (l acc : List (Nat × XErr)),
      y ∈ l.foldl (fun acc x => insertLocated.go x acc) acc ↔ y ∈ acc ∨ y ∈ l
  | [], acc => by simp
  | x :: l, acc => by
    simp only [List.foldl_cons, mem_foldl_insertLocated_go y l, mem_insertLocated_go, List.mem_cons]
    constructor
    · rintro ((h | h) | h) <;> simp [h]
    · rintro (h | h | h) <;> simp [h]

theorem mem_insertLocated (es : List (Nat × XErr)) (e y : Nat × XErr) :
    y ∈ insertLocated es e ↔ y ∈ es ∨ y = e := by
  show y ∈ List.foldl (fun acc x => insertLocated.go x acc) [] (es ++ [e]) ↔ _
  rw [mem_foldl_insertLocated_go]
  simp

/-! ### A. the invariant (C03) -/

/-- (a) the visit counters of a thread, queued or stored. -/
structure ThreadOk (cfg : Cfg) (code : List Instr) (t : Thread) : Prop where
  len : t.visited.length = code.length
  le : ∀ off, t.visited.getD off 0 ≤ cfg.iterLimit

/-- (b) a queued thread may still execute the instruction it stands on. -/
structure Runnable (cfg : Cfg) (code : List Instr) (t : Thread) : Prop where
  ip : t.ip < code.length
  lt : t.visited.getD t.ip 0 < cfg.iterLimit
  gas : t.gas ≤ cfg.gasLimit

/-- (c) the fork tracker. -/
structure ForksOk (cfg : Cfg) (code : List Instr) (forks : List Nat) : Prop where
  len : forks.length = code.length
  le : ∀ off, forks.getD off 0 ≤ cfg.forkLimit
  supp : ∀ off, forks.getD off 0 ≠ 0 → code[off]? = some (.op 0x5b)

structure Inv (cfg : Cfg) (code : List Instr) (s : VMS) : Prop where
  /-- (a) -/
  queueOk : ∀ t ∈ s.queue, ThreadOk cfg code t
  storedOk : ∀ t ∈ s.stored, ThreadOk cfg code t
  /-- (b) -/
  runnable : ∀ t ∈ s.queue, Runnable cfg code t
  /-- (c) -/
  forks : ForksOk cfg code s.forks
  /-- (d) -/
  created : s.created = s.queue.length + s.stored.length
  createdForks : s.created = 1 + s.forks.sum
  /-- (e) -/
  killed : s.killed = false
  /-- every recorded error is located inside the code -/
  errLoc : ∀ x ∈ s.errors, x.1 < code.length

/-- What holds of the state handed to `advance`: the head thread `t` has executed its
instruction (its counters are within bounds but it need not be runnable), everything else is
as in `Inv`. -/
structure PreInv (cfg : Cfg) (code : List Instr) (s : VMS) (t : Thread) (rest : List Thread) :
    Prop where
  hq : s.queue = t :: rest
  hip : t.ip < code.length
  headOk : ThreadOk cfg code t
  restOk : ∀ t' ∈ rest, ThreadOk cfg code t'
  restRun : ∀ t' ∈ rest, Runnable cfg code t'
  storedOk : ∀ t ∈ s.stored, ThreadOk cfg code t
  forks : ForksOk cfg code s.forks
  created : s.created = s.queue.length + s.stored.length
  createdForks : s.created = 1 + s.forks.sum
  errLoc : ∀ x ∈ s.errors, x.1 < code.length

theorem inv_init {cfg : Cfg} {code : List Instr} (hc : 0 < code.length) (hi : 0 < cfg.iterLimit) :
    Inv cfg code (initVM cfg code) := by
  have hth : ThreadOk cfg code
      { ip := 0, visited := List.replicate code.length 0, gas := 0, d := {} } :=
    ⟨by simp, fun off => by
      simp only [List.getD_eq_getElem?_getD, List.getElem?_replicate]; split <;> simp⟩
  refine ⟨?_, ?_, ?_, ⟨?_, ?_, ?_⟩, ?_, ?_, rfl, ?_⟩
  · intro t ht
    simp only [initVM, List.mem_singleton] at ht
    subst ht; exact hth
  · intro t ht; simp [initVM] at ht
  · intro t ht
    simp only [initVM, List.mem_singleton] at ht
    subst ht
    refine ⟨hc, ?_, Nat.zero_le _⟩
    simp only [List.getD_eq_getElem?_getD, List.getElem?_replicate]; split <;> simpa using hi
  · simp [initVM]
  · intro off
    simp only [initVM, List.getD_eq_getElem?_getD, List.getElem?_replicate]; split <;> simp
  · intro off h
    exfalso; apply h
    simp only [initVM, List.getD_eq_getElem?_getD, List.getElem?_replicate]; split <;> simp
  · simp [initVM]
  · simp [initVM, List.sum_replicate_nat]
  · intro x hx; simp [initVM] at hx

theorem threadOk_bump {cfg : Cfg} {code : List Instr} {t : Thread}
    (h : ThreadOk cfg code t) (hr : t.visited.getD t.ip 0 < cfg.iterLimit) (v : Thread)
    (hv : v.visited = bump t.visited t.ip) : ThreadOk cfg code v := by
  refine ⟨by rw [hv, bump_length]; exact h.len, fun off => ?_⟩
  rw [hv, bump_getD]
  split
  · omega
  · exact h.le off

/-- `advance` re-establishes the invariant. -/
theorem advance_inv {cfg : Cfg} {code : List Instr} {s : VMS} {t : Thread} {rest : List Thread}
    (h : PreInv cfg code s t rest) : Inv cfg code (advance cfg code s) := by
  have hcr := h.created
  rw [h.hq] at hcr
  unfold advance
  rw [h.hq]
  dsimp only
  split
  · -- retired
    refine ⟨h.restOk, ?_, h.restRun, h.forks, ?_, h.createdForks, rfl, ?_⟩
    · intro t' ht'
      rcases List.mem_append.mp ht' with ht' | ht'
      · exact h.storedOk t' ht'
      · rw [List.mem_singleton.mp ht']; exact h.headOk
    · simp only [List.length_append, List.length_cons, List.length_nil] at hcr ⊢
      omega
    · intro x hx
      dsimp only at hx
      split at hx
      · rcases (mem_insertLocated _ _ _).mp hx with hx | hx
        · exact h.errLoc x hx
        · rw [hx]; exact h.hip
      · exact h.errLoc x hx
  · -- moves on
    rename_i hcond
    simp only [Bool.or_eq_true, decide_eq_true_eq, not_or, Nat.not_le, Nat.not_lt,
      Bool.not_eq_true] at hcond
    obtain ⟨⟨⟨hlen, hvis⟩, hgas⟩, hk⟩ := hcond
    refine ⟨?_, h.storedOk, ?_, h.forks, ?_, h.createdForks, hk, h.errLoc⟩
    · intro t' ht'
      rcases List.mem_cons.mp ht' with ht' | ht'
      · rw [ht']; exact ⟨h.headOk.len, h.headOk.le⟩
      · exact h.restOk t' ht'
    · intro t' ht'
      rcases List.mem_cons.mp ht' with ht' | ht'
      · rw [ht']; exact ⟨hlen, hvis, hgas⟩
      · exact h.restRun t' ht'
    · simpa using hcr

/-- The `Ok` half of `step` hands `advance` a good state, for ANY data effect `o` whose
control requests point at JUMPDESTs (J1, J2). -/
theorem midOk_preInv {cfg : Cfg} {code : List Instr} {s : VMS} {t : Thread} {rest : List Thread}
    (ins : Instr) {o : OpOut} (h : Inv cfg code s) (hq : s.queue = t :: rest)
    (hj : ∀ tgt, o.jumpTo = some tgt → code[tgt]? = some (.op 0x5b))
    (hf : ∀ tgt, o.forkTo = some tgt → code[tgt]? = some (.op 0x5b)) :
    ∃ t' rest', PreInv cfg code (midOk cfg s t rest ins o) t' rest' := by
  have htq : t ∈ s.queue := by rw [hq]; simp
  have hrq : ∀ t' ∈ rest, t' ∈ s.queue := fun t' ht' => by rw [hq]; simp [ht']
  have htOk := h.queueOk t htq
  have htRun := h.runnable t htq
  have hcr := h.created
  rw [hq] at hcr
  have hlt : ∀ {tgt}, code[tgt]? = some (Instr.op 0x5b) → tgt < code.length :=
    fun hc => (List.getElem?_eq_some_iff.mp hc).1
  have hbump : ∀ v : Thread, v.visited = bump t.visited t.ip → ThreadOk cfg code v :=
    threadOk_bump htOk htRun.lt
  unfold midOk
  dsimp only
  split
  · -- JUMP
    rename_i tgt hjt
    exact ⟨_, rest, rfl, hlt (hj tgt hjt), hbump _ rfl, fun t' ht' => h.queueOk t' (hrq t' ht'),
      fun t' ht' => h.runnable t' (hrq t' ht'), h.storedOk, h.forks, by simpa using hcr,
      h.createdForks, h.errLoc⟩
  · split
    · -- JUMPI
      rename_i tgt hft
      have htgt := hlt (hf tgt hft)
      split
      · -- forked
        rename_i hcond
        simp only [Bool.and_eq_true, Bool.not_eq_true', decide_eq_false_iff_not, Nat.not_le,
          decide_eq_true_eq, ge_iff_le] at hcond
        obtain ⟨hvis, hfk⟩ := hcond
        refine ⟨({ t with visited := bump t.visited t.ip, d := o.d, gas := t.gas + minGas ins } : Thread), rest ++ [_], rfl, htRun.ip, hbump _ rfl, ?_, ?_, h.storedOk, ⟨?_, ?_, ?_⟩,
          ?_, ?_, h.errLoc⟩
        · intro t' ht'
          rcases List.mem_append.mp ht' with ht' | ht'
          · exact h.queueOk t' (hrq t' ht')
          · rw [List.mem_singleton.mp ht']; exact hbump _ rfl
        · intro t' ht'
          rcases List.mem_append.mp ht' with ht' | ht'
          · exact h.runnable t' (hrq t' ht')
          · rw [List.mem_singleton.mp ht']; exact ⟨htgt, hvis, htRun.gas⟩
        · dsimp only; rw [bump_length]; exact h.forks.len
        · intro off
          dsimp only; rw [bump_getD]
          split
          · omega
          · exact h.forks.le off
        · intro off hne
          dsimp only at hne
          by_cases ho : tgt = off
          · rw [← ho]; exact hf tgt hft
          · rw [bump_getD_ne _ ho] at hne; exact h.forks.supp off hne
        · simp only [List.length_append, List.length_cons, List.length_nil] at hcr ⊢
          omega
        · dsimp only
          rw [bump_sum _ _ (by rw [h.forks.len]; exact htgt)]
          have := h.createdForks
          omega
      · exact ⟨({ t with visited := bump t.visited t.ip, d := o.d, gas := t.gas + minGas ins } : Thread), rest, rfl, htRun.ip, hbump _ rfl, fun t' ht' => h.queueOk t' (hrq t' ht'),
          fun t' ht' => h.runnable t' (hrq t' ht'), h.storedOk, h.forks, by simpa using hcr,
          h.createdForks, h.errLoc⟩
    · split
      · -- soft error
        refine ⟨({ t with visited := bump t.visited t.ip, d := o.d, gas := t.gas + minGas ins } : Thread), rest, rfl, htRun.ip, hbump _ rfl, fun t' ht' => h.queueOk t' (hrq t' ht'),
          fun t' ht' => h.runnable t' (hrq t' ht'), h.storedOk, h.forks, by simpa using hcr,
          h.createdForks, ?_⟩
        intro x hx
        dsimp only at hx
        split at hx
        · exact h.errLoc x hx
        · rcases List.mem_append.mp hx with hx | hx
          · exact h.errLoc x hx
          · rw [List.mem_singleton.mp hx]; exact htRun.ip
      · exact ⟨({ t with visited := bump t.visited t.ip, d := o.d, gas := t.gas + minGas ins } : Thread), rest, rfl, htRun.ip, hbump _ rfl, fun t' ht' => h.queueOk t' (hrq t' ht'),
          fun t' ht' => h.runnable t' (hrq t' ht'), h.storedOk, h.forks, by simpa using hcr,
          h.createdForks, h.errLoc⟩

theorem midErr_preInv {cfg : Cfg} {code : List Instr} {s : VMS} {t : Thread} {rest : List Thread}
    (o : OpOut) (e : XErr) (h : Inv cfg code s) (hq : s.queue = t :: rest) :
    ∃ t', PreInv cfg code (midErr cfg s t rest o e) t' rest := by
  have htq : t ∈ s.queue := by rw [hq]; simp
  have hrq : ∀ t' ∈ rest, t' ∈ s.queue := fun t' ht' => by rw [hq]; simp [ht']
  have htOk := h.queueOk t htq
  have htRun := h.runnable t htq
  have hcr := h.created
  rw [hq] at hcr
  refine ⟨{ t with visited := bump t.visited t.ip, d := o.d }, rfl, htRun.ip,
    threadOk_bump htOk htRun.lt _ rfl,
    fun t' ht' => h.queueOk t' (hrq t' ht'), fun t' ht' => h.runnable t' (hrq t' ht'),
    h.storedOk, h.forks, by simpa [midErr] using hcr, h.createdForks, ?_⟩
  intro x hx
  simp only [midErr] at hx
  split at hx
  · exact h.errLoc x hx
  · rcases List.mem_append.mp hx with hx | hx
    · exact h.errLoc x hx
    · rw [List.mem_singleton.mp hx]; exact htRun.ip

theorem inv_abort {cfg : Cfg} {code : List Instr} {s : VMS} (h : Inv cfg code s) (a : Option XErr) :
    Inv cfg code { s with aborted := a } :=
  ⟨h.queueOk, h.storedOk, h.runnable, h.forks, h.created, h.createdForks, h.killed, h.errLoc⟩

/-- The invariant is preserved by EVERY step — also by one that aborts (a panic leaves the
state untouched except for `aborted`, which `Inv` does not mention). -/
theorem inv_step' {cfg : Cfg} {code : List Instr} {s : VMS} (h : Inv cfg code s) :
    Inv cfg code (step cfg code s) := by
  cases hq : s.queue with
  | nil => rw [step_nil hq]; exact h
  | cons t rest =>
    cases hi : code[t.ip]? with
    | none => rw [step_oob hq hi]; exact inv_abort h _
    | some ins =>
      cases he : (opOut cfg code s t ins).err with
      | none =>
        rw [step_ok hq hi he]
        obtain ⟨t', rest', hp⟩ := midOk_preInv ins h hq
          (fun tgt hh => execOp_jumpTo_jumpdest hh) (fun tgt hh => execOp_forkTo_jumpdest hh)
        exact advance_inv hp
      | some e =>
        by_cases hp : ∃ site, e = .panic site
        · obtain ⟨site, rfl⟩ := hp
          rw [step_panic hq hi he]; exact inv_abort h _
        · rw [step_err hq hi he (fun site hs => hp ⟨site, hs⟩)]
          obtain ⟨t', hp'⟩ := midErr_preInv (opOut cfg code s t ins) e h hq
          exact advance_inv hp'

theorem inv_step {cfg : Cfg} {code : List Instr} {s : VMS} (h : Inv cfg code s)
    (_ : s.aborted = none) : Inv cfg code (step cfg code s) := inv_step' h

theorem inv_run' {cfg : Cfg} {code : List Instr} :
    ∀ (fuel : Nat) (s : VMS), Inv cfg code s → Inv cfg code (run cfg code fuel s)
  | 0, _, h => h
  | fuel + 1, s, h => by
    unfold run
    split
    · exact h
    · exact inv_run' fuel _ (inv_step' h)

theorem inv_run {cfg : Cfg} {code : List Instr} (fuel : Nat)
    (h : Inv cfg code (initVM cfg code)) : Inv cfg code (run cfg code fuel (initVM cfg code)) :=
  inv_run' fuel _ h

/-! ### corollaries -/

theorem visit_bound {cfg : Cfg} {code : List Instr} (hc : 0 < code.length)
    (hi : 0 < cfg.iterLimit) (fuel : Nat) :
    let s := run cfg code fuel (initVM cfg code)
    ∀ t ∈ s.queue ++ s.stored, ∀ off, t.visited.getD off 0 ≤ cfg.iterLimit := by
  intro s t ht off
  have h := inv_run fuel (inv_init hc hi)
  rcases List.mem_append.mp ht with ht | ht
  · exact (h.queueOk t ht).le off
  · exact (h.storedOk t ht).le off

theorem fork_bound {cfg : Cfg} {code : List Instr} (hc : 0 < code.length)
    (hi : 0 < cfg.iterLimit) (fuel : Nat) :
    ∀ off, (run cfg code fuel (initVM cfg code)).forks.getD off 0 ≤ cfg.forkLimit :=
  (inv_run fuel (inv_init hc hi)).forks.le

theorem forks_sum_le {cfg : Cfg} {code : List Instr} {forks : List Nat}
    (h : ForksOk cfg code forks) :
    forks.sum ≤ cfg.forkLimit * (code.filter (· == .op 0x5b)).length :=
  sum_le_mul_count (Instr.op 0x5b) cfg.forkLimit code forks h.len h.le h.supp

theorem thread_bound {cfg : Cfg} {code : List Instr} (hc : 0 < code.length)
    (hi : 0 < cfg.iterLimit) (fuel : Nat) :
    (run cfg code fuel (initVM cfg code)).created ≤
      1 + cfg.forkLimit * (code.filter (· == .op 0x5b)).length := by
  have h := inv_run fuel (inv_init hc hi)
  rw [h.createdForks]
  have := forks_sum_le h.forks
  omega

theorem gas_bound {cfg : Cfg} {code : List Instr} (hc : 0 < code.length)
    (hi : 0 < cfg.iterLimit) (fuel : Nat) :
    ∀ t ∈ (run cfg code fuel (initVM cfg code)).queue, ¬ t.gas > cfg.gasLimit := by
  intro t ht
  have := ((inv_run fuel (inv_init hc hi)).runnable t ht).gas
  omega

/-! ### C. control transfers (C08) -/

/-- The whole popped 256-bit constant equals `tgt`, it is inside the code, and the stream entry
there is JUMPDEST. -/
def ValidTarget (code : List Instr) (d : TData) (tgt : Nat) : Prop :=
  ∃ counter d1 w, pop d = .ok (counter, d1) ∧ validateJump code counter = .ok tgt ∧
    isKnown (fold counter) = some w ∧ w.toNat = tgt ∧ tgt < 2 ^ 32 ∧ tgt < code.length ∧
    code[tgt]? = some (.op 0x5b)

theorem validTarget_of {code : List Instr} {d d1 : TData} {counter : SV} {tgt : Nat}
    (hp : pop d = .ok (counter, d1)) (hv : validateJump code counter = .ok tgt) :
    ValidTarget code d tgt := by
  obtain ⟨w, hw, hwt, h32, hc⟩ := validateJump_ok hv
  exact ⟨counter, d1, w, hp, hv, hw, hwt, h32, validateJump_lt hv, hc⟩

/-- The head thread after its instruction returned `Ok`. -/
def after (t : Thread) (ins : Instr) (o : OpOut) : Thread :=
  { ip := t.ip, visited := bump t.visited t.ip, gas := t.gas + minGas ins, d := o.d }

/-- JUMP: a transfer to `tgt` happens only to a validated JUMPDEST, and then the head thread of
the state handed to `advance` stands at `tgt`. -/
theorem jump_valid {cfg : Cfg} {code : List Instr} {s : VMS} {t : Thread} {rest : List Thread}
    {ins : Instr} {tgt : Nat} (hq : s.queue = t :: rest) (hi : code[t.ip]? = some ins)
    (he : (opOut cfg code s t ins).err = none)
    (hj : (opOut cfg code s t ins).jumpTo = some tgt) :
    ins = .op 0x56 ∧ ValidTarget code t.d tgt ∧ code[tgt]? = some (.op 0x5b) ∧
    step cfg code s = advance cfg code (midOk cfg s t rest ins (opOut cfg code s t ins)) ∧
    (midOk cfg s t rest ins (opOut cfg code s t ins)).queue =
      { after t ins (opOut cfg code s t ins) with ip := tgt } :: rest ∧
    (midOk cfg s t rest ins (opOut cfg code s t ins)).forks = s.forks := by
  obtain ⟨hins, counter, d1, hp, hv⟩ := execOp_jumpTo hj
  refine ⟨hins, validTarget_of hp hv, execOp_jumpTo_jumpdest hj, step_ok hq hi he, ?_, ?_⟩
  · simp only [midOk, hj]; rfl
  · simp only [midOk, hj]

/-- the JUMPI fork test -/
def forkOk (cfg : Cfg) (visited forks : List Nat) (tgt : Nat) : Bool :=
  !decide (visited.getD tgt 0 ≥ cfg.iterLimit) && decide (forks.getD tgt 0 < cfg.forkLimit)

/-- JUMPI: a child is enqueued only at a validated JUMPDEST `tgt`; the parent stays on its path. -/
theorem fork_valid {cfg : Cfg} {code : List Instr} {s : VMS} {t : Thread} {rest : List Thread}
    {ins : Instr} {tgt : Nat} (hq : s.queue = t :: rest) (hi : code[t.ip]? = some ins)
    (he : (opOut cfg code s t ins).err = none)
    (hf : (opOut cfg code s t ins).forkTo = some tgt) :
    let o := opOut cfg code s t ins
    let child : Thread :=
      { ip := tgt, visited := bump t.visited t.ip, gas := t.gas, d := { o.d with forkPoint := t.ip } }
    ins = .op 0x57 ∧ ValidTarget code t.d tgt ∧ code[tgt]? = some (.op 0x5b) ∧
    step cfg code s = advance cfg code (midOk cfg s t rest ins o) ∧
    (midOk cfg s t rest ins o).queue =
      (if forkOk cfg (bump t.visited t.ip) s.forks tgt then after t ins o :: rest ++ [child]
       else after t ins o :: rest) ∧
    (midOk cfg s t rest ins o).forks =
      (if forkOk cfg (bump t.visited t.ip) s.forks tgt then bump s.forks tgt else s.forks) := by
  intro o child
  obtain ⟨hins, counter, d1, hp, hv⟩ := execOp_forkTo hf
  have hj : o.jumpTo = none := by
    cases hj : o.jumpTo with
    | none => rfl
    | some t' =>
      have := (execOp_jumpTo hj).1
      rw [hins] at this
      cases this
  have hf' : o.forkTo = some tgt := hf
  refine ⟨hins, validTarget_of hp hv, execOp_forkTo_jumpdest hf, step_ok hq hi he, ?_, ?_⟩
  · simp only [midOk, hj, hf']
    unfold forkOk
    split <;> rfl
  · simp only [midOk, hj, hf']
    unfold forkOk
    split <;> rfl

/-- Without a control request the head thread stays where it is and nothing is enqueued. -/
theorem midOk_noCtl {cfg : Cfg} {s : VMS} {t : Thread} {rest : List Thread} {ins : Instr}
    {o : OpOut} (hj : o.jumpTo = none) (hf : o.forkTo = none) :
    (midOk cfg s t rest ins o).queue = after t ins o :: rest ∧
    (midOk cfg s t rest ins o).stored = s.stored ∧
    (midOk cfg s t rest ins o).forks = s.forks ∧
    (midOk cfg s t rest ins o).killed = (s.killed || o.kill) := by
  simp only [midOk, hj, hf]
  split <;> exact ⟨rfl, rfl, rfl, rfl⟩

theorem advance_killed {cfg : Cfg} {code : List Instr} {s : VMS} {t : Thread} {rest : List Thread}
    (hq : s.queue = t :: rest) (hk : s.killed = true) :
    (advance cfg code s).queue = rest ∧ (advance cfg code s).stored = s.stored ++ [t] := by
  rw [advance_cons hq, hk]
  have : retire cfg code t true = true := by simp [retire]
  rw [this]
  exact ⟨rfl, rfl⟩

/-- A halting instruction (`kill` set: STOP, RETURN, REVERT, SELFDESTRUCT, INVALID, unassigned
bytes, JUMP to a non-constant) ends the path: the thread leaves the queue for `stored`, and no
child is enqueued. -/
theorem halt_ends_path_kill {cfg : Cfg} {code : List Instr} {s : VMS} {t : Thread}
    {rest : List Thread} {ins : Instr} (hq : s.queue = t :: rest) (hi : code[t.ip]? = some ins)
    (he : (opOut cfg code s t ins).err = none) (hk : (opOut cfg code s t ins).kill = true) :
    (step cfg code s).queue = rest ∧
    (step cfg code s).stored = s.stored ++ [after t ins (opOut cfg code s t ins)] := by
  obtain ⟨hj, hf⟩ := execOp_kill_noCtl hk
  obtain ⟨h1, h2, _, h4⟩ := midOk_noCtl (cfg := cfg) (s := s) (t := t) (rest := rest) (ins := ins)
    (o := opOut cfg code s t ins) hj hf
  rw [hk, Bool.or_true] at h4
  rw [step_ok hq hi he]
  have := advance_killed (cfg := cfg) (code := code) h1 h4
  rw [h2] at this
  exact this

/-- An `Err(e)` (not a panic) ends the path as well. -/
theorem halt_ends_path_err {cfg : Cfg} {code : List Instr} {s : VMS} {t : Thread}
    {rest : List Thread} {ins : Instr} {e : XErr} (hq : s.queue = t :: rest)
    (hi : code[t.ip]? = some ins) (he : (opOut cfg code s t ins).err = some e)
    (hp : ∀ site, e ≠ .panic site) :
    (step cfg code s).queue = rest ∧
    (step cfg code s).stored = s.stored ++
      [{ t with visited := bump t.visited t.ip, d := (opOut cfg code s t ins).d }] := by
  rw [step_err hq hi he hp]
  exact advance_killed (s := midErr cfg s t rest (opOut cfg code s t ins) e) rfl rfl

theorem halt_ends_path {cfg : Cfg} {code : List Instr} {s : VMS} {t : Thread}
    {rest : List Thread} {ins : Instr} (hq : s.queue = t :: rest) (hi : code[t.ip]? = some ins)
    (h : ((opOut cfg code s t ins).err = none ∧ (opOut cfg code s t ins).kill = true) ∨
      ∃ e, (opOut cfg code s t ins).err = some e ∧ ∀ site, e ≠ .panic site) :
    ∃ t', t'.ip = t.ip ∧ t'.visited = bump t.visited t.ip ∧
      (step cfg code s).queue = rest ∧ (step cfg code s).stored = s.stored ++ [t'] := by
  rcases h with ⟨he, hk⟩ | ⟨e, he, hp⟩
  · exact ⟨after t ins (opOut cfg code s t ins), rfl, rfl, halt_ends_path_kill hq hi he hk⟩
  · exact ⟨{ t with visited := bump t.visited t.ip, d := (opOut cfg code s t ins).d }, rfl, rfl,
      halt_ends_path_err hq hi he hp⟩

/-! ### what an aborting step looks like -/

theorem advance_aborted {cfg : Cfg} {code : List Instr} {s : VMS} {t : Thread} {rest : List Thread}
    (hq : s.queue = t :: rest) : (advance cfg code s).aborted = s.aborted := by
  rw [advance_cons hq]; split <;> rfl

theorem midOk_aborted (cfg : Cfg) (s : VMS) (t : Thread) (rest : List Thread) (ins : Instr)
    (o : OpOut) : (midOk cfg s t rest ins o).aborted = s.aborted := by
  unfold midOk
  dsimp only
  split_all
  all_goals rfl

/-- Under the invariant the only way a step can abort is a panic inside the instruction's data
effect (`InstructionPointerOutOfBounds` and `InvalidStep` are unreachable); the aborting step
changes nothing but `aborted`, so `Inv` survives it (`inv_step'`). -/
theorem step_aborted {cfg : Cfg} {code : List Instr} {s : VMS} (h : Inv cfg code s)
    (ha : s.aborted = none) :
    (step cfg code s).aborted = none ∨
      ∃ site, step cfg code s = { s with aborted := some (.panic site) } := by
  cases hq : s.queue with
  | nil => rw [step_nil hq]; exact .inl ha
  | cons t rest =>
    have hip := (h.runnable t (by rw [hq]; simp)).ip
    cases hi : code[t.ip]? with
    | none => rw [List.getElem?_eq_none_iff] at hi; omega
    | some ins =>
      cases he : (opOut cfg code s t ins).err with
      | none =>
        left
        obtain ⟨t', rest', hp⟩ := midOk_preInv ins (o := opOut cfg code s t ins) h hq
          (fun tgt hh => execOp_jumpTo_jumpdest hh) (fun tgt hh => execOp_forkTo_jumpdest hh)
        rw [step_ok hq hi he, advance_aborted hp.hq, midOk_aborted]; exact ha
      | some e =>
        by_cases hp : ∃ site, e = .panic site
        · obtain ⟨site, rfl⟩ := hp
          exact .inr ⟨site, by rw [step_panic hq hi he, hq]⟩
        · left
          rw [step_err hq hi he (fun site hs => hp ⟨site, hs⟩),
            advance_aborted (s := midErr cfg s t rest (opOut cfg code s t ins) e) rfl]
          exact ha

end SLE.VM
