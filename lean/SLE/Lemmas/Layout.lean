import SLE.Model.Layout
import SLE.Lemmas.Merge
/-!
M7 (layout part) — the storage-layout container (`StorageLayout::add`), `Itertools::unique`, and
order-independence of the per-class merge fold on the `Equal`-free, packed-free fragment.
-/
namespace SLE.Layout
open SLE SLE.MergeLaws
set_option linter.unusedSimpArgs false
set_option linter.unusedVariables false

/-! ## A. The layout container -/

section Container
variable {α : Type}

theorem keyLe_iff (a b : Entry α) :
    keyLe a b = true ↔ a.index < b.index ∨ (a.index = b.index ∧ a.offset ≤ b.offset) := by
  simp [keyLe]

theorem keyLt_iff (a b : Entry α) :
    keyLt a b = true ↔ a.index < b.index ∨ (a.index = b.index ∧ a.offset < b.offset) := by
  simp [keyLt]

theorem keyLe_refl (a : Entry α) : keyLe a a = true := by
  rw [keyLe_iff]; omega

theorem keyLe_trans {a b c : Entry α} (h1 : keyLe a b = true) (h2 : keyLe b c = true) :
    keyLe a c = true := by
  rw [keyLe_iff] at *; omega

theorem keyLe_total (a b : Entry α) : keyLe a b = true ∨ keyLe b a = true := by
  simp only [keyLe_iff]; omega

theorem keyLe_of_keyLt {a b : Entry α} (h : keyLt a b = true) : keyLe a b = true := by
  rw [keyLt_iff] at h; rw [keyLe_iff]; omega

theorem keyLe_of_not_keyLt {a b : Entry α} (h : ¬ keyLt a b = true) : keyLe b a = true := by
  rw [keyLt_iff] at h; rw [keyLe_iff]; omega

/-- `keyLe` both ways means the `(index, offset)` keys coincide. -/
theorem keyLe_antisymm_key {a b : Entry α} (h1 : keyLe a b = true) (h2 : keyLe b a = true) :
    a.index = b.index ∧ a.offset = b.offset := by
  rw [keyLe_iff] at *; omega

/-! ### A.2 nothing is lost or duplicated -/

theorem insertStable_perm (e : Entry α) (l : List (Entry α)) : (insertStable e l).Perm (e :: l) := by
  induction l with
  | nil => exact .refl _
  | cons x r ih =>
    unfold insertStable
    split
    · exact .refl _
    · exact (List.Perm.cons x ih).trans (List.Perm.swap e x r)

theorem add_perm (l : List (Entry α)) (e : Entry α) : (add l e).Perm (e :: l) :=
  insertStable_perm e l

theorem foldl_add_perm (es : List (Entry α)) : ∀ acc : List (Entry α),
    (es.foldl add acc).Perm (acc ++ es) := by
  induction es with
  | nil => intro acc; simp
  | cons e es ih =>
    intro acc
    simp only [List.foldl_cons]
    refine (ih (add acc e)).trans ?_
    refine ((add_perm acc e).append_right es).trans ?_
    exact List.perm_middle.symm

theorem buildLayout_perm (es : List (Entry α)) : (buildLayout es).Perm es := by
  simpa [buildLayout] using foldl_add_perm es []

theorem mem_add {l : List (Entry α)} {e x : Entry α} : x ∈ add l e ↔ x = e ∨ x ∈ l := by
  rw [(add_perm l e).mem_iff, List.mem_cons]

theorem mem_buildLayout {es : List (Entry α)} {x : Entry α} : x ∈ buildLayout es ↔ x ∈ es :=
  (buildLayout_perm es).mem_iff

theorem length_buildLayout (es : List (Entry α)) : (buildLayout es).length = es.length :=
  (buildLayout_perm es).length_eq

/-! ### A.1 the container is always sorted -/

theorem insertStable_sorted (e : Entry α) : ∀ (l : List (Entry α)), Sorted l → Sorted (insertStable e l) := by
  intro l
  induction l with
  | nil => intro _; simp [insertStable, Sorted]
  | cons x r ih =>
    intro hs
    have hs' : (∀ a' ∈ r, keyLe x a' = true) ∧ Sorted r := List.pairwise_cons.1 hs
    unfold insertStable
    split
    · rename_i hlt
      refine List.pairwise_cons.2 ⟨?_, hs⟩
      intro a' ha'
      rcases List.mem_cons.1 ha' with rfl | ha'
      · exact keyLe_of_keyLt hlt
      · exact keyLe_trans (keyLe_of_keyLt hlt) (hs'.1 a' ha')
    · rename_i hlt
      refine List.pairwise_cons.2 ⟨?_, ih hs'.2⟩
      intro a' ha'
      rcases List.mem_cons.1 ((insertStable_perm e r).mem_iff.1 ha') with rfl | ha'
      · exact keyLe_of_not_keyLt hlt
      · exact hs'.1 a' ha'

theorem add_sorted {l : List (Entry α)} {e : Entry α} (h : Sorted l) : Sorted (add l e) :=
  insertStable_sorted e l h

theorem foldl_add_sorted (es : List (Entry α)) : ∀ acc : List (Entry α), Sorted acc →
    Sorted (es.foldl add acc) := by
  induction es with
  | nil => intro acc h; exact h
  | cons e es ih => intro acc h; exact ih _ (add_sorted h)

theorem sorted_nil : Sorted ([] : List (Entry α)) := List.Pairwise.nil

/-- The layout is ordered by slot index and, within a slot, by offset — for every insertion
sequence. -/
theorem buildLayout_sorted (es : List (Entry α)) : Sorted (buildLayout es) :=
  foldl_add_sorted es [] sorted_nil

/-! ### A.3 independence of the insertion order for distinct keys -/

/-- In a list with pairwise distinct keys, two members with the same key are the same entry. -/
theorem DistinctKeys.eq_of_key {l : List (Entry α)} (hd : DistinctKeys l) {a b : Entry α}
    (ha : a ∈ l) (hb : b ∈ l) (hk : a.index = b.index ∧ a.offset = b.offset) : a = b := by
  have h1 : l.Pairwise (fun a b => a = b ∨ ¬ (a.index = b.index ∧ a.offset = b.offset)) :=
    hd.imp (fun h => Or.inr h)
  have h2 : l.Pairwise (flip fun a b : Entry α => a = b ∨ ¬ (a.index = b.index ∧ a.offset = b.offset)) :=
    hd.imp (fun {a b} h => Or.inr (fun h' => h ⟨h'.1.symm, h'.2.symm⟩))
  have := List.Pairwise.forall_of_forall_of_flip
    (R := fun a b : Entry α => a = b ∨ ¬ (a.index = b.index ∧ a.offset = b.offset))
    (fun x _ => Or.inl rfl) h1 h2 ha hb
  rcases this with h | h
  · exact h
  · exact absurd hk h

/-- With distinct `(index, offset)` keys the layout does not depend on the insertion order. -/
theorem buildLayout_perm_invariant {es₁ es₂ : List (Entry α)} (hd : DistinctKeys es₁)
    (hp : es₁.Perm es₂) : buildLayout es₁ = buildLayout es₂ := by
  refine List.Perm.eq_of_pairwise (le := fun a b => keyLe a b = true) ?_
    (buildLayout_sorted es₁) (buildLayout_sorted es₂)
    ((buildLayout_perm es₁).trans (hp.trans (buildLayout_perm es₂).symm))
  intro a b ha hb hab hba
  have ha' : a ∈ es₁ := mem_buildLayout.1 ha
  have hb' : b ∈ es₁ := hp.mem_iff.2 (mem_buildLayout.1 hb)
  exact hd.eq_of_key ha' hb' (keyLe_antisymm_key hab hba)

/-- More generally: the layout is *the* sorted permutation of the input whenever keys are
distinct. -/
theorem buildLayout_unique_sorted {es l : List (Entry α)} (hd : DistinctKeys es)
    (hp : l.Perm es) (hs : Sorted l) : l = buildLayout es := by
  refine List.Perm.eq_of_pairwise (le := fun a b => keyLe a b = true) ?_ hs
    (buildLayout_sorted es) (hp.trans (buildLayout_perm es).symm)
  intro a b ha hb hab hba
  exact hd.eq_of_key (hp.mem_iff.1 ha) (mem_buildLayout.1 hb) (keyLe_antisymm_key hab hba)

/-! ### A.3' what remains order dependent: equal keys keep their insertion order (stability) -/

/-- `e` carries the key `k = (index, offset)`. -/
def hasKey (k : Nat × Nat) (e : Entry α) : Bool := e.index == k.1 && e.offset == k.2

theorem hasKey_iff (k : Nat × Nat) (e : Entry α) :
    hasKey k e = true ↔ e.index = k.1 ∧ e.offset = k.2 := by
  simp [hasKey]

theorem filter_insertStable (k : Nat × Nat) (e : Entry α) : ∀ (l : List (Entry α)), Sorted l →
    (insertStable e l).filter (hasKey k) =
      if hasKey k e then l.filter (hasKey k) ++ [e] else l.filter (hasKey k) := by
  intro l
  induction l with
  | nil => intro _; cases h : hasKey k e <;> simp [insertStable, h]
  | cons x r ih =>
    intro hs
    have hs' : (∀ a' ∈ r, keyLe x a' = true) ∧ Sorted r := List.pairwise_cons.1 hs
    unfold insertStable
    split
    · rename_i hlt
      cases he : hasKey k e
      · simp [List.filter_cons, he]
      · -- every later entry has a strictly larger key, so none has key `k`
        have hnone : (x :: r).filter (hasKey k) = [] := by
          rw [List.filter_eq_nil_iff]
          intro a' ha' hk
          have hle : keyLe x a' = true := by
            rcases List.mem_cons.1 ha' with rfl | ha'
            · exact keyLe_refl _
            · exact hs'.1 a' ha'
          rw [hasKey_iff] at he hk
          rw [keyLt_iff] at hlt
          rw [keyLe_iff] at hle
          omega
        rw [List.filter_cons, he, hnone]
        simp
    · rename_i hlt
      rw [List.filter_cons, ih hs'.2, List.filter_cons]
      cases he : hasKey k e <;> cases hx : hasKey k x <;> simp

theorem filter_add (k : Nat × Nat) {l : List (Entry α)} (e : Entry α) (hs : Sorted l) :
    (add l e).filter (hasKey k) =
      if hasKey k e then l.filter (hasKey k) ++ [e] else l.filter (hasKey k) :=
  filter_insertStable k e l hs

theorem filter_foldl_add (k : Nat × Nat) (es : List (Entry α)) : ∀ acc : List (Entry α), Sorted acc →
    (es.foldl add acc).filter (hasKey k) = acc.filter (hasKey k) ++ es.filter (hasKey k) := by
  induction es with
  | nil => intro acc _; simp
  | cons e es ih =>
    intro acc hs
    simp only [List.foldl_cons]
    rw [ih _ (add_sorted hs), filter_add k e hs, List.filter_cons]
    cases he : hasKey k e <;> simp

/-- Stability: for every key, the entries carrying that key appear in the layout exactly in their
insertion order.  (So for *equal* keys the layout does depend on the insertion order, and this is
the only dependence: see `buildLayout_eq_iff`.) -/
theorem buildLayout_stable (es : List (Entry α)) (k : Nat × Nat) :
    (buildLayout es).filter (hasKey k) = es.filter (hasKey k) := by
  simpa [buildLayout] using filter_foldl_add k es [] sorted_nil

theorem hasKey_self (a : Entry α) : hasKey (a.index, a.offset) a = true := by simp [hasKey]

/-- A sorted list is determined by its per-key subsequences. -/
theorem sorted_eq_of_filter_eq : ∀ {l₁ l₂ : List (Entry α)}, Sorted l₁ → Sorted l₂ →
    (∀ k, l₁.filter (hasKey k) = l₂.filter (hasKey k)) → l₁ = l₂
  | [], [], _, _, _ => rfl
  | [], b :: r, _, _, h => by
    have := h (b.index, b.offset)
    simp [List.filter_cons, hasKey_self] at this
  | a :: r, [], _, _, h => by
    have := h (a.index, a.offset)
    simp [List.filter_cons, hasKey_self] at this
  | a :: r₁, b :: r₂, h1, h2, h => by
    have h1' : (∀ a' ∈ r₁, keyLe a a' = true) ∧ Sorted r₁ := List.pairwise_cons.1 h1
    have h2' : (∀ a' ∈ r₂, keyLe b a' = true) ∧ Sorted r₂ := List.pairwise_cons.1 h2
    have hab : keyLe a b = true := by
      have hm : b ∈ (a :: r₁).filter (hasKey (b.index, b.offset)) := by
        rw [h]; simp [List.filter_cons, hasKey_self]
      rcases List.mem_cons.1 (List.mem_filter.1 hm).1 with rfl | hm'
      · exact keyLe_refl _
      · exact h1'.1 _ hm'
    have hba : keyLe b a = true := by
      have hm : a ∈ (b :: r₂).filter (hasKey (a.index, a.offset)) := by
        rw [← h]; simp [List.filter_cons, hasKey_self]
      rcases List.mem_cons.1 (List.mem_filter.1 hm).1 with rfl | hm'
      · exact keyLe_refl _
      · exact h2'.1 _ hm'
    have hk := keyLe_antisymm_key hab hba
    have hkb : hasKey (a.index, a.offset) b = true := by
      rw [hasKey_iff]; exact ⟨hk.1.symm, hk.2.symm⟩
    have h0 := h (a.index, a.offset)
    rw [List.filter_cons, List.filter_cons, hasKey_self, hkb] at h0
    simp only [if_true] at h0
    have hab' : a = b := (List.cons.inj h0).1
    subst hab'
    congr 1
    apply sorted_eq_of_filter_eq h1'.2 h2'.2
    intro k
    have hk := h k
    rw [List.filter_cons, List.filter_cons] at hk
    cases hka : hasKey k a <;> simp [hka] at hk <;> exact hk

/-- Exactly what the layout depends on: two insertion sequences give the same layout iff, for each
key, they present the entries carrying that key in the same order. -/
theorem buildLayout_eq_iff (es₁ es₂ : List (Entry α)) :
    buildLayout es₁ = buildLayout es₂ ↔
      ∀ k, es₁.filter (hasKey k) = es₂.filter (hasKey k) := by
  constructor
  · intro h k
    rw [← buildLayout_stable es₁ k, ← buildLayout_stable es₂ k, h]
  · intro h
    apply sorted_eq_of_filter_eq (buildLayout_sorted es₁) (buildLayout_sorted es₂)
    intro k
    rw [buildLayout_stable, buildLayout_stable, h]

/-- The smallest order-dependent instance: two entries with the same key stay in insertion order. -/
theorem buildLayout_equal_keys_order (a b : Entry α) (h : a.index = b.index ∧ a.offset = b.offset) :
    buildLayout [a, b] = [a, b] ∧ buildLayout [b, a] = [b, a] := by
  have h1 : keyLt b a = false := by
    cases hh : keyLt b a
    · rfl
    · rw [keyLt_iff] at hh; omega
  have h2 : keyLt a b = false := by
    cases hh : keyLt a b
    · rfl
    · rw [keyLt_iff] at hh; omega
  simp [buildLayout, add, insertStable, h1, h2]

end Container

/-! ## B. `Itertools::unique` -/

section Unique
variable {α : Type} [BEq α] [LawfulBEq α]

/-- one step of `unique` -/
def uStep (acc : List α) (x : α) : List α := if acc.contains x then acc else acc ++ [x]

omit [LawfulBEq α] in
theorem unique_eq (l : List α) : unique l = l.foldl uStep [] := rfl

theorem mem_uStep {acc : List α} {x y : α} : y ∈ uStep acc x ↔ y ∈ acc ∨ y = x := by
  unfold uStep
  split
  · rename_i h
    have hx : x ∈ acc := by simpa using h
    constructor
    · exact Or.inl
    · rintro (h | rfl)
      · exact h
      · exact hx
  · simp

theorem mem_foldl_uStep (l : List α) : ∀ (acc : List α) (y : α),
    y ∈ l.foldl uStep acc ↔ y ∈ acc ∨ y ∈ l := by
  induction l with
  | nil => intro acc y; simp
  | cons x l ih =>
    intro acc y
    simp only [List.foldl_cons, ih, mem_uStep, List.mem_cons, or_assoc]

theorem nodup_uStep {acc : List α} {x : α} (h : acc.Nodup) : (uStep acc x).Nodup := by
  unfold uStep
  split
  · exact h
  · rename_i hc
    have hx : x ∉ acc := by simpa using hc
    rw [List.nodup_append]
    refine ⟨h, by simp, ?_⟩
    intro a ha b hb
    rw [List.mem_singleton] at hb
    subst hb
    intro hab
    subst hab
    exact hx ha

theorem nodup_foldl_uStep (l : List α) : ∀ acc : List α, acc.Nodup → (l.foldl uStep acc).Nodup := by
  induction l with
  | nil => intro acc h; exact h
  | cons x l ih => intro acc h; exact ih _ (nodup_uStep h)

/-- `unique` has no duplicates. -/
theorem unique_nodup (l : List α) : (unique l).Nodup :=
  nodup_foldl_uStep l [] List.nodup_nil

/-- `unique` keeps exactly the elements of its input. -/
theorem mem_unique {l : List α} {x : α} : x ∈ unique l ↔ x ∈ l := by
  rw [unique_eq, mem_foldl_uStep]; simp

/-- Whatever the order of the input, `unique` yields the same *set* of elements. -/
theorem unique_perm_set {l₁ l₂ : List α} (h : l₁.Perm l₂) (x : α) :
    x ∈ unique l₁ ↔ x ∈ unique l₂ := by
  rw [mem_unique, mem_unique]; exact h.mem_iff

/-- … and hence the two results are permutations of each other. -/
theorem unique_perm {l₁ l₂ : List α} (h : l₁.Perm l₂) : (unique l₁).Perm (unique l₂) := by
  rw [List.perm_ext_iff_of_nodup (unique_nodup l₁) (unique_nodup l₂)]
  exact fun x => unique_perm_set h x

/-- `unique` is a sublist of its input's first occurrences: it is the identity on duplicate-free
input. -/
theorem unique_of_nodup_aux (l : List α) : ∀ acc : List α, (acc ++ l).Nodup →
    l.foldl uStep acc = acc ++ l := by
  induction l with
  | nil => intro acc _; simp
  | cons x l ih =>
    intro acc h
    have hx : x ∉ acc := by
      intro hx
      rw [List.nodup_append] at h
      exact h.2.2 x hx x List.mem_cons_self rfl
    have hs : uStep acc x = acc ++ [x] := by
      unfold uStep
      rw [if_neg]
      simpa using hx
    simp only [List.foldl_cons, hs]
    rw [ih (acc ++ [x]) (by simpa using h)]
    simp

theorem unique_of_nodup {l : List α} (h : l.Nodup) : unique l = l := by
  simpa [unique_eq] using unique_of_nodup_aux l [] (by simpa using h)

end Unique

/-! ## C. Order-independence of the per-class fold -/

section FoldC

/-- one step of the per-class fold -/
def step (acc : Outcome) (e : TE) : Outcome :=
  let o := outcome acc.1 e; (o.1, acc.2 ++ o.2)

theorem foldMerge_cons (x : TE) (l : List TE) : foldMerge (x :: l) = some (l.foldl step (x, [])) := rfl

/-! ### `OutEq` is an equivalence relation -/

theorem Equiv.inl {q s : List (Nat × Nat)} {x y : Nat} (h : Equiv q x y) : Equiv (q ++ s) x y :=
  Equiv.mono (fun p hp => .base (List.mem_append_left _ hp)) h

theorem Equiv.inr {q s : List (Nat × Nat)} {x y : Nat} (h : Equiv s x y) : Equiv (q ++ s) x y :=
  Equiv.mono (fun p hp => .base (List.mem_append_right _ hp)) h

theorem ExprEqMod.symm {E : List (Nat × Nat)} {x y : TE} (h : ExprEqMod E x y) : ExprEqMod E y x := by
  cases x <;> cases y <;> simp only [ExprEqMod] at h ⊢ <;>
    first
    | exact h.symm
    | exact ⟨h.1.symm, h.2.symm⟩

theorem ExprEqMod.mono {E E' : List (Nat × Nat)} (hE : ∀ x y, Equiv E x y → Equiv E' x y) {x y : TE}
    (h : ExprEqMod E x y) : ExprEqMod E' x y := by
  cases x <;> cases y <;> simp only [ExprEqMod] at h ⊢ <;>
    first
    | exact h
    | exact hE _ _ h
    | exact ⟨h.1, hE _ _ h.2⟩
    | exact ⟨hE _ _ h.1, hE _ _ h.2⟩

theorem ExprEqMod.trans {E : List (Nat × Nat)} {x y z : TE} (h1 : ExprEqMod E x y)
    (h2 : ExprEqMod E y z) : ExprEqMod E x z := by
  cases y with
  | fixedArray b lb =>
    cases x <;> simp only [ExprEqMod] at h1 <;> try (cases h1; done)
    cases z <;> simp only [ExprEqMod] at h2 ⊢ <;> try (cases h2; done)
    exact ⟨h1.1.trans h2.1, h1.2.trans h2.2⟩
  | mapping k v =>
    cases x <;> simp only [ExprEqMod] at h1 <;> try (cases h1; done)
    cases z <;> simp only [ExprEqMod] at h2 ⊢ <;> try (cases h2; done)
    exact ⟨h1.1.trans h2.1, h1.2.trans h2.2⟩
  | dynamicArray b =>
    cases x <;> simp only [ExprEqMod] at h1 <;> try (cases h1; done)
    cases z <;> simp only [ExprEqMod] at h2 ⊢ <;> try (cases h2; done)
    exact h1.trans h2
  | _ =>
    cases x <;> simp only [ExprEqMod] at h1 <;> cases h1 <;> exact h2

theorem OutEq.refl (o : Outcome) : OutEq o o := OutEq.same rfl (EqvL.refl _)

theorem OutEq.symm {o1 o2 : Outcome} (h : OutEq o1 o2) : OutEq o2 o1 := by
  rcases h with ⟨h1, h2⟩ | ⟨h1, h2, hq, hx⟩
  · exact .inl ⟨h2, h1⟩
  · exact .inr ⟨h2, h1, fun x y => (hq x y).symm, (ExprEqMod.congr hq _ _).1 (ExprEqMod.symm hx)⟩

theorem OutEq.trans {o1 o2 o3 : Outcome} (h : OutEq o1 o2) (h' : OutEq o2 o3) : OutEq o1 o3 := by
  rcases h with ⟨h1, h2⟩ | ⟨h1, h2, hq, hx⟩
  · rcases h' with ⟨_, h3⟩ | ⟨h3, _⟩
    · exact .inl ⟨h1, h3⟩
    · exact absurd h2 h3
  · rcases h' with ⟨h3, _⟩ | ⟨_, h3, hq', hx'⟩
    · exact absurd h3 h2
    · exact .inr ⟨h1, h3, fun x y => (hq x y).trans (hq' x y),
        ExprEqMod.trans hx ((ExprEqMod.congr hq _ _).2 hx')⟩

/-! ### Congruence of a fold step -/

theorem EqvL.app {q q' s s' : List (Nat × Nat)} (h : EqvL q q')
    (h1 : ∀ p ∈ s, Equiv (q' ++ s') p.1 p.2) (h2 : ∀ p ∈ s', Equiv (q ++ s) p.1 p.2) :
    EqvL (q ++ s) (q' ++ s') := by
  apply EqvL.of_gens
  · intro p hp
    rcases List.mem_append.1 hp with hp | hp
    · exact Equiv.inl ((h _ _).1 (.base hp))
    · exact h1 p hp
  · intro p hp
    rcases List.mem_append.1 hp with hp | hp
    · exact Equiv.inl ((h _ _).2 (.base hp))
    · exact h2 p hp

/-- prefixing both equality lists with the same equalities -/
theorem OutEq.pre (q : List (Nat × Nat)) {o1 o2 : Outcome} (h : OutEq o1 o2) :
    OutEq (o1.1, q ++ o1.2) (o2.1, q ++ o2.2) := by
  rcases h with ⟨h1, h2⟩ | ⟨h1, h2, hq, hx⟩
  · exact .inl ⟨h1, h2⟩
  · exact .inr ⟨h1, h2, EqvL.append (EqvL.refl q) hq, ExprEqMod.mono (fun _ _ => Equiv.inr) hx⟩

theorem OutEq.mk' {x x' : TE} {q q' s s' : List (Nat × Nat)} (hx : x ≠ .conflict)
    (hx' : x' ≠ .conflict) (hq : EqvL q q')
    (h1 : ∀ p ∈ s, Equiv (q' ++ s') p.1 p.2) (h2 : ∀ p ∈ s', Equiv (q ++ s) p.1 p.2)
    (he : ExprEqMod (q ++ s) x x') : OutEq (x, q ++ s) (x', q' ++ s') :=
  .inr ⟨hx, hx', EqvL.app hq h1 h2, he⟩

/-- the step in terms of the closed form `outcomeN` -/
def stepN (acc : Outcome) (c : TE) : Outcome :=
  ((outcomeN acc.1 c).1, acc.2 ++ (outcomeN acc.1 c).2)

theorem step_fst (acc : Outcome) (c : TE) (ha : PF acc.1 = true) (hc : PF c = true) :
    (step acc c).1 = (stepN acc c).1 := outcome_fst _ _ ha hc

theorem step_snd (acc : Outcome) (c : TE) (ha : PF acc.1 = true) (hc : PF c = true) :
    EqvL (step acc c).2 (stepN acc c).2 := EqvL.append (EqvL.refl _) (outcome_snd _ _ ha hc)

theorem step_pf (acc : Outcome) (c : TE) (ha : PF acc.1 = true) (hc : PF c = true) :
    PF (step acc c).1 = true := outcome_pf _ _ ha hc

theorem stepN_same (e : TE) {q q' : List (Nat × Nat)} (hq : EqvL q q') (c : TE) :
    OutEq (stepN (e, q) c) (stepN (e, q') c) :=
  OutEq.same rfl (EqvL.append hq (EqvL.refl _))

theorem stepN_congr {acc acc' : Outcome} (h : OutEq acc acc') (c : TE) (hc : PF c = true) :
    OutEq (stepN acc c) (stepN acc' c) := by
  obtain ⟨e, q⟩ := acc
  obtain ⟨e', q'⟩ := acc'
  rcases h with ⟨h1, h2⟩ | ⟨h1, h2, hq, hx⟩
  · simp only at h1 h2
    subst h1; subst h2
    exact OutEq.conf (by simp [stepN, oN_conf_l]) (by simp [stepN, oN_conf_l])
  · simp only at h1 h2 hq hx
    have hq' : EqvL q q' := hq
    cases e with
    | fixedArray a la =>
      cases e' <;> simp only [ExprEqMod] at hx <;> try (cases hx; done)
      rename_i b lb
      obtain ⟨rfl, hab⟩ := hx
      have hab' : Equiv q' a b := (hq' _ _).1 hab
      cases c <;> simp [PF] at hc <;>
        simp only [stepN, oN_any_r, oN_conf_r, oN_FW, oN_FB, oN_FF, oN_FM, oN_FD]
      case fixedArray r lr =>
        by_cases hl : la = lr
        · simp only [hl, if_true]
          refine OutEq.mk' (by simp) (by simp) hq' ?_ ?_ ?_
          · simp only [forall_mem_cons', forall_mem_nil', and_true]
            exact (Equiv.inl hab').trans (Equiv.inr (.base (by simp)))
          · simp only [forall_mem_cons', forall_mem_nil', and_true]
            exact (Equiv.inl hab.symm).trans (Equiv.inr (.base (by simp)))
          · exact ⟨rfl, Equiv.inl hab⟩
        · simp only [hl, if_false]
          exact OutEq.conf rfl rfl
      case any =>
        exact OutEq.mk' (by simp) (by simp) hq' (by simp) (by simp) ⟨rfl, Equiv.inl hab⟩
      all_goals exact OutEq.conf rfl rfl
    | mapping k v =>
      cases e' <;> simp only [ExprEqMod] at hx <;> try (cases hx; done)
      rename_i k' v'
      obtain ⟨hk, hv⟩ := hx
      have hk' : Equiv q' k k' := (hq' _ _).1 hk
      have hv' : Equiv q' v v' := (hq' _ _).1 hv
      cases c <;> simp [PF] at hc <;>
        simp only [stepN, oN_any_r, oN_conf_r, oN_MW, oN_MB, oN_MF, oN_MM, oN_MD]
      case mapping rk rv =>
        refine OutEq.mk' (by simp) (by simp) hq' ?_ ?_ ?_
        · simp only [forall_mem_cons', forall_mem_nil', and_true]
          exact ⟨(Equiv.inl hk').trans (Equiv.inr (.base (by simp))),
            (Equiv.inl hv').trans (Equiv.inr (.base (by simp)))⟩
        · simp only [forall_mem_cons', forall_mem_nil', and_true]
          exact ⟨(Equiv.inl hk.symm).trans (Equiv.inr (.base (by simp))),
            (Equiv.inl hv.symm).trans (Equiv.inr (.base (by simp)))⟩
        · exact ⟨Equiv.inl hk, Equiv.inl hv⟩
      case any =>
        exact OutEq.mk' (by simp) (by simp) hq' (by simp) (by simp) ⟨Equiv.inl hk, Equiv.inl hv⟩
      all_goals exact OutEq.conf rfl rfl
    | dynamicArray a =>
      cases e' <;> simp only [ExprEqMod] at hx <;> try (cases hx; done)
      rename_i b
      have hab : Equiv q a b := hx
      have hab' : Equiv q' a b := (hq' _ _).1 hab
      cases c <;> simp [PF] at hc <;>
        simp only [stepN, oN_any_r, oN_conf_r, oN_DW, oN_DB, oN_DF, oN_DM, oN_DD]
      case dynamicArray r =>
        refine OutEq.mk' (by simp) (by simp) hq' ?_ ?_ ?_
        · simp only [forall_mem_cons', forall_mem_nil', and_true]
          exact (Equiv.inl hab').trans (Equiv.inr (.base (by simp)))
        · simp only [forall_mem_cons', forall_mem_nil', and_true]
          exact (Equiv.inl hab.symm).trans (Equiv.inr (.base (by simp)))
        · exact Equiv.inl hab
      case any =>
        exact OutEq.mk' (by simp) (by simp) hq' (by simp) (by simp) (Equiv.inl hab)
      case word w u =>
        cases hs : u.isDefinitelySigned <;> simp only [hs, if_true, if_false, Bool.false_eq_true]
        · exact OutEq.mk' (by simp) (by simp) hq' (by simp) (by simp) (Equiv.inl hab)
        · exact OutEq.conf rfl rfl
      case bytes => exact OutEq.same rfl (EqvL.append hq' (EqvL.refl _))
      all_goals exact OutEq.conf rfl rfl
    | _ =>
      cases e' <;> simp only [ExprEqMod] at hx <;> cases hx <;> exact stepN_same _ hq' c

/-- Congruence: a fold step respects `OutEq` of the accumulators (the accumulated expressions may
differ in the choice of representative variables, as long as those are equated). -/
theorem step_congr {acc acc' : Outcome} (h : OutEq acc acc') (ha : PF acc.1 = true)
    (ha' : PF acc'.1 = true) (c : TE) (hc : PF c = true) : OutEq (step acc c) (step acc' c) :=
  (OutEq.congr (step_fst acc c ha hc) (step_snd acc c ha hc) (step_fst acc' c ha' hc)
    (step_snd acc' c ha' hc)).2 (stepN_congr h c hc)

theorem foldl_step_pf (l : List TE) : ∀ acc : Outcome, PF acc.1 = true → (∀ e ∈ l, PF e = true) →
    PF (l.foldl step acc).1 = true := by
  induction l with
  | nil => intro acc h _; exact h
  | cons x l ih =>
    intro acc h hl
    exact ih _ (step_pf acc x h (hl x List.mem_cons_self)) (fun e he => hl e (List.mem_cons_of_mem _ he))

theorem fold_congr (l : List TE) : ∀ {acc acc' : Outcome}, OutEq acc acc' → PF acc.1 = true →
    PF acc'.1 = true → (∀ e ∈ l, PF e = true) → OutEq (l.foldl step acc) (l.foldl step acc') := by
  induction l with
  | nil => intro acc acc' h _ _ _; exact h
  | cons x l ih =>
    intro acc acc' h ha ha' hl
    have hx := hl x List.mem_cons_self
    exact ih (step_congr h ha ha' x hx) (step_pf acc x ha hx) (step_pf acc' x ha' hx)
      (fun e he => hl e (List.mem_cons_of_mem _ he))

/-! ### Swapping two adjacent pieces of evidence -/

theorem step_step (a : TE) (q : List (Nat × Nat)) (x y : TE) :
    step (step (a, q) x) y = ((groupL a x y).1, q ++ (groupL a x y).2) := by
  simp [step, groupL, List.append_assoc]

theorem groupL_swap (a x y : TE) (ha : PF a = true) (hx : PF x = true) (hy : PF y = true)
    (h1 : Bad a x y = false) (h2 : Bad a y x = false) : OutEq (groupL a x y) (groupL a y x) := by
  have e1 : OutEq (groupL a x y) (groupR a x y) := merge_assoc_partial a x y ha hx hy h1
  have e2 : OutEq (groupL a y x) (groupR a y x) := merge_assoc_partial a y x ha hy hx h2
  have c1 : OutEq (groupR a x y) (step (outcome x y) a) :=
    OutEq.pre (outcome x y).2 (merge_comm a (outcome x y).1 ha (outcome_pf x y hx hy))
  have c2 : OutEq (groupR a y x) (step (outcome y x) a) :=
    OutEq.pre (outcome y x).2 (merge_comm a (outcome y x).1 ha (outcome_pf y x hy hx))
  have c3 : OutEq (step (outcome x y) a) (step (outcome y x) a) :=
    step_congr (merge_comm x y hx hy) (outcome_pf x y hx hy) (outcome_pf y x hy hx) a ha
  exact OutEq.trans e1 (OutEq.trans c1 (OutEq.trans c3 (OutEq.trans (OutEq.symm c2) (OutEq.symm e2))))

theorem step_swap (acc : Outcome) (x y : TE) (ha : PF acc.1 = true) (hx : PF x = true)
    (hy : PF y = true) (h1 : Bad acc.1 x y = false) (h2 : Bad acc.1 y x = false) :
    OutEq (step (step acc x) y) (step (step acc y) x) := by
  obtain ⟨a, q⟩ := acc
  rw [step_step, step_step]
  exact OutEq.pre q (groupL_swap a x y ha hx hy h1 h2)

/-! ### The closure lemma: merging keeps the accumulator out of `Bad` -/

theorem absorber_toTE (o) : absorber (toTE o) = false := by
  rcases o with _ | ⟨w, u⟩ <;> rfl

theorem absorber_oN (a x : TE) (ha : PF a = true) (hx : PF x = true)
    (h : absorber (outcomeN a x).1 = true) : absorber a = true ∨ absorber x = true := by
  cases a <;> simp [PF] at ha <;> cases x <;> simp [PF] at hx <;>
    simp only [outcomeN] at h <;>
    first
    | exact Or.inl rfl
    | exact Or.inr rfl
    | (rw [absorber_toTE] at h; cases h)
    | (split at h <;> cases h)
    | cases h

theorem bytes_oN (a x : TE) (ha : PF a = true) (hx : PF x = true)
    (h : (outcomeN a x).1 = .bytes) : a = .bytes ∨ x = .bytes := by
  cases a <;> simp [PF] at ha <;> cases x <;> simp [PF] at hx <;>
    simp [outcomeN] at h ⊢
  all_goals (first | (split at h <;> simp at h) | skip)
  all_goals (rename_i w1 u1 w2 u2; cases hw : wj w1 u1 w2 u2 <;> simp [hw, toTE] at h)

theorem dyn_oN (a x : TE) (p : Nat) (ha : PF a = true) (hx : PF x = true)
    (h : (outcomeN a x).1 = .dynamicArray p) : a = .dynamicArray p ∨ x = .dynamicArray p := by
  cases a <;> simp [PF] at ha <;> cases x <;> simp [PF] at hx <;>
    simp [outcomeN] at h ⊢
  all_goals (first | (split at h <;> simp_all) | simp_all | skip)
  all_goals (rename_i w1 u1 w2 u2; cases hw : wj w1 u1 w2 u2 <;> simp [hw, toTE] at h)

theorem toTE_beq (o : Option (Option Nat × WordUse)) : (toTE o == TE.conflict) = !o.isSome := by
  rcases o with _ | ⟨w, u⟩ <;> simp [toTE]

theorem conflictsN_WW (w1 u1 w2 u2) :
    conflictsN (.word w1 u1) (.word w2 u2) = !(wj w1 u1 w2 u2).isSome := by
  simp only [conflictsN, oN_WW, toTE_beq]

theorem nsWord_oN (a x : TE) (ha : PF a = true) (hx : PF x = true)
    (h : nsWord (outcomeN a x).1 = true) :
    (a = .any ∧ nsWord x = true) ∨ (x = .any ∧ nsWord a = true) ∨
      (nsWord a = true ∧ nsWord x = true ∧ conflictsN a x = false) := by
  cases a <;> simp [PF] at ha <;> cases x <;> simp [PF] at hx <;>
    simp only [outcomeN] at h
  case word.word w1 u1 w2 u2 =>
    refine Or.inr (Or.inr ?_)
    cases hw : wj w1 u1 w2 u2 with
    | none => rw [hw] at h; cases h
    | some p =>
      obtain ⟨w, u⟩ := p
      rw [hw] at h
      have hs := wj_signed hw
      simp only [toTE, nsWord] at h ⊢
      rw [hs] at h
      rw [conflictsN_WW, hw]
      cases h1 : u1.isDefinitelySigned <;> cases h2 : u2.isDefinitelySigned <;> simp [h1, h2] at h ⊢
  all_goals first
    | exact Or.inl ⟨rfl, h⟩
    | exact Or.inr (Or.inl ⟨rfl, h⟩)
    | (split at h <;> cases h)
    | cases h

theorem use_triple : ∀ u1 u2 u3 : WordUse, (u1.merge u2).isSome = true → (u1.merge u3).isSome = true →
    (u2.merge u3).isSome = true → ((u1.merge u2).bind (·.merge u3)).isSome = true := by
  intro u1 u2 u3
  cases u1 <;> cases u2 <;> cases u3 <;> decide

theorem wjoin_triple (w1 w2 w3 : Option Nat) : (wjoin w1 w2).isSome = true →
    (wjoin w1 w3).isSome = true → (wjoin w2 w3).isSome = true →
    ((wjoin w1 w2).bind (wjoin · w3)).isSome = true := by
  cases w1 <;> cases w2 <;> cases w3 <;> simp [wjoin] <;> intros <;> simp_all [wjoin]

theorem wj_isSome (w1 u1 w2 u2) :
    (wj w1 u1 w2 u2).isSome = ((wjoin w1 w2).isSome && (u1.merge u2).isSome) := by
  unfold wj
  cases wjoin w1 w2 <;> cases u1.merge u2 <;> rfl

theorem wj_triple (w1 u1 w2 u2 w3 u3) (h12 : (wj w1 u1 w2 u2).isSome = true)
    (h13 : (wj w1 u1 w3 u3).isSome = true) (h23 : (wj w2 u2 w3 u3).isSome = true) :
    ((wj w1 u1 w2 u2).bind fun p => wj p.1 p.2 w3 u3).isSome = true := by
  rw [wj_isSome, Bool.and_eq_true] at h12 h13 h23
  have hw := wjoin_triple w1 w2 w3 h12.1 h13.1 h23.1
  have hu := use_triple u1 u2 u3 h12.2 h13.2 h23.2
  unfold wj at *
  cases h1 : wjoin w1 w2 with
  | none => rw [h1] at hw; cases hw
  | some w =>
    cases h2 : u1.merge u2 with
    | none => rw [h2] at hu; cases hu
    | some u =>
      rw [h1] at hw; rw [h2] at hu
      simp only [Option.bind_some] at hw hu ⊢
      cases h3 : wjoin w w3 with
      | none => rw [h3] at hw; cases hw
      | some w' =>
        cases h4 : u.merge u3 with
        | none => rw [h4] at hu; cases hu
        | some u' => rfl

/-- On words, pairwise joinability implies joint joinability. -/
theorem conflictsN_join (a x y : TE) (ha : nsWord a = true) (hx : nsWord x = true)
    (hy : nsWord y = true) (hax : conflictsN a x = false) (hay : conflictsN a y = false)
    (hxy : conflictsN x y = false) : conflictsN (outcomeN a x).1 y = false := by
  cases a <;> simp [nsWord] at ha
  cases x <;> simp [nsWord] at hx
  cases y <;> simp [nsWord] at hy
  rename_i w1 u1 w2 u2 w3 u3
  rw [conflictsN_WW] at hax hay hxy
  simp only [conflictsN, oN_WW, outN_toTE_word, toTE_beq]
  have := wj_triple w1 u1 w2 u2 w3 u3 (by simpa using hax) (by simpa using hay) (by simpa using hxy)
  simp [this]

theorem BadN_of1 {a b c : TE} (h1 : absorber a = true) (h2 : nsWord b = true) (h3 : nsWord c = true)
    (h4 : conflictsN b c = true) : BadN a b c = true := by
  simp [BadN, h1, h2, h3, h4]

theorem BadN_of2 {a b c : TE} (h1 : absorber c = true) (h2 : nsWord a = true) (h3 : nsWord b = true)
    (h4 : conflictsN a b = true) : BadN a b c = true := by
  simp [BadN, h1, h2, h3, h4]

theorem BadN_of3 {p q : Nat} (h : p ≠ q) : BadN .bytes (.dynamicArray p) (.dynamicArray q) = true := by
  simp [BadN, absorber, nsWord, h]

theorem BadN_of4 {p q : Nat} (h : p ≠ q) : BadN (.dynamicArray p) (.dynamicArray q) .bytes = true := by
  simp [BadN, absorber, nsWord, h]

/-- Closure: if neither `a` nor `x` forms a bad triple with `y`, `z`, their merge does not either. -/
theorem closureN (a x y z : TE) (ha : PF a = true) (hx : PF x = true)
    (h1 : BadN a y z = false) (h2 : BadN x y z = false) : BadN (outcomeN a x).1 y z = false := by
  cases hB : BadN (outcomeN a x).1 y z with
  | false => rfl
  | true =>
    exfalso
    unfold BadN at hB
    simp only [Bool.or_eq_true, Bool.and_eq_true] at hB
    rcases hB with (⟨⟨⟨hA, hy⟩, hz⟩, hc⟩ | ⟨⟨⟨hA, hr⟩, hy⟩, hc⟩) | hm
    · rcases absorber_oN a x ha hx hA with hA' | hA'
      · rw [BadN_of1 hA' hy hz hc] at h1; cases h1
      · rw [BadN_of1 hA' hy hz hc] at h2; cases h2
    · rcases nsWord_oN a x ha hx hr with ⟨rfl, hnx⟩ | ⟨rfl, hna⟩ | ⟨hna, hnx, hax⟩
      · rw [oN_any_l] at hc
        rw [BadN_of2 hA hnx hy hc] at h2; cases h2
      · rw [oN_any_r] at hc
        rw [BadN_of2 hA hna hy hc] at h1; cases h1
      · have hay : conflictsN a y = false := by
          cases h : conflictsN a y with
          | false => rfl
          | true => rw [BadN_of2 hA hna hy h] at h1; cases h1
        have hxy : conflictsN x y = false := by
          cases h : conflictsN x y with
          | false => rfl
          | true => rw [BadN_of2 hA hnx hy h] at h2; cases h2
        rw [conflictsN_join a x y hna hnx hy hax hay hxy] at hc
        cases hc
    · split at hm
      · rename_i p q hr
        have hpq : p ≠ q := by simpa using hm
        rcases bytes_oN a x ha hx hr with rfl | rfl
        · rw [BadN_of3 hpq] at h1; cases h1
        · rw [BadN_of3 hpq] at h2; cases h2
      · rename_i p q hr
        have hpq : p ≠ q := by simpa using hm
        rcases dyn_oN a x p ha hx hr with rfl | rfl
        · rw [BadN_of4 hpq] at h1; cases h1
        · rw [BadN_of4 hpq] at h2; cases h2
      · cases hm

theorem closure (a x y z : TE) (ha : PF a = true) (hx : PF x = true) (hy : PF y = true)
    (hz : PF z = true) (h1 : Bad a y z = false) (h2 : Bad x y z = false) :
    Bad (outcome a x).1 y z = false := by
  rw [Bad_eq _ _ _ (outcome_pf a x ha hx) hy hz, outcome_fst a x ha hx]
  rw [Bad_eq _ _ _ ha hy hz] at h1
  rw [Bad_eq _ _ _ hx hy hz] at h2
  exact closureN a x y z ha hx h1 h2

/-! ### The fold is invariant under permutations -/

/-- The invariant carried along the fold: the accumulator `a` forms no bad triple with two
remaining pieces of evidence, and the remaining evidence contains no bad triple. -/
def Ok3 (a : TE) (l : List TE) : Prop :=
  (∀ x ∈ l, ∀ y ∈ l, Bad a x y = false) ∧ NoBadTriple l

theorem Ok3.perm {a : TE} {l l' : List TE} (hp : l.Perm l') (h : Ok3 a l) : Ok3 a l' :=
  ⟨fun x hx y hy => h.1 x (hp.mem_iff.2 hx) y (hp.mem_iff.2 hy),
   fun x hx y hy z hz => h.2 x (hp.mem_iff.2 hx) y (hp.mem_iff.2 hy) z (hp.mem_iff.2 hz)⟩

theorem Ok3.step {a x : TE} {l : List TE} (ha : PF a = true) (hl : ∀ e ∈ x :: l, PF e = true)
    (h : Ok3 a (x :: l)) : Ok3 (outcome a x).1 l := by
  have hx := hl x List.mem_cons_self
  refine ⟨fun y hy z hz => ?_, fun p hp q hq r hr => ?_⟩
  · have hy' := List.mem_cons_of_mem x hy
    have hz' := List.mem_cons_of_mem x hz
    exact closure a x y z ha hx (hl y hy') (hl z hz') (h.1 y hy' z hz')
      (h.2 x List.mem_cons_self y hy' z hz')
  · exact h.2 p (List.mem_cons_of_mem x hp) q (List.mem_cons_of_mem x hq) r (List.mem_cons_of_mem x hr)

/-- Core of C: from any accumulator that satisfies the invariant, folding two permutations of the
same evidence gives the same outcome. -/
theorem fold_perm {l l' : List TE} (hp : l.Perm l') : ∀ acc : Outcome, PF acc.1 = true →
    (∀ e ∈ l, PF e = true) → Ok3 acc.1 l → OutEq (l.foldl step acc) (l'.foldl step acc) := by
  induction hp with
  | nil => intro acc _ _ _; exact OutEq.refl _
  | cons x _ ih =>
    intro acc ha hl hok
    simp only [List.foldl_cons]
    exact ih (step acc x) (step_pf acc x ha (hl x List.mem_cons_self))
      (fun e he => hl e (List.mem_cons_of_mem _ he)) (Ok3.step ha hl hok)
  | swap x y l =>
    intro acc ha hl hok
    simp only [List.foldl_cons]
    have hy : PF y = true := hl y List.mem_cons_self
    have hx : PF x = true := hl x (List.mem_cons_of_mem _ List.mem_cons_self)
    have hmy : y ∈ y :: x :: l := List.mem_cons_self
    have hmx : x ∈ y :: x :: l := List.mem_cons_of_mem _ List.mem_cons_self
    refine fold_congr l (step_swap acc y x ha hy hx (hok.1 y hmy x hmx) (hok.1 x hmx y hmy))
      (step_pf _ _ (step_pf _ _ ha hy) hx) (step_pf _ _ (step_pf _ _ ha hx) hy)
      (fun e he => hl e (List.mem_cons_of_mem _ (List.mem_cons_of_mem _ he)))
  | trans h1 h2 ih1 ih2 =>
    intro acc ha hl hok
    exact OutEq.trans (ih1 acc ha hl hok)
      (ih2 acc ha (fun e he => hl e (h1.mem_iff.2 he)) (Ok3.perm h1 hok))

theorem step_any (x : TE) (hx : PF x = true) : step (.any, []) x = (x, []) := by
  have h := outcome_eq .any x rfl hx
  unfold step
  simp only [h, outcomeE]
  split
  · rename_i he; subst he; rfl
  · simp [oN_any_l]

/-- The fold started at the first piece of evidence is the fold started at the unit `any`. -/
theorem foldMerge_eq_fold_any (x : TE) (l : List TE) (hx : PF x = true) :
    foldMerge (x :: l) = some ((x :: l).foldl step (.any, [])) := by
  rw [foldMerge_cons, List.foldl_cons, step_any x hx]

theorem Bad_any (x y : TE) : Bad .any x y = false := by
  cases x <;> cases y <;> simp [Bad, absorber, nsWord]

theorem Ok3_any {l : List TE} (h : NoBadTriple l) : Ok3 .any l :=
  ⟨fun x _ y _ => Bad_any x y, h⟩

/-- **C.** On the `Equal`-free, packed-free fragment, if no three pieces of evidence of a class fall
in the non-associativity region `Bad`, then the per-class fold gives the same outcome (up to
conflict wording and choice of representative among equated variables) for every order of the
evidence.  `NoBadTriple` on the *original* evidence suffices: see `closure`. -/
theorem foldMerge_perm {l₁ l₂ : List TE} (hpf : ∀ e ∈ l₁, PF e = true) (hnb : NoBadTriple l₁)
    (hp : l₁.Perm l₂) (hne : l₁ ≠ []) :
    ∃ o₁ o₂, foldMerge l₁ = some o₁ ∧ foldMerge l₂ = some o₂ ∧ OutEq o₁ o₂ := by
  cases l₁ with
  | nil => exact absurd rfl hne
  | cons x r =>
    cases l₂ with
    | nil => exact absurd hp.eq_nil (by simp)
    | cons y r' =>
      have hy : PF y = true := hpf y (hp.mem_iff.2 List.mem_cons_self)
      exact ⟨_, _, foldMerge_eq_fold_any x r (hpf x List.mem_cons_self),
        foldMerge_eq_fold_any y r' hy, fold_perm hp (.any, []) rfl hpf (Ok3_any hnb)⟩

theorem foldMerge_perm_nil {l₂ : List TE} (hp : ([] : List TE).Perm l₂) :
    foldMerge [] = none ∧ foldMerge l₂ = none := by
  have h := hp.nil_eq
  subst h
  exact ⟨rfl, rfl⟩

/-- Both cases at once. -/
theorem foldMerge_perm' {l₁ l₂ : List TE} (hpf : ∀ e ∈ l₁, PF e = true) (hnb : NoBadTriple l₁)
    (hp : l₁.Perm l₂) :
    (foldMerge l₁ = none ∧ foldMerge l₂ = none) ∨
    ∃ o₁ o₂, foldMerge l₁ = some o₁ ∧ foldMerge l₂ = some o₂ ∧ OutEq o₁ o₂ := by
  by_cases hne : l₁ = []
  · subst hne; exact .inl (foldMerge_perm_nil hp)
  · exact .inr (foldMerge_perm hpf hnb hp hne)

/-- `NoBadTriple` is decidable: a `Bool`-valued version. -/
def noBadTripleB (l : List TE) : Bool := l.all fun a => l.all fun b => l.all fun c => !Bad a b c

theorem noBadTripleB_iff (l : List TE) : noBadTripleB l = true ↔ NoBadTriple l := by
  simp [noBadTripleB, NoBadTriple]

instance (l : List TE) : Decidable (NoBadTriple l) :=
  decidable_of_iff _ (noBadTripleB_iff l)

/-! ### The negative witness (finding D11 at the level of the fold) -/

theorem foldMerge_witness₁ :
    foldMerge [.bytes, .word (some 8) .bool, .word (some 160) .address] = some (.bytes, []) := by
  rfl

theorem foldMerge_witness₂ :
    foldMerge [.word (some 8) .bool, .word (some 160) .address, .bytes] = some (.conflict, []) := by
  rfl

/-- The pinned fold *is* order dependent: absorbing `bool` and `address` into dynamic `bytes` one
at a time succeeds, whereas merging them first is a conflict. -/
theorem foldMerge_order_dependent_witness_ex :
    ∃ o₁ o₂,
      foldMerge [.bytes, .word (some 8) .bool, .word (some 160) .address] = some o₁ ∧
      foldMerge [.word (some 8) .bool, .word (some 160) .address, .bytes] = some o₂ ∧
      ([TE.bytes, .word (some 8) .bool, .word (some 160) .address]).Perm
        [.word (some 8) .bool, .word (some 160) .address, .bytes] ∧
      (∀ e ∈ [TE.bytes, .word (some 8) .bool, .word (some 160) .address], PF e = true) ∧
      ¬ OutEq o₁ o₂ := by
  refine ⟨_, _, foldMerge_witness₁, foldMerge_witness₂, ?_, ?_, ?_⟩
  · exact (List.perm_append_comm (l₁ := [TE.bytes])
      (l₂ := [.word (some 8) .bool, .word (some 160) .address]))
  · intro e he
    simp at he
    rcases he with rfl | rfl | rfl <;> rfl
  · rintro (⟨h, _⟩ | ⟨_, h, _⟩)
    · cases h
    · exact h rfl

/-- The requested shape: whatever the two folds return, the outcomes are not `OutEq`. -/
theorem foldMerge_order_dependent_witness (o₁ o₂ : Outcome)
    (h₁ : foldMerge [.bytes, .word (some 8) .bool, .word (some 160) .address] = some o₁)
    (h₂ : foldMerge [.word (some 8) .bool, .word (some 160) .address, .bytes] = some o₂) :
    ¬ OutEq o₁ o₂ := by
  rw [foldMerge_witness₁] at h₁
  rw [foldMerge_witness₂] at h₂
  cases h₁; cases h₂
  rintro (⟨h, _⟩ | ⟨_, h, _⟩)
  · cases h
  · exact h rfl

/-- … and, consistently, that evidence contains a bad triple. -/
theorem witness_has_bad_triple :
    ¬ NoBadTriple [.bytes, .word (some 8) .bool, .word (some 160) .address] := by
  decide

end FoldC

end SLE.Layout
