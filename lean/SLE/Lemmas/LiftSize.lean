import SLE.Model.Lift
import SLE.Model.Pipe
import SLE.Model.TC
import SLE.Lemmas.Fold
import SLE.Lemmas.VMSize
import SLE.Props.C18
/-!
C18 under lifting: each of the nine lifting passes keeps "every node records its true size"
(`WF`), hence so does `liftAll`; and the values the type checker receives from the machine
are `WF` before and after lifting.
-/
namespace SLE.LiftSize
open SLE SLE.SV SLE.Lift SLE.VM
open SLE.VMSize (wfList_iff wf_kids wf_rebuild' Good GoodGen GoodD)

/-! ### small helpers -/

theorem wf_mkKnownNat (w : Nat) : WF (mkKnownNat w) := by
  simp [mkKnownNat, WF, WFList, nodeCountList]

/-- re-wrapping a well-formed node over its own kids -/
theorem wf_rewrap {v : SV} (h : WF v) : WF (rebuild v.kind v.attrs v.kids) := by
  cases v with
  | node k a ks s => exact wf_rebuild' (wf_kids h)

theorem wf_map {f : SV → SV} {ks : List SV} (hk : ∀ x ∈ ks, WF x) (hf : ∀ x, WF x → WF (f x)) :
    ∀ x ∈ ks.map f, WF x := by
  intro x hx
  obtain ⟨y, hy, rfl⟩ := List.mem_map.mp hx
  exact hf y (hk y hy)

theorem wf_pair {a b : SV} (ha : WF a) (hb : WF b) : ∀ x ∈ [a, b], WF x := by
  intro x hx
  simp only [List.mem_cons, List.not_mem_nil, or_false] at hx
  rcases hx with rfl | rfl
  · exact ha
  · exact hb

theorem wf_single {a : SV} (ha : WF a) : ∀ x ∈ [a], WF x := by
  intro x hx
  rw [List.mem_singleton.mp hx]; exact ha

/-! ### L1.1 StorageSlotHashes -/

theorem slotHashesT_ok (h : HashCtx) :
    ∀ k a ks k' a' ks', WFList ks → slotHashesT h k a ks = some (k', a', ks') → WFList ks' := by
  intro k a ks k' a' ks' _ e
  unfold slotHashesT at e
  split at e
  · split at e
    · cases e
      exact (wfList_iff _).mpr (wf_single (wf_mkKnownNat _))
    · cases e
  · cases e

theorem wf_slotHashes (h : HashCtx) (v : SV) (hv : WF v) : WF (transform (slotHashesT h) v) :=
  wf_transform _ (slotHashesT_ok h) v hv

/-! ### L1.2 ProxySlots -/

theorem wf_unpickSha3Data (h : HashCtx) (v nk : SV) (e : unpickSha3Data h v = some nk) : WF nk := by
  unfold unpickSha3Data at e
  split_all at e
  all_goals first
    | (cases e; done)
    | (cases e; exact wf_mkKnownNat _)

theorem wf_unpickProxySlots (h : HashCtx) (key nk : SV) (e : unpickProxySlots h key = some nk) :
    WF nk := by
  unfold unpickProxySlots at e
  split at e
  · dsimp only at e
    split at e
    · split at e
      · cases e; exact wf_fold _
      · cases e
    · cases e
  · exact wf_unpickSha3Data h _ _ e

theorem wf_proxyKey (h : HashCtx) (fuel : Nat) (key : SV)
    (ih : ∀ v, WF v → WF (proxySlots h fuel v)) (hk : WF key) :
    WF (match unpickProxySlots h key with
        | some nk => rebuild nk.kind nk.attrs nk.kids | none => proxySlots h fuel key) := by
  split
  · exact wf_rewrap (wf_unpickProxySlots h _ _ ‹_›)
  · exact ih _ hk

theorem wf_proxySlots (h : HashCtx) : ∀ (fuel : Nat) (v : SV), WF v → WF (proxySlots h fuel v)
  | 0, v, hv => by unfold proxySlots; exact hv
  | fuel + 1, .node k attrs ks s, hv => by
    have ih := wf_proxySlots h fuel
    have hk := wf_kids hv
    unfold proxySlots
    split
    · exact wf_rebuild' (wf_pair (wf_proxyKey h fuel _ ih (hk _ (by simp))) (ih _ (hk _ (by simp))))
    · exact wf_rebuild' (wf_pair (wf_proxyKey h fuel _ ih (hk _ (by simp))) (ih _ (hk _ (by simp))))
    · exact wf_rebuild' (wf_map hk ih)

/-! ### L1.3 MappingIndex, and the storage guard -/

theorem wf_insertMappingAccesses : ∀ (fuel : Nat) (v : SV), WF v → WF (insertMappingAccesses fuel v)
  | 0, v, hv => by unfold insertMappingAccesses; exact hv
  | fuel + 1, .node k attrs ks s, hv => by
    have ih := wf_insertMappingAccesses fuel
    have hk := wf_kids hv
    unfold insertMappingAccesses
    split
    · have hc := wf_kids (hk _ List.mem_cons_self)
      exact wf_rebuild' (wf_pair (ih _ (hc _ (by simp))) (ih _ (hc _ (by simp))))
    · exact wf_rebuild' (wf_map hk ih)

theorem guardStorage_ok (inner : SV → SV) (hi : ∀ v, WF v → WF (inner v)) :
    ∀ k a ks k' a' ks', (∀ x ∈ ks, WF x) → guardStorage inner k a ks = some (k', a', ks') →
      ∀ x ∈ ks', WF x := by
  intro k a ks k' a' ks' hk e
  unfold guardStorage at e
  split at e
  · cases e; exact wf_pair (hi _ (hk _ (by simp))) (hi _ (hk _ (by simp)))
  · cases e; exact wf_pair (hi _ (hk _ (by simp))) (hi _ (hk _ (by simp)))
  · cases e; exact wf_single (hi _ (hk _ (by simp)))
  · cases e

theorem wf_guarded (inner : SV → SV) (hi : ∀ v, WF v → WF (inner v)) :
    ∀ (fuel : Nat) (v : SV), WF v → WF (guarded inner fuel v)
  | 0, v, hv => by unfold guarded; exact hv
  | fuel + 1, .node k attrs ks s, hv => by
    have ih := wf_guarded inner hi fuel
    have hk := wf_kids hv
    unfold guarded
    split
    · exact wf_rebuild' (guardStorage_ok inner hi _ _ _ _ _ _ hk ‹_›)
    · exact wf_rebuild' (wf_map hk ih)

/-! ### L1.4 SubWordValue -/

theorem mapE_all {α β ε : Type} (f : α → Except ε β) (P : α → Prop) (Q : β → Prop)
    (hf : ∀ x y, P x → f x = .ok y → Q y) :
    ∀ (l : List α) (r : List β), mapE f l = .ok r → (∀ x ∈ l, P x) → ∀ y ∈ r, Q y
  | [], r, e, _ => by
    simp only [mapE] at e
    cases e
    intro y hy; cases hy
  | x :: xs, r, e, hl => by
    simp only [mapE] at e
    split at e
    · cases e
    · rename_i y hy
      split at e
      · cases e
      · rename_i ys hys
        cases e
        intro z hz
        rcases List.mem_cons.mp hz with rfl | hz
        · exact hf x _ (hl x (by simp)) hy
        · exact mapE_all f P Q hf xs ys hys (fun a ha => hl a (by simp [ha])) z hz

/-- the generic arm of the `Except`-valued passes -/
theorem wf_genericE (f : SV → Except LFault SV) (hf : ∀ x y, WF x → f x = .ok y → WF y)
    (k : Kind) (attrs : List Nat) (ks : List SV) (hk : ∀ x ∈ ks, WF x) (v' : SV)
    (e : (match mapE f ks with
          | .ok ks' => Except.ok (rebuild k attrs ks')
          | .error e => .error e) = .ok v') : WF v' := by
  split at e
  · rename_i ks' hks
    cases e
    exact wf_rebuild' (mapE_all f WF WF hf ks ks' hks hk)
  · cases e

theorem wf_getShift (value : SV) (hv : WF value) : WF (getShift value).1 := by
  unfold getShift
  split_all
  all_goals first
    | exact hv
    | exact wf_kids hv _ (by simp)

theorem wf_insertSubWords : ∀ (fuel : Nat) (v v' : SV),
    WF v → insertSubWords fuel v = .ok v' → WF v'
  | 0, v, v', hv, e => by
    unfold insertSubWords at e
    cases e; exact hv
  | fuel + 1, .node k attrs ks s, v', hv, e => by
    have ih := wf_insertSubWords fuel
    have hk := wf_kids hv
    have hgen := wf_genericE (insertSubWords fuel) ih k attrs ks hk v'
    unfold insertSubWords at e
    dsimp only at e
    split at e
    · split at e
      · rename_i pick value offset length heq
        have hval : WF value := by
          split at heq
          · cases heq; exact hk _ (by simp)
          · split at heq
            · cases heq; exact hk _ (by simp)
            · cases heq
        split at e
        · exact hgen e
        · split at e
          · cases e
          · rename_i v2 hv2
            have h2 : WF v2 := ih _ _ (wf_getShift value hval) hv2
            split at e
            · exact hgen e
            · cases e
              refine wf_rebuild' (wf_single ?_)
              split
              · split
                · exact wf_kids h2 _ (by simp)
                · exact h2
              · exact h2
      · exact hgen e
    · exact hgen e

/-! ### L1.5 MulShiftedValue -/

theorem wf_insertMulShifts : ∀ (fuel : Nat) (v : SV), WF v → WF (insertMulShifts fuel v)
  | 0, v, hv => by unfold insertMulShifts; exact hv
  | fuel + 1, .node k attrs ks s, hv => by
    have ih := wf_insertMulShifts fuel
    have hk := wf_kids hv
    have hgen : WF (rebuild k attrs (ks.map (insertMulShifts fuel))) := wf_rebuild' (wf_map hk ih)
    unfold insertMulShifts
    dsimp only
    split
    · split
      · rename_i pick c value heq
        have hval : WF value := by
          split at heq
          · cases heq; exact ih _ (hk _ (by simp))
          · split at heq
            · cases heq; exact ih _ (hk _ (by simp))
            · cases heq
        split
        · split
          · split
            · exact hgen
            · exact wf_rebuild' (wf_single hval)
          · exact wf_rebuild' (wf_single hval)
        · exact hgen
      · exact hgen
    · exact hgen

/-! ### L1.6 PackedEncoding -/

theorem wf_unpickOrs : ∀ (fuel : Nat) (v : SV), WF v → ∀ x ∈ unpickOrs fuel v, WF x
  | 0, v, hv => by
    unfold unpickOrs
    exact wf_single hv
  | fuel + 1, v, hv => by
    unfold unpickOrs
    split
    · intro x hx
      rcases List.mem_append.mp hx with hx | hx
      · exact wf_unpickOrs fuel _ (wf_kids hv _ (by simp)) x hx
      · exact wf_unpickOrs fuel _ (wf_kids hv _ (by simp)) x hx
    · exact wf_single hv

theorem insertSpan_all (Q : Nat × Nat × SV → Prop) (s : Nat × Nat × SV) (hs : Q s) :
    ∀ l : List (Nat × Nat × SV), (∀ t ∈ l, Q t) → ∀ t ∈ insertSpan s l, Q t
  | [], _ => by
    intro t ht
    simp only [insertSpan, List.mem_singleton] at ht
    rw [ht]; exact hs
  | u :: r, hl => by
    intro t ht
    simp only [insertSpan] at ht
    split at ht
    · rcases List.mem_cons.mp ht with rfl | ht
      · exact hs
      · exact hl t ht
    · rcases List.mem_cons.mp ht with rfl | ht
      · exact hl _ (by simp)
      · exact insertSpan_all Q s hs r (fun a ha => hl a (by simp [ha])) t ht

theorem sortSpans_all (Q : Nat × Nat × SV → Prop) (l : List (Nat × Nat × SV))
    (hl : ∀ t ∈ l, Q t) : ∀ t ∈ sortSpans l, Q t := by
  unfold sortSpans
  have : ∀ (l acc : List (Nat × Nat × SV)), (∀ t ∈ l, Q t) → (∀ t ∈ acc, Q t) →
      ∀ t ∈ l.foldl (fun acc s => insertSpan s acc) acc, Q t := by
    intro l
    induction l with
    | nil => intro acc _ ha; exact ha
    | cons s l ih =>
      intro acc hl ha
      simp only [List.foldl_cons]
      exact ih _ (fun a h => hl a (by simp [h])) (insertSpan_all Q s (hl s (by simp)) acc ha)
  exact this l [] hl (by intro t ht; cases ht)

theorem wf_liftPacked : ∀ (fuel : Nat) (v v' : SV), WF v → liftPacked fuel v = .ok v' → WF v'
  | 0, v, v', hv, e => by
    unfold liftPacked at e
    cases e; exact hv
  | fuel + 1, .node k attrs ks s, v', hv, e => by
    have ih := wf_liftPacked fuel
    have hk := wf_kids hv
    have hgen := wf_genericE (liftPacked fuel) ih k attrs ks hk v'
    unfold liftPacked at e
    dsimp only at e
    split at e
    · rename_i key value
      have hkey : WF key := hk _ (by simp)
      have hvalue : WF value := hk _ (by simp)
      split at e
      · exact hgen e
      · split at e
        · cases e
        · rename_i spans0 hspans
          have h0 : ∀ t ∈ spans0, WF t.2.2 := by
            refine mapE_all _ WF (fun t => WF t.2.2) ?_ _ _ hspans
              (wf_unpickOrs _ _ hvalue)
            intro x y hx hxy
            split at hxy
            · cases hxy; exact hx
            · split at hxy
              · cases hxy; exact wf_kids hx _ (by simp)
              · cases hxy
            · cases hxy
          have h1 := sortSpans_all (fun t => WF t.2.2) spans0 h0
          split at e
          · cases e
          · split at e
            · cases e
              refine wf_rebuild' (wf_pair hkey (wf_rebuild' ?_))
              intro x hx
              obtain ⟨t, ht, rfl⟩ := List.mem_map.mp hx
              exact h1 t (List.mem_filter.mp ht).1
            · exact hgen e
    · exact hgen e

/-! ### L1.7 DynamicArrayIndex -/

theorem wf_liftDynArray : ∀ (fuel : Nat) (v : SV), WF v → WF (liftDynArray fuel v)
  | 0, v, hv => by unfold liftDynArray; exact hv
  | fuel + 1, .node k attrs ks s, hv => by
    have ih := wf_liftDynArray fuel
    have hk := wf_kids hv
    have hgen : WF (rebuild k attrs (ks.map (liftDynArray fuel))) := wf_rebuild' (wf_map hk ih)
    unfold liftDynArray
    dsimp only
    split
    · rename_i left right
      have hl : WF left := hk _ (by simp)
      have hr : WF right := hk _ (by simp)
      split
      · exact hgen
      · rename_i dataOpt data heq
        have hdata : WF data := by
          split at heq
          · cases heq; exact wf_kids hl _ (by simp)
          · split at heq
            · cases heq; exact wf_kids hr _ (by simp)
            · cases heq
        split
        · exact hgen
        · rename_i data' d heq'
          have hd : WF d := by
            split at heq'
            · cases heq'; exact wf_fold _
            · cases heq'
            · cases heq'; exact hdata
          exact wf_rebuild' (wf_pair (ih _ hd) (ih _ hr))
    · exact hgen

/-! ### L1.8 StorageSlots -/

theorem wf_insertStorageSlots : ∀ (fuel : Nat) (v : SV), WF v → WF (insertStorageSlots fuel v)
  | 0, v, hv => by unfold insertStorageSlots; exact hv
  | fuel + 1, .node k attrs ks s, hv => by
    have ih := wf_insertStorageSlots fuel
    have hk := wf_kids hv
    have hwrap : ∀ slot : SV, WF slot →
        WF (if slot.kind == .storageSlot then rebuild slot.kind slot.attrs slot.kids
            else rebuild .storageSlot [] [insertStorageSlots fuel slot]) := by
      intro slot hs
      split
      · exact wf_rewrap hs
      · exact wf_rebuild' (wf_single (ih _ hs))
    unfold insertStorageSlots
    dsimp only
    split
    · exact wf_rebuild' (wf_pair (hwrap _ (hk _ (by simp))) (ih _ (hk _ (by simp))))
    · exact wf_rebuild' (wf_pair (hwrap _ (hk _ (by simp))) (ih _ (hk _ (by simp))))
    · exact wf_rebuild' (wf_pair (hwrap _ (hk _ (by simp))) (ih _ (hk _ (by simp))))
    · exact wf_rebuild' (wf_pair (hwrap _ (hk _ (by simp))) (ih _ (hk _ (by simp))))
    · exact wf_rebuild' (wf_map hk ih)

/-! ### L1.9 MappingOffset -/

theorem wf_insertMappingOffset : ∀ (fuel : Nat) (v : SV), WF v → WF (insertMappingOffset fuel v)
  | 0, v, hv => by unfold insertMappingOffset; exact hv
  | fuel + 1, .node k attrs ks s, hv => by
    have ih := wf_insertMappingOffset fuel
    have hk := wf_kids hv
    have hgen : WF (rebuild k attrs (ks.map (insertMappingOffset fuel))) :=
      wf_rebuild' (wf_map hk ih)
    unfold insertMappingOffset
    dsimp only
    split
    · rename_i left right
      have hl : WF left := hk _ (by simp)
      have hr : WF right := hk _ (by simp)
      split
      · rename_i pick key slot off heq
        have hks : WF key ∧ WF slot := by
          split at heq
          · split at heq
            · cases heq; exact ⟨wf_kids hl _ (by simp), wf_kids hl _ (by simp)⟩
            · cases heq
          · split at heq
            · cases heq; exact ⟨wf_kids hr _ (by simp), wf_kids hr _ (by simp)⟩
            · cases heq
          · cases heq
        exact wf_rebuild' (wf_pair (ih _ hks.2) (ih _ hks.1))
      · exact hgen
    · exact hgen

/-! ### L2 the whole pipeline -/

theorem liftAll_wf (h : HashCtx) (v v' : SV) (hv : WF v) (hl : liftAll h v = .ok v') : WF v' := by
  unfold liftAll at hl
  dsimp only at hl
  have h1 := wf_slotHashes h v hv
  have h2 := fun f => wf_proxySlots h f _ h1
  have h3 := fun f1 f2 =>
    wf_guarded _ (fun t ht => wf_insertMappingAccesses (nodeCount t + 1) t ht) f2 _ (h2 f1)
  split at hl
  · cases hl
  · rename_i v4 e4
    have h4 := wf_insertSubWords _ _ _ (h3 _ _) e4
    have h5 := fun f => wf_insertMulShifts f _ h4
    split at hl
    · cases hl
    · rename_i v6 e6
      have h6 := wf_liftPacked _ _ _ (h5 _) e6
      have h7 := fun f =>
        wf_guarded _ (fun t ht => wf_liftDynArray (2 * (nodeCount t + 1)) t ht) f _ h6
      have h8 := fun f1 f2 => wf_insertStorageSlots f2 _ (h7 f1)
      cases hl
      exact wf_insertMappingOffset _ _ (h8 _ _)

theorem liftAll_size (h : HashCtx) (v v' : SV) (hv : WF v) (hl : liftAll h v = .ok v') :
    v'.recSize = nodeCount v' :=
  SLE.C18.C18_size_eq_nodeCount v' (liftAll_wf h v v' hv hl)

/-! ### L3 the values handed to the type checker -/

/-- every value `VMState::all_values` collects from a thread whose data satisfies the machine
invariant records its true size (stack, memory cells and symbolic memory offsets, the
`storageWrite [key, generation]` wrappers built over the storage maps — including the
`UnwrittenStorageValue` placeholder generations —, recorded and logged values) -/
theorem allValues_wf {lim : Nat} {d : TData} (h : GoodD lim d) : ∀ v ∈ Pipe.allValues d, WF v := by
  intro v hv
  unfold Pipe.allValues at hv
  simp only [List.mem_append, List.mem_reverse, List.mem_flatMap, List.mem_map, List.mem_cons] at hv
  rcases hv with ((((hv | ⟨q, hq, c, hc, rfl⟩) | ⟨q, hq, hv⟩) | ⟨q, hq, g, hg, rfl⟩) | hv) | hv
  · exact (h.stack v hv).1
  · exact (h.memC q hq c hc).1
  · rcases hv with rfl | ⟨c, hc, rfl⟩
    · exact (h.memS q hq).1.1
    · exact ((h.memS q hq).2 c hc).1
  · have hq' : Good lim q.1 ∧ ∀ g ∈ q.2, GoodGen lim g := by
      rcases hq with hq | hq
      · exact h.stK q hq
      · exact h.stS q hq
    exact wf_rebuild' (wf_pair hq'.1.1 (hq'.2 g hg).wf)
  · exact (h.recorded v hv).1
  · exact (h.logged v hv).1

/-- L3a. For every program, every value the machine hands to the type checker records its true
size at every node. -/
theorem program_values_wf (cfg : Cfg) (code : List Disasm.Instr) (fuel : Nat) :
    ∀ v ∈ (VM.run cfg code fuel (VM.initVM cfg code)).stored.flatMap (fun t => Pipe.allValues t.d),
      WF v := by
  intro v hv
  obtain ⟨t, ht, hv⟩ := List.mem_flatMap.mp hv
  exact allValues_wf (SLE.VMSize.good_run cfg code fuel t (List.mem_append.mpr (Or.inr ht))) v hv

/-- `uniqueSV` keeps a sub-list of its input -/
theorem uniqueSV_sublist (vs : List SV) : List.Sublist (TC.uniqueSV vs) vs := by
  unfold TC.uniqueSV
  have : ∀ (l acc : List SV),
      List.Sublist
        (l.foldl (fun acc v => if acc.any (fun x => x.beq v) then acc else acc ++ [v]) acc)
        (acc ++ l) := by
    intro l
    induction l with
    | nil => intro acc; simp
    | cons v l ih =>
      intro acc
      simp only [List.foldl_cons]
      split
      · exact (ih acc).trans
          (List.Sublist.append (List.Sublist.refl acc) (List.sublist_cons_self v l))
      · have := ih (acc ++ [v])
        simpa using this
  simpa using this vs []

theorem uniqueSV_mem (vs : List SV) : ∀ x ∈ TC.uniqueSV vs, x ∈ vs :=
  fun _ hx => (uniqueSV_sublist vs).subset hx

theorem liftValues_wf (h : HashCtx) : ∀ (l r : List SV), TC.liftValues h l = .ok r →
    (∀ v ∈ l, WF v) → ∀ y ∈ r, WF y
  | [], r, e, _ => by
    simp only [TC.liftValues] at e
    cases e
    intro y hy; cases hy
  | v :: vs, r, e, hl => by
    simp only [TC.liftValues] at e
    split at e
    · cases e
    · rename_i v' hv'
      split at e
      · cases e
      · rename_i r' hr'
        cases e
        intro y hy
        rcases List.mem_cons.mp hy with rfl | hy
        · exact liftAll_wf h v _ (hl v (by simp)) hv'
        · exact liftValues_wf h vs r' hr' (fun a ha => hl a (by simp [ha])) y hy

/-- L3b. Lifting a de-duplicated list of truthfully sized values yields truthfully sized values. -/
theorem lifted_values_wf (h : HashCtx) (vals lifted : List SV) (hv : ∀ v ∈ vals, WF v)
    (hl : TC.liftValues h (TC.uniqueSV vals) = .ok lifted) : ∀ v ∈ lifted, WF v :=
  liftValues_wf h _ _ hl (fun v hm => hv v (uniqueSV_mem vals v hm))

/-- L3. For every program: the values the type checker works on after lifting record their true
size at every node; in particular `size()` equals the real node count. -/
theorem program_lifted_wf (h : HashCtx) (cfg : Cfg) (code : List Disasm.Instr) (fuel : Nat)
    (lifted : List SV)
    (hl : TC.liftValues h (TC.uniqueSV
      ((VM.run cfg code fuel (VM.initVM cfg code)).stored.flatMap (fun t => Pipe.allValues t.d)))
        = .ok lifted) :
    ∀ v ∈ lifted, WF v ∧ v.recSize = nodeCount v := by
  intro v hv
  have := lifted_values_wf h _ lifted (program_values_wf cfg code fuel) hl v hv
  exact ⟨this, SLE.C18.C18_size_eq_nodeCount v this⟩

/-! ### L4 non-vacuity: the hashed-slot case really grows the tree, and sizes follow -/

def exCtx : HashCtx := ⟨fun x => if x = 12345 then some 3 else none, fun _ => 0⟩

def exIn : SV :=
  rebuild .sLoad [] [mkKnownNat 12345, rebuild .unwrittenStorageValue [] [mkKnownNat 12345]]

example : WF exIn := by
  simp [exIn, rebuild, mkKnownNat, childSize, recSize, WF, WFList, nodeCountList, nodeCount]

/-- what lifting makes of `sLoad [12345, unwritten [12345]]` when the table knows `12345` as the
hash of slot 3: both constants become `sha3 [3]` (one node more each), the key gets its
`storageSlot` wrapper, and every ancestor's recorded size is recomputed -/
def exOut : SV :=
  .node .sLoad []
    [.node .storageSlot [] [.node .sha3 [] [.node .knownData [3] [] 1] 2] 3,
     .node .unwrittenStorageValue [] [.node .sha3 [] [.node .knownData [3] [] 1] 2] 3] 7

example : liftAll exCtx exIn = .ok exOut := by rfl

example : ∃ v', liftAll exCtx exIn = .ok v' ∧ v'.recSize = nodeCount v' ∧
    nodeCount exIn < nodeCount v' :=
  ⟨exOut, by rfl, by decide, by decide⟩

/-- the general theorem applied to the example (not by evaluation) -/
example : exOut.recSize = nodeCount exOut :=
  liftAll_size exCtx exIn exOut
    (by simp [exIn, rebuild, mkKnownNat, childSize, recSize, WF, WFList, nodeCountList, nodeCount])
    (by rfl)

end SLE.LiftSize

section
open SLE SLE.SV SLE.Lift
end
