import SLE.Model.TC
import SLE.Spec.TCSpec
import SLE.Lemmas.Layout
/-
C05 / C06 at the model level: the slot indices of the layout are exactly accounted for by
`storageSlot (knownData w)` nodes of the lifted values (T1), and a literal top-level access is
reported (T2).
-/
namespace SLE.TCSlots
open SLE SLE.SV SLE.TC SLE.TCSpec SLE.Lift

/-! ### `beq` is equality -/

mutual
theorem beq_eq : ∀ (a b : SV), a.beq b = true → a = b
  | .node k1 a1 ks1 s1, .node k2 a2 ks2 s2, h => by
    simp only [SV.beq, Bool.and_eq_true, beq_iff_eq] at h
    obtain ⟨⟨⟨hk, ha⟩, hs⟩, hl⟩ := h
    have := beqList_eq ks1 ks2 hl
    subst hk ha hs this
    rfl
theorem beqList_eq : ∀ (a b : List SV), SV.beqList a b = true → a = b
  | [], [], _ => rfl
  | x :: xs, y :: ys, h => by
    simp only [SV.beqList, Bool.and_eq_true] at h
    rw [beq_eq x y h.1, beqList_eq xs ys h.2]
  | [], _ :: _, h => by simp [SV.beqList] at h
  | _ :: _, [], h => by simp [SV.beqList] at h
end

mutual
theorem beq_refl : ∀ (a : SV), a.beq a = true
  | .node k a ks s => by
    simp only [SV.beq, Bool.and_eq_true, beq_iff_eq, true_and]
    exact beqList_refl ks
theorem beqList_refl : ∀ (a : List SV), SV.beqList a a = true
  | [] => rfl
  | x :: xs => by
    simp only [SV.beqList, Bool.and_eq_true]
    exact ⟨beq_refl x, beqList_refl xs⟩
end


/-! ### registration: every registered node represents a sub-term of the input -/

mutual
/-- `t` is the registration of `v`: same kinds and payloads all the way down. -/
def Rep : TV → SV → Prop
  | .node k a ks _, .node k' a' ks' _ => k = k' ∧ a = a' ∧ RepL ks ks'
def RepL : List TV → List SV → Prop
  | [], [] => True
  | t :: ts, v :: vs => Rep t v ∧ RepL ts vs
  | [], _ :: _ => False
  | _ :: _, [] => False
end

/-- the kid loop of `register` as a plain recursion -/
def regList (fuel : Nat) : RegState → List SV → RegState × List TV
  | st, [] => (st, [])
  | st, c :: cs =>
    let r := register fuel st c
    let r' := regList fuel r.1 cs
    (r'.1, r.2 :: r'.2)

theorem foldl_regList (fuel : Nat) : ∀ (ks : List SV) (st : RegState) (acc : List TV),
    ks.foldl (fun (acc : RegState × List TV) c =>
          let (s, t) := register fuel acc.1 c
          (s, acc.2 ++ [t])) (st, acc)
      = ((regList fuel st ks).1, acc ++ (regList fuel st ks).2) := by
  intro ks
  induction ks with
  | nil => intro st acc; simp [regList]
  | cons c cs ih =>
    intro st acc
    simp only [List.foldl_cons, regList]
    rw [ih]
    simp

theorem register_succ (fuel : Nat) (st : RegState) (k : Kind) (a : List Nat) (ks : List SV) (s : Nat) :
    register (fuel + 1) st (.node k a ks s) =
      match (if isStable (nodeCount (.node k a ks s) + 1) (.node k a ks s)
             then (st.stable.find? (fun p => p.1.beq (.node k a ks s))).map (·.2) else none) with
      | some tvn => (st, tvn)
      | none =>
        let r := regList fuel st ks
        let node := TV.node k a r.2 r.1.next
        ({ r.1 with next := r.1.next + 1, values := r.1.values ++ [node],
                    stable := if isStable (nodeCount (.node k a ks s) + 1) (.node k a ks s)
                      then r.1.stable ++ [(.node k a ks s, node)] else r.1.stable }, node) := by
  rw [register]
  simp only [foldl_regList, List.nil_append]
  generalize (if isStable (nodeCount (.node k a ks s) + 1) (.node k a ks s)
             then (st.stable.find? (fun p => p.1.beq (.node k a ks s))).map (·.2) else none) = o
  cases o <;> rfl

structure Inv (Q : SV → Prop) (st : RegState) : Prop where
  memo : ∀ p ∈ st.stable, p.2 ∈ st.values ∧ Rep p.2 p.1
  vals : ∀ t ∈ st.values, ∃ v, Q v ∧ Rep t v
  closed : ∀ t ∈ st.values, ∀ c ∈ t.kids, c ∈ st.values

theorem nodeCount_le_of_mem : ∀ (ks : List SV) (c : SV), c ∈ ks → nodeCount c ≤ nodeCountList ks
  | [], _, h => by simp at h
  | x :: xs, c, h => by
    simp only [nodeCountList]
    rcases List.mem_cons.mp h with h | h
    · subst h; omega
    · have := nodeCount_le_of_mem xs c h; omega


def Post (Q : SV → Prop) (st : RegState) (v : SV) (r : RegState × TV) : Prop :=
  Inv Q r.1 ∧ Rep r.2 v ∧ r.2 ∈ r.1.values ∧ ∀ t ∈ st.values, t ∈ r.1.values

theorem regList_spec (Q : SV → Prop) (fuel : Nat)
    (ih : ∀ st v, nodeCount v < fuel → Inv Q st → Q v → Post Q st v (register fuel st v)) :
    ∀ (ks : List SV) (st : RegState), (∀ c ∈ ks, nodeCount c < fuel ∧ Q c) → Inv Q st →
      Inv Q (regList fuel st ks).1 ∧ RepL (regList fuel st ks).2 ks ∧
      (∀ t ∈ (regList fuel st ks).2, t ∈ (regList fuel st ks).1.values) ∧
      (∀ t ∈ st.values, t ∈ (regList fuel st ks).1.values) := by
  intro ks
  induction ks with
  | nil =>
    intro st _ hi
    simp only [regList, RepL]
    exact ⟨hi, trivial, by simp, fun t ht => ht⟩
  | cons c cs ihks =>
    intro st hks hi
    have hc := hks c (List.mem_cons_self)
    obtain ⟨i1, rep1, mem1, mono1⟩ := ih st c hc.1 hi hc.2
    obtain ⟨i2, rep2, mem2, mono2⟩ := ihks (register fuel st c).1
      (fun x hx => hks x (List.mem_cons_of_mem _ hx)) i1
    simp only [regList, RepL]
    refine ⟨i2, ⟨rep1, rep2⟩, ?_, fun t ht => mono2 t (mono1 t ht)⟩
    intro t ht
    rcases List.mem_cons.mp ht with h | h
    · subst h; exact mono2 _ mem1
    · exact mem2 t h

theorem register_spec (Q : SV → Prop) (hQ : ∀ k a ks s, Q (.node k a ks s) → ∀ c ∈ ks, Q c) :
    ∀ (fuel : Nat) (st : RegState) (v : SV), nodeCount v < fuel → Inv Q st → Q v →
      Post Q st v (register fuel st v) := by
  intro fuel
  induction fuel with
  | zero => intro st v h; omega
  | succ fuel ih =>
    intro st v hn hi hq
    obtain ⟨k, a, ks, s⟩ := v
    rw [register_succ]
    split
    · rename_i tvn heq
      split at heq
      · simp only [Option.map_eq_some_iff] at heq
        obtain ⟨p, hp, rfl⟩ := heq
        have hmem := List.mem_of_find?_eq_some hp
        have hb := List.find?_some hp
        have := beq_eq _ _ hb
        have hm := hi.memo p hmem
        rw [this] at hm
        exact ⟨hi, hm.2, hm.1, fun t ht => ht⟩
      · cases heq
    · have hks : ∀ c ∈ ks, nodeCount c < fuel ∧ Q c := by
        intro c hc
        have := nodeCount_le_of_mem ks c hc
        simp only [nodeCount] at hn
        exact ⟨by omega, hQ k a ks s hq c hc⟩
      obtain ⟨i1, rep, mem, mono⟩ := regList_spec Q fuel ih ks st hks hi
      have hrep : Rep (TV.node k a (regList fuel st ks).2 (regList fuel st ks).1.next) (.node k a ks s) := by
        simp only [Rep]; exact ⟨trivial, trivial, rep⟩
      refine ⟨⟨?_, ?_, ?_⟩, hrep, ?_, ?_⟩
      · intro p hp
        simp only at hp ⊢
        split at hp
        · rcases List.mem_append.mp hp with h | h
          · have := i1.memo p h
            exact ⟨List.mem_append_left _ this.1, this.2⟩
          · simp only [List.mem_singleton] at h
            subst h
            exact ⟨by simp, hrep⟩
        · have := i1.memo p hp
          exact ⟨List.mem_append_left _ this.1, this.2⟩
      · intro t ht
        simp only at ht
        rcases List.mem_append.mp ht with h | h
        · exact i1.vals t h
        · simp only [List.mem_singleton] at h
          subst h
          exact ⟨_, hq, hrep⟩
      · intro t ht c hc
        simp only at ht ⊢
        rcases List.mem_append.mp ht with h | h
        · exact List.mem_append_left _ (i1.closed t h c hc)
        · simp only [List.mem_singleton] at h
          subst h
          exact List.mem_append_left _ (mem c hc)
      · simp
      · intro t ht
        exact List.mem_append_left _ (mono t ht)


theorem inv_empty (Q : SV → Prop) : Inv Q {} :=
  ⟨(by intro p hp; cases hp), (by intro p hp; cases hp), (by intro p hp; cases hp)⟩

theorem registerAll_fold (Q : SV → Prop) (hQ : ∀ k a ks s, Q (.node k a ks s) → ∀ c ∈ ks, Q c) :
    ∀ (vs : List SV) (st : RegState), (∀ v ∈ vs, Q v) → Inv Q st →
      Inv Q (vs.foldl (fun st v => (register (nodeCount v + 1) st v).1) st) ∧
      (∀ t ∈ st.values, t ∈ (vs.foldl (fun st v => (register (nodeCount v + 1) st v).1) st).values) ∧
      (∀ v ∈ vs, ∃ t ∈ (vs.foldl (fun st v => (register (nodeCount v + 1) st v).1) st).values, Rep t v) := by
  intro vs
  induction vs with
  | nil => intro st _ hi; exact ⟨hi, fun t ht => ht, by simp⟩
  | cons v vs ih =>
    intro st hvs hi
    obtain ⟨i1, rep1, mem1, mono1⟩ :=
      register_spec Q hQ (nodeCount v + 1) st v (by omega) hi (hvs v List.mem_cons_self)
    obtain ⟨i2, mono2, all2⟩ := ih (register (nodeCount v + 1) st v).1
      (fun x hx => hvs x (List.mem_cons_of_mem _ hx)) i1
    simp only [List.foldl_cons]
    refine ⟨i2, fun t ht => mono2 t (mono1 t ht), ?_⟩
    intro x hx
    rcases List.mem_cons.mp hx with h | h
    · subst h; exact ⟨_, mono2 _ mem1, rep1⟩
    · exact all2 x h

theorem registerAll_spec (Q : SV → Prop) (hQ : ∀ k a ks s, Q (.node k a ks s) → ∀ c ∈ ks, Q c)
    (vs : List SV) (hvs : ∀ v ∈ vs, Q v) :
    Inv Q (registerAll vs) ∧ ∀ v ∈ vs, ∃ t ∈ (registerAll vs).values, Rep t v := by
  obtain ⟨i, _, h⟩ := registerAll_fold Q hQ vs {} hvs (inv_empty Q)
  exact ⟨i, h⟩

/-! ### sub-term predicates -/

theorem anyNodeList_of_mem (p : Kind → List Nat → List SV → Bool) :
    ∀ (ks : List SV) (c : SV), c ∈ ks → anyNode p c = true → anyNodeList p ks = true
  | [], _, h, _ => by cases h
  | x :: xs, c, h, hc => by
    simp only [anyNodeList, Bool.or_eq_true]
    rcases List.mem_cons.mp h with h | h
    · subst h; exact Or.inl hc
    · exact Or.inr (anyNodeList_of_mem p xs c h hc)

theorem anyNode_of_kid (p : Kind → List Nat → List SV → Bool) (k : Kind) (a : List Nat) (ks : List SV)
    (s : Nat) (c : SV) (hc : c ∈ ks) (h : anyNode p c = true) : anyNode p (.node k a ks s) = true := by
  simp only [anyNode, Bool.or_eq_true]
  exact Or.inr (anyNodeList_of_mem p ks c hc h)

/-- the slots of `v` are slots of some value of `S` -/
def Cov (S : List SV) (v : SV) : Prop :=
  ∀ w, hasConstSlot w v = true → ∃ u ∈ S, hasConstSlot w u = true

theorem cov_kid (S : List SV) : ∀ k a ks s, Cov S (.node k a ks s) → ∀ c ∈ ks, Cov S c := by
  intro k a ks s h c hc w hw
  exact h w (anyNode_of_kid _ k a ks s c hc hw)

theorem cov_self (S : List SV) : ∀ v ∈ S, Cov S v := fun v hv _ hw => ⟨v, hv, hw⟩

theorem rep_constSlot {t : TV} {v : SV} {w : Nat} (hr : Rep t v) (hc : isConstSlot t = some w) :
    hasConstSlot w v = true := by
  unfold isConstSlot at hc
  split at hc
  · cases hc
    obtain ⟨k, a, ks, s⟩ := v
    simp only [Rep] at hr
    obtain ⟨rfl, rfl, hl⟩ := hr
    match ks, hl with
    | [c], hl =>
      simp only [RepL] at hl
      obtain ⟨k', a', ks', s'⟩ := c
      simp only [Rep] at hl
      obtain ⟨⟨rfl, rfl, _⟩, _⟩ := hl
      simp [hasConstSlot, anyNode]
    | [], hl => simp [RepL] at hl
    | _ :: _ :: _, hl => simp [RepL] at hl
  · cases hc

theorem constSlot_of_rep {t : TV} {sa : List Nat} {w : Nat} {r : List Nat} {kk : List SV} {s1 ss : Nat}
    (hr : Rep t (.node .storageSlot sa [.node .knownData (w :: r) kk s1] ss)) :
    isConstSlot t = some w := by
  obtain ⟨k, a, ks, tv⟩ := t
  simp only [Rep] at hr
  obtain ⟨rfl, rfl, hl⟩ := hr
  match ks, hl with
  | [c], hl =>
    simp only [RepL] at hl
    obtain ⟨k', a', ks', s'⟩ := c
    simp only [Rep] at hl
    obtain ⟨⟨rfl, rfl, _⟩, _⟩ := hl
    simp [isConstSlot]
  | [], hl => simp [RepL] at hl
  | _ :: _ :: _, hl => simp [RepL] at hl

/-! ### the layout loop -/

theorem layoutEntries_sound (typeOf : Nat → Except RErr TE) (fuel : Nat) :
    ∀ (vals : List TV) (es : List (Layout.Entry JsonModel.AbiType)), layoutEntries typeOf fuel vals = .ok es →
      ∀ e ∈ es, ∃ t ∈ vals, isConstSlot t = some e.index := by
  intro vals
  induction vals with
  | nil => intro es h e he; simp only [layoutEntries] at h; cases h; cases he
  | cons v vs ih =>
    intro es h e he
    simp only [layoutEntries] at h
    split at h
    · obtain ⟨t, ht, hc⟩ := ih es h e he
      exact ⟨t, List.mem_cons_of_mem _ ht, hc⟩
    · rename_i w hw
      split at h
      · cases h
      · rename_i av sn hav
        split at h
        · cases h
        · rename_i r hr
          cases h
          rcases List.mem_append.mp he with h1 | h1
          · refine ⟨v, List.mem_cons_self, ?_⟩
            rw [hw]
            cases av with
            | type t => simp only [List.mem_singleton] at h1; subst h1; rfl
            | packed ps =>
              simp only [List.mem_map] at h1
              obtain ⟨q, _, rfl⟩ := h1
              rfl
          · obtain ⟨t, ht, hc⟩ := ih r hr e h1
            exact ⟨t, List.mem_cons_of_mem _ ht, hc⟩


theorem analyse_layout (h : HashCtx) (o : Unify.Orders) (fuel : Nat) (vs : List SV)
    (l : List (Layout.Entry JsonModel.AbiType)) (hl : (analyse h o fuel vs).outcome = .layout l) :
    ∃ lifted f es, liftValues h (uniqueSV vs) = .ok lifted ∧
      layoutEntries (typeOfIn f) 4096 (registerAll lifted).values = .ok es ∧
      l = Layout.buildLayout es := by
  unfold analyse at hl
  split at hl
  · cases hl
  · rename_i lifted hlift
    simp only at hl
    split at hl
    · cases hl
    · rename_i f x y hu
      split at hl
      · cases hl
      · rename_i es hes
        simp only [Outcome.layout.injEq] at hl
        exact ⟨lifted, f, es, hlift, hes, hl.symm⟩

/-! ### the lifting passes keep a literal key -/

def IsLit (w : Nat) (key : SV) : Prop := ∃ r kk s, key = .node .knownData (w :: r) kk s

def LitAcc (w : Nat) (v : SV) : Prop :=
  ∃ k a key val s, (k = Kind.sLoad ∨ k = Kind.storageWrite) ∧ IsLit w key ∧ v = .node k a [key, val] s

def SlotAcc (w : Nat) (v : SV) : Prop :=
  ∃ k a sa key val s ss, (k = Kind.sLoad ∨ k = Kind.storageWrite) ∧ IsLit w key ∧
    v = .node k a [.node .storageSlot sa [key] ss, val] s

theorem litAcc_of_literalAccess {w : Nat} {v : SV} (h : literalAccess w v = true) : LitAcc w v := by
  unfold literalAccess at h
  split at h
  · simp only [beq_iff_eq] at h; subst h
    exact ⟨_, _, _, _, _, Or.inl rfl, ⟨_, _, _, rfl⟩, rfl⟩
  · simp only [beq_iff_eq] at h; subst h
    exact ⟨_, _, _, _, _, Or.inr rfl, ⟨_, _, _, rfl⟩, rfl⟩
  · cases h

theorem lit_slotHashes (h : HashCtx) {w : Nat} (hn : h.table w = none) {key : SV} (hk : IsLit w key) :
    IsLit w (transform (slotHashesT h) key) := by
  obtain ⟨r, kk, s, rfl⟩ := hk
  simp only [transform, slotHashesT, hn, rebuild]
  exact ⟨_, _, _, rfl⟩

theorem lit_proxySlots (h : HashCtx) {w : Nat} (fuel : Nat) {key : SV} (hk : IsLit w key) :
    IsLit w (proxySlots h fuel key) := by
  obtain ⟨r, kk, s, rfl⟩ := hk
  cases fuel with
  | zero => simp only [proxySlots]; exact ⟨_, _, _, rfl⟩
  | succ n => simp only [proxySlots, rebuild]; exact ⟨_, _, _, rfl⟩

theorem lit_insertMappingAccesses {w : Nat} (fuel : Nat) {key : SV} (hk : IsLit w key) :
    IsLit w (insertMappingAccesses fuel key) := by
  obtain ⟨r, kk, s, rfl⟩ := hk
  cases fuel with
  | zero => simp only [insertMappingAccesses]; exact ⟨_, _, _, rfl⟩
  | succ n => simp only [insertMappingAccesses, rebuild]; exact ⟨_, _, _, rfl⟩

theorem lit_insertSubWords {w : Nat} (fuel : Nat) {key key' : SV} (hk : IsLit w key)
    (he : insertSubWords fuel key = .ok key') : IsLit w key' := by
  obtain ⟨r, kk, s, rfl⟩ := hk
  cases fuel with
  | zero => simp only [insertSubWords] at he; cases he; exact ⟨_, _, _, rfl⟩
  | succ n =>
    simp only [insertSubWords, rebuild] at he
    split at he
    · cases he; exact ⟨_, _, _, rfl⟩
    · cases he

theorem lit_insertMulShifts {w : Nat} (fuel : Nat) {key : SV} (hk : IsLit w key) :
    IsLit w (insertMulShifts fuel key) := by
  obtain ⟨r, kk, s, rfl⟩ := hk
  cases fuel with
  | zero => simp only [insertMulShifts]; exact ⟨_, _, _, rfl⟩
  | succ n => simp only [insertMulShifts, rebuild]; exact ⟨_, _, _, rfl⟩

theorem lit_liftPacked {w : Nat} (fuel : Nat) {key key' : SV} (hk : IsLit w key)
    (he : liftPacked fuel key = .ok key') : IsLit w key' := by
  obtain ⟨r, kk, s, rfl⟩ := hk
  cases fuel with
  | zero => simp only [liftPacked] at he; cases he; exact ⟨_, _, _, rfl⟩
  | succ n =>
    simp only [liftPacked, rebuild] at he
    split at he
    · cases he; exact ⟨_, _, _, rfl⟩
    · cases he

theorem lit_liftDynArray {w : Nat} (fuel : Nat) {key : SV} (hk : IsLit w key) :
    IsLit w (liftDynArray fuel key) := by
  obtain ⟨r, kk, s, rfl⟩ := hk
  cases fuel with
  | zero => simp only [liftDynArray]; exact ⟨_, _, _, rfl⟩
  | succ n => simp only [liftDynArray, rebuild]; exact ⟨_, _, _, rfl⟩

theorem lit_insertStorageSlots {w : Nat} (fuel : Nat) {key : SV} (hk : IsLit w key) :
    IsLit w (insertStorageSlots fuel key) := by
  obtain ⟨r, kk, s, rfl⟩ := hk
  cases fuel with
  | zero => simp only [insertStorageSlots]; exact ⟨_, _, _, rfl⟩
  | succ n => simp only [insertStorageSlots, rebuild]; exact ⟨_, _, _, rfl⟩

theorem lit_insertMappingOffset {w : Nat} (fuel : Nat) {key : SV} (hk : IsLit w key) :
    IsLit w (insertMappingOffset fuel key) := by
  obtain ⟨r, kk, s, rfl⟩ := hk
  cases fuel with
  | zero => simp only [insertMappingOffset]; exact ⟨_, _, _, rfl⟩
  | succ n => simp only [insertMappingOffset, rebuild]; exact ⟨_, _, _, rfl⟩


theorem acc_slotHashes (h : HashCtx) {w : Nat} (hn : h.table w = none) {v : SV} (hv : LitAcc w v) :
    LitAcc w (transform (slotHashesT h) v) := by
  obtain ⟨k, a, key, val, s, hk, hlit, rfl⟩ := hv
  have := lit_slotHashes h hn hlit
  rcases hk with rfl | rfl
  · simp only [transform, slotHashesT, transformList, rebuild]
    exact ⟨_, _, _, _, _, Or.inl rfl, this, rfl⟩
  · simp only [transform, slotHashesT, transformList, rebuild]
    exact ⟨_, _, _, _, _, Or.inr rfl, this, rfl⟩

theorem unpick_lit (h : HashCtx) {w : Nat} {key : SV} (hk : IsLit w key) : unpickProxySlots h key = none := by
  obtain ⟨r, kk, s, rfl⟩ := hk
  simp [unpickProxySlots, unpickSha3Data]

theorem acc_proxySlots (h : HashCtx) {w : Nat} (fuel : Nat) {v : SV} (hv : LitAcc w v) :
    LitAcc w (proxySlots h (fuel + 1) v) := by
  obtain ⟨k, a, key, val, s, hk, hlit, rfl⟩ := hv
  have := lit_proxySlots h fuel hlit
  have hu := unpick_lit h hlit
  rcases hk with rfl | rfl
  · simp only [proxySlots, hu, rebuild]
    exact ⟨_, _, _, _, _, Or.inl rfl, this, rfl⟩
  · simp only [proxySlots, hu, rebuild]
    exact ⟨_, _, _, _, _, Or.inr rfl, this, rfl⟩

theorem acc_guarded {w : Nat} (inner : SV → SV) (hin : ∀ key, IsLit w key → IsLit w (inner key))
    (fuel : Nat) {v : SV} (hv : LitAcc w v) : LitAcc w (guarded inner (fuel + 1) v) := by
  obtain ⟨k, a, key, val, s, hk, hlit, rfl⟩ := hv
  have := hin key hlit
  rcases hk with rfl | rfl
  · simp only [guarded, guardStorage, rebuild]
    exact ⟨_, _, _, _, _, Or.inl rfl, this, rfl⟩
  · simp only [guarded, guardStorage, rebuild]
    exact ⟨_, _, _, _, _, Or.inr rfl, this, rfl⟩

theorem generic_acc {w : Nat} (f : SV → Except LFault SV) (hf : ∀ key key', IsLit w key → f key = .ok key' → IsLit w key')
    {k : Kind} (hk : k = Kind.sLoad ∨ k = Kind.storageWrite) {a : List Nat} {key val v' : SV} (hlit : IsLit w key)
    (he : (match mapE f [key, val] with
          | .ok ks' => Except.ok (rebuild k a ks')
          | .error e => Except.error e) = Except.ok v') : LitAcc w v' := by
  simp only [mapE] at he
  cases hkey : f key with
  | error e => simp [hkey] at he
  | ok key' =>
    cases hval : f val with
    | error e => simp [hkey, hval] at he
    | ok val' =>
      simp only [hkey, hval, rebuild, Except.ok.injEq] at he
      subst he
      exact ⟨_, _, _, _, _, hk, hf key key' hlit hkey, rfl⟩

theorem acc_insertSubWords {w : Nat} (fuel : Nat) {v v' : SV} (hv : LitAcc w v)
    (he : insertSubWords (fuel + 1) v = .ok v') : LitAcc w v' := by
  obtain ⟨k, a, key, val, s, hk, hlit, rfl⟩ := hv
  have hf : ∀ key key', IsLit w key → insertSubWords fuel key = .ok key' → IsLit w key' :=
    fun _ _ h1 h2 => lit_insertSubWords fuel h1 h2
  rcases hk with rfl | rfl
  · simp only [insertSubWords] at he
    exact generic_acc _ hf (Or.inl rfl) hlit he
  · simp only [insertSubWords] at he
    exact generic_acc _ hf (Or.inr rfl) hlit he

theorem acc_insertMulShifts {w : Nat} (fuel : Nat) {v : SV} (hv : LitAcc w v) :
    LitAcc w (insertMulShifts (fuel + 1) v) := by
  obtain ⟨k, a, key, val, s, hk, hlit, rfl⟩ := hv
  have := lit_insertMulShifts fuel hlit
  rcases hk with rfl | rfl
  · simp only [insertMulShifts, rebuild, List.map]
    exact ⟨_, _, _, _, _, Or.inl rfl, this, rfl⟩
  · simp only [insertMulShifts, rebuild, List.map]
    exact ⟨_, _, _, _, _, Or.inr rfl, this, rfl⟩

theorem acc_liftPacked {w : Nat} (fuel : Nat) {v v' : SV} (hv : LitAcc w v)
    (he : liftPacked (fuel + 1) v = .ok v') : LitAcc w v' := by
  obtain ⟨k, a, key, val, s, hk, hlit, rfl⟩ := hv
  have hf : ∀ key key', IsLit w key → liftPacked fuel key = .ok key' → IsLit w key' :=
    fun _ _ h1 h2 => lit_liftPacked fuel h1 h2
  rcases hk with rfl | rfl
  · simp only [liftPacked] at he
    exact generic_acc _ hf (Or.inl rfl) hlit he
  · simp only [liftPacked] at he
    split at he
    · exact generic_acc _ hf (Or.inr rfl) hlit he
    · split at he
      · cases he
      · split at he
        · cases he
        · split at he
          · simp only [rebuild, Except.ok.injEq] at he
            subst he
            exact ⟨_, _, _, _, _, Or.inr rfl, hlit, rfl⟩
          · exact generic_acc _ hf (Or.inr rfl) hlit he

theorem slot_insertStorageSlots {w : Nat} (fuel : Nat) {v : SV} (hv : LitAcc w v) :
    SlotAcc w (insertStorageSlots (fuel + 1) v) := by
  obtain ⟨k, a, key, val, s, hk, hlit, rfl⟩ := hv
  have := lit_insertStorageSlots fuel hlit
  obtain ⟨r, kk, s1, rfl⟩ := hlit
  rcases hk with rfl | rfl
  · simp only [insertStorageSlots, rebuild, SV.kind]
    exact ⟨_, _, _, _, _, _, _, Or.inl rfl, this, rfl⟩
  · simp only [insertStorageSlots, rebuild, SV.kind]
    exact ⟨_, _, _, _, _, _, _, Or.inr rfl, this, rfl⟩

theorem slot_insertMappingOffset {w : Nat} (fuel : Nat) {v : SV} (hv : SlotAcc w v) :
    SlotAcc w (insertMappingOffset (fuel + 1) v) := by
  obtain ⟨k, a, sa, key, val, s, ss, hk, hlit, rfl⟩ := hv
  have hslot : ∃ sa' key' ss', IsLit w key' ∧
      insertMappingOffset fuel (.node .storageSlot sa [key] ss) = .node .storageSlot sa' [key'] ss' := by
    cases fuel with
    | zero => exact ⟨sa, key, ss, hlit, by simp only [insertMappingOffset]⟩
    | succ n =>
      exact ⟨sa, insertMappingOffset n key, _, lit_insertMappingOffset n hlit, by simp only [insertMappingOffset, rebuild, List.map]; rfl⟩
  obtain ⟨sa', key', ss', hl', heq⟩ := hslot
  rcases hk with rfl | rfl
  · simp only [insertMappingOffset, rebuild, List.map, heq]
    exact ⟨_, _, _, _, _, _, _, Or.inl rfl, hl', rfl⟩
  · simp only [insertMappingOffset, rebuild, List.map, heq]
    exact ⟨_, _, _, _, _, _, _, Or.inr rfl, hl', rfl⟩

theorem liftAll_slotAcc (h : HashCtx) {w : Nat} (hn : h.table w = none) {v v' : SV} (hv : LitAcc w v)
    (he : liftAll h v = .ok v') : SlotAcc w v' := by
  unfold liftAll at he
  simp only at he
  split at he
  · cases he
  · rename_i v4 h4
    split at he
    · cases he
    · rename_i v6 h6
      simp only [Except.ok.injEq] at he
      subst he
      exact slot_insertMappingOffset _ (slot_insertStorageSlots _
        (acc_guarded _ (fun key hk => lit_liftDynArray _ hk) _
          (acc_liftPacked _ (acc_insertMulShifts _
            (acc_insertSubWords _
              (acc_guarded _ (fun key hk => lit_insertMappingAccesses _ hk) _
                (acc_proxySlots h _ (acc_slotHashes h hn hv))) h4)) h6)))


/-! ### rendering at top level never yields an empty packed list -/

theorem abiTypeFor_packed_ne_nil (typeOf : Nat → Except RErr TE) :
    ∀ (fuel v : Nat) (seen : List TE) (ps : List (JsonModel.AbiType × Nat)) (seen' : List TE),
      abiTypeFor typeOf fuel v seen false = .ok (.packed ps, seen') → ps ≠ [] := by
  intro fuel
  cases fuel with
  | zero => intro v seen ps seen' h; simp [abiTypeFor] at h
  | succ n =>
    intro v seen ps seen' h
    rw [abiTypeFor] at h
    cases hte : typeOf v with
    | error e => simp [hte] at h
    | ok te =>
      simp only [hte] at h
      cases te with
      | packed types isStruct =>
        simp only [Bool.and_true, Bool.false_eq_true, if_false] at h
        split at h
        · cases h
        · split at h
          · cases h
          · split at h
            · cases h
            · split at h
              · cases h
              · simp only [Except.ok.injEq, Prod.mk.injEq, AbiVal.packed.injEq] at h
                rw [← h.1]; simp
            · split at h
              · cases h
              · simp only [Except.ok.injEq, Prod.mk.injEq, AbiVal.packed.injEq] at h
                rw [← h.1]
                rename_i hne _ _
                intro hp
                exact hne hp
      | _ =>
        simp only [Bool.and_true, Bool.and_false, Bool.false_eq_true, if_false] at h
        repeat' (split at h)
        all_goals (first | cases h | skip)

theorem layoutEntries_complete (typeOf : Nat → Except RErr TE) (fuel : Nat) :
    ∀ (vals : List TV) (es : List (Layout.Entry JsonModel.AbiType)), layoutEntries typeOf fuel vals = .ok es →
      ∀ t ∈ vals, ∀ w, isConstSlot t = some w → ∃ e ∈ es, e.index = w := by
  intro vals
  induction vals with
  | nil => intro es _ t ht; cases ht
  | cons v vs ih =>
    intro es h t ht w hw
    simp only [layoutEntries] at h
    rcases List.mem_cons.mp ht with rfl | ht'
    · simp only [hw] at h
      split at h
      · cases h
      · rename_i av sn hav
        split at h
        · cases h
        · rename_i r hr
          simp only [Except.ok.injEq] at h
          subst h
          cases av with
          | type ty => exact ⟨⟨w, 0, ty⟩, by simp, rfl⟩
          | packed ps =>
            have hne := abiTypeFor_packed_ne_nil typeOf fuel _ _ ps sn hav
            cases ps with
            | nil => exact absurd rfl hne
            | cons q qs => exact ⟨⟨w, q.2, q.1⟩, by simp, rfl⟩
    · split at h
      · exact ih es h t ht' w hw
      · split at h
        · cases h
        · split at h
          · cases h
          · rename_i r hr
            simp only [Except.ok.injEq] at h
            subst h
            obtain ⟨e, he, hi⟩ := ih r hr t ht' w hw
            exact ⟨e, List.mem_append_right _ he, hi⟩

/-! ### `uniqueSV`, `liftValues` -/

theorem mem_uniqueSV_fold (v : SV) : ∀ (vs acc : List SV), (v ∈ acc ∨ v ∈ vs) →
    v ∈ vs.foldl (fun acc v => if acc.any (fun x => x.beq v) then acc else acc ++ [v]) acc := by
  intro vs
  induction vs with
  | nil => intro acc h; rcases h with h | h; exact h; cases h
  | cons u us ih =>
    intro acc h
    simp only [List.foldl_cons]
    apply ih
    rcases h with h | h
    · left; split
      · exact h
      · exact List.mem_append_left _ h
    · rcases List.mem_cons.mp h with rfl | h
      · left; split
        · rename_i hany
          simp only [List.any_eq_true] at hany
          obtain ⟨x, hx, hb⟩ := hany
          rw [← beq_eq _ _ hb]; exact hx
        · simp
      · right; exact h

theorem mem_uniqueSV {v : SV} {vs : List SV} (h : v ∈ vs) : v ∈ uniqueSV vs :=
  mem_uniqueSV_fold v vs [] (Or.inr h)

theorem liftValues_mem (h : HashCtx) : ∀ (vs lifted : List SV), liftValues h vs = .ok lifted →
    ∀ v ∈ vs, ∃ v', liftAll h v = .ok v' ∧ v' ∈ lifted := by
  intro vs
  induction vs with
  | nil => intro _ _ v hv; cases hv
  | cons u us ih =>
    intro lifted hl v hv
    simp only [liftValues] at hl
    split at hl
    · cases hl
    · rename_i u' hu
      split at hl
      · cases hl
      · rename_i r hr
        simp only [Except.ok.injEq] at hl
        subst hl
        rcases List.mem_cons.mp hv with rfl | hv
        · exact ⟨u', hu, List.mem_cons_self⟩
        · obtain ⟨v', h1, h2⟩ := ih r hr v hv
          exact ⟨v', h1, List.mem_cons_of_mem _ h2⟩

/-! ### target theorems -/

-- T1 (C05, model half)
theorem slots_from_slot_nodes (h : HashCtx) (o : Unify.Orders) (fuel : Nat) (vs : List SV) (l) :
    (analyse h o fuel vs).outcome = .layout l →
    ∀ e ∈ l, ∃ lifted, liftValues h (uniqueSV vs) = .ok lifted ∧ ∃ v ∈ lifted, hasConstSlot e.index v = true := by
  intro hl e he
  obtain ⟨lifted, f, es, hlift, hes, rfl⟩ := analyse_layout h o fuel vs l hl
  refine ⟨lifted, hlift, ?_⟩
  have he' : e ∈ es := Layout.mem_buildLayout.mp he
  obtain ⟨t, ht, hc⟩ := layoutEntries_sound _ _ _ _ hes e he'
  obtain ⟨inv, _⟩ := registerAll_spec (Cov lifted) (cov_kid lifted) lifted (cov_self lifted)
  obtain ⟨v, hq, hr⟩ := inv.vals t ht
  exact hq _ (rep_constSlot hr hc)


-- T2 (C06); `Raw v` is not needed by the proof
set_option linter.unusedVariables false in
theorem literal_key_reported (h : HashCtx) (o : Unify.Orders) (fuel : Nat) (vs : List SV) (l) (w : Nat) (v : SV)
    (hv : v ∈ vs) (hraw : Raw v) (hlit : literalAccess w v = true) (hnot : h.table w = none) :
    (analyse h o fuel vs).outcome = .layout l → ∃ e ∈ l, e.index = w := by
  intro hl
  obtain ⟨lifted, f, es, hlift, hes, rfl⟩ := analyse_layout h o fuel vs l hl
  obtain ⟨v', hv', hmem⟩ := liftValues_mem h _ _ hlift v (mem_uniqueSV hv)
  obtain ⟨k, a, sa, key, val, s, ss, _, ⟨r, kk, s1, rfl⟩, rfl⟩ :=
    liftAll_slotAcc h hnot (litAcc_of_literalAccess hlit) hv'
  obtain ⟨inv, hall⟩ := registerAll_spec (fun _ => True) (fun _ _ _ _ _ _ _ => trivial) lifted
    (fun _ _ => trivial)
  obtain ⟨t, ht, hrep⟩ := hall _ hmem
  obtain ⟨tk, ta, tks, ttv⟩ := t
  simp only [Rep] at hrep
  obtain ⟨_, _, hl2⟩ := hrep
  match tks, hl2, ht with
  | [], hl2, _ => simp [RepL] at hl2
  | t1 :: trest, hl2, ht =>
    simp only [RepL] at hl2
    have h1 : t1 ∈ (registerAll lifted).values := inv.closed _ ht t1 (by simp [TV.kids])
    have hc := constSlot_of_rep hl2.1
    obtain ⟨e, he, hi⟩ := layoutEntries_complete _ _ _ _ hes t1 h1 w hc
    exact ⟨e, Layout.mem_buildLayout.mpr he, hi⟩

end SLE.TCSlots
