import SLE.Model.TC
import SLE.Spec.TCSpec
import SLE.Lemmas.LiftInv
import SLE.Lemmas.TCSlots
/-!
C04 — standard storage idioms are recovered with the right slot, kind and packing:
masks (I1), mappings of any depth (I2), dynamic arrays (I3) and the inference rules that
read the lifted shapes (I4).  All statements quantify over every slot / depth / mask.
-/
namespace SLE.Idioms
open SLE SLE.SV SLE.Lift SLE.TC SLE.TCSpec

/-- `K w`: a constant leaf. -/
abbrev K (w : Nat) : SV := Lift.mkKnownNat w

/-! ### hereditary node predicates with consistent recorded sizes -/

mutual
/-- every node satisfies `ok` and records `size = child_size + 1` (what `rebuild`, `SV.mk`
and hence every machine-made node do) -/
def Her (ok : Kind → List Nat → List SV → Prop) : SV → Prop
  | .node k a ks s => ok k a ks ∧ s = childSize ks + 1 ∧ HerL ok ks
def HerL (ok : Kind → List Nat → List SV → Prop) : List SV → Prop
  | [] => True
  | x :: xs => Her ok x ∧ HerL ok xs
end

theorem HerL_iff {ok} : ∀ ks : List SV, HerL ok ks ↔ ∀ x ∈ ks, Her ok x
  | [] => by simp [HerL]
  | x :: xs => by simp [HerL, HerL_iff xs]

theorem Her_node {ok k a ks s} :
    Her ok (.node k a ks s) ↔ ok k a ks ∧ s = childSize ks + 1 ∧ ∀ x ∈ ks, Her ok x := by
  simp only [Her, HerL_iff]

theorem Her_rebuild {ok k a ks} :
    Her ok (rebuild k a ks) ↔ ok k a ks ∧ ∀ x ∈ ks, Her ok x := by
  simp only [rebuild, Her_node, true_and]

mutual
theorem Her_mono' {ok ok' : Kind → List Nat → List SV → Prop}
    (h : ∀ k a ks, ok k a ks → (∀ x ∈ ks, Her ok x) → ok' k a ks) :
    ∀ t, Her ok t → Her ok' t
  | .node k a ks s, ht => by
    simp only [Her] at ht ⊢
    exact ⟨h _ _ _ ht.1 ((HerL_iff ks).mp ht.2.2), ht.2.1, HerL_mono' h ks ht.2.2⟩
theorem HerL_mono' {ok ok' : Kind → List Nat → List SV → Prop}
    (h : ∀ k a ks, ok k a ks → (∀ x ∈ ks, Her ok x) → ok' k a ks) :
    ∀ l, HerL ok l → HerL ok' l
  | [], _ => by simp [HerL]
  | x :: xs, hl => by
    simp only [HerL] at hl ⊢
    exact ⟨Her_mono' h x hl.1, HerL_mono' h xs hl.2⟩
end

theorem Her_mono {ok ok' : Kind → List Nat → List SV → Prop} (h : ∀ k a ks, ok k a ks → ok' k a ks)
    (t : SV) (ht : Her ok t) : Her ok' t := Her_mono' (fun k a ks hk _ => h k a ks hk) t ht

/-- a node whose recorded size is consistent is its own `rebuild` -/
theorem rebuild_self {k a ks s} (hs : s = childSize ks + 1) : rebuild k a ks = .node k a ks s := by
  subst hs; rfl

theorem map_id_of {f : SV → SV} {ks : List SV} (h : ∀ x ∈ ks, f x = x) : ks.map f = ks := by
  induction ks with
  | nil => rfl
  | cons x xs ih =>
    simp only [List.map_cons, h x (by simp), ih (fun y hy => h y (by simp [hy]))]

theorem mapE_id {f : SV → Except LFault SV} : ∀ {ks : List SV}, (∀ x ∈ ks, f x = .ok x) → mapE f ks = .ok ks
  | [], _ => rfl
  | x :: xs, h => by
    have h2 : mapE f xs = .ok xs := mapE_id (fun y hy => h y (List.mem_cons_of_mem _ hy))
    simp only [mapE, h x (by simp), h2]

/-! ### inert trees -/

/-- the node kinds on which no lifting pass ever acts -/
def inertKind : Kind → Bool
  | .knownData | .sha3 | .and_ | .multiply | .rightShift
  | .sLoad | .storageWrite | .unwrittenStorageValue | .storageSlot | .concat
  | .mappingIndex | .dynamicArrayIndex | .subWord | .shifted | .packed => false
  | _ => true

/-- `Inert t`: all node kinds of `t` are inert and all recorded sizes are consistent.  Every pass
maps such a tree to itself. -/
def Inert (t : SV) : Prop := Her (fun k _ _ => inertKind k = true) t

def callerV : SV := .node .caller [] [] 1

example : Inert callerV := by simp [Inert, callerV, Her, HerL, inertKind, childSize]
example (i : Nat) : Inert (mkValue i) := by simp [Inert, mkValue, Her, HerL, inertKind, childSize]
example (i : Nat) : Inert (rebuild .add [] [mkValue i, rebuild .or_ [] [callerV, rebuild .divide [] [mkValue 1, callerV]]]) := by
  simp [Inert, callerV, mkValue, rebuild, Her, HerL, inertKind, childSize]

theorem Inert_node {k a ks s} :
    Inert (.node k a ks s) ↔ inertKind k = true ∧ s = childSize ks + 1 ∧ ∀ x ∈ ks, Inert x := Her_node

theorem Inert_her {ok : Kind → List Nat → List SV → Prop} (h : ∀ k a ks, inertKind k = true → ok k a ks)
    {t : SV} (ht : Inert t) : Her ok t := Her_mono (fun k a ks hk => h k a ks hk) t ht

/-! ### I1: masks -/

theorem lowestSetBit_shift (x : Nat) (hx : x % 2 = 1) :
    ∀ (o fuel i : Nat), o < fuel → lowestSetBit fuel (x * 2 ^ o) i = some (i + o)
  | 0, fuel + 1, i, _ => by simp [lowestSetBit, hx]
  | o + 1, fuel + 1, i, h => by
    have h2 : x * 2 ^ (o + 1) = 2 * (x * 2 ^ o) := by rw [Nat.pow_succ]; ac_rfl
    have h0 : x * 2 ^ (o + 1) % 2 = 0 := by rw [h2]; omega
    have hd : x * 2 ^ (o + 1) / 2 = x * 2 ^ o := by rw [h2]; omega
    simp only [lowestSetBit, h0, hd]
    rw [if_neg (by omega), lowestSetBit_shift x hx o fuel (i + 1) (by omega)]
    congr 1; omega

theorem runLength_ones : ∀ (s fuel n : Nat), s ≤ fuel → runLength fuel (2 ^ s - 1) n = n + s
  | 0, 0, n, _ => by simp [runLength]
  | 0, fuel + 1, n, _ => by simp [runLength]
  | s + 1, fuel + 1, n, h => by
    have hp : 0 < 2 ^ s := Nat.two_pow_pos _
    have h1 : (2 ^ (s + 1) - 1) % 2 = 1 := by rw [Nat.pow_succ]; omega
    have hd : (2 ^ (s + 1) - 1) / 2 = 2 ^ s - 1 := by rw [Nat.pow_succ]; omega
    simp only [runLength, h1, hd, if_true]
    rw [runLength_ones s fuel (n + 1) (by omega)]; omega

/-- the mask with `s` ones starting at bit `o` -/
def mask (o s : Nat) : Nat := (2 ^ s - 1) * 2 ^ o

theorem fold_K (w : Nat) : fold (K w) = K w := by
  simp [K, mkKnownNat, fold, foldList, foldNode, knownBin, knownUn, rebuild, childSize]

theorem mask_region (o s : Nat) (hs : 1 ≤ s) (hos : o + s ≤ 256) :
    getRegion (K (mask o s)) = some (o, s) := by
  have hp : 0 < 2 ^ (s - 1) := Nat.two_pow_pos _
  have hodd : (2 ^ s - 1) % 2 = 1 := by
    obtain ⟨s', rfl⟩ : ∃ s', s = s' + 1 := ⟨s - 1, by omega⟩
    simp only [Nat.add_sub_cancel] at hp
    rw [Nat.pow_succ]; omega
  have hl := lowestSetBit_shift (2 ^ s - 1) hodd o 256 0 (by omega)
  have hd : mask o s / 2 ^ o = 2 ^ s - 1 := Nat.mul_div_cancel _ (Nat.two_pow_pos _)
  simp only [getRegion, fold_K, mask] at *
  simp only [K, mkKnownNat, knownOf, hl, Nat.zero_add, hd]
  rw [runLength_ones s (256 - o) 0 (by omega)]; simp

/-! ### the passes are the identity where they have nothing to act on -/

theorem asWord_none {t : SV} (h : t.kind ≠ .knownData) : t.asWord = none := by
  unfold asWord; split
  · exact absurd rfl h
  · rfl

theorem knownOf_none {t : SV} (h : t.kind ≠ .knownData) : knownOf t = none := by
  unfold knownOf; split
  · exact absurd rfl h
  · rfl

theorem foldNode_id {k a ks} (h : ∀ x ∈ ks, x.asWord = none) : foldNode k a ks = rebuild k a ks := by
  unfold foldNode
  split
  · rename_i f x y hk
    simp [h x (by simp)]
  · split
    · rename_i f x hk _
      simp [h x (by simp)]
    · rfl

abbrev NoKnown : SV → Prop := Her (fun k _ _ => k ≠ .knownData)

theorem Her_kind {ok : Kind → List Nat → List SV → Prop} {P : Kind → Prop} (h : ∀ k a ks, ok k a ks → P k)
    {t : SV} (ht : Her ok t) : P t.kind := by
  obtain ⟨k, a, ks, s⟩ := t
  exact h _ _ _ (Her_node.mp ht).1

mutual
theorem fold_noKnown : ∀ t, NoKnown t → fold t = t
  | .node k a ks s, ht => by
    simp only [Her] at ht
    have hk : ∀ x ∈ ks, x.asWord = none := fun x hx =>
      asWord_none (Her_kind (P := fun k => k ≠ .knownData) (fun _ _ _ h => h) ((HerL_iff ks).mp ht.2.2 x hx))
    rw [fold, foldList_noKnown ks ht.2.2, foldNode_id hk]
    exact rebuild_self ht.2.1
theorem foldList_noKnown : ∀ l, HerL (fun k _ _ => k ≠ .knownData) l → foldList l = l
  | [], _ => rfl
  | x :: xs, hl => by
    simp only [HerL] at hl
    rw [foldList, fold_noKnown x hl.1, foldList_noKnown xs hl.2]
end

theorem Inert_noKnown {t : SV} (ht : Inert t) : NoKnown t :=
  Inert_her (fun k _ _ hk => by intro h; subst h; simp [inertKind] at hk) ht

theorem fold_inert {t : SV} (ht : Inert t) : fold t = t := fold_noKnown t (Inert_noKnown ht)

theorem Inert_kind {t : SV} (ht : Inert t) : inertKind t.kind = true :=
  Her_kind (P := fun k => inertKind k = true) (fun _ _ _ h => h) ht

theorem getRegion_inert {t : SV} (ht : Inert t) : getRegion t = none := by
  have : (fold t).kind ≠ .knownData := by
    rw [fold_inert ht]; intro h; have := Inert_kind ht; rw [h] at this; simp [inertKind] at this
  simp [getRegion, knownOf_none this]

/-- pass 1 -/
def ok1 (h : HashCtx) : Kind → List Nat → List SV → Prop :=
  fun k a _ => k = .knownData → ∀ w r, a = w :: r → h.table w = none

mutual
theorem slotHashes_id (h : HashCtx) : ∀ t, Her (ok1 h) t → transform (slotHashesT h) t = t
  | .node k a ks s, ht => by
    simp only [Her] at ht
    have hn : slotHashesT h k a ks = none := by
      unfold slotHashesT; split
      · rename_i w r; rw [ht.1 rfl w r rfl]
      · rfl
    simp only [transform, hn, slotHashesList_id h ks ht.2.2]
    exact rebuild_self ht.2.1
theorem slotHashesList_id (h : HashCtx) : ∀ l, HerL (ok1 h) l → transformList (slotHashesT h) l = l
  | [], _ => rfl
  | x :: xs, hl => by
    simp only [HerL] at hl
    rw [transformList, slotHashes_id h x hl.1, slotHashesList_id h xs hl.2]
end

/-- pass 2 -/
theorem proxySlots_id (h : HashCtx) : ∀ fuel t, Her (fun k _ _ => k ≠ .sLoad ∧ k ≠ .storageWrite) t →
    proxySlots h fuel t = t := by
  intro fuel
  induction fuel with
  | zero => intro t _; cases t; rfl
  | succ n ih =>
    intro t ht
    obtain ⟨k, a, ks, s⟩ := t
    rw [Her_node] at ht
    unfold proxySlots
    split
    · exact absurd rfl ht.1.1
    · exact absurd rfl ht.1.2
    · rw [map_id_of (fun x hx => ih x (ht.2.2 x hx))]; exact rebuild_self ht.2.1

/-- pass 3: no `sha3` node hashes a two-element `concat` -/
def ok3 : Kind → List Nat → List SV → Prop :=
  fun k _ ks => k = .sha3 → ∀ c ∈ ks, c.kind = .concat → c.kids.length ≠ 2

theorem insertMappingAccesses_id' : ∀ fuel t, Her ok3 t → insertMappingAccesses fuel t = t := by
  intro fuel
  induction fuel with
  | zero => intro t _; cases t; rfl
  | succ n ih =>
    intro t ht
    obtain ⟨k, a, ks, s⟩ := t
    rw [Her_node] at ht
    unfold insertMappingAccesses
    split
    · exact absurd rfl (ht.1 rfl _ (List.mem_singleton.mpr rfl) rfl)
    · rw [map_id_of (fun x hx => ih x (ht.2.2 x hx))]; exact rebuild_self ht.2.1

theorem insertMappingAccesses_id (fuel : Nat) (t : SV) (ht : Her (fun k _ _ => k ≠ .sha3) t) :
    insertMappingAccesses fuel t = t :=
  insertMappingAccesses_id' fuel t (Her_mono (fun _ _ _ hk hh => absurd hh hk) t ht)

/-- pass 4 -/
theorem insertSubWords_id : ∀ fuel t, Her (fun k _ _ => k ≠ .and_) t →
    insertSubWords fuel t = .ok t := by
  intro fuel
  induction fuel with
  | zero => intro t _; cases t; rfl
  | succ n ih =>
    intro t ht
    obtain ⟨k, a, ks, s⟩ := t
    rw [Her_node] at ht
    simp only [insertSubWords, mapE_id (fun x hx => ih x (ht.2.2 x hx))]
    split
    · exact absurd rfl ht.1
    · rw [rebuild_self ht.2.1]

/-- pass 5 -/
theorem insertMulShifts_id : ∀ fuel t, Her (fun k _ _ => k ≠ .multiply) t →
    insertMulShifts fuel t = t := by
  intro fuel
  induction fuel with
  | zero => intro t _; cases t; rfl
  | succ n ih =>
    intro t ht
    obtain ⟨k, a, ks, s⟩ := t
    rw [Her_node] at ht
    simp only [insertMulShifts]
    split
    · exact absurd rfl ht.1
    · rw [map_id_of (fun x hx => ih x (ht.2.2 x hx))]; exact rebuild_self ht.2.1

/-- pass 6 -/
theorem liftPacked_id : ∀ fuel t, Her (fun k _ _ => k ≠ .storageWrite) t →
    liftPacked fuel t = .ok t := by
  intro fuel
  induction fuel with
  | zero => intro t _; cases t; rfl
  | succ n ih =>
    intro t ht
    obtain ⟨k, a, ks, s⟩ := t
    rw [Her_node] at ht
    simp only [liftPacked, mapE_id (fun x hx => ih x (ht.2.2 x hx))]
    split
    · exact absurd rfl ht.1
    · rw [rebuild_self ht.2.1]

/-- pass 7 -/
theorem liftDynArray_id : ∀ fuel t, Her (fun k _ _ => k ≠ .sha3) t →
    liftDynArray fuel t = t := by
  intro fuel
  induction fuel with
  | zero => intro t _; cases t; rfl
  | succ n ih =>
    intro t ht
    obtain ⟨k, a, ks, s⟩ := t
    rw [Her_node] at ht
    have hgen : rebuild k a (ks.map (liftDynArray n)) = .node k a ks s := by
      rw [map_id_of (fun x hx => ih x (ht.2.2 x hx))]; exact rebuild_self ht.2.1
    simp only [liftDynArray]
    split
    · rename_i left right
      have hl : left.kind ≠ .sha3 := Her_kind (P := fun k => k ≠ .sha3) (fun _ _ _ h => h) (ht.2.2 left (by simp))
      have hr : right.kind ≠ .sha3 := Her_kind (P := fun k => k ≠ .sha3) (fun _ _ _ h => h) (ht.2.2 right (by simp))
      split
      · exact hgen
      · rename_i data hd
        exfalso
        split at hd
        · exact hl rfl
        · split at hd
          · exact hr rfl
          · cases hd
    · exact hgen

/-- pass 8 -/
theorem insertStorageSlots_id : ∀ fuel t,
    Her (fun k _ _ => k ≠ .mappingIndex ∧ k ≠ .storageWrite ∧ k ≠ .dynamicArrayIndex ∧ k ≠ .sLoad) t →
    insertStorageSlots fuel t = t := by
  intro fuel
  induction fuel with
  | zero => intro t _; cases t; rfl
  | succ n ih =>
    intro t ht
    obtain ⟨k, a, ks, s⟩ := t
    rw [Her_node] at ht
    simp only [insertStorageSlots]
    split
    · exact absurd rfl ht.1.1
    · exact absurd rfl ht.1.2.1
    · exact absurd rfl ht.1.2.2.1
    · exact absurd rfl ht.1.2.2.2
    · rw [map_id_of (fun x hx => ih x (ht.2.2 x hx))]; exact rebuild_self ht.2.1

/-- pass 9: no `add` node has a `mappingIndex` kid -/
def ok9 : Kind → List Nat → List SV → Prop :=
  fun k _ ks => k = .add → ∀ c ∈ ks, c.kind ≠ .mappingIndex

theorem insertMappingOffset_id : ∀ fuel t, Her ok9 t → insertMappingOffset fuel t = t := by
  intro fuel
  induction fuel with
  | zero => intro t _; cases t; rfl
  | succ n ih =>
    intro t ht
    obtain ⟨k, a, ks, s⟩ := t
    rw [Her_node] at ht
    have hgen : rebuild k a (ks.map (insertMappingOffset n)) = .node k a ks s := by
      rw [map_id_of (fun x hx => ih x (ht.2.2 x hx))]; exact rebuild_self ht.2.1
    simp only [insertMappingOffset]
    split
    · rename_i left right
      have hl : left.kind ≠ .mappingIndex := ht.1 rfl left (by simp)
      have hr : right.kind ≠ .mappingIndex := ht.1 rfl right (by simp)
      split
      · rename_i key slot off hp
        exfalso
        split at hp
        · exact hl rfl
        · exact hr rfl
        · cases hp
      · exact hgen
    · exact hgen


theorem knownOf_inert {t : SV} (ht : Inert t) : knownOf t = none :=
  knownOf_none (by intro h; have := Inert_kind ht; rw [h] at this; simp [inertKind] at this)

theorem getShift_inert {v : SV} (hv : Inert v) : getShift v = (v, 0) := by
  obtain ⟨k, a, ks, s⟩ := v
  have hv' := Inert_node.mp hv
  unfold getShift
  split
  · rename_i heq; cases heq; simp [inertKind] at hv'
  · rename_i a' dividend divisor s' heq
    cases heq
    have hd : Inert divisor := hv'.2.2 divisor (by simp)
    split
    · rename_i b base ex sb
      have hb : Inert base := (Inert_node.mp hd).2.2 base (by simp)
      simp [knownOf_inert hb]
    · rename_i b shift base sb
      have hb : Inert base := (Inert_node.mp hd).2.2 base (by simp)
      simp [knownOf_inert hb]
    · have := Inert_kind hd; simp [SV.kind, inertKind] at this
    · rfl
  · rfl

theorem Inert_and {t : SV} (ht : Inert t) : Her (fun k _ _ => k ≠ .and_) t :=
  Inert_her (fun k _ _ hk => by intro h; subst h; simp [inertKind] at hk) ht

/-- I1: one step of `insertSubWords` on `v & mask` and on `mask & v` -/
theorem and_mask_is_subword (o s : Nat) (hs : 1 ≤ s) (hos : o + s ≤ 256) (v : SV) (hv : Inert v)
    (fuel : Nat) (a : List Nat) (sz : Nat) :
    insertSubWords (fuel + 1) (.node .and_ a [v, K (mask o s)] sz) = .ok (rebuild .subWord [o, s] [v]) ∧
    insertSubWords (fuel + 1) (.node .and_ a [K (mask o s), v] sz) = .ok (rebuild .subWord [o, s] [v]) := by
  have hk : (v.kind == Kind.knownData) = false := by
    have := Inert_kind hv
    cases hkk : v.kind <;> simp_all [inertKind]
  have hsub : ∀ (io isz : Nat) (iv : SV) (s' : Nat), v ≠ .node .subWord [io, isz] [iv] s' := by
    intro io isz iv s' h
    have := Inert_kind hv; rw [h] at this; simp [SV.kind, inertKind] at this
  have hb : ¬ (usizeMax ≤ o ∨ 256 < o + s) := by simp [usizeMax]; omega
  constructor
  · simp only [insertSubWords, getRegion_inert hv, mask_region o s hs hos, hk, getShift_inert hv]
    rw [insertSubWords_id fuel v (Inert_and hv)]
    simp only [Nat.add_zero, ge_iff_le, gt_iff_lt, Bool.or_eq_true, decide_eq_true_eq]
    rw [if_neg hb]
    congr 3
  · simp only [insertSubWords, mask_region o s hs hos, hk, getShift_inert hv]
    rw [insertSubWords_id fuel v (Inert_and hv)]
    simp only [Nat.add_zero, ge_iff_le, gt_iff_lt, Bool.or_eq_true, decide_eq_true_eq]
    rw [if_neg hb]
    congr 3

/-! ### I2: mappings of any depth -/

/-- `keccak(key ++ slot)` as the machine builds it -/
def sha3c (key slot : SV) : SV := rebuild .sha3 [] [rebuild .concat [] [key, slot]]

/-- the storage key of `base[k₁][k₂]…[kₙ]` for `ks = [k₁, …, kₙ]` (innermost key first, as solc does) -/
def mapKey : List SV → SV → SV
  | [], base => base
  | k :: ks, base => mapKey ks (sha3c k base)

def mIdx (slot key : SV) : SV := rebuild .mappingIndex [0] [slot, key]

/-- the same access as nested `mappingIndex` nodes -/
def mapIdx : List SV → SV → SV
  | [], base => base
  | k :: ks, base => mapIdx ks (mIdx base k)

def sSlot (x : SV) : SV := rebuild .storageSlot [] [x]

/-- … and with every slot position wrapped in `storageSlot` (after pass 8) -/
def mapIdxS : List SV → SV → SV
  | [], base => base
  | k :: ks, base => mapIdxS ks (mIdx (sSlot base) k)

/-- nesting depth of `mappingIndex` along the slot position, through `storageSlot` wrappers -/
def mapDepth : SV → Nat
  | .node .mappingIndex _ [slot, _] _ => mapDepth slot + 1
  | .node .storageSlot _ [x] _ => mapDepth x
  | _ => 0

theorem Her_mapKey {ok : Kind → List Nat → List SV → Prop} (h1 : ∀ ks, ok .sha3 [] ks) (h2 : ∀ ks, ok .concat [] ks) :
    ∀ (ks : List SV) (base : SV), (∀ k ∈ ks, Her ok k) → Her ok base → Her ok (mapKey ks base)
  | [], _, _, hb => hb
  | k :: ks, base, hks, hb => by
    refine Her_mapKey h1 h2 ks _ (fun x hx => hks x (List.mem_cons_of_mem _ hx)) ?_
    have hk := hks k (by simp)
    simp [sha3c, Her_rebuild, h1, h2, hk, hb]

theorem Her_mapIdx {ok : Kind → List Nat → List SV → Prop} (h1 : ∀ ks, ok .mappingIndex [0] ks) :
    ∀ (ks : List SV) (base : SV), (∀ k ∈ ks, Her ok k) → Her ok base → Her ok (mapIdx ks base)
  | [], _, _, hb => hb
  | k :: ks, base, hks, hb => by
    refine Her_mapIdx h1 ks _ (fun x hx => hks x (List.mem_cons_of_mem _ hx)) ?_
    have hk := hks k (by simp)
    simp [mIdx, Her_rebuild, h1, hk, hb]

theorem Her_mapIdxS {ok : Kind → List Nat → List SV → Prop} (h1 : ∀ ks, ok .mappingIndex [0] ks)
    (h2 : ∀ ks, ok .storageSlot [] ks) :
    ∀ (ks : List SV) (base : SV), (∀ k ∈ ks, Her ok k) → Her ok base → Her ok (mapIdxS ks base)
  | [], _, _, hb => hb
  | k :: ks, base, hks, hb => by
    refine Her_mapIdxS h1 h2 ks _ (fun x hx => hks x (List.mem_cons_of_mem _ hx)) ?_
    have hk := hks k (by simp)
    simp [mIdx, sSlot, Her_rebuild, h1, h2, hk, hb]

theorem Her_K {ok : Kind → List Nat → List SV → Prop} {w : Nat} (h : ok .knownData [w] []) : Her ok (K w) := by
  simp [K, mkKnownNat, Her_node, h, childSize]

theorem Inert_sha3 {t : SV} (ht : Inert t) : Her (fun k _ _ => k ≠ .sha3) t :=
  Inert_her (fun k _ _ hk => by intro h; subst h; simp [inertKind] at hk) ht

theorem ima_K (f w : Nat) : insertMappingAccesses f (K w) = K w := by
  cases f <;> simp [K, mkKnownNat, insertMappingAccesses, rebuild, childSize]

theorem ima_mapKey : ∀ (ks : List SV) (base base' : SV), (∀ k ∈ ks, Inert k) →
    (∀ f, nodeCount base ≤ f → insertMappingAccesses f base = base') →
    ∀ f, nodeCount (mapKey ks base) ≤ f → insertMappingAccesses f (mapKey ks base) = mapIdx ks base'
  | [], _, _, _, hb, f, hf => hb f hf
  | k :: ks, base, base', hks, hb, f, hf => by
    refine ima_mapKey ks (sha3c k base) (mIdx base' k) (fun x hx => hks x (List.mem_cons_of_mem _ hx)) ?_ f hf
    intro f hf
    have hn : nodeCount (sha3c k base) = nodeCount k + nodeCount base + 2 := by
      simp [sha3c, rebuild, nodeCount, nodeCountList]
    obtain ⟨f', rfl⟩ : ∃ f', f = f' + 1 := ⟨f - 1, by omega⟩
    simp only [sha3c, rebuild, insertMappingAccesses, mIdx]
    rw [hb f' (by omega), insertMappingAccesses_id f' k (Inert_sha3 (hks k (by simp)))]

/-- I2: the mapping idiom is recognised at every depth -/
theorem mapping_key_lifted (ks : List SV) (w : Nat) (hks : ∀ k ∈ ks, Inert k) (fuel : Nat)
    (hf : nodeCount (mapKey ks (K w)) ≤ fuel) :
    insertMappingAccesses fuel (mapKey ks (K w)) = mapIdx ks (K w) :=
  ima_mapKey ks (K w) (K w) hks (fun f _ => ima_K f w) fuel hf

/-! ### the pipeline on a top-level storage access -/

open SLE.LiftInv (cnt stage3 stage5 stage7 stage8 stage9 liftAll_eq)

/-- nothing for passes 1 and 2 to act on -/
def okPre (h : HashCtx) : Kind → List Nat → List SV → Prop :=
  fun k a ks => ok1 h k a ks ∧ k ≠ .sLoad ∧ k ≠ .storageWrite

/-- nothing for passes 4 and 5 to act on -/
def okMid : Kind → List Nat → List SV → Prop := fun k _ _ => k ≠ .and_ ∧ k ≠ .multiply

theorem stage3_access (h : HashCtx) {k : Kind} (hk : k = .sLoad ∨ k = .storageWrite) (a : List Nat)
    (key val key3 val3 : SV) (hkey : Her (okPre h) key) (hval : Her (okPre h) val)
    (hu : unpickProxySlots h key = none)
    (hk3 : ∀ f, nodeCount key ≤ f → insertMappingAccesses f key = key3)
    (hv3 : ∀ f, nodeCount val ≤ f → insertMappingAccesses f val = val3) :
    stage3 h (rebuild k a [key, val]) = rebuild k a [key3, val3] := by
  have h1k := slotHashes_id h key (Her_mono (fun _ _ _ hh => hh.1) key hkey)
  have h1v := slotHashes_id h val (Her_mono (fun _ _ _ hh => hh.1) val hval)
  have h2k : ∀ f, proxySlots h f key = key := fun f => proxySlots_id h f key (Her_mono (fun _ _ _ hh => hh.2) key hkey)
  have h2v : ∀ f, proxySlots h f val = val := fun f => proxySlots_id h f val (Her_mono (fun _ _ _ hh => hh.2) val hval)
  have hs1 : transform (slotHashesT h) (rebuild k a [key, val]) = rebuild k a [key, val] := by
    rcases hk with rfl | rfl <;> simp [rebuild, transform, transformList, slotHashesT, h1k, h1v]
  have hs2 : ∀ n, proxySlots h (n + 1) (rebuild k a [key, val]) = rebuild k a [key, val] := by
    intro n
    rcases hk with rfl | rfl <;> simp [rebuild, proxySlots, hu, h2k, h2v]
  unfold stage3
  simp only [hs1, cnt, hs2]
  rcases hk with rfl | rfl <;>
    simp only [rebuild, guarded, guardStorage, hk3 (nodeCount key + 1) (by omega), hv3 (nodeCount val + 1) (by omega)]

theorem stage9_access {k : Kind} (hk : k = .sLoad ∨ k = .storageWrite) (a : List Nat)
    (key val k7 v7 k8 v8 : SV)
    (h7k : ∀ f, nodeCount key ≤ f → liftDynArray f key = k7)
    (h7v : ∀ f, nodeCount val ≤ f → liftDynArray f val = v7)
    (hns : k7.kind ≠ .storageSlot)
    (h8k : ∀ f, nodeCount k7 ≤ f → insertStorageSlots f k7 = k8)
    (h8v : ∀ f, nodeCount v7 ≤ f → insertStorageSlots f v7 = v8)
    (h9k : Her ok9 k8) (h9v : Her ok9 v8) :
    stage9 (rebuild k a [key, val]) = rebuild k a [sSlot k8, v8] := by
  have hs7 : stage7 (rebuild k a [key, val]) = rebuild k a [k7, v7] := by
    unfold stage7
    rcases hk with rfl | rfl <;>
      simp only [rebuild, cnt, guarded, guardStorage, h7k (2 * (nodeCount key + 1)) (by omega),
        h7v (2 * (nodeCount val + 1)) (by omega)]
  have hns' : (k7.kind == Kind.storageSlot) = false := by simpa using hns
  have hn1 : nodeCount k7 ≤ nodeCountList [k7, v7] := by simp [nodeCountList]
  have hn2 : nodeCount v7 ≤ nodeCountList [k7, v7] := by simp [nodeCountList]
  have hs8 : stage8 (rebuild k a [key, val]) = rebuild k a [sSlot k8, v8] := by
    unfold stage8
    rw [hs7]
    rcases hk with rfl | rfl <;>
      simp [rebuild, cnt, nodeCount, insertStorageSlots, hns', h8k (nodeCountList [k7, v7] + 1) (by omega), h8v (nodeCountList [k7, v7] + 1) (by omega), sSlot]
  unfold stage9
  rw [hs8]
  apply insertMappingOffset_id
  rw [Her_rebuild]
  refine ⟨?_, ?_⟩
  · intro h; rcases hk with rfl | rfl <;> cases h
  · intro x hx
    simp only [List.mem_cons, List.mem_nil_iff, or_false] at hx
    rcases hx with rfl | rfl
    · simp only [sSlot, Her_rebuild]
      exact ⟨(fun h => by cases h), by simpa using h9k⟩
    · exact h9v

theorem liftAll_access (h : HashCtx) {k : Kind} (hk : k = .sLoad ∨ k = .storageWrite) (a : List Nat)
    (key val key3 val3 : SV) (hkey : Her (okPre h) key) (hval : Her (okPre h) val)
    (hu : unpickProxySlots h key = none)
    (hk3 : ∀ f, nodeCount key ≤ f → insertMappingAccesses f key = key3)
    (hv3 : ∀ f, nodeCount val ≤ f → insertMappingAccesses f val = val3)
    (hmk : Her okMid key3) (hmv : Her okMid val3)
    (h6 : ∀ f, liftPacked (f + 1) (rebuild k a [key3, val3]) = .ok (rebuild k a [key3, val3])) :
    liftAll h (rebuild k a [key, val]) = .ok (stage9 (rebuild k a [key3, val3])) := by
  have hm : Her okMid (rebuild k a [key3, val3]) := by
    rw [Her_rebuild]
    refine ⟨by rcases hk with rfl | rfl <;> simp [okMid], ?_⟩
    intro x hx
    simp only [List.mem_cons, List.mem_nil_iff, or_false] at hx
    rcases hx with rfl | rfl <;> assumption
  rw [liftAll_eq, stage3_access h hk a key val key3 val3 hkey hval hu hk3 hv3,
    insertSubWords_id _ _ (Her_mono (fun _ _ _ hh => hh.1) _ hm)]
  simp only [stage5, insertMulShifts_id _ _ (Her_mono (fun _ _ _ hh => hh.2) _ hm), cnt, h6]

/-! ### I2 through the whole pipeline -/

theorem Inert_okPre (h : HashCtx) {t : SV} (ht : Inert t) : Her (okPre h) t :=
  Inert_her (fun k _ _ hk => by
    refine ⟨?_, ?_, ?_⟩
    · intro hh; subst hh; simp [inertKind] at hk
    · intro hh; subst hh; simp [inertKind] at hk
    · intro hh; subst hh; simp [inertKind] at hk) ht

theorem Inert_okMid {t : SV} (ht : Inert t) : Her okMid t :=
  Inert_her (fun k _ _ hk => by
    refine ⟨?_, ?_⟩
    · intro hh; subst hh; simp [inertKind] at hk
    · intro hh; subst hh; simp [inertKind] at hk) ht

theorem Inert_write {t : SV} (ht : Inert t) : Her (fun k _ _ => k ≠ .storageWrite) t :=
  Inert_her (fun k _ _ hk => by intro hh; subst hh; simp [inertKind] at hk) ht

theorem Inert_slots {t : SV} (ht : Inert t) :
    Her (fun k _ _ => k ≠ .mappingIndex ∧ k ≠ .storageWrite ∧ k ≠ .dynamicArrayIndex ∧ k ≠ .sLoad) t :=
  Inert_her (fun k _ _ hk => by
    refine ⟨?_, ?_, ?_, ?_⟩
    · intro hh; subst hh; simp [inertKind] at hk
    · intro hh; subst hh; simp [inertKind] at hk
    · intro hh; subst hh; simp [inertKind] at hk
    · intro hh; subst hh; simp [inertKind] at hk) ht

theorem Inert_ok9 {t : SV} (ht : Inert t) : Her ok9 t :=
  Her_mono' (fun k a ks _ hks _ c hc => by
    intro hh
    have := Inert_kind (hks c hc)
    rw [hh] at this; simp [inertKind] at this) t ht

theorem okPre_ne (h : HashCtx) {k : Kind} {a : List Nat} {ks : List SV} (h1 : k ≠ .knownData) (h2 : k ≠ .sLoad)
    (h3 : k ≠ .storageWrite) : okPre h k a ks := ⟨fun hh => absurd hh h1, h2, h3⟩

def usv (x : SV) : SV := rebuild .unwrittenStorageValue [] [x]

theorem mapKey_snoc : ∀ (ks : List SV) (k base : SV), mapKey (ks ++ [k]) base = sha3c k (mapKey ks base)
  | [], _, _ => rfl
  | x :: xs, k, base => by simp only [List.cons_append, mapKey, mapKey_snoc xs k]

theorem mapIdxS_snoc : ∀ (ks : List SV) (k base : SV), mapIdxS (ks ++ [k]) base = mIdx (sSlot (mapIdxS ks base)) k
  | [], _, _ => rfl
  | x :: xs, k, base => by simp only [List.cons_append, mapIdxS, mapIdxS_snoc xs k]

theorem unpick_sha3c (h : HashCtx) {k : SV} (hk : Inert k) (b : SV) : unpickProxySlots h (sha3c k b) = none := by
  have h1 : knownOf (fold k) = none := by rw [fold_inert hk]; exact knownOf_inert hk
  cases hb : knownOf (fold b) <;>
    simp [sha3c, rebuild, unpickProxySlots, unpickSha3Data, h1, hb]

theorem unpick_K (h : HashCtx) (w : Nat) : unpickProxySlots h (K w) = none :=
  TCSlots.unpick_lit h ⟨[], [], 1, rfl⟩

theorem snoc_cases {α : Type} (l : List α) : l = [] ∨ ∃ l' x, l = l' ++ [x] := by
  rcases List.eq_nil_or_concat l with h | ⟨l', x, h⟩
  · exact Or.inl h
  · exact Or.inr ⟨l', x, by simpa using h⟩

theorem unpick_mapKey (h : HashCtx) (ks : List SV) (hks : ∀ k ∈ ks, Inert k) (w : Nat) :
    unpickProxySlots h (mapKey ks (K w)) = none := by
  rcases snoc_cases ks with rfl | ⟨ks', k, rfl⟩
  · exact unpick_K h w
  · rw [mapKey_snoc]; exact unpick_sha3c h (hks k (by simp)) _

theorem iss_K (f w : Nat) : insertStorageSlots f (K w) = K w := by
  cases f <;> simp [K, mkKnownNat, insertStorageSlots, rebuild, childSize]

theorem lda_K (f w : Nat) : liftDynArray f (K w) = K w := by
  cases f <;> simp [K, mkKnownNat, liftDynArray, rebuild, childSize]

theorem iss_mapIdx : ∀ (ks : List SV) (base base' : SV), (∀ k ∈ ks, Inert k) → base.kind ≠ .storageSlot →
    (∀ f, nodeCount base ≤ f → insertStorageSlots f base = base') →
    ∀ f, nodeCount (mapIdx ks base) ≤ f → insertStorageSlots f (mapIdx ks base) = mapIdxS ks base'
  | [], _, _, _, _, hb, f, hf => hb f hf
  | k :: ks, base, base', hks, hns, hb, f, hf => by
    refine iss_mapIdx ks (mIdx base k) (mIdx (sSlot base') k) (fun x hx => hks x (List.mem_cons_of_mem _ hx))
      (by simp [mIdx, rebuild, SV.kind]) ?_ f hf
    intro f hf
    have hn : nodeCount (mIdx base k) = nodeCount base + nodeCount k + 1 := by
      simp [mIdx, rebuild, nodeCount, nodeCountList]
    have hns' : (base.kind == Kind.storageSlot) = false := by simpa using hns
    obtain ⟨f', rfl⟩ : ∃ f', f = f' + 1 := ⟨f - 1, by omega⟩
    simp only [mIdx, rebuild, insertStorageSlots, hns', sSlot]
    rw [hb f' (by omega), insertStorageSlots_id f' k (Inert_slots (hks k (by simp)))]
    simp

theorem mapIdx_kind : ∀ (ks : List SV) (base : SV), base.kind ≠ .storageSlot → (mapIdx ks base).kind ≠ .storageSlot
  | [], _, h => h
  | k :: ks, base, _ => mapIdx_kind ks (mIdx base k) (by simp [mIdx, rebuild, SV.kind])

theorem ima_usv (x x' : SV) (hx : ∀ f, nodeCount x ≤ f → insertMappingAccesses f x = x') :
    ∀ f, nodeCount (usv x) ≤ f → insertMappingAccesses f (usv x) = usv x' := by
  intro f hf
  have hn : nodeCount (usv x) = nodeCount x + 1 := by simp [usv, rebuild, nodeCount, nodeCountList]
  obtain ⟨f', rfl⟩ : ∃ f', f = f' + 1 := ⟨f - 1, by omega⟩
  simp only [usv, rebuild, insertMappingAccesses, List.map, hx f' (by omega)]

theorem iss_usv (x x' : SV) (hx : ∀ f, nodeCount x ≤ f → insertStorageSlots f x = x') :
    ∀ f, nodeCount (usv x) ≤ f → insertStorageSlots f (usv x) = usv x' := by
  intro f hf
  have hn : nodeCount (usv x) = nodeCount x + 1 := by simp [usv, rebuild, nodeCount, nodeCountList]
  obtain ⟨f', rfl⟩ : ∃ f', f = f' + 1 := ⟨f - 1, by omega⟩
  simp only [usv, rebuild, insertStorageSlots, List.map, hx f' (by omega)]

theorem Her_usv {ok : Kind → List Nat → List SV → Prop} (h : ∀ ks, ok .unwrittenStorageValue [] ks) {x : SV}
    (hx : Her ok x) : Her ok (usv x) := by
  simp [usv, Her_rebuild, h, hx]

/-- the machine's value for a read of the never-written element `base[k₁]…[kₙ]` of the mapping at slot `w` -/
def mapRead (ks : List SV) (w : Nat) : SV := rebuild .sLoad [] [mapKey ks (K w), usv (mapKey ks (K w))]

/-- I2, exact form: the whole pipeline on a mapping read of any depth -/
theorem mapping_read_lifted_eq (h : HashCtx) (w : Nat) (hw : h.table w = none) (ks : List SV)
    (hks : ∀ k ∈ ks, Inert k) :
    liftAll h (mapRead ks w) =
      .ok (rebuild .sLoad [] [sSlot (mapIdxS ks (K w)), usv (mapIdxS ks (K w))]) := by
  have hpre : Her (okPre h) (mapKey ks (K w)) :=
    Her_mapKey (fun _ => okPre_ne h (by decide) (by decide) (by decide)) (fun _ => okPre_ne h (by decide) (by decide) (by decide))
      ks _ (fun k hk => Inert_okPre h (hks k hk))
      (Her_K ⟨(fun _ w' r hh => by cases hh; exact hw), by decide, by decide⟩)
  have hima := fun f hf => mapping_key_lifted ks w hks f hf
  have hmid : Her okMid (mapIdx ks (K w)) :=
    Her_mapIdx (fun _ => by simp [okMid]) ks _ (fun k hk => Inert_okMid (hks k hk)) (Her_K (by simp [okMid]))
  have hwr : Her (fun k _ _ => k ≠ .storageWrite) (mapIdx ks (K w)) :=
    Her_mapIdx (fun _ => by simp) ks _ (fun k hk => Inert_write (hks k hk)) (Her_K (by simp))
  have hsh : Her (fun k _ _ => k ≠ .sha3) (mapIdx ks (K w)) :=
    Her_mapIdx (fun _ => by simp) ks _ (fun k hk => Inert_sha3 (hks k hk)) (Her_K (by simp))
  have h9 : Her ok9 (mapIdxS ks (K w)) :=
    Her_mapIdxS (fun _ hh => by cases hh) (fun _ hh => by cases hh) ks _ (fun k hk => Inert_ok9 (hks k hk))
      (Her_K (fun hh => by cases hh))
  have hiss := iss_mapIdx ks (K w) (K w) hks (by simp [K, mkKnownNat, SV.kind]) (fun f _ => iss_K f w)
  unfold mapRead
  rw [liftAll_access h (Or.inl rfl) [] _ _ (mapIdx ks (K w)) (usv (mapIdx ks (K w))) hpre
    (Her_usv (fun _ => okPre_ne h (by decide) (by decide) (by decide)) hpre) (unpick_mapKey h ks hks w) hima
    (ima_usv _ _ hima) hmid (Her_usv (fun _ => by simp [okMid]) hmid)
    (fun f => liftPacked_id _ _ (by
      rw [Her_rebuild]
      refine ⟨by simp, ?_⟩
      intro x hx
      simp only [List.mem_cons, List.mem_nil_iff, or_false] at hx
      rcases hx with rfl | rfl
      · exact hwr
      · exact Her_usv (fun _ => by simp) hwr))]
  rw [stage9_access (Or.inl rfl) [] _ _ (mapIdx ks (K w)) (usv (mapIdx ks (K w))) (mapIdxS ks (K w))
    (usv (mapIdxS ks (K w)))
    (fun f _ => liftDynArray_id f _ hsh)
    (fun f _ => liftDynArray_id f _ (Her_usv (fun _ => by simp) hsh))
    (mapIdx_kind ks _ (by simp [K, mkKnownNat, SV.kind])) hiss (iss_usv _ _ hiss) h9
    (Her_usv (fun _ hh => by cases hh) h9)]

theorem mapDepth_K (w : Nat) : mapDepth (K w) = 0 := by simp [K, mkKnownNat, mapDepth]

theorem mapDepth_mapIdxS : ∀ (ks : List SV) (base : SV), mapDepth (mapIdxS ks base) = ks.length + mapDepth base
  | [], _ => by simp [mapIdxS]
  | k :: ks, base => by
    rw [mapIdxS, mapDepth_mapIdxS ks]
    simp [mIdx, sSlot, rebuild, mapDepth]; omega

theorem hasConstSlot_sSlot_K (w : Nat) : hasConstSlot w (sSlot (K w)) = true := by
  simp [hasConstSlot, sSlot, K, mkKnownNat, rebuild, anyNode]

theorem hasConstSlot_mapIdxS (w : Nat) : ∀ (ks : List SV) (base : SV), hasConstSlot w (sSlot base) = true →
    hasConstSlot w (sSlot (mapIdxS ks base)) = true
  | [], _, hb => hb
  | k :: ks, base, hb => by
    refine hasConstSlot_mapIdxS w ks _ ?_
    unfold hasConstSlot at hb ⊢
    exact TCSlots.anyNode_of_kid _ _ _ _ _ _ (List.mem_singleton.mpr rfl)
      (TCSlots.anyNode_of_kid _ _ _ _ _ _ (List.mem_cons_self) hb)

theorem mapIdxS_kind {ks : List SV} (hne : ks ≠ []) (base : SV) : (mapIdxS ks base).kind = .mappingIndex := by
  rcases snoc_cases ks with rfl | ⟨ks', k, rfl⟩
  · exact absurd rfl hne
  · rw [mapIdxS_snoc]; rfl

/-- I2 through `liftAll`: a read of a never-written element of the mapping at slot `w`, under `n ≥ 1`
keys, is lifted to `sLoad [storageSlot [y], _]` where `y` is a `mappingIndex` nest of depth `n`
over `storageSlot [K w]` -/
theorem mapping_read_lifted (h : HashCtx) (w : Nat) (hw : h.table w = none) (ks : List SV)
    (hks : ∀ k ∈ ks, Inert k) (hne : ks ≠ []) :
    ∃ v' y val, liftAll h (mapRead ks w) = .ok v' ∧ hasConstSlot w v' = true ∧
      v' = rebuild .sLoad [] [rebuild .storageSlot [] [y], val] ∧ y.kind = .mappingIndex ∧
      mapDepth y = ks.length ∧ y = mapIdxS ks (K w) := by
  refine ⟨_, mapIdxS ks (K w), _, mapping_read_lifted_eq h w hw ks hks, ?_, rfl, mapIdxS_kind hne _, ?_, rfl⟩
  · unfold hasConstSlot
    exact TCSlots.anyNode_of_kid _ _ _ _ _ _ (List.mem_cons_self)
      (hasConstSlot_mapIdxS w ks (K w) (hasConstSlot_sSlot_K w))
  · rw [mapDepth_mapIdxS, mapDepth_K]; rfl

/-- what the shapes look like at depth 2: `m[caller][v7]` at slot 3 -/
example : mapKey [callerV, mkValue 7] (K 3) = sha3c (mkValue 7) (sha3c callerV (K 3)) := rfl
example : mapIdxS [callerV, mkValue 7] (K 3) =
    rebuild .mappingIndex [0] [rebuild .storageSlot [] [
      rebuild .mappingIndex [0] [rebuild .storageSlot [] [K 3], callerV]], mkValue 7] := rfl
example : mapDepth (mapIdxS [callerV, mkValue 7] (K 3)) = 2 := by
  rw [mapDepth_mapIdxS, mapDepth_K]; rfl

/-! ### I3: dynamic arrays -/

/-- element `idx` of the dynamic array at slot `w`: `keccak(w) + idx` — the shape with the slot hashed directly … -/
def dynKey (w : Nat) (idx : SV) : SV := rebuild .add [] [rebuild .sha3 [] [K w], idx]
/-- … and the shape where the hash input is a one-element `concat`; `liftDynArray` accepts both -/
def dynKeyC (w : Nat) (idx : SV) : SV := rebuild .add [] [rebuild .sha3 [] [rebuild .concat [] [K w]], idx]

def dIdx (slot idx : SV) : SV := rebuild .dynamicArrayIndex [] [slot, idx]

theorem unpickSha3Data_inert (h : HashCtx) {t : SV} (ht : Inert t) : unpickSha3Data h t = none := by
  have := Inert_kind ht
  unfold unpickSha3Data
  split
  · simp [SV.kind, inertKind] at this
  · rfl

theorem unpick_add (h : HashCtx) (a : List Nat) (l idx : SV) (hidx : Inert idx) :
    unpickProxySlots h (rebuild .add a [l, idx]) = none := by
  have hi : idx.asWord = none :=
    asWord_none (by intro hh; have := Inert_kind hidx; rw [hh] at this; simp [inertKind] at this)
  have hf : ∀ nl, (fold (rebuild .add a [nl, idx])).kind = .add := by
    intro nl
    simp only [rebuild, fold, foldList, fold_inert hidx, foldNode, knownBin, hi]
    split <;> simp_all [SV.kind]
  simp only [rebuild] at hf
  simp only [rebuild, unpickProxySlots, unpickSha3Data_inert h hidx]
  cases unpickSha3Data h l <;> simp [hf]

theorem unpickOrs_inert : ∀ (fuel : Nat) (v : SV), Inert v → ∃ e ∈ unpickOrs fuel v, Inert e := by
  intro fuel
  induction fuel with
  | zero => intro v hv; exact ⟨v, by simp [unpickOrs], hv⟩
  | succ n ih =>
    intro v hv
    unfold unpickOrs
    split
    · rename_i a l r s
      obtain ⟨e, he, hie⟩ := ih l ((Inert_node.mp hv).2.2 l (by simp))
      exact ⟨e, List.mem_append_left _ he, hie⟩
    · exact ⟨v, by simp, hv⟩

theorem liftPacked_write (f : Nat) (a : List Nat) (key val : SV)
    (hk : Her (fun k _ _ => k ≠ .storageWrite) key) (hv : Inert val) :
    liftPacked (f + 1) (rebuild .storageWrite a [key, val]) = .ok (rebuild .storageWrite a [key, val]) := by
  have hall : (unpickOrs (nodeCount val) val).all (fun e => e.kind == .shifted || e.kind == .subWord) = false := by
    obtain ⟨e, he, hie⟩ := unpickOrs_inert (nodeCount val) val hv
    rw [List.all_eq_false]
    refine ⟨e, he, ?_⟩
    have := Inert_kind hie
    cases hk : e.kind <;> simp_all [inertKind]
  have hm : mapE (liftPacked f) [key, val] = .ok [key, val] :=
    mapE_id (fun x hx => by
      simp only [List.mem_cons, List.mem_nil_iff, or_false] at hx
      rcases hx with rfl | rfl
      · exact liftPacked_id f _ hk
      · exact liftPacked_id f _ (Inert_write hv))
  simp only [rebuild, liftPacked, hall, hm]
  rfl

theorem lda_usv (x x' : SV) (hx : ∀ f, nodeCount x ≤ f → liftDynArray f x = x') :
    ∀ f, nodeCount (usv x) ≤ f → liftDynArray f (usv x) = usv x' := by
  intro f hf
  have hn : nodeCount (usv x) = nodeCount x + 1 := by simp [usv, rebuild, nodeCount, nodeCountList]
  obtain ⟨f', rfl⟩ : ∃ f', f = f' + 1 := ⟨f - 1, by omega⟩
  simp only [usv, rebuild, liftDynArray, List.map, hx f' (by omega)]

theorem lda_dynKey (w : Nat) (idx : SV) (hidx : Inert idx) :
    ∀ f, nodeCount (dynKey w idx) ≤ f → liftDynArray f (dynKey w idx) = dIdx (K w) idx := by
  intro f hf
  have hn : nodeCount (dynKey w idx) = nodeCount idx + 3 := by
    simp [dynKey, K, mkKnownNat, rebuild, nodeCount, nodeCountList]; omega
  obtain ⟨f', rfl⟩ : ∃ f', f = f' + 1 := ⟨f - 1, by omega⟩
  have hK := lda_K f' w
  simp only [K, mkKnownNat] at hK
  simp only [dynKey, rebuild, liftDynArray, dIdx, K, mkKnownNat]
  rw [liftDynArray_id f' idx (Inert_sha3 hidx), hK]

theorem lda_dynKeyC (w : Nat) (idx : SV) (hidx : Inert idx) :
    ∀ f, nodeCount (dynKeyC w idx) ≤ f → liftDynArray f (dynKeyC w idx) = dIdx (K w) idx := by
  intro f hf
  have hn : nodeCount (dynKeyC w idx) = nodeCount idx + 4 := by
    simp [dynKeyC, K, mkKnownNat, rebuild, nodeCount, nodeCountList]; omega
  obtain ⟨f', rfl⟩ : ∃ f', f = f' + 1 := ⟨f - 1, by omega⟩
  simp only [dynKeyC, rebuild, liftDynArray, dIdx]
  rw [liftDynArray_id f' idx (Inert_sha3 hidx), fold_K, lda_K]

theorem iss_dIdx (w : Nat) (idx : SV) (hidx : Inert idx) :
    ∀ f, nodeCount (dIdx (K w) idx) ≤ f → insertStorageSlots f (dIdx (K w) idx) = dIdx (sSlot (K w)) idx := by
  intro f hf
  have hn : nodeCount (dIdx (K w) idx) = nodeCount idx + 2 := by
    simp [dIdx, K, mkKnownNat, rebuild, nodeCount, nodeCountList]; omega
  obtain ⟨f', rfl⟩ : ∃ f', f = f' + 1 := ⟨f - 1, by omega⟩
  simp only [dIdx, rebuild, insertStorageSlots, sSlot]
  rw [insertStorageSlots_id f' idx (Inert_slots hidx), iss_K]
  simp [K, mkKnownNat, SV.kind]

theorem Inert_ok3 {t : SV} (ht : Inert t) : Her ok3 t :=
  Her_mono (fun _ _ _ hk hh => absurd hh hk) t (Inert_sha3 ht)

theorem Her_dynKey {ok : Kind → List Nat → List SV → Prop} {w : Nat} {idx : SV}
    (h1 : ∀ ks, ok .add [] ks) (h2 : ok .sha3 [] [K w]) (hK : ok .knownData [w] []) (hidx : Her ok idx) :
    Her ok (dynKey w idx) := by
  simp [dynKey, Her_rebuild, h1, h2, Her_K hK, hidx]

theorem Her_dynKeyC {ok : Kind → List Nat → List SV → Prop} {w : Nat} {idx : SV}
    (h1 : ∀ ks, ok .add [] ks) (h2 : ok .sha3 [] [rebuild .concat [] [K w]]) (h3 : ok .concat [] [K w])
    (hK : ok .knownData [w] []) (hidx : Her ok idx) :
    Her ok (dynKeyC w idx) := by
  simp [dynKeyC, Her_rebuild, h1, h2, h3, Her_K hK, hidx]

theorem hasConstSlot_dIdx (w : Nat) (idx : SV) : hasConstSlot w (sSlot (dIdx (sSlot (K w)) idx)) = true := by
  unfold hasConstSlot
  exact TCSlots.anyNode_of_kid _ _ _ _ _ _ (List.mem_singleton.mpr rfl)
    (TCSlots.anyNode_of_kid _ _ _ _ _ _ (List.mem_cons_self) (hasConstSlot_sSlot_K w))

/-- the pipeline on an access whose key `liftDynArray` turns into `dynamicArrayIndex [K w, idx]` -/
theorem dyn_array_generic (h : HashCtx) (w : Nat) (idx key : SV) (hidx : Inert idx)
    (hpre : Her (okPre h) key) (hu : unpickProxySlots h key = none) (h3 : Her ok3 key)
    (hmid : Her okMid key) (hwr : Her (fun k _ _ => k ≠ .storageWrite) key)
    (hlda : ∀ f, nodeCount key ≤ f → liftDynArray f key = dIdx (K w) idx) :
    liftAll h (rebuild .sLoad [] [key, usv key]) =
        .ok (rebuild .sLoad [] [sSlot (dIdx (sSlot (K w)) idx), usv (dIdx (sSlot (K w)) idx)]) ∧
    ∀ val, Inert val → liftAll h (rebuild .storageWrite [] [key, val]) =
        .ok (rebuild .storageWrite [] [sSlot (dIdx (sSlot (K w)) idx), val]) := by
  have hima : ∀ f, nodeCount key ≤ f → insertMappingAccesses f key = key :=
    fun f _ => insertMappingAccesses_id' f key h3
  have h9 : Her ok9 (dIdx (sSlot (K w)) idx) := by
    simp only [dIdx, sSlot, Her_rebuild]
    refine ⟨(fun hh => by cases hh), ?_⟩
    intro x hx
    simp only [List.mem_cons, List.mem_nil_iff, or_false] at hx
    rcases hx with rfl | rfl
    · rw [Her_rebuild]
      exact ⟨(fun hh => by cases hh), fun x hx => by
        rw [List.mem_singleton.mp hx]; exact Her_K (fun hh => by cases hh)⟩
    · exact Inert_ok9 hidx
  have hns : (dIdx (K w) idx).kind ≠ .storageSlot := by simp [dIdx, rebuild, SV.kind]
  constructor
  · rw [liftAll_access h (Or.inl rfl) [] key (usv key) key (usv key) hpre
      (Her_usv (fun _ => okPre_ne h (by decide) (by decide) (by decide)) hpre) hu hima (ima_usv _ _ hima) hmid
      (Her_usv (fun _ => by simp [okMid]) hmid)
      (fun f => liftPacked_id _ _ (by
        rw [Her_rebuild]
        refine ⟨by simp, ?_⟩
        intro x hx
        simp only [List.mem_cons, List.mem_nil_iff, or_false] at hx
        rcases hx with rfl | rfl
        · exact hwr
        · exact Her_usv (fun _ => by simp) hwr))]
    rw [stage9_access (Or.inl rfl) [] key (usv key) (dIdx (K w) idx) (usv (dIdx (K w) idx))
      (dIdx (sSlot (K w)) idx) (usv (dIdx (sSlot (K w)) idx)) hlda (lda_usv _ _ hlda) hns
      (iss_dIdx w idx hidx) (iss_usv _ _ (iss_dIdx w idx hidx)) h9 (Her_usv (fun _ hh => by cases hh) h9)]
  · intro val hval
    rw [liftAll_access h (Or.inr rfl) [] key val key val hpre (Inert_okPre h hval) hu hima
      (fun f _ => insertMappingAccesses_id f val (Inert_sha3 hval)) hmid (Inert_okMid hval)
      (fun f => liftPacked_write f [] key val hwr hval)]
    rw [stage9_access (Or.inr rfl) [] key val (dIdx (K w) idx) val
      (dIdx (sSlot (K w)) idx) val hlda (fun f _ => liftDynArray_id f val (Inert_sha3 hval)) hns
      (iss_dIdx w idx hidx) (fun f _ => insertStorageSlots_id f val (Inert_slots hval)) h9 (Inert_ok9 hval)]

theorem dynKey_facts (h : HashCtx) (w : Nat) (hw : h.table w = none) (idx : SV) (hidx : Inert idx) :
    Her (okPre h) (dynKey w idx) ∧ unpickProxySlots h (dynKey w idx) = none ∧ Her ok3 (dynKey w idx) ∧
    Her okMid (dynKey w idx) ∧ Her (fun k _ _ => k ≠ .storageWrite) (dynKey w idx) := by
  refine ⟨?_, unpick_add h [] _ idx hidx, ?_, ?_, ?_⟩
  · exact Her_dynKey (fun _ => okPre_ne h (by decide) (by decide) (by decide))
      (okPre_ne h (by decide) (by decide) (by decide))
      ⟨(fun _ w' r hh => by cases hh; exact hw), by decide, by decide⟩ (Inert_okPre h hidx)
  · exact Her_dynKey (fun _ hh => by cases hh)
      (fun _ c hc hk => by rw [List.mem_singleton.mp hc] at hk; cases hk)
      (fun hh => by cases hh) (Inert_ok3 hidx)
  · exact Her_dynKey (fun _ => by simp [okMid]) (by simp [okMid]) (by simp [okMid]) (Inert_okMid hidx)
  · exact Her_dynKey (fun _ => by simp) (by simp) (by simp) (Inert_write hidx)

theorem dynKeyC_facts (h : HashCtx) (w : Nat) (hw : h.table w = none) (idx : SV) (hidx : Inert idx) :
    Her (okPre h) (dynKeyC w idx) ∧ unpickProxySlots h (dynKeyC w idx) = none ∧ Her ok3 (dynKeyC w idx) ∧
    Her okMid (dynKeyC w idx) ∧ Her (fun k _ _ => k ≠ .storageWrite) (dynKeyC w idx) := by
  refine ⟨?_, unpick_add h [] _ idx hidx, ?_, ?_, ?_⟩
  · exact Her_dynKeyC (fun _ => okPre_ne h (by decide) (by decide) (by decide))
      (okPre_ne h (by decide) (by decide) (by decide)) (okPre_ne h (by decide) (by decide) (by decide))
      ⟨(fun _ w' r hh => by cases hh; exact hw), by decide, by decide⟩ (Inert_okPre h hidx)
  · exact Her_dynKeyC (fun _ hh => by cases hh)
      (fun _ c hc _ => by rw [List.mem_singleton.mp hc]; simp [rebuild, SV.kids])
      (fun hh => by cases hh) (fun hh => by cases hh) (Inert_ok3 hidx)
  · exact Her_dynKeyC (fun _ => by simp [okMid]) (by simp [okMid]) (by simp [okMid]) (by simp [okMid])
      (Inert_okMid hidx)
  · exact Her_dynKeyC (fun _ => by simp) (by simp) (by simp) (by simp) (Inert_write hidx)

/-- I3: element access of the dynamic array at slot `w` (hash taken of `K w` directly, or of the
one-element `concat [K w]`), read or written, goes through `liftAll` to
`storageSlot [dynamicArrayIndex [storageSlot [K w], idx]]` -/
theorem dyn_array_lifted (h : HashCtx) (w : Nat) (hw : h.table w = none) (idx : SV) (hidx : Inert idx)
    (key : SV) (hkey : key = dynKey w idx ∨ key = dynKeyC w idx) :
    let slotKey := rebuild .storageSlot [] [rebuild .dynamicArrayIndex [] [rebuild .storageSlot [] [K w], idx]]
    hasConstSlot w slotKey = true ∧
    liftAll h (rebuild .sLoad [] [key, usv key]) =
      .ok (rebuild .sLoad [] [slotKey, usv (rebuild .dynamicArrayIndex [] [rebuild .storageSlot [] [K w], idx])]) ∧
    ∀ val, Inert val →
      liftAll h (rebuild .storageWrite [] [key, val]) = .ok (rebuild .storageWrite [] [slotKey, val]) := by
  refine ⟨hasConstSlot_dIdx w idx, ?_⟩
  rcases hkey with rfl | rfl
  · obtain ⟨h1, h2, h3, h4, h5⟩ := dynKey_facts h w hw idx hidx
    exact dyn_array_generic h w idx _ hidx h1 h2 h3 h4 h5 (lda_dynKey w idx hidx)
  · obtain ⟨h1, h2, h3, h4, h5⟩ := dynKeyC_facts h w hw idx hidx
    exact dyn_array_generic h w idx _ hidx h1 h2 h3 h4 h5 (lda_dynKeyC w idx hidx)

/-- the commuted sum `idx + keccak(w)` is also matched, but the model (as the Rust) then takes the
*right* operand — the hash itself — as the index -/
example : liftDynArray 5 (rebuild .add [] [callerV, rebuild .sha3 [] [K 3]]) =
    rebuild .dynamicArrayIndex [] [K 3, rebuild .sha3 [] [K 3]] := by
  simp [liftDynArray, rebuild, callerV, K, mkKnownNat, childSize]

/-! ### I4: the inference rules on the lifted shapes -/

theorem infer_next (st : RegState) (v : Nat) (e : TE) : (infer st v e).next = st.next := by
  unfold infer; split
  · split <;> rfl
  · rfl

theorem infer_mono (st : RegState) (v : Nat) (e : TE) {j : Nat × TE} (hj : j ∈ st.judgements) :
    j ∈ (infer st v e).judgements := by
  unfold infer; split
  · split
    · exact hj
    · exact List.mem_append_left _ hj
  · exact List.mem_append_left _ hj

theorem infer_mem (st : RegState) (v : Nat) (e : TE) (he : ∀ id, e ≠ .equal id) :
    (v, e) ∈ (infer st v e).judgements := by
  unfold infer; split
  · rename_i id; exact absurd rfl (he id)
  · simp

/-- `storageSlot [mappingIndex [0] [slot, key]]`: the slot is a mapping from the key's type to a fresh
variable, which is a full-word packed container of the access itself -/
theorem rule_mapping (st : RegState) (sa : List Nat) (slot key : TV) (tm t : Nat) :
    let v := TV.node .storageSlot sa [.node .mappingIndex [0] [slot, key] tm] t
    (slot.tv, TE.mapping key.tv st.next) ∈ (applyRules st v).judgements ∧
    (st.next, TE.packed [⟨t, 0, 256⟩] false) ∈ (applyRules st v).judgements ∧
    (tm, uword) ∈ (applyRules st v).judgements ∧
    (applyRules st v).next = st.next + 1 := by
  simp only [applyRules, if_true, Nat.zero_mul, infer_next]
  refine ⟨?_, ?_, ?_, trivial⟩
  · exact infer_mem _ _ _ (fun _ hh => by cases hh)
  · exact infer_mono _ _ _ (infer_mem _ _ _ (fun _ hh => by cases hh))
  · refine infer_mono _ _ _ (infer_mono _ _ _ ?_)
    exact infer_mem st tm uword (fun _ hh => by cases hh)

/-- `storageWrite [storageSlot [dynamicArrayIndex [d, f]], value]` with `d` a `storageSlot` -/
theorem rule_dyn_array (st : RegState) (a sa da : List Nat) (d f value : TV) (td tk t : Nat)
    (hd : d.kind = .storageSlot) :
    let key := TV.node .storageSlot sa [.node .dynamicArrayIndex da [d, f] td] tk
    let v := TV.node .storageWrite a [key, value] t
    (d.tv, TE.dynamicArray tk) ∈ (applyRules st v).judgements ∧
    (f.tv, uword) ∈ (applyRules st v).judgements ∧
    (applyRules st v).next = st.next := by
  have hd' : (d.kind == Kind.storageSlot) = true := by simp [hd]
  simp only [applyRules, hd', if_true, infer_next]
  refine ⟨?_, ?_, trivial⟩
  · exact infer_mem _ _ _ (fun _ hh => by cases hh)
  · exact infer_mono _ _ _ (infer_mem _ _ _ (fun _ hh => by cases hh))

/-- `subWord [off, size] [sub]` -/
theorem rule_subword (st : RegState) (off size : Nat) (sub : TV) (t : Nat) :
    let v := TV.node .subWord [off, size] [sub] t
    (t, TE.word (some size) .bytes) ∈ (applyRules st v).judgements ∧
    (sub.tv, TE.packed [⟨t, off, size⟩] false) ∈ (applyRules st v).judgements ∧
    (applyRules st v).next = st.next := by
  simp only [applyRules, infer_next]
  refine ⟨?_, ?_, trivial⟩
  · exact infer_mono _ _ _ (infer_mem _ _ _ (fun _ hh => by cases hh))
  · exact infer_mem _ _ _ (fun _ hh => by cases hh)

end SLE.Idioms

#print axioms SLE.Idioms.mask_region
#print axioms SLE.Idioms.and_mask_is_subword
#print axioms SLE.Idioms.mapping_key_lifted
#print axioms SLE.Idioms.mapping_read_lifted_eq
#print axioms SLE.Idioms.mapping_read_lifted
#print axioms SLE.Idioms.dyn_array_lifted
#print axioms SLE.Idioms.rule_mapping
#print axioms SLE.Idioms.rule_dyn_array
#print axioms SLE.Idioms.rule_subword
