import SLE.Lemmas.Layout
/-!
C15 — the resolved type of a class is the join of its evidence.

`useLe`/`widthLe`/`wordLe` are the specificity orders on usages, widths and words;
`WordUse.merge`, `wjoin` and the word × word arm of `merge` are the least upper bounds for them.
Compatible evidence joins (in every order, since the statements quantify over every list), plain
contradictions conflict (in every order, on evidence without a bad triple — in particular on
absorber-free evidence), and the absorber hypothesis is needed for the pinned code.
-/
namespace SLE.Join
open SLE SLE.MergeLaws SLE.Layout
set_option linter.unusedSimpArgs false
set_option linter.unusedVariables false

/-! ## 1. The specificity order -/

/-- `a ⊑ b` on usages: joining `a` into `b` changes nothing. -/
def useLe (a b : WordUse) : Bool := a.merge b == some b

/-- `a ⊑ b` on widths: unknown is below everything, a known width only below itself. -/
def widthLe (a b : Option Nat) : Bool := a == none || a == b

/-- `a ⊑ b` on type expressions: words by width and usage, `any` below everything, everything else
only below itself. -/
def wordLe : TE → TE → Bool
  | .word w1 u1, .word w2 u2 => (w1 == none || w1 == w2) && useLe u1 u2
  | .any, _ => true
  | a, b => a == b

/-! ### usages -/

theorem useLe_refl (a : WordUse) : useLe a a = true := by
  cases a <;> rfl

theorem useLe_antisymm (a b : WordUse) : useLe a b = true → useLe b a = true → a = b := by
  cases a <;> cases b <;> decide

theorem useLe_trans (a b c : WordUse) : useLe a b = true → useLe b c = true → useLe a c = true := by
  cases a <;> cases b <;> cases c <;> decide

/-- `bytes` is the least usage. -/
theorem useLe_bytes (a : WordUse) : useLe .bytes a = true := by
  cases a <;> rfl

/-- `WordUse.merge` is the least upper bound … -/
theorem useMerge_lub (a b c : WordUse) (h : a.merge b = some c) :
    useLe a c = true ∧ useLe b c = true ∧
      ∀ d, useLe a d = true → useLe b d = true → useLe c d = true := by
  cases a <;> cases b <;> simp [WordUse.merge] at h <;> subst h <;>
    refine ⟨by decide, by decide, ?_⟩ <;> intro d <;> cases d <;> decide

/-- … and is undefined exactly when there is no upper bound. -/
theorem useMerge_none (a b : WordUse) (h : a.merge b = none) :
    ¬ ∃ d, useLe a d = true ∧ useLe b d = true := by
  rintro ⟨d, h1, h2⟩
  revert h h1 h2
  cases a <;> cases b <;> cases d <;> decide

theorem useMerge_none_iff (a b : WordUse) :
    a.merge b = none ↔ ¬ ∃ d, useLe a d = true ∧ useLe b d = true := by
  constructor
  · exact useMerge_none a b
  · intro h
    cases hm : a.merge b with
    | none => rfl
    | some c =>
      have := useMerge_lub a b c hm
      exact absurd ⟨c, this.1, this.2.1⟩ h

/-! ### widths -/

theorem widthLe_iff (a b : Option Nat) : widthLe a b = true ↔ a = none ∨ a = b := by
  simp [widthLe]

theorem widthLe_refl (a : Option Nat) : widthLe a a = true := by
  simp [widthLe]

theorem widthLe_antisymm (a b : Option Nat) : widthLe a b = true → widthLe b a = true → a = b := by
  simp only [widthLe_iff]
  rintro (h1 | h1) (h2 | h2) <;> simp_all

theorem widthLe_trans (a b c : Option Nat) :
    widthLe a b = true → widthLe b c = true → widthLe a c = true := by
  simp only [widthLe_iff]
  rintro (h1 | h1) (h2 | h2) <;> simp_all

theorem wjoin_lub (a b c : Option Nat) (h : wjoin a b = some c) :
    widthLe a c = true ∧ widthLe b c = true ∧
      ∀ d, widthLe a d = true → widthLe b d = true → widthLe c d = true := by
  simp only [widthLe_iff]
  cases a <;> cases b <;> simp [wjoin] at h
  · subst h; simp
  · subst h; simp
  · subst h; simp
  · obtain ⟨h1, h2⟩ := h
    subst h1; subst h2; simp

theorem wjoin_none (a b : Option Nat) (h : wjoin a b = none) :
    ¬ ∃ d, widthLe a d = true ∧ widthLe b d = true := by
  simp only [widthLe_iff]
  cases a <;> cases b <;> simp [wjoin] at h
  rintro ⟨d, h1, h2⟩
  simp at h1 h2
  exact h (Option.some.inj (h1.trans h2.symm))

theorem wjoin_none_iff (a b : Option Nat) :
    wjoin a b = none ↔ ¬ ∃ d, widthLe a d = true ∧ widthLe b d = true := by
  constructor
  · exact wjoin_none a b
  · intro h
    cases hm : wjoin a b with
    | none => rfl
    | some c =>
      have := wjoin_lub a b c hm
      exact absurd ⟨c, this.1, this.2.1⟩ h

/-! ### type expressions -/

theorem wordLe_WW (w1 u1 w2 u2) :
    wordLe (.word w1 u1) (.word w2 u2) = (widthLe w1 w2 && useLe u1 u2) := rfl

theorem wordLe_any (c : TE) : wordLe .any c = true := by
  cases c <;> rfl

/-- Only words are above a word. -/
theorem wordLe_word_left {w u} {T : TE} (h : wordLe (.word w u) T = true) :
    ∃ w' u', T = .word w' u' := by
  cases T <;> simp [wordLe] at h
  exact ⟨_, _, rfl⟩

theorem wordLe_word_iff (w u) (T : TE) : wordLe (.word w u) T = true ↔
    ∃ w' u', T = .word w' u' ∧ (w = none ∨ w = w') ∧ useLe u u' = true := by
  constructor
  · intro h
    obtain ⟨w', u', rfl⟩ := wordLe_word_left h
    rw [wordLe_WW, Bool.and_eq_true, widthLe_iff] at h
    exact ⟨w', u', rfl, h.1, h.2⟩
  · rintro ⟨w', u', rfl, h1, h2⟩
    rw [wordLe_WW, Bool.and_eq_true, widthLe_iff]
    exact ⟨h1, h2⟩

/-- Outside words and `any`, `⊑` is equality. -/
theorem wordLe_other (a b : TE) (h1 : a ≠ .any) (h2 : ∀ w u, a ≠ .word w u) :
    wordLe a b = (a == b) := by
  cases a <;> first | (exact absurd rfl h1) | (exact absurd rfl (h2 _ _)) | (cases b <;> rfl)

theorem wordLe_refl (a : TE) : wordLe a a = true := by
  cases a <;> simp [wordLe, useLe_refl]

theorem wordLe_trans (a b c : TE) : wordLe a b = true → wordLe b c = true → wordLe a c = true := by
  intro h1 h2
  by_cases ha : a = .any
  · subst ha; exact wordLe_any c
  · by_cases hw : ∃ w u, a = .word w u
    · obtain ⟨w, u, rfl⟩ := hw
      obtain ⟨w', u', rfl⟩ := wordLe_word_left h1
      obtain ⟨w'', u'', rfl⟩ := wordLe_word_left h2
      rw [wordLe_WW, Bool.and_eq_true] at *
      exact ⟨widthLe_trans _ _ _ h1.1 h2.1, useLe_trans _ _ _ h1.2 h2.2⟩
    · have hw' : ∀ w u, a ≠ .word w u := fun w u e => hw ⟨w, u, e⟩
      rw [wordLe_other a b ha hw'] at h1
      have : a = b := by simpa using h1
      subst this
      exact h2

theorem wordLe_antisymm (a b : TE) : wordLe a b = true → wordLe b a = true → a = b := by
  intro h1 h2
  by_cases ha : a = .any
  · subst ha
    by_cases hb : b = .any
    · exact hb.symm
    · by_cases hw : ∃ w u, b = .word w u
      · obtain ⟨w, u, rfl⟩ := hw
        obtain ⟨_, _, h⟩ := wordLe_word_left h2
        cases h
      · have hw' : ∀ w u, b ≠ .word w u := fun w u e => hw ⟨w, u, e⟩
        rw [wordLe_other b _ hb hw'] at h2
        exact (by simpa using h2 : b = .any).symm
  · by_cases hw : ∃ w u, a = .word w u
    · obtain ⟨w, u, rfl⟩ := hw
      obtain ⟨w', u', rfl⟩ := wordLe_word_left h1
      rw [wordLe_WW, Bool.and_eq_true] at *
      rw [widthLe_antisymm _ _ h1.1 h2.1, useLe_antisymm _ _ h1.2 h2.2]
    · have hw' : ∀ w u, a ≠ .word w u := fun w u e => hw ⟨w, u, e⟩
      rw [wordLe_other a b ha hw'] at h1
      simpa using h1

/-! ### the word × word arm is the join -/

theorem wj_some_iff (w1 u1 w2 u2 w u) :
    wj w1 u1 w2 u2 = some (w, u) ↔ wjoin w1 w2 = some w ∧ u1.merge u2 = some u := by
  unfold wj
  cases wjoin w1 w2 <;> cases u1.merge u2 <;> simp

theorem wj_none_iff (w1 u1 w2 u2) :
    wj w1 u1 w2 u2 = none ↔ wjoin w1 w2 = none ∨ u1.merge u2 = none := by
  unfold wj
  cases wjoin w1 w2 <;> cases u1.merge u2 <;> simp

theorem wj_lub {w1 u1 w2 u2 w u} (h : wj w1 u1 w2 u2 = some (w, u)) :
    wordLe (.word w1 u1) (.word w u) = true ∧ wordLe (.word w2 u2) (.word w u) = true ∧
      ∀ d, wordLe (.word w1 u1) d = true → wordLe (.word w2 u2) d = true →
        wordLe (.word w u) d = true := by
  rw [wj_some_iff] at h
  have hw := wjoin_lub _ _ _ h.1
  have hu := useMerge_lub _ _ _ h.2
  simp only [wordLe_WW, Bool.and_eq_true]
  refine ⟨⟨hw.1, hu.1⟩, ⟨hw.2.1, hu.2.1⟩, ?_⟩
  intro d h1 h2
  obtain ⟨w', u', rfl⟩ := wordLe_word_left h1
  rw [wordLe_WW, Bool.and_eq_true] at *
  exact ⟨hw.2.2 _ h1.1 h2.1, hu.2.2 _ h1.2 h2.2⟩

theorem wj_none {w1 u1 w2 u2} (h : wj w1 u1 w2 u2 = none) :
    ¬ ∃ d, wordLe (.word w1 u1) d = true ∧ wordLe (.word w2 u2) d = true := by
  rintro ⟨d, h1, h2⟩
  obtain ⟨w', u', rfl⟩ := wordLe_word_left h1
  rw [wordLe_WW, Bool.and_eq_true] at *
  rcases (wj_none_iff _ _ _ _).1 h with h | h
  · exact wjoin_none _ _ h ⟨w', h1.1, h2.1⟩
  · exact useMerge_none _ _ h ⟨u', h1.2, h2.2⟩

theorem outcome_WW (w1 u1 w2 u2) :
    outcome (.word w1 u1) (.word w2 u2) = (toTE (wj w1 u1 w2 u2), []) := by
  rw [outcome_eq _ _ rfl rfl]
  unfold outcomeE
  split
  · rename_i h
    cases h
    simp [wj_idem, toTE]
  · rfl

/-- The merge of two words with a common upper bound is their least upper bound. -/
theorem word_join_lub (w1 u1 w2 u2)
    (hub : ∃ d, wordLe (.word w1 u1) d = true ∧ wordLe (.word w2 u2) d = true) :
    ∃ w u, outcome (.word w1 u1) (.word w2 u2) = (.word w u, []) ∧
      wordLe (.word w1 u1) (.word w u) = true ∧ wordLe (.word w2 u2) (.word w u) = true ∧
      ∀ d, wordLe (.word w1 u1) d = true → wordLe (.word w2 u2) d = true →
        wordLe (.word w u) d = true := by
  cases h : wj w1 u1 w2 u2 with
  | none => exact absurd hub (wj_none h)
  | some p =>
    obtain ⟨w, u⟩ := p
    exact ⟨w, u, by rw [outcome_WW, h]; rfl, wj_lub h⟩

/-- The merge of two words is a conflict exactly when they have no common upper bound. -/
theorem word_join_conflict_iff (w1 u1 w2 u2) :
    (outcome (.word w1 u1) (.word w2 u2)).1 = .conflict ↔
      ¬ ∃ d, wordLe (.word w1 u1) d = true ∧ wordLe (.word w2 u2) d = true := by
  rw [outcome_WW]
  show toTE (wj w1 u1 w2 u2) = .conflict ↔ _
  rw [toTE_eq_conflict]
  constructor
  · exact wj_none
  · intro h
    cases hm : wj w1 u1 w2 u2 with
    | none => rfl
    | some p =>
      obtain ⟨w, u⟩ := p
      have := wj_lub hm
      exact absurd ⟨_, this.1, this.2.1⟩ h

/-- … i.e. two different known widths, or usages without a join. -/
theorem word_join_conflict_iff' (w1 u1 w2 u2) :
    (outcome (.word w1 u1) (.word w2 u2)).1 = .conflict ↔
      (∃ a b, w1 = some a ∧ w2 = some b ∧ a ≠ b) ∨ u1.merge u2 = none := by
  rw [outcome_WW]
  show toTE (wj w1 u1 w2 u2) = .conflict ↔ _
  rw [toTE_eq_conflict, wj_none_iff]
  cases w1 <;> cases w2 <;> simp [wjoin]

/-! ## 2. Compatible word evidence joins, in every order -/

/-- a word (any width, any usage) or no information at all -/
def WA (e : TE) : Prop := (∃ w u, e = .word w u) ∨ e = .any

theorem WA.pf {e : TE} (h : WA e) : PF e = true := by
  rcases h with ⟨w, u, rfl⟩ | rfl <;> rfl

theorem WA.ne_conflict {e : TE} (h : WA e) : e ≠ .conflict := by
  rcases h with ⟨w, u, rfl⟩ | rfl <;> simp

theorem outcome_any_l (x : TE) (hx : PF x = true) : outcome .any x = (x, []) := by
  rw [outcome_eq _ _ rfl hx]
  unfold outcomeE
  split
  · rename_i h; subst h; rfl
  · exact oN_any_l x

theorem outcome_any_r (x : TE) (hx : PF x = true) : outcome x .any = (x, []) := by
  rw [outcome_eq _ _ hx rfl]
  unfold outcomeE
  split
  · rfl
  · exact oN_any_r x

/-- One merge of compatible word evidence: the result is the least upper bound. -/
theorem join2 {a x T : TE} (ha : WA a) (hx : WA x) (haT : wordLe a T = true)
    (hxT : wordLe x T = true) :
    ∃ c, outcome a x = (c, []) ∧ WA c ∧ wordLe a c = true ∧ wordLe x c = true ∧
      wordLe c T = true := by
  rcases ha with ⟨w1, u1, rfl⟩ | rfl
  · rcases hx with ⟨w2, u2, rfl⟩ | rfl
    · obtain ⟨w, u, ho, h1, h2, h3⟩ := word_join_lub w1 u1 w2 u2 ⟨T, haT, hxT⟩
      exact ⟨_, ho, .inl ⟨w, u, rfl⟩, h1, h2, h3 T haT hxT⟩
    · exact ⟨_, outcome_any_r _ rfl, .inl ⟨_, _, rfl⟩, wordLe_refl _, wordLe_any _, haT⟩
  · exact ⟨x, outcome_any_l x hx.pf, hx, wordLe_any _, wordLe_refl _, hxT⟩

theorem step_eq (a : TE) (q : List (Nat × Nat)) (x : TE) :
    step (a, q) x = ((outcome a x).1, q ++ (outcome a x).2) := rfl

theorem fold_words (T : TE) : ∀ (l : List TE) (a : TE) (q : List (Nat × Nat)), WA a →
    wordLe a T = true → (∀ e ∈ l, WA e) → (∀ e ∈ l, wordLe e T = true) →
    ∃ j, l.foldl step (a, q) = (j, q) ∧ WA j ∧ wordLe a j = true ∧
      (∀ e ∈ l, wordLe e j = true) ∧ wordLe j T = true := by
  intro l
  induction l with
  | nil =>
    intro a q ha haT _ _
    exact ⟨a, rfl, ha, wordLe_refl a, by simp, haT⟩
  | cons x l ih =>
    intro a q ha haT hl hlT
    have hx := hl x List.mem_cons_self
    have hxT := hlT x List.mem_cons_self
    obtain ⟨c, hc, hcW, hac, hxc, hcT⟩ := join2 ha hx haT hxT
    obtain ⟨j, hj, hjW, hcj, hlj, hjT⟩ := ih c q hcW hcT
      (fun e he => hl e (List.mem_cons_of_mem _ he)) (fun e he => hlT e (List.mem_cons_of_mem _ he))
    refine ⟨j, ?_, hjW, wordLe_trans _ _ _ hac hcj, ?_, hjT⟩
    · rw [List.foldl_cons, step_eq, hc]
      simpa using hj
    · intro e he
      rcases List.mem_cons.1 he with rfl | he
      · exact wordLe_trans _ _ _ hxc hcj
      · exact hlj e he

/-- **Compatible word evidence joins.**  If every piece of evidence is a word (or no information)
and some word `T` is at least as specific as all of it, then — in whatever order the evidence is
folded — the result is not a conflict, is at least as specific as every piece of evidence (so a
known width and the most specific usage are kept) and is below `T`.  As this holds for *every*
such `T`, the result is the least upper bound: nothing more specific than the evidence supports
is invented.  No equalities between variables are emitted. -/
theorem consistent_words_join' (l : List TE) (T : TE) (hne : l ≠ [])
    (hl : ∀ e ∈ l, (∃ w u, e = .word w u) ∨ e = .any)
    (hT : ∀ e ∈ l, wordLe e T = true) :
    ∃ j, foldMerge l = some (j, []) ∧ ((∃ w u, j = .word w u) ∨ j = .any) ∧ j ≠ .conflict ∧
      (∀ e ∈ l, wordLe e j = true) ∧ wordLe j T = true := by
  cases l with
  | nil => exact absurd rfl hne
  | cons x r =>
    obtain ⟨j, hj, hjW, hxj, hrj, hjT⟩ := fold_words T r x [] (hl x List.mem_cons_self)
      (hT x List.mem_cons_self) (fun e he => hl e (List.mem_cons_of_mem _ he))
      (fun e he => hT e (List.mem_cons_of_mem _ he))
    refine ⟨j, by rw [foldMerge_cons, hj], hjW, hjW.ne_conflict, ?_, hjT⟩
    intro e he
    rcases List.mem_cons.1 he with rfl | he
    · exact hxj
    · exact hrj e he

theorem consistent_words_join (l : List TE) (T : TE) : l ≠ [] →
    (∀ e ∈ l, (∃ w u, e = .word w u) ∨ e = .any) → (∃ w u, T = .word w u) →
    (∀ e ∈ l, wordLe e T = true) →
    ∃ j q, foldMerge l = some (j, q) ∧ j ≠ .conflict ∧ (∀ e ∈ l, wordLe e j = true) ∧
      wordLe j T = true := by
  intro hne hl _ hT
  obtain ⟨j, h1, _, h2, h3, h4⟩ := consistent_words_join' l T hne hl hT
  exact ⟨j, [], h1, h2, h3, h4⟩

/-- The result of the fold is determined as *the* least upper bound: any `j'` that is an upper
bound of the evidence and below every word upper bound equals the fold's result. -/
theorem consistent_words_join_unique (l : List TE) (T : TE) (hne : l ≠ [])
    (hl : ∀ e ∈ l, (∃ w u, e = .word w u) ∨ e = .any) (hT : ∀ e ∈ l, wordLe e T = true)
    (j j' : TE) (q : List (Nat × Nat)) (hf : foldMerge l = some (j, q))
    (hub : ∀ e ∈ l, wordLe e j' = true)
    (hleast : ∀ U, (∀ e ∈ l, wordLe e U = true) → wordLe j' U = true) : j' = j := by
  obtain ⟨j0, h1, _, _, h3, _⟩ := consistent_words_join' l T hne hl hT
  obtain ⟨j1, h1', _, _, _, h4'⟩ := consistent_words_join' l j' hne hl hub
  rw [h1] at hf h1'
  cases hf; cases h1'
  exact wordLe_antisymm _ _ (hleast _ h3) h4'

/-- A known width in the evidence is the width of the result, and each usage in the evidence is
below the usage of the result. -/
theorem consistent_words_keep (l : List TE) (T : TE) (hne : l ≠ [])
    (hl : ∀ e ∈ l, (∃ w u, e = .word w u) ∨ e = .any) (hT : ∀ e ∈ l, wordLe e T = true)
    (w : Option Nat) (u : WordUse) (hm : .word w u ∈ l) :
    ∃ w' u', foldMerge l = some (.word w' u', []) ∧ (w = none ∨ w = w') ∧ useLe u u' = true := by
  obtain ⟨j, h1, _, _, h3, _⟩ := consistent_words_join' l T hne hl hT
  obtain ⟨w', u', rfl, h⟩ := (wordLe_word_iff w u j).1 (h3 _ hm)
  exact ⟨w', u', h1, h⟩

theorem fold_any : ∀ (l : List TE) (q : List (Nat × Nat)), (∀ e ∈ l, e = .any) →
    l.foldl step (.any, q) = (.any, q) := by
  intro l
  induction l with
  | nil => intro q _; rfl
  | cons x l ih =>
    intro q hl
    have hx := hl x List.mem_cons_self
    subst hx
    rw [List.foldl_cons, step_eq, outcome_any_l _ rfl]
    simpa using ih q (fun e he => hl e (List.mem_cons_of_mem _ he))

/-- No information at all stays no information. -/
theorem all_any_join (l : List TE) (hne : l ≠ []) (hl : ∀ e ∈ l, e = .any) :
    foldMerge l = some (.any, []) := by
  cases l with
  | nil => exact absurd rfl hne
  | cons x r =>
    have hx := hl x List.mem_cons_self
    subst hx
    rw [foldMerge_cons, fold_any r [] (fun e he => hl e (List.mem_cons_of_mem _ he))]

/-! ## 4. Plain contradictions conflict, in every order -/

/-- A bad triple needs an absorbing constructor at one end. -/
theorem Bad_of_no_absorber (a b c : TE) (ha : absorber a = false) (hc : absorber c = false) :
    Bad a b c = false := by
  unfold Bad
  rw [hc]
  cases a <;> simp [absorber] at ha ⊢

theorem noBadTriple_of_no_absorber (l : List TE) (h : ∀ e ∈ l, absorber e = false) :
    NoBadTriple l :=
  fun a ha _ _ c hc => Bad_of_no_absorber a _ c (h a ha) (h c hc)

/-- `conflict` is absorbing. -/
theorem outcome_conflict_l (x : TE) (hx : PF x = true) : (outcome .conflict x).1 = .conflict := by
  rw [outcome_fst _ _ rfl hx, oN_conf_l]

theorem outcome_conflict_r (x : TE) (hx : PF x = true) : (outcome x .conflict).1 = .conflict := by
  rw [outcome_fst _ _ hx rfl, oN_conf_r]

theorem fold_conflict : ∀ (l : List TE) (q : List (Nat × Nat)), (∀ e ∈ l, PF e = true) →
    ∃ q', l.foldl step (.conflict, q) = (.conflict, q') := by
  intro l
  induction l with
  | nil => intro q _; exact ⟨q, rfl⟩
  | cons x l ih =>
    intro q hl
    rw [List.foldl_cons, step_eq, outcome_conflict_l x (hl x List.mem_cons_self)]
    exact ih _ (fun e he => hl e (List.mem_cons_of_mem _ he))

theorem conflicts_self {a : TE} (ha : PF a = true) (h : conflicts a a = true) : a = .conflict := by
  unfold conflicts at h
  rw [outcome_eq a a ha ha] at h
  simpa [outcomeE] using h

/-- transport "the fold is a conflict" along a permutation -/
theorem conflict_of_perm {l l' : List TE} (hpf : ∀ e ∈ l, PF e = true) (hnb : NoBadTriple l)
    (hp : l.Perm l') (hne : l ≠ []) (h : ∃ q, foldMerge l' = some (.conflict, q)) :
    ∃ q, foldMerge l = some (.conflict, q) := by
  obtain ⟨o₁, o₂, h1, h2, he⟩ := foldMerge_perm hpf hnb hp hne
  obtain ⟨q, hq⟩ := h
  rw [hq] at h2
  cases h2
  rcases he with ⟨e1, _⟩ | ⟨_, e2, _⟩
  · obtain ⟨j, q₁⟩ := o₁
    simp only at e1
    subst e1
    exact ⟨q₁, h1⟩
  · exact absurd rfl e2

/-- **Plain contradictions conflict** — general form: on `Equal`-free, packed-free evidence that
contains no bad triple, two mutually contradictory pieces of evidence make the class a conflict,
wherever they sit in the list. -/
theorem contradiction_conflicts_of_noBadTriple (l : List TE) (hpf : ∀ e ∈ l, PF e = true)
    (hnb : NoBadTriple l) (h : ∃ a ∈ l, ∃ b ∈ l, conflicts a b = true) :
    ∃ q, foldMerge l = some (.conflict, q) := by
  obtain ⟨a, ha, b, hb, hc⟩ := h
  have hne : l ≠ [] := by intro e; subst e; cases ha
  have hp1 : l.Perm (a :: l.erase a) := List.perm_cons_erase ha
  have hpf1 : ∀ e ∈ l.erase a, PF e = true := fun e he => hpf e (List.mem_of_mem_erase he)
  rcases List.mem_cons.1 (hp1.mem_iff.1 hb) with rfl | hb'
  · have := conflicts_self (hpf _ ha) hc
    subst this
    refine conflict_of_perm hpf hnb hp1 hne ?_
    rw [foldMerge_cons]
    obtain ⟨q', hq'⟩ := fold_conflict (l.erase .conflict) [] hpf1
    exact ⟨q', by rw [hq']⟩
  · have hp2 : (l.erase a).Perm (b :: (l.erase a).erase b) := List.perm_cons_erase hb'
    have hp : l.Perm (a :: b :: (l.erase a).erase b) := hp1.trans (hp2.cons a)
    refine conflict_of_perm hpf hnb hp hne ?_
    rw [foldMerge_cons, List.foldl_cons, step_eq]
    have hc' : (outcome a b).1 = .conflict := by simpa [conflicts] using hc
    rw [hc']
    obtain ⟨q', hq'⟩ := fold_conflict ((l.erase a).erase b) ([] ++ (outcome a b).2)
      (fun e he => hpf1 e (List.mem_of_mem_erase he))
    exact ⟨q', by rw [hq']⟩

/-- **Plain contradictions conflict**, in every order, on absorber-free evidence. -/
theorem contradiction_conflicts (l : List TE) : (∀ e ∈ l, PF e = true) →
    (∀ e ∈ l, absorber e = false) → (∃ a ∈ l, ∃ b ∈ l, conflicts a b = true) →
    ∃ q, foldMerge l = some (.conflict, q) :=
  fun hpf hab h => contradiction_conflicts_of_noBadTriple l hpf (noBadTriple_of_no_absorber l hab) h

/-! ### the property's examples are instances of `conflicts … = true` -/

/-- two different known widths -/
theorem conflicts_widths (a b : Nat) (u1 u2 : WordUse) (h : a ≠ b) :
    conflicts (.word (some a) u1) (.word (some b) u2) = true := by
  rw [conflicts_eq _ _ rfl rfl, conflictsN_WW, wj_isSome]
  simp [wjoin, h]

/-- usages without a join -/
theorem conflicts_usages (w1 w2 : Option Nat) (u1 u2 : WordUse) (h : u1.merge u2 = none) :
    conflicts (.word w1 u1) (.word w2 u2) = true := by
  rw [conflicts_eq _ _ rfl rfl, conflictsN_WW, wj_isSome]
  simp [h]

theorem conflicts_signed_unsigned (w1 w2 : Option Nat) :
    conflicts (.word w1 .signedNumeric) (.word w2 .unsignedNumeric) = true :=
  conflicts_usages _ _ _ _ rfl

theorem conflicts_signed_address (w1 w2 : Option Nat) :
    conflicts (.word w1 .signedNumeric) (.word w2 .address) = true :=
  conflicts_usages _ _ _ _ rfl

theorem conflicts_bool_address (w1 w2 : Option Nat) :
    conflicts (.word w1 .bool) (.word w2 .address) = true :=
  conflicts_usages _ _ _ _ rfl

theorem conflicts_bool_numeric (w1 w2 : Option Nat) :
    conflicts (.word w1 .bool) (.word w2 .numeric) = true :=
  conflicts_usages _ _ _ _ rfl

/-- a mapping against a fixed array, a dynamic array, a word (sized or not) -/
theorem conflicts_mapping_fixedArray (k v e n : Nat) :
    conflicts (.mapping k v) (.fixedArray e n) = true := by
  rw [conflicts_eq _ _ rfl rfl]; rfl

theorem conflicts_mapping_dynamicArray (k v e : Nat) :
    conflicts (.mapping k v) (.dynamicArray e) = true := by
  rw [conflicts_eq _ _ rfl rfl]; rfl

theorem conflicts_mapping_word (k v : Nat) (w : Option Nat) (u : WordUse) :
    conflicts (.mapping k v) (.word w u) = true := by
  rw [conflicts_eq _ _ rfl rfl]; rfl

theorem conflicts_fixedArray_word (e n : Nat) (w : Option Nat) (u : WordUse) :
    conflicts (.fixedArray e n) (.word w u) = true := by
  rw [conflicts_eq _ _ rfl rfl]; rfl

/-- fixed arrays of different lengths -/
theorem conflicts_fixedArray_lengths (e1 n1 e2 n2 : Nat) (h : n1 ≠ n2) :
    conflicts (.fixedArray e1 n1) (.fixedArray e2 n2) = true := by
  rw [conflicts_eq _ _ rfl rfl]
  simp [conflictsN, oN_FF, h]

/-- `conflicts` is symmetric on the fragment. -/
theorem conflicts_symm (a b : TE) (ha : PF a = true) (hb : PF b = true) :
    conflicts a b = conflicts b a := by
  have h := merge_comm a b ha hb
  unfold conflicts
  rcases h with ⟨h1, h2⟩ | ⟨h1, h2, _⟩
  · simp [h1, h2]
  · rw [beq_eq_false_iff_ne.2 h1, beq_eq_false_iff_ne.2 h2]

/-! ### … and at the level of a class -/

theorem two_widths_conflict (l : List TE) (hpf : ∀ e ∈ l, PF e = true)
    (hab : ∀ e ∈ l, absorber e = false) (a b : Nat) (u1 u2 : WordUse)
    (h1 : .word (some a) u1 ∈ l) (h2 : .word (some b) u2 ∈ l) (hne : a ≠ b) :
    ∃ q, foldMerge l = some (.conflict, q) :=
  contradiction_conflicts l hpf hab ⟨_, h1, _, h2, conflicts_widths a b u1 u2 hne⟩

theorem incompatible_usages_conflict (l : List TE) (hpf : ∀ e ∈ l, PF e = true)
    (hab : ∀ e ∈ l, absorber e = false) (w1 w2 : Option Nat) (u1 u2 : WordUse)
    (h1 : .word w1 u1 ∈ l) (h2 : .word w2 u2 ∈ l) (hne : u1.merge u2 = none) :
    ∃ q, foldMerge l = some (.conflict, q) :=
  contradiction_conflicts l hpf hab ⟨_, h1, _, h2, conflicts_usages w1 w2 u1 u2 hne⟩

theorem mapping_vs_fixedArray_conflict (l : List TE) (hpf : ∀ e ∈ l, PF e = true)
    (hab : ∀ e ∈ l, absorber e = false) (k v e n : Nat)
    (h1 : .mapping k v ∈ l) (h2 : .fixedArray e n ∈ l) :
    ∃ q, foldMerge l = some (.conflict, q) :=
  contradiction_conflicts l hpf hab ⟨_, h1, _, h2, conflicts_mapping_fixedArray k v e n⟩

theorem mapping_vs_word_conflict (l : List TE) (hpf : ∀ e ∈ l, PF e = true)
    (hab : ∀ e ∈ l, absorber e = false) (k v : Nat) (w : Option Nat) (u : WordUse)
    (h1 : .mapping k v ∈ l) (h2 : .word w u ∈ l) :
    ∃ q, foldMerge l = some (.conflict, q) :=
  contradiction_conflicts l hpf hab ⟨_, h1, _, h2, conflicts_mapping_word k v w u⟩

/-- The absorber hypothesis is needed for the pinned code (finding D11): dynamic `bytes` swallows
`bool` and `address` one at a time although they contradict each other. -/
theorem contradiction_swallowed_witness :
    foldMerge [.bytes, .word (some 8) .bool, .word (some 160) .address] = some (.bytes, []) :=
  rfl

theorem contradiction_swallowed_witness_conflicts :
    conflicts (.word (some 8) .bool) (.word (some 160) .address) = true :=
  conflicts_widths 8 160 _ _ (by decide)

/-- … so `contradiction_conflicts` is false without a hypothesis excluding absorbers/bad triples. -/
theorem absorber_hypothesis_needed :
    ¬ ∀ l : List TE, (∀ e ∈ l, PF e = true) → (∃ a ∈ l, ∃ b ∈ l, conflicts a b = true) →
        ∃ q, foldMerge l = some (.conflict, q) := by
  intro h
  obtain ⟨q, hq⟩ := h [.bytes, .word (some 8) .bool, .word (some 160) .address] (by decide)
    ⟨_, by simp, _, by simp, contradiction_swallowed_witness_conflicts⟩
  rw [contradiction_swallowed_witness] at hq
  cases hq

/-! ## 3. Compatible constructor evidence keeps its structure and equates components -/

theorem outcome_MM (k v k' v' : Nat) : ∃ s, outcome (.mapping k v) (.mapping k' v') = (.mapping k v, s) ∧
    Equiv s k k' ∧ Equiv s v v' := by
  rw [outcome_eq _ _ rfl rfl]
  unfold outcomeE
  split
  · rename_i h
    cases h
    exact ⟨[], rfl, .refl _, .refl _⟩
  · exact ⟨_, oN_MM k v k' v', .base (by simp), .base (by simp)⟩

theorem outcome_DD (a b : Nat) : ∃ s, outcome (.dynamicArray a) (.dynamicArray b) = (.dynamicArray a, s) ∧
    Equiv s a b := by
  rw [outcome_eq _ _ rfl rfl]
  unfold outcomeE
  split
  · rename_i h
    cases h
    exact ⟨[], rfl, .refl _⟩
  · exact ⟨_, oN_DD a b, .base (by simp)⟩

theorem outcome_FF (a b n : Nat) : ∃ s, outcome (.fixedArray a n) (.fixedArray b n) = (.fixedArray a n, s) ∧
    Equiv s a b := by
  rw [outcome_eq _ _ rfl rfl]
  unfold outcomeE
  split
  · rename_i h
    cases h
    exact ⟨[], rfl, .refl _⟩
  · exact ⟨_, by rw [oN_FF, if_pos rfl], .base (by simp)⟩

/-- from a mapping accumulator: the representative stays, every later mapping is equated to it -/
theorem fold_mappings (k v : Nat) : ∀ (l : List TE) (q : List (Nat × Nat)),
    (∀ e ∈ l, (∃ k' v', e = .mapping k' v') ∨ e = .any) →
    ∃ s, l.foldl step (.mapping k v, q) = (.mapping k v, q ++ s) ∧
      ∀ k' v', .mapping k' v' ∈ l → Equiv s k k' ∧ Equiv s v v' := by
  intro l
  induction l with
  | nil => intro q _; exact ⟨[], by simp, by simp⟩
  | cons x l ih =>
    intro q hl
    have hl' : ∀ e ∈ l, (∃ k' v', e = .mapping k' v') ∨ e = .any :=
      fun e he => hl e (List.mem_cons_of_mem _ he)
    rcases hl x List.mem_cons_self with ⟨k1, v1, rfl⟩ | rfl
    · obtain ⟨s1, h1, hk, hv⟩ := outcome_MM k v k1 v1
      obtain ⟨s, hs, hE⟩ := ih (q ++ s1) hl'
      refine ⟨s1 ++ s, ?_, ?_⟩
      · rw [List.foldl_cons, step_eq, h1, hs, List.append_assoc]
      · intro k' v' hm
        rcases List.mem_cons.1 hm with h | h
        · cases h; exact ⟨Equiv.inl hk, Equiv.inl hv⟩
        · exact ⟨Equiv.inr (hE k' v' h).1, Equiv.inr (hE k' v' h).2⟩
    · obtain ⟨s, hs, hE⟩ := ih (q ++ []) hl'
      refine ⟨s, ?_, ?_⟩
      · rw [List.foldl_cons, step_eq, outcome_any_r _ rfl, hs, List.append_nil]
      · intro k' v' hm
        rcases List.mem_cons.1 hm with h | h
        · cases h
        · exact hE k' v' h

/-- from `any`: the first mapping becomes the representative -/
theorem fold_any_mappings : ∀ (l : List TE) (q : List (Nat × Nat)),
    (∀ e ∈ l, (∃ k' v', e = .mapping k' v') ∨ e = .any) → (∃ k v, .mapping k v ∈ l) →
    ∃ k v s, l.foldl step (.any, q) = (.mapping k v, q ++ s) ∧ .mapping k v ∈ l ∧
      ∀ k' v', .mapping k' v' ∈ l → Equiv s k k' ∧ Equiv s v v' := by
  intro l
  induction l with
  | nil => intro q _ ⟨_, _, h⟩; cases h
  | cons x l ih =>
    intro q hl hex
    have hl' : ∀ e ∈ l, (∃ k' v', e = .mapping k' v') ∨ e = .any :=
      fun e he => hl e (List.mem_cons_of_mem _ he)
    rcases hl x List.mem_cons_self with ⟨k1, v1, rfl⟩ | rfl
    · obtain ⟨s, hs, hE⟩ := fold_mappings k1 v1 l (q ++ []) hl'
      refine ⟨k1, v1, s, ?_, List.mem_cons_self, ?_⟩
      · rw [List.foldl_cons, step_eq, outcome_any_l _ rfl, hs, List.append_nil]
      · intro k' v' hm
        rcases List.mem_cons.1 hm with h | h
        · cases h; exact ⟨.refl _, .refl _⟩
        · exact hE k' v' h
    · have hex' : ∃ k v, TE.mapping k v ∈ l := by
        obtain ⟨k, v, h⟩ := hex
        rcases List.mem_cons.1 h with h | h
        · cases h
        · exact ⟨k, v, h⟩
      obtain ⟨k, v, s, hs, hm, hE⟩ := ih (q ++ []) hl' hex'
      refine ⟨k, v, s, ?_, List.mem_cons_of_mem _ hm, ?_⟩
      · rw [List.foldl_cons, step_eq, outcome_any_l _ rfl, hs, List.append_nil]
      · intro k' v' hm'
        rcases List.mem_cons.1 hm' with h | h
        · cases h
        · exact hE k' v' h

/-- **Compatible mapping evidence** keeps the mapping structure — the result is one of the
mappings in the evidence — and equates its key and value with those of every other mapping, in
whatever order the evidence is folded. -/
theorem consistent_mappings_join (l : List TE) : l ≠ [] →
    (∀ e ∈ l, (∃ k v, e = .mapping k v) ∨ e = .any) → (∃ k v, .mapping k v ∈ l) →
    ∃ k v q, foldMerge l = some (.mapping k v, q) ∧ .mapping k v ∈ l ∧
      ∀ k' v', .mapping k' v' ∈ l → Equiv q k k' ∧ Equiv q v v' := by
  intro hne hl hex
  cases l with
  | nil => exact absurd rfl hne
  | cons x r =>
    have hr : ∀ e ∈ r, (∃ k' v', e = .mapping k' v') ∨ e = .any :=
      fun e he => hl e (List.mem_cons_of_mem _ he)
    rw [foldMerge_cons]
    rcases hl x List.mem_cons_self with ⟨k1, v1, rfl⟩ | rfl
    · obtain ⟨s, hs, hE⟩ := fold_mappings k1 v1 r [] hr
      refine ⟨k1, v1, [] ++ s, by rw [hs], List.mem_cons_self, ?_⟩
      intro k' v' hm
      rcases List.mem_cons.1 hm with h | h
      · cases h; exact ⟨.refl _, .refl _⟩
      · simpa using hE k' v' h
    · have hex' : ∃ k v, TE.mapping k v ∈ r := by
        obtain ⟨k, v, h⟩ := hex
        rcases List.mem_cons.1 h with h | h
        · cases h
        · exact ⟨k, v, h⟩
      obtain ⟨k, v, s, hs, hm, hE⟩ := fold_any_mappings r [] hr hex'
      refine ⟨k, v, [] ++ s, by rw [hs], List.mem_cons_of_mem _ hm, ?_⟩
      intro k' v' hm'
      rcases List.mem_cons.1 hm' with h | h
      · cases h
      · simpa using hE k' v' h


theorem fold_dynarrays (a : Nat) : ∀ (l : List TE) (q : List (Nat × Nat)),
    (∀ e ∈ l, (∃ a', e = TE.dynamicArray a') ∨ e = .any) →
    ∃ s, l.foldl step (TE.dynamicArray a, q) = (TE.dynamicArray a, q ++ s) ∧
      ∀ a', TE.dynamicArray a' ∈ l → Equiv s a a' := by
  intro l
  induction l with
  | nil => intro q _; exact ⟨[], by simp, by simp⟩
  | cons x l ih =>
    intro q hl
    have hl' : ∀ e ∈ l, (∃ a', e = TE.dynamicArray a') ∨ e = .any :=
      fun e he => hl e (List.mem_cons_of_mem _ he)
    rcases hl x List.mem_cons_self with ⟨a1, rfl⟩ | rfl
    · obtain ⟨s1, h1, ha⟩ := outcome_DD a a1
      obtain ⟨s, hs, hE⟩ := ih (q ++ s1) hl'
      refine ⟨s1 ++ s, ?_, ?_⟩
      · rw [List.foldl_cons, step_eq, h1, hs, List.append_assoc]
      · intro a' hm
        rcases List.mem_cons.1 hm with h | h
        · cases h; exact Equiv.inl ha
        · exact Equiv.inr (hE a' h)
    · obtain ⟨s, hs, hE⟩ := ih (q ++ []) hl'
      refine ⟨s, ?_, ?_⟩
      · rw [List.foldl_cons, step_eq, outcome_any_r _ rfl, hs, List.append_nil]
      · intro a' hm
        rcases List.mem_cons.1 hm with h | h
        · cases h
        · exact hE a' h

theorem fold_any_dynarrays : ∀ (l : List TE) (q : List (Nat × Nat)),
    (∀ e ∈ l, (∃ a', e = TE.dynamicArray a') ∨ e = .any) → (∃ a, TE.dynamicArray a ∈ l) →
    ∃ a s, l.foldl step (.any, q) = (TE.dynamicArray a, q ++ s) ∧ TE.dynamicArray a ∈ l ∧
      ∀ a', TE.dynamicArray a' ∈ l → Equiv s a a' := by
  intro l
  induction l with
  | nil => intro q _ ⟨_, h⟩; cases h
  | cons x l ih =>
    intro q hl hex
    have hl' : ∀ e ∈ l, (∃ a', e = TE.dynamicArray a') ∨ e = .any :=
      fun e he => hl e (List.mem_cons_of_mem _ he)
    rcases hl x List.mem_cons_self with ⟨a1, rfl⟩ | rfl
    · obtain ⟨s, hs, hE⟩ := fold_dynarrays a1  l (q ++ []) hl'
      refine ⟨a1, s, ?_, List.mem_cons_self, ?_⟩
      · rw [List.foldl_cons, step_eq, outcome_any_l _ rfl, hs, List.append_nil]
      · intro a' hm
        rcases List.mem_cons.1 hm with h | h
        · cases h; exact .refl _
        · exact hE a' h
    · have hex' : ∃ a, TE.dynamicArray a ∈ l := by
        obtain ⟨a, h⟩ := hex
        rcases List.mem_cons.1 h with h | h
        · cases h
        · exact ⟨a, h⟩
      obtain ⟨a, s, hs, hm, hE⟩ := ih (q ++ []) hl' hex'
      refine ⟨a, s, ?_, List.mem_cons_of_mem _ hm, ?_⟩
      · rw [List.foldl_cons, step_eq, outcome_any_l _ rfl, hs, List.append_nil]
      · intro a' hm'
        rcases List.mem_cons.1 hm' with h | h
        · cases h
        · exact hE a' h

/-- **Compatible dynamic-array evidence** keeps the array structure and equates the element
variables, in whatever order the evidence is folded. -/
theorem consistent_dynarrays_join (l : List TE) : l ≠ [] →
    (∀ e ∈ l, (∃ a, e = TE.dynamicArray a) ∨ e = .any) → (∃ a, TE.dynamicArray a ∈ l) →
    ∃ a q, foldMerge l = some (TE.dynamicArray a, q) ∧ TE.dynamicArray a ∈ l ∧
      ∀ a', TE.dynamicArray a' ∈ l → Equiv q a a' := by
  intro hne hl hex
  cases l with
  | nil => exact absurd rfl hne
  | cons x r =>
    have hr : ∀ e ∈ r, (∃ a', e = TE.dynamicArray a') ∨ e = .any :=
      fun e he => hl e (List.mem_cons_of_mem _ he)
    rw [foldMerge_cons]
    rcases hl x List.mem_cons_self with ⟨a1, rfl⟩ | rfl
    · obtain ⟨s, hs, hE⟩ := fold_dynarrays a1  r [] hr
      refine ⟨a1, [] ++ s, by rw [hs], List.mem_cons_self, ?_⟩
      intro a' hm
      rcases List.mem_cons.1 hm with h | h
      · cases h; exact .refl _
      · simpa using hE a' h
    · have hex' : ∃ a, TE.dynamicArray a ∈ r := by
        obtain ⟨a, h⟩ := hex
        rcases List.mem_cons.1 h with h | h
        · cases h
        · exact ⟨a, h⟩
      obtain ⟨a, s, hs, hm, hE⟩ := fold_any_dynarrays  r [] hr hex'
      refine ⟨a, [] ++ s, by rw [hs], List.mem_cons_of_mem _ hm, ?_⟩
      intro a' hm'
      rcases List.mem_cons.1 hm' with h | h
      · cases h
      · simpa using hE a' h

theorem fold_fixedarrays (a : Nat) (n : Nat) : ∀ (l : List TE) (q : List (Nat × Nat)),
    (∀ e ∈ l, (∃ a', e = TE.fixedArray a' n) ∨ e = .any) →
    ∃ s, l.foldl step (TE.fixedArray a n, q) = (TE.fixedArray a n, q ++ s) ∧
      ∀ a', TE.fixedArray a' n ∈ l → Equiv s a a' := by
  intro l
  induction l with
  | nil => intro q _; exact ⟨[], by simp, by simp⟩
  | cons x l ih =>
    intro q hl
    have hl' : ∀ e ∈ l, (∃ a', e = TE.fixedArray a' n) ∨ e = .any :=
      fun e he => hl e (List.mem_cons_of_mem _ he)
    rcases hl x List.mem_cons_self with ⟨a1, rfl⟩ | rfl
    · obtain ⟨s1, h1, ha⟩ := outcome_FF a a1 n
      obtain ⟨s, hs, hE⟩ := ih (q ++ s1) hl'
      refine ⟨s1 ++ s, ?_, ?_⟩
      · rw [List.foldl_cons, step_eq, h1, hs, List.append_assoc]
      · intro a' hm
        rcases List.mem_cons.1 hm with h | h
        · cases h; exact Equiv.inl ha
        · exact Equiv.inr (hE a' h)
    · obtain ⟨s, hs, hE⟩ := ih (q ++ []) hl'
      refine ⟨s, ?_, ?_⟩
      · rw [List.foldl_cons, step_eq, outcome_any_r _ rfl, hs, List.append_nil]
      · intro a' hm
        rcases List.mem_cons.1 hm with h | h
        · cases h
        · exact hE a' h

theorem fold_any_fixedarrays (n : Nat) : ∀ (l : List TE) (q : List (Nat × Nat)),
    (∀ e ∈ l, (∃ a', e = TE.fixedArray a' n) ∨ e = .any) → (∃ a, TE.fixedArray a n ∈ l) →
    ∃ a s, l.foldl step (.any, q) = (TE.fixedArray a n, q ++ s) ∧ TE.fixedArray a n ∈ l ∧
      ∀ a', TE.fixedArray a' n ∈ l → Equiv s a a' := by
  intro l
  induction l with
  | nil => intro q _ ⟨_, h⟩; cases h
  | cons x l ih =>
    intro q hl hex
    have hl' : ∀ e ∈ l, (∃ a', e = TE.fixedArray a' n) ∨ e = .any :=
      fun e he => hl e (List.mem_cons_of_mem _ he)
    rcases hl x List.mem_cons_self with ⟨a1, rfl⟩ | rfl
    · obtain ⟨s, hs, hE⟩ := fold_fixedarrays a1 n l (q ++ []) hl'
      refine ⟨a1, s, ?_, List.mem_cons_self, ?_⟩
      · rw [List.foldl_cons, step_eq, outcome_any_l _ rfl, hs, List.append_nil]
      · intro a' hm
        rcases List.mem_cons.1 hm with h | h
        · cases h; exact .refl _
        · exact hE a' h
    · have hex' : ∃ a, TE.fixedArray a n ∈ l := by
        obtain ⟨a, h⟩ := hex
        rcases List.mem_cons.1 h with h | h
        · cases h
        · exact ⟨a, h⟩
      obtain ⟨a, s, hs, hm, hE⟩ := ih (q ++ []) hl' hex'
      refine ⟨a, s, ?_, List.mem_cons_of_mem _ hm, ?_⟩
      · rw [List.foldl_cons, step_eq, outcome_any_l _ rfl, hs, List.append_nil]
      · intro a' hm'
        rcases List.mem_cons.1 hm' with h | h
        · cases h
        · exact hE a' h

/-- **Compatible fixed-array evidence** (all of the same length `n`) keeps the array structure and
the length, and equates the element variables, in whatever order the evidence is folded. -/
theorem consistent_fixedarrays_join (l : List TE) (n : Nat) : l ≠ [] →
    (∀ e ∈ l, (∃ a, e = TE.fixedArray a n) ∨ e = .any) → (∃ a, TE.fixedArray a n ∈ l) →
    ∃ a q, foldMerge l = some (TE.fixedArray a n, q) ∧ TE.fixedArray a n ∈ l ∧
      ∀ a', TE.fixedArray a' n ∈ l → Equiv q a a' := by
  intro hne hl hex
  cases l with
  | nil => exact absurd rfl hne
  | cons x r =>
    have hr : ∀ e ∈ r, (∃ a', e = TE.fixedArray a' n) ∨ e = .any :=
      fun e he => hl e (List.mem_cons_of_mem _ he)
    rw [foldMerge_cons]
    rcases hl x List.mem_cons_self with ⟨a1, rfl⟩ | rfl
    · obtain ⟨s, hs, hE⟩ := fold_fixedarrays a1 n r [] hr
      refine ⟨a1, [] ++ s, by rw [hs], List.mem_cons_self, ?_⟩
      intro a' hm
      rcases List.mem_cons.1 hm with h | h
      · cases h; exact .refl _
      · simpa using hE a' h
    · have hex' : ∃ a, TE.fixedArray a n ∈ r := by
        obtain ⟨a, h⟩ := hex
        rcases List.mem_cons.1 h with h | h
        · cases h
        · exact ⟨a, h⟩
      obtain ⟨a, s, hs, hm, hE⟩ := fold_any_fixedarrays n r [] hr hex'
      refine ⟨a, [] ++ s, by rw [hs], List.mem_cons_of_mem _ hm, ?_⟩
      intro a' hm'
      rcases List.mem_cons.1 hm' with h | h
      · cases h
      · simpa using hE a' h

/-! ## 4'. Rigid constructors (mappings, fixed arrays) conflict with everything else — no
hypothesis on absorbers is needed for these -/

/-- A class `K` of expressions that merges only with itself and `any`. -/
structure Rigid (K : TE → Bool) : Prop where
  ka : ∀ a x, PF a = true → PF x = true →
    (K (outcomeN a x).1 || (outcomeN a x).1 == .any) = true →
    (K a || a == .any) = true ∧ (K x || x == .any) = true
  kl : ∀ a x, PF a = true → PF x = true → K a = true →
    K (outcomeN a x).1 = true ∨ (outcomeN a x).1 = .conflict
  kr : ∀ a x, PF a = true → PF x = true → K x = true →
    K (outcomeN a x).1 = true ∨ (outcomeN a x).1 = .conflict

def isMapping : TE → Bool
  | .mapping _ _ => true
  | _ => false

def isFixed (n : Nat) : TE → Bool
  | .fixedArray _ m => m == n
  | _ => false

theorem isMapping_toTE (o) : isMapping (toTE o) = false := by
  rcases o with _ | ⟨w, u⟩ <;> rfl

theorem isFixed_toTE (n o) : isFixed n (toTE o) = false := by
  rcases o with _ | ⟨w, u⟩ <;> rfl

theorem toTE_ne_any (o) : (toTE o == TE.any) = false := by
  rcases o with _ | ⟨w, u⟩ <;> rfl

theorem rigid_mapping : Rigid isMapping := by
  refine ⟨?_, ?_, ?_⟩
  · intro a x ha hx
    cases a <;> simp [PF] at ha <;> cases x <;> simp [PF] at hx <;>
      simp only [outcomeN, isMapping_toTE, toTE_ne_any] <;> (try split) <;>
      simp [isMapping]
  · intro a x ha hx hk
    cases a <;> simp [isMapping] at hk
    cases x <;> simp [PF] at hx <;> simp [outcomeN, isMapping]
  · intro a x ha hx hk
    cases x <;> simp [isMapping] at hk
    cases a <;> simp [PF] at ha <;> simp [outcomeN, isMapping]

theorem rigid_fixed (n : Nat) : Rigid (isFixed n) := by
  refine ⟨?_, ?_, ?_⟩
  · intro a x ha hx
    cases a <;> simp [PF] at ha <;> cases x <;> simp [PF] at hx <;>
      simp only [outcomeN, isFixed_toTE, toTE_ne_any] <;> (try split) <;>
      simp_all [isFixed]
  · intro a x ha hx hk
    cases a <;> simp [isFixed] at hk
    cases x <;> simp [PF] at hx <;> simp only [outcomeN] <;> (try split) <;> simp_all [isFixed]
  · intro a x ha hx hk
    cases x <;> simp [isFixed] at hk
    cases a <;> simp [PF] at ha <;> simp only [outcomeN] <;> (try split) <;> simp_all [isFixed]

theorem step_fst' (acc : Outcome) (x : TE) (ha : PF acc.1 = true) (hx : PF x = true) :
    (step acc x).1 = (outcomeN acc.1 x).1 := outcome_fst _ _ ha hx

theorem rigid_fold_ka {K : TE → Bool} (hK : Rigid K) : ∀ (l : List TE) (acc : Outcome),
    PF acc.1 = true → (∀ e ∈ l, PF e = true) →
    (K (l.foldl step acc).1 || (l.foldl step acc).1 == .any) = true →
    (K acc.1 || acc.1 == .any) = true ∧ ∀ e ∈ l, (K e || e == .any) = true := by
  intro l
  induction l with
  | nil => intro acc _ _ h; exact ⟨h, by simp⟩
  | cons x l ih =>
    intro acc ha hl h
    have hx := hl x List.mem_cons_self
    obtain ⟨h1, h2⟩ := ih (step acc x) (step_pf acc x ha hx)
      (fun e he => hl e (List.mem_cons_of_mem _ he)) h
    rw [step_fst' acc x ha hx] at h1
    obtain ⟨h3, h4⟩ := hK.ka _ _ ha hx h1
    refine ⟨h3, ?_⟩
    intro e he
    rcases List.mem_cons.1 he with rfl | he
    · exact h4
    · exact h2 e he

theorem rigid_fold_kc_acc {K : TE → Bool} (hK : Rigid K) : ∀ (l : List TE) (acc : Outcome),
    PF acc.1 = true → (∀ e ∈ l, PF e = true) → (K acc.1 = true ∨ acc.1 = .conflict) →
    K (l.foldl step acc).1 = true ∨ (l.foldl step acc).1 = .conflict := by
  intro l
  induction l with
  | nil => intro acc _ _ h; exact h
  | cons x l ih =>
    intro acc ha hl h
    have hx := hl x List.mem_cons_self
    refine ih (step acc x) (step_pf acc x ha hx) (fun e he => hl e (List.mem_cons_of_mem _ he)) ?_
    rw [step_fst' acc x ha hx]
    rcases h with h | h
    · exact hK.kl _ _ ha hx h
    · rw [h, oN_conf_l]; exact .inr rfl

theorem rigid_fold_kc_mem {K : TE → Bool} (hK : Rigid K) : ∀ (l : List TE) (acc : Outcome),
    PF acc.1 = true → (∀ e ∈ l, PF e = true) → (∃ e ∈ l, K e = true) →
    K (l.foldl step acc).1 = true ∨ (l.foldl step acc).1 = .conflict := by
  intro l
  induction l with
  | nil => intro acc _ _ ⟨_, h, _⟩; cases h
  | cons x l ih =>
    intro acc ha hl ⟨m, hm, hkm⟩
    have hx := hl x List.mem_cons_self
    have hl' : ∀ e ∈ l, PF e = true := fun e he => hl e (List.mem_cons_of_mem _ he)
    rcases List.mem_cons.1 hm with rfl | hm
    · refine rigid_fold_kc_acc hK l (step acc m) (step_pf acc m ha hx) hl' ?_
      rw [step_fst' acc m ha hx]
      exact hK.kr _ _ ha hx hkm
    · exact ih (step acc x) (step_pf acc x ha hx) hl' ⟨m, hm, hkm⟩

/-- Evidence of a rigid kind together with anything that is neither of that kind nor `any` is a
conflict, wherever the two sit in the list and whatever else (absorbers included) is there. -/
theorem rigid_conflict {K : TE → Bool} (hK : Rigid K) (l : List TE) (hpf : ∀ e ∈ l, PF e = true)
    (m : TE) (hm : m ∈ l) (hkm : K m = true) (x : TE) (hx : x ∈ l)
    (hkx : (K x || x == .any) = false) : ∃ q, foldMerge l = some (.conflict, q) := by
  cases l with
  | nil => cases hm
  | cons f r =>
    have hf : PF f = true := hpf f List.mem_cons_self
    have hr : ∀ e ∈ r, PF e = true := fun e he => hpf e (List.mem_cons_of_mem _ he)
    rw [foldMerge_cons]
    have hkc : K (r.foldl step (f, [])).1 = true ∨ (r.foldl step (f, [])).1 = .conflict := by
      rcases List.mem_cons.1 hm with rfl | hm
      · exact rigid_fold_kc_acc hK r (m, []) hf hr (.inl hkm)
      · exact rigid_fold_kc_mem hK r (f, []) hf hr ⟨m, hm, hkm⟩
    rcases hkc with h | h
    · exfalso
      obtain ⟨h1, h2⟩ := rigid_fold_ka hK r (f, []) hf hr (by rw [h]; rfl)
      have : (K x || x == .any) = true := by
        rcases List.mem_cons.1 hx with rfl | hx
        · exact h1
        · exact h2 x hx
      rw [hkx] at this
      cases this
    · generalize r.foldl step (f, []) = o at h
      obtain ⟨j, q⟩ := o
      simp only at h
      subst h
      exact ⟨q, rfl⟩

/-- **A mapping against anything but a mapping (or no information) is a conflict** — a fixed or
dynamic array, a word of any width, dynamic bytes — in every order and whatever else is in the
class. -/
theorem mapping_contradiction_conflicts (l : List TE) (hpf : ∀ e ∈ l, PF e = true) (k v : Nat)
    (hm : .mapping k v ∈ l) (x : TE) (hx : x ∈ l) (hx1 : x ≠ .any)
    (hx2 : ∀ k' v', x ≠ .mapping k' v') : ∃ q, foldMerge l = some (.conflict, q) := by
  refine rigid_conflict rigid_mapping l hpf _ hm rfl x hx ?_
  cases x <;> simp [isMapping] at hx1 hx2 ⊢

/-- **A fixed array against anything but a fixed array of the same length (or no information) is a
conflict**, in every order and whatever else is in the class. -/
theorem fixedArray_contradiction_conflicts (l : List TE) (hpf : ∀ e ∈ l, PF e = true) (e n : Nat)
    (hm : .fixedArray e n ∈ l) (x : TE) (hx : x ∈ l) (hx1 : x ≠ .any)
    (hx2 : ∀ e', x ≠ .fixedArray e' n) : ∃ q, foldMerge l = some (.conflict, q) := by
  refine rigid_conflict (rigid_fixed n) l hpf _ hm (by simp [isFixed]) x hx ?_
  cases x <;> simp [isFixed] at hx1 hx2 ⊢
  exact hx2

theorem mapping_vs_dynamicArray_conflict (l : List TE) (hpf : ∀ e ∈ l, PF e = true)
    (k v e : Nat) (h1 : .mapping k v ∈ l) (h2 : .dynamicArray e ∈ l) :
    ∃ q, foldMerge l = some (.conflict, q) :=
  mapping_contradiction_conflicts l hpf k v h1 _ h2 (by simp) (by simp)

/-! ## 2'. Order independence of the word join, stated outright -/

theorem consistent_words_join_perm (l l' : List TE) (T : TE) (hp : l.Perm l') (hne : l ≠ [])
    (hl : ∀ e ∈ l, (∃ w u, e = .word w u) ∨ e = .any) (hT : ∀ e ∈ l, wordLe e T = true) :
    foldMerge l' = foldMerge l := by
  have hne' : l' ≠ [] := fun e => hne (by subst e; exact hp.eq_nil)
  have hl' : ∀ e ∈ l', (∃ w u, e = .word w u) ∨ e = .any := fun e he => hl e (hp.mem_iff.2 he)
  have hT' : ∀ e ∈ l', wordLe e T = true := fun e he => hT e (hp.mem_iff.2 he)
  obtain ⟨j, hj, _, _, _, _⟩ := consistent_words_join' l T hne hl hT
  obtain ⟨j', hj', _, _, hub, _⟩ := consistent_words_join' l' T hne' hl' hT'
  have : j' = j := by
    refine consistent_words_join_unique l T hne hl hT j j' [] hj
      (fun e he => hub e (hp.mem_iff.1 he)) ?_
    intro U hU
    obtain ⟨j'', hj'', _, _, _, h⟩ := consistent_words_join' l' U hne' hl'
      (fun e he => hU e (hp.mem_iff.2 he))
    rw [hj'] at hj''
    cases hj''
    exact h
  rw [hj, hj', this]

end SLE.Join
