import SLE.Spec.TCSpec
/-!
Invariants of the nine lifting passes (C01 totality, C12 spans, C05 storage-free).
-/
namespace SLE.LiftInv
open SLE SLE.SV SLE.TC SLE.TCSpec SLE.Lift

/-! ### `anyNode` basics -/

theorem anyNodeList_false {p : Kind → List Nat → List SV → Bool} :
    ∀ l : List SV, anyNodeList p l = false ↔ ∀ x ∈ l, anyNode p x = false
  | [] => by simp [anyNodeList]
  | x :: xs => by
    simp only [anyNodeList, Bool.or_eq_false_iff, List.mem_cons, forall_eq_or_imp,
      anyNodeList_false xs]

mutual
theorem anyNode_mono {p q : Kind → List Nat → List SV → Bool}
    (h : ∀ k a ks, q k a ks = true → p k a ks = true) :
    ∀ t, anyNode p t = false → anyNode q t = false
  | .node k a ks s, ht => by
    simp only [anyNode, Bool.or_eq_false_iff] at ht ⊢
    refine ⟨?_, anyNodeList_mono h ks ht.2⟩
    cases hq : q k a ks with
    | false => rfl
    | true => have := h k a ks hq; simp_all
theorem anyNodeList_mono {p q : Kind → List Nat → List SV → Bool}
    (h : ∀ k a ks, q k a ks = true → p k a ks = true) :
    ∀ l, anyNodeList p l = false → anyNodeList q l = false
  | [], _ => by simp [anyNodeList]
  | x :: xs, hl => by
    simp only [anyNodeList, Bool.or_eq_false_iff] at hl ⊢
    exact ⟨anyNode_mono h x hl.1, anyNodeList_mono h xs hl.2⟩
end

/-- no node of the tree satisfies `p` (a predicate on kind and attributes only) -/
def NoP (p : Kind → List Nat → Bool) (t : SV) : Prop := anyNode (fun k a _ => p k a) t = false

theorem NoP_node {p : Kind → List Nat → Bool} {k a ks s} :
    NoP p (.node k a ks s) ↔ p k a = false ∧ ∀ x ∈ ks, NoP p x := by
  simp only [NoP, anyNode, Bool.or_eq_false_iff, anyNodeList_false]

theorem NoP_rebuild {p : Kind → List Nat → Bool} {k a ks} :
    NoP p (rebuild k a ks) ↔ p k a = false ∧ ∀ x ∈ ks, NoP p x := by
  simp only [rebuild, NoP_node]

theorem NoP_mono {p q : Kind → List Nat → Bool} (h : ∀ k a, q k a = true → p k a = true)
    {t : SV} (ht : NoP p t) : NoP q t :=
  anyNode_mono (fun k a _ => h k a) t ht

theorem NoP_rebuild_self {p : Kind → List Nat → Bool} {t : SV} (ht : NoP p t) :
    NoP p (rebuild t.kind t.attrs t.kids) := by
  cases t with
  | node k a ks s => simpa only [SV.kind, SV.attrs, SV.kids, NoP_rebuild, NoP_node] using ht

theorem NoP_mkKnownNat {p : Kind → List Nat → Bool} (hk : ∀ a, p .knownData a = false) (w : Nat) :
    NoP p (mkKnownNat w) := by
  simp [mkKnownNat, NoP_node, hk]

theorem NoP_mkKnown {p : Kind → List Nat → Bool} (hk : ∀ a, p .knownData a = false) (w : Word) :
    NoP p (mkKnown w) := by
  simp [mkKnown, NoP_node, hk]

/-! ### `fold` -/

theorem foldNode_cases (k : Kind) (a : List Nat) (ks : List SV) :
    foldNode k a ks = rebuild k a ks ∨ ∃ w, foldNode k a ks = mkKnown w := by
  unfold foldNode
  split
  · split
    · exact Or.inr ⟨_, rfl⟩
    · exact Or.inl rfl
  · split
    · split
      · exact Or.inr ⟨_, rfl⟩
      · exact Or.inl rfl
    · exact Or.inl rfl

mutual
theorem fold_NoP {p : Kind → List Nat → Bool} (hk : ∀ a, p .knownData a = false) :
    ∀ t, NoP p t → NoP p (fold t)
  | .node k a ks s, ht => by
    rw [NoP_node] at ht
    simp only [fold]
    rcases foldNode_cases k a (foldList ks) with h | ⟨w, h⟩
    · rw [h, NoP_rebuild]; exact ⟨ht.1, foldList_NoP hk ks ht.2⟩
    · rw [h]; exact NoP_mkKnown hk w
theorem foldList_NoP {p : Kind → List Nat → Bool} (hk : ∀ a, p .knownData a = false) :
    ∀ l : List SV, (∀ x ∈ l, NoP p x) → ∀ x ∈ foldList l, NoP p x
  | [], _ => by simp [foldList]
  | y :: ys, hl => by
    simp only [foldList, List.mem_cons, forall_eq_or_imp]
    exact ⟨fold_NoP hk y (hl y (by simp)), foldList_NoP hk ys (fun x hx => hl x (by simp [hx]))⟩
end

theorem fold_kind (t : SV) : (fold t).kind = t.kind ∨ (fold t).kind = .knownData := by
  cases t with
  | node k a ks s =>
    simp only [fold]
    rcases foldNode_cases k a (foldList ks) with h | ⟨w, h⟩
    · rw [h]; exact Or.inl rfl
    · rw [h]; exact Or.inr rfl

/-! ### pass 1: `slotHashesT` -/

mutual
theorem slotHashes_NoP {p : Kind → List Nat → Bool} (h : HashCtx)
    (hk : ∀ a, p .knownData a = false) (hs : p .sha3 [] = false) :
    ∀ t, NoP p t → NoP p (transform (slotHashesT h) t)
  | .node k a ks s, ht => by
    rw [NoP_node] at ht
    simp only [transform]
    split
    · rename_i k' a' ks' heq
      unfold slotHashesT at heq
      split at heq
      · split at heq
        · cases heq
          simp [NoP_rebuild, hs, NoP_mkKnownNat hk]
        · cases heq
      · cases heq
    · rw [NoP_rebuild]; exact ⟨ht.1, slotHashesList_NoP h hk hs ks ht.2⟩
theorem slotHashesList_NoP {p : Kind → List Nat → Bool} (h : HashCtx)
    (hk : ∀ a, p .knownData a = false) (hs : p .sha3 [] = false) :
    ∀ l : List SV, (∀ x ∈ l, NoP p x) → ∀ x ∈ transformList (slotHashesT h) l, NoP p x
  | [], _ => by simp [transformList]
  | y :: ys, hl => by
    simp only [transformList, List.mem_cons, forall_eq_or_imp]
    exact ⟨slotHashes_NoP h hk hs y (hl y (by simp)),
      slotHashesList_NoP h hk hs ys (fun x hx => hl x (by simp [hx]))⟩
end

/-! ### pass 2: `proxySlots` -/

theorem unpickSha3Data_some (h : HashCtx) (v nv : SV) (hv : unpickSha3Data h v = some nv) :
    ∃ w, nv = mkKnownNat w := by
  unfold unpickSha3Data at hv
  repeat' (first | split at hv | (dsimp only at hv; split at hv))
  all_goals first
    | (cases hv; done)
    | (cases hv; exact ⟨_, rfl⟩)

theorem unpickProxySlots_NoP {p : Kind → List Nat → Bool} (h : HashCtx)
    (hk : ∀ a, p .knownData a = false) (key nk : SV) (hkey : NoP p key)
    (hnk : unpickProxySlots h key = some nk) : NoP p nk := by
  unfold unpickProxySlots at hnk
  split at hnk
  · rename_i a l r s
    rw [NoP_node] at hkey
    have hl : NoP p l := hkey.2 l (by simp)
    have hr : NoP p r := hkey.2 r (by simp)
    have key : ∀ l' r', NoP p l' → NoP p r' →
        (if ((fold (rebuild .add a [l', r'])).kind == Kind.knownData) = true
          then some (fold (rebuild .add a [l', r'])) else none) = some nk → NoP p nk := by
      intro l' r' hl' hr' hh
      split at hh
      · injection hh with hh
        subst hh
        apply fold_NoP hk
        rw [NoP_rebuild]
        refine ⟨hkey.1, ?_⟩
        intro x hx
        simp only [List.mem_cons, List.not_mem_nil, or_false] at hx
        rcases hx with rfl | rfl
        · exact hl'
        · exact hr'
      · cases hh
    dsimp only at hnk
    cases h1 : unpickSha3Data h l with
    | some nl =>
      simp only [h1] at hnk
      obtain ⟨w, rfl⟩ := unpickSha3Data_some h _ _ h1
      exact key _ _ (NoP_mkKnownNat hk w) hr hnk
    | none =>
      simp only [h1] at hnk
      cases h2 : unpickSha3Data h r with
      | some nr =>
        simp only [h2] at hnk
        obtain ⟨w, rfl⟩ := unpickSha3Data_some h _ _ h2
        exact key _ _ hl (NoP_mkKnownNat hk w) hnk
      | none =>
        simp only [h2] at hnk
        cases hnk
  · obtain ⟨w, rfl⟩ := unpickSha3Data_some h _ _ hnk
    exact NoP_mkKnownNat hk w

theorem proxySlots_NoP {p : Kind → List Nat → Bool} (h : HashCtx)
    (hk : ∀ a, p .knownData a = false) :
    ∀ fuel t, NoP p t → NoP p (proxySlots h fuel t) := by
  intro fuel
  induction fuel with
  | zero => intro t ht; simpa [proxySlots] using ht
  | succ fuel ih =>
    intro t ht
    cases t with
    | node k a ks s =>
      rw [NoP_node] at ht
      have hkey : ∀ key, NoP p key →
          NoP p (match unpickProxySlots h key with
            | some nk => rebuild nk.kind nk.attrs nk.kids | none => proxySlots h fuel key) := by
        intro key hkey
        split
        · rename_i nk hnk
          exact NoP_rebuild_self (unpickProxySlots_NoP h hk key nk hkey hnk)
        · exact ih key hkey
      simp only [proxySlots]
      split
      · rename_i key value
        rw [NoP_rebuild]
        refine ⟨ht.1, ?_⟩
        intro x hx
        simp only [List.mem_cons, List.not_mem_nil, or_false] at hx
        rcases hx with rfl | rfl
        · exact hkey key (ht.2 key (by simp))
        · exact ih value (ht.2 value (by simp))
      · rename_i key value
        rw [NoP_rebuild]
        refine ⟨ht.1, ?_⟩
        intro x hx
        simp only [List.mem_cons, List.not_mem_nil, or_false] at hx
        rcases hx with rfl | rfl
        · exact hkey key (ht.2 key (by simp))
        · exact ih value (ht.2 value (by simp))
      · rw [NoP_rebuild]
        refine ⟨ht.1, ?_⟩
        intro x hx
        simp only [List.mem_map] at hx
        obtain ⟨y, hy, rfl⟩ := hx
        exact ih y (ht.2 y hy)

theorem forall_mem_one {P : SV → Prop} {a : SV} : (∀ x ∈ [a], P x) ↔ P a := by simp
theorem forall_mem_two {P : SV → Prop} {a b : SV} : (∀ x ∈ [a, b], P x) ↔ P a ∧ P b := by simp
theorem forall_mem_map {P : SV → Prop} {f : SV → SV} {l : List SV} :
    (∀ x ∈ l.map f, P x) ↔ ∀ y ∈ l, P (f y) := by simp

/-! ### pass 3: `insertMappingAccesses`, `guarded` -/

theorem insertMappingAccesses_NoP {p : Kind → List Nat → Bool} (hm : p .mappingIndex [0] = false) :
    ∀ fuel t, NoP p t → NoP p (insertMappingAccesses fuel t) := by
  intro fuel
  induction fuel with
  | zero => intro t ht; simpa [insertMappingAccesses] using ht
  | succ fuel ih =>
    intro t ht
    cases t with
    | node k a ks s =>
      rw [NoP_node] at ht
      simp only [insertMappingAccesses]
      split
      · rename_i a' key slot s'
        have h1 := ht.2 _ (List.mem_singleton.2 rfl)
        rw [NoP_node, forall_mem_two] at h1
        rw [NoP_rebuild, forall_mem_two]
        exact ⟨hm, ih _ h1.2.2, ih _ h1.2.1⟩
      · rw [NoP_rebuild, forall_mem_map]
        exact ⟨ht.1, fun y hy => ih y (ht.2 y hy)⟩

/-- `guarded` with an inner transform that preserves the predicate -/
theorem guarded_NoP {p : Kind → List Nat → Bool} (inner : SV → SV)
    (hin : ∀ t, NoP p t → NoP p (inner t)) :
    ∀ fuel t, NoP p t → NoP p (guarded inner fuel t) := by
  intro fuel
  induction fuel with
  | zero => intro t ht; simpa [guarded] using ht
  | succ fuel ih =>
    intro t ht
    cases t with
    | node k a ks s =>
      rw [NoP_node] at ht
      simp only [guarded]
      split
      · rename_i k' a' ks' heq
        unfold guardStorage at heq
        split at heq
        all_goals first
          | (cases heq; done)
          | (cases heq
             simp only [forall_mem_two, forall_mem_one] at ht
             simp only [NoP_rebuild, forall_mem_two, forall_mem_one]
             first
               | exact ⟨ht.1, hin _ ht.2.1, hin _ ht.2.2⟩
               | exact ⟨ht.1, hin _ ht.2⟩)
      · rw [NoP_rebuild, forall_mem_map]
        exact ⟨ht.1, fun y hy => ih y (ht.2 y hy)⟩

/-- `guarded` on a tree without storage nodes: whatever the inner transform -/
theorem guarded_NoP_free {p : Kind → List Nat → Bool} (inner : SV → SV)
    (hst : ∀ k a, isStorageKind k = true → p k a = true) :
    ∀ fuel t, NoP p t → NoP p (guarded inner fuel t) := by
  intro fuel
  induction fuel with
  | zero => intro t ht; simpa [guarded] using ht
  | succ fuel ih =>
    intro t ht
    cases t with
    | node k a ks s =>
      rw [NoP_node] at ht
      simp only [guarded]
      split
      · rename_i k' a' ks' heq
        unfold guardStorage at heq
        split at heq
        all_goals first
          | (cases heq; done)
          | (cases heq
             have h1 := ht.1
             rw [hst _ a (by rfl)] at h1
             cases h1)
      · rw [NoP_rebuild, forall_mem_map]
        exact ⟨ht.1, fun y hy => ih y (ht.2 y hy)⟩

/-! ### pass 4: `insertSubWords` -/

theorem mapE_total {α β ε : Type} (f : α → Except ε β) :
    ∀ l : List α, (∀ x ∈ l, ∃ y, f x = .ok y) → ∃ r, mapE f l = .ok r
  | [], _ => ⟨[], rfl⟩
  | x :: xs, hl => by
    obtain ⟨y, hy⟩ := hl x (by simp)
    obtain ⟨r, hr⟩ := mapE_total f xs (fun z hz => hl z (by simp [hz]))
    exact ⟨y :: r, by simp [mapE, hy, hr]⟩

theorem mapE_mem {α β ε : Type} (f : α → Except ε β) :
    ∀ (l : List α) (r : List β), mapE f l = .ok r → ∀ y ∈ r, ∃ x ∈ l, f x = .ok y
  | [], r, h => by
    simp only [mapE] at h
    cases h
    simp
  | x :: xs, r, h => by
    simp only [mapE] at h
    split at h
    · cases h
    · rename_i y hy
      split at h
      · cases h
      · rename_i ys hys
        cases h
        intro z hz
        simp only [List.mem_cons] at hz
        rcases hz with rfl | hz
        · exact ⟨x, by simp, hy⟩
        · obtain ⟨x', hx', hfx⟩ := mapE_mem f xs ys hys z hz
          exact ⟨x', by simp [hx'], hfx⟩

theorem lowestSetBit_spec : ∀ fuel w i off, lowestSetBit fuel w i = some off →
    ∃ j, off = i + j ∧ j < fuel ∧ (w / 2 ^ j) % 2 = 1
  | 0, _, _, _, h => by simp [lowestSetBit] at h
  | fuel + 1, w, i, off, h => by
    simp only [lowestSetBit] at h
    split at h
    · rename_i hw
      cases h
      exact ⟨0, by simp, by omega, by simpa using hw⟩
    · obtain ⟨j, h1, h2, h3⟩ := lowestSetBit_spec fuel (w / 2) (i + 1) off h
      refine ⟨j + 1, by omega, by omega, ?_⟩
      rw [Nat.pow_succ, Nat.mul_comm, ← Nat.div_div_eq_div_mul]
      exact h3

theorem runLength_ge : ∀ fuel w n, n ≤ runLength fuel w n
  | 0, _, _ => by simp [runLength]
  | fuel + 1, w, n => by
    simp only [runLength]
    split
    · have := runLength_ge fuel (w / 2) (n + 1); omega
    · exact Nat.le_refl _

theorem getRegion_pos (v : SV) (o l : Nat) (h : getRegion v = some (o, l)) : 1 ≤ l := by
  unfold getRegion at h
  split at h
  · cases h
  · rename_i w _
    split at h
    · cases h
    · rename_i off hoff
      simp only [Option.some.injEq, Prod.mk.injEq] at h
      obtain ⟨rfl, rfl⟩ := h
      obtain ⟨j, h1, h2, h3⟩ := lowestSetBit_spec _ _ _ _ hoff
      have hj : off = j := by omega
      subst hj
      obtain ⟨m, hm⟩ : ∃ m, 256 - off = m + 1 := ⟨255 - off, by omega⟩
      rw [hm]
      simp only [runLength, h3, if_true]
      exact runLength_ge _ _ _

theorem getShift_NoP {p : Kind → List Nat → Bool} (v : SV) (hv : NoP p v) :
    NoP p (getShift v).1 := by
  unfold getShift
  split
  · rename_i a shift inner s
    rw [NoP_node, forall_mem_two] at hv
    split <;> exact hv.2.2
  · rename_i a dividend divisor s
    have hv' := hv
    rw [NoP_node, forall_mem_two] at hv'
    repeat' split
    all_goals first
      | exact hv
      | exact hv'.2.1
  · exact hv

theorem insertSubWords_total : ∀ fuel t, ∃ t', insertSubWords fuel t = .ok t' := by
  intro fuel
  induction fuel with
  | zero => intro t; exact ⟨t, by simp [insertSubWords]⟩
  | succ fuel ih =>
    intro t
    cases t with
    | node k a ks s =>
      obtain ⟨ks', hks'⟩ := mapE_total (insertSubWords fuel) ks (fun x _ => ih x)
      simp only [insertSubWords, hks']
      split
      · split
        · rename_i value offset length hpick
          split
          · exact ⟨_, rfl⟩
          · obtain ⟨v2, hv2⟩ := ih (getShift value).1
            simp only [hv2]
            split
            · exact ⟨_, rfl⟩
            · exact ⟨_, rfl⟩
        · exact ⟨_, rfl⟩
      · exact ⟨_, rfl⟩

theorem insertSubWords_NoP {p : Kind → List Nat → Bool}
    (hs : ∀ o l, 1 ≤ l → o + l ≤ 256 → p .subWord [o, l] = false) :
    ∀ fuel t t', NoP p t → insertSubWords fuel t = .ok t' → NoP p t' := by
  intro fuel
  induction fuel with
  | zero => intro t t' ht h; simp only [insertSubWords] at h; cases h; exact ht
  | succ fuel ih =>
    intro t t' ht h
    cases t with
    | node k a ks s =>
      rw [NoP_node] at ht
      have hgen : ∀ t', (match mapE (insertSubWords fuel) ks with
          | .ok ks' => Except.ok (rebuild k a ks')
          | .error e => .error e) = .ok t' → NoP p t' := by
        intro t' h
        split at h
        · rename_i ks' hks'
          cases h
          rw [NoP_rebuild]
          refine ⟨ht.1, fun y hy => ?_⟩
          obtain ⟨x, hx, hxy⟩ := mapE_mem _ _ _ hks' y hy
          exact ih x y (ht.2 x hx) hxy
        · cases h
      simp only [insertSubWords] at h
      split at h
      · rename_i left right
        have hl : NoP p left := ht.2 left (by simp)
        have hr : NoP p right := ht.2 right (by simp)
        split at h
        · rename_i value offset length hpick
          have hval : NoP p value ∧ 1 ≤ length := by
            split at hpick
            · rename_i o l hreg
              cases hpick
              exact ⟨hr, getRegion_pos _ _ _ hreg⟩
            · split at hpick
              · rename_i o l hreg
                cases hpick
                exact ⟨hl, getRegion_pos _ _ _ hreg⟩
              · cases hpick
          split at h
          · exact hgen t' h
          · split at h
            · cases h
            · rename_i v2 hv2
              have hv2' : NoP p v2 := ih _ _ (getShift_NoP value hval.1) hv2
              split at h
              · exact hgen t' h
              · rename_i hguard
                cases h
                rw [NoP_rebuild, forall_mem_one]
                constructor
                · apply hs _ _ hval.2
                  simp only [Bool.or_eq_true, decide_eq_true_eq, not_or] at hguard
                  omega
                · split
                  · rename_i io isz iv s'
                    rw [NoP_node, forall_mem_one] at hv2'
                    split
                    · exact hv2'.2
                    · rw [NoP_node, forall_mem_one]; exact hv2'
                  · exact hv2'
        · exact hgen t' h
      · exact hgen t' h

/-! ### pass 5: `insertMulShifts` -/

theorem insertMulShifts_NoP {p : Kind → List Nat → Bool} (hsh : ∀ a, p .shifted a = false) :
    ∀ fuel t, NoP p t → NoP p (insertMulShifts fuel t) := by
  intro fuel
  induction fuel with
  | zero => intro t ht; simpa [insertMulShifts] using ht
  | succ fuel ih =>
    intro t ht
    cases t with
    | node k a ks s =>
      rw [NoP_node] at ht
      have hgen : NoP p (rebuild k a (ks.map (insertMulShifts fuel))) := by
        rw [NoP_rebuild, forall_mem_map]
        exact ⟨ht.1, fun y hy => ih y (ht.2 y hy)⟩
      simp only [insertMulShifts]
      split
      · rename_i left right
        have hl : NoP p left := ht.2 left (by simp)
        have hr : NoP p right := ht.2 right (by simp)
        split
        · rename_i c value hpick
          have hval : NoP p value := by
            split at hpick
            · cases hpick; exact ih _ hr
            · split at hpick
              · cases hpick; exact ih _ hl
              · cases hpick
          split
          · split
            · split
              · exact hgen
              · rw [NoP_rebuild, forall_mem_one]; exact ⟨hsh _, hval⟩
            · rw [NoP_rebuild, forall_mem_one]; exact ⟨hsh _, hval⟩
          · exact hgen
        · exact hgen
      · exact hgen

/-- after pass 4: every sub-word is `[o, s]` with `1 ≤ s`, `o + s ≤ 256`; no `shifted` yet -/
def bad4 : Kind → List Nat → Bool
  | .subWord, [o, s] => !(decide (1 ≤ s) && decide (o + s ≤ 256))
  | .subWord, _ => true
  | .shifted, _ => true
  | _, _ => false

/-- after pass 5: additionally every `shifted [off]` wraps a sub-word `[_, s]`, `off + s ≤ 256` -/
def bad5 : Kind → List Nat → List SV → Bool
  | .subWord, [o, s], _ => !(decide (1 ≤ s) && decide (o + s ≤ 256))
  | .subWord, _, _ => true
  | .shifted, [off], [.node .subWord [_, s] _ _] => !(decide (1 ≤ s) && decide (off + s ≤ 256))
  | .shifted, _, _ => true
  | _, _, _ => false

def Good5 (t : SV) : Prop := anyNode bad5 t = false

theorem Good5_node {k a ks s} :
    Good5 (.node k a ks s) ↔ bad5 k a ks = false ∧ ∀ x ∈ ks, Good5 x := by
  simp only [Good5, anyNode, Bool.or_eq_false_iff, anyNodeList_false]

theorem Good5_rebuild {k a ks} :
    Good5 (rebuild k a ks) ↔ bad5 k a ks = false ∧ ∀ x ∈ ks, Good5 x := by
  simp only [rebuild, Good5_node]

theorem bad5_of_bad4 (k : Kind) (a : List Nat) (ks : List SV) (h : bad4 k a = false) :
    bad5 k a ks = false := by
  unfold bad4 at h
  unfold bad5
  split at h <;> simp_all

theorem bad5_subWord {a : List Nat} {ks : List SV} (h : bad5 .subWord a ks = false) :
    ∃ o s, a = [o, s] ∧ 1 ≤ s ∧ o + s ≤ 256 := by
  unfold bad5 at h
  split at h <;> simp_all
  exact ⟨_, _, ⟨rfl, rfl⟩, h⟩

theorem insertMulShifts_kind (fuel : Nat) (t : SV) (ht : t.kind = .subWord) :
    (insertMulShifts fuel t).kind = .subWord ∧ (insertMulShifts fuel t).attrs = t.attrs := by
  cases fuel with
  | zero => simp [insertMulShifts, ht]
  | succ fuel =>
    cases t with
    | node k a ks s =>
      simp only [SV.kind] at ht
      subst ht
      simp [insertMulShifts, rebuild, SV.kind, SV.attrs]

theorem insertMulShifts_Good5 :
    ∀ fuel t, NoP bad4 t → Good5 (insertMulShifts fuel t) := by
  intro fuel
  induction fuel with
  | zero =>
    intro t ht
    simp only [insertMulShifts]
    refine anyNode_mono (fun k a ks h => ?_) t ht
    cases h4 : bad4 k a with
    | true => rfl
    | false => rw [bad5_of_bad4 k a ks h4] at h; cases h
  | succ fuel ih =>
    intro t ht
    cases t with
    | node k a ks s =>
      rw [NoP_node] at ht
      have hgen : Good5 (rebuild k a (ks.map (insertMulShifts fuel))) := by
        rw [Good5_rebuild, forall_mem_map]
        exact ⟨bad5_of_bad4 _ _ _ ht.1, fun y hy => ih y (ht.2 y hy)⟩
      simp only [insertMulShifts]
      split
      · rename_i left right
        have hl : NoP bad4 left := ht.2 left (by simp)
        have hr : NoP bad4 right := ht.2 right (by simp)
        split
        · rename_i c value hpick
          have hval : Good5 value ∧ value.kind = .subWord := by
            split at hpick
            · rename_i c' hc hk
              cases hpick
              refine ⟨ih _ hr, (insertMulShifts_kind fuel right ?_).1⟩
              rcases fold_kind right with h | h
              · rw [← h]; simpa using hk
              · rw [h] at hk; simp at hk
            · split at hpick
              · rename_i c' hk hc
                cases hpick
                refine ⟨ih _ hl, (insertMulShifts_kind fuel left ?_).1⟩
                rcases fold_kind left with h | h
                · rw [← h]; simpa using hk
                · rw [h] at hk; simp at hk
              · cases hpick
          have hshape : ∃ o sz ks' n, value = .node .subWord [o, sz] ks' n ∧ 1 ≤ sz := by
            obtain ⟨hg, hk⟩ := hval
            cases value with
            | node k' a' ks' n =>
              simp only [SV.kind] at hk
              subst hk
              rw [Good5_node] at hg
              obtain ⟨o, sz, rfl, h1, _⟩ := bad5_subWord hg.1
              exact ⟨o, sz, ks', n, rfl, h1⟩
          split
          · rename_i off hoff
            split
            · rename_i o sz ks' n
              split
              · exact hgen
              · rename_i hguard
                rw [Good5_rebuild, forall_mem_one]
                refine ⟨?_, hval.1⟩
                obtain ⟨o', sz', ks'', n', heq, h1⟩ := hshape
                cases heq
                simp only [bad5]
                simp
                omega
            · rename_i hno
              obtain ⟨o', sz', ks'', n', heq, h1⟩ := hshape
              exact absurd heq (hno _ _ _ _)
          · exact hgen
        · exact hgen
      · exact hgen

/-! ### pass 6: `liftPacked` -/

theorem anyNode_node {q : Kind → List Nat → List SV → Bool} {k a ks s} :
    anyNode q (.node k a ks s) = false ↔ q k a ks = false ∧ ∀ x ∈ ks, anyNode q x = false := by
  simp only [anyNode, Bool.or_eq_false_iff, anyNodeList_false]

theorem unpickOrs_sub {q : Kind → List Nat → List SV → Bool} :
    ∀ fuel v, anyNode q v = false → ∀ e ∈ unpickOrs fuel v, anyNode q e = false := by
  intro fuel
  induction fuel with
  | zero => intro v hv e he; simp only [unpickOrs, List.mem_singleton] at he; subst he; exact hv
  | succ fuel ih =>
    intro v hv e he
    simp only [unpickOrs] at he
    split at he
    · rename_i a l r s
      rw [anyNode_node] at hv
      simp only [List.mem_append] at he
      rcases he with he | he
      · exact ih l (hv.2 l (by simp)) e he
      · exact ih r (hv.2 r (by simp)) e he
    · simp only [List.mem_singleton] at he; subst he; exact hv

/-- the span extraction of `liftPacked` -/
def spanOf (e : SV) : Except LFault (Nat × Nat × SV) :=
  match e with
  | .node .subWord [off, sz] _ _ => .ok (off, sz, e)
  | .node .shifted [off] [inner] _ =>
    (match inner with
     | .node .subWord [_, sz] _ _ => .ok (off, sz, inner)
     | _ => .error (.panic "packed_encoding.rs Shift of non-sub-word"))
  | _ => .error (.panic "packed_encoding.rs Element was of impossible type")

theorem bad5_shifted {a : List Nat} {ks : List SV} (h : bad5 .shifted a ks = false) :
    ∃ off o s ks' n, a = [off] ∧ ks = [.node .subWord [o, s] ks' n] ∧ 1 ≤ s ∧ off + s ≤ 256 := by
  unfold bad5 at h
  split at h <;> simp_all
  exact ⟨_, _, ⟨rfl, rfl⟩, h⟩

theorem spanOf_Good5 (e : SV) (hg : Good5 e)
    (hk : (e.kind == .shifted || e.kind == .subWord) = true) :
    ∃ s, spanOf e = .ok s ∧ s.1 + s.2.1 ≤ 256 := by
  cases e with
  | node k a ks n =>
    rw [Good5_node] at hg
    simp only [SV.kind, Bool.or_eq_true, beq_iff_eq] at hk
    rcases hk with rfl | rfl
    · obtain ⟨off, o, s, ks', n', rfl, rfl, h1, h2⟩ := bad5_shifted hg.1
      exact ⟨_, rfl, h2⟩
    · obtain ⟨o, s, rfl, h1, h2⟩ := bad5_subWord hg.1
      exact ⟨_, rfl, h2⟩

theorem spanOf_NoP {p : Kind → List Nat → Bool} (e : SV) (s : Nat × Nat × SV) (he : NoP p e)
    (hs : spanOf e = .ok s) : NoP p s.2.2 := by
  unfold spanOf at hs
  split at hs
  · cases hs; exact he
  · split at hs
    · cases hs
      rw [NoP_node, forall_mem_one] at he
      exact he.2
    · cases hs
  · cases hs

theorem insertSpan_mem (s x : Nat × Nat × SV) :
    ∀ l, x ∈ insertSpan s l → x = s ∨ x ∈ l
  | [], h => by simp only [insertSpan, List.mem_singleton] at h; exact Or.inl h
  | t :: r, h => by
    simp only [insertSpan] at h
    split at h
    · simp only [List.mem_cons] at h ⊢; exact h
    · simp only [List.mem_cons] at h ⊢
      rcases h with h | h
      · exact Or.inr (Or.inl h)
      · rcases insertSpan_mem s x r h with h | h
        · exact Or.inl h
        · exact Or.inr (Or.inr h)

theorem sortSpans_mem_aux (x : Nat × Nat × SV) :
    ∀ (l acc : List (Nat × Nat × SV)),
      x ∈ l.foldl (fun acc s => insertSpan s acc) acc → x ∈ acc ∨ x ∈ l
  | [], acc, h => Or.inl h
  | s :: l, acc, h => by
    simp only [List.foldl_cons] at h
    rcases sortSpans_mem_aux x l _ h with h | h
    · rcases insertSpan_mem s x acc h with h | h
      · exact Or.inr (by simp [h])
      · exact Or.inl h
    · exact Or.inr (by simp [h])

theorem sortSpans_mem (x : Nat × Nat × SV) (l : List (Nat × Nat × SV)) (h : x ∈ sortSpans l) :
    x ∈ l := by
  rcases sortSpans_mem_aux x l [] h with h | h
  · cases h
  · exact h

theorem chk_no_overflow (spans : List (Nat × Nat × SV)) (hs : ∀ s ∈ spans, s.1 + s.2.1 ≤ 256) :
    ∀ (b : Bool) (n : Nat), (spans.foldl (fun (acc : Bool × Nat × Bool) (s : Nat × Nat × SV) =>
      (acc.1 && acc.2.1 ≤ s.1, s.1 + s.2.1, acc.2.2 || (s.1 + s.2.1 ≥ usizeMax))) (b, n, false)).2.2
      = false := by
  induction spans with
  | nil => intro b n; rfl
  | cons s r ih =>
    intro b n
    simp only [List.foldl_cons]
    have h1 : s.1 + s.2.1 ≤ 256 := hs s (by simp)
    have h2 : (false || decide (s.1 + s.2.1 ≥ usizeMax)) = false := by
      simp [usizeMax]; omega
    rw [h2]
    exact ih (fun x hx => hs x (by simp [hx])) _ _

theorem liftPacked_total : ∀ fuel t, Good5 t → ∃ t', liftPacked fuel t = .ok t' := by
  intro fuel
  induction fuel with
  | zero => intro t _; exact ⟨t, by simp [liftPacked]⟩
  | succ fuel ih =>
    intro t ht
    cases t with
    | node k a ks s =>
      rw [Good5_node] at ht
      obtain ⟨ks', hks'⟩ := mapE_total (liftPacked fuel) ks (fun x hx => ih x (ht.2 x hx))
      simp only [liftPacked, hks']
      split
      · rename_i key value
        have hval : Good5 value := ht.2 value (by simp)
        split
        · exact ⟨_, rfl⟩
        · rename_i hall
          simp only [Bool.not_eq_true, Bool.not_eq_false', List.all_eq_true] at hall
          have hpt : ∀ e ∈ unpickOrs (nodeCount value) value,
              ∃ s, spanOf e = .ok s ∧ s.1 + s.2.1 ≤ 256 := fun e he =>
            spanOf_Good5 e (unpickOrs_sub _ value hval e he) (hall e he)
          obtain ⟨spans0, hsp⟩ := mapE_total spanOf _ (fun e he => ⟨_, (hpt e he).choose_spec.1⟩)
          have hb : ∀ s ∈ sortSpans spans0, s.1 + s.2.1 ≤ 256 := by
            intro s hs
            obtain ⟨e, he, hes⟩ := mapE_mem _ _ _ hsp s (sortSpans_mem _ _ hs)
            obtain ⟨s', hs', hle⟩ := hpt e he
            rw [hes] at hs'
            cases hs'
            exact hle
          change ∃ t', (match mapE spanOf (unpickOrs (nodeCount value) value) with
            | .error e => _ | .ok spans0 => _) = Except.ok t'
          rw [hsp]
          dsimp only
          split
          · rename_i hc
            rw [chk_no_overflow _ hb] at hc
            cases hc
          · split <;> exact ⟨_, rfl⟩
      · exact ⟨_, rfl⟩

theorem liftPacked_NoP {p : Kind → List Nat → Bool} (hpk : ∀ a, p .packed a = false) :
    ∀ fuel t t', NoP p t → liftPacked fuel t = .ok t' → NoP p t' := by
  intro fuel
  induction fuel with
  | zero => intro t t' ht h; simp only [liftPacked] at h; cases h; exact ht
  | succ fuel ih =>
    intro t t' ht h
    cases t with
    | node k a ks s =>
      rw [NoP_node] at ht
      have hgen : ∀ t', (match mapE (liftPacked fuel) ks with
          | .ok ks' => Except.ok (rebuild k a ks')
          | .error e => .error e) = .ok t' → NoP p t' := by
        intro t' h
        split at h
        · rename_i ks' hks'
          cases h
          rw [NoP_rebuild]
          refine ⟨ht.1, fun y hy => ?_⟩
          obtain ⟨x, hx, hxy⟩ := mapE_mem _ _ _ hks' y hy
          exact ih x y (ht.2 x hx) hxy
        · cases h
      simp only [liftPacked] at h
      split at h
      · rename_i key value
        have hkey : NoP p key := ht.2 key (by simp)
        have hval : NoP p value := ht.2 value (by simp)
        split at h
        · exact hgen t' h
        · change (match mapE spanOf (unpickOrs (nodeCount value) value) with
            | .error e => _ | .ok spans0 => _) = Except.ok t' at h
          split at h
          · cases h
          · rename_i spans0 hsp
            split at h
            · cases h
            · split at h
              · cases h
                rw [NoP_rebuild, forall_mem_two, NoP_rebuild]
                refine ⟨ht.1, hkey, hpk _, ?_⟩
                intro x hx
                simp only [List.mem_map, List.mem_filter] at hx
                obtain ⟨sp, ⟨hsp1, _⟩, rfl⟩ := hx
                obtain ⟨e, he, hes⟩ := mapE_mem _ _ _ hsp sp (sortSpans_mem _ _ hsp1)
                exact spanOf_NoP e sp (unpickOrs_sub _ value hval e he) hes
              · exact hgen t' h
      · exact hgen t' h

/-! ### pass 7: `liftDynArray` -/

theorem liftDynArray_NoP {p : Kind → List Nat → Bool} (hk : ∀ a, p .knownData a = false)
    (hd : p .dynamicArrayIndex [] = false) :
    ∀ fuel t, NoP p t → NoP p (liftDynArray fuel t) := by
  intro fuel
  induction fuel with
  | zero => intro t ht; simpa [liftDynArray] using ht
  | succ fuel ih =>
    intro t ht
    cases t with
    | node k a ks s =>
      rw [NoP_node] at ht
      have hgen : NoP p (rebuild k a (ks.map (liftDynArray fuel))) := by
        rw [NoP_rebuild, forall_mem_map]
        exact ⟨ht.1, fun y hy => ih y (ht.2 y hy)⟩
      simp only [liftDynArray]
      split
      · rename_i left right
        have hl : NoP p left := ht.2 left (by simp)
        have hr : NoP p right := ht.2 right (by simp)
        split
        · exact hgen
        · rename_i data hdata
          have hdat : NoP p data := by
            split at hdata
            · cases hdata
              rw [NoP_node, forall_mem_one] at hl
              exact hl.2
            · split at hdata
              · cases hdata
                rw [NoP_node, forall_mem_one] at hr
                exact hr.2
              · cases hdata
          split
          · exact hgen
          · rename_i d hd'
            have hdd : NoP p d := by
              split at hd'
              · cases hd'
                rw [NoP_node, forall_mem_one] at hdat
                exact fold_NoP hk _ hdat.2
              · cases hd'
              · cases hd'; exact hdat
            rw [NoP_rebuild, forall_mem_two]
            exact ⟨hd, ih _ hdd, ih _ hr⟩
      · exact hgen

/-! ### pass 8: `insertStorageSlots` -/

theorem insertStorageSlots_NoP {p : Kind → List Nat → Bool} (hss : p .storageSlot [] = false) :
    ∀ fuel t, NoP p t → NoP p (insertStorageSlots fuel t) := by
  intro fuel
  induction fuel with
  | zero => intro t ht; simpa [insertStorageSlots] using ht
  | succ fuel ih =>
    intro t ht
    cases t with
    | node k a ks s =>
      rw [NoP_node] at ht
      have hwrap : ∀ slot, NoP p slot →
          NoP p (if (slot.kind == Kind.storageSlot) = true then rebuild slot.kind slot.attrs slot.kids
            else rebuild .storageSlot [] [insertStorageSlots fuel slot]) := by
        intro slot hslot
        split
        · exact NoP_rebuild_self hslot
        · rw [NoP_rebuild, forall_mem_one]; exact ⟨hss, ih _ hslot⟩
      simp only [insertStorageSlots]
      split
      all_goals first
        | (rw [NoP_rebuild, forall_mem_map]
           exact ⟨ht.1, fun y hy => ih y (ht.2 y hy)⟩)
        | (rw [forall_mem_two] at ht
           rw [NoP_rebuild, forall_mem_two]
           exact ⟨ht.1, hwrap _ ht.2.1, ih _ ht.2.2⟩)

/-- the kinds that make `insertStorageSlots` create a slot, and the slot kind itself -/
def slotSource (k : Kind) (_ : List Nat) : Bool :=
  isStorageKind k || k == .mappingIndex || k == .dynamicArrayIndex || k == .storageSlot

theorem insertStorageSlots_none :
    ∀ fuel t, NoP slotSource t → NoP slotSource (insertStorageSlots fuel t) := by
  intro fuel
  induction fuel with
  | zero => intro t ht; simpa [insertStorageSlots] using ht
  | succ fuel ih =>
    intro t ht
    cases t with
    | node k a ks s =>
      rw [NoP_node] at ht
      simp only [insertStorageSlots]
      split
      all_goals first
        | (rw [NoP_rebuild, forall_mem_map]
           exact ⟨ht.1, fun y hy => ih y (ht.2 y hy)⟩)
        | (have h1 := ht.1
           simp [slotSource, isStorageKind] at h1)

/-! ### pass 9: `insertMappingOffset` -/

theorem insertMappingOffset_NoP {p : Kind → List Nat → Bool} (hm : ∀ a, p .mappingIndex a = false) :
    ∀ fuel t, NoP p t → NoP p (insertMappingOffset fuel t) := by
  intro fuel
  induction fuel with
  | zero => intro t ht; simpa [insertMappingOffset] using ht
  | succ fuel ih =>
    intro t ht
    cases t with
    | node k a ks s =>
      rw [NoP_node] at ht
      have hgen : NoP p (rebuild k a (ks.map (insertMappingOffset fuel))) := by
        rw [NoP_rebuild, forall_mem_map]
        exact ⟨ht.1, fun y hy => ih y (ht.2 y hy)⟩
      simp only [insertMappingOffset]
      split
      · rename_i left right
        have hl : NoP p left := ht.2 left (by simp)
        have hr : NoP p right := ht.2 right (by simp)
        split
        · rename_i key slot off hpick
          have hks : NoP p key ∧ NoP p slot := by
            split at hpick
            · split at hpick
              · cases hpick
                rw [NoP_node, forall_mem_two] at hl
                exact ⟨hl.2.2, hl.2.1⟩
              · cases hpick
            · split at hpick
              · cases hpick
                rw [NoP_node, forall_mem_two] at hr
                exact ⟨hr.2.2, hr.2.1⟩
              · cases hpick
            · cases hpick
          rw [NoP_rebuild, forall_mem_two]
          exact ⟨hm _, ih _ hks.2, ih _ hks.1⟩
        · exact hgen
      · exact hgen

/-! ### the pipeline -/

mutual
theorem anyNode_or {p q : Kind → List Nat → List SV → Bool} :
    ∀ t, anyNode p t = false → anyNode q t = false →
      anyNode (fun k a ks => p k a ks || q k a ks) t = false
  | .node k a ks s, hp, hq => by
    simp only [anyNode, Bool.or_eq_false_iff] at hp hq ⊢
    exact ⟨⟨hp.1, hq.1⟩, anyNodeList_or ks hp.2 hq.2⟩
theorem anyNodeList_or {p q : Kind → List Nat → List SV → Bool} :
    ∀ l, anyNodeList p l = false → anyNodeList q l = false →
      anyNodeList (fun k a ks => p k a ks || q k a ks) l = false
  | [], _, _ => by simp [anyNodeList]
  | x :: xs, hp, hq => by
    simp only [anyNodeList, Bool.or_eq_false_iff] at hp hq ⊢
    exact ⟨anyNode_or x hp.1 hq.1, anyNodeList_or xs hp.2 hq.2⟩
end

def cnt (t : SV) : Nat := nodeCount t + 1

/-- passes 1–3 -/
def stage3 (h : HashCtx) (v : SV) : SV :=
  let v1 := transform (slotHashesT h) v
  let v2 := proxySlots h (cnt v1) v1
  guarded (fun t => insertMappingAccesses (cnt t) t) (cnt v2) v2

/-- pass 5 -/
def stage5 (v4 : SV) : SV := insertMulShifts (cnt v4) v4

/-- pass 7 -/
def stage7 (v6 : SV) : SV := guarded (fun t => liftDynArray (2 * cnt t) t) (cnt v6) v6

/-- passes 7–8 -/
def stage8 (v6 : SV) : SV := insertStorageSlots (cnt (stage7 v6)) (stage7 v6)

/-- passes 7–9 -/
def stage9 (v6 : SV) : SV := insertMappingOffset (cnt (stage8 v6)) (stage8 v6)

theorem liftAll_eq (h : HashCtx) (v : SV) :
    liftAll h v =
      match insertSubWords (cnt (stage3 h v)) (stage3 h v) with
      | .error e => .error e
      | .ok v4 =>
        match liftPacked (cnt (stage5 v4)) (stage5 v4) with
        | .error e => .error e
        | .ok v6 => .ok (stage9 v6) := rfl

theorem stage3_NoP {p : Kind → List Nat → Bool} (h : HashCtx) (hk : ∀ a, p .knownData a = false)
    (hs : p .sha3 [] = false) (hm : p .mappingIndex [0] = false) (v : SV) (hv : NoP p v) :
    NoP p (stage3 h v) :=
  guarded_NoP _ (fun t ht => insertMappingAccesses_NoP hm _ t ht) _ _
    (proxySlots_NoP h hk _ _ (slotHashes_NoP h hk hs v hv))

theorem stage3_free {p : Kind → List Nat → Bool} (h : HashCtx) (hk : ∀ a, p .knownData a = false)
    (hs : p .sha3 [] = false) (hst : ∀ k a, isStorageKind k = true → p k a = true)
    (v : SV) (hv : NoP p v) : NoP p (stage3 h v) :=
  guarded_NoP_free _ hst _ _ (proxySlots_NoP h hk _ _ (slotHashes_NoP h hk hs v hv))

theorem stage9_NoP {p : Kind → List Nat → Bool} (hk : ∀ a, p .knownData a = false)
    (hd : p .dynamicArrayIndex [] = false) (hss : p .storageSlot [] = false)
    (hm : ∀ a, p .mappingIndex a = false) (v : SV) (hv : NoP p v) : NoP p (stage9 v) :=
  insertMappingOffset_NoP hm _ _ (insertStorageSlots_NoP hss _ _
    (guarded_NoP _ (fun t ht => liftDynArray_NoP hk hd _ t ht) _ _ hv))

theorem Raw_bad4 (v : SV) (hraw : Raw v) : NoP bad4 v := by
  refine anyNode_mono (fun k a _ hb => ?_) v hraw
  unfold bad4 at hb
  split at hb <;> first | rfl | cases hb

/-- the first four passes on a raw value: they succeed and establish the sub-word invariant -/
theorem stage4_ok (h : HashCtx) (v : SV) (hraw : Raw v) :
    ∃ v4, insertSubWords (cnt (stage3 h v)) (stage3 h v) = .ok v4 ∧ NoP bad4 v4 := by
  have h3 : NoP bad4 (stage3 h v) :=
    stage3_NoP h (fun _ => rfl) rfl rfl v (Raw_bad4 v hraw)
  obtain ⟨v4, hv4⟩ := insertSubWords_total (cnt (stage3 h v)) (stage3 h v)
  refine ⟨v4, hv4, insertSubWords_NoP ?_ _ _ _ h3 hv4⟩
  intro o l h1 h2
  simp [bad4, h1, h2]

/-- the span predicate of `spansInWord` -/
def bad2 : Kind → List Nat → Bool := fun k a =>
  match k, a with
  | .subWord, [off, sz] => !(off + sz ≤ 256)
  | .subWord, _ => true
  | .shifted, [off] => !(off < 256)
  | .shifted, _ => true
  | _, _ => false

theorem Good5_bad2 (t : SV) (ht : Good5 t) : NoP bad2 t := by
  refine anyNode_mono (fun k a ks hb => ?_) t ht
  cases h5 : bad5 k a ks with
  | true => rfl
  | false =>
    exfalso
    unfold bad5 at h5
    unfold bad2 at hb
    split at h5 <;> simp_all <;> omega

/-- everything a successful run of `liftAll` on a raw value goes through -/
theorem liftAll_ok_inv (h : HashCtx) (v v' : SV) (hraw : Raw v) (hv : liftAll h v = .ok v') :
    ∃ v4 v6, insertSubWords (cnt (stage3 h v)) (stage3 h v) = .ok v4 ∧ NoP bad4 v4 ∧
      liftPacked (cnt (stage5 v4)) (stage5 v4) = .ok v6 ∧ v' = stage9 v6 := by
  obtain ⟨v4, hv4, h4⟩ := stage4_ok h v hraw
  rw [liftAll_eq, hv4] at hv
  dsimp only at hv
  split at hv
  · cases hv
  · rename_i v6 hv6
    cases hv
    exact ⟨v4, v6, hv4, h4, hv6, rfl⟩

theorem Raw_free_slotSource (v : SV) (hraw : Raw v) (hfree : StorageFree v) : NoP slotSource v := by
  refine anyNode_mono (fun k a _ hb => ?_) v (anyNode_or v hraw hfree)
  simp only [slotSource, Bool.or_eq_true] at hb
  simp only [Bool.or_eq_true]
  rcases hb with ((hb | hb) | hb) | hb
  · exact Or.inr hb
  · exact Or.inl (by simp only [beq_iff_eq] at hb; subst hb; rfl)
  · exact Or.inl (by simp only [beq_iff_eq] at hb; subst hb; rfl)
  · exact Or.inl (by simp only [beq_iff_eq] at hb; subst hb; rfl)

/-! ### registration and the layout loop (L4) -/

/-- no `storageSlot` node -/
abbrev NoSS (t : SV) : Prop := NoP (fun k _ => k == .storageSlot) t

/-- no registered node is a storage slot -/
def RegInv (st : RegState) : Prop := ∀ t ∈ st.values, t.kind ≠ .storageSlot

theorem foldl_RegInv (g : RegState × List TV → SV → RegState × List TV)
    (hg : ∀ acc c, RegInv acc.1 → NoSS c → RegInv (g acc c).1) :
    ∀ (ks : List SV) (acc : RegState × List TV), RegInv acc.1 → (∀ c ∈ ks, NoSS c) →
      RegInv (ks.foldl g acc).1
  | [], acc, hacc, _ => hacc
  | c :: ks, acc, hacc, hks => by
    simp only [List.foldl_cons]
    exact foldl_RegInv g hg ks _ (hg acc c hacc (hks c (by simp)))
      (fun x hx => hks x (by simp [hx]))

theorem register_RegInv : ∀ fuel st v, RegInv st → NoSS v → RegInv (register fuel st v).1 := by
  intro fuel
  induction fuel with
  | zero => intro st v hst _; simpa [register] using hst
  | succ fuel ih =>
    intro st v hst hv
    simp only [register]
    split
    · exact hst
    · cases v with
      | node k a ks s =>
        have hv := NoP_node.1 hv
        dsimp only
        have hfold := foldl_RegInv (fun (acc : RegState × List TV) c =>
            ((register fuel acc.1 c).1, acc.2 ++ [(register fuel acc.1 c).2]))
          (fun acc c hacc hc => ih acc.1 c hacc hc) ks (st, []) hst hv.2
        intro t ht
        simp only [List.mem_append, List.mem_singleton] at ht
        rcases ht with ht | rfl
        · exact hfold t ht
        · simp only [TV.kind]
          intro hk
          have := hv.1
          simp [hk] at this

theorem registerAll_RegInv (vs : List SV) (hvs : ∀ v ∈ vs, NoSS v) : RegInv (registerAll vs) := by
  unfold registerAll
  have : ∀ (l : List SV) (st : RegState), RegInv st → (∀ v ∈ l, NoSS v) →
      RegInv (l.foldl (fun st v => (register (nodeCount v + 1) st v).1) st) := by
    intro l
    induction l with
    | nil => intro st hst _; exact hst
    | cons v l ih =>
      intro st hst hl
      simp only [List.foldl_cons]
      exact ih _ (register_RegInv _ st v hst (hl v (by simp))) (fun x hx => hl x (by simp [hx]))
  exact this vs {} (by intro t ht; cases ht) hvs

theorem isConstSlot_none (t : TV) (ht : t.kind ≠ .storageSlot) : isConstSlot t = none := by
  unfold isConstSlot
  split
  · simp [TV.kind] at ht
  · rfl

theorem layoutEntries_nil (typeOf : Nat → Except RErr TE) (fuel : Nat) :
    ∀ vs : List TV, (∀ t ∈ vs, t.kind ≠ .storageSlot) → layoutEntries typeOf fuel vs = .ok []
  | [], _ => rfl
  | t :: vs, h => by
    simp only [layoutEntries, isConstSlot_none t (h t (by simp))]
    exact layoutEntries_nil typeOf fuel vs (fun x hx => h x (by simp [hx]))

theorem uniqueSV_mem (vs : List SV) : ∀ x ∈ uniqueSV vs, x ∈ vs := by
  unfold uniqueSV
  have : ∀ (l acc : List SV) (x : SV),
      x ∈ l.foldl (fun acc v => if acc.any (fun x => x.beq v) then acc else acc ++ [v]) acc →
      x ∈ acc ∨ x ∈ l := by
    intro l
    induction l with
    | nil => intro acc x hx; exact Or.inl hx
    | cons v l ih =>
      intro acc x hx
      simp only [List.foldl_cons] at hx
      rcases ih _ x hx with h | h
      · split at h
        · exact Or.inl h
        · simp only [List.mem_append, List.mem_singleton] at h
          rcases h with h | h
          · exact Or.inl h
          · exact Or.inr (by simp [h])
      · exact Or.inr (by simp [h])
  intro x hx
  rcases this vs [] x hx with h | h
  · cases h
  · exact h

theorem liftValues_mem (h : HashCtx) :
    ∀ (l r : List SV), liftValues h l = .ok r → ∀ y ∈ r, ∃ v ∈ l, liftAll h v = .ok y
  | [], r, hr => by
    simp only [liftValues] at hr
    cases hr
    simp
  | v :: l, r, hr => by
    simp only [liftValues] at hr
    split at hr
    · cases hr
    · rename_i v' hv'
      split at hr
      · cases hr
      · rename_i r' hr'
        cases hr
        intro y hy
        simp only [List.mem_cons] at hy
        rcases hy with rfl | hy
        · exact ⟨v, by simp, hv'⟩
        · obtain ⟨x, hx, hxy⟩ := liftValues_mem h l r' hr' y hy
          exact ⟨x, by simp [hx], hxy⟩

/-! ### the target theorems -/

/-- L1 (C01): on raw values the lifting passes never reach a panic site. -/
theorem lift_total (h : HashCtx) (v : SV) (hraw : Raw v) : ∃ v', liftAll h v = .ok v' := by
  obtain ⟨v4, hv4, h4⟩ := stage4_ok h v hraw
  obtain ⟨v6, hv6⟩ := liftPacked_total (cnt (stage5 v4)) (stage5 v4)
    (insertMulShifts_Good5 _ _ h4)
  exact ⟨stage9 v6, by rw [liftAll_eq, hv4]; dsimp only; rw [hv6]⟩

/-- L2 (C12): every sub-word / shifted span of a lifted value lies inside the 256-bit word. -/
theorem lift_spans (h : HashCtx) (v v' : SV) (hraw : Raw v) :
    liftAll h v = .ok v' → spansInWord v' = true := by
  intro hv
  obtain ⟨v4, v6, hv4, h4, hv6, rfl⟩ := liftAll_ok_inv h v v' hraw hv
  have h5 : NoP bad2 (stage5 v4) := Good5_bad2 _ (insertMulShifts_Good5 _ _ h4)
  have h6 : NoP bad2 v6 := liftPacked_NoP (fun _ => rfl) _ _ _ h5 hv6
  have h9 : NoP bad2 (stage9 v6) := stage9_NoP (fun _ => rfl) rfl rfl (fun _ => rfl) v6 h6
  exact congrArg Bool.not h9

/-- L3 (C05): a value without storage accesses gets no storage slot. -/
theorem lift_storage_free (h : HashCtx) (v v' : SV) (hraw : Raw v) (hfree : StorageFree v) :
    liftAll h v = .ok v' → anyNode (fun k _ _ => k == .storageSlot) v' = false := by
  intro hv
  obtain ⟨v4, v6, hv4, _, hv6, rfl⟩ := liftAll_ok_inv h v v' hraw hv
  have hst : ∀ k a, isStorageKind k = true → slotSource k a = true := by
    intro k a hk; simp [slotSource, hk]
  have h0 : NoP slotSource v := Raw_free_slotSource v hraw hfree
  have h3 : NoP slotSource (stage3 h v) := stage3_free h (fun _ => rfl) rfl hst v h0
  have h4 : NoP slotSource v4 := insertSubWords_NoP (fun _ _ _ _ => rfl) _ _ _ h3 hv4
  have h5 : NoP slotSource (stage5 v4) := insertMulShifts_NoP (fun _ => rfl) _ _ h4
  have h6 : NoP slotSource v6 := liftPacked_NoP (fun _ => rfl) _ _ _ h5 hv6
  have h7 : NoP slotSource (stage7 v6) := guarded_NoP_free _ hst _ _ h6
  have h8 : NoP slotSource (stage8 v6) := insertStorageSlots_none _ _ h7
  have h8' : NoP (fun k _ => k == .storageSlot) (stage8 v6) :=
    NoP_mono (fun k a hk => by simp only [beq_iff_eq] at hk; subst hk; rfl) h8
  exact insertMappingOffset_NoP (fun _ => rfl) _ _ h8'

/-- L4 (C05): storage-free input gives the empty layout. -/
theorem storage_free_empty (h : HashCtx) (o : Unify.Orders) (fuel : Nat) (vs : List SV) (l)
    (hraw : ∀ v ∈ vs, Raw v) (hfree : ∀ v ∈ vs, StorageFree v) :
    (analyse h o fuel vs).outcome = .layout l → l = [] := by
  intro hl
  unfold analyse at hl
  split at hl
  · cases hl
  · rename_i lifted hlifted
    have hno : ∀ y ∈ lifted, NoSS y := by
      intro y hy
      obtain ⟨v, hv, hvy⟩ := liftValues_mem h _ _ hlifted y hy
      have hv' := uniqueSV_mem vs v hv
      exact lift_storage_free h v y (hraw v hv') (hfree v hv') hvy
    have hinv := registerAll_RegInv lifted hno
    dsimp only at hl
    split at hl
    · cases hl
    · rw [layoutEntries_nil _ _ _ hinv] at hl
      dsimp only at hl
      cases hl
      rfl

end SLE.LiftInv

#print axioms SLE.LiftInv.lift_total
#print axioms SLE.LiftInv.lift_spans
#print axioms SLE.LiftInv.lift_storage_free
#print axioms SLE.LiftInv.storage_free_empty
