import SLE.Model.VMOps
import SLE.Spec.EvalC
/-
C07 at the model level: the data effect of one instruction of the symbolic machine (`execOp`)
against the concrete reference EVM (`SLE/Spec/EVM.lean`), through `EvalC.evalSV`.

T1  `alu_template_sound/_complete/_correct`, `unary_template_correct`: the template table maps the
    19 binary and 2 unary ALU opcodes without recorded defects to the right node, operands in the
    right order.
T2  `signextend_/addmod_/mulmod_/byte_template_wrong` (witnesses of the recorded defects) and
    `byte_template_correct_partial` (BYTE is right for an index below 2^253).
T3  `push_sim`, `dup_sim`, `swap_sim`, `pop_sim`, `pc_sim`, `codesize_sim`: stack instructions
    against the reference stack updates `refPush/refDup/refSwap/refPop`.
T4  `sload_after_sstore`, `sload_other_key`, `sload_fresh`, `sstore_appends`, `mload_after_mstore`,
    `mload_other_offset_partial`, `mload_fresh`.
T5  `step_sim_partial`: the relation `Rel` is preserved by `execOp` against one step `refStep` of
    the reference machine; `explore_refStep(_push)` shows `refStep` is the body of `EVM.explore`.
-/
namespace SLE.EvmSim
open SLE SLE.SV SLE.VM SLE.EvalC

/-! ## the shapes of the templates -/

/-- the template leaf standing for argument `i` -/
def arg (i : Nat) : SV := .node .value [i] [] 0
/-- the template of a plain binary opcode: `k(arg 0, arg 1)` -/
def bin (k : Kind) : SV := .node k [] [arg 0, arg 1] 0
/-- the template of a plain unary opcode -/
def un (k : Kind) : SV := .node k [] [arg 0] 0

macro "tpl_eval" : tactic =>
  `(tactic| simp [templateOf, opcodeTemplates, unflatten, unflatten.kidsLoop, Kind.all, bin, un, arg])

theorem t01 : templateOf 0x01 = some (2, bin .add) := by tpl_eval
theorem t02 : templateOf 0x02 = some (2, bin .multiply) := by tpl_eval
theorem t03 : templateOf 0x03 = some (2, bin .subtract) := by tpl_eval
theorem t04 : templateOf 0x04 = some (2, bin .divide) := by tpl_eval
theorem t05 : templateOf 0x05 = some (2, bin .signedDivide) := by tpl_eval
theorem t06 : templateOf 0x06 = some (2, bin .modulo) := by tpl_eval
theorem t07 : templateOf 0x07 = some (2, bin .signedModulo) := by tpl_eval
theorem t0a : templateOf 0x0a = some (2, bin .exp) := by tpl_eval
theorem t10 : templateOf 0x10 = some (2, bin .lessThan) := by tpl_eval
theorem t11 : templateOf 0x11 = some (2, bin .greaterThan) := by tpl_eval
theorem t12 : templateOf 0x12 = some (2, bin .signedLessThan) := by tpl_eval
theorem t13 : templateOf 0x13 = some (2, bin .signedGreaterThan) := by tpl_eval
theorem t14 : templateOf 0x14 = some (2, bin .equals) := by tpl_eval
theorem t15 : templateOf 0x15 = some (1, un .isZero) := by tpl_eval
theorem t16 : templateOf 0x16 = some (2, bin .and_) := by tpl_eval
theorem t17 : templateOf 0x17 = some (2, bin .or_) := by tpl_eval
theorem t18 : templateOf 0x18 = some (2, bin .xor_) := by tpl_eval
theorem t19 : templateOf 0x19 = some (1, un .not_) := by tpl_eval
theorem t1b : templateOf 0x1b = some (2, bin .leftShift) := by tpl_eval
theorem t1c : templateOf 0x1c = some (2, bin .rightShift) := by tpl_eval
theorem t1d : templateOf 0x1d = some (2, bin .arithmeticRightShift) := by tpl_eval
theorem t0b : templateOf 0x0b = some (2, .node .signExtend [] [arg 1, arg 0] 0) := by tpl_eval
theorem t08 : templateOf 0x08 = some (3, .node .modulo [] [.node .add [] [arg 0, arg 1] 0, arg 2] 0) := by tpl_eval
theorem t09 : templateOf 0x09 = some (3, .node .modulo [] [.node .multiply [] [arg 0, arg 1] 0, arg 2] 0) := by tpl_eval
theorem t1a : templateOf 0x1a = some (2, .node .and_ [] [.node .rightShift [] [.node .subtract [] [.node .knownData [248] [] 0, .node .multiply [] [arg 0, .node .knownData [8] [] 0] 0] 0, arg 1] 0, .node .knownData [255] [] 0] 0) := by tpl_eval

theorem inst_bin (c : Ctx) (k : Kind) (hk : k ≠ .value) (hk' : k ≠ .callData) (a0 a1 : SV) (ctr : Nat) :
    instantiate c [a0, a1] (bin k) ctr = build c ctr k [] [a0, a1] := by
  simp [bin, arg, instantiate, instantiate.go, hk, hk']

theorem inst_un (c : Ctx) (k : Kind) (hk : k ≠ .value) (hk' : k ≠ .callData) (a0 : SV) (ctr : Nat) :
    instantiate c [a0] (un k) ctr = build c ctr k [] [a0] := by
  simp [un, arg, instantiate, instantiate.go, hk, hk']

theorem evalSV_value (a : List Nat) (ks : List SV) (s : Nat) : evalSV (.node .value a ks s) = none := by
  simp [evalSV]


/-! ## T1 -/

def aluOk : List Nat := [0x01,0x02,0x03,0x04,0x05,0x06,0x07,0x0a,0x10,0x11,0x12,0x13,0x14,0x16,0x17,0x18,0x1b,0x1c,0x1d]

theorem childSize2 (a0 a1 : SV) : childSize [a0, a1] = a0.recSize + a1.recSize := by
  simp [childSize]

theorem childSize1 (a0 : SV) : childSize [a0] = a0.recSize := by
  simp [childSize]

theorem evalList2 {a0 a1 : SV} {x y : Nat} (h0 : evalSV a0 = some x) (h1 : evalSV a1 = some y) :
    evalList [a0, a1] = some [x, y] := by
  simp [EvalC.evalList, h0, h1]

theorem evalList1 {a0 : SV} {x : Nat} (h0 : evalSV a0 = some x) :
    evalList [a0] = some [x] := by
  simp [EvalC.evalList, h0]

/-- the node built for a binary operator: culled, or the plain node -/
theorem build_cases (c : Ctx) (ctr : Nat) (k : Kind) (ks : List SV) :
    ((build c ctr k [] ks).1 = .node .value [mkId c.ip ctr] [] 1 ∧ childSize ks + 1 > c.cfg.valueLimit) ∨
    ((build c ctr k [] ks).1 = .node k [] ks (childSize ks + 1) ∧ childSize ks + 1 ≤ c.cfg.valueLimit) := by
  simp only [build, SV.mk]
  split
  · left; exact ⟨rfl, by assumption⟩
  · right; exact ⟨rfl, by omega⟩

theorem alu_template_sound (b : Nat) (hb : b ∈ aluOk) (c : Ctx) (ctr : Nat) (a0 a1 : SV) (x y : Nat)
    (h0 : evalSV a0 = some x) (h1 : evalSV a1 = some y) (tpl : SV)
    (ht : templateOf b = some (2, tpl)) (r : Nat)
    (hr : evalSV (instantiate c [a0, a1] tpl ctr).1 = some r) :
    some r = (EVM.binOp {} b).map (fun f => f x y) := by
  have hl := evalList2 h0 h1
  simp only [aluOk, List.mem_cons, List.not_mem_nil, or_false] at hb
  rcases hb with rfl | rfl | rfl | rfl | rfl | rfl | rfl | rfl | rfl | rfl | rfl | rfl | rfl | rfl | rfl | rfl | rfl | rfl | rfl
  all_goals
    first
      | rw [t01] at ht | rw [t02] at ht | rw [t03] at ht | rw [t04] at ht | rw [t05] at ht
      | rw [t06] at ht | rw [t07] at ht | rw [t0a] at ht | rw [t10] at ht | rw [t11] at ht
      | rw [t12] at ht | rw [t13] at ht | rw [t14] at ht | rw [t16] at ht | rw [t17] at ht
      | rw [t18] at ht | rw [t1b] at ht | rw [t1c] at ht | rw [t1d] at ht
  all_goals
    obtain rfl : _ = tpl := by simpa using ht
    rw [inst_bin c _ (by decide) (by decide)] at hr
    rcases build_cases c ctr _ [a0, a1] with ⟨he, _⟩ | ⟨he, _⟩
    · rw [he, evalSV_value] at hr; cases hr
    · rw [he] at hr
      simp only [evalSV, hl] at hr
      simp [EVM.binOp, ← hr]

theorem alu_template_complete (b : Nat) (hb : b ∈ aluOk) (c : Ctx) (ctr : Nat) (a0 a1 : SV) (x y : Nat)
    (h0 : evalSV a0 = some x) (h1 : evalSV a1 = some y) (tpl : SV)
    (ht : templateOf b = some (2, tpl))
    (hlim : a0.recSize + a1.recSize + 1 ≤ c.cfg.valueLimit) :
    evalSV (instantiate c [a0, a1] tpl ctr).1 = (EVM.binOp {} b).map (fun f => f x y) := by
  have hl := evalList2 h0 h1
  simp only [aluOk, List.mem_cons, List.not_mem_nil, or_false] at hb
  rcases hb with rfl | rfl | rfl | rfl | rfl | rfl | rfl | rfl | rfl | rfl | rfl | rfl | rfl | rfl | rfl | rfl | rfl | rfl | rfl
  all_goals
    first
      | rw [t01] at ht | rw [t02] at ht | rw [t03] at ht | rw [t04] at ht | rw [t05] at ht
      | rw [t06] at ht | rw [t07] at ht | rw [t0a] at ht | rw [t10] at ht | rw [t11] at ht
      | rw [t12] at ht | rw [t13] at ht | rw [t14] at ht | rw [t16] at ht | rw [t17] at ht
      | rw [t18] at ht | rw [t1b] at ht | rw [t1c] at ht | rw [t1d] at ht
  all_goals
    obtain rfl : _ = tpl := by simpa using ht
    rw [inst_bin c _ (by decide) (by decide)]
    rcases build_cases c ctr _ [a0, a1] with ⟨_, hgt⟩ | ⟨he, _⟩
    · rw [childSize2] at hgt; omega
    · rw [he]
      simp only [evalSV, hl]
      simp [EVM.binOp]

/-- T1: both halves together. -/
theorem alu_template_correct (b : Nat) (hb : b ∈ aluOk) (c : Ctx) (ctr : Nat) (a0 a1 : SV) (x y : Nat)
    (h0 : evalSV a0 = some x) (h1 : evalSV a1 = some y) (tpl : SV)
    (ht : templateOf b = some (2, tpl)) :
    (∀ r, evalSV (instantiate c [a0, a1] tpl ctr).1 = some r →
        some r = (EVM.binOp {} b).map (fun f => f x y)) ∧
    (a0.recSize + a1.recSize + 1 ≤ c.cfg.valueLimit →
        evalSV (instantiate c [a0, a1] tpl ctr).1 = (EVM.binOp {} b).map (fun f => f x y)) :=
  ⟨fun r hr => alu_template_sound b hb c ctr a0 a1 x y h0 h1 tpl ht r hr,
   fun hlim => alu_template_complete b hb c ctr a0 a1 x y h0 h1 tpl ht hlim⟩

/-- the reference machine's unary operators (`EVM.explore` handles 0x15/0x19 inline) -/
def unOp (b : Nat) : Option (Nat → Nat) :=
  if b = 0x15 then some EVM.iszero else if b = 0x19 then some EVM.not else none

theorem unary_template_correct (b : Nat) (hb : b = 0x15 ∨ b = 0x19) (c : Ctx) (ctr : Nat) (a0 : SV) (x : Nat)
    (h0 : evalSV a0 = some x) (tpl : SV) (ht : templateOf b = some (1, tpl)) :
    (∀ r, evalSV (instantiate c [a0] tpl ctr).1 = some r →
        r = (if b = 0x15 then EVM.iszero x else EVM.not x)) ∧
    (a0.recSize + 1 ≤ c.cfg.valueLimit →
        evalSV (instantiate c [a0] tpl ctr).1 = some (if b = 0x15 then EVM.iszero x else EVM.not x)) := by
  have hl := evalList1 h0
  rcases hb with rfl | rfl
  all_goals
    first | rw [t15] at ht | rw [t19] at ht
  all_goals
    obtain rfl : _ = tpl := by simpa using ht
    rw [inst_un c _ (by decide) (by decide)]
    rcases build_cases c ctr _ [a0] with ⟨he, hgt⟩ | ⟨he, _⟩
    · rw [childSize1] at hgt
      rw [he, evalSV_value]
      exact ⟨fun r hr => (by cases hr), fun h => (by omega)⟩
    · rw [he]
      simp only [evalSV, hl]
      simp

/-! ## T2 -/

/-- a context with a generous value-size limit -/
def bigCtx : Ctx := ⟨⟨0, 0, 0, 1000, 0, false⟩, 0, 0⟩

theorem signextend_template_wrong :
    ∃ x y a0 a1 c ctr tpl, evalSV a0 = some x ∧ evalSV a1 = some y ∧
      templateOf 0x0b = some (2, tpl) ∧
      evalSV (instantiate c [a0, a1] tpl ctr).1 ≠ some (EVM.signextend x y) := by
  refine ⟨0, 0xff, mkKnown 0, mkKnown 0xff, bigCtx, 0, _, ?_, ?_, t0b, ?_⟩
  · simp [mkKnown, evalSV]
  · simp [mkKnown, evalSV]
  · simp [instantiate, instantiate.go, arg, build, SV.mk, childSize, mkKnown, recSize, bigCtx,
      evalSV, EvalC.evalList]
    decide

theorem addmod_template_wrong :
    ∃ x y n a0 a1 a2 c ctr tpl, evalSV a0 = some x ∧ evalSV a1 = some y ∧ evalSV a2 = some n ∧
      templateOf 0x08 = some (3, tpl) ∧
      evalSV (instantiate c [a0, a1, a2] tpl ctr).1 ≠ (EVM.terOp {} 0x08).map (fun f => f x y n) := by
  refine ⟨2 ^ 256 - 1, 1, 3, .node .knownData [2 ^ 256 - 1] [] 1, mkKnown 1, mkKnown 3, bigCtx, 0, _,
    ?_, ?_, ?_, t08, ?_⟩
  · simp [evalSV]
  · simp [mkKnown, evalSV]
  · simp [mkKnown, evalSV]
  · simp [instantiate, instantiate.go, arg, build, SV.mk, childSize, mkKnown, recSize, bigCtx,
      evalSV, EvalC.evalList, EVM.terOp]
    decide

theorem mulmod_template_wrong :
    ∃ x y n a0 a1 a2 c ctr tpl, evalSV a0 = some x ∧ evalSV a1 = some y ∧ evalSV a2 = some n ∧
      templateOf 0x09 = some (3, tpl) ∧
      evalSV (instantiate c [a0, a1, a2] tpl ctr).1 ≠ (EVM.terOp {} 0x09).map (fun f => f x y n) := by
  refine ⟨2 ^ 255, 2, 3, .node .knownData [2 ^ 255] [] 1, mkKnown 2, mkKnown 3, bigCtx, 0, _,
    ?_, ?_, ?_, t09, ?_⟩
  · simp [evalSV]
  · simp [mkKnown, evalSV]
  · simp [mkKnown, evalSV]
  · simp [instantiate, instantiate.go, arg, build, SV.mk, childSize, mkKnown, recSize, bigCtx,
      evalSV, EvalC.evalList, EVM.terOp]
    decide

theorem byte_template_wrong :
    ∃ i x a0 a1 c ctr tpl, evalSV a0 = some i ∧ evalSV a1 = some x ∧
      templateOf 0x1a = some (2, tpl) ∧
      evalSV (instantiate c [a0, a1] tpl ctr).1 ≠ (EVM.binOp {} 0x1a).map (fun f => f i x) := by
  refine ⟨2 ^ 253, 2 ^ 255, .node .knownData [2 ^ 253] [] 1, .node .knownData [2 ^ 255] [] 1, bigCtx, 0, _,
    ?_, ?_, t1a, ?_⟩
  · simp [evalSV]
  · simp [evalSV]
  · simp [instantiate, instantiate.go, arg, build, SV.mk, childSize, recSize, bigCtx,
      evalSV, EvalC.evalList, EVM.binOp]
    decide

theorem evalSV_size_irrel (k : Kind) (a : List Nat) (ks : List SV) (s s' : Nat) :
    evalSV (.node k a ks s) = evalSV (.node k a ks s') := by
  simp [evalSV]

/-- the node built by `build`: culled (and then not evaluable), or the plain node -/
theorem build_cases' (c : Ctx) (ctr : Nat) (k : Kind) (a : List Nat) (ks : List SV) :
    (evalSV (build c ctr k a ks).1 = none ∧ childSize ks + 1 > c.cfg.valueLimit) ∨
    (evalSV (build c ctr k a ks).1 = evalSV (.node k a ks 0) ∧ childSize ks + 1 ≤ c.cfg.valueLimit ∧
      (build c ctr k a ks).1.recSize = childSize ks + 1) := by
  simp only [build, SV.mk]
  split
  · left; exact ⟨evalSV_value .., by assumption⟩
  · right; exact ⟨evalSV_size_irrel .., by omega, rfl⟩

theorem build_snd (c : Ctx) (ctr : Nat) (k : Kind) (a : List Nat) (ks : List SV) :
    (build c ctr k a ks).2 = ctr + 1 := rfl

theorem evalSV_known (w : Nat) (a : List Nat) (ks : List SV) (s : Nat) :
    evalSV (.node .knownData (w :: a) ks s) = some w := by
  simp [evalSV]

/-- inversion: an evaluable binary operator node has evaluable kids -/
theorem evalSV_bin_inv {k : Kind} (hk : k ≠ .knownData) (hk' : k ≠ .unwrittenStorageValue)
    {a : List Nat} {p q : SV} {s r : Nat}
    (h : evalSV (.node k a [p, q] s) = some r) : ∃ u v, evalSV p = some u ∧ evalSV q = some v := by
  cases hp : evalSV p with
  | none => cases k <;> simp [evalSV, EvalC.evalList, hp] at h hk hk'
  | some u =>
    cases hq : evalSV q with
    | none => cases k <;> simp [evalSV, EvalC.evalList, hp, hq] at h hk hk'
    | some v => exact ⟨u, v, rfl, rfl⟩


theorem and_255 (z : Nat) : z &&& 255 = z % 256 := by
  have := Nat.and_two_pow_sub_one_eq_mod z 8
  simpa using this

theorem byte_arith (i x : Nat) (hi : i < 2 ^ 253) :
    EVM.and (EVM.shr (EVM.sub 248 (EVM.mul i 8)) x) 255 = EVM.byte i x := by
  have hW : EVM.W = 8 * 2 ^ 253 := by decide
  unfold EVM.and EVM.shr EVM.sub EVM.mul EVM.byte
  rw [and_255]
  have hm : i * 8 % EVM.W = i * 8 := Nat.mod_eq_of_lt (by omega)
  rw [hm]
  by_cases h32 : i < 32
  · have hs : (248 + EVM.W - i * 8) % EVM.W = 248 - i * 8 := by
      have : 248 + EVM.W - i * 8 = (248 - i * 8) + EVM.W := by omega
      rw [this, Nat.add_mod_right]; exact Nat.mod_eq_of_lt (by omega)
    rw [hs, if_pos (by omega), if_pos h32]
    have : 248 - i * 8 = 8 * (31 - i) := by omega
    rw [this]
  · have hs : (248 + EVM.W - i * 8) % EVM.W = 248 + EVM.W - i * 8 := Nat.mod_eq_of_lt (by omega)
    rw [hs, if_neg (by omega), if_neg h32]

/-- soundness of one `build` of a binary operator node -/
theorem build_bin_sound {c : Ctx} {ctr : Nat} {k : Kind} (hk : k ≠ .knownData)
    (hk' : k ≠ .unwrittenStorageValue) {p q : SV} {r : Nat}
    (h : evalSV (build c ctr k [] [p, q]).1 = some r) :
    ∃ u v, evalSV p = some u ∧ evalSV q = some v ∧ evalSV (.node k [] [p, q] 0) = some r := by
  rcases build_cases' c ctr k [] [p, q] with ⟨he, _⟩ | ⟨he, _⟩
  · rw [he] at h; cases h
  · rw [he] at h
    obtain ⟨u, v, hu, hv⟩ := evalSV_bin_inv hk hk' h
    exact ⟨u, v, hu, hv, h⟩

theorem build_known_sound {c : Ctx} {ctr w r : Nat}
    (h : evalSV (build c ctr .knownData [w] []).1 = some r) : r = w := by
  rcases build_cases' c ctr .knownData [w] [] with ⟨he, _⟩ | ⟨he, _⟩
  · rw [he] at h; cases h
  · rw [he, evalSV_known] at h; cases h; rfl

/-- completeness of one `build` -/
theorem build_ok {c : Ctx} {ctr : Nat} {k : Kind} {a : List Nat} {ks : List SV}
    (h : childSize ks + 1 ≤ c.cfg.valueLimit) :
    evalSV (build c ctr k a ks).1 = evalSV (.node k a ks 0) ∧
    (build c ctr k a ks).1.recSize = childSize ks + 1 := by
  rcases build_cases' c ctr k a ks with ⟨_, hgt⟩ | ⟨he, _, hs⟩
  · omega
  · exact ⟨he, hs⟩

def byteTpl : SV := .node .and_ [] [.node .rightShift [] [.node .subtract [] [.node .knownData [248] [] 0, .node .multiply [] [arg 0, .node .knownData [8] [] 0] 0] 0, arg 1] 0, .node .knownData [255] [] 0] 0

theorem inst_byte (c : Ctx) (a0 a1 : SV) (ctr : Nat) :
    (instantiate c [a0, a1] byteTpl ctr).1 =
      (build c (ctr + 6) .and_ []
        [(build c (ctr + 4) .rightShift []
          [(build c (ctr + 3) .subtract []
            [(build c ctr .knownData [248] []).1,
             (build c (ctr + 2) .multiply [] [a0, (build c (ctr + 1) .knownData [8] []).1]).1]).1,
           a1]).1,
         (build c (ctr + 5) .knownData [255] []).1]).1 := by
  simp [byteTpl, instantiate, instantiate.go, arg, build]

theorem byte_template_correct_partial (i x : Nat) (hi : i < 2 ^ 253) (c : Ctx) (ctr : Nat) (a0 a1 : SV)
    (h0 : evalSV a0 = some i) (h1 : evalSV a1 = some x) (tpl : SV)
    (ht : templateOf 0x1a = some (2, tpl)) :
    (∀ r, evalSV (instantiate c [a0, a1] tpl ctr).1 = some r →
        some r = (EVM.binOp {} 0x1a).map (fun f => f i x)) ∧
    (a0.recSize + a1.recSize + 7 ≤ c.cfg.valueLimit →
        evalSV (instantiate c [a0, a1] tpl ctr).1 = (EVM.binOp {} 0x1a).map (fun f => f i x)) := by
  rw [t1a] at ht
  obtain rfl : byteTpl = tpl := by simpa [byteTpl] using ht
  rw [inst_byte]
  have hop : (EVM.binOp {} 0x1a).map (fun f => f i x) = some (EVM.byte i x) := by simp [EVM.binOp]
  rw [hop]
  constructor
  · intro r hr
    obtain ⟨u1, v1, hu1, hv1, e1⟩ := build_bin_sound (by decide) (by decide) hr
    have := build_known_sound hv1; subst this
    obtain ⟨u2, v2, hu2, hv2, e2⟩ := build_bin_sound (by decide) (by decide) hu1
    rw [h1] at hv2; cases hv2
    obtain ⟨u3, v3, hu3, hv3, e3⟩ := build_bin_sound (by decide) (by decide) hu2
    have := build_known_sound hu3; subst this
    obtain ⟨u4, v4, hu4, hv4, e4⟩ := build_bin_sound (by decide) (by decide) hv3
    have := build_known_sound hv4; subst this
    rw [h0] at hu4; cases hu4
    simp only [evalSV, EvalC.evalList, h0, hv4, Option.some.injEq] at e4
    simp only [evalSV, EvalC.evalList, hu3, hv3, Option.some.injEq] at e3
    simp only [evalSV, EvalC.evalList, hu2, h1, Option.some.injEq] at e2
    simp only [evalSV, EvalC.evalList, hu1, hv1, Option.some.injEq] at e1
    rw [← e1, ← e2, ← e3, ← e4, byte_arith i x hi]
  · intro hlim
    have hk (w n : Nat) : evalSV (build c n .knownData [w] []).1 = some w ∧
        (build c n .knownData [w] []).1.recSize = 1 := by
      have := @build_ok c n .knownData [w] [] (by simp [childSize]; omega)
      rw [evalSV_known] at this; simpa [childSize] using this
    obtain ⟨e248, s248⟩ := hk 248 ctr
    obtain ⟨e8, s8⟩ := hk 8 (ctr + 1)
    obtain ⟨e255, s255⟩ := hk 255 (ctr + 5)
    obtain ⟨em, sm⟩ := @build_ok c (ctr + 2) .multiply [] [a0, (build c (ctr + 1) .knownData [8] []).1]
      (by simp [childSize, s8]; omega)
    obtain ⟨es, ss⟩ := @build_ok c (ctr + 3) .subtract []
      [(build c ctr .knownData [248] []).1,
       (build c (ctr + 2) .multiply [] [a0, (build c (ctr + 1) .knownData [8] []).1]).1]
      (by simp [childSize, s8, s248, sm]; omega)
    obtain ⟨er, sr⟩ := @build_ok c (ctr + 4) .rightShift []
      [(build c (ctr + 3) .subtract []
            [(build c ctr .knownData [248] []).1,
             (build c (ctr + 2) .multiply [] [a0, (build c (ctr + 1) .knownData [8] []).1]).1]).1,
           a1]
      (by simp [childSize, s8, s248, sm, ss]; omega)
    obtain ⟨ea, _⟩ := @build_ok c (ctr + 6) .and_ []
        [(build c (ctr + 4) .rightShift []
          [(build c (ctr + 3) .subtract []
            [(build c ctr .knownData [248] []).1,
             (build c (ctr + 2) .multiply [] [a0, (build c (ctr + 1) .knownData [8] []).1]).1]).1,
           a1]).1,
         (build c (ctr + 5) .knownData [255] []).1]
      (by simp [childSize, s8, s248, sm, ss, sr, s255]; omega)
    simp only [evalSV, EvalC.evalList, h0, e8] at em
    simp only [evalSV, EvalC.evalList, e248, em] at es
    simp only [evalSV, EvalC.evalList, es, h1] at er
    simp only [evalSV, EvalC.evalList, er, e255] at ea
    rw [ea, byte_arith i x hi]

/-! ## T3: stack instructions -/

/-- outcome of a reference stack update -/
inductive SRes (α : Type) where
  | ok (st : List α) | underflow | overflow

/-- the reference machine's stack updates (`EVM.explore`: `pushStack`, the DUP/SWAP/POP clauses),
polymorphic in the entry type so that they apply to `List Nat` and to `d.stack.map evalSV` -/
def refPush {α : Type} (v : α) (st : List α) : SRes α :=
  if st.length + 1 > 1024 then .overflow else .ok (v :: st)
def refDup {α : Type} (n : Nat) (st : List α) : SRes α :=
  match st[n]? with
  | some v => refPush v st
  | none => .underflow
def refSwap {α : Type} (n : Nat) (st : List α) : SRes α :=
  match st, st[n]? with
  | top :: _, some v => .ok ((st.set n top).set 0 v)
  | _, _ => .underflow
def refPop {α : Type} (st : List α) : SRes α :=
  match st with
  | _ :: r => .ok r
  | [] => .underflow

/-- the symbolic step agrees with a reference stack outcome: no error and the same stack of
values, or an error exactly when the reference machine underflows or overflows -/
def StackSim (o : OpOut) : SRes (Option Nat) → Prop
  | .ok st => o.err = none ∧ o.d.stack.map evalSV = st
  | .underflow => o.err = some .noSuchStackFrame
  | .overflow => o.err = some .stackDepthExceeded

/-- big-endian value of push data -/
def beVal (data : List Nat) : Nat := data.foldl (fun acc b => acc * 256 + b) 0

theorem pushOut_eq (d : TData) (ctr : Nat) (v : SV) :
    pushOut d ctr v = if d.stack.length + 1 > 1024 then fail d ctr .stackDepthExceeded
      else { d := { d with stack := v :: d.stack }, ctr := ctr } := by
  by_cases h : d.stack.length + 1 > 1024 <;> simp [pushOut, push, maxStack, h]

theorem pushOut_sim (d : TData) (ctr : Nat) (v : SV) :
    StackSim (pushOut d ctr v) (refPush (evalSV v) (d.stack.map evalSV)) := by
  rw [pushOut_eq]; unfold refPush
  simp only [List.length_map]
  split
  · rfl
  · exact ⟨rfl, rfl⟩

theorem buildKnown_eval_sound (c : Ctx) (ctr : Nat) (w : Word) (r : Nat)
    (h : evalSV (buildKnown c ctr w).1 = some r) : r = w.toNat :=
  build_known_sound h

theorem buildKnown_eval (c : Ctx) (ctr : Nat) (w : Word) (hlim : 1 ≤ c.cfg.valueLimit) :
    evalSV (buildKnown c ctr w).1 = some w.toNat := by
  have := (@build_ok c ctr .knownData [w.toNat] [] (by simpa [childSize] using hlim)).1
  rw [evalSV_known] at this; exact this

theorem execOp_push (c : Ctx) (code : List Disasm.Instr) (n : Nat) (data : List Nat) (d : TData) (ctr : Nat) :
    execOp c code (.push n data) d ctr =
      pushOut d (ctr + 1) (buildKnown c ctr (BitVec.ofNat 256 (beVal data))).1 := rfl

theorem push_sim_partial (c : Ctx) (code : List Disasm.Instr) (n : Nat) (data : List Nat) (d : TData)
    (ctr : Nat) (hlim : 1 ≤ c.cfg.valueLimit) :
    StackSim (execOp c code (.push n data) d ctr)
      (refPush (some (beVal data % 2 ^ 256)) (d.stack.map evalSV)) := by
  rw [execOp_push]
  have := pushOut_sim d (ctr + 1) (buildKnown c ctr (BitVec.ofNat 256 (beVal data))).1
  rwa [buildKnown_eval c ctr _ hlim, BitVec.toNat_ofNat] at this

/-- without the side condition: the pushed tree is never *wrong* -/
theorem push_sim_sound (c : Ctx) (code : List Disasm.Instr) (n : Nat) (data : List Nat) (d : TData)
    (ctr : Nat) :
    ∃ v, StackSim (execOp c code (.push n data) d ctr) (refPush (evalSV v) (d.stack.map evalSV)) ∧
      ∀ r, evalSV v = some r → r = beVal data % 2 ^ 256 := by
  refine ⟨(buildKnown c ctr (BitVec.ofNat 256 (beVal data))).1, ?_, ?_⟩
  · rw [execOp_push]; exact pushOut_sim ..
  · intro r hr
    have := buildKnown_eval_sound _ _ _ _ hr
    rwa [BitVec.toNat_ofNat] at this


theorem execOp_dup (c : Ctx) (code : List Disasm.Instr) (b : Nat) (d : TData) (ctr : Nat)
    (hb : 0x80 ≤ b ∧ b ≤ 0x8f) :
    execOp c code (.op b) d ctr =
      (match dup d (b - 0x80) with | .ok d' => { d := d', ctr := ctr } | .error e => fail d ctr e) := by
  obtain ⟨h1, h2⟩ := hb
  have e0 : (b == 0x00) = false := by simp; omega
  have e1 : (b == 0x5b) = false := by simp; omega
  have e2 : (b == 0xfe) = false := by simp; omega
  have e3 : (0x80 ≤ b && b ≤ 0x8f) = true := by simp; omega
  simp only [execOp, e0, e1, e2, e3]
  cases dup d (b - 128) <;> rfl

theorem dup_eq (d : TData) (n : Nat) :
    dup d n = match d.stack[n]? with
      | some v => push d v
      | none => .error .noSuchStackFrame := by
  unfold dup
  split
  · rename_i h; rw [List.getElem?_eq_none h]
  · rfl

theorem execOp_dup' (c : Ctx) (code : List Disasm.Instr) (b : Nat) (d : TData) (ctr : Nat)
    (hb : 0x80 ≤ b ∧ b ≤ 0x8f) :
    execOp c code (.op b) d ctr =
      match d.stack[b - 0x80]? with
      | some v => pushOut d ctr v
      | none => fail d ctr .noSuchStackFrame := by
  rw [execOp_dup c code b d ctr hb, dup_eq]
  cases d.stack[b - 0x80]? with
  | none => rfl
  | some v => simp only [pushOut]; cases push d v <;> rfl

theorem dup_sim (c : Ctx) (code : List Disasm.Instr) (b : Nat) (d : TData) (ctr : Nat)
    (hb : 0x80 ≤ b ∧ b ≤ 0x8f) :
    StackSim (execOp c code (.op b) d ctr) (refDup (b - 0x80) (d.stack.map evalSV)) := by
  rw [execOp_dup' c code b d ctr hb]
  unfold refDup
  rw [List.getElem?_map]
  cases d.stack[b - 0x80]? with
  | none => rfl
  | some v => exact pushOut_sim d ctr v

theorem execOp_swap (c : Ctx) (code : List Disasm.Instr) (b : Nat) (d : TData) (ctr : Nat)
    (hb : 0x90 ≤ b ∧ b ≤ 0x9f) :
    execOp c code (.op b) d ctr =
      match d.stack, d.stack[b - 0x8f]? with
      | top :: _, some v => { d := { d with stack := (d.stack.set (b - 0x8f) top).set 0 v }, ctr := ctr }
      | _, _ => fail d ctr .noSuchStackFrame := by
  obtain ⟨h1, h2⟩ := hb
  have e0 : (b == 0x00) = false := by simp; omega
  have e1 : (b == 0x5b) = false := by simp; omega
  have e2 : (b == 0xfe) = false := by simp; omega
  have e3 : (0x80 ≤ b && b ≤ 0x8f) = false := by simp; omega
  have e4 : (0x90 ≤ b && b ≤ 0x9f) = true := by simp; omega
  simp only [execOp, e0, e1, e2, e3, e4]
  unfold swap
  cases hs : d.stack with
  | nil => simp [fail]
  | cons top rest =>
    by_cases hlt : b - 143 ≥ (top :: rest).length
    · simp [List.getElem?_eq_none hlt, fail]
    · have : b - 143 < (top :: rest).length := by omega
      have h' : ¬ (rest.length + 1 ≤ b - 143) := by simpa using hlt
      simp [h', List.getElem?_eq_getElem this]

theorem swap_sim (c : Ctx) (code : List Disasm.Instr) (b : Nat) (d : TData) (ctr : Nat)
    (hb : 0x90 ≤ b ∧ b ≤ 0x9f) :
    StackSim (execOp c code (.op b) d ctr) (refSwap (b - 0x8f) (d.stack.map evalSV)) := by
  rw [execOp_swap c code b d ctr hb]
  unfold refSwap
  rw [List.getElem?_map]
  cases hs : d.stack with
  | nil => rfl
  | cons top rest =>
    cases hv : (top :: rest)[b - 0x8f]? with
    | none => simp [StackSim, fail]
    | some v => simp [StackSim, List.map_set]


theorem execOp_pop (c : Ctx) (code : List Disasm.Instr) (d : TData) (ctr : Nat) :
    execOp c code (.op 0x50) d ctr =
      match d.stack with
      | v :: r => { d := record { d with stack := r } v, ctr := ctr }
      | [] => fail d ctr .noSuchStackFrame := by
  simp only [execOp]
  unfold pop
  cases d.stack <;> simp

theorem pop_sim (c : Ctx) (code : List Disasm.Instr) (d : TData) (ctr : Nat) :
    StackSim (execOp c code (.op 0x50) d ctr) (refPop (d.stack.map evalSV)) := by
  rw [execOp_pop]
  unfold refPop
  cases hs : d.stack with
  | nil => rfl
  | cons v r => exact ⟨rfl, rfl⟩

theorem execOp_pc (c : Ctx) (code : List Disasm.Instr) (d : TData) (ctr : Nat) :
    execOp c code (.op 0x58) d ctr =
      pushOut d (ctr + 1) (buildKnown c ctr (BitVec.ofNat 256 c.ip)).1 := by
  simp [execOp, buildKnown, build]

theorem execOp_codesize (c : Ctx) (code : List Disasm.Instr) (d : TData) (ctr : Nat) :
    execOp c code (.op 0x38) d ctr =
      pushOut d (ctr + 1) (buildKnown c ctr (BitVec.ofNat 256 c.codeLen)).1 := by
  simp [execOp, buildKnown, build]

theorem pc_sim_partial (c : Ctx) (code : List Disasm.Instr) (d : TData) (ctr : Nat)
    (hlim : 1 ≤ c.cfg.valueLimit) :
    StackSim (execOp c code (.op 0x58) d ctr) (refPush (some (c.ip % 2 ^ 256)) (d.stack.map evalSV)) := by
  rw [execOp_pc]
  have := pushOut_sim d (ctr + 1) (buildKnown c ctr (BitVec.ofNat 256 c.ip)).1
  rwa [buildKnown_eval c ctr _ hlim, BitVec.toNat_ofNat] at this

theorem pc_sim_sound (c : Ctx) (code : List Disasm.Instr) (d : TData) (ctr : Nat) :
    ∃ v, StackSim (execOp c code (.op 0x58) d ctr) (refPush (evalSV v) (d.stack.map evalSV)) ∧
      ∀ r, evalSV v = some r → r = c.ip % 2 ^ 256 := by
  refine ⟨(buildKnown c ctr (BitVec.ofNat 256 c.ip)).1, ?_, ?_⟩
  · rw [execOp_pc]; exact pushOut_sim ..
  · intro r hr
    have := buildKnown_eval_sound _ _ _ _ hr
    rwa [BitVec.toNat_ofNat] at this

theorem codesize_sim_partial (c : Ctx) (code : List Disasm.Instr) (d : TData) (ctr : Nat)
    (hlim : 1 ≤ c.cfg.valueLimit) :
    StackSim (execOp c code (.op 0x38) d ctr)
      (refPush (some (c.codeLen % 2 ^ 256)) (d.stack.map evalSV)) := by
  rw [execOp_codesize]
  have := pushOut_sim d (ctr + 1) (buildKnown c ctr (BitVec.ofNat 256 c.codeLen)).1
  rwa [buildKnown_eval c ctr _ hlim, BitVec.toNat_ofNat] at this

theorem codesize_sim_sound (c : Ctx) (code : List Disasm.Instr) (d : TData) (ctr : Nat) :
    ∃ v, StackSim (execOp c code (.op 0x38) d ctr) (refPush (evalSV v) (d.stack.map evalSV)) ∧
      ∀ r, evalSV v = some r → r = c.codeLen % 2 ^ 256 := by
  refine ⟨(buildKnown c ctr (BitVec.ofNat 256 c.codeLen)).1, ?_, ?_⟩
  · rw [execOp_codesize]; exact pushOut_sim ..
  · intro r hr
    have := buildKnown_eval_sound _ _ _ _ hr
    rwa [BitVec.toNat_ofNat] at this

/-- why `push_sim`/`pc_sim`/`codesize_sim` need `1 ≤ valueLimit`: with a zero limit even a
one-node constant is culled into an opaque value -/
def zeroCtx : Ctx := ⟨⟨0, 0, 0, 0, 0, false⟩, 0, 0⟩

theorem push_sim_counterexample :
    ¬ StackSim (execOp zeroCtx [] (.push 1 [1]) {} 0)
      (refPush (some (beVal [1] % 2 ^ 256)) (({} : TData).stack.map evalSV)) := by
  simp [StackSim, refPush, execOp, buildKnown, build, SV.mk, childSize, zeroCtx, pushOut, push,
    maxStack, evalSV]


/-! ## T4: storage and memory -/

/-! ### `beq` is equality -/

mutual
theorem beq_eq : ∀ (a b : SV), a.beq b = true → a = b
  | .node k1 a1 ks1 s1, .node k2 a2 ks2 s2, h => by
    simp only [SV.beq, Bool.and_eq_true, beq_iff_eq] at h
    obtain ⟨⟨⟨hk, ha⟩, hs⟩, hl⟩ := h
    have := beqList_eq ks1 ks2 hl
    subst hk ha hs this
    rfl
theorem beqList_eq : ∀ (a b : List SV), SV.beqList a b = true → a = b
  | [], [], _ => rfl
  | x :: xs, y :: ys, h => by
    simp only [SV.beqList, Bool.and_eq_true] at h
    rw [beq_eq x y h.1, beqList_eq xs ys h.2]
  | [], _ :: _, h => by simp [SV.beqList] at h
  | _ :: _, [], h => by simp [SV.beqList] at h
end

mutual
theorem beq_refl : ∀ (a : SV), a.beq a = true
  | .node k a ks s => by
    simp only [SV.beq, Bool.and_eq_true, beq_iff_eq, true_and]
    exact beqList_refl ks
theorem beqList_refl : ∀ (a : List SV), SV.beqList a a = true
  | [] => rfl
  | x :: xs => by
    simp only [SV.beqList, Bool.and_eq_true]
    exact ⟨beq_refl x, beqList_refl xs⟩
end

theorem beq_false_of_ne {a b : SV} (h : a ≠ b) : a.beq b = false := by
  cases hb : a.beq b with
  | false => rfl
  | true => exact absurd (beq_eq a b hb) h

/-! ### association lists -/

theorem find_map_same {β : Type} (m : List (SV × β)) (k : SV) (v : β)
    (h : m.any (fun p => p.1.beq k) = true) :
    ((m.map (fun p => if p.1.beq k then (p.1, v) else p)).find? (fun p => p.1.beq k)).map (·.2)
      = some v := by
  induction m with
  | nil => simp at h
  | cons p m ih =>
    cases hp : p.1.beq k with
    | true => simp only [List.map_cons, List.find?_cons, hp, if_true, Option.map_some]
    | false =>
      have : m.any (fun p => p.1.beq k) = true := by simpa [hp] using h
      simp only [List.map_cons, List.find?_cons, hp, Bool.false_eq_true, if_false]
      exact ih this

theorem lookupSV_update_same {β : Type} (m : List (SV × β)) (k : SV) (v : β) :
    lookupSV (updateSV m k v) k = some v := by
  unfold lookupSV updateSV
  split
  · rename_i h; exact find_map_same m k v h
  · rename_i h
    have hn : m.find? (fun p => p.1.beq k) = none := by
      rw [List.find?_eq_none]; intro p hp hb
      exact h (List.any_eq_true.2 ⟨p, hp, hb⟩)
    simp [List.find?_append, hn, beq_refl]

theorem find_map_other {β : Type} (m : List (SV × β)) (k k' : SV) (v : β) (hne : k ≠ k') :
    ((m.map (fun p => if p.1.beq k then (p.1, v) else p)).find? (fun p => p.1.beq k')).map (·.2)
      = (m.find? (fun p => p.1.beq k')).map (·.2) := by
  induction m with
  | nil => rfl
  | cons p m ih =>
    cases hp : p.1.beq k with
    | true =>
      have : p.1 = k := beq_eq _ _ hp
      have hk' : p.1.beq k' = false := beq_false_of_ne (by rw [this]; exact hne)
      simp only [List.map_cons, List.find?_cons, hp, hk', if_true]
      exact ih
    | false =>
      cases hp' : p.1.beq k' with
      | true => simp only [List.map_cons, List.find?_cons, hp, hp', Bool.false_eq_true, if_false]
      | false =>
        simp only [List.map_cons, List.find?_cons, hp, hp', Bool.false_eq_true, if_false]
        exact ih

theorem lookupSV_update_other {β : Type} (m : List (SV × β)) (k k' : SV) (v : β) (hne : k ≠ k') :
    lookupSV (updateSV m k v) k' = lookupSV m k' := by
  unfold lookupSV updateSV
  split
  · exact find_map_other m k k' v hne
  · simp [List.find?_append, beq_false_of_ne hne]

theorem lookup_map_same {β : Type} (m : List (Nat × β)) (k : Nat) (v : β)
    (h : m.any (fun p => p.1 == k) = true) :
    (m.map (fun p => if p.1 == k then (p.1, v) else p)).lookup k = some v := by
  induction m with
  | nil => simp at h
  | cons p m ih =>
    obtain ⟨a, b⟩ := p
    cases hp : a == k with
    | true =>
      have : a = k := eq_of_beq hp
      subst this
      simp only [List.map_cons, hp, if_true, List.lookup_cons]
    | false =>
      have hp' : (k == a) = false := by rw [Bool.beq_comm]; exact hp
      have : m.any (fun p => p.1 == k) = true := by simpa [hp] using h
      simp only [List.map_cons, hp, Bool.false_eq_true, if_false, List.lookup_cons, hp']
      exact ih this

theorem lookup_append_none {β : Type} (m : List (Nat × β)) (k : Nat) (v : β)
    (h : m.any (fun p => p.1 == k) = false) :
    (m ++ [(k, v)]).lookup k = some v := by
  induction m with
  | nil => simp
  | cons p m ih =>
    obtain ⟨a, b⟩ := p
    simp only [List.any_cons, Bool.or_eq_false_iff] at h
    have hp' : (k == a) = false := by rw [Bool.beq_comm]; exact h.1
    simp only [List.cons_append, List.lookup_cons, hp']
    exact ih h.2

theorem lookup_updateNat_same {β : Type} (m : List (Nat × β)) (k : Nat) (v : β) :
    (updateNat m k v).lookup k = some v := by
  unfold updateNat
  split
  · rename_i h; exact lookup_map_same m k v h
  · rename_i h; exact lookup_append_none m k v (Bool.eq_false_iff.2 h)

theorem lookup_map_other {β : Type} (m : List (Nat × β)) (k k' : Nat) (v : β) (hne : k ≠ k') :
    (m.map (fun p => if p.1 == k then (p.1, v) else p)).lookup k' = m.lookup k' := by
  induction m with
  | nil => rfl
  | cons p m ih =>
    obtain ⟨a, b⟩ := p
    cases hp : a == k with
    | true =>
      have : a = k := eq_of_beq hp
      subst this
      have : (k' == a) = false := by simp; omega
      simp only [List.map_cons, hp, if_true, List.lookup_cons, this]
      exact ih
    | false =>
      simp only [List.map_cons, hp, Bool.false_eq_true, if_false, List.lookup_cons]
      rw [ih]

theorem lookup_append_other {β : Type} (m : List (Nat × β)) (k k' : Nat) (v : β) (hne : k ≠ k') :
    (m ++ [(k, v)]).lookup k' = m.lookup k' := by
  induction m with
  | nil =>
    have : (k' == k) = false := by simp; omega
    simp [List.lookup, this]
  | cons p m ih =>
    obtain ⟨a, b⟩ := p
    simp only [List.cons_append, List.lookup_cons]
    rw [ih]

theorem lookup_updateNat_other {β : Type} (m : List (Nat × β)) (k k' : Nat) (v : β) (hne : k ≠ k') :
    (updateNat m k v).lookup k' = m.lookup k' := by
  unfold updateNat
  split
  · exact lookup_map_other m k k' v hne
  · exact lookup_append_other m k k' v hne


/-! ### storage -/

theorem isKnownKey_mkKnown (w : Word) : isKnownKey (mkKnown w) = true := rfl

theorem evalSV_mkKnown (w : Word) : evalSV (mkKnown w) = some w.toNat := by
  simp [mkKnown, evalSV]

theorem mkKnown_inj {w w' : Word} (h : mkKnown w = mkKnown w') : w = w' := by
  simp only [mkKnown, SV.node.injEq, List.cons.injEq, and_true, true_and] at h
  exact BitVec.eq_of_toNat_eq h

/-- the generations recorded under a key (constant-key map) -/
def gensK (d : TData) (k : SV) : List SV := (lookupSV d.stK k).getD []

/-- the result tree of a load, given the generation list found (or initialised) -/
def loadResult (key : SV) (gens : List SV) : SV :=
  let recent := gens.getLast?.getD (mkKnown 0#256)
  if recent.kind == .sLoad then buildNoLimit .sLoad recent.attrs recent.kids
  else buildNoLimit .sLoad [] [key, recent]

theorem stLoad_known_fst (d : TData) (k : SV) (hk : isKnownKey k = true) :
    (stLoad d k).1 = loadResult k
      (match lookupSV d.stK k with
       | some g => g
       | none => [buildNoLimit .unwrittenStorageValue [] [k]]) := by
  unfold stLoad loadResult
  simp only [hk, if_true]
  cases lookupSV d.stK k <;> rfl

theorem evalSV_sLoad2 (a : List Nat) (k v : SV) (s kw : Nat) (hk : evalSV k = some kw) :
    evalSV (.node .sLoad a [k, v] s) = evalSV v := by
  simp only [evalSV, EvalC.evalList, hk]
  cases hv : evalSV v <;> simp

/-- evaluating a load result whose latest generation is `v` -/
theorem eval_loadResult (k : SV) (kw : Nat) (hk : evalSV k = some kw) (g : List SV) (v : SV) :
    evalSV (loadResult k (g ++ [v])) = evalSV v := by
  unfold loadResult
  simp only [List.getLast?_append, List.getLast?_singleton, Option.some_or, Option.getD_some]
  split
  · rename_i h
    obtain ⟨kd, a, ks, s⟩ := v
    simp only [SV.kind, beq_iff_eq] at h
    subst h
    exact evalSV_size_irrel ..
  · exact evalSV_sLoad2 _ _ _ _ _ hk

theorem stStore_known (d : TData) (k v : SV) (hk : isKnownKey k = true) :
    stStore d k v = { d with stK := updateSV d.stK k (gensK d k ++ [v]) } := by
  unfold stStore gensK; simp [hk]

/-- `stStore` appends a generation under the key. -/
theorem sstore_appends (d : TData) (w : Word) (v : SV) :
    gensK (stStore d (mkKnown w) v) (mkKnown w) = gensK d (mkKnown w) ++ [v] := by
  rw [stStore_known d _ v (isKnownKey_mkKnown w)]
  simp only [gensK]
  rw [lookupSV_update_same]; rfl

/-- ... and leaves the generations of every other key alone. -/
theorem sstore_other_gens (d : TData) (k k' v : SV) (hk : isKnownKey k = true) (hne : k ≠ k') :
    gensK (stStore d k v) k' = gensK d k' := by
  rw [stStore_known d _ v hk]
  simp only [gensK]
  rw [lookupSV_update_other _ _ _ _ hne]

theorem sload_after_sstore (d : TData) (w : Word) (v : SV) :
    evalSV (stLoad (stStore d (mkKnown w) v) (mkKnown w)).1 = evalSV v := by
  rw [stLoad_known_fst _ _ (isKnownKey_mkKnown w), stStore_known d _ v (isKnownKey_mkKnown w)]
  simp only []
  rw [lookupSV_update_same]
  exact eval_loadResult _ _ (evalSV_mkKnown w) _ _

theorem sload_other_key (d : TData) (w w' : Word) (v : SV) (hne : w ≠ w') :
    (stLoad (stStore d (mkKnown w) v) (mkKnown w')).1 = (stLoad d (mkKnown w')).1 := by
  rw [stLoad_known_fst _ _ (isKnownKey_mkKnown w'), stLoad_known_fst _ _ (isKnownKey_mkKnown w'),
    stStore_known d _ v (isKnownKey_mkKnown w)]
  simp only []
  rw [lookupSV_update_other _ _ _ _ (fun h => hne (mkKnown_inj h))]

theorem sload_fresh (d : TData) (w : Word) (hf : lookupSV d.stK (mkKnown w) = none) :
    evalSV (stLoad d (mkKnown w)).1 = some 0 := by
  rw [stLoad_known_fst _ _ (isKnownKey_mkKnown w), hf]
  simp [loadResult, buildNoLimit, rebuild, SV.kind, evalSV, EvalC.evalList, mkKnown]


/-! ### memory -/

/-- the cells recorded at a constant offset -/
def cellsC (d : TData) (k : Nat) : List MemCell := (d.memC.lookup k).getD []

theorem memStore_const (d : TData) (off v : SV) (isW : Bool) (w : Word)
    (hw : isKnown (SV.fold off) = some w) :
    memStore d off v isW =
      { d with memC := updateNat d.memC (asUsize w) (cellsC d (asUsize w) ++ [⟨v, isW⟩]) } := by
  unfold memStore cellsC
  simp only [hw]

theorem memLoad_const (d : TData) (off : SV) (w : Word) (hw : isKnown (SV.fold off) = some w) :
    memLoad d off = memGetC d (asUsize w) := by
  unfold memLoad
  simp only [hw]

/-- `memStore` at a constant offset appends a cell -/
theorem mstore_appends (d : TData) (off v : SV) (isW : Bool) (w : Word)
    (hw : isKnown (SV.fold off) = some w) :
    cellsC (memStore d off v isW) (asUsize w) = cellsC d (asUsize w) ++ [⟨v, isW⟩] := by
  rw [memStore_const d off v isW w hw]
  simp only [cellsC]
  rw [lookup_updateNat_same]; rfl

theorem mstore_other_cells (d : TData) (off v : SV) (isW : Bool) (w : Word) (k' : Nat)
    (hw : isKnown (SV.fold off) = some w) (hne : asUsize w ≠ k') :
    (memStore d off v isW).memC.lookup k' = d.memC.lookup k' := by
  rw [memStore_const d off v isW w hw]
  exact lookup_updateNat_other _ _ _ _ hne

/-- a load at a constant offset whose `usize` truncation is the one stored at returns the stored
tree itself -/
theorem mload_after_mstore_usize (d : TData) (off off' v : SV) (isW : Bool) (w w' : Word)
    (hw : isKnown (SV.fold off) = some w) (hw' : isKnown (SV.fold off') = some w')
    (he : asUsize w = asUsize w') :
    (memLoad (memStore d off v isW) off').1 = v := by
  rw [memLoad_const _ off' w' hw', ← he, memStore_const d off v isW w hw]
  unfold memGetC
  simp only [lookup_updateNat_same]
  simp

theorem mload_after_mstore (d : TData) (off off' v : SV) (w : Word)
    (hw : isKnown (SV.fold off) = some w) (hw' : isKnown (SV.fold off') = some w) :
    (memLoad (memStore d off v true) off').1 = v :=
  mload_after_mstore_usize d off off' v true w w hw hw' rfl

theorem memGetC_fst (d : TData) (k : Nat) :
    (memGetC d k).1 = match d.memC.lookup k with
      | some cells => (cells.getLast?.getD zeroCell).data
      | none => zeroCell.data := by
  unfold memGetC; cases d.memC.lookup k <;> rfl

theorem mload_other_offset_partial (d : TData) (off off' v : SV) (isW : Bool) (w w' : Word)
    (hw : isKnown (SV.fold off) = some w) (hw' : isKnown (SV.fold off') = some w')
    (hne : asUsize w ≠ asUsize w') :
    (memLoad (memStore d off v isW) off').1 = (memLoad d off').1 := by
  rw [memLoad_const _ off' w' hw', memLoad_const _ off' w' hw', memGetC_fst, memGetC_fst,
    mstore_other_cells d off v isW w _ hw hne]

/-- offsets below 2^64 that differ as words differ as `usize` -/
theorem mload_other_offset_small (d : TData) (off off' v : SV) (isW : Bool) (w w' : Word)
    (hw : isKnown (SV.fold off) = some w) (hw' : isKnown (SV.fold off') = some w')
    (hs : w.toNat < 2 ^ 64) (hs' : w'.toNat < 2 ^ 64) (hne : w ≠ w') :
    (memLoad (memStore d off v isW) off').1 = (memLoad d off').1 := by
  apply mload_other_offset_partial d off off' v isW w w' hw hw'
  unfold asUsize usizeMax
  rw [Nat.mod_eq_of_lt hs, Nat.mod_eq_of_lt hs']
  exact fun h => hne (BitVec.eq_of_toNat_eq h)

theorem mload_fresh (d : TData) (off : SV) (w : Word) (hw : isKnown (SV.fold off) = some w)
    (hf : d.memC.lookup (asUsize w) = none) :
    evalSV (memLoad d off).1 = some 0 := by
  rw [memLoad_const _ off w hw, memGetC_fst, hf]
  simp [zeroCell, mkKnown, evalSV]

/-- `w ≠ w'` alone is not enough for `mload_other_offset`: offsets are truncated to `usize`, so
0 and 2^64 are the same memory cell -/
theorem mload_alias_counterexample :
    ∃ (d : TData) (off off' v : SV) (w w' : Word),
      isKnown (SV.fold off) = some w ∧ isKnown (SV.fold off') = some w' ∧ w ≠ w' ∧
      (memLoad (memStore d off v true) off').1 ≠ (memLoad d off').1 := by
  have h0 : isKnown (SV.fold (mkKnown 0#256)) = some 0#256 := by
    simp [isKnown, SV.fold, foldNode, knownBin, knownUn, mkKnown, rebuild, asWord, SV.foldList]
  have h1 : isKnown (SV.fold (mkKnown (BitVec.ofNat 256 (2 ^ 64)))) = some (BitVec.ofNat 256 (2 ^ 64)) := by
    simp [isKnown, SV.fold, foldNode, knownBin, knownUn, mkKnown, rebuild, asWord, SV.foldList]
  refine ⟨{}, mkKnown 0#256, mkKnown (BitVec.ofNat 256 (2 ^ 64)), mkKnown 7#256, 0#256,
    BitVec.ofNat 256 (2 ^ 64), h0, h1, by decide, ?_⟩
  rw [mload_after_mstore_usize {} _ _ _ true _ _ h0 h1 (by decide), memLoad_const _ _ _ h1, memGetC_fst]
  intro h
  exact absurd (mkKnown_inj h) (by decide)


/-! ## T5: one-step simulation -/

/-- a symbolic entry agrees with a concrete word: if it is evaluable, it evaluates to it -/
def VRel (v : SV) (n : Nat) : Prop := ∀ r, evalSV v = some r → r = n

/-- pointwise `VRel` on lists of equal length -/
def LRel : List SV → List Nat → Prop
  | [], [] => True
  | v :: vs, n :: ns => VRel v n ∧ LRel vs ns
  | _, _ => False

@[simp] theorem LRel_nil : LRel [] [] = True := rfl
@[simp] theorem LRel_cons (v : SV) (vs : List SV) (n : Nat) (ns : List Nat) :
    LRel (v :: vs) (n :: ns) = (VRel v n ∧ LRel vs ns) := rfl
@[simp] theorem LRel_nil_cons (n : Nat) (ns : List Nat) : LRel [] (n :: ns) = False := rfl
@[simp] theorem LRel_cons_nil (v : SV) (vs : List SV) : LRel (v :: vs) [] = False := rfl

theorem LRel_length : ∀ {vs : List SV} {ns : List Nat}, LRel vs ns → vs.length = ns.length
  | [], [], _ => rfl
  | _ :: vs, _ :: ns, h => by simp [LRel_length (vs := vs) (ns := ns) h.2]
  | [], _ :: _, h => by simp at h
  | _ :: _, [], h => by simp at h

theorem LRel_getElem? : ∀ {vs : List SV} {ns : List Nat} (i : Nat), LRel vs ns →
    match vs[i]?, ns[i]? with
    | some v, some n => VRel v n
    | none, none => True
    | _, _ => False
  | [], [], i, _ => by simp
  | v :: vs, n :: ns, 0, h => by simpa using h.1
  | v :: vs, n :: ns, i + 1, h => by simpa using LRel_getElem? (vs := vs) (ns := ns) i h.2
  | [], _ :: _, _, h => by simp at h
  | _ :: _, [], _, h => by simp at h

theorem LRel_set : ∀ {vs : List SV} {ns : List Nat} (i : Nat) {v : SV} {n : Nat}, LRel vs ns →
    VRel v n → LRel (vs.set i v) (ns.set i n)
  | [], [], i, _, _, _, _ => by simp
  | _ :: vs, _ :: ns, 0, _, _, h, hv => by simpa using ⟨hv, h.2⟩
  | _ :: vs, _ :: ns, i + 1, _, _, h, hv => by
    simpa using ⟨h.1, LRel_set (vs := vs) (ns := ns) i h.2 hv⟩
  | [], _ :: _, _, _, _, h, _ => by simp at h
  | _ :: _, [], _, _, _, h, _ => by simp at h

theorem LRel_append : ∀ {vs : List SV} {ns : List Nat} {vs' : List SV} {ns' : List Nat},
    LRel vs ns → LRel vs' ns' → LRel (vs ++ vs') (ns ++ ns')
  | [], [], _, _, _, h' => by simpa using h'
  | _ :: vs, _ :: ns, _, _, h, h' => by
    simpa using ⟨h.1, LRel_append (vs := vs) (ns := ns) h.2 h'⟩
  | [], _ :: _, _, _, h, _ => by simp at h
  | _ :: _, [], _, _, h, _ => by simp at h

theorem LRel_getLast (vs : List SV) (ns : List Nat) (h : LRel vs ns) :
    match vs.getLast?, ns.getLast? with
    | some v, some n => VRel v n
    | none, none => True
    | _, _ => False := by
  have hl := LRel_length h
  have := LRel_getElem? (vs.length - 1) h
  rw [List.getLast?_eq_getElem?, List.getLast?_eq_getElem?, ← hl]
  exact this


/-- outcome of one reference step -/
inductive RRes where
  | ok (s : EVM.CS) | underflow | overflow | unsupported

def rPush (s : EVM.CS) (v : Nat) : RRes :=
  match EVM.pushStack s v with
  | some s' => .ok s'
  | none => .overflow

/-- One step of the reference machine on a non-control instruction: the clauses of `EVM.explore`
(with no quirks) for PUSHn, DUPn, SWAPn, POP, PC, CODESIZE, ISZERO/NOT, MLOAD, MSTORE, SLOAD, SSTORE and
the binary ALU opcodes of `aluOk`, acting on the state only (`visited` and the program counter
are left to the caller).  `pcv`/`csz` are what PC and CODESIZE push. -/
def refStep (pcv csz : Nat) (ins : Disasm.Instr) (s : EVM.CS) : RRes :=
  match ins with
  | .push _ data => rPush s (beVal data % 2 ^ 256)
  | .op b =>
    if 0x80 ≤ b && b ≤ 0x8f then
      (match s.stack[b - 0x80]? with
       | some v => rPush s v
       | none => .underflow)
    else if 0x90 ≤ b && b ≤ 0x9f then
      (match s.stack, s.stack[b - 0x8f]? with
       | top :: _, some v => .ok { s with stack := (s.stack.set (b - 0x8f) top).set 0 v }
       | _, _ => .underflow)
    else if b == 0x50 then
      (match s.stack with
       | _ :: r => .ok { s with stack := r }
       | _ => .underflow)
    else if b == 0x58 then rPush s pcv
    else if b == 0x38 then rPush s csz
    else if b == 0x15 || b == 0x19 then
      (match s.stack with
       | a :: r => .ok { s with stack := (if b == 0x15 then EVM.iszero a else EVM.not a) :: r }
       | _ => .underflow)
    else if b == 0x51 then
      (match s.stack with
       | off :: r => .ok { s with stack := EVM.mload s off :: r }
       | _ => .underflow)
    else if b == 0x52 then
      (match s.stack with
       | off :: v :: r => .ok { s with stack := r, mem := (off, v) :: s.mem }
       | _ => .underflow)
    else if b == 0x54 then
      (match s.stack with
       | k :: r => .ok { s with stack := EVM.sload s k :: r }
       | _ => .underflow)
    else if b == 0x55 then
      (match s.stack with
       | k :: v :: r => .ok { s with stack := r, writes := s.writes ++ [(k, v)] }
       | _ => .underflow)
    else if aluOk.contains b then
      (match EVM.binOp {} b with
       | some f =>
         (match s.stack with
          | a :: c :: r => .ok { s with stack := f a c :: r }
          | _ => .underflow)
       | none => .unsupported)
    else .unsupported
  | _ => .unsupported

/-- the values written under a key, oldest first -/
def writesOf (writes : List (Nat × Nat)) (k : Nat) : List Nat :=
  (writes.filter (fun p => p.1 == k)).map (·.2)

/-- storage: for every literal key, the generations recorded under it are (possibly) the
`UnwrittenStorageValue` initialiser followed by trees that agree, in order, with the reference
machine's writes to that key (so a key without an entry has not been written) -/
def StoRel (stK : List (SV × List SV)) (writes : List (Nat × Nat)) : Prop :=
  ∀ w : Word, ∃ pre written,
    (lookupSV stK (mkKnown w)).getD [] = pre ++ written ∧
    (pre = [] ∨ pre = [buildNoLimit .unwrittenStorageValue [] [mkKnown w]]) ∧
    LRel written (writesOf writes w.toNat)

/-- what a load at constant offset `k` returns -/
def cellVal (memC : List (Nat × List MemCell)) (k : Nat) : SV :=
  match memC.lookup k with
  | some cells => (cells.getLast?.getD zeroCell).data
  | none => zeroCell.data

/-- memory: at every constant offset the latest generation (zero if none) agrees with the
reference memory -/
def MemRel (memC : List (Nat × List MemCell)) (mem : List (Nat × Nat)) : Prop :=
  ∀ k, VRel (cellVal memC k) (EVM.mload { mem := mem } k)

/-- the simulation relation between a symbolic thread state and a reference state -/
def Rel (d : TData) (s : EVM.CS) : Prop :=
  d.stack.length ≤ 1024 ∧ LRel d.stack s.stack ∧ StoRel d.stK s.writes ∧ MemRel d.memC s.mem


/-- the symbolic step agrees with the reference step -/
def StepSim (o : OpOut) : RRes → Prop
  | .ok s' => o.err = none ∧ Rel o.d s'
  | .underflow => o.err = some .noSuchStackFrame
  | .overflow => o.err = some .stackDepthExceeded
  | .unsupported => True

theorem VRel_of_eval {v : SV} {n : Nat} (h : evalSV v = some n) : VRel v n := by
  intro r hr; rw [h] at hr; cases hr; rfl

theorem VRel_of_none {v : SV} {n : Nat} (h : evalSV v = none) : VRel v n := by
  intro r hr; rw [h] at hr; cases hr

/-- pushing related values preserves the relation; overflow is reported on both sides -/
theorem pushOut_step (d : TData) (ctr : Nat) (v : SV) (s : EVM.CS) (n : Nat)
    (hR : Rel d s) (hv : VRel v n) : StepSim (pushOut d ctr v) (rPush s n) := by
  obtain ⟨hlen, hst, hsto, hmem⟩ := hR
  have hl := LRel_length hst
  rw [pushOut_eq]; unfold rPush EVM.pushStack
  rw [← hl]
  by_cases h : d.stack.length + 1 > 1024
  · simp only [h, if_true]; rfl
  · simp only [h, if_false]
    exact ⟨rfl, by simp only [List.length_cons]; omega, ⟨hv, hst⟩, hsto, hmem⟩

theorem step_push (c : Ctx) (code : List Disasm.Instr) (n : Nat) (data : List Nat) (d : TData)
    (ctr : Nat) (s : EVM.CS) (pcv csz : Nat) (hR : Rel d s) :
    StepSim (execOp c code (.push n data) d ctr) (refStep pcv csz (.push n data) s) := by
  rw [execOp_push]
  exact pushOut_step d _ _ s _ hR (fun r hr => by
    have := buildKnown_eval_sound _ _ _ _ hr
    rwa [BitVec.toNat_ofNat] at this)

theorem step_pc (c : Ctx) (code : List Disasm.Instr) (d : TData)
    (ctr : Nat) (s : EVM.CS) (csz : Nat) (hR : Rel d s) :
    StepSim (execOp c code (.op 0x58) d ctr) (refStep (c.ip % 2 ^ 256) csz (.op 0x58) s) := by
  rw [execOp_pc]
  exact pushOut_step d _ _ s _ hR (fun r hr => by
    have := buildKnown_eval_sound _ _ _ _ hr
    rwa [BitVec.toNat_ofNat] at this)

theorem step_codesize (c : Ctx) (code : List Disasm.Instr) (d : TData)
    (ctr : Nat) (s : EVM.CS) (pcv : Nat) (hR : Rel d s) :
    StepSim (execOp c code (.op 0x38) d ctr) (refStep pcv (c.codeLen % 2 ^ 256) (.op 0x38) s) := by
  rw [execOp_codesize]
  exact pushOut_step d _ _ s _ hR (fun r hr => by
    have := buildKnown_eval_sound _ _ _ _ hr
    rwa [BitVec.toNat_ofNat] at this)

theorem refStep_dup (pcv csz b : Nat) (s : EVM.CS) (hb : 0x80 ≤ b ∧ b ≤ 0x8f) :
    refStep pcv csz (.op b) s =
      match s.stack[b - 0x80]? with
      | some v => rPush s v
      | none => .underflow := by
  have e3 : (0x80 ≤ b && b ≤ 0x8f) = true := by simp; omega
  simp only [refStep, e3, if_true]
  try (cases s.stack[b - 128]? <;> rfl)

theorem step_dup (c : Ctx) (code : List Disasm.Instr) (b : Nat) (d : TData)
    (ctr : Nat) (s : EVM.CS) (pcv csz : Nat) (hb : 0x80 ≤ b ∧ b ≤ 0x8f) (hR : Rel d s) :
    StepSim (execOp c code (.op b) d ctr) (refStep pcv csz (.op b) s) := by
  rw [execOp_dup' c code b d ctr hb, refStep_dup pcv csz b s hb]
  have := LRel_getElem? (b - 0x80) hR.2.1
  cases hv : d.stack[b - 0x80]? with
  | none =>
    cases hn : s.stack[b - 0x80]? with
    | none => rfl
    | some n => simp [hv, hn] at this
  | some v =>
    cases hn : s.stack[b - 0x80]? with
    | none => simp [hv, hn] at this
    | some n =>
      simp only [hv, hn] at this
      exact pushOut_step d ctr v s n hR this

theorem refStep_swap (pcv csz b : Nat) (s : EVM.CS) (hb : 0x90 ≤ b ∧ b ≤ 0x9f) :
    refStep pcv csz (.op b) s =
      match s.stack, s.stack[b - 0x8f]? with
      | top :: _, some v => .ok { s with stack := (s.stack.set (b - 0x8f) top).set 0 v }
      | _, _ => .underflow := by
  have e3 : (0x80 ≤ b && b ≤ 0x8f) = false := by simp; omega
  have e4 : (0x90 ≤ b && b ≤ 0x9f) = true := by simp; omega
  simp only [refStep, e3, e4, if_true, Bool.false_eq_true, if_false]
  try (split <;> split <;> simp_all)

theorem step_swap (c : Ctx) (code : List Disasm.Instr) (b : Nat) (d : TData)
    (ctr : Nat) (s : EVM.CS) (pcv csz : Nat) (hb : 0x90 ≤ b ∧ b ≤ 0x9f) (hR : Rel d s) :
    StepSim (execOp c code (.op b) d ctr) (refStep pcv csz (.op b) s) := by
  rw [execOp_swap c code b d ctr hb, refStep_swap pcv csz b s hb]
  obtain ⟨hlen, hst, hsto, hmem⟩ := hR
  generalize b - 0x8f = i
  have hg := LRel_getElem? i hst
  cases hd : d.stack with
  | nil =>
    cases hs : s.stack with
    | nil => rfl
    | cons n ns => rw [hd, hs] at hst; simp at hst
  | cons top rest =>
    cases hs : s.stack with
    | nil => rw [hd, hs] at hst; simp at hst
    | cons n ns =>
      rw [hd, hs] at hg
      cases hv : (top :: rest)[i]? with
      | none =>
        cases hn : (n :: ns)[i]? with
        | none => rfl
        | some m => simp [hv, hn] at hg
      | some v =>
        cases hn : (n :: ns)[i]? with
        | none => simp [hv, hn] at hg
        | some m =>
          simp only [hv, hn] at hg
          rw [hd, hs] at hst
          refine ⟨rfl, ?_, ?_, hsto, hmem⟩
          · simpa [hd] using hlen
          · have hvn : VRel top n := hst.1
            have h1 : LRel ((top :: rest).set (i) top) ((n :: ns).set (i) n) :=
              LRel_set (vs := top :: rest) (ns := n :: ns) (i) hst hvn
            have h2 := LRel_set 0 h1 hg
            simpa [hd, hs] using h2

theorem refStep_pop (pcv csz b : Nat) (s : EVM.CS) (hb : b = 0x50) :
    refStep pcv csz (.op b) s =
      match s.stack with
      | _ :: r => .ok { s with stack := r }
      | _ => .underflow := by
  have e3 : (0x80 ≤ b && b ≤ 0x8f) = false := by simp; omega
  have e4 : (0x90 ≤ b && b ≤ 0x9f) = false := by simp; omega
  have e5 : (b == 0x50) = true := by simp; omega
  simp only [refStep, e3, e4, e5, if_true, Bool.false_eq_true, if_false]
  try (cases s.stack <;> rfl)

theorem step_pop (c : Ctx) (code : List Disasm.Instr) (d : TData)
    (ctr : Nat) (s : EVM.CS) (pcv csz : Nat) (hR : Rel d s) :
    StepSim (execOp c code (.op 0x50) d ctr) (refStep pcv csz (.op 0x50) s) := by
  rw [execOp_pop]
  obtain ⟨hlen, hst, hsto, hmem⟩ := hR
  rw [refStep_pop pcv csz 0x50 s rfl]
  cases hd : d.stack with
  | nil =>
    cases hs : s.stack with
    | nil => rfl
    | cons n ns => rw [hd, hs] at hst; simp at hst
  | cons top rest =>
    cases hs : s.stack with
    | nil => rw [hd, hs] at hst; simp at hst
    | cons n ns =>
      rw [hd, hs] at hst
      refine ⟨rfl, ?_, hst.2, hsto, hmem⟩
      simp only [hd, List.length_cons] at hlen
      simp only [record]; omega


/-- the default branch of `execOp`: pop the template's arguments, instantiate, push -/
def tplStep (c : Ctx) (d : TData) (ctr : Nat) : Option (Nat × SV) → OpOut
  | some (n, tpl) =>
    (match popN n d [] with
     | .error (e, d') => fail d' ctr e
     | .ok (args, d1) =>
       let (v, ctr1) := instantiate c args tpl ctr
       pushOut d1 ctr1 v)
  | none => { d := d, ctr := ctr, kill := true }

theorem execOp_tpl (c : Ctx) (code : List Disasm.Instr) (b : Nat) (d : TData) (ctr : Nat)
    (hb : b ∈ aluOk ∨ b = 0x15 ∨ b = 0x19) :
    execOp c code (.op b) d ctr = tplStep c d ctr (templateOf b) := by
  simp only [aluOk, List.mem_cons, List.not_mem_nil, or_false] at hb
  rcases hb with (rfl | rfl | rfl | rfl | rfl | rfl | rfl | rfl | rfl | rfl | rfl | rfl | rfl | rfl | rfl | rfl | rfl | rfl | rfl) | rfl | rfl
  all_goals rfl


theorem popN2_ok (d : TData) (a0 a1 : SV) (r : List SV) (h : d.stack = a0 :: a1 :: r) :
    popN 2 d [] = .ok ([a0, a1], { d with stack := r }) := by
  simp [popN, pop, h]

theorem popN2_one (d : TData) (a0 : SV) (h : d.stack = [a0]) :
    popN 2 d [] = .error (.noSuchStackFrame, { d with stack := [] }) := by
  simp [popN, pop, h]

theorem popN_nil (n : Nat) (d : TData) (h : d.stack = []) :
    popN (n + 1) d [] = .error (.noSuchStackFrame, d) := by
  simp [popN, pop, h]

theorem popN1_ok (d : TData) (a0 : SV) (r : List SV) (h : d.stack = a0 :: r) :
    popN 1 d [] = .ok ([a0], { d with stack := r }) := by
  simp [popN, pop, h]

theorem pushOut_ok (d : TData) (ctr : Nat) (v : SV) (h : d.stack.length + 1 ≤ 1024) :
    pushOut d ctr v = { d := { d with stack := v :: d.stack }, ctr := ctr } := by
  rw [pushOut_eq, if_neg (by omega)]

theorem aluOk_template (b : Nat) (hb : b ∈ aluOk) : ∃ tpl, templateOf b = some (2, tpl) := by
  simp only [aluOk, List.mem_cons, List.not_mem_nil, or_false] at hb
  rcases hb with rfl | rfl | rfl | rfl | rfl | rfl | rfl | rfl | rfl | rfl | rfl | rfl | rfl | rfl | rfl | rfl | rfl | rfl | rfl
  all_goals
    first
      | exact ⟨_, t01⟩ | exact ⟨_, t02⟩ | exact ⟨_, t03⟩ | exact ⟨_, t04⟩ | exact ⟨_, t05⟩
      | exact ⟨_, t06⟩ | exact ⟨_, t07⟩ | exact ⟨_, t0a⟩ | exact ⟨_, t10⟩ | exact ⟨_, t11⟩
      | exact ⟨_, t12⟩ | exact ⟨_, t13⟩ | exact ⟨_, t14⟩ | exact ⟨_, t16⟩ | exact ⟨_, t17⟩
      | exact ⟨_, t18⟩ | exact ⟨_, t1b⟩ | exact ⟨_, t1c⟩ | exact ⟨_, t1d⟩

theorem aluOk_binOp (b : Nat) (hb : b ∈ aluOk) : ∃ f, EVM.binOp {} b = some f := by
  simp only [aluOk, List.mem_cons, List.not_mem_nil, or_false] at hb
  rcases hb with rfl | rfl | rfl | rfl | rfl | rfl | rfl | rfl | rfl | rfl | rfl | rfl | rfl | rfl | rfl | rfl | rfl | rfl | rfl
  all_goals exact ⟨_, rfl⟩

/-- an evaluable instantiated binary template has evaluable arguments -/
theorem alu_args_evaluable (b : Nat) (hb : b ∈ aluOk) (c : Ctx) (ctr : Nat) (a0 a1 : SV) (tpl : SV)
    (ht : templateOf b = some (2, tpl)) (r : Nat)
    (hr : evalSV (instantiate c [a0, a1] tpl ctr).1 = some r) :
    ∃ x y, evalSV a0 = some x ∧ evalSV a1 = some y := by
  simp only [aluOk, List.mem_cons, List.not_mem_nil, or_false] at hb
  rcases hb with rfl | rfl | rfl | rfl | rfl | rfl | rfl | rfl | rfl | rfl | rfl | rfl | rfl | rfl | rfl | rfl | rfl | rfl | rfl
  all_goals
    first
      | rw [t01] at ht | rw [t02] at ht | rw [t03] at ht | rw [t04] at ht | rw [t05] at ht
      | rw [t06] at ht | rw [t07] at ht | rw [t0a] at ht | rw [t10] at ht | rw [t11] at ht
      | rw [t12] at ht | rw [t13] at ht | rw [t14] at ht | rw [t16] at ht | rw [t17] at ht
      | rw [t18] at ht | rw [t1b] at ht | rw [t1c] at ht | rw [t1d] at ht
  all_goals
    obtain rfl : _ = tpl := by simpa using ht
    rw [inst_bin c _ (by decide) (by decide)] at hr
    obtain ⟨u, v, hu, hv, _⟩ := build_bin_sound (by decide) (by decide) hr
    exact ⟨u, v, hu, hv⟩

theorem refStep_bin (pcv csz b : Nat) (s : EVM.CS) (hb : b ∈ aluOk) :
    refStep pcv csz (.op b) s =
      match EVM.binOp {} b with
      | some f =>
        (match s.stack with
         | a :: c :: r => .ok { s with stack := f a c :: r }
         | _ => .underflow)
      | none => .unsupported := by
  have hc : aluOk.contains b = true := by simpa using hb
  have hr : b ≤ 0x1d ∧ b ≠ 0x15 ∧ b ≠ 0x19 := by
    simp only [aluOk, List.mem_cons, List.not_mem_nil, or_false] at hb; omega
  have e1 : (0x80 ≤ b && b ≤ 0x8f) = false := by simp; omega
  have e2 : (0x90 ≤ b && b ≤ 0x9f) = false := by simp; omega
  have e3 : (b == 0x50) = false := by simp; omega
  have e4 : (b == 0x58) = false := by simp; omega
  have e5 : (b == 0x38) = false := by simp; omega
  have e6 : (b == 0x15 || b == 0x19) = false := by simp; omega
  have e7 : (b == 0x51) = false := by simp; omega
  have e8 : (b == 0x52) = false := by simp; omega
  have e9 : (b == 0x54) = false := by simp; omega
  have e10 : (b == 0x55) = false := by simp; omega
  simp only [refStep, e1, e2, e3, e4, e5, e6, e7, e8, e9, e10, hc, Bool.false_eq_true, if_false,
    if_true]

theorem step_bin (c : Ctx) (code : List Disasm.Instr) (b : Nat) (d : TData)
    (ctr : Nat) (s : EVM.CS) (pcv csz : Nat) (hb : b ∈ aluOk) (hR : Rel d s) :
    StepSim (execOp c code (.op b) d ctr) (refStep pcv csz (.op b) s) := by
  obtain ⟨tpl, ht⟩ := aluOk_template b hb
  obtain ⟨f, hf⟩ := aluOk_binOp b hb
  rw [execOp_tpl c code b d ctr (Or.inl hb), refStep_bin pcv csz b s hb, ht, hf]
  obtain ⟨hlen, hst, hsto, hmem⟩ := hR
  simp only [tplStep]
  rcases hd : d.stack with _ | ⟨a0, _ | ⟨a1, rest⟩⟩ <;>
    rcases hs : s.stack with _ | ⟨x, _ | ⟨y, ns⟩⟩ <;> rw [hd, hs] at hst <;> simp at hst
  · rw [popN_nil 1 d hd]; rfl
  · rw [popN2_one d a0 hd]; rfl
  · rw [popN2_ok d a0 a1 rest hd]
    simp only [hd, List.length_cons] at hlen
    simp only []
    rw [pushOut_ok _ _ _ (by simp only []; omega)]
    refine ⟨rfl, by simp only [List.length_cons]; omega, ⟨?_, hst.2.2⟩, hsto, hmem⟩
    intro r hr
    obtain ⟨x', y', hx, hy⟩ := alu_args_evaluable b hb c ctr a0 a1 tpl ht r hr
    have := alu_template_sound b hb c ctr a0 a1 x' y' hx hy tpl ht r hr
    rw [hst.1 x' hx, hst.2.1 y' hy, hf] at this
    simpa using this


theorem evalSV_un_inv {k : Kind} (hk : k ≠ .knownData) (hk' : k ≠ .unwrittenStorageValue)
    {a : List Nat} {p : SV} {s r : Nat}
    (h : evalSV (.node k a [p] s) = some r) : ∃ u, evalSV p = some u := by
  cases hp : evalSV p with
  | none => cases k <;> simp [evalSV, EvalC.evalList, hp] at h hk hk'
  | some u => exact ⟨u, rfl⟩

theorem unary_arg_evaluable (b : Nat) (hb : b = 0x15 ∨ b = 0x19) (c : Ctx) (ctr : Nat) (a0 : SV)
    (tpl : SV) (ht : templateOf b = some (1, tpl)) (r : Nat)
    (hr : evalSV (instantiate c [a0] tpl ctr).1 = some r) : ∃ x, evalSV a0 = some x := by
  rcases hb with rfl | rfl
  all_goals
    first | rw [t15] at ht | rw [t19] at ht
  all_goals
    obtain rfl : _ = tpl := by simpa using ht
    rw [inst_un c _ (by decide) (by decide)] at hr
    rcases build_cases' c ctr _ [] [a0] with ⟨he, _⟩ | ⟨he, _⟩
    · rw [he] at hr; cases hr
    · rw [he] at hr
      exact evalSV_un_inv (by decide) (by decide) hr

theorem refStep_un (pcv csz b : Nat) (s : EVM.CS) (hb : b = 0x15 ∨ b = 0x19) :
    refStep pcv csz (.op b) s =
      match s.stack with
      | a :: r => .ok { s with stack := (if b == 0x15 then EVM.iszero a else EVM.not a) :: r }
      | _ => .underflow := by
  have e1 : (0x80 ≤ b && b ≤ 0x8f) = false := by simp; omega
  have e2 : (0x90 ≤ b && b ≤ 0x9f) = false := by simp; omega
  have e3 : (b == 0x50) = false := by simp; omega
  have e4 : (b == 0x58) = false := by simp; omega
  have e5 : (b == 0x38) = false := by simp; omega
  have e6 : (b == 0x15 || b == 0x19) = true := by simp; omega
  simp only [refStep, e1, e2, e3, e4, e5, e6, Bool.false_eq_true, if_false, if_true]

theorem step_un (c : Ctx) (code : List Disasm.Instr) (b : Nat) (d : TData)
    (ctr : Nat) (s : EVM.CS) (pcv csz : Nat) (hb : b = 0x15 ∨ b = 0x19) (hR : Rel d s) :
    StepSim (execOp c code (.op b) d ctr) (refStep pcv csz (.op b) s) := by
  have ⟨tpl, ht⟩ : ∃ tpl, templateOf b = some (1, tpl) := by
    rcases hb with rfl | rfl
    · exact ⟨_, t15⟩
    · exact ⟨_, t19⟩
  rw [execOp_tpl c code b d ctr (Or.inr hb), refStep_un pcv csz b s hb, ht]
  obtain ⟨hlen, hst, hsto, hmem⟩ := hR
  simp only [tplStep]
  rcases hd : d.stack with _ | ⟨a0, rest⟩ <;>
    rcases hs : s.stack with _ | ⟨x, ns⟩ <;> rw [hd, hs] at hst <;> simp at hst
  · rw [popN_nil 0 d hd]; rfl
  · rw [popN1_ok d a0 rest hd]
    simp only [hd, List.length_cons] at hlen
    simp only []
    rw [pushOut_ok _ _ _ (by simp only []; omega)]
    refine ⟨rfl, by simp only [List.length_cons]; omega, ⟨?_, hst.2⟩, hsto, hmem⟩
    intro r hr
    obtain ⟨x', hx⟩ := unary_arg_evaluable b hb c ctr a0 tpl ht r hr
    have := (unary_template_correct b hb c ctr a0 x' hx tpl ht).1 r hr
    rw [hst.1 x' hx] at this
    rw [this]
    rcases hb with rfl | rfl <;> simp


theorem find_reverse_eq_getLast_filter {α : Type} (p : α → Bool) (l : List α) :
    l.reverse.find? p = (l.filter p).getLast? := by
  induction l with
  | nil => rfl
  | cons a t ih =>
    rw [List.reverse_cons, List.find?_append, ih]
    cases hp : p a with
    | false =>
      simp [hp]
    | true =>
      simp only [List.filter_cons, hp, if_true, List.find?_cons]
      rw [List.getLast?_cons]
      cases (List.filter p t).getLast? <;> rfl

/-- `EVM.sload` is the last value written under the key, or 0 -/
theorem sload_eq (s : EVM.CS) (k : Nat) :
    EVM.sload s k = ((writesOf s.writes k).getLast?).getD 0 := by
  unfold EVM.sload writesOf
  rw [find_reverse_eq_getLast_filter, List.getLast?_map]
  cases (List.filter (fun p => p.1 == k) s.writes).getLast? <;> rfl

theorem writesOf_append_same (writes : List (Nat × Nat)) (k v : Nat) :
    writesOf (writes ++ [(k, v)]) k = writesOf writes k ++ [v] := by
  simp [writesOf, List.filter_append]

theorem writesOf_append_other (writes : List (Nat × Nat)) (k k' v : Nat) (h : k ≠ k') :
    writesOf (writes ++ [(k, v)]) k' = writesOf writes k' := by
  simp [writesOf, List.filter_append, h]

theorem lookupSV_append_other {β : Type} (m : List (SV × β)) (k k' : SV) (g : β) (hne : k ≠ k') :
    lookupSV (m ++ [(k, g)]) k' = lookupSV m k' := by
  unfold lookupSV
  simp [List.find?_append, beq_false_of_ne hne]

theorem lookupSV_append_same {β : Type} (m : List (SV × β)) (k : SV) (g : β)
    (h : lookupSV m k = none) : lookupSV (m ++ [(k, g)]) k = some g := by
  unfold lookupSV at h ⊢
  have hn : m.find? (fun p => p.1.beq k) = none := by
    cases hf : m.find? (fun p => p.1.beq k) with
    | none => rfl
    | some x => rw [hf] at h; cases h
  simp [List.find?_append, hn, beq_refl]

theorem cellVal_append_zero (m : List (Nat × List MemCell)) (k k' : Nat) (h : m.lookup k = none) :
    cellVal (m ++ [(k, [zeroCell])]) k' = cellVal m k' := by
  unfold cellVal
  rw [List.lookup_append]
  cases hl : m.lookup k' with
  | some x => rfl
  | none =>
    by_cases hk : k' = k
    · subst hk; simp [List.lookup]
    · have : (k' == k) = false := by simp; omega
      simp [List.lookup, this]

theorem mload_cons_same (mem : List (Nat × Nat)) (k v : Nat) :
    EVM.mload { mem := (k, v) :: mem } k = v := by
  simp [EVM.mload]

theorem mload_cons_other (mem : List (Nat × Nat)) (k k' v : Nat) (h : k ≠ k') :
    EVM.mload { mem := (k, v) :: mem } k' = EVM.mload { mem := mem } k' := by
  simp [EVM.mload, h]

theorem fold_mkKnown (w : Word) : isKnown (SV.fold (mkKnown w)) = some w := by
  simp [isKnown, SV.fold, foldNode, knownBin, knownUn, mkKnown, rebuild, asWord, SV.foldList]

theorem asUsize_small (w : Word) (h : w.toNat < 2 ^ 64) : asUsize w = w.toNat := by
  unfold asUsize usizeMax; exact Nat.mod_eq_of_lt h


theorem pop_cons (d : TData) (v : SV) (r : List SV) (h : d.stack = v :: r) :
    pop d = .ok (v, { d with stack := r }) := by
  simp [pop, h]

theorem pop_nil (d : TData) (h : d.stack = []) : pop d = .error .noSuchStackFrame := by
  simp [pop, h]

theorem execOp_sload_ok (c : Ctx) (code : List Disasm.Instr) (d : TData) (ctr : Nat) (key : SV)
    (rest : List SV) (h : d.stack = key :: rest) :
    execOp c code (.op 0x54) d ctr =
      (if (stLoad { d with stack := rest } key).1.recSize > c.cfg.valueLimit then
        pushOut (stLoad { d with stack := rest } key).2 (ctr + 1) (mkValue (mkId c.ip ctr))
       else
        pushOut (stLoad { d with stack := rest } key).2 ctr (stLoad { d with stack := rest } key).1) := by
  have : execOp c code (.op 0x54) d ctr =
      (match pop d with
       | .error e => fail d ctr e
       | .ok (key, d1) =>
         let (v, d2) := stLoad d1 key
         if v.recSize > c.cfg.valueLimit then
           let (v', ctr1) := buildValue c ctr
           pushOut d2 ctr1 v'
         else pushOut d2 ctr v) := rfl
  rw [this, pop_cons d key rest h]
  rfl

theorem execOp_sload_nil (c : Ctx) (code : List Disasm.Instr) (d : TData) (ctr : Nat)
    (h : d.stack = []) :
    execOp c code (.op 0x54) d ctr = fail d ctr .noSuchStackFrame := by
  have : execOp c code (.op 0x54) d ctr =
      (match pop d with
       | .error e => fail d ctr e
       | .ok (key, d1) =>
         let (v, d2) := stLoad d1 key
         if v.recSize > c.cfg.valueLimit then
           let (v', ctr1) := buildValue c ctr
           pushOut d2 ctr1 v'
         else pushOut d2 ctr v) := rfl
  rw [this, pop_nil d h]

theorem execOp_mload_ok (c : Ctx) (code : List Disasm.Instr) (d : TData) (ctr : Nat) (off : SV)
    (rest : List SV) (h : d.stack = off :: rest) :
    execOp c code (.op 0x51) d ctr =
      pushOut (memLoad { d with stack := rest } off).2 ctr (memLoad { d with stack := rest } off).1 := by
  have : execOp c code (.op 0x51) d ctr =
      (match pop d with
       | .error e => fail d ctr e
       | .ok (off, d1) => let (v, d2) := memLoad d1 off; pushOut d2 ctr v) := rfl
  rw [this, pop_cons d off rest h]

theorem execOp_mload_nil (c : Ctx) (code : List Disasm.Instr) (d : TData) (ctr : Nat)
    (h : d.stack = []) :
    execOp c code (.op 0x51) d ctr = fail d ctr .noSuchStackFrame := by
  have : execOp c code (.op 0x51) d ctr =
      (match pop d with
       | .error e => fail d ctr e
       | .ok (off, d1) => let (v, d2) := memLoad d1 off; pushOut d2 ctr v) := rfl
  rw [this, pop_nil d h]

theorem execOp_sstore_eq (c : Ctx) (code : List Disasm.Instr) (d : TData) (ctr : Nat) :
    execOp c code (.op 0x55) d ctr =
      (match popN 2 d [] with
       | .error (e, d') => fail d' ctr e
       | .ok ([key, v], d1) => { d := stStore d1 key v, ctr := ctr }
       | .ok (_, d1) => fail d1 ctr .noSuchStackFrame) := rfl

theorem execOp_mstore_eq (c : Ctx) (code : List Disasm.Instr) (d : TData) (ctr : Nat) :
    execOp c code (.op 0x52) d ctr =
      (match popN 2 d [] with
       | .error (e, d') => fail d' ctr e
       | .ok ([off, v], d1) => { d := memStore d1 off v true, ctr := ctr }
       | .ok (_, d1) => fail d1 ctr .noSuchStackFrame) := rfl


set_option hygiene false in
macro "refstep_low" : tactic => `(tactic| (
  have e1 : (0x80 ≤ b && b ≤ 0x8f) = false := by simp; omega
  have e2 : (0x90 ≤ b && b ≤ 0x9f) = false := by simp; omega
  have e3 : (b == 0x50) = false := by simp; omega
  have e4 : (b == 0x58) = false := by simp; omega
  have e5 : (b == 0x38) = false := by simp; omega
  have e6 : (b == 0x15 || b == 0x19) = false := by simp; omega
  simp only [refStep, e1, e2, e3, e4, e5, e6, Bool.false_eq_true, if_false]
  subst hb
  simp only [Nat.reduceBEq, Bool.false_eq_true, if_false, if_true]))

theorem refStep_mload (pcv csz b : Nat) (s : EVM.CS) (hb : b = 0x51) :
    refStep pcv csz (.op b) s =
      match s.stack with
      | off :: r => .ok { s with stack := EVM.mload s off :: r }
      | _ => .underflow := by
  refstep_low

theorem refStep_mstore (pcv csz b : Nat) (s : EVM.CS) (hb : b = 0x52) :
    refStep pcv csz (.op b) s =
      match s.stack with
      | off :: v :: r => .ok { s with stack := r, mem := (off, v) :: s.mem }
      | _ => .underflow := by
  refstep_low

theorem refStep_sload (pcv csz b : Nat) (s : EVM.CS) (hb : b = 0x54) :
    refStep pcv csz (.op b) s =
      match s.stack with
      | k :: r => .ok { s with stack := EVM.sload s k :: r }
      | _ => .underflow := by
  refstep_low

theorem refStep_sstore (pcv csz b : Nat) (s : EVM.CS) (hb : b = 0x55) :
    refStep pcv csz (.op b) s =
      match s.stack with
      | k :: v :: r => .ok { s with stack := r, writes := s.writes ++ [(k, v)] }
      | _ => .underflow := by
  refstep_low


theorem LRel_nil_left {ns : List Nat} (h : LRel [] ns) : ns = [] := by
  cases ns with
  | nil => rfl
  | cons n ns => simp at h

theorem eval_loadResult_nil (k : SV) (kw : Nat) (hk : evalSV k = some kw) :
    evalSV (loadResult k []) = some 0 := by
  have : loadResult k [] = buildNoLimit .sLoad [] [k, mkKnown 0#256] := by
    simp [loadResult, mkKnown, SV.kind]
  rw [this, buildNoLimit, rebuild, evalSV_sLoad2 _ _ _ _ _ hk, evalSV_mkKnown]; rfl

theorem evalSV_unwritten (a : List Nat) (ks : List SV) (s : Nat) :
    evalSV (.node .unwrittenStorageValue a ks s) = some 0 := by
  simp [evalSV]

theorem eval_loadResult_init (k : SV) (kw : Nat) (hk : evalSV k = some kw) :
    evalSV (loadResult k [buildNoLimit .unwrittenStorageValue [] [k]]) = some 0 := by
  have := eval_loadResult k kw hk [] (buildNoLimit .unwrittenStorageValue [] [k])
  rw [List.nil_append] at this
  rw [this, buildNoLimit, rebuild, evalSV_unwritten]

theorem stLoad_known_snd_none (d : TData) (k : SV) (hk : isKnownKey k = true)
    (hl : lookupSV d.stK k = none) :
    (stLoad d k).2 = { d with stK := d.stK ++ [(k, [buildNoLimit .unwrittenStorageValue [] [k]])] } := by
  unfold stLoad
  simp only [hk, if_true, hl]

theorem stLoad_known_snd_some (d : TData) (k : SV) (g : List SV) (hk : isKnownKey k = true)
    (hl : lookupSV d.stK k = some g) : (stLoad d k).2 = d := by
  unfold stLoad
  simp only [hk, if_true, hl]

/-- the effect of a load with a literal key on the relation -/
theorem stLoad_rel (d : TData) (w : Word) (writes : List (Nat × Nat)) (hsto : StoRel d.stK writes) :
    (stLoad d (mkKnown w)).2.stack = d.stack ∧ (stLoad d (mkKnown w)).2.memC = d.memC ∧
    StoRel (stLoad d (mkKnown w)).2.stK writes ∧
    VRel (stLoad d (mkKnown w)).1 ((writesOf writes w.toNat).getLast?.getD 0) := by
  have hk := isKnownKey_mkKnown w
  have hek := evalSV_mkKnown w
  obtain ⟨pre, written, hg, hpre, hrel⟩ := hsto w
  rw [stLoad_known_fst d _ hk]
  cases hl : lookupSV d.stK (mkKnown w) with
  | none =>
    rw [stLoad_known_snd_none d _ hk hl]
    rw [hl] at hg
    have hw : written = [] := by
      cases written with
      | nil => rfl
      | cons x xs => cases pre <;> simp at hg
    subst hw
    have hno := LRel_nil_left hrel
    refine ⟨rfl, rfl, ?_, ?_⟩
    · intro w'
      by_cases hww : w' = w
      · subst hww
        refine ⟨[buildNoLimit .unwrittenStorageValue [] [mkKnown w']], [], ?_, Or.inr rfl, hrel⟩
        simp only []
        rw [lookupSV_append_same _ _ _ hl]; rfl
      · obtain ⟨pre', written', hg', hpre', hrel'⟩ := hsto w'
        refine ⟨pre', written', ?_, hpre', hrel'⟩
        simp only []
        rw [lookupSV_append_other _ _ _ _ (fun h => hww (mkKnown_inj h).symm)]
        exact hg'
    · simp only []
      rw [hno]
      exact VRel_of_eval (eval_loadResult_init _ _ hek)
  | some g =>
    rw [stLoad_known_snd_some d _ g hk hl]
    refine ⟨rfl, rfl, hsto, ?_⟩
    simp only []
    rw [hl] at hg
    simp only [Option.getD_some] at hg
    subst hg
    cases hlast : written.getLast? with
    | none =>
      have hw : written = [] := List.getLast?_eq_none_iff.1 hlast
      subst hw
      rw [LRel_nil_left hrel, List.append_nil]
      rcases hpre with rfl | rfl
      · exact VRel_of_eval (eval_loadResult_nil _ _ hek)
      · exact VRel_of_eval (eval_loadResult_init _ _ hek)
    | some vl =>
      obtain ⟨ys, hys⟩ := List.getLast?_eq_some_iff.1 hlast
      subst hys
      rw [← List.append_assoc]
      intro r hr
      rw [eval_loadResult _ _ hek] at hr
      have hgl := LRel_getLast _ _ hrel
      rw [hlast] at hgl
      cases hn : (writesOf writes w.toNat).getLast? with
      | none => simp [hn] at hgl
      | some n =>
        simp only [hn] at hgl
        simpa using hgl r hr


theorem VRel_mkKnown {w : Word} {n : Nat} (h : VRel (mkKnown w) n) : n = w.toNat :=
  (h _ (evalSV_mkKnown w)).symm

theorem step_sload (c : Ctx) (code : List Disasm.Instr) (d : TData)
    (ctr : Nat) (s : EVM.CS) (pcv csz : Nat) (hR : Rel d s)
    (hkey : ∀ k rest, d.stack = k :: rest → ∃ w, k = mkKnown w) :
    StepSim (execOp c code (.op 0x54) d ctr) (refStep pcv csz (.op 0x54) s) := by
  rw [refStep_sload pcv csz 0x54 s rfl]
  obtain ⟨hlen, hst, hsto, hmem⟩ := hR
  rcases hd : d.stack with _ | ⟨key, rest⟩ <;>
    rcases hs : s.stack with _ | ⟨x, ns⟩ <;> rw [hd, hs] at hst <;> simp at hst
  · rw [execOp_sload_nil c code d ctr hd]; rfl
  · obtain ⟨w, rfl⟩ := hkey key rest hd
    rw [execOp_sload_ok c code d ctr _ rest hd]
    obtain ⟨h1, h2, h3, h4⟩ := stLoad_rel { d with stack := rest } w s.writes hsto
    simp only [hd, List.length_cons] at hlen
    have hx := VRel_mkKnown hst.1
    split
    · -- the loaded tree is over the size limit: an opaque value is pushed instead
      rw [pushOut_ok _ _ _ (by rw [h1]; simp only []; omega)]
      refine ⟨rfl, ?_, ⟨?_, ?_⟩, h3, ?_⟩
      · simp only [List.length_cons, h1]; omega
      · exact VRel_of_none (evalSV_value _ _ _)
      · rw [h1]; exact hst.2
      · rw [h2]; exact hmem
    · rw [pushOut_ok _ _ _ (by rw [h1]; simp only []; omega)]
      refine ⟨rfl, ?_, ⟨?_, ?_⟩, h3, ?_⟩
      · simp only [List.length_cons, h1]; omega
      · rw [sload_eq, hx]; exact h4
      · rw [h1]; exact hst.2
      · rw [h2]; exact hmem

theorem step_sstore (c : Ctx) (code : List Disasm.Instr) (d : TData)
    (ctr : Nat) (s : EVM.CS) (pcv csz : Nat) (hR : Rel d s)
    (hkey : ∀ k rest, d.stack = k :: rest → ∃ w, k = mkKnown w) :
    StepSim (execOp c code (.op 0x55) d ctr) (refStep pcv csz (.op 0x55) s) := by
  rw [refStep_sstore pcv csz 0x55 s rfl, execOp_sstore_eq]
  obtain ⟨hlen, hst, hsto, hmem⟩ := hR
  rcases hd : d.stack with _ | ⟨key, _ | ⟨v, rest⟩⟩ <;>
    rcases hs : s.stack with _ | ⟨x, _ | ⟨y, ns⟩⟩ <;> rw [hd, hs] at hst <;> simp at hst
  · rw [popN_nil 1 d hd]; rfl
  · rw [popN2_one d key hd]; rfl
  · obtain ⟨w, rfl⟩ := hkey key _ hd
    rw [popN2_ok d _ v rest hd]
    simp only [hd, List.length_cons] at hlen
    have hx := VRel_mkKnown hst.1
    subst hx
    simp only []
    rw [stStore_known _ _ v (isKnownKey_mkKnown w)]
    refine ⟨rfl, by simp only []; omega, hst.2.2, ?_, hmem⟩
    intro w'
    simp only []
    by_cases hww : w' = w
    · subst hww
      obtain ⟨pre, written, hg, hpre, hrel⟩ := hsto w'
      refine ⟨pre, written ++ [v], ?_, hpre, ?_⟩
      · rw [lookupSV_update_same]
        simp only [Option.getD_some, gensK]
        rw [hg, List.append_assoc]
      · rw [writesOf_append_same]
        exact LRel_append hrel ⟨hst.2.1, trivial⟩
    · obtain ⟨pre, written, hg, hpre, hrel⟩ := hsto w'
      refine ⟨pre, written, ?_, hpre, ?_⟩
      · rw [lookupSV_update_other _ _ _ _ (fun h => hww (mkKnown_inj h).symm)]
        exact hg
      · rw [writesOf_append_other _ _ _ _ (fun h => hww (BitVec.eq_of_toNat_eq h).symm)]
        exact hrel


theorem memGetC_rel (d : TData) (k : Nat) :
    (memGetC d k).1 = cellVal d.memC k ∧ (memGetC d k).2.stack = d.stack ∧
    (memGetC d k).2.stK = d.stK ∧ ∀ k', cellVal (memGetC d k).2.memC k' = cellVal d.memC k' := by
  unfold memGetC
  cases hl : d.memC.lookup k with
  | some cells => exact ⟨by simp [cellVal, hl], rfl, rfl, fun _ => rfl⟩
  | none => exact ⟨by simp [cellVal, hl], rfl, rfl, fun k' => cellVal_append_zero _ _ _ hl⟩

theorem step_mload (c : Ctx) (code : List Disasm.Instr) (d : TData)
    (ctr : Nat) (s : EVM.CS) (pcv csz : Nat) (hR : Rel d s)
    (hoff : ∀ k rest, d.stack = k :: rest → ∃ w, k = mkKnown w ∧ w.toNat < 2 ^ 64) :
    StepSim (execOp c code (.op 0x51) d ctr) (refStep pcv csz (.op 0x51) s) := by
  rw [refStep_mload pcv csz 0x51 s rfl]
  obtain ⟨hlen, hst, hsto, hmem⟩ := hR
  rcases hd : d.stack with _ | ⟨off, rest⟩ <;>
    rcases hs : s.stack with _ | ⟨x, ns⟩ <;> rw [hd, hs] at hst <;> simp at hst
  · rw [execOp_mload_nil c code d ctr hd]; rfl
  · obtain ⟨w, rfl, hsmall⟩ := hoff off rest hd
    rw [execOp_mload_ok c code d ctr _ rest hd, memLoad_const _ _ w (fold_mkKnown w),
      asUsize_small w hsmall]
    obtain ⟨h1, h2, h3, h4⟩ := memGetC_rel { d with stack := rest } w.toNat
    simp only [hd, List.length_cons] at hlen
    rw [pushOut_ok _ _ _ (by rw [h2]; simp only []; omega)]
    have hx := VRel_mkKnown hst.1
    subst hx
    refine ⟨rfl, ?_, ⟨?_, ?_⟩, ?_, ?_⟩
    · simp only [List.length_cons, h2]; omega
    · rw [h1]; exact hmem w.toNat
    · rw [h2]; exact hst.2
    · rw [h3]; exact hsto
    · intro k'
      simp only []
      rw [h4]; exact hmem k'

theorem step_mstore (c : Ctx) (code : List Disasm.Instr) (d : TData)
    (ctr : Nat) (s : EVM.CS) (pcv csz : Nat) (hR : Rel d s)
    (hoff : ∀ k rest, d.stack = k :: rest → ∃ w, k = mkKnown w ∧ w.toNat < 2 ^ 64) :
    StepSim (execOp c code (.op 0x52) d ctr) (refStep pcv csz (.op 0x52) s) := by
  rw [refStep_mstore pcv csz 0x52 s rfl, execOp_mstore_eq]
  obtain ⟨hlen, hst, hsto, hmem⟩ := hR
  rcases hd : d.stack with _ | ⟨off, _ | ⟨v, rest⟩⟩ <;>
    rcases hs : s.stack with _ | ⟨x, _ | ⟨y, ns⟩⟩ <;> rw [hd, hs] at hst <;> simp at hst
  · rw [popN_nil 1 d hd]; rfl
  · rw [popN2_one d off hd]; rfl
  · obtain ⟨w, rfl, hsmall⟩ := hoff off _ hd
    rw [popN2_ok d _ v rest hd]
    simp only [hd, List.length_cons] at hlen
    have hx := VRel_mkKnown hst.1
    subst hx
    simp only []
    rw [memStore_const _ _ v true w (fold_mkKnown w), asUsize_small w hsmall]
    refine ⟨rfl, by simp only []; omega, hst.2.2, hsto, ?_⟩
    intro k'
    simp only []
    by_cases hk : k' = w.toNat
    · subst hk
      rw [mload_cons_same]
      have : cellVal (updateNat d.memC w.toNat
          (cellsC { d with stack := rest } w.toNat ++ [⟨v, true⟩])) w.toNat = v := by
        simp [cellVal, lookup_updateNat_same]
      rw [this]; exact hst.2.1
    · rw [mload_cons_other _ _ _ _ (fun h => hk h.symm)]
      have : cellVal (updateNat d.memC w.toNat
          (cellsC { d with stack := rest } w.toNat ++ [⟨v, true⟩])) k' = cellVal d.memC k' := by
        simp only [cellVal]
        rw [lookup_updateNat_other _ _ _ _ (fun h => hk h.symm)]
      rw [this]; exact hmem k'


/-- side conditions of the simulation: SLOAD/SSTORE pop a literal key, MLOAD/MSTORE pop a
literal offset that fits the implementation's `usize` -/
def Side (ins : Disasm.Instr) (d : TData) : Prop :=
  match ins with
  | .op b =>
    ((b = 0x54 ∨ b = 0x55) → ∀ k rest, d.stack = k :: rest → ∃ w, k = mkKnown w) ∧
    ((b = 0x51 ∨ b = 0x52) → ∀ k rest, d.stack = k :: rest → ∃ w, k = mkKnown w ∧ w.toNat < 2 ^ 64)
  | _ => True

theorem refStep_unsupported (pcv csz b : Nat) (s : EVM.CS)
    (h1 : ¬ (0x80 ≤ b ∧ b ≤ 0x8f)) (h2 : ¬ (0x90 ≤ b ∧ b ≤ 0x9f)) (h3 : b ≠ 0x50) (h4 : b ≠ 0x58)
    (h5 : b ≠ 0x38) (h6 : ¬ (b = 0x15 ∨ b = 0x19)) (h7 : b ≠ 0x51) (h8 : b ≠ 0x52) (h9 : b ≠ 0x54)
    (h10 : b ≠ 0x55) (h11 : b ∉ aluOk) : refStep pcv csz (.op b) s = .unsupported := by
  have e1 : (0x80 ≤ b && b ≤ 0x8f) = false := by simp; omega
  have e2 : (0x90 ≤ b && b ≤ 0x9f) = false := by simp; omega
  have e3 : (b == 0x50) = false := by simp; omega
  have e4 : (b == 0x58) = false := by simp; omega
  have e5 : (b == 0x38) = false := by simp; omega
  have e6 : (b == 0x15 || b == 0x19) = false := by simp; omega
  have e7 : (b == 0x51) = false := by simp; omega
  have e8 : (b == 0x52) = false := by simp; omega
  have e9 : (b == 0x54) = false := by simp; omega
  have e10 : (b == 0x55) = false := by simp; omega
  have hc : aluOk.contains b = false := by simpa using h11
  simp only [refStep, e1, e2, e3, e4, e5, e6, e7, e8, e9, e10, hc, Bool.false_eq_true, if_false]

/-- T5: one step of the symbolic machine simulates one step of the reference machine, for PUSHn,
DUPn, SWAPn, POP, PC, CODESIZE, ISZERO, NOT, the 19 binary ALU opcodes of `aluOk`, and
SLOAD/SSTORE/MLOAD/MSTORE under the side conditions `Side`. -/
theorem step_sim_partial (c : Ctx) (code : List Disasm.Instr) (ins : Disasm.Instr) (d : TData)
    (ctr : Nat) (s : EVM.CS) (hR : Rel d s) (hside : Side ins d) :
    StepSim (execOp c code ins d ctr) (refStep (c.ip % 2 ^ 256) (c.codeLen % 2 ^ 256) ins s) := by
  cases ins with
  | push n data => exact step_push c code n data d ctr s _ _ hR
  | nop => exact trivial
  | invalid b => exact trivial
  | op b =>
    by_cases h1 : 0x80 ≤ b ∧ b ≤ 0x8f
    · exact step_dup c code b d ctr s _ _ h1 hR
    by_cases h2 : 0x90 ≤ b ∧ b ≤ 0x9f
    · exact step_swap c code b d ctr s _ _ h2 hR
    by_cases h3 : b = 0x50
    · subst h3; exact step_pop c code d ctr s _ _ hR
    by_cases h4 : b = 0x58
    · subst h4; exact step_pc c code d ctr s _ hR
    by_cases h5 : b = 0x38
    · subst h5; exact step_codesize c code d ctr s _ hR
    by_cases h6 : b = 0x15 ∨ b = 0x19
    · exact step_un c code b d ctr s _ _ h6 hR
    by_cases h7 : b = 0x51
    · subst h7; exact step_mload c code d ctr s _ _ hR (hside.2 (Or.inl rfl))
    by_cases h8 : b = 0x52
    · subst h8; exact step_mstore c code d ctr s _ _ hR (hside.2 (Or.inr rfl))
    by_cases h9 : b = 0x54
    · subst h9; exact step_sload c code d ctr s _ _ hR (hside.1 (Or.inl rfl))
    by_cases h10 : b = 0x55
    · subst h10; exact step_sstore c code d ctr s _ _ hR (hside.1 (Or.inr rfl))
    by_cases h11 : b ∈ aluOk
    · exact step_bin c code b d ctr s _ _ h11 hR
    rw [refStep_unsupported _ _ b s h1 h2 h3 h4 h5 h6 h7 h8 h9 h10 h11]
    exact trivial

/-- the initial states are related -/
theorem rel_init : Rel {} {} := by
  refine ⟨by decide, trivial, ?_, ?_⟩
  · intro w; exact ⟨[], [], rfl, Or.inl rfl, trivial⟩
  · intro k; exact VRel_of_eval (by simp [cellVal, zeroCell, mkKnown, evalSV, EVM.mload])


/-- how `EVM.explore` continues (at offset `pc'`) after one `refStep` -/
def exploreAfter (code : Array Nat) (data : List Nat) (fuel pc' : Nat) (s : EVM.CS) :
    RRes → List (EVM.Halt × EVM.CS)
  | .ok s' => EVM.explore {} code data fuel pc' s'
  | .underflow => [(.underflow, s)]
  | .overflow => [(.overflow, s)]
  | .unsupported => [(.unsupported, s)]

/-- the single-byte opcodes covered by `refStep` -/
def scopeOps : List Nat :=
  [0x50, 0x58, 0x38, 0x15, 0x19, 0x51, 0x52, 0x54, 0x55] ++ aluOk

set_option hygiene false in
macro "explore_case" : tactic => `(tactic| (
  simp only [EVM.explore, hpc', if_false, hb, refStep]
  simp only [Nat.reduceBEq, Nat.reduceLeDiff, Nat.reduceSub, Bool.false_eq_true, if_false, if_true,
    decide_true, decide_false, Bool.false_and, Bool.and_false, Bool.and_self, Bool.or_false,
    Bool.or_true, Bool.false_or, Bool.true_or, Bool.or_self, aluOk, List.contains_cons, List.contains_nil,
    EVM.binOp, EVM.terOp, rPush, exploreAfter]
  try (repeat' split) <;> simp_all))

theorem explore_refStep_misc (code : Array Nat) (data : List Nat) (fuel pc : Nat) (s0 : EVM.CS) (b : Nat)
    (hpc : pc < code.size) (hb : code[pc]! = b)
    (hs : b ∈ [0x50, 0x58, 0x38, 0x15, 0x19, 0x51, 0x52, 0x54, 0x55]) :
    EVM.explore {} code data (fuel + 1) pc s0 =
      exploreAfter code data fuel (pc + 1) { s0 with visited := s0.visited ++ [pc] }
        (refStep pc code.size (.op b) { s0 with visited := s0.visited ++ [pc] }) := by
  have hpc' : ¬ pc ≥ code.size := by omega
  simp only [List.mem_cons, List.not_mem_nil, or_false] at hs
  rcases hs with rfl | rfl | rfl | rfl | rfl | rfl | rfl | rfl | rfl
  · explore_case
  · explore_case
  · explore_case
  · explore_case
  · explore_case
  · explore_case
  · explore_case
  · explore_case
  · explore_case

theorem explore_refStep_alu1 (code : Array Nat) (data : List Nat) (fuel pc : Nat) (s0 : EVM.CS) (b : Nat)
    (hpc : pc < code.size) (hb : code[pc]! = b)
    (hs : b ∈ [0x01,0x02,0x03,0x04,0x05,0x06,0x07,0x0a,0x10,0x11]) :
    EVM.explore {} code data (fuel + 1) pc s0 =
      exploreAfter code data fuel (pc + 1) { s0 with visited := s0.visited ++ [pc] }
        (refStep pc code.size (.op b) { s0 with visited := s0.visited ++ [pc] }) := by
  have hpc' : ¬ pc ≥ code.size := by omega
  simp only [List.mem_cons, List.not_mem_nil, or_false] at hs
  rcases hs with rfl | rfl | rfl | rfl | rfl | rfl | rfl | rfl | rfl | rfl
  · explore_case
  · explore_case
  · explore_case
  · explore_case
  · explore_case
  · explore_case
  · explore_case
  · explore_case
  · explore_case
  · explore_case

theorem explore_refStep_alu2 (code : Array Nat) (data : List Nat) (fuel pc : Nat) (s0 : EVM.CS) (b : Nat)
    (hpc : pc < code.size) (hb : code[pc]! = b)
    (hs : b ∈ [0x12,0x13,0x14,0x16,0x17,0x18,0x1b,0x1c,0x1d]) :
    EVM.explore {} code data (fuel + 1) pc s0 =
      exploreAfter code data fuel (pc + 1) { s0 with visited := s0.visited ++ [pc] }
        (refStep pc code.size (.op b) { s0 with visited := s0.visited ++ [pc] }) := by
  have hpc' : ¬ pc ≥ code.size := by omega
  simp only [List.mem_cons, List.not_mem_nil, or_false] at hs
  rcases hs with rfl | rfl | rfl | rfl | rfl | rfl | rfl | rfl | rfl
  · explore_case
  · explore_case
  · explore_case
  · explore_case
  · explore_case
  · explore_case
  · explore_case
  · explore_case
  · explore_case

theorem explore_refStep_dupswap (code : Array Nat) (data : List Nat) (fuel pc : Nat) (s0 : EVM.CS) (b : Nat)
    (hpc : pc < code.size) (hb : code[pc]! = b) (hs : 0x80 ≤ b ∧ b ≤ 0x9f) :
    EVM.explore {} code data (fuel + 1) pc s0 =
      exploreAfter code data fuel (pc + 1) { s0 with visited := s0.visited ++ [pc] }
        (refStep pc code.size (.op b) { s0 with visited := s0.visited ++ [pc] }) := by
  have hpc' : ¬ pc ≥ code.size := by omega
  have e0 : (b == 0x00) = false := by simp; omega
  have e1 : (b == 0xf3) = false := by simp; omega
  have e2 : (b == 0xfd) = false := by simp; omega
  have e3 : (b == 0xfe) = false := by simp; omega
  have e4 : (b == 0xff) = false := by simp; omega
  have e5 : (b == 0x5b) = false := by simp; omega
  have e6 : (b == 0x5f) = false := by simp; omega
  have e7 : (0x60 ≤ b && b ≤ 0x7f) = false := by simp; omega
  by_cases hd : b ≤ 0x8f
  · have e8 : (0x80 ≤ b && b ≤ 0x8f) = true := by simp; omega
    simp only [EVM.explore, hpc', if_false, hb, refStep, e0, e1, e2, e3, e4, e5, e6, e7, e8,
      Bool.false_eq_true, if_true, rPush, exploreAfter]
    cases s0.stack[b - 128]? with
    | none => rfl
    | some v => simp only []; cases EVM.pushStack _ v <;> rfl
  · have e8 : (0x80 ≤ b && b ≤ 0x8f) = false := by simp; omega
    have e9 : (0x90 ≤ b && b ≤ 0x9f) = true := by simp; omega
    simp only [EVM.explore, hpc', if_false, hb, refStep, e0, e1, e2, e3, e4, e5, e6, e7, e8, e9,
      Bool.false_eq_true, if_true, rPush, exploreAfter]
    try (repeat' split) <;> simp_all

/-- `refStep` is the body of `EVM.explore`: on every opcode it covers, one unfolding of `explore`
(without quirks) is `refStep` followed by `explore` at the next offset -/
theorem explore_refStep (code : Array Nat) (data : List Nat) (fuel pc : Nat) (s0 : EVM.CS) (b : Nat)
    (hpc : pc < code.size) (hb : code[pc]! = b) (hs : b ∈ scopeOps ∨ (0x80 ≤ b ∧ b ≤ 0x9f)) :
    EVM.explore {} code data (fuel + 1) pc s0 =
      exploreAfter code data fuel (pc + 1) { s0 with visited := s0.visited ++ [pc] }
        (refStep pc code.size (.op b) { s0 with visited := s0.visited ++ [pc] }) := by
  rcases hs with hs | hs
  · simp only [scopeOps, aluOk, List.cons_append, List.nil_append, List.mem_cons, List.not_mem_nil,
      or_false] at hs
    rcases hs with h | h | h | h | h | h | h | h | h | h | h | h | h | h | h | h | h | h | h | h | h | h | h | h | h | h | h | h
    all_goals subst h
    all_goals first
      | exact explore_refStep_misc code data fuel pc s0 _ hpc hb (by decide)
      | exact explore_refStep_alu1 code data fuel pc s0 _ hpc hb (by decide)
      | exact explore_refStep_alu2 code data fuel pc s0 _ hpc hb (by decide)
  · exact explore_refStep_dupswap code data fuel pc s0 b hpc hb hs


/-- the immediate bytes `EVM.explore` reads for the PUSHn at `pc` (zero beyond the end) -/
def pushBytes (code : Array Nat) (pc n : Nat) : List Nat :=
  (List.range n).map (fun i => if pc + 1 + i < code.size then code[pc + 1 + i]! else 0)

theorem explore_refStep_push (code : Array Nat) (data : List Nat) (fuel pc : Nat) (s0 : EVM.CS) (b : Nat)
    (hpc : pc < code.size) (hb : code[pc]! = b) (hs : 0x60 ≤ b ∧ b ≤ 0x7f) (pcv csz : Nat)
    (hv : beVal (pushBytes code pc (b - 0x5f)) < 2 ^ 256) :
    EVM.explore {} code data (fuel + 1) pc s0 =
      exploreAfter code data fuel (pc + 1 + (b - 0x5f)) { s0 with visited := s0.visited ++ [pc] }
        (refStep pcv csz (.push (b - 0x5f) (pushBytes code pc (b - 0x5f)))
          { s0 with visited := s0.visited ++ [pc] }) := by
  have hpc' : ¬ pc ≥ code.size := by omega
  have e0 : (b == 0x00) = false := by simp; omega
  have e1 : (b == 0xf3) = false := by simp; omega
  have e2 : (b == 0xfd) = false := by simp; omega
  have e3 : (b == 0xfe) = false := by simp; omega
  have e4 : (b == 0xff) = false := by simp; omega
  have e5 : (b == 0x5b) = false := by simp; omega
  have e6 : (b == 0x5f) = false := by simp; omega
  have e7 : (0x60 ≤ b && b ≤ 0x7f) = true := by simp; omega
  have hval : beVal (pushBytes code pc (b - 0x5f)) % 2 ^ 256 =
      (List.range (b - 0x5f)).foldl (fun acc i => acc * 256 +
        (if pc + 1 + i < code.size then code[pc + 1 + i]! else 0)) 0 := by
    rw [Nat.mod_eq_of_lt hv, beVal, pushBytes, List.foldl_map]
  simp only [EVM.explore, hpc', if_false, hb, refStep, e0, e1, e2, e3, e4, e5, e6, e7,
    Bool.false_eq_true, if_true, rPush, exploreAfter, hval]
  generalize (List.range (b - 0x5f)).foldl _ 0 = v
  cases EVM.pushStack _ v <;> rfl


/-- a stack outcome as an outcome of the reference state -/
def liftS (s : EVM.CS) : SRes Nat → RRes
  | .ok st => .ok { s with stack := st }
  | .underflow => .underflow
  | .overflow => .overflow

theorem rPush_eq (s : EVM.CS) (v : Nat) : rPush s v = liftS s (refPush v s.stack) := by
  by_cases h : s.stack.length + 1 > 1024 <;> simp [rPush, EVM.pushStack, refPush, h, liftS]

/-- the polymorphic stack updates of T3, at type `Nat`, are the reference machine's
(`refStep`, hence `EVM.explore` by `explore_refStep`) -/
theorem refStep_stack_ops (pcv csz : Nat) (s : EVM.CS) :
    (∀ n data, refStep pcv csz (.push n data) s = liftS s (refPush (beVal data % 2 ^ 256) s.stack)) ∧
    (∀ b, 0x80 ≤ b ∧ b ≤ 0x8f → refStep pcv csz (.op b) s = liftS s (refDup (b - 0x80) s.stack)) ∧
    (∀ b, 0x90 ≤ b ∧ b ≤ 0x9f → refStep pcv csz (.op b) s = liftS s (refSwap (b - 0x8f) s.stack)) ∧
    refStep pcv csz (.op 0x50) s = liftS s (refPop s.stack) ∧
    refStep pcv csz (.op 0x58) s = liftS s (refPush pcv s.stack) ∧
    refStep pcv csz (.op 0x38) s = liftS s (refPush csz s.stack) := by
  refine ⟨fun n data => rPush_eq s _, fun b hb => ?_, fun b hb => ?_, ?_, ?_, ?_⟩
  · rw [refStep_dup pcv csz b s hb]; unfold refDup
    cases s.stack[b - 0x80]? with
    | none => rfl
    | some v => exact rPush_eq s v
  · rw [refStep_swap pcv csz b s hb]; unfold refSwap
    generalize b - 0x8f = i
    split <;> simp_all [liftS]
  · rw [refStep_pop pcv csz 0x50 s rfl]; unfold refPop
    cases s.stack <;> rfl
  · have : refStep pcv csz (.op 0x58) s = rPush s pcv := by
      simp only [refStep]
      simp only [Nat.reduceBEq, Nat.reduceLeDiff, Bool.false_eq_true, if_false, if_true,
        decide_true, decide_false, Bool.false_and]
    rw [this]; exact rPush_eq s _
  · have : refStep pcv csz (.op 0x38) s = rPush s csz := by
      simp only [refStep]
      simp only [Nat.reduceBEq, Nat.reduceLeDiff, Bool.false_eq_true, if_false, if_true,
        decide_true, decide_false, Bool.false_and]
    rw [this]; exact rPush_eq s _


/-- `StackSim` says in particular: an error is reported exactly when the reference machine
underflows or overflows -/
theorem StackSim_err_iff {o : OpOut} {r : SRes (Option Nat)} (h : StackSim o r) :
    o.err ≠ none ↔ (r = .underflow ∨ r = .overflow) := by
  cases r with
  | ok st => simp [StackSim] at h; simp [h.1]
  | underflow => simp [StackSim] at h; simp [h]
  | overflow => simp [StackSim] at h; simp [h]

/-- T3, PUSHn, in the style of T1: the pushed tree is never wrong (first conjunct, unconditional:
the symbolic stack after the step is the reference update with *some* entry `evalSV v` on top, and
that entry, if evaluable, is the big-endian value of the immediate), and it is exactly the
reference update unless the value-size limit is 0 (second conjunct). -/
theorem push_sim (c : Ctx) (code : List Disasm.Instr) (n : Nat) (data : List Nat) (d : TData)
    (ctr : Nat) :
    (∃ v, StackSim (execOp c code (.push n data) d ctr) (refPush (evalSV v) (d.stack.map evalSV)) ∧
      ∀ r, evalSV v = some r → r = beVal data % 2 ^ 256) ∧
    (1 ≤ c.cfg.valueLimit →
      StackSim (execOp c code (.push n data) d ctr)
        (refPush (some (beVal data % 2 ^ 256)) (d.stack.map evalSV))) :=
  ⟨push_sim_sound c code n data d ctr, push_sim_partial c code n data d ctr⟩

theorem pc_sim (c : Ctx) (code : List Disasm.Instr) (d : TData) (ctr : Nat) :
    (∃ v, StackSim (execOp c code (.op 0x58) d ctr) (refPush (evalSV v) (d.stack.map evalSV)) ∧
      ∀ r, evalSV v = some r → r = c.ip % 2 ^ 256) ∧
    (1 ≤ c.cfg.valueLimit →
      StackSim (execOp c code (.op 0x58) d ctr) (refPush (some (c.ip % 2 ^ 256)) (d.stack.map evalSV))) :=
  ⟨pc_sim_sound c code d ctr, pc_sim_partial c code d ctr⟩

theorem codesize_sim (c : Ctx) (code : List Disasm.Instr) (d : TData) (ctr : Nat) :
    (∃ v, StackSim (execOp c code (.op 0x38) d ctr) (refPush (evalSV v) (d.stack.map evalSV)) ∧
      ∀ r, evalSV v = some r → r = c.codeLen % 2 ^ 256) ∧
    (1 ≤ c.cfg.valueLimit →
      StackSim (execOp c code (.op 0x38) d ctr)
        (refPush (some (c.codeLen % 2 ^ 256)) (d.stack.map evalSV))) :=
  ⟨codesize_sim_sound c code d ctr, codesize_sim_partial c code d ctr⟩

theorem pc_sim_counterexample :
    ¬ StackSim (execOp zeroCtx [] (.op 0x58) {} 0)
      (refPush (some (zeroCtx.ip % 2 ^ 256)) (({} : TData).stack.map evalSV)) := by
  rw [execOp_pc]
  simp [StackSim, refPush, buildKnown, build, SV.mk, childSize, zeroCtx, pushOut, push,
    maxStack, evalSV]

theorem codesize_sim_counterexample :
    ¬ StackSim (execOp zeroCtx [] (.op 0x38) {} 0)
      (refPush (some (zeroCtx.codeLen % 2 ^ 256)) (({} : TData).stack.map evalSV)) := by
  rw [execOp_codesize]
  simp [StackSim, refPush, buildKnown, build, SV.mk, childSize, zeroCtx, pushOut, push,
    maxStack, evalSV]


end SLE.EvmSim
