import SLE.Model.TC
import SLE.Lemmas.TCSlots
import SLE.Lemmas.Layout
/-
C11 (model level): consistently renumbering the constants of a program renumbers the constant
storage slots and leaves every typing judgement untouched.
-/
namespace SLE.Rename
open SLE SLE.SV SLE.TC SLE.TCSlots

/-! ### definitions -/

/-- apply `ρ` to the first attribute -/
def mapHead (ρ : Nat → Nat) : List Nat → List Nat
  | [] => []
  | w :: r => ρ w :: r

/-- the payload of a node after renaming: only `knownData` nodes change -/
def mapAttrs (ρ : Nat → Nat) (k : Kind) (a : List Nat) : List Nat :=
  if k = .knownData then mapHead ρ a else a

mutual
/-- replace the payload `w` of every `knownData` node by `ρ w` -/
def mapConsts (ρ : Nat → Nat) : SV → SV
  | .node k a ks s => .node k (mapAttrs ρ k a) (mapConstsList ρ ks) s
def mapConstsList (ρ : Nat → Nat) : List SV → List SV
  | [] => []
  | x :: xs => mapConsts ρ x :: mapConstsList ρ xs
end

end SLE.Rename

namespace SLE.TC
open SLE SLE.SV SLE.Rename

mutual
/-- the same on registered trees (type variables untouched); lives in `SLE.TC` for dot notation -/
def TV.mapConsts (ρ : Nat → Nat) : TV → TV
  | .node k a ks t => .node k (mapAttrs ρ k a) (TV.mapConstsList ρ ks) t
def TV.mapConstsList (ρ : Nat → Nat) : List TV → List TV
  | [] => []
  | x :: xs => TV.mapConsts ρ x :: TV.mapConstsList ρ xs
end

/-- rename the memo keys, the memoised and the registered trees; `next`, `judgements` unchanged -/
def RegState.mapConsts (ρ : Nat → Nat) (st : RegState) : RegState :=
  { next := st.next
    stable := st.stable.map (fun p => (Rename.mapConsts ρ p.1, TV.mapConsts ρ p.2))
    values := st.values.map (TV.mapConsts ρ)
    judgements := st.judgements }

end SLE.TC

namespace SLE.Rename
open SLE SLE.SV SLE.TC SLE.TCSlots

theorem mapConstsList_eq_map (ρ : Nat → Nat) : ∀ ks, mapConstsList ρ ks = ks.map (mapConsts ρ)
  | [] => rfl
  | x :: xs => by simp only [mapConstsList, List.map_cons, mapConstsList_eq_map ρ xs]

theorem TV.mapConstsList_eq_map (ρ : Nat → Nat) : ∀ ks, TV.mapConstsList ρ ks = ks.map (TV.mapConsts ρ)
  | [] => rfl
  | x :: xs => by simp only [TV.mapConstsList, List.map_cons, TV.mapConstsList_eq_map ρ xs]

/-! ### R1: structural equality, node count and stability are invariant -/

theorem mapHead_inj {ρ : Nat → Nat} (hρ : Function.Injective ρ) {a b : List Nat}
    (h : mapHead ρ a = mapHead ρ b) : a = b := by
  cases a <;> cases b <;> simp only [mapHead, List.cons.injEq, reduceCtorEq] at h ⊢
  exact ⟨hρ h.1, h.2⟩

theorem mapAttrs_beq {ρ : Nat → Nat} (hρ : Function.Injective ρ) (k : Kind) (a b : List Nat) :
    (mapAttrs ρ k a == mapAttrs ρ k b) = (a == b) := by
  unfold mapAttrs
  split
  · rw [Bool.eq_iff_iff]
    simp only [beq_iff_eq]
    exact ⟨mapHead_inj hρ, fun h => by rw [h]⟩
  · rfl

mutual
theorem beq_mapConsts {ρ : Nat → Nat} (hρ : Function.Injective ρ) :
    ∀ (a b : SV), SV.beq (mapConsts ρ a) (mapConsts ρ b) = SV.beq a b
  | .node k1 a1 ks1 s1, .node k2 a2 ks2 s2 => by
    simp only [mapConsts, SV.beq]
    rw [beqList_mapConsts hρ ks1 ks2]
    by_cases hk : k1 = k2
    · subst hk
      rw [mapAttrs_beq hρ]
    · have : (k1 == k2) = false := by simpa using hk
      simp only [this, Bool.false_and]
theorem beqList_mapConsts {ρ : Nat → Nat} (hρ : Function.Injective ρ) :
    ∀ (a b : List SV), SV.beqList (mapConstsList ρ a) (mapConstsList ρ b) = SV.beqList a b
  | [], [] => rfl
  | x :: xs, y :: ys => by
    simp only [mapConstsList, SV.beqList]
    rw [beq_mapConsts hρ x y, beqList_mapConsts hρ xs ys]
  | [], _ :: _ => rfl
  | _ :: _, [] => rfl
end

mutual
theorem nodeCount_mapConsts (ρ : Nat → Nat) : ∀ v, nodeCount (mapConsts ρ v) = nodeCount v
  | .node k a ks s => by simp only [mapConsts, nodeCount, nodeCountList_mapConsts ρ ks]
theorem nodeCountList_mapConsts (ρ : Nat → Nat) : ∀ ks, nodeCountList (mapConstsList ρ ks) = nodeCountList ks
  | [] => rfl
  | x :: xs => by
    simp only [mapConstsList, nodeCountList, nodeCount_mapConsts ρ x, nodeCountList_mapConsts ρ xs]
end

theorem isStable_mapConsts (ρ : Nat → Nat) : ∀ (fuel : Nat) (v : SV),
    isStable fuel (mapConsts ρ v) = isStable fuel v := by
  intro fuel
  induction fuel with
  | zero => intro v; cases v; rfl
  | succ n ih =>
    intro v
    obtain ⟨k, a, ks, s⟩ := v
    simp only [mapConsts, isStable, mapConstsList_eq_map, List.any_map]
    congr 1
    apply List.any_congr rfl
    intro x
    exact ih x

/-! ### R2: registration commutes with renaming -/

theorem regList_mapConsts (ρ : Nat → Nat) (fuel : Nat)
    (ih : ∀ st v, register fuel (st.mapConsts ρ) (mapConsts ρ v)
        = ((register fuel st v).1.mapConsts ρ, (register fuel st v).2.mapConsts ρ)) :
    ∀ (ks : List SV) (st : RegState),
      regList fuel (st.mapConsts ρ) (mapConstsList ρ ks)
        = ((regList fuel st ks).1.mapConsts ρ, TV.mapConstsList ρ (regList fuel st ks).2) := by
  intro ks
  induction ks with
  | nil => intro st; rfl
  | cons c cs ihks =>
    intro st
    simp only [mapConstsList, regList, ih, ihks, TV.mapConstsList]

theorem find_stable_mapConsts {ρ : Nat → Nat} (hρ : Function.Injective ρ) (st : RegState) (v : SV) :
    ((st.mapConsts ρ).stable.find? (fun p => p.1.beq (mapConsts ρ v))).map (·.2)
      = ((st.stable.find? (fun p => p.1.beq v)).map (·.2)).map (TV.mapConsts ρ) := by
  simp only [RegState.mapConsts, List.find?_map, Option.map_map]
  have : ((fun (p : SV × TV) => p.1.beq (mapConsts ρ v)) ∘ fun (p : SV × TV) => (mapConsts ρ p.1, TV.mapConsts ρ p.2))
      = fun (p : SV × TV) => p.1.beq v := by
    funext p
    simp only [Function.comp, beq_mapConsts hρ]
  rw [this]
  rfl

theorem register_mapConsts {ρ : Nat → Nat} (hρ : Function.Injective ρ) :
    ∀ (fuel : Nat) (st : RegState) (v : SV),
      register fuel (st.mapConsts ρ) (mapConsts ρ v)
        = ((register fuel st v).1.mapConsts ρ, (register fuel st v).2.mapConsts ρ) := by
  intro fuel
  induction fuel with
  | zero => intro st v; rfl
  | succ fuel ih =>
    intro st v
    obtain ⟨k, a, ks, s⟩ := v
    have hst : isStable (nodeCount (mapConsts ρ (.node k a ks s)) + 1) (mapConsts ρ (.node k a ks s))
        = isStable (nodeCount (.node k a ks s) + 1) (.node k a ks s) := by
      rw [nodeCount_mapConsts, isStable_mapConsts]
    have hfind := find_stable_mapConsts hρ st (.node k a ks s)
    simp only [mapConsts] at hst hfind ⊢
    rw [register_succ, register_succ, hst, hfind, regList_mapConsts ρ fuel ih]
    cases isStable (nodeCount (.node k a ks s) + 1) (.node k a ks s)
    · simp only [Bool.false_eq_true, if_false]
      simp [RegState.mapConsts, TV.mapConsts]
    · simp only [if_true]
      cases (st.stable.find? (fun p => p.1.beq (.node k a ks s))).map (·.2) with
      | some tvn => rfl
      | none => simp [RegState.mapConsts, TV.mapConsts, mapConsts]

theorem registerAll_fold_mapConsts {ρ : Nat → Nat} (hρ : Function.Injective ρ) :
    ∀ (vs : List SV) (st : RegState),
      (vs.map (mapConsts ρ)).foldl (fun st v => (register (nodeCount v + 1) st v).1) (st.mapConsts ρ)
        = (vs.foldl (fun st v => (register (nodeCount v + 1) st v).1) st).mapConsts ρ := by
  intro vs
  induction vs with
  | nil => intro st; rfl
  | cons v vs ih =>
    intro st
    simp only [List.map_cons, List.foldl_cons, nodeCount_mapConsts, register_mapConsts hρ, ih]

theorem registerAll_mapConsts {ρ : Nat → Nat} (hρ : Function.Injective ρ) (vs : List SV) :
    registerAll (vs.map (mapConsts ρ)) = (registerAll vs).mapConsts ρ :=
  registerAll_fold_mapConsts hρ vs {}

/-! ### R3: the rules do not read constants (outside the two guarded places) -/

@[simp] theorem tv_mapConsts (ρ : Nat → Nat) (t : TV) : (t.mapConsts ρ).tv = t.tv := by
  cases t; rfl

@[simp] theorem kind_mapConsts (ρ : Nat → Nat) (t : TV) : (t.mapConsts ρ).kind = t.kind := by
  cases t; rfl

@[simp] theorem next_mapConsts (ρ : Nat → Nat) (st : RegState) : (st.mapConsts ρ).next = st.next := rfl
@[simp] theorem judgements_mapConsts (ρ : Nat → Nat) (st : RegState) :
    (st.mapConsts ρ).judgements = st.judgements := rfl
@[simp] theorem values_mapConsts (ρ : Nat → Nat) (st : RegState) :
    (st.mapConsts ρ).values = st.values.map (TV.mapConsts ρ) := rfl

theorem infer_mapConsts (ρ : Nat → Nat) (st : RegState) (v : Nat) (e : TE) :
    infer (st.mapConsts ρ) v e = (infer st v e).mapConsts ρ := by
  unfold infer
  split
  · split <;> rfl
  · rfl

theorem inferMany_mapConsts (ρ : Nat → Nat) (vs : List Nat) (e : TE) : ∀ (st : RegState),
    inferMany (st.mapConsts ρ) vs e = (inferMany st vs e).mapConsts ρ := by
  unfold inferMany
  induction vs with
  | nil => intro st; rfl
  | cons v vs ih => intro st; simp only [List.foldl_cons, infer_mapConsts, ih]

theorem bumpNext_mapConsts (ρ : Nat → Nat) (st : RegState) :
    ({ st.mapConsts ρ with next := st.next + 1 } : RegState)
      = RegState.mapConsts ρ { st with next := st.next + 1 } := rfl


theorem mapConstsList_eq_nil (ρ : Nat → Nat) (l : List TV) : TV.mapConstsList ρ l = [] ↔ l = [] := by
  cases l <;> simp [TV.mapConstsList]

theorem mapConstsList_eq_cons (ρ : Nat → Nat) (l : List TV) (x : TV) (xs : List TV) :
    TV.mapConstsList ρ l = x :: xs ↔ ∃ y ys, l = y :: ys ∧ y.mapConsts ρ = x ∧ TV.mapConstsList ρ ys = xs := by
  cases l with
  | nil => simp [TV.mapConstsList]
  | cons c cs =>
    simp only [TV.mapConstsList, List.cons.injEq]
    constructor
    · rintro ⟨rfl, rfl⟩; exact ⟨_, _, ⟨rfl, rfl⟩, rfl, rfl⟩
    · rintro ⟨y, ys, ⟨rfl, rfl⟩, rfl, rfl⟩; exact ⟨rfl, rfl⟩

theorem mapConsts_eq_node (ρ : Nat → Nat) (t : TV) (k : Kind) (a : List Nat) (ks : List TV) (tv : Nat) :
    t.mapConsts ρ = .node k a ks tv ↔
      ∃ a0 ks0, t = .node k a0 ks0 tv ∧ mapAttrs ρ k a0 = a ∧ TV.mapConstsList ρ ks0 = ks := by
  obtain ⟨k0, a0, ks0, tv0⟩ := t
  simp only [TV.mapConsts, TV.node.injEq]
  constructor
  · rintro ⟨rfl, rfl, rfl, rfl⟩
    exact ⟨_, _, ⟨rfl, rfl, rfl, rfl⟩, rfl, rfl⟩
  · rintro ⟨a1, ks1, ⟨rfl, rfl, rfl, rfl⟩, rfl, rfl⟩
    exact ⟨rfl, rfl, rfl, rfl⟩

/-- what the dynamic-array-write rule reads of a key: `(d.kind, d.tv, f.tv)` -/
def dynView : TV → Option (Kind × Nat × Nat)
  | .node .storageSlot _ [.node .dynamicArrayIndex _ [d, f] _] _ => some (d.kind, d.tv, f.tv)
  | _ => none

theorem dynView_mapConsts (ρ : Nat → Nat) (key : TV) : dynView (key.mapConsts ρ) = dynView key := by
  unfold dynView
  split
  · rename_i heq
    simp only [mapConsts_eq_node, mapConstsList_eq_cons, mapConstsList_eq_nil] at heq
    obtain ⟨a0, ks0, rfl, -, c, cs, rfl, ⟨a1, ks1, rfl, -, d0, r1, rfl, rfl, f0, r2, rfl, rfl, rfl⟩, rfl⟩ := heq
    simp
  · rename_i hne
    split
    · exfalso
      rename_i a1 a2 d f t1 t2
      exact hne _ _ _ _ _ _ rfl
    · rfl

/-- what the mapping-access rule reads of a key: `(mattrs, slot.tv, mkey.tv)` -/
def mapView : TV → Option (List Nat × Nat × Nat)
  | .node .mappingIndex mattrs [slot, mkey] _ => some (mattrs, slot.tv, mkey.tv)
  | _ => none

theorem mapView_mapConsts (ρ : Nat → Nat) (key : TV) : mapView (key.mapConsts ρ) = mapView key := by
  unfold mapView
  split
  · rename_i heq
    simp only [mapConsts_eq_node, mapConstsList_eq_cons, mapConstsList_eq_nil] at heq
    obtain ⟨a0, ks0, rfl, rfl, s0, r1, rfl, rfl, m0, r2, rfl, rfl, rfl⟩ := heq
    simp [mapAttrs]
  · rename_i hne
    split
    · exfalso
      exact hne _ _ _ _ rfl
    · rfl

theorem applyRules_storageWrite (st : RegState) (a : List Nat) (key value : TV) (t : Nat) :
    applyRules st (.node .storageWrite a [key, value] t) =
      (match dynView key with
       | some (dk, dt, ft) =>
         if dk == .storageSlot then
           infer (infer (infer (infer (infer st key.tv (.equal value.tv)) value.tv (.equal key.tv))
             key.tv (.equal value.tv)) ft uword) dt (.dynamicArray key.tv)
         else infer (infer st key.tv (.equal value.tv)) value.tv (.equal key.tv)
       | none => infer (infer st key.tv (.equal value.tv)) value.tv (.equal key.tv)) := by
  simp only [applyRules]
  split
  · simp [dynView]
  · rename_i hne
    have : dynView key = none := by
      unfold dynView
      split
      · exact absurd rfl (hne _ _ _ _ _ _)
      · rfl
    rw [this]

theorem applyRules_storageSlot (st : RegState) (a : List Nat) (key : TV) (t : Nat) :
    applyRules st (.node .storageSlot a [key] t) =
      (match mapView key with
       | some (mattrs, sl, mk) =>
         let p := match mattrs with | pr :: _ => (if pr = 0 then 0 else pr - 1) | [] => 0
         let st1 := infer st key.tv uword
         infer (infer { st1 with next := st1.next + 1 } st1.next (.packed [⟨t, p * 256, 256⟩] false))
           sl (.mapping mk st1.next)
       | none => infer st key.tv uword) := by
  simp only [applyRules]
  split
  · simp only [mapView]; rfl
  · rename_i hne
    have : mapView key = none := by
      unfold mapView
      split
      · exact absurd rfl (hne _ _ _ _)
      · rfl
    rw [this]

theorem knownNat_mapConsts (ρ : Nat → Nat) (t : TV) : knownNat (t.mapConsts ρ) = (knownNat t).map ρ := by
  unfold knownNat
  split
  · rename_i heq
    simp only [mapConsts_eq_node] at heq
    obtain ⟨a0, ks0, rfl, ha, -⟩ := heq
    cases a0 with
    | nil => simp [mapAttrs, mapHead] at ha
    | cons w0 r0 =>
      simp only [mapAttrs, mapHead, if_true, List.cons.injEq] at ha
      simp [ha.1]
  · rename_i hne
    split
    · exfalso
      rename_i w r ks tv
      exact hne (ρ w) r (TV.mapConstsList ρ ks) tv (by simp [TV.mapConsts, mapAttrs, mapHead])
    · rfl

/-- the width the `signExtend` rule derives from a literal size -/
def sxWidth (w : Nat) : Option Nat := if w % 2 ^ 64 ≤ 256 then some (w % 2 ^ 64) else none

/-- the width the `callData` rule derives from a foldable size -/
def cdWidth (size : TV) : Option Nat := (applyRules.knownOfFolded size).map (fun b => (b % 2 ^ 64) * 8)

/-- The weakest node-local condition: the two constants the rules read at this node give the same
widths after renaming. -/
def SafeNode (ρ : Nat → Nat) : TV → Prop
  | .node .signExtend _ [size, _] _ => ∀ w, knownNat size = some w → sxWidth (ρ w) = sxWidth w
  | .node .callData _ [_, size] _ => cdWidth (size.mapConsts ρ) = cdWidth size
  | _ => True

theorem applyRules_signExtend (ρ : Nat → Nat) (st : RegState) (a : List Nat) (x y : TV) (t : Nat)
    (hs : SafeNode ρ (.node .signExtend a [x, y] t)) :
    applyRules (st.mapConsts ρ) ((TV.node .signExtend a [x, y] t).mapConsts ρ)
      = (applyRules st (.node .signExtend a [x, y] t)).mapConsts ρ := by
  simp only [SafeNode] at hs
  simp only [applyRules, TV.mapConsts, TV.mapConstsList, tv_mapConsts, infer_mapConsts, knownNat_mapConsts]
  cases hk : knownNat x with
  | none => rfl
  | some w =>
    have := hs w hk
    simp only [sxWidth] at this
    simp only [Option.map_some, this]

theorem applyRules_callData (ρ : Nat → Nat) (st : RegState) (a : List Nat) (x y : TV) (t : Nat)
    (hs : SafeNode ρ (.node .callData a [x, y] t)) :
    applyRules (st.mapConsts ρ) ((TV.node .callData a [x, y] t).mapConsts ρ)
      = (applyRules st (.node .callData a [x, y] t)).mapConsts ρ := by
  simp only [SafeNode, cdWidth] at hs
  simp only [applyRules, TV.mapConsts, TV.mapConstsList, tv_mapConsts, infer_mapConsts, inferMany_mapConsts]
  cases h1 : applyRules.knownOfFolded (y.mapConsts ρ) <;> cases h2 : applyRules.knownOfFolded y <;>
    simp only [h1, h2, Option.map_some, Option.map_none, reduceCtorEq, Option.some.injEq] at hs ⊢
  rw [hs]

theorem applyRules_storageWrite_mapConsts (ρ : Nat → Nat) (st : RegState) (a : List Nat) (x y : TV) (t : Nat) :
    applyRules (st.mapConsts ρ) ((TV.node .storageWrite a [x, y] t).mapConsts ρ)
      = (applyRules st (.node .storageWrite a [x, y] t)).mapConsts ρ := by
  simp only [TV.mapConsts, TV.mapConstsList, applyRules_storageWrite, dynView_mapConsts, tv_mapConsts,
    infer_mapConsts]
  cases dynView x with
  | none => rfl
  | some p =>
    obtain ⟨dk, dt, ft⟩ := p
    simp only
    split <;> rfl

theorem applyRules_storageSlot_mapConsts (ρ : Nat → Nat) (st : RegState) (a : List Nat) (x : TV) (t : Nat) :
    applyRules (st.mapConsts ρ) ((TV.node .storageSlot a [x] t).mapConsts ρ)
      = (applyRules st (.node .storageSlot a [x] t)).mapConsts ρ := by
  simp only [TV.mapConsts, TV.mapConstsList, applyRules_storageSlot, mapView_mapConsts, tv_mapConsts,
    infer_mapConsts]
  cases mapView x with
  | none => rfl
  | some p =>
    obtain ⟨ma, sl, mk⟩ := p
    simp only [next_mapConsts, bumpNext_mapConsts, infer_mapConsts]

/-! the remaining rules, by arity -/

section arity
variable (ρ : Nat → Nat) (st : RegState) (a : List Nat) (t : Nat)

theorem map_tv_mapConstsList (ρ : Nat → Nat) : ∀ r : List TV, (TV.mapConstsList ρ r).map TV.tv = r.map TV.tv
  | [] => rfl
  | x :: xs => by simp [TV.mapConstsList, map_tv_mapConstsList ρ xs]

local macro "rules_simp" : tactic =>
  `(tactic| (simp [applyRules, TV.mapConsts, TV.mapConstsList, infer_mapConsts, inferMany_mapConsts, mapAttrs,
      map_tv_mapConstsList] <;> try (split <;> rfl)))

theorem applyRules_ar0 (k : Kind) :
    applyRules (st.mapConsts ρ) ((TV.node k a [] t).mapConsts ρ)
      = (applyRules st (.node k a [] t)).mapConsts ρ := by
  cases k <;> rules_simp

theorem applyRules_ar1 (k : Kind) (x : TV) :
    applyRules (st.mapConsts ρ) ((TV.node k a [x] t).mapConsts ρ)
      = (applyRules st (.node k a [x] t)).mapConsts ρ := by
  by_cases h : k = .storageSlot
  · subst h; exact applyRules_storageSlot_mapConsts ρ st a x t
  · cases k <;> first | exact absurd rfl h | rules_simp

theorem applyRules_ar2 (k : Kind) (x y : TV) (hs : SafeNode ρ (.node k a [x, y] t)) :
    applyRules (st.mapConsts ρ) ((TV.node k a [x, y] t).mapConsts ρ)
      = (applyRules st (.node k a [x, y] t)).mapConsts ρ := by
  by_cases h1 : k = .signExtend
  · subst h1; exact applyRules_signExtend ρ st a x y t hs
  by_cases h2 : k = .callData
  · subst h2; exact applyRules_callData ρ st a x y t hs
  by_cases h3 : k = .storageWrite
  · subst h3; exact applyRules_storageWrite_mapConsts ρ st a x y t
  cases k <;> first | exact absurd rfl h1 | exact absurd rfl h2 | exact absurd rfl h3 | rules_simp

theorem applyRules_ar3 (k : Kind) (x y z : TV) :
    applyRules (st.mapConsts ρ) ((TV.node k a [x, y, z] t).mapConsts ρ)
      = (applyRules st (.node k a [x, y, z] t)).mapConsts ρ := by
  cases k <;> rules_simp

theorem applyRules_ar4 (k : Kind) (x y z u : TV) :
    applyRules (st.mapConsts ρ) ((TV.node k a [x, y, z, u] t).mapConsts ρ)
      = (applyRules st (.node k a [x, y, z, u] t)).mapConsts ρ := by
  cases k <;> rules_simp

theorem applyRules_ar5 (k : Kind) (x y z u v : TV) :
    applyRules (st.mapConsts ρ) ((TV.node k a [x, y, z, u, v] t).mapConsts ρ)
      = (applyRules st (.node k a [x, y, z, u, v] t)).mapConsts ρ := by
  cases k <;> rules_simp

theorem applyRules_ar6 (k : Kind) (x y z u v w : TV) :
    applyRules (st.mapConsts ρ) ((TV.node k a [x, y, z, u, v, w] t).mapConsts ρ)
      = (applyRules st (.node k a [x, y, z, u, v, w] t)).mapConsts ρ := by
  cases k <;> rules_simp

theorem applyRules_ar7 (k : Kind) (x y z u v w w' : TV) (r : List TV) :
    applyRules (st.mapConsts ρ) ((TV.node k a (x :: y :: z :: u :: v :: w :: w' :: r) t).mapConsts ρ)
      = (applyRules st (.node k a (x :: y :: z :: u :: v :: w :: w' :: r) t)).mapConsts ρ := by
  cases k <;> rules_simp

end arity

/-- R3, strongest node-local form: under the node-local condition `SafeNode`, the rules commute with
renaming on the whole state (so `judgements` and `next` are literally unchanged). -/
theorem applyRules_mapConsts_node (ρ : Nat → Nat) (st : RegState) (t : TV) (hs : SafeNode ρ t) :
    applyRules (st.mapConsts ρ) (t.mapConsts ρ) = (applyRules st t).mapConsts ρ := by
  obtain ⟨k, a, ks, tv⟩ := t
  rcases ks with _ | ⟨x, _ | ⟨y, _ | ⟨z, _ | ⟨u, _ | ⟨v, _ | ⟨w, _ | ⟨w', r⟩⟩⟩⟩⟩⟩⟩
  · exact applyRules_ar0 ρ st a tv k
  · exact applyRules_ar1 ρ st a tv k x
  · exact applyRules_ar2 ρ st a tv k x y hs
  · exact applyRules_ar3 ρ st a tv k x y z
  · exact applyRules_ar4 ρ st a tv k x y z u
  · exact applyRules_ar5 ρ st a tv k x y z u v
  · exact applyRules_ar6 ρ st a tv k x y z u v w
  · exact applyRules_ar7 ρ st a tv k x y z u v w w' r

/-! ### `SafeFor`: the condition on the underlying trees -/

/-- The condition at one node of the runtime tree.
* `signExtend [size, _]` with a literal `size = knownData (w :: _)`: `ρ` keeps the derived width,
  `sxWidth (ρ w) = sxWidth w` (in particular if `ρ w = w`);
* `callData [_, size]`: `ρ` fixes every constant inside `size` (`mapConsts ρ size = size`);
* nothing elsewhere. -/
def SafeTop (ρ : Nat → Nat) : Kind → List SV → Prop
  | .signExtend, [size, _] => ∀ w, Lift.knownOf size = some w → sxWidth (ρ w) = sxWidth w
  | .callData, [_, size] => mapConsts ρ size = size
  | _, _ => True

mutual
/-- `SafeTop` at every node of the tree. -/
def SafeFor (ρ : Nat → Nat) : SV → Prop
  | .node k _ ks _ => SafeTop ρ k ks ∧ SafeForList ρ ks
def SafeForList (ρ : Nat → Nat) : List SV → Prop
  | [] => True
  | x :: xs => SafeFor ρ x ∧ SafeForList ρ xs
end

theorem safeForList_mem (ρ : Nat → Nat) : ∀ (ks : List SV), SafeForList ρ ks → ∀ c ∈ ks, SafeFor ρ c
  | [], _, c, hc => by cases hc
  | x :: xs, h, c, hc => by
    simp only [SafeForList] at h
    rcases List.mem_cons.mp hc with rfl | hc
    · exact h.1
    · exact safeForList_mem ρ xs h.2 c hc

theorem safeFor_kid (ρ : Nat → Nat) : ∀ k a ks s, SafeFor ρ (.node k a ks s) → ∀ c ∈ ks, SafeFor ρ c := by
  intro k a ks s h c hc
  simp only [SafeFor] at h
  exact safeForList_mem ρ ks h.2 c hc

mutual
theorem rep_fixed (ρ : Nat → Nat) : ∀ (t : TV) (v : SV), Rep t v → mapConsts ρ v = v → t.mapConsts ρ = t
  | .node k a ks tv, .node k' a' ks' s, hr, hf => by
    simp only [Rep] at hr
    obtain ⟨rfl, rfl, hl⟩ := hr
    simp only [mapConsts, SV.node.injEq, true_and, and_true] at hf
    simp only [TV.mapConsts, hf.1, repL_fixed ρ ks ks' hl hf.2]
theorem repL_fixed (ρ : Nat → Nat) : ∀ (ts : List TV) (vs : List SV), RepL ts vs → mapConstsList ρ vs = vs →
    TV.mapConstsList ρ ts = ts
  | [], [], _, _ => rfl
  | t :: ts, v :: vs, hr, hf => by
    simp only [RepL] at hr
    simp only [mapConstsList, List.cons.injEq] at hf
    simp only [TV.mapConstsList, rep_fixed ρ t v hr.1 hf.1, repL_fixed ρ ts vs hr.2 hf.2]
  | [], _ :: _, hr, _ => by simp [RepL] at hr
  | _ :: _, [], hr, _ => by simp [RepL] at hr
end

theorem rep_knownNat {t : TV} {v : SV} (hr : Rep t v) : knownNat t = Lift.knownOf v := by
  obtain ⟨k, a, ks, tv⟩ := t
  obtain ⟨k', a', ks', s⟩ := v
  simp only [Rep] at hr
  obtain ⟨rfl, rfl, -⟩ := hr
  unfold knownNat Lift.knownOf
  split
  · rename_i heq; cases heq; rfl
  · rename_i hne
    split
    · rename_i heq; cases heq; exact absurd rfl (hne _ _ _ _)
    · rfl

theorem repL_two {x y : TV} {vs : List SV} (h : RepL [x, y] vs) : ∃ vx vy, vs = [vx, vy] ∧ Rep x vx ∧ Rep y vy := by
  match vs, h with
  | [vx, vy], h => simp only [RepL] at h; exact ⟨vx, vy, rfl, h.1, h.2.1⟩
  | [], h => simp [RepL] at h
  | [_], h => simp [RepL] at h
  | _ :: _ :: _ :: _, h => simp [RepL] at h

/-- a registered node of a `SafeFor` tree satisfies the node-local condition -/
theorem safeNode_of_rep {ρ : Nat → Nat} {t : TV} {v : SV} (hr : Rep t v) (hs : SafeFor ρ v) : SafeNode ρ t := by
  obtain ⟨k', a', ks', s⟩ := v
  simp only [SafeFor] at hs
  have htop := hs.1
  unfold SafeNode
  split
  · simp only [Rep] at hr
    obtain ⟨rfl, rfl, hl⟩ := hr
    obtain ⟨vx, vy, rfl, hx, -⟩ := repL_two hl
    simp only [SafeTop] at htop
    intro w hw
    exact htop w (by rw [← rep_knownNat hx]; exact hw)
  · simp only [Rep] at hr
    obtain ⟨rfl, rfl, hl⟩ := hr
    obtain ⟨vx, vy, rfl, -, hy⟩ := repL_two hl
    simp only [SafeTop] at htop
    rw [rep_fixed ρ _ _ hy htop]
  · trivial

/-- R3 -/
theorem applyRules_mapConsts (ρ : Nat → Nat) (st : RegState) (t : TV) (v : SV) (hr : Rep t v)
    (hs : SafeFor ρ v) :
    (applyRules (st.mapConsts ρ) (t.mapConsts ρ)).judgements = (applyRules st t).judgements
    ∧ (applyRules (st.mapConsts ρ) (t.mapConsts ρ)).next = (applyRules st t).next := by
  rw [applyRules_mapConsts_node ρ st t (safeNode_of_rep hr hs)]
  exact ⟨rfl, rfl⟩

theorem foldl_applyRules_mapConsts (ρ : Nat → Nat) : ∀ (l : List TV) (st : RegState),
    (∀ t ∈ l, SafeNode ρ t) →
    (l.map (TV.mapConsts ρ)).foldl applyRules (st.mapConsts ρ) = (l.foldl applyRules st).mapConsts ρ := by
  intro l
  induction l with
  | nil => intro st _; rfl
  | cons t ts ih =>
    intro st h
    simp only [List.map_cons, List.foldl_cons]
    rw [applyRules_mapConsts_node ρ st t (h t List.mem_cons_self)]
    exact ih _ (fun x hx => h x (List.mem_cons_of_mem _ hx))

/-- R3 lifted, on the whole state -/
theorem inferAll_mapConsts_state (ρ : Nat → Nat) (st : RegState) (hs : ∀ t ∈ st.values, SafeNode ρ t) :
    inferAll (st.mapConsts ρ) = (inferAll st).mapConsts ρ := by
  unfold inferAll
  exact foldl_applyRules_mapConsts ρ st.values st hs

/-- R3 lifted -/
theorem inferAll_mapConsts (ρ : Nat → Nat) (st : RegState)
    (hs : ∀ t ∈ st.values, ∃ v, SafeFor ρ v ∧ Rep t v) :
    (inferAll (st.mapConsts ρ)).judgements = (inferAll st).judgements
    ∧ (inferAll (st.mapConsts ρ)).next = (inferAll st).next := by
  rw [inferAll_mapConsts_state ρ st (fun t ht => by
    obtain ⟨v, hv, hr⟩ := hs t ht
    exact safeNode_of_rep hr hv)]
  exact ⟨rfl, rfl⟩

/-! ### R4 -/

theorem registerAll_safe (ρ : Nat → Nat) (vs : List SV) (hs : ∀ v ∈ vs, SafeFor ρ v) :
    ∀ t ∈ (registerAll vs).values, SafeNode ρ t := by
  intro t ht
  obtain ⟨inv, -⟩ := registerAll_spec (SafeFor ρ) (safeFor_kid ρ) vs hs
  obtain ⟨v, hv, hr⟩ := inv.vals t ht
  exact safeNode_of_rep hr hv

/-- the whole inferred state of the renamed program is the renamed inferred state -/
theorem inferAll_registerAll_mapConsts {ρ : Nat → Nat} (hρ : Function.Injective ρ) (vs : List SV)
    (hs : ∀ v ∈ vs, SafeFor ρ v) :
    inferAll (registerAll (vs.map (mapConsts ρ))) = (inferAll (registerAll vs)).mapConsts ρ := by
  rw [registerAll_mapConsts hρ, inferAll_mapConsts_state ρ _ (registerAll_safe ρ vs hs)]

/-- R4 -/
theorem judgements_independent_of_constants {ρ : Nat → Nat} (hρ : Function.Injective ρ) (vs : List SV)
    (hs : ∀ v ∈ vs, SafeFor ρ v) :
    (inferAll (registerAll (vs.map (mapConsts ρ)))).judgements = (inferAll (registerAll vs)).judgements
    ∧ (inferAll (registerAll (vs.map (mapConsts ρ)))).next = (inferAll (registerAll vs)).next := by
  rw [inferAll_registerAll_mapConsts hρ vs hs]
  exact ⟨rfl, rfl⟩

/-- R4, the registered values correspond (no `SafeFor` needed) -/
theorem registerAll_values_mapConsts {ρ : Nat → Nat} (hρ : Function.Injective ρ) (vs : List SV) :
    (registerAll (vs.map (mapConsts ρ))).values = (registerAll vs).values.map (TV.mapConsts ρ) := by
  rw [registerAll_mapConsts hρ]
  rfl

/-- R4, the constant storage slots are renumbered by `ρ` (any `t`, any `ρ`) -/
theorem isConstSlot_mapConsts (ρ : Nat → Nat) (t : TV) :
    isConstSlot (t.mapConsts ρ) = (isConstSlot t).map ρ := by
  unfold isConstSlot
  split
  · rename_i heq
    simp only [mapConsts_eq_node, mapConstsList_eq_cons, mapConstsList_eq_nil] at heq
    obtain ⟨a0, ks0, rfl, -, c, cs, rfl, ⟨a1, ks1, rfl, ha, -⟩, rfl⟩ := heq
    cases a1 with
    | nil => simp [mapAttrs, mapHead] at ha
    | cons w0 r0 =>
      simp only [mapAttrs, mapHead, if_true, List.cons.injEq] at ha
      simp [ha.1]
  · rename_i hne
    split
    · exfalso
      rename_i sa w r ks tv tv'
      exact hne (mapAttrs ρ .storageSlot sa) (ρ w) r (TV.mapConstsList ρ ks) tv tv'
        (by simp [TV.mapConsts, TV.mapConstsList, mapAttrs, mapHead])
    · rfl

/-! ### R5: the layout -/

/-- `analyse` after `liftValues` (verbatim tail of the definition) -/
def analyseLifted (o : Unify.Orders) (fuel : Nat) (lifted : List SV) : Analysis :=
    let st0 := registerAll lifted
    let st := inferAll st0
    let infs := infSets st.judgements
    let infOf := fun v => (infs.lookup v).getD []
    match Unify.unify o fuel st.next infOf with
    | .error e => ⟨st0.next, st.next, infs, .unifyFault e⟩
    | .ok (f, _, _) =>
      match layoutEntries (typeOfIn f) 4096 st0.values with
      | .error e => ⟨st0.next, st.next, infs, .renderFault e⟩
      | .ok es => ⟨st0.next, st.next, infs, .layout (Layout.buildLayout es)⟩

theorem analyse_eq_analyseLifted (h : Lift.HashCtx) (o : Unify.Orders) (fuel : Nat) (vs lifted : List SV)
    (hl : liftValues h (uniqueSV vs) = .ok lifted) : analyse h o fuel vs = analyseLifted o fuel lifted := by
  unfold analyse analyseLifted
  rw [hl]
  rfl

/-- renumber the slot of a layout entry -/
def reindex {α : Type} (ρ : Nat → Nat) (e : Layout.Entry α) : Layout.Entry α := ⟨ρ e.index, e.offset, e.typ⟩

theorem layoutEntries_mapConsts (ρ : Nat → Nat) (typeOf : Nat → Except RErr TE) (fuel : Nat) :
    ∀ (vals : List TV), layoutEntries typeOf fuel (vals.map (TV.mapConsts ρ))
      = (match layoutEntries typeOf fuel vals with
         | .error e => .error e
         | .ok es => .ok (es.map (reindex ρ))) := by
  intro vals
  induction vals with
  | nil => rfl
  | cons v vs ih =>
    simp only [List.map_cons, layoutEntries, isConstSlot_mapConsts, tv_mapConsts]
    cases isConstSlot v with
    | none => exact ih
    | some w =>
      simp only [Option.map_some]
      cases abiTypeFor typeOf fuel v.tv [] false with
      | error e => rfl
      | ok p =>
        obtain ⟨av, sn⟩ := p
        simp only [ih]
        cases layoutEntries typeOf fuel vs with
        | error e => rfl
        | ok r =>
          cases av with
          | type ty => simp [reindex]
          | packed ps => simp [reindex, Function.comp_def]

/-- R5 -/
theorem layout_renumbered {ρ : Nat → Nat} (hρ : Function.Injective ρ) (o : Unify.Orders) (fuel : Nat)
    (lifted : List SV) (hs : ∀ v ∈ lifted, SafeFor ρ v) :
    (∀ l, (analyseLifted o fuel lifted).outcome = .layout l →
      ∃ l', (analyseLifted o fuel (lifted.map (mapConsts ρ))).outcome = .layout l'
        ∧ l'.Perm (l.map (reindex ρ)))
    ∧ (∀ l', (analyseLifted o fuel (lifted.map (mapConsts ρ))).outcome = .layout l' →
      ∃ l, (analyseLifted o fuel lifted).outcome = .layout l ∧ l'.Perm (l.map (reindex ρ))) := by
  unfold analyseLifted
  simp only [registerAll_mapConsts hρ, inferAll_mapConsts_state ρ _ (registerAll_safe ρ lifted hs),
    judgements_mapConsts, next_mapConsts, values_mapConsts, layoutEntries_mapConsts]
  cases Unify.unify o fuel (inferAll (registerAll lifted)).next
      (fun v => ((infSets (inferAll (registerAll lifted)).judgements).lookup v).getD []) with
  | error e => constructor <;> (intro l h; cases h)
  | ok r =>
    obtain ⟨f, x, y⟩ := r
    simp only
    cases layoutEntries (typeOfIn f) 4096 (registerAll lifted).values with
    | error e => constructor <;> (intro l h; cases h)
    | ok es =>
      simp only [Outcome.layout.injEq]
      have hp : (Layout.buildLayout (es.map (reindex ρ))).Perm ((Layout.buildLayout es).map (reindex ρ)) :=
        (Layout.buildLayout_perm _).trans ((Layout.buildLayout_perm es).map (reindex ρ)).symm
      constructor
      · rintro l rfl; exact ⟨_, rfl, hp⟩
      · rintro l' rfl; exact ⟨_, rfl, hp⟩

/-- R5, the rest of the analysis record: counters and inference sets are unchanged, and a fault of
either run is the same fault of the other. -/
theorem analyseLifted_mapConsts_rest {ρ : Nat → Nat} (hρ : Function.Injective ρ) (o : Unify.Orders) (fuel : Nat)
    (lifted : List SV) (hs : ∀ v ∈ lifted, SafeFor ρ v) :
    (analyseLifted o fuel (lifted.map (mapConsts ρ))).registered = (analyseLifted o fuel lifted).registered
    ∧ (analyseLifted o fuel (lifted.map (mapConsts ρ))).allocated = (analyseLifted o fuel lifted).allocated
    ∧ (analyseLifted o fuel (lifted.map (mapConsts ρ))).infs = (analyseLifted o fuel lifted).infs
    ∧ (∀ e, (analyseLifted o fuel (lifted.map (mapConsts ρ))).outcome = .unifyFault e
          ↔ (analyseLifted o fuel lifted).outcome = .unifyFault e)
    ∧ (∀ e, (analyseLifted o fuel (lifted.map (mapConsts ρ))).outcome = .renderFault e
          ↔ (analyseLifted o fuel lifted).outcome = .renderFault e) := by
  unfold analyseLifted
  simp only [registerAll_mapConsts hρ, inferAll_mapConsts_state ρ _ (registerAll_safe ρ lifted hs),
    judgements_mapConsts, next_mapConsts, values_mapConsts, layoutEntries_mapConsts]
  cases Unify.unify o fuel (inferAll (registerAll lifted)).next
      (fun v => ((infSets (inferAll (registerAll lifted)).judgements).lookup v).getD []) with
  | error e => simp
  | ok r =>
    obtain ⟨f, x, y⟩ := r
    simp only
    cases layoutEntries (typeOfIn f) 4096 (registerAll lifted).values with
    | error e => simp
    | ok es => simp

/-! ### about `SafeFor` -/

/-- `SafeTop` is implied node-wise by the simplest condition ("`ρ` fixes every constant inside the
`size` operand of a `signExtend` / the second operand of a `callData`"). -/
theorem safeTop_of_fixed (ρ : Nat → Nat) (k : Kind) (ks : List SV)
    (h : match k, ks with
      | .signExtend, [size, _] => mapConsts ρ size = size
      | .callData, [_, size] => mapConsts ρ size = size
      | _, _ => True) : SafeTop ρ k ks := by
  unfold SafeTop
  split
  · intro w hw
    simp only at h
    rename_i size _
    unfold Lift.knownOf at hw
    split at hw
    · cases hw
      simp only [mapConsts, mapAttrs, mapHead, if_true, SV.node.injEq, List.cons.injEq, true_and, and_true] at h
      rw [h.1]
    · cases hw
  · exact h
  · trivial

/-- a literal `signExtend` size that `ρ` fixes satisfies the `SafeTop` clause -/
theorem sxWidth_of_fixed {ρ : Nat → Nat} {w : Nat} (h : ρ w = w) : sxWidth (ρ w) = sxWidth w := by rw [h]

/-- `SafeFor` cannot be dropped from R4: renaming the literal size of a `signExtend` changes the width
in the judgement. -/
example :
    let v : SV := .node .signExtend [] [.node .knownData [0] [] 1, .node .value [7] [] 1] 3
    let ρ : Nat → Nat := fun n => n + 1
    (inferAll (registerAll ([v].map (mapConsts ρ)))).judgements ≠ (inferAll (registerAll [v])).judgements := by
  decide

/-- a renaming that moves slot 0 ↦ 5 in `sstore(slot 0, value)`: the registered constant slot moves. -/
example :
    let v : SV := .node .storageWrite [] [.node .storageSlot [] [.node .knownData [0] [] 1] 2, .node .value [7] [] 1] 4
    let ρ : Nat → Nat := fun n => n + 5
    ((registerAll ([v].map (mapConsts ρ))).values.filterMap isConstSlot = [5])
    ∧ ((registerAll [v]).values.filterMap isConstSlot = [0]) := by
  decide

#print axioms beq_mapConsts
#print axioms isStable_mapConsts
#print axioms register_mapConsts
#print axioms registerAll_mapConsts
#print axioms applyRules_mapConsts
#print axioms applyRules_mapConsts_node
#print axioms inferAll_mapConsts
#print axioms inferAll_mapConsts_state
#print axioms judgements_independent_of_constants
#print axioms registerAll_values_mapConsts
#print axioms isConstSlot_mapConsts
#print axioms analyse_eq_analyseLifted
#print axioms layout_renumbered
#print axioms analyseLifted_mapConsts_rest

end SLE.Rename
