/-
Round-trip proofs for the JSON model (`SLE/Model/Json.lean`): hex words, `decode ∘ encode`,
`decodeSlot ∘ encodeSlot`.  Core only.
-/
import SLE.Model.Json

namespace SLE.JsonModel

/-! ### Hex words -/

theorem hexVal_hexChar (d : Nat) (h : d < 16) : hexVal (hexChar d) = some d := by
  have key : ∀ i : Fin 16, hexVal (hexChar i.val) = some i.val := by decide
  exact key ⟨d, h⟩

theorem hexDigits_length (k n : Nat) : (hexDigits k n).length = k := by
  induction k generalizing n with
  | zero => rfl
  | succ k ih => simp [hexDigits, ih]

theorem toHex64_length (n : Nat) : (toHex64 n).length = 66 := by
  simp [toHex64, hexDigits_length]

theorem toHex64_prefix (n : Nat) : (toHex64 n).take 2 = ['0', 'x'] := by
  simp [toHex64]

theorem parseDigits_append (l r : List Char) (acc : Nat) :
    parseDigits (l ++ r) acc = (parseDigits l acc).bind (parseDigits r) := by
  induction l generalizing acc with
  | nil => rfl
  | cons c cs ih =>
    simp only [List.cons_append, parseDigits]
    cases hexVal c with
    | none => rfl
    | some d => exact ih _

theorem parseDigits_hexDigits (k n acc : Nat) :
    parseDigits (hexDigits k n) acc = some (acc * 16 ^ k + n % 16 ^ k) := by
  induction k generalizing n with
  | zero => simp [hexDigits, parseDigits, Nat.mod_one]
  | succ k ih =>
    have hd : n % 16 < 16 := Nat.mod_lt _ (by decide)
    simp only [hexDigits, parseDigits_append, ih, Option.bind_some, parseDigits,
      hexVal_hexChar _ hd]
    congr 1
    rw [Nat.pow_succ, Nat.mul_comm (16 ^ k) 16, Nat.mod_mul]
    simp only [Nat.add_mul, Nat.mul_assoc, Nat.mul_comm (16 ^ k) 16]
    omega

theorem hexDigits_ne_nil (k n : Nat) : hexDigits (k + 1) n ≠ [] := by
  simp [hexDigits]

theorem parseHex_toHex64 (n : Nat) (h : n < 2 ^ 256) : parseHex (toHex64 n) = some n := by
  have h16 : (16 : Nat) ^ 64 = 2 ^ 256 := by decide
  simp only [toHex64, parseHex, hexDigits_ne_nil, if_false, parseDigits_hexDigits, Nat.zero_mul,
    Nat.zero_add, h16, Nat.mod_eq_of_lt h, h, if_true]

/-! ### Well-formedness: every fixed array length fits 256 bits -/

mutual
/-- Every `array` size occurring anywhere inside the type is `< 2^256`. -/
def WFAbi : AbiType → Prop
  | .array n t => n < 2 ^ 256 ∧ WFAbi t
  | .dynArray t => WFAbi t
  | .mapping k v => WFAbi k ∧ WFAbi v
  | .struct es => WFElems es
  | _ => True
def WFElems : List StructElement → Prop
  | [] => True
  | .mk _ t :: r => WFAbi t ∧ WFElems r
end

/-! ### decode ∘ encode -/

theorem decOptNat_encOptNat (s : Option Nat) : decOptNat (encOptNat s) = some s := by
  cases s <;> rfl

theorem decStrs_map_str (l : List String) : decStrs (l.map Json.str) = some l := by
  induction l with
  | nil => rfl
  | cons s r ih => simp [decStrs, ih]

mutual
theorem decode_encode : ∀ (t : AbiType), WFAbi t → decode (encode t) = some t
  | .any, _ => by simp [encode, decode]
  | .number s, _ => by simp [encode, decode, decOptNat_encOptNat]
  | .uInt s, _ => by simp [encode, decode, decOptNat_encOptNat]
  | .int s, _ => by simp [encode, decode, decOptNat_encOptNat]
  | .address, _ => by simp [encode, decode]
  | .selector, _ => by simp [encode, decode]
  | .function, _ => by simp [encode, decode]
  | .bool, _ => by simp [encode, decode]
  | .array n t, h => by
    have h' : n < 2 ^ 256 ∧ WFAbi t := by simpa [WFAbi] using h
    simp [encode, decode, String.toList_ofList, parseHex_toHex64 n h'.1, decode_encode t h'.2]
  | .bytes l, _ => by simp [encode, decode, decOptNat_encOptNat]
  | .bits l, _ => by simp [encode, decode, decOptNat_encOptNat]
  | .dynArray t, h => by
    have h' : WFAbi t := by simpa [WFAbi] using h
    simp [encode, decode, decode_encode t h']
  | .dynBytes, _ => by simp [encode, decode]
  | .mapping k v, h => by
    have h' : WFAbi k ∧ WFAbi v := by simpa [WFAbi] using h
    simp [encode, decode, decode_encode k h'.1, decode_encode v h'.2]
  | .struct es, h => by
    have h' : WFElems es := by simpa [WFAbi] using h
    simp [encode, decode, decodeElems_encodeElems es h']
  | .infiniteType, _ => by simp [encode, decode]
  | .conflictedType c r, _ => by simp [encode, decode, encStrs, decStrs_map_str]
theorem decodeElems_encodeElems :
    ∀ (es : List StructElement), WFElems es → decodeElems (encodeElems es) = some es
  | [], _ => by simp [encodeElems, decodeElems]
  | .mk off t :: r, h => by
    have h' : WFAbi t ∧ WFElems r := by simpa [WFElems] using h
    simp [encodeElems, decodeElems, decode_encode t h'.1, decodeElems_encodeElems r h'.2]
end

/-! ### Storage slots -/

theorem decodeSlot_encodeSlot (s : StorageSlot) (hi : s.index < 2 ^ 256) (ht : WFAbi s.typ) :
    decodeSlot (encodeSlot s) = some s := by
  cases s with
  | mk i o t =>
    simp only at hi ht
    simp [encodeSlot, decodeSlot, String.toList_ofList, parseHex_toHex64 i hi, decode_encode t ht]

/-! ### Non-vacuity (closed instances) -/

/-- A deep type using a conflict payload, nested struct, 256-bit-boundary array and a mapping. -/
def exTyp : AbiType :=
  .mapping .address
    (.struct [.mk 0 (.array (2 ^ 255) (.conflictedType ["a"] ["b"])), .mk 8 .bool])

def exSlot : StorageSlot := ⟨2 ^ 256 - 1, 255, exTyp⟩

example : WFAbi exTyp := by simp [exTyp, WFAbi, WFElems]

example : parseHex (toHex64 (2 ^ 256 - 1)) = some (2 ^ 256 - 1) := by decide
example : parseHex (toHex64 0) = some 0 := by decide
example : toHex64 255 = "0x00000000000000000000000000000000000000000000000000000000000000ff".toList := by
  decide
/-- The bound is needed: `2^256` does not survive (it wraps to 64 zero digits). -/
example : parseHex (toHex64 (2 ^ 256)) = some 0 := by decide

example : decode (encode exTyp) = some exTyp := by rfl
example : decodeSlot (encodeSlot exSlot) = some exSlot := by rfl
example : decodeSlot (encodeSlot exSlot) = some exSlot :=
  decodeSlot_encodeSlot exSlot (by decide) (by simp [exSlot, exTyp, WFAbi, WFElems])

example : decode (encode (.array (2 ^ 256 - 1) (.dynArray (.number (some 256))))) =
    some (.array (2 ^ 256 - 1) (.dynArray (.number (some 256)))) := by rfl
/-- Rejections: the decoder is not the constant function. -/
example : decode (.str "nonsense") = none := by decide
example : decode (.obj [("array", .obj [("size", .str "0x"), ("type", .str "any")])]) = none := by
  decide

end SLE.JsonModel
