import SLE.Lemmas.Independence
import SLE.Lemmas.UnifyJoin
import SLE.Lemmas.Layout
import SLE.Lemmas.IdiomsE2E
/-!
C11, last step for WORD-ONLY evidence: the layout of two independent fragments is the union of
their layouts.

`Independence.lean` carries separation through registration, the rules, the initial forest and the
whole unification; `UnifyJoin.lean` gives, for word-only evidence, a closed form of the unification
result (classes = equality closure, class type = fold of all the members' evidence).  Here the two
are put together.  Standing hypotheses: `Disjoint vs ws` and
`WordOnly (infOf (vs ++ ws)) (nvarsOf (vs ++ ws))` (ONLY the joint judgement set is assumed
word-only; `wordOnly_left` / `wordOnly_right` derive it for each fragment alone).

* `classEvIn_joint`: the evidence set of the class of `rA vs ws a` in the joint input is the evidence
  set of the class of `a` in `A`'s input (same for `B`).
* `U1_general` / `U1_general_right` (J2 form): both runs resolve the class to `foldMerge` of
  duplicate-free enumerations (permutations of each other) of that set.
* `U1_left` / `U1_right`: `evidence f (rA vs ws a) = evidence fA a`, for ALL classes — with words, `any`
  and `conflict` only there is no absorbing constructor, hence no bad triple, and the class fold is
  order-free (`foldMerge_perm`), contradictory evidence included.  `U1_left_orderFree` /
  `U1_right_orderFree` are the statements with the (superfluous) hypothesis "compatible or contains
  a contradictory pair", proved independently through J3a / J3a_least / J3b.
* `typeOfIn_left` / `typeOfIn_right`, `layoutEntries_left` / `layoutEntries_right`: the same for
  `type_of` (needs: every declared variable's root holds an inference set, `unify_present`) and for
  the layout loop (`abiTypeFor` on a word reads nothing else).
* `U2_layout_union` (`l = buildLayout (esA ++ esB)` with `lA = buildLayout esA`, `lB = buildLayout esB`),
  `U2_layout_eq` (`l = buildLayout (lA ++ lB)`), `U2_layout_perm` (`l.Perm (lA ++ lB)`), `U2_exists`
  (the joint layout exists for every budget ≥ 2 once both separate layouts exist), `U2` (task form).
* `U3`, `exC_union`: concrete fragments, one of them with contradictory evidence.
-/
namespace SLE.FragUnion
open SLE SLE.SV SLE.TC SLE.Containers SLE.Unify SLE.Merge SLE.MergeLaws SLE.Layout SLE.Join SLE.OrderFacts
open SLE.Independence SLE.UnifyJoin
open SLE.Rename (analyseLifted)
set_option linter.unusedVariables false
set_option linter.unusedSimpArgs false

/-! ## 0. Word-only-ness of the fragments -/

theorem mapTE_wa {ρ : Nat → Nat} {e : TE} (h : (∃ w u, mapTE ρ e = .word w u) ∨ mapTE ρ e = .any) :
    (∃ w u, e = .word w u) ∨ e = .any := by
  cases e <;> simp [mapTE] at h ⊢

theorem mapTE_wac {ρ : Nat → Nat} {e : TE} (h : WAC e) : mapTE ρ e = e := by
  rcases h with ⟨w, u, rfl⟩ | rfl | rfl <;> rfl

/-- membership in the joint inference sets of the image of a fragment's judgement -/
theorem mem_infOf_left (vs ws : List SV) (hd : Disjoint vs ws) {a : Nat} {e : TE}
    (h : e ∈ infOf vs a) : mapTE (rA vs ws) e ∈ infOf (vs ++ ws) (rA vs ws a) := by
  have hq : Q (judgementsOf vs) a e := by
    unfold infOf at h; exact (OrderFacts.mem_infSets _ _ _).mp h
  have : Q (judgementsOf (vs ++ ws)) (rA vs ws a) (mapTE (rA vs ws) e) := by
    rw [judgementsOf_append vs ws hd, Q_append]
    exact .inl ((Q_map (rA_injective vs ws) _ a _).mpr ⟨e, rfl, hq⟩)
  exact ((P_iff_Q (vs ++ ws) _ _).mpr this).2

theorem mem_infOf_right (vs ws : List SV) (hd : Disjoint vs ws) {b : Nat} {e : TE}
    (h : e ∈ infOf ws b) : mapTE (rB vs ws) e ∈ infOf (vs ++ ws) (rB vs ws b) := by
  have hq : Q (judgementsOf ws) b e := by
    unfold infOf at h; exact (OrderFacts.mem_infSets _ _ _).mp h
  have : Q (judgementsOf (vs ++ ws)) (rB vs ws b) (mapTE (rB vs ws) e) := by
    rw [judgementsOf_append vs ws hd, Q_append]
    exact .inr ((Q_map (rB_injective vs ws) _ b _).mpr ⟨e, rfl, hq⟩)
  exact ((P_iff_Q (vs ++ ws) _ _).mpr this).2

/-- an equality declared in a fragment points to a variable of the fragment -/
theorem equal_lt (us : List SV) {a b : Nat} (h : .equal b ∈ infOf us a) : b < nvarsOf us := by
  have hq : Q (judgementsOf us) a (.equal b) := by
    unfold infOf at h; exact (OrderFacts.mem_infSets _ _ _).mp h
  exact occ_lt (judgementsOf_bound us) (Q_occ_equal hq)

theorem wordOnly_left (vs ws : List SV) (hd : Disjoint vs ws)
    (hw : WordOnly (infOf (vs ++ ws)) (nvarsOf (vs ++ ws))) : WordOnly (infOf vs) (nvarsOf vs) := by
  intro a ha e he
  have hN := nvarsOf_append vs ws hd
  have hm := mem_infOf_left vs ws hd he
  rcases hw _ (by rw [hN]; exact rA_lt vs ws ha) _ hm with ⟨id, hid, _⟩ | h | h
  · obtain ⟨b, rfl, _⟩ := mapTE_eq_equal hid
    exact .inl ⟨b, rfl, equal_lt vs he⟩
  · exact .inr (mapTE_wa (.inl h))
  · exact .inr (mapTE_wa (.inr h))

theorem wordOnly_right (vs ws : List SV) (hd : Disjoint vs ws)
    (hw : WordOnly (infOf (vs ++ ws)) (nvarsOf (vs ++ ws))) : WordOnly (infOf ws) (nvarsOf ws) := by
  intro b hb e he
  have hN := nvarsOf_append vs ws hd
  have hm := mem_infOf_right vs ws hd he
  rcases hw _ (by rw [hN]; exact rB_lt vs ws hb) _ hm with ⟨id, hid, _⟩ | h | h
  · obtain ⟨c, rfl, _⟩ := mapTE_eq_equal hid
    exact .inl ⟨c, rfl, equal_lt ws he⟩
  · exact .inr (mapTE_wa (.inl h))
  · exact .inr (mapTE_wa (.inr h))

/-! ## 1. The evidence of a class, seen from the input -/

/-- `e` is a piece of non-`Equal` evidence declared on a variable that the declared equalities
connect to `v` (a property of the input alone). -/
def ClassEvIn (infs : Nat → List TE) (nvars v : Nat) (e : TE) : Prop :=
  ∃ a, Eqv (Decl infs nvars) a v ∧ a < nvars ∧ e ∈ infs a ∧ NoEq e = true

/-- The order-free cases: the evidence of the class of `v` has a common upper bound, or contains
a contradictory pair. -/
def OrderFree (infs : Nat → List TE) (nvars v : Nat) : Prop :=
  (∃ T, ∀ e, ClassEvIn infs nvars v e → wordLe e T = true) ∨
  (∃ ea eb, ClassEvIn infs nvars v ea ∧ ClassEvIn infs nvars v eb ∧ conflicts ea eb = true)

/-- `ClassEv` of any successful run is `ClassEvIn`. -/
theorem classEv_iff_in {o : Orders} (ho : OrdersOk o) {nvars : Nat} {infs : Nat → List TE}
    (hw : WordOnly infs nvars) {fuel : Nat} {f : Forest} {n r : Nat}
    (h : unify o fuel nvars infs = .ok (f, n, r)) (v : Nat) (e : TE) :
    ClassEv infs nvars f v e ↔ ClassEvIn infs nvars v e := by
  have p := (J1_of_ok ho hw h).2.2.2
  unfold ClassEv ClassEvIn sameClass
  constructor
  · rintro ⟨a, h1, h2⟩; exact ⟨a, (p a v).mp h1, h2⟩
  · rintro ⟨a, h1, h2⟩; exact ⟨a, (p a v).mpr h1, h2⟩

/-- … and is membership in the evidence set of the initial forest. -/
theorem classEvIn_iff_init {nvars : Nat} {infs : Nat → List TE} {f0 : Forest}
    (r0 : Rep f0 (Decl infs nvars)) (v : Nat) (e : TE) :
    ClassEvIn infs nvars v e ↔ e ∈ evidence f0 v := by
  rw [r0.data]
  constructor
  · rintro ⟨a, hav, han, hea, hne⟩; exact ⟨a, ⟨han, hea⟩, hne, hav⟩
  · rintro ⟨w, ⟨hwn, hew⟩, hne, hwv⟩; exact ⟨w, hwv, hwn, hew, hne⟩

theorem initForest_decl {o : Orders} (ho : OrdersOk o) {nvars : Nat} {infs : Nat → List TE} {f0 : Forest}
    (h : initForest o (List.range nvars) infs = .ok f0) : Rep f0 (Decl infs nvars) := by
  obtain ⟨f, e, r⟩ := initForest_rep ho (List.range nvars) infs
  rw [h] at e; injection e with e; subst e
  exact r.congr (decl_congr infs nvars)

/-- The evidence of an `A`-class of the joint input is the evidence of the class in `A`'s input;
the same for `B`. -/
theorem classEvIn_joint (vs ws : List SV) (hd : Disjoint vs ws)
    (hw : WordOnly (infOf (vs ++ ws)) (nvarsOf (vs ++ ws))) :
    (∀ a, a < nvarsOf vs → ∀ e,
      ClassEvIn (infOf (vs ++ ws)) (nvarsOf (vs ++ ws)) (rA vs ws a) e ↔ ClassEvIn (infOf vs) (nvarsOf vs) a e) ∧
    (∀ b, b < nvarsOf ws → ∀ e,
      ClassEvIn (infOf (vs ++ ws)) (nvarsOf (vs ++ ws)) (rB vs ws b) e ↔ ClassEvIn (infOf ws) (nvarsOf ws) b e) := by
  have ho : OrdersOk idOrders := ⟨fun _ => .refl _, fun _ => .refl _, fun _ => .refl _, fun _ => .refl _⟩
  obtain ⟨f, fA, fB, ef, efA, efB, _, _, hA, _, hB⟩ := I3_initial_forest ho ho ho vs ws hd
  have r := initForest_decl ho ef
  have rA' := initForest_decl ho efA
  have rB' := initForest_decl ho efB
  obtain ⟨gA, egA, _, _, wdA, _⟩ := initForest_word ho (wordOnly_left vs ws hd hw)
  obtain ⟨gB, egB, _, _, wdB, _⟩ := initForest_word ho (wordOnly_right vs ws hd hw)
  rw [efA] at egA; injection egA with egA; subst egA
  rw [efB] at egB; injection egB with egB; subst egB
  have wac : ∀ (g : Forest), WData g → ∀ v e, e ∈ evidence g v → WAC e := by
    intro g hg v e he
    unfold evidence DS.dataAt at he
    cases hk : g.data.get (DS.rootOf g v) with
    | none => rw [hk] at he; cases he
    | some d => rw [hk] at he; exact hg _ d hk e he
  constructor
  · intro a ha e
    rw [classEvIn_iff_init r, classEvIn_iff_init rA', hA a ha e]
    constructor
    · rintro ⟨e', he', rfl⟩; rw [mapTE_wac (wac _ wdA a e' he')]; exact he'
    · intro he; exact ⟨e, he, (mapTE_wac (wac _ wdA a e he)).symm⟩
  · intro b hb e
    rw [classEvIn_iff_init r, classEvIn_iff_init rB', hB b hb e]
    constructor
    · rintro ⟨e', he', rfl⟩; rw [mapTE_wac (wac _ wdB b e' he')]; exact he'
    · intro he; exact ⟨e, he, (mapTE_wac (wac _ wdB b e he)).symm⟩

/-! ## 2. U1: the resolved evidence corresponds -/

/-- Two word-only runs (any inputs, orders, fuels) on classes with the same evidence set:
the closed forms of J2 side by side. -/
theorem ev_general {o o' : Orders} (ho : OrdersOk o) (ho' : OrdersOk o') {nvars nvars' : Nat}
    {infs infs' : Nat → List TE} (hw : WordOnly infs nvars) (hw' : WordOnly infs' nvars')
    {fuel fuel' : Nat} {f f' : Forest} {n r n' r' : Nat}
    (h : unify o fuel nvars infs = .ok (f, n, r)) (h' : unify o' fuel' nvars' infs' = .ok (f', n', r'))
    (v v' : Nat) (hce : ∀ e, ClassEvIn infs nvars v e ↔ ClassEvIn infs' nvars' v' e) :
    ((∀ e, ¬ ClassEvIn infs nvars v e) ∧ evidence f v = [] ∧ evidence f' v' = []) ∨
    (∃ l l' j j', (∀ e, e ∈ l ↔ ClassEvIn infs nvars v e) ∧ l.Perm l' ∧ l.Nodup ∧
      foldMerge l = some (j, []) ∧ foldMerge l' = some (j', []) ∧
      evidence f v = [j] ∧ evidence f' v' = [j']) := by
  rcases J2 ho hw h v with ⟨h1, h2⟩ | ⟨l, j, hl, hnd, hfm, hd⟩
  · left
    refine ⟨fun e he => h1 e ((classEv_iff_in ho hw h v e).mpr he), h2, ?_⟩
    rcases J2 ho' hw' h' v' with ⟨_, h2'⟩ | ⟨l', j', hl', _, hfm', _⟩
    · exact h2'
    · cases l' with
      | nil => cases hfm'
      | cons x _ =>
        have := (hl' x).mp List.mem_cons_self
        exact absurd ((classEv_iff_in ho hw h v x).mpr ((hce x).mpr ((classEv_iff_in ho' hw' h' v' x).mp this)))
          (h1 x)
  · right
    rcases J2 ho' hw' h' v' with ⟨h1', _⟩ | ⟨l', j', hl', hnd', hfm', hd'⟩
    · cases l with
      | nil => cases hfm
      | cons x _ =>
        have := (hl x).mp List.mem_cons_self
        exact absurd ((classEv_iff_in ho' hw' h' v' x).mpr ((hce x).mp ((classEv_iff_in ho hw h v x).mp this)))
          (h1' x)
    · refine ⟨l, l', j, j', fun e => (hl e).trans (classEv_iff_in ho hw h v e), ?_, hnd, hfm, hfm', hd, hd'⟩
      apply (List.perm_ext_iff_of_nodup hnd hnd').mpr
      intro e
      rw [hl e, hl' e, classEv_iff_in ho hw h v e, classEv_iff_in ho' hw' h' v' e]
      exact hce e

/-- In the order-free cases the two runs leave the same evidence. -/
theorem ev_order_free {o o' : Orders} (ho : OrdersOk o) (ho' : OrdersOk o') {nvars nvars' : Nat}
    {infs infs' : Nat → List TE} (hw : WordOnly infs nvars) (hw' : WordOnly infs' nvars')
    {fuel fuel' : Nat} {f f' : Forest} {n r n' r' : Nat}
    (h : unify o fuel nvars infs = .ok (f, n, r)) (h' : unify o' fuel' nvars' infs' = .ok (f', n', r'))
    (v v' : Nat) (hce : ∀ e, ClassEvIn infs nvars v e ↔ ClassEvIn infs' nvars' v' e)
    (hof : OrderFree infs' nvars' v') : evidence f v = evidence f' v' := by
  have c := classEv_iff_in ho hw h v
  have c' := classEv_iff_in ho' hw' h' v'
  rcases hof with ⟨T, hT⟩ | ⟨ea, eb, ha, hb, hc⟩
  · by_cases hex : ∃ e, ClassEvIn infs' nvars' v' e
    · have hex1 : ∃ e, ClassEv infs nvars f v e := by
        obtain ⟨e, he⟩ := hex; exact ⟨e, (c e).mpr ((hce e).mpr he)⟩
      have hex2 : ∃ e, ClassEv infs' nvars' f' v' e := by
        obtain ⟨e, he⟩ := hex; exact ⟨e, (c' e).mpr he⟩
      have hT1 : ∀ e, ClassEv infs nvars f v e → wordLe e T = true :=
        fun e he => hT e ((hce e).mp ((c e).mp he))
      have hT2 : ∀ e, ClassEv infs' nvars' f' v' e → wordLe e T = true :=
        fun e he => hT e ((c' e).mp he)
      obtain ⟨j, g1, _, _, g4, _⟩ := J3a ho hw h v T hex1 hT1
      obtain ⟨j', g1', _, _, g4', _⟩ := J3a ho' hw' h' v' T hex2 hT2
      have l1 := J3a_least ho hw h v T hex1 hT1 j g1 j'
        (fun e he => g4' e ((c' e).mpr ((hce e).mp ((c e).mp he))))
      have l2 := J3a_least ho' hw' h' v' T hex2 hT2 j' g1' j
        (fun e he => g4 e ((c e).mpr ((hce e).mpr ((c' e).mp he))))
      rw [g1, g1', wordLe_antisymm _ _ l1 l2]
    · rcases ev_general ho ho' hw hw' h h' v v' hce with ⟨_, e1, e2⟩ | ⟨l, _, _, _, hl, _, _, hfm, _⟩
      · rw [e1, e2]
      · cases l with
        | nil => cases hfm
        | cons x _ => exact absurd ⟨x, (hce x).mp ((hl x).mp List.mem_cons_self)⟩ hex
  · rw [J3b ho hw h v ea eb ((c ea).mpr ((hce ea).mpr ha)) ((c eb).mpr ((hce eb).mpr hb)) hc,
      J3b ho' hw' h' v' ea eb ((c' ea).mpr ha) ((c' eb).mpr hb) hc]

/-- `OutEq` on outcomes whose expression is a word, `any` or `conflict` is equality. -/
theorem outEq_wac {j j' : TE} {q q' : List (Nat × Nat)} (hj : WAC j) (h : OutEq (j, q) (j', q')) : j = j' := by
  rcases h with ⟨h1, h2⟩ | ⟨_, _, _, h4⟩
  · simp only at h1 h2; rw [h1, h2]
  · simp only at h4
    rcases hj with ⟨w, u, rfl⟩ | rfl | rfl <;> simpa [ExprEqMod] using h4

theorem fold_step_wac : ∀ (l : List TE) (cur : TE) (q : List (Nat × Nat)), WAC cur → (∀ e ∈ l, WAC e) →
    WAC (l.foldl step (cur, q)).1 := by
  intro l
  induction l with
  | nil => intro cur q hc _; exact hc
  | cons x l ih =>
    intro cur q hc hl
    rw [List.foldl_cons, step_eq]
    exact ih _ _ (outcome_wac hc (hl x List.mem_cons_self)).2 (fun e he => hl e (List.mem_cons_of_mem _ he))

theorem foldMerge_wac {l : List TE} (hl : ∀ e ∈ l, WAC e) {j : TE} {q : List (Nat × Nat)}
    (h : foldMerge l = some (j, q)) : WAC j := by
  cases l with
  | nil => cases h
  | cons x l =>
    rw [foldMerge_cons] at h
    injection h with h
    have := fold_step_wac l x [] (hl x List.mem_cons_self) (fun e he => hl e (List.mem_cons_of_mem _ he))
    rw [h] at this
    exact this

theorem wa_noBad {l : List TE} (hl : ∀ e ∈ l, WA e) : (∀ e ∈ l, PF e = true) ∧ NoBadTriple l :=
  ⟨fun e he => (hl e he).pf, noBadTriple_of_no_absorber l (fun e he => by
    rcases hl e he with ⟨w, u, rfl⟩ | rfl <;> rfl)⟩

/-- With word-only evidence the fold of a class is the same for every enumeration of its evidence
set — so two runs leave the same evidence at classes with the same evidence set, **without** any
compatibility assumption. -/
theorem ev_eq {o o' : Orders} (ho : OrdersOk o) (ho' : OrdersOk o') {nvars nvars' : Nat}
    {infs infs' : Nat → List TE} (hw : WordOnly infs nvars) (hw' : WordOnly infs' nvars')
    {fuel fuel' : Nat} {f f' : Forest} {n r n' r' : Nat}
    (h : unify o fuel nvars infs = .ok (f, n, r)) (h' : unify o' fuel' nvars' infs' = .ok (f', n', r'))
    (v v' : Nat) (hce : ∀ e, ClassEvIn infs nvars v e ↔ ClassEvIn infs' nvars' v' e) :
    evidence f v = evidence f' v' := by
  rcases ev_general ho ho' hw hw' h h' v v' hce with ⟨_, e1, e2⟩ | ⟨l, l', j, j', hl, hp, _, h1, h2, h3, h4⟩
  · rw [e1, e2]
  · have hwa : ∀ e ∈ l, WA e := fun e he =>
      classEv_wa hw ((classEv_iff_in ho hw h v e).mpr ((hl e).mp he))
    have hne : l ≠ [] := by intro hn; rw [hn] at h1; cases h1
    obtain ⟨o₁, o₂, g1, g2, g3⟩ := foldMerge_perm (wa_noBad hwa).1 (wa_noBad hwa).2 hp hne
    rw [h1] at g1; rw [h2] at g2
    injection g1 with g1; injection g2 with g2
    subst g1 g2
    have hwj : WAC j := foldMerge_wac (fun e he => WA.wac (hwa e he)) h1
    rw [h3, h4, outEq_wac hwj g3]

/-- **U1, general form (J2).**  Both classes resolve to `foldMerge` of duplicate-free enumerations
of the same evidence set (or both hold nothing). -/
theorem U1_general {o oA : Orders} (ho : OrdersOk o) (hoA : OrdersOk oA) (vs ws : List SV)
    (hd : Disjoint vs ws) (hw : WordOnly (infOf (vs ++ ws)) (nvarsOf (vs ++ ws)))
    {fuel fuelA : Nat} {f fA : Forest} {n r nA rA' : Nat}
    (h : unify o fuel (nvarsOf (vs ++ ws)) (infOf (vs ++ ws)) = .ok (f, n, r))
    (hA : unify oA fuelA (nvarsOf vs) (infOf vs) = .ok (fA, nA, rA'))
    {a : Nat} (ha : a < nvarsOf vs) :
    ((∀ e, ¬ ClassEvIn (infOf vs) (nvarsOf vs) a e) ∧ evidence f (rA vs ws a) = [] ∧ evidence fA a = []) ∨
    (∃ l l' j j', (∀ e, e ∈ l' ↔ ClassEvIn (infOf vs) (nvarsOf vs) a e) ∧ l.Perm l' ∧ l.Nodup ∧
      foldMerge l = some (j, []) ∧ foldMerge l' = some (j', []) ∧
      evidence f (rA vs ws a) = [j] ∧ evidence fA a = [j']) := by
  have hce := (classEvIn_joint vs ws hd hw).1 a ha
  rcases ev_general ho hoA hw (wordOnly_left vs ws hd hw) h hA (rA vs ws a) a hce with
    ⟨h1, h2, h3⟩ | ⟨l, l', j, j', hl, hp, hnd, h1, h2, h3, h4⟩
  · exact .inl ⟨fun e he => h1 e ((hce e).mpr he), h2, h3⟩
  · exact .inr ⟨l, l', j, j', fun e => (hp.mem_iff.symm.trans (hl e)).trans (hce e), hp, hnd, h1, h2, h3, h4⟩

/-- the same for `B` -/
theorem U1_general_right {o oB : Orders} (ho : OrdersOk o) (hoB : OrdersOk oB) (vs ws : List SV)
    (hd : Disjoint vs ws) (hw : WordOnly (infOf (vs ++ ws)) (nvarsOf (vs ++ ws)))
    {fuel fuelB : Nat} {f fB : Forest} {n r nB rB' : Nat}
    (h : unify o fuel (nvarsOf (vs ++ ws)) (infOf (vs ++ ws)) = .ok (f, n, r))
    (hB : unify oB fuelB (nvarsOf ws) (infOf ws) = .ok (fB, nB, rB'))
    {b : Nat} (hb : b < nvarsOf ws) :
    ((∀ e, ¬ ClassEvIn (infOf ws) (nvarsOf ws) b e) ∧ evidence f (rB vs ws b) = [] ∧ evidence fB b = []) ∨
    (∃ l l' j j', (∀ e, e ∈ l' ↔ ClassEvIn (infOf ws) (nvarsOf ws) b e) ∧ l.Perm l' ∧ l.Nodup ∧
      foldMerge l = some (j, []) ∧ foldMerge l' = some (j', []) ∧
      evidence f (rB vs ws b) = [j] ∧ evidence fB b = [j']) := by
  have hce := (classEvIn_joint vs ws hd hw).2 b hb
  rcases ev_general ho hoB hw (wordOnly_right vs ws hd hw) h hB (rB vs ws b) b hce with
    ⟨h1, h2, h3⟩ | ⟨l, l', j, j', hl, hp, hnd, h1, h2, h3, h4⟩
  · exact .inl ⟨fun e he => h1 e ((hce e).mpr he), h2, h3⟩
  · exact .inr ⟨l, l', j, j', fun e => (hp.mem_iff.symm.trans (hl e)).trans (hce e), hp, hnd, h1, h2, h3, h4⟩

/-- **U1.**  The joint run leaves at the class of `rA vs ws a` exactly the evidence `A` alone leaves
at the class of `a` — whatever the iteration orders and budgets of the two runs, and whether or not
the evidence of the class is contradictory: for words, `any` and `conflict` the class fold does not
depend on the order of the evidence (`foldMerge_perm`; no absorbing constructor is present). -/
theorem U1_left {o oA : Orders} (ho : OrdersOk o) (hoA : OrdersOk oA) (vs ws : List SV)
    (hd : Disjoint vs ws) (hw : WordOnly (infOf (vs ++ ws)) (nvarsOf (vs ++ ws)))
    {fuel fuelA : Nat} {f fA : Forest} {n r nA rA' : Nat}
    (h : unify o fuel (nvarsOf (vs ++ ws)) (infOf (vs ++ ws)) = .ok (f, n, r))
    (hA : unify oA fuelA (nvarsOf vs) (infOf vs) = .ok (fA, nA, rA'))
    {a : Nat} (ha : a < nvarsOf vs) :
    evidence f (rA vs ws a) = evidence fA a :=
  ev_eq ho hoA hw (wordOnly_left vs ws hd hw) h hA (rA vs ws a) a
    ((classEvIn_joint vs ws hd hw).1 a ha)

/-- **U1 for `B`.** -/
theorem U1_right {o oB : Orders} (ho : OrdersOk o) (hoB : OrdersOk oB) (vs ws : List SV)
    (hd : Disjoint vs ws) (hw : WordOnly (infOf (vs ++ ws)) (nvarsOf (vs ++ ws)))
    {fuel fuelB : Nat} {f fB : Forest} {n r nB rB' : Nat}
    (h : unify o fuel (nvarsOf (vs ++ ws)) (infOf (vs ++ ws)) = .ok (f, n, r))
    (hB : unify oB fuelB (nvarsOf ws) (infOf ws) = .ok (fB, nB, rB'))
    {b : Nat} (hb : b < nvarsOf ws) :
    evidence f (rB vs ws b) = evidence fB b :=
  ev_eq ho hoB hw (wordOnly_right vs ws hd hw) h hB (rB vs ws b) b
    ((classEvIn_joint vs ws hd hw).2 b hb)

/-- **U1 in the form of the task** (with the order-free hypothesis: the evidence of the class of `a`
in `A` alone is compatible, or contains a contradictory pair), proved independently through
J3a / J3a_least / J3b.  The hypothesis is not needed: see `U1_left`. -/
theorem U1_left_orderFree {o oA : Orders} (ho : OrdersOk o) (hoA : OrdersOk oA) (vs ws : List SV)
    (hd : Disjoint vs ws) (hw : WordOnly (infOf (vs ++ ws)) (nvarsOf (vs ++ ws)))
    {fuel fuelA : Nat} {f fA : Forest} {n r nA rA' : Nat}
    (h : unify o fuel (nvarsOf (vs ++ ws)) (infOf (vs ++ ws)) = .ok (f, n, r))
    (hA : unify oA fuelA (nvarsOf vs) (infOf vs) = .ok (fA, nA, rA'))
    {a : Nat} (ha : a < nvarsOf vs) (hof : OrderFree (infOf vs) (nvarsOf vs) a) :
    evidence f (rA vs ws a) = evidence fA a :=
  ev_order_free ho hoA hw (wordOnly_left vs ws hd hw) h hA (rA vs ws a) a
    ((classEvIn_joint vs ws hd hw).1 a ha) hof

theorem U1_right_orderFree {o oB : Orders} (ho : OrdersOk o) (hoB : OrdersOk oB) (vs ws : List SV)
    (hd : Disjoint vs ws) (hw : WordOnly (infOf (vs ++ ws)) (nvarsOf (vs ++ ws)))
    {fuel fuelB : Nat} {f fB : Forest} {n r nB rB' : Nat}
    (h : unify o fuel (nvarsOf (vs ++ ws)) (infOf (vs ++ ws)) = .ok (f, n, r))
    (hB : unify oB fuelB (nvarsOf ws) (infOf ws) = .ok (fB, nB, rB'))
    {b : Nat} (hb : b < nvarsOf ws) (hof : OrderFree (infOf ws) (nvarsOf ws) b) :
    evidence f (rB vs ws b) = evidence fB b :=
  ev_order_free ho hoB hw (wordOnly_right vs ws hd hw) h hB (rB vs ws b) b
    ((classEvIn_joint vs ws hd hw).2 b hb) hof

/-! ## 3. `type_of`: every declared variable's class holds a (possibly empty) inference set -/

theorem sets_present {f : Forest} (hi : DS.Inv f) (k : Nat)
    (hk : f.reps.get k = some k ∨ (f.data.get k).isSome) : ((f.sets setM).1.data.get k).isSome := by
  obtain ⟨f1, l, e, _, _, _, _, _, _, i7⟩ := DS.sets_spec setM f hi
  rw [e]; simp only []
  rw [i7]
  split
  · rfl
  · rcases hk with hk | hk
    · contradiction
    · exact hk

/-- A round on word data keeps every inference set present and gives one to every root. -/
theorem round_present {o : Orders} (ho : OrdersOk o) {f : Forest} (h : UInv f) (hw : WData f)
    (next counter : Nat) :
    ∃ acc, round o f next counter = .ok acc ∧ UInv acc.forest ∧ WData acc.forest ∧
      SameRoots f acc.forest ∧
      ∀ k, (f.reps.get k = some k ∨ (f.data.get k).isSome) → (acc.forest.data.get k).isSome := by
  obtain ⟨acc0, e0, i0, r0⟩ := roundLoop_inv ho h next counter
  obtain ⟨s1, s2, s3, s4, s5⟩ := uinv_sets h
  have hw1 := sets_wdata h.1 hw
  obtain ⟨g1, g2, g3, g4, g5, g6, g7, g8⟩ := loop_word ho (f.sets setM).2
    { forest := (f.sets setM).1, next := next, counter := counter } acc0 s5 s1.1
    (fun p hp => ⟨(s3 p hp).2.1, by simp only []; rw [s2]; exact (s3 p hp).2.2,
      hw1 p.1 p.2 (s3 p hp).2.1⟩) e0
  simp only [] at g3 g4 g5 g6 g7 g8
  have et := roundTail_nil ho acc0 g4 g5 g6
  have er : round o f next counter = .ok acc0 := by
    rw [round_eq, e0]; exact et
  obtain ⟨acc1, e1, _, a2, a3, a4, _⟩ := round_word ho h hw next counter
  rw [er] at e1; injection e1 with e1; subst e1
  refine ⟨acc0, er, a2, a4, a3, ?_⟩
  intro k hk
  by_cases hkl : k ∈ (f.sets setM).2.map (·.1)
  · obtain ⟨p, hp, rfl⟩ := List.mem_map.mp hkl
    rcases g8 p hp with ⟨_, hd⟩ | ⟨j, _, hd, _⟩ <;> rw [hd] <;> rfl
  · rw [g7 k hkl]
    exact sets_present h.1 k hk

theorem unifyLoop_present {o : Orders} (ho : OrdersOk o) : ∀ (fuel : Nat) {f : Forest} (h : UInv f)
    (hw : WData f) {next counter rounds : Nat} {f' : Forest} {n r : Nat},
    unifyLoop o fuel f next counter rounds = .ok (f', n, r) →
    SameRoots f f' ∧ WData f' ∧
      ∀ k, (f.reps.get k = some k ∨ (f.data.get k).isSome) → (f'.data.get k).isSome := by
  intro fuel
  induction fuel with
  | zero => intro f h hw next counter rounds f' n r hr; simp [unifyLoop] at hr
  | succ fuel ih =>
    intro f h hw next counter rounds f' n r hr
    obtain ⟨acc, e, a1, a2, a3, a4⟩ := round_present ho h hw next counter
    rw [unifyLoop, e] at hr
    simp only [] at hr
    cases hp : acc.progress with
    | true =>
      rw [hp] at hr
      simp only [if_true] at hr
      obtain ⟨b1, b0, b2⟩ := ih a1 a2 hr
      exact ⟨a3.trans b1, b0, fun k hk => b2 k (.inr (a4 k hk))⟩
    | false =>
      rw [hp] at hr
      simp only [Bool.false_eq_true, if_false] at hr
      injection hr with hr
      simp only [Prod.mk.injEq] at hr
      obtain ⟨rfl, _, _⟩ := hr
      exact ⟨a3, a2, a4⟩

/-! membership in the initial forest -/

theorem insertAll_mem : ∀ (l : List Nat) {f : Forest}, DS.Inv f → ∀ w, (f.mem w = true ∨ w ∈ l) →
    (l.foldl (fun (f : Forest) v => f.insert v) f).mem w = true := by
  intro l
  induction l with
  | nil => intro f _ w hw; rcases hw with hw | hw; exact hw; cases hw
  | cons v l ih =>
    intro f hi w hw
    rw [List.foldl_cons]
    obtain ⟨i1, _, _, i4, _⟩ := DS.insert_spec f v hi
    apply ih i1
    rcases hw with hw | hw
    · left; rw [i4, hw]; rfl
    · rcases List.mem_cons.mp hw with rfl | hw
      · left; rw [i4]; simp
      · exact .inr hw

theorem initStep_mem_mono {v : Nat} {f f' : Forest} {e : TE} (hu : UInv f)
    (h : initStep v f e = .ok f') : UInv f' ∧ ∀ w, f.mem w = true → f'.mem w = true := by
  obtain ⟨f'', e1, u, _, _⟩ := initStep_spec hu v e
  rw [h] at e1; injection e1 with e1; subst e1
  refine ⟨u, ?_⟩
  intro w hw
  rcases initStep_cases h with ⟨id, rfl, hun⟩ | ⟨_, hadd⟩
  · obtain ⟨f'', e2, _, i2, _, _⟩ := DS.union_spec setM f v id hu.1
    rw [hun] at e2; injection e2 with e2; subst e2
    rw [i2, hw]; rfl
  · obtain ⟨f'', e2, _, _, _, i4⟩ := DS.addData_spec setM f v [e] hu.1
    rw [hadd] at e2; injection e2 with e2; subst e2
    rw [i4, hw]; rfl

theorem initForest_members {o : Orders} (ho : OrdersOk o) {vars : List Nat} {infs : Nat → List TE}
    {f : Forest} (h : initForest o vars infs = .ok f) : ∀ v ∈ vars, f.mem v = true := by
  rw [initForest_eq] at h
  have h0 : UInv ((o.vars vars).foldl (fun (f : Forest) v => f.insert v) {}) ∧
      ∀ w ∈ vars, ((o.vars vars).foldl (fun (f : Forest) v => f.insert v) {}).mem w = true :=
    ⟨(insertAll_uinv _ uinv_empty).1,
      fun w hw => insertAll_mem _ DS.inv_empty w (.inr ((ho.1 _).mem_iff.mpr hw))⟩
  exact ((foldlM_rel (fun (f : Forest) v => (o.tes (infs v)).foldlM (initStep v) f)
    (fun f => UInv f ∧ ∀ w ∈ vars, f.mem w = true) (fun _ _ => True) (fun _ _ => True)
    (fun _ => trivial) (fun _ _ _ _ _ => trivial) (fun _ _ _ _ _ => trivial) (o.vars vars)
    (by
      intro f v f' _ hf hstep
      refine ⟨?_, trivial, trivial⟩
      exact (foldlM_rel (initStep v) (fun f => UInv f ∧ ∀ w ∈ vars, f.mem w = true) (fun _ _ => True)
        (fun _ _ => True) (fun _ => trivial) (fun _ _ _ _ _ => trivial) (fun _ _ _ _ _ => trivial)
        (o.tes (infs v))
        (by
          intro g e g' _ hg hs
          obtain ⟨u, m⟩ := initStep_mem_mono hg.1 hs
          exact ⟨⟨u, fun w hw => m w (hg.2 w hw)⟩, trivial, trivial⟩)
        _ _ hf hstep).1)
    _ _ h0 h).1).2

/-- After a word-only unification every declared variable's root holds an inference set. -/
theorem unify_present {o : Orders} (ho : OrdersOk o) {nvars : Nat} {infs : Nat → List TE}
    (hw : WordOnly infs nvars) {fuel : Nat} {f : Forest} {n r : Nat}
    (h : unify o fuel nvars infs = .ok (f, n, r)) :
    DS.Inv f ∧ WData f ∧ ∀ v, v < nvars → (f.data.get (DS.rootOf f v)).isSome := by
  obtain ⟨f0, e0, _, hu, hwd, _⟩ := initForest_word ho hw
  have hf : DS.Inv f := (unify_post ho h).1.1
  unfold unify at h; rw [e0] at h
  obtain ⟨sr, hwf, hp⟩ := unifyLoop_present ho fuel hu hwd h
  refine ⟨hf, hwf, ?_⟩
  intro v hv
  rw [sr v]
  apply hp
  left
  have hm := initForest_members ho e0 v (List.mem_range.mpr hv)
  exact (DS.isRoot_iff hu.1 _).mpr ⟨mem_rootOf hu.1 hm, DS.rootOf_idem hu.1 v⟩

/-- `type_of` as a function of the evidence list of the class -/
def typeOfEv : List TE → Except RErr TE
  | [] => .ok .any
  | [e] => .ok e
  | _ => .error .unificationIncomplete

theorem typeOfIn_eq {f : Forest} (hi : DS.Inv f) (v : Nat)
    (hp : (f.data.get (DS.rootOf f v)).isSome) : typeOfIn f v = typeOfEv (evidence f v) := by
  obtain ⟨s', e, _⟩ := DS.getData_spec f v hi
  unfold typeOfIn evidence DS.dataAt
  rw [e]
  cases hd : f.data.get (DS.rootOf f v) with
  | none => rw [hd] at hp; cases hp
  | some d =>
    simp only [Option.getD_some]
    match d with
    | [] => rfl
    | [x] => rfl
    | _ :: _ :: _ => rfl

theorem typeOfEv_wac {d : List TE} (hd : ∀ e ∈ d, WAC e) {te : TE} (h : typeOfEv d = .ok te) : WAC te := by
  match d, hd, h with
  | [], _, h => injection h with h; subst h; exact .inr (.inl rfl)
  | [x], hd, h => injection h with h; subst h; exact hd _ List.mem_cons_self
  | _ :: _ :: _, _, h => cases h

/-- On the result of a word-only unification `type_of` of a declared variable is a function of the
class's evidence and returns a word, `any` or `conflict`. -/
theorem typeOfIn_word {o : Orders} (ho : OrdersOk o) {nvars : Nat} {infs : Nat → List TE}
    (hw : WordOnly infs nvars) {fuel : Nat} {f : Forest} {n r : Nat}
    (h : unify o fuel nvars infs = .ok (f, n, r)) {v : Nat} (hv : v < nvars) :
    typeOfIn f v = typeOfEv (evidence f v) ∧ ∀ te, typeOfIn f v = .ok te → WAC te := by
  obtain ⟨hi, hwd, hp⟩ := unify_present ho hw h
  have e := typeOfIn_eq hi v (hp v hv)
  refine ⟨e, ?_⟩
  intro te hte
  rw [e] at hte
  refine typeOfEv_wac ?_ hte
  intro x hx
  unfold evidence DS.dataAt at hx
  cases hk : f.data.get (DS.rootOf f v) with
  | none => rw [hk] at hx; cases hx
  | some d => rw [hk] at hx; exact hwd _ d hk x hx

/-- `type_of` of an `A`-variable in the joint run is `type_of` of the variable in `A` alone. -/
theorem typeOfIn_left {o oA : Orders} (ho : OrdersOk o) (hoA : OrdersOk oA) (vs ws : List SV)
    (hd : Disjoint vs ws) (hw : WordOnly (infOf (vs ++ ws)) (nvarsOf (vs ++ ws)))
    {fuel fuelA : Nat} {f fA : Forest} {n r nA rA' : Nat}
    (h : unify o fuel (nvarsOf (vs ++ ws)) (infOf (vs ++ ws)) = .ok (f, n, r))
    (hA : unify oA fuelA (nvarsOf vs) (infOf vs) = .ok (fA, nA, rA'))
    {a : Nat} (ha : a < nvarsOf vs) :
    typeOfIn f (rA vs ws a) = typeOfIn fA a := by
  have hlt : rA vs ws a < nvarsOf (vs ++ ws) := by rw [nvarsOf_append vs ws hd]; exact rA_lt vs ws ha
  rw [(typeOfIn_word ho hw h hlt).1, (typeOfIn_word hoA (wordOnly_left vs ws hd hw) hA ha).1,
    U1_left ho hoA vs ws hd hw h hA ha]

theorem typeOfIn_right {o oB : Orders} (ho : OrdersOk o) (hoB : OrdersOk oB) (vs ws : List SV)
    (hd : Disjoint vs ws) (hw : WordOnly (infOf (vs ++ ws)) (nvarsOf (vs ++ ws)))
    {fuel fuelB : Nat} {f fB : Forest} {n r nB rB' : Nat}
    (h : unify o fuel (nvarsOf (vs ++ ws)) (infOf (vs ++ ws)) = .ok (f, n, r))
    (hB : unify oB fuelB (nvarsOf ws) (infOf ws) = .ok (fB, nB, rB'))
    {b : Nat} (hb : b < nvarsOf ws) :
    typeOfIn f (rB vs ws b) = typeOfIn fB b := by
  have hlt : rB vs ws b < nvarsOf (vs ++ ws) := by rw [nvarsOf_append vs ws hd]; exact rB_lt vs ws hb
  rw [(typeOfIn_word ho hw h hlt).1, (typeOfIn_word hoB (wordOnly_right vs ws hd hw) hB hb).1,
    U1_right ho hoB vs ws hd hw h hB hb]

/-! ## 4. Rendering and the layout loop -/

/-- Rendering a variable whose type is a word, `any`, `conflict` or an error reads nothing else. -/
theorem abiTypeFor_wac (typeOf typeOf' : Nat → Except RErr TE) (n v v' : Nat) (seen : List TE) (pp : Bool)
    (h : typeOf v = typeOf' v') (hw : ∀ te, typeOf v = .ok te → WAC te) :
    abiTypeFor typeOf (n + 1) v seen pp = abiTypeFor typeOf' (n + 1) v' seen pp := by
  unfold abiTypeFor
  rw [← h]
  cases ht : typeOf v with
  | error e => rfl
  | ok te =>
    rcases hw te ht with ⟨w, u, rfl⟩ | rfl | rfl <;> rfl

theorem tv_mapVar (ρ : Nat → Nat) (t : TV) : (t.mapVar ρ).tv = ρ t.tv := by
  cases t; rfl

/-- the layout loop only depends on how the constant slots' variables render -/
theorem layoutEntries_congr (typeOf typeOf' : Nat → Except RErr TE) (fuel : Nat) (g : TV → TV) :
    ∀ (l : List TV), (∀ t ∈ l, isConstSlot (g t) = isConstSlot t) →
      (∀ t ∈ l, isConstSlot t ≠ none →
        abiTypeFor typeOf fuel (g t).tv [] false = abiTypeFor typeOf' fuel t.tv [] false) →
      layoutEntries typeOf fuel (l.map g) = layoutEntries typeOf' fuel l := by
  intro l
  induction l with
  | nil => intro _ _; rfl
  | cons t ts ih =>
    intro h1 h2
    have ih' := ih (fun x hx => h1 x (List.mem_cons_of_mem _ hx))
      (fun x hx => h2 x (List.mem_cons_of_mem _ hx))
    simp only [List.map_cons, layoutEntries, h1 t List.mem_cons_self]
    cases hc : isConstSlot t with
    | none => exact ih'
    | some w =>
      simp only []
      rw [h2 t List.mem_cons_self (by rw [hc]; simp), ih']

theorem rA_fixed (vs ws : List SV) {x : Nat} (hx : x < (registerAll vs).next) : rA vs ws x = x := by
  simp [rA, rhoA, shiftVar, hx]

theorem rB_shift (vs ws : List SV) {x : Nat} (hx : x < (registerAll ws).next) :
    rB vs ws x = x + (registerAll vs).next := by
  simp [rB, rhoB, shiftVar, hx]

/-- **The layout loop on `A`'s registered values**: the joint forest renders them as `A`'s own. -/
theorem layoutEntries_left {o oA : Orders} (ho : OrdersOk o) (hoA : OrdersOk oA) (vs ws : List SV)
    (hd : Disjoint vs ws) (hw : WordOnly (infOf (vs ++ ws)) (nvarsOf (vs ++ ws)))
    {fuel fuelA : Nat} {f fA : Forest} {n r nA rA' : Nat}
    (h : unify o fuel (nvarsOf (vs ++ ws)) (infOf (vs ++ ws)) = .ok (f, n, r))
    (hA : unify oA fuelA (nvarsOf vs) (infOf vs) = .ok (fA, nA, rA')) :
    layoutEntries (typeOfIn f) 4096 (registerAll vs).values
      = layoutEntries (typeOfIn fA) 4096 (registerAll vs).values := by
  have := layoutEntries_congr (typeOfIn f) (typeOfIn fA) 4096 id (registerAll vs).values
    (fun _ _ => rfl) (by
      intro t ht hc
      have hlt : t.tv < (registerAll vs).next := allLt_tv ((registerAll_rinv vs).valsLt t ht)
      have hlt' : t.tv < nvarsOf vs := Nat.lt_of_lt_of_le hlt (inferAll_good vs).1
      have e := typeOfIn_left ho hoA vs ws hd hw h hA hlt'
      rw [rA_fixed vs ws hlt] at e
      exact abiTypeFor_wac _ _ 4095 _ _ _ _ e
        (typeOfIn_word ho hw h (by
          show t.tv < _
          rw [← rA_fixed vs ws hlt, nvarsOf_append vs ws hd]; exact rA_lt vs ws hlt')).2)
  rw [List.map_id] at this
  exact this

/-- **The layout loop on `B`'s registered values** (shifted by `A`'s counter in the joint run). -/
theorem layoutEntries_right {o oB : Orders} (ho : OrdersOk o) (hoB : OrdersOk oB) (vs ws : List SV)
    (hd : Disjoint vs ws) (hw : WordOnly (infOf (vs ++ ws)) (nvarsOf (vs ++ ws)))
    {fuel fuelB : Nat} {f fB : Forest} {n r nB rB' : Nat}
    (h : unify o fuel (nvarsOf (vs ++ ws)) (infOf (vs ++ ws)) = .ok (f, n, r))
    (hB : unify oB fuelB (nvarsOf ws) (infOf ws) = .ok (fB, nB, rB')) :
    layoutEntries (typeOfIn f) 4096 ((registerAll ws).values.map (TV.shift (registerAll vs).next))
      = layoutEntries (typeOfIn fB) 4096 (registerAll ws).values := by
  apply layoutEntries_congr
  · intro t _; exact isConstSlot_mapVar _ t
  · intro t ht hc
    have hlt : t.tv < (registerAll ws).next := allLt_tv ((registerAll_rinv ws).valsLt t ht)
    have hlt' : t.tv < nvarsOf ws := Nat.lt_of_lt_of_le hlt (inferAll_good ws).1
    have e := typeOfIn_right ho hoB vs ws hd hw h hB hlt'
    have etv : (TV.shift (registerAll vs).next t).tv = rB vs ws t.tv := by
      rw [rB_shift vs ws hlt]; exact tv_mapVar _ t
    rw [etv]
    exact abiTypeFor_wac _ _ 4095 _ _ _ _ e
      (typeOfIn_word ho hw h (by rw [nvarsOf_append vs ws hd]; exact rB_lt vs ws hlt')).2

/-! ## 5. U2: the layout of the joint program -/

/-- `analyse` returns a layout iff unification succeeds and the layout loop returns entries. -/
theorem outcome_layout_iff (o : Orders) (fuel : Nat) (us : List SV) (l : List (Layout.Entry JsonModel.AbiType)) :
    (analyseLifted o fuel us).outcome = .layout l ↔
      ∃ f n r es, unify o fuel (nvarsOf us) (infOf us) = .ok (f, n, r) ∧
        layoutEntries (typeOfIn f) 4096 (registerAll us).values = .ok es ∧ l = Layout.buildLayout es := by
  cases hU : unify o fuel (nvarsOf us) (infOf us) with
  | error e =>
    have hU' : Unify.unify o fuel (inferAll (registerAll us)).next
      (fun v => ((infSets (inferAll (registerAll us)).judgements).lookup v).getD []) = .error e := hU
    simp only [analyseLifted, hU']
    constructor
    · intro h; cases h
    · rintro ⟨_, _, _, _, h, _⟩; cases h
  | ok p =>
    obtain ⟨f, n, r⟩ := p
    have hU' : Unify.unify o fuel (inferAll (registerAll us)).next
      (fun v => ((infSets (inferAll (registerAll us)).judgements).lookup v).getD []) = .ok (f, n, r) := hU
    simp only [analyseLifted, hU']
    cases hL : layoutEntries (typeOfIn f) 4096 (registerAll us).values with
    | error e =>
      simp only []
      constructor
      · intro h; cases h
      · rintro ⟨f', _, _, _, h, h', _⟩
        injection h with h
        simp only [Prod.mk.injEq] at h
        obtain ⟨rfl, _, _⟩ := h
        rw [hL] at h'; cases h'
    | ok es =>
      simp only [Outcome.layout.injEq]
      constructor
      · rintro rfl; exact ⟨f, n, r, es, rfl, hL, rfl⟩
      · rintro ⟨f', _, _, es', h, h', rfl⟩
        injection h with h
        simp only [Prod.mk.injEq] at h
        obtain ⟨rfl, _, _⟩ := h
        rw [hL] at h'; injection h' with h'; rw [h']

/-- **U2, strongest form.**  For two `Disjoint` fragments whose joint judgement set is word-only,
if the joint program, `A` alone and
`B` alone return layouts `l`, `lA`, `lB` (under any iteration orders and budgets), then the entry
lists `esA`, `esB` the layout loops of `A` and `B` hand to `buildLayout` satisfy
`l = buildLayout (esA ++ esB)` — the joint layout loop produced literally `esA ++ esB`. -/
theorem U2_layout_union {o oA oB : Orders} (ho : OrdersOk o) (hoA : OrdersOk oA) (hoB : OrdersOk oB)
    (vs ws : List SV) (hd : Disjoint vs ws)
    (hw : WordOnly (infOf (vs ++ ws)) (nvarsOf (vs ++ ws)))
    {fuel fuelA fuelB : Nat} {l lA lB : List (Layout.Entry JsonModel.AbiType)}
    (h : (analyseLifted o fuel (vs ++ ws)).outcome = .layout l)
    (hA : (analyseLifted oA fuelA vs).outcome = .layout lA)
    (hB : (analyseLifted oB fuelB ws).outcome = .layout lB) :
    ∃ esA esB, lA = Layout.buildLayout esA ∧ lB = Layout.buildLayout esB ∧
      l = Layout.buildLayout (esA ++ esB) := by
  obtain ⟨f, n, r, es, hu, hl, rfl⟩ := (outcome_layout_iff o fuel _ l).mp h
  obtain ⟨fA, nA, rA', esA, huA, hlA, rfl⟩ := (outcome_layout_iff oA fuelA _ lA).mp hA
  obtain ⟨fB, nB, rB', esB, huB, hlB, rfl⟩ := (outcome_layout_iff oB fuelB _ lB).mp hB
  refine ⟨esA, esB, rfl, rfl, ?_⟩
  rw [layoutEntries_joint _ _ vs ws hd, layoutEntries_left ho hoA vs ws hd hw hu huA,
    layoutEntries_right ho hoB vs ws hd hw hu huB, hlA, hlB] at hl
  injection hl with hl
  rw [hl]

/-- `buildLayout` (a stable sort by slot and offset) of a concatenation can be taken piecewise. -/
theorem buildLayout_append {α : Type} (es₁ es₂ : List (Layout.Entry α)) :
    Layout.buildLayout (es₁ ++ es₂) = Layout.buildLayout (Layout.buildLayout es₁ ++ Layout.buildLayout es₂) := by
  rw [Layout.buildLayout_eq_iff]
  intro k
  rw [List.filter_append, List.filter_append, Layout.buildLayout_stable, Layout.buildLayout_stable]

/-- **U2, closed form.**  The joint layout is the layout built from the two separate layouts: the
entries of `lA` and `lB`, sorted by slot and offset, `lA`'s entries first among equal keys. -/
theorem U2_layout_eq {o oA oB : Orders} (ho : OrdersOk o) (hoA : OrdersOk oA) (hoB : OrdersOk oB)
    (vs ws : List SV) (hd : Disjoint vs ws)
    (hw : WordOnly (infOf (vs ++ ws)) (nvarsOf (vs ++ ws)))
    {fuel fuelA fuelB : Nat} {l lA lB : List (Layout.Entry JsonModel.AbiType)}
    (h : (analyseLifted o fuel (vs ++ ws)).outcome = .layout l)
    (hA : (analyseLifted oA fuelA vs).outcome = .layout lA)
    (hB : (analyseLifted oB fuelB ws).outcome = .layout lB) :
    l = Layout.buildLayout (lA ++ lB) := by
  obtain ⟨esA, esB, rfl, rfl, rfl⟩ := U2_layout_union ho hoA hoB vs ws hd hw h hA hB
  exact buildLayout_append esA esB

/-- **U2, as a multiset of entries.** -/
theorem U2_layout_perm {o oA oB : Orders} (ho : OrdersOk o) (hoA : OrdersOk oA) (hoB : OrdersOk oB)
    (vs ws : List SV) (hd : Disjoint vs ws)
    (hw : WordOnly (infOf (vs ++ ws)) (nvarsOf (vs ++ ws)))
    {fuel fuelA fuelB : Nat} {l lA lB : List (Layout.Entry JsonModel.AbiType)}
    (h : (analyseLifted o fuel (vs ++ ws)).outcome = .layout l)
    (hA : (analyseLifted oA fuelA vs).outcome = .layout lA)
    (hB : (analyseLifted oB fuelB ws).outcome = .layout lB) :
    l.Perm (lA ++ lB) := by
  obtain ⟨esA, esB, rfl, rfl, rfl⟩ := U2_layout_union ho hoA hoB vs ws hd hw h hA hB
  exact (Layout.buildLayout_perm _).trans
    ((Layout.buildLayout_perm esA).symm.append (Layout.buildLayout_perm esB).symm)

/-- **U2, existence.**  If `A` alone and `B` alone return layouts, so does the joint program, for
every budget of at least two rounds. -/
theorem U2_exists {o oA oB : Orders} (ho : OrdersOk o) (hoA : OrdersOk oA) (hoB : OrdersOk oB)
    (vs ws : List SV) (hd : Disjoint vs ws)
    (hw : WordOnly (infOf (vs ++ ws)) (nvarsOf (vs ++ ws)))
    {fuel fuelA fuelB : Nat} (hfuel : 2 ≤ fuel) {lA lB : List (Layout.Entry JsonModel.AbiType)}
    (hA : (analyseLifted oA fuelA vs).outcome = .layout lA)
    (hB : (analyseLifted oB fuelB ws).outcome = .layout lB) :
    ∃ l, (analyseLifted o fuel (vs ++ ws)).outcome = .layout l := by
  obtain ⟨fA, nA, rA', esA, huA, hlA, rfl⟩ := (outcome_layout_iff oA fuelA _ lA).mp hA
  obtain ⟨fB, nB, rB', esB, huB, hlB, rfl⟩ := (outcome_layout_iff oB fuelB _ lB).mp hB
  obtain ⟨f, r, hu, _⟩ := J1 ho hw fuel hfuel
  refine ⟨_, (outcome_layout_iff o fuel _ _).mpr ⟨f, _, r, esA ++ esB, hu, ?_, rfl⟩⟩
  rw [layoutEntries_joint _ _ vs ws hd, layoutEntries_left ho hoA vs ws hd hw hu huA,
    layoutEntries_right ho hoB vs ws hd hw hu huB, hlA, hlB]

/-- **U2 in the form of the task** (with U1's order-free hypotheses for every variable of both
fragments; they are not needed, see `U2_layout_union`, `U2_layout_perm`). -/
theorem U2 {o oA oB : Orders} (ho : OrdersOk o) (hoA : OrdersOk oA) (hoB : OrdersOk oB)
    (vs ws : List SV) (hd : Disjoint vs ws)
    (hw : WordOnly (infOf (vs ++ ws)) (nvarsOf (vs ++ ws)))
    (hofA : ∀ a, a < nvarsOf vs → OrderFree (infOf vs) (nvarsOf vs) a)
    (hofB : ∀ b, b < nvarsOf ws → OrderFree (infOf ws) (nvarsOf ws) b)
    {fuel fuelA fuelB : Nat} {l lA lB : List (Layout.Entry JsonModel.AbiType)}
    (h : (analyseLifted o fuel (vs ++ ws)).outcome = .layout l)
    (hA : (analyseLifted oA fuelA vs).outcome = .layout lA)
    (hB : (analyseLifted oB fuelB ws).outcome = .layout lB) :
    l.Perm (lA ++ lB) ∧
      ∃ esA esB, lA = Layout.buildLayout esA ∧ lB = Layout.buildLayout esB ∧
        l = Layout.buildLayout (esA ++ esB) :=
  ⟨U2_layout_perm ho hoA hoB vs ws hd hw h hA hB, U2_layout_union ho hoA hoB vs ws hd hw h hA hB⟩

/-! ## 6. Checkers for the hypotheses, and U3 (non-vacuity) -/

theorem idOrders_ok : OrdersOk idOrders :=
  ⟨fun _ => .refl _, fun _ => .refl _, fun _ => .refl _, fun _ => .refl _⟩

/-- executable `WordOnly` -/
def wordOnlyB (infs : Nat → List TE) (nvars : Nat) : Bool :=
  (List.range nvars).all fun v => (infs v).all fun e =>
    match e with
    | .equal id => decide (id < nvars)
    | .word _ _ => true
    | .any => true
    | _ => false

theorem wordOnly_of_B {infs : Nat → List TE} {nvars : Nat} (h : wordOnlyB infs nvars = true) :
    WordOnly infs nvars := by
  intro v hv e he
  simp only [wordOnlyB, List.all_eq_true, List.mem_range] at h
  have := h v hv e he
  cases e <;> simp at this ⊢
  exact this

/-- the forest a run returns (`{}` if it faults) -/
def finalForest (o : Orders) (fuel nvars : Nat) (infs : Nat → List TE) : Forest :=
  match unify o fuel nvars infs with
  | .ok (f, _, _) => f
  | .error _ => {}

/-- the non-`Equal` evidence of the members of the class of `v` in `f` -/
def classEvList (infs : Nat → List TE) (nvars : Nat) (f : Forest) (v : Nat) : List TE :=
  (List.range nvars).flatMap fun a =>
    if DS.rootOf f a = DS.rootOf f v then (infs a).filter NoEq else []

theorem mem_classEvList {infs : Nat → List TE} {nvars : Nat} {f : Forest} {v : Nat} {e : TE} :
    e ∈ classEvList infs nvars f v ↔ ClassEv infs nvars f v e := by
  simp only [classEvList, List.mem_flatMap, List.mem_range, ClassEv, sameClass]
  constructor
  · rintro ⟨a, ha, he⟩
    split at he
    · rename_i hr
      rw [List.mem_filter] at he
      exact ⟨a, hr, ha, he.1, he.2⟩
    · cases he
  · rintro ⟨a, hr, ha, he, hn⟩
    refine ⟨a, ha, ?_⟩
    rw [if_pos hr, List.mem_filter]
    exact ⟨he, hn⟩

/-- executable `OrderFree`, read off a final forest: the resolved type bounds all the evidence of
the class (or there is none), or the evidence contains a contradictory pair -/
def orderFreeB (infs : Nat → List TE) (nvars : Nat) (f : Forest) (v : Nat) : Bool :=
  let L := classEvList infs nvars f v
  (match evidence f v with
   | [j] => L.all (fun e => wordLe e j)
   | _ => L.isEmpty) || L.any (fun a => L.any (fun b => conflicts a b))

theorem orderFree_of_B {o : Orders} (ho : OrdersOk o) {nvars : Nat} {infs : Nat → List TE}
    (hw : WordOnly infs nvars) {fuel : Nat} (hfuel : 2 ≤ fuel) {v : Nat}
    (hb : orderFreeB infs nvars (finalForest o fuel nvars infs) v = true) : OrderFree infs nvars v := by
  obtain ⟨f, r, hu, _⟩ := J1 ho hw fuel hfuel
  have hf : finalForest o fuel nvars infs = f := by simp only [finalForest, hu]
  rw [hf] at hb
  have c := classEv_iff_in ho hw hu v
  simp only [orderFreeB, Bool.or_eq_true, List.any_eq_true] at hb
  rcases hb with hb | ⟨a, ha, b, hb, hc⟩
  · left
    split at hb
    · rename_i j _
      refine ⟨j, fun e he => ?_⟩
      rw [List.all_eq_true] at hb
      exact hb e (mem_classEvList.mpr ((c e).mpr he))
    · refine ⟨.any, fun e he => ?_⟩
      have := mem_classEvList.mpr ((c e).mpr he)
      rw [List.isEmpty_iff.mp hb] at this
      cases this
  · right
    exact ⟨a, b, (c a).mp (mem_classEvList.mp ha), (c b).mp (mem_classEvList.mp hb), hc⟩

/-! ### U3: two concrete fragments -/

/-- fragment `A`: `sstore(1, callvalue)` after lifting -/
def exA : SV := rebuild .storageWrite [] [Idioms.sSlot (Idioms.K 1), IdiomsE2E.valueV]
/-- fragment `B`: `sstore(2, caller)` after lifting -/
def exB : SV := rebuild .storageWrite [] [Idioms.sSlot (Idioms.K 2), Idioms.callerV]

/-- these are the lifted forms of the two writes (for every hash context that does not know the
slot numbers as hashes) -/
example (h : Lift.HashCtx) (h1 : h.table 1 = none) (h2 : h.table 2 = none) :
    Lift.liftAll h (rebuild .storageWrite [] [Idioms.K 1, IdiomsE2E.valueV]) = .ok exA ∧
    Lift.liftAll h (rebuild .storageWrite [] [Idioms.K 2, Idioms.callerV]) = .ok exB :=
  ⟨IdiomsE2E.lift_write_K h 1 h1 _ IdiomsE2E.Inert_valueV,
   IdiomsE2E.lift_write_K h 2 h2 _ IdiomsE2E.Inert_callerV⟩

theorem ex_disjoint : Disjoint [exA] [exB] := disjoint_of_disjointB (by decide)

theorem ex_wordOnly : WordOnly (infOf ([exA] ++ [exB])) (nvarsOf ([exA] ++ [exB])) :=
  wordOnly_of_B (by decide)

theorem ex_orderFreeA : ∀ a, a < nvarsOf [exA] → OrderFree (infOf [exA]) (nvarsOf [exA]) a := by
  have hw := wordOnly_left [exA] [exB] ex_disjoint ex_wordOnly
  have : ∀ a, a < nvarsOf [exA] → orderFreeB (infOf [exA]) (nvarsOf [exA])
      (finalForest idOrders 2 (nvarsOf [exA]) (infOf [exA])) a = true := by decide
  exact fun a ha => orderFree_of_B idOrders_ok hw (Nat.le_refl 2) (this a ha)

theorem ex_orderFreeB : ∀ b, b < nvarsOf [exB] → OrderFree (infOf [exB]) (nvarsOf [exB]) b := by
  have hw := wordOnly_right [exA] [exB] ex_disjoint ex_wordOnly
  have : ∀ a, a < nvarsOf [exB] → orderFreeB (infOf [exB]) (nvarsOf [exB])
      (finalForest idOrders 2 (nvarsOf [exB]) (infOf [exB])) a = true := by decide
  exact fun a ha => orderFree_of_B idOrders_ok hw (Nat.le_refl 2) (this a ha)

theorem ex_layoutA : (analyseLifted idOrders 2 [exA]).outcome = .layout [⟨1, 0, .uInt none⟩] := rfl
theorem ex_layoutB : (analyseLifted idOrders 2 [exB]).outcome = .layout [⟨2, 0, .address⟩] := rfl

/-- **U3.**  All hypotheses of U1 / U2 hold on the two writes `sstore(1, callvalue)` and
`sstore(2, caller)` (lifted); the joint program's layout is — by U2, not by evaluation — the
union `slot 1 : uint, slot 2 : address`, under every admissible iteration order and every budget
for which it returns one, and it does return one for every budget ≥ 2. -/
theorem U3 :
    Disjoint [exA] [exB] ∧
    WordOnly (infOf ([exA] ++ [exB])) (nvarsOf ([exA] ++ [exB])) ∧
    (∀ a, a < nvarsOf [exA] → OrderFree (infOf [exA]) (nvarsOf [exA]) a) ∧
    (∀ b, b < nvarsOf [exB] → OrderFree (infOf [exB]) (nvarsOf [exB]) b) ∧
    (∀ (o : Orders), OrdersOk o → ∀ fuel l, (analyseLifted o fuel ([exA] ++ [exB])).outcome = .layout l →
      l = [⟨1, 0, .uInt none⟩, ⟨2, 0, .address⟩]) ∧
    (∀ (o : Orders), OrdersOk o → ∀ fuel, 2 ≤ fuel →
      (analyseLifted o fuel ([exA] ++ [exB])).outcome = .layout [⟨1, 0, .uInt none⟩, ⟨2, 0, .address⟩]) := by
  have key : ∀ (o : Orders), OrdersOk o → ∀ fuel l, (analyseLifted o fuel ([exA] ++ [exB])).outcome = .layout l →
      l = [⟨1, 0, .uInt none⟩, ⟨2, 0, .address⟩] := by
    intro o ho fuel l h
    rw [U2_layout_eq ho idOrders_ok idOrders_ok [exA] [exB] ex_disjoint ex_wordOnly h ex_layoutA ex_layoutB]
    rfl
  refine ⟨ex_disjoint, ex_wordOnly, ex_orderFreeA, ex_orderFreeB, key, ?_⟩
  intro o ho fuel hfuel
  obtain ⟨l, hl⟩ := U2_exists ho idOrders_ok idOrders_ok [exA] [exB] ex_disjoint ex_wordOnly hfuel
    ex_layoutA ex_layoutB
  rw [hl, key o ho fuel l hl]

/-- the evaluation agrees -/
example : (analyseLifted idOrders 2 ([exA] ++ [exB])).outcome
    = .layout [⟨1, 0, .uInt none⟩, ⟨2, 0, .address⟩] := rfl

/-- U1 on the example: the class of `A`'s slot variable (`1`, equated with the stored value `2`)
resolves to `uint` in both runs; `B`'s slot variable (`1`, in the joint run `rB … 1 = 5`) to
`address`. -/
example : ∃ f fA fB n r nA r1 nB r2,
    unify idOrders 2 (nvarsOf ([exA] ++ [exB])) (infOf ([exA] ++ [exB])) = .ok (f, n, r) ∧
    unify idOrders 2 (nvarsOf [exA]) (infOf [exA]) = .ok (fA, nA, r1) ∧
    unify idOrders 2 (nvarsOf [exB]) (infOf [exB]) = .ok (fB, nB, r2) ∧
    rA [exA] [exB] 1 = 1 ∧ rB [exA] [exB] 1 = 5 ∧
    evidence f 1 = [.word none .unsignedNumeric] ∧ evidence fA 1 = [.word none .unsignedNumeric] ∧
    evidence f 5 = [.word (some 160) .address] ∧ evidence fB 1 = [.word (some 160) .address] :=
  ⟨_, _, _, _, _, _, _, _, _, rfl, rfl, rfl, rfl, rfl, rfl, rfl, rfl, rfl⟩

/-! ### a fragment with contradictory evidence: `sstore(1, iszero(callvalue)); sstore(1, caller)`

Slot 1 receives a `bool` and an `address`: its class is a conflict in `A` alone and — by U1/U2,
with no compatibility assumption — in every joint run. -/

def exC1 : SV := rebuild .storageWrite [] [Idioms.sSlot (Idioms.K 1), rebuild .isZero [] [IdiomsE2E.valueV]]
def exC2 : SV := rebuild .storageWrite [] [Idioms.sSlot (Idioms.K 1), Idioms.callerV]

theorem exC_disjoint : Disjoint [exC1, exC2] [exB] := disjoint_of_disjointB (by decide)

theorem exC_wordOnly : WordOnly (infOf ([exC1, exC2] ++ [exB])) (nvarsOf ([exC1, exC2] ++ [exB])) :=
  wordOnly_of_B (by decide)

theorem exC_layoutA :
    (analyseLifted idOrders 2 [exC1, exC2]).outcome = .layout [⟨1, 0, .conflictedType [] []⟩] := rfl

theorem exC_union (o : Orders) (ho : OrdersOk o) (fuel : Nat) (hfuel : 2 ≤ fuel) :
    (analyseLifted o fuel ([exC1, exC2] ++ [exB])).outcome
      = .layout [⟨1, 0, .conflictedType [] []⟩, ⟨2, 0, .address⟩] := by
  obtain ⟨l, hl⟩ := U2_exists ho idOrders_ok idOrders_ok [exC1, exC2] [exB] exC_disjoint exC_wordOnly hfuel
    exC_layoutA ex_layoutB
  rw [hl, U2_layout_eq ho idOrders_ok idOrders_ok _ _ exC_disjoint exC_wordOnly hl exC_layoutA ex_layoutB]
  rfl


end SLE.FragUnion
