import SLE.Lemmas.Idioms
import SLE.Lemmas.Unify
/-!
C04, end to end — for the canonical storage idioms the final *layout* of `TC.analyse` has the right
entry, for EVERY slot number `w`: a plain word (E1), an address, masked or not (E2), a mapping keyed by
an address or a word (E3), of depth 2 (E5), a dynamic array (E4), two fields packed in one word (E5').

Method: lifting is taken from `Idioms.lean` (general in `w`); registration and the rules are evaluated
symbolically in `w` (`reg*`: the judgement list does not depend on `w`); unification and rendering of
the resulting closed judgement list are decided by the kernel (`chk*`), for the least fuel, and lifted
to any larger fuel by `unify_mono`; the layout loop sees exactly one constant slot (`oneSlot*`).
-/
namespace SLE.IdiomsE2E
open SLE SLE.SV SLE.Lift SLE.TC SLE.Idioms
open SLE.LiftInv (cnt stage3 stage5 stage7 stage8 stage9 liftAll_eq)

def valueV : SV := rebuild .callValue [] []

theorem Inert_valueV : Inert valueV := by simp [Inert, valueV, rebuild, Her, HerL, inertKind, childSize]
theorem Inert_callerV : Inert callerV := by simp [Inert, callerV, Her, HerL, inertKind, childSize]

theorem Her_K_okPre (h : HashCtx) (w : Nat) (hw : h.table w = none) : Her (okPre h) (K w) :=
  Her_K ⟨(fun _ w' r hh => by cases hh; exact hw), by decide, by decide⟩

/-- a write of an inert value to the constant slot `w` -/
theorem lift_write_K (h : HashCtx) (w : Nat) (hw : h.table w = none) (val : SV) (hval : Inert val) :
    liftAll h (rebuild .storageWrite [] [K w, val]) = .ok (rebuild .storageWrite [] [sSlot (K w), val]) := by
  rw [liftAll_access h (Or.inr rfl) [] (K w) val (K w) val (Her_K_okPre h w hw) (Inert_okPre h hval)
      (unpick_K h w) (fun f _ => ima_K f w)
      (fun f _ => insertMappingAccesses_id f val (Inert_sha3 hval)) (Her_K (by simp [okMid])) (Inert_okMid hval)
      (fun f => liftPacked_write f [] (K w) val (Her_K (by simp)) hval)]
  rw [stage9_access (Or.inr rfl) [] (K w) val (K w) val (K w) val (fun f _ => lda_K f w)
      (fun f _ => liftDynArray_id f val (Inert_sha3 hval)) (by simp [K, mkKnownNat, SV.kind])
      (fun f _ => iss_K f w) (fun f _ => insertStorageSlots_id f val (Inert_slots hval))
      (Her_K (fun hh => by cases hh)) (Inert_ok9 hval)]

/-! ### the pipeline after lifting, for a single value -/

def infOf (J : List (Nat × TE)) : Nat → List TE := fun v => ((infSets J).lookup v).getD []

/-- everything `analyse` does after registration and the rules -/
def tailOutcome (o : Unify.Orders) (fuel n : Nat) (J : List (Nat × TE)) (vals : List TV) : Outcome :=
  match Unify.unify o fuel n (infOf J) with
  | .error e => .unifyFault e
  | .ok (f, _, _) =>
    match layoutEntries (typeOfIn f) 4096 vals with
    | .error e => .renderFault e
    | .ok es => .layout (Layout.buildLayout es)

theorem analyse_single (h : HashCtx) (o : Unify.Orders) (fuel : Nat) (v lifted : SV)
    (hl : liftAll h v = .ok lifted) :
    (analyse h o fuel [v]).outcome =
      tailOutcome o fuel (inferAll (registerAll [lifted])).next (inferAll (registerAll [lifted])).judgements
        (registerAll [lifted]).values := by
  have hu : uniqueSV [v] = [v] := by simp [uniqueSV]
  unfold tailOutcome infOf
  simp only [analyse, hu, liftValues, hl]
  generalize Unify.unify o fuel _ _ = U
  cases U with
  | error e => rfl
  | ok r =>
    obtain ⟨f, a, b⟩ := r
    simp only
    generalize layoutEntries _ _ _ = L
    cases L <;> rfl

theorem unifyLoop_mono (o : Unify.Orders) : ∀ (c : Nat) (f : Unify.Forest) (next counter rounds : Nat) r,
    Unify.unifyLoop o c f next counter rounds = .ok r →
    ∀ k, Unify.unifyLoop o (c + k) f next counter rounds = .ok r := by
  intro c
  induction c with
  | zero => intro f next counter rounds r h; simp [Unify.unifyLoop] at h
  | succ c ih =>
    intro f next counter rounds r h k
    have hk : c + 1 + k = (c + k) + 1 := by omega
    rw [hk]
    simp only [Unify.unifyLoop] at h ⊢
    split
    · rename_i e he; rw [he] at h; simp at h
    · rename_i acc he
      rw [he] at h
      simp only at h
      split
      · rename_i hp; rw [if_pos hp] at h; exact ih _ _ _ _ _ h k
      · rename_i hp; rw [if_neg hp] at h; exact h

theorem unify_mono (o : Unify.Orders) (c n : Nat) (infs : Nat → List TE) r
    (h : Unify.unify o c n infs = .ok r) (k : Nat) : Unify.unify o (c + k) n infs = .ok r := by
  simp only [Unify.unify] at h ⊢
  split
  · rename_i e he; rw [he] at h; simp at h
  · rename_i f he; rw [he] at h; exact unifyLoop_mono o c _ _ _ _ _ h k

/-- the closed part: unify the judgements `J` over `n` variables with `c` rounds of fuel, render
variable `tv`, and test the result -/
def chk (c n : Nat) (J : List (Nat × TE)) (tv : Nat) (p : AbiVal → Bool) : Bool :=
  match Unify.unify Unify.idOrders c n (infOf J) with
  | .error _ => false
  | .ok (f, _, _) =>
    match abiTypeFor (typeOfIn f) 4096 tv [] false with
    | .error _ => false
    | .ok (av, _) => p av

/-- the entries the layout loop makes of one rendered slot -/
def here (w : Nat) : AbiVal → List (Layout.Entry JsonModel.AbiType)
  | .type t => [⟨w, 0, t⟩]
  | .packed ps => ps.map (fun (t, off) => ⟨w, off, t⟩)

/-- `vals` has exactly one constant slot, number `w`, whose type variable is `tv` -/
def OneSlot (vals : List TV) (w tv : Nat) : Prop :=
  ∀ tf, layoutEntries tf 4096 vals =
    match abiTypeFor tf 4096 tv [] false with
    | .error e => .error e
    | .ok (av, _) => .ok (here w av)

theorem tail_of_chk {c n : Nat} {J : List (Nat × TE)} {tv : Nat} {p : AbiVal → Bool}
    (hc : chk c n J tv p = true) (fuel : Nat) (vals : List TV) (w : Nat) (hv : OneSlot vals w tv) :
    ∃ av, p av = true ∧
      tailOutcome Unify.idOrders (c + fuel) n J vals = .layout (Layout.buildLayout (here w av)) := by
  unfold chk at hc
  split at hc
  · cases hc
  · rename_i f n' r hu
    split at hc
    · cases hc
    · rename_i av seen ha
      refine ⟨av, hc, ?_⟩
      simp only [tailOutcome, unify_mono _ _ _ _ _ hu fuel, hv (typeOfIn f), ha]

theorem buildLayout_single {α : Type} (e : Layout.Entry α) : Layout.buildLayout [e] = [e] := rfl

/-! ### E1 -/

def isUInt : AbiVal → Bool
  | .type (.uInt none) => true
  | _ => false

theorem isUInt_eq {av : AbiVal} (h : isUInt av = true) : av = .type (.uInt none) := by
  unfold isUInt at h; split at h <;> simp_all

def lifted1 (w : Nat) : SV := rebuild .storageWrite [] [sSlot (K w), valueV]

def vals1 (w : Nat) : List TV :=
  [.node .knownData [w] [] 0, .node .storageSlot [] [.node .knownData [w] [] 0] 1, .node .callValue [] [] 2,
   .node .storageWrite [] [.node .storageSlot [] [.node .knownData [w] [] 0] 1, .node .callValue [] [] 2] 3]

def J1 : List (Nat × TE) :=
  [(0, .word none .unsignedNumeric), (2, .word none .unsignedNumeric), (1, .equal 2), (2, .equal 1)]

theorem reg1 (w : Nat) : (registerAll [lifted1 w]).values = vals1 w ∧
    (inferAll (registerAll [lifted1 w])).next = 4 ∧ (inferAll (registerAll [lifted1 w])).judgements = J1 := by
  simp [registerAll, lifted1, sSlot, K, mkKnownNat, valueV, rebuild, childSize, nodeCount, nodeCountList,
    register, isStable, vals1, J1, inferAll, applyRules, infer, uword, TV.tv]

theorem oneSlot1 (w : Nat) : OneSlot (vals1 w) w 1 := by
  intro tf
  simp only [vals1, layoutEntries, isConstSlot, TV.tv]
  generalize abiTypeFor tf 4096 _ _ _ = A
  rcases A with e | ⟨av, seen⟩
  · rfl
  · cases av <;> simp [here]

theorem chk1 : chk 1 4 J1 1 isUInt = true := by decide +kernel

/-- the stages put together: lifting (`hl`), registration and rules (`hreg`), the one constant slot
(`hone`), and the closed unification-and-rendering check (`hc`) -/
theorem e2e_av (h : HashCtx) (w fuel c n tv : Nat) (v lifted : SV) (vals : List TV) (J : List (Nat × TE))
    (p : AbiVal → Bool)
    (hl : liftAll h v = .ok lifted)
    (hreg : (registerAll [lifted]).values = vals ∧ (inferAll (registerAll [lifted])).next = n ∧
      (inferAll (registerAll [lifted])).judgements = J)
    (hone : OneSlot vals w tv) (hc : chk c n J tv p = true) :
    ∃ av, p av = true ∧
      (analyse h Unify.idOrders (fuel + c) [v]).outcome = .layout (Layout.buildLayout (here w av)) := by
  rw [analyse_single h _ _ _ _ hl, hreg.1, hreg.2.1, hreg.2.2, Nat.add_comm]
  exact tail_of_chk hc fuel vals w hone

theorem e2e (h : HashCtx) (w fuel c n tv : Nat) (v lifted : SV) (vals : List TV) (J : List (Nat × TE))
    (p : AbiVal → Bool) (T : JsonModel.AbiType)
    (hl : liftAll h v = .ok lifted)
    (hreg : (registerAll [lifted]).values = vals ∧ (inferAll (registerAll [lifted])).next = n ∧
      (inferAll (registerAll [lifted])).judgements = J)
    (hone : OneSlot vals w tv) (hc : chk c n J tv p = true) (hp : ∀ av, p av = true → av = .type T) :
    (analyse h Unify.idOrders (fuel + c) [v]).outcome = .layout [⟨w, 0, T⟩] := by
  obtain ⟨av, hpa, ht⟩ := e2e_av h w fuel c n tv v lifted vals J p hl hreg hone hc
  rw [ht, hp av hpa]; rfl

theorem E1 (h : HashCtx) (w : Nat) (hw : h.table w = none) (fuel : Nat) :
    (analyse h Unify.idOrders (fuel + 1) [rebuild .storageWrite [] [K w, valueV]]).outcome =
      .layout [⟨w, 0, .uInt none⟩] :=
  e2e h w fuel 1 4 1 _ _ (vals1 w) J1 isUInt _ (lift_write_K h w hw valueV Inert_valueV) (reg1 w)
    (oneSlot1 w) chk1 (fun _ => isUInt_eq)

/-! ### E2 (masked): lifting -/

def andV : SV := rebuild .and_ [] [callerV, K (mask 0 160)]
def subV : SV := rebuild .subWord [0, 160] [callerV]
def pkV : SV := rebuild .packed [0, 160] [subV]

theorem lift_write_masked (h : HashCtx) (w : Nat) (hw : h.table w = none) (hm : h.table (mask 0 160) = none) :
    liftAll h (rebuild .storageWrite [] [K w, andV]) = .ok (rebuild .storageWrite [] [sSlot (K w), pkV]) := by
  have hpre : Her (okPre h) andV := by
    simp only [andV, Her_rebuild]
    refine ⟨okPre_ne h (by decide) (by decide) (by decide), ?_⟩
    intro x hx
    simp only [List.mem_cons, List.mem_nil_iff, or_false] at hx
    rcases hx with rfl | rfl
    · exact Inert_okPre h Inert_callerV
    · exact Her_K_okPre h _ hm
  have hsha : Her (fun k _ _ => k ≠ .sha3) andV := by
    simp only [andV, Her_rebuild]
    refine ⟨by decide, ?_⟩
    intro x hx
    simp only [List.mem_cons, List.mem_nil_iff, or_false] at hx
    rcases hx with rfl | rfl
    · exact Inert_sha3 Inert_callerV
    · exact Her_K (by decide)
  have h3 := stage3_access h (Or.inr rfl) [] (K w) andV (K w) andV (Her_K_okPre h w hw) hpre (unpick_K h w)
    (fun f _ => ima_K f w) (fun f _ => insertMappingAccesses_id f andV hsha)
  have h4 : insertSubWords (cnt (rebuild .storageWrite [] [K w, andV])) (rebuild .storageWrite [] [K w, andV]) =
      .ok (rebuild .storageWrite [] [K w, subV]) := by
    have hc : cnt (rebuild .storageWrite [] [K w, andV]) = 6 := by
      simp [cnt, rebuild, andV, callerV, K, mkKnownNat, nodeCount, nodeCountList]
    have hK : insertSubWords 5 (K w) = .ok (K w) := insertSubWords_id _ _ (Her_K (by decide))
    have hA : insertSubWords 5 andV = .ok subV :=
      (and_mask_is_subword 0 160 (by omega) (by omega) callerV Inert_callerV 4 [] _).1
    rw [hc]
    simp only [rebuild, insertSubWords, mapE, hK, hA]
  have hsubI : ∀ {ok : Kind → List Nat → List SV → Prop}, ok .subWord [0, 160] [callerV] → Her ok callerV → Her ok subV := by
    intro ok h1 h2
    simp only [subV, Her_rebuild]
    exact ⟨h1, fun x hx => by rw [List.mem_singleton.mp hx]; exact h2⟩
  have h5 : stage5 (rebuild .storageWrite [] [K w, subV]) = rebuild .storageWrite [] [K w, subV] := by
    unfold stage5
    apply insertMulShifts_id
    rw [Her_rebuild]
    refine ⟨by decide, ?_⟩
    intro x hx
    simp only [List.mem_cons, List.mem_nil_iff, or_false] at hx
    rcases hx with rfl | rfl
    · exact Her_K (by decide)
    · exact hsubI (by decide) (Her_mono (fun _ _ _ hh => hh.2) _ (Inert_okMid Inert_callerV))
  have h6 : liftPacked (cnt (rebuild .storageWrite [] [K w, subV])) (rebuild .storageWrite [] [K w, subV]) =
      .ok (rebuild .storageWrite [] [K w, pkV]) := by
    have hc : cnt (rebuild .storageWrite [] [K w, subV]) = 5 := by
      simp [cnt, rebuild, subV, callerV, K, mkKnownNat, nodeCount, nodeCountList]
    rw [hc]
    simp [rebuild, liftPacked, mapE, subV, pkV, callerV, unpickOrs, nodeCount, nodeCountList, SV.kind, sortSpans, insertSpan, usizeMax]
  have hpkI : ∀ {ok : Kind → List Nat → List SV → Prop}, ok .packed [0, 160] [subV] →
      ok .subWord [0, 160] [callerV] → Her ok callerV → Her ok pkV := by
    intro ok h0 h1 h2
    simp only [pkV, Her_rebuild]
    exact ⟨h0, fun x hx => by rw [List.mem_singleton.mp hx]; exact hsubI h1 h2⟩
  rw [liftAll_eq, h3, h4]
  simp only [h5, h6]
  rw [stage9_access (Or.inr rfl) [] (K w) pkV (K w) pkV (K w) pkV (fun f _ => lda_K f w)
      (fun f _ => liftDynArray_id f pkV (hpkI (by decide) (by decide) (Inert_sha3 Inert_callerV)))
      (by simp [K, mkKnownNat, SV.kind])
      (fun f _ => iss_K f w)
      (fun f _ => insertStorageSlots_id f pkV (hpkI (by decide) (by decide) (Inert_slots Inert_callerV)))
      (Her_K (fun hh => by cases hh))
      (hpkI (fun hh => by cases hh) (fun hh => by cases hh) (Inert_ok9 Inert_callerV))]


/-! ### E2 -/

def isAddr : AbiVal → Bool
  | .type .address => true
  | _ => false

theorem isAddr_eq {av : AbiVal} (h : isAddr av = true) : av = .type .address := by
  unfold isAddr at h; split at h <;> simp_all

abbrev tK (w : Nat) : TV := .node .knownData [w] [] 0
abbrev tS (w : Nat) : TV := .node .storageSlot [] [tK w] 1

def vals2u (w : Nat) : List TV :=
  [tK w, tS w, .node .caller [] [] 2, .node .storageWrite [] [tS w, .node .caller [] [] 2] 3]

def J2u : List (Nat × TE) :=
  [(0, .word none .unsignedNumeric), (2, .word (some 160) .address), (1, .equal 2), (2, .equal 1)]

theorem reg2u (w : Nat) : (registerAll [rebuild .storageWrite [] [sSlot (K w), callerV]]).values = vals2u w ∧
    (inferAll (registerAll [rebuild .storageWrite [] [sSlot (K w), callerV]])).next = 4 ∧
    (inferAll (registerAll [rebuild .storageWrite [] [sSlot (K w), callerV]])).judgements = J2u := by
  simp [registerAll, sSlot, K, mkKnownNat, callerV, rebuild, childSize, nodeCount, nodeCountList,
    register, isStable, vals2u, J2u, inferAll, applyRules, infer, uword, address, TV.tv]

theorem oneSlot2u (w : Nat) : OneSlot (vals2u w) w 1 := by
  intro tf
  simp only [vals2u, layoutEntries, isConstSlot, TV.tv]
  generalize abiTypeFor tf 4096 _ _ _ = A
  rcases A with e | ⟨av, seen⟩
  · rfl
  · cases av <;> simp [here]

theorem chk2u : chk 1 4 J2u 1 isAddr = true := by decide +kernel

/-- E2, un-masked: `sstore(w, caller)` -/
theorem E2_unmasked (h : HashCtx) (w : Nat) (hw : h.table w = none) (fuel : Nat) :
    (analyse h Unify.idOrders (fuel + 1) [rebuild .storageWrite [] [K w, callerV]]).outcome =
      .layout [⟨w, 0, .address⟩] :=
  e2e h w fuel 1 4 1 _ _ (vals2u w) J2u isAddr _ (lift_write_K h w hw callerV Inert_callerV) (reg2u w)
    (oneSlot2u w) chk2u (fun _ => isAddr_eq)

def tSub : TV := .node .subWord [0, 160] [.node .caller [] [] 2] 3
def tPk : TV := .node .packed [0, 160] [tSub] 4

def vals2 (w : Nat) : List TV :=
  [tK w, tS w, .node .caller [] [] 2, tSub, tPk, .node .storageWrite [] [tS w, tPk] 5]

def J2 : List (Nat × TE) :=
  [(0, .word none .unsignedNumeric), (2, .word (some 160) .address), (3, .word (some 160) .bytes),
   (2, .packed [⟨3, 0, 160⟩] false), (4, .packed [⟨3, 0, 160⟩] false), (1, .equal 4), (4, .equal 1)]

theorem reg2 (w : Nat) : (registerAll [rebuild .storageWrite [] [sSlot (K w), pkV]]).values = vals2 w ∧
    (inferAll (registerAll [rebuild .storageWrite [] [sSlot (K w), pkV]])).next = 6 ∧
    (inferAll (registerAll [rebuild .storageWrite [] [sSlot (K w), pkV]])).judgements = J2 := by
  simp [registerAll, sSlot, K, mkKnownNat, callerV, pkV, subV, rebuild, childSize, nodeCount, nodeCountList,
    register, isStable, vals2, J2, tSub, tPk, inferAll, applyRules, applyRules.spansOf, infer, uword, address,
    bytesN, TV.tv]

theorem oneSlot2 (w : Nat) : OneSlot (vals2 w) w 1 := by
  intro tf
  simp only [vals2, tSub, tPk, layoutEntries, isConstSlot, TV.tv]
  generalize abiTypeFor tf 4096 _ _ _ = A
  rcases A with e | ⟨av, seen⟩
  · rfl
  · cases av <;> simp [here]

theorem chk2 : chk 3 6 J2 1 isAddr = true := by decide +kernel

/-- E2: `sstore(w, caller & (2^160 - 1))`.  Besides `hw` the mask constant itself must not be a
recognised slot hash (`hm`): see `E2_needs_hm`. -/
theorem E2_partial (h : HashCtx) (w : Nat) (hw : h.table w = none) (hm : h.table (mask 0 160) = none)
    (fuel : Nat) :
    (analyse h Unify.idOrders (fuel + 3)
      [rebuild .storageWrite [] [K w, rebuild .and_ [] [callerV, K (mask 0 160)]]]).outcome =
      .layout [⟨w, 0, .address⟩] :=
  e2e h w fuel 3 6 1 _ _ (vals2 w) J2 isAddr _ (lift_write_masked h w hw hm) (reg2 w)
    (oneSlot2 w) chk2 (fun _ => isAddr_eq)


/-! ### E3: mappings -/

/-- the write counterpart of `mapping_read_lifted_eq`: a store to `base[k₁]…[kₙ]` of the mapping at slot
`w`, any depth, any inert keys and value -/
theorem mapping_write_lifted_eq (h : HashCtx) (w : Nat) (hw : h.table w = none) (ks : List SV)
    (hks : ∀ k ∈ ks, Inert k) (val : SV) (hval : Inert val) :
    liftAll h (rebuild .storageWrite [] [mapKey ks (K w), val]) =
      .ok (rebuild .storageWrite [] [sSlot (mapIdxS ks (K w)), val]) := by
  have hpre : Her (okPre h) (mapKey ks (K w)) :=
    Her_mapKey (fun _ => okPre_ne h (by decide) (by decide) (by decide)) (fun _ => okPre_ne h (by decide) (by decide) (by decide))
      ks _ (fun k hk => Inert_okPre h (hks k hk)) (Her_K_okPre h w hw)
  have hima := fun f hf => mapping_key_lifted ks w hks f hf
  have hmid : Her okMid (mapIdx ks (K w)) :=
    Her_mapIdx (fun _ => by simp [okMid]) ks _ (fun k hk => Inert_okMid (hks k hk)) (Her_K (by simp [okMid]))
  have hwr : Her (fun k _ _ => k ≠ .storageWrite) (mapIdx ks (K w)) :=
    Her_mapIdx (fun _ => by simp) ks _ (fun k hk => Inert_write (hks k hk)) (Her_K (by simp))
  have hsh : Her (fun k _ _ => k ≠ .sha3) (mapIdx ks (K w)) :=
    Her_mapIdx (fun _ => by simp) ks _ (fun k hk => Inert_sha3 (hks k hk)) (Her_K (by simp))
  have h9 : Her ok9 (mapIdxS ks (K w)) :=
    Her_mapIdxS (fun _ hh => by cases hh) (fun _ hh => by cases hh) ks _ (fun k hk => Inert_ok9 (hks k hk))
      (Her_K (fun hh => by cases hh))
  have hiss := iss_mapIdx ks (K w) (K w) hks (by simp [K, mkKnownNat, SV.kind]) (fun f _ => iss_K f w)
  rw [liftAll_access h (Or.inr rfl) [] _ val (mapIdx ks (K w)) val hpre (Inert_okPre h hval)
    (unpick_mapKey h ks hks w) hima (fun f _ => insertMappingAccesses_id f val (Inert_sha3 hval)) hmid
    (Inert_okMid hval) (fun f => liftPacked_write f [] _ val hwr hval)]
  rw [stage9_access (Or.inr rfl) [] _ val (mapIdx ks (K w)) val (mapIdxS ks (K w)) val
    (fun f _ => liftDynArray_id f _ hsh) (fun f _ => liftDynArray_id f val (Inert_sha3 hval))
    (mapIdx_kind ks _ (by simp [K, mkKnownNat, SV.kind])) hiss
    (fun f _ => insertStorageSlots_id f val (Inert_slots hval)) h9 (Inert_ok9 hval)]

def isMapAU : AbiVal → Bool
  | .type (.mapping .address (.uInt none)) => true
  | _ => false

theorem isMapAU_eq {av : AbiVal} (h : isMapAU av = true) : av = .type (.mapping .address (.uInt none)) := by
  unfold isMapAU at h; split at h <;> simp_all

def tM3 (w : Nat) : TV := .node .mappingIndex [0] [tS w, .node .caller [] [] 2] 3
def tMS3 (w : Nat) : TV := .node .storageSlot [] [tM3 w] 4

def vals3 (w : Nat) : List TV :=
  [tK w, tS w, .node .caller [] [] 2, tM3 w, tMS3 w, .node .callValue [] [] 5,
   .node .storageWrite [] [tMS3 w, .node .callValue [] [] 5] 6]

def J3 : List (Nat × TE) :=
  [(0, .word none .unsignedNumeric), (2, .word (some 160) .address), (3, .word none .unsignedNumeric),
   (7, .packed [⟨4, 0, 256⟩] false), (1, .mapping 2 7), (5, .word none .unsignedNumeric),
   (4, .equal 5), (5, .equal 4)]

def lifted3 (w : Nat) : SV := rebuild .storageWrite [] [sSlot (mapIdxS [callerV] (K w)), valueV]

theorem reg3 (w : Nat) : (registerAll [lifted3 w]).values = vals3 w ∧
    (inferAll (registerAll [lifted3 w])).next = 8 ∧
    (inferAll (registerAll [lifted3 w])).judgements = J3 := by
  simp [registerAll, lifted3, mapIdxS, mIdx, sSlot, K, mkKnownNat, callerV, valueV, rebuild, childSize, nodeCount,
    nodeCountList, register, isStable, vals3, J3, tM3, tMS3, inferAll, applyRules, infer, uword,
    address, TV.tv]

theorem oneSlot3 (w : Nat) : OneSlot (vals3 w) w 1 := by
  intro tf
  simp only [vals3, tM3, tMS3, layoutEntries, isConstSlot, TV.tv]
  generalize abiTypeFor tf 4096 _ _ _ = A
  rcases A with e | ⟨av, seen⟩
  · rfl
  · cases av <;> simp [here]

theorem chk3 : chk 1 8 J3 1 isMapAU = true := by decide +kernel

/-- E3: `m[caller] = callvalue` for the mapping `m` at slot `w` (key `keccak(caller . w)`) -/
theorem E3 (h : HashCtx) (w : Nat) (hw : h.table w = none) (fuel : Nat) :
    (analyse h Unify.idOrders (fuel + 1) [rebuild .storageWrite [] [mapKey [callerV] (K w), valueV]]).outcome =
      .layout [⟨w, 0, .mapping .address (.uInt none)⟩] :=
  e2e h w fuel 1 8 1 _ _ (vals3 w) J3 isMapAU _
    (mapping_write_lifted_eq h w hw [callerV] (fun k hk => by rw [List.mem_singleton.mp hk]; exact Inert_callerV)
      valueV Inert_valueV)
    (reg3 w) (oneSlot3 w) chk3 (fun _ => isMapAU_eq)

def isMapUA : AbiVal → Bool
  | .type (.mapping (.uInt none) .address) => true
  | _ => false

theorem isMapUA_eq {av : AbiVal} (h : isMapUA av = true) : av = .type (.mapping (.uInt none) .address) := by
  unfold isMapUA at h; split at h <;> simp_all

def tM3w (w : Nat) : TV := .node .mappingIndex [0] [tS w, .node .callValue [] [] 2] 3
def tMS3w (w : Nat) : TV := .node .storageSlot [] [tM3w w] 4

def vals3w (w : Nat) : List TV :=
  [tK w, tS w, .node .callValue [] [] 2, tM3w w, tMS3w w, .node .caller [] [] 5,
   .node .storageWrite [] [tMS3w w, .node .caller [] [] 5] 6]

def J3w : List (Nat × TE) :=
  [(0, .word none .unsignedNumeric), (2, .word none .unsignedNumeric), (3, .word none .unsignedNumeric),
   (7, .packed [⟨4, 0, 256⟩] false), (1, .mapping 2 7), (5, .word (some 160) .address),
   (4, .equal 5), (5, .equal 4)]

def lifted3w (w : Nat) : SV := rebuild .storageWrite [] [sSlot (mapIdxS [valueV] (K w)), callerV]

theorem reg3w (w : Nat) : (registerAll [lifted3w w]).values = vals3w w ∧
    (inferAll (registerAll [lifted3w w])).next = 8 ∧
    (inferAll (registerAll [lifted3w w])).judgements = J3w := by
  simp [registerAll, lifted3w, mapIdxS, mIdx, sSlot, K, mkKnownNat, callerV, valueV, rebuild, childSize, nodeCount,
    nodeCountList, register, isStable, vals3w, J3w, tM3w, tMS3w, inferAll, applyRules, infer, uword,
    address, TV.tv]

theorem oneSlot3w (w : Nat) : OneSlot (vals3w w) w 1 := by
  intro tf
  simp only [vals3w, tM3w, tMS3w, layoutEntries, isConstSlot, TV.tv]
  generalize abiTypeFor tf 4096 _ _ _ = A
  rcases A with e | ⟨av, seen⟩
  · rfl
  · cases av <;> simp [here]

theorem chk3w : chk 1 8 J3w 1 isMapUA = true := by decide +kernel

/-- E3, word key: `m[callvalue] = caller` (key `keccak(callvalue . w)`) -/
theorem E3_word_key (h : HashCtx) (w : Nat) (hw : h.table w = none) (fuel : Nat) :
    (analyse h Unify.idOrders (fuel + 1) [rebuild .storageWrite [] [mapKey [valueV] (K w), callerV]]).outcome =
      .layout [⟨w, 0, .mapping (.uInt none) .address⟩] :=
  e2e h w fuel 1 8 1 _ _ (vals3w w) J3w isMapUA _
    (mapping_write_lifted_eq h w hw [valueV] (fun k hk => by rw [List.mem_singleton.mp hk]; exact Inert_valueV)
      callerV Inert_callerV)
    (reg3w w) (oneSlot3w w) chk3w (fun _ => isMapUA_eq)

/-! ### E4: dynamic arrays -/

def isDynA : AbiVal → Bool
  | .type (.dynArray .address) => true
  | _ => false

theorem isDynA_eq {av : AbiVal} (h : isDynA av = true) : av = .type (.dynArray .address) := by
  unfold isDynA at h; split at h <;> simp_all

def tD4 (w : Nat) : TV := .node .dynamicArrayIndex [] [tS w, .node .callValue [] [] 2] 3
def tDS4 (w : Nat) : TV := .node .storageSlot [] [tD4 w] 4

def vals4 (w : Nat) : List TV :=
  [tK w, tS w, .node .callValue [] [] 2, tD4 w, tDS4 w, .node .caller [] [] 5,
   .node .storageWrite [] [tDS4 w, .node .caller [] [] 5] 6]

def J4 : List (Nat × TE) :=
  [(0, .word none .unsignedNumeric), (2, .word none .unsignedNumeric), (3, .word none .unsignedNumeric),
   (5, .word (some 160) .address), (4, .equal 5), (5, .equal 4), (4, .equal 5),
   (2, .word none .unsignedNumeric), (1, .dynamicArray 4)]

def lifted4 (w : Nat) : SV :=
  rebuild .storageWrite [] [rebuild .storageSlot [] [rebuild .dynamicArrayIndex [] [rebuild .storageSlot [] [K w], valueV]], callerV]

theorem reg4 (w : Nat) : (registerAll [lifted4 w]).values = vals4 w ∧
    (inferAll (registerAll [lifted4 w])).next = 7 ∧
    (inferAll (registerAll [lifted4 w])).judgements = J4 := by
  simp [registerAll, lifted4, K, mkKnownNat, callerV, valueV, rebuild, childSize, nodeCount,
    nodeCountList, register, isStable, vals4, J4, tD4, tDS4, inferAll, applyRules, infer, uword,
    address, TV.tv, TV.kind]

theorem oneSlot4 (w : Nat) : OneSlot (vals4 w) w 1 := by
  intro tf
  simp only [vals4, tD4, tDS4, layoutEntries, isConstSlot, TV.tv]
  generalize abiTypeFor tf 4096 _ _ _ = A
  rcases A with e | ⟨av, seen⟩
  · rfl
  · cases av <;> simp [here]

theorem chk4 : chk 1 7 J4 1 isDynA = true := by decide +kernel

/-- E4: `a[callvalue] = caller` for the dynamic array `a` at slot `w` (key `keccak(w) + callvalue`) -/
theorem E4 (h : HashCtx) (w : Nat) (hw : h.table w = none) (fuel : Nat) :
    (analyse h Unify.idOrders (fuel + 1) [rebuild .storageWrite [] [dynKey w valueV, callerV]]).outcome =
      .layout [⟨w, 0, .dynArray .address⟩] :=
  e2e h w fuel 1 7 1 _ _ (vals4 w) J4 isDynA _
    ((dyn_array_lifted h w hw valueV Inert_valueV (dynKey w valueV) (Or.inl rfl)).2.2 callerV Inert_callerV)
    (reg4 w) (oneSlot4 w) chk4 (fun _ => isDynA_eq)


/-! ### the fuel bounds are the least ones -/

def chkOOF (c n : Nat) (J : List (Nat × TE)) : Bool :=
  match Unify.unify Unify.idOrders c n (infOf J) with
  | .error .outOfFuel => true
  | _ => false

theorem e2e_oof (h : HashCtx) (c n : Nat) (v lifted : SV) (J : List (Nat × TE))
    (hl : liftAll h v = .ok lifted)
    (hreg : (inferAll (registerAll [lifted])).next = n ∧ (inferAll (registerAll [lifted])).judgements = J)
    (hc : chkOOF c n J = true) :
    (analyse h Unify.idOrders c [v]).outcome = .unifyFault .outOfFuel := by
  rw [analyse_single h _ _ _ _ hl, hreg.1, hreg.2]
  unfold chkOOF at hc
  unfold tailOutcome
  split at hc
  · rename_i hu; rw [hu]
  · cases hc

theorem E1_fuel0 (h : HashCtx) (w : Nat) (hw : h.table w = none) :
    (analyse h Unify.idOrders 0 [rebuild .storageWrite [] [K w, valueV]]).outcome = .unifyFault .outOfFuel :=
  e2e_oof h 0 4 _ _ J1 (lift_write_K h w hw valueV Inert_valueV) (reg1 w).2 (by decide +kernel)

theorem E2_fuel2 (h : HashCtx) (w : Nat) (hw : h.table w = none) (hm : h.table (mask 0 160) = none) :
    (analyse h Unify.idOrders 2
      [rebuild .storageWrite [] [K w, rebuild .and_ [] [callerV, K (mask 0 160)]]]).outcome =
      .unifyFault .outOfFuel :=
  e2e_oof h 2 6 _ _ J2 (lift_write_masked h w hw hm) (reg2 w).2 (by decide +kernel)

theorem E3_fuel0 (h : HashCtx) (w : Nat) (hw : h.table w = none) :
    (analyse h Unify.idOrders 0 [rebuild .storageWrite [] [mapKey [callerV] (K w), valueV]]).outcome =
      .unifyFault .outOfFuel :=
  e2e_oof h 0 8 _ _ J3
    (mapping_write_lifted_eq h w hw [callerV] (fun k hk => by rw [List.mem_singleton.mp hk]; exact Inert_callerV)
      valueV Inert_valueV) (reg3 w).2 (by decide +kernel)

theorem E4_fuel0 (h : HashCtx) (w : Nat) (hw : h.table w = none) :
    (analyse h Unify.idOrders 0 [rebuild .storageWrite [] [dynKey w valueV, callerV]]).outcome =
      .unifyFault .outOfFuel :=
  e2e_oof h 0 7 _ _ J4
    ((dyn_array_lifted h w hw valueV Inert_valueV (dynKey w valueV) (Or.inl rfl)).2.2 callerV Inert_callerV)
    (reg4 w).2 (by decide +kernel)

/-! ### E2 without `hm`: the mask constant may itself be a recognised slot hash -/

def hBad : HashCtx := ⟨fun x => if x = mask 0 160 then some 0 else none, fun _ => 0⟩

def isBytes5 : Outcome → Bool
  | .layout [⟨5, 0, .bytes none⟩] => true
  | _ => false

theorem isBytes5_eq {o : Outcome} (h : isBytes5 o = true) : o = .layout [⟨5, 0, .bytes none⟩] := by
  unfold isBytes5 at h; split at h <;> simp_all

/-- the counterexample to E2 as stated (only `h.table w = none`): slot 5, and a table that
recognises `2^160 - 1` as the hash of slot 0; the stored value stays an `and`, typed `bytes` -/
theorem E2_needs_hm : hBad.table 5 = none ∧
    (analyse hBad Unify.idOrders (0 + 3)
      [rebuild .storageWrite [] [K 5, rebuild .and_ [] [callerV, K (mask 0 160)]]]).outcome =
      .layout [⟨5, 0, .bytes none⟩] ∧
    (analyse hBad Unify.idOrders (0 + 3)
      [rebuild .storageWrite [] [K 5, rebuild .and_ [] [callerV, K (mask 0 160)]]]).outcome ≠
      .layout [⟨5, 0, .address⟩] := by
  have h1 : (analyse hBad Unify.idOrders (0 + 3)
      [rebuild .storageWrite [] [K 5, rebuild .and_ [] [callerV, K (mask 0 160)]]]).outcome =
      .layout [⟨5, 0, .bytes none⟩] := isBytes5_eq (by decide +kernel)
  refine ⟨by decide +kernel, h1, ?_⟩
  rw [h1]; intro hh; cases hh


/-! ### E5: a mapping of depth 2 -/

def isMapAAU : AbiVal → Bool
  | .type (.mapping .address (.mapping .address (.uInt none))) => true
  | _ => false

theorem isMapAAU_eq {av : AbiVal} (h : isMapAAU av = true) :
    av = .type (.mapping .address (.mapping .address (.uInt none))) := by
  unfold isMapAAU at h; split at h <;> simp_all

def tM5 (w : Nat) : TV := .node .mappingIndex [0] [tMS3 w, .node .caller [] [] 5] 6
def tMS5 (w : Nat) : TV := .node .storageSlot [] [tM5 w] 7

def vals5 (w : Nat) : List TV :=
  [tK w, tS w, .node .caller [] [] 2, tM3 w, tMS3 w, .node .caller [] [] 5, tM5 w, tMS5 w,
   .node .callValue [] [] 8, .node .storageWrite [] [tMS5 w, .node .callValue [] [] 8] 9]

def J5 : List (Nat × TE) :=
  [(0, .word none .unsignedNumeric), (2, .word (some 160) .address), (3, .word none .unsignedNumeric),
   (10, .packed [⟨4, 0, 256⟩] false), (1, .mapping 2 10), (5, .word (some 160) .address),
   (6, .word none .unsignedNumeric), (11, .packed [⟨7, 0, 256⟩] false), (4, .mapping 5 11),
   (8, .word none .unsignedNumeric), (7, .equal 8), (8, .equal 7)]

def lifted5 (w : Nat) : SV := rebuild .storageWrite [] [sSlot (mapIdxS [callerV, callerV] (K w)), valueV]

theorem reg5 (w : Nat) : (registerAll [lifted5 w]).values = vals5 w ∧
    (inferAll (registerAll [lifted5 w])).next = 12 ∧
    (inferAll (registerAll [lifted5 w])).judgements = J5 := by
  simp [registerAll, lifted5, mapIdxS, mIdx, sSlot, K, mkKnownNat, callerV, valueV, rebuild, childSize, nodeCount,
    nodeCountList, register, isStable, vals5, J5, tM3, tMS3, tM5, tMS5, inferAll, applyRules,
    infer, uword, address, TV.tv]

theorem oneSlot5 (w : Nat) : OneSlot (vals5 w) w 1 := by
  intro tf
  simp only [vals5, tM3, tMS3, tM5, tMS5, layoutEntries, isConstSlot, TV.tv]
  generalize abiTypeFor tf 4096 _ _ _ = A
  rcases A with e | ⟨av, seen⟩
  · rfl
  · cases av <;> simp [here]

theorem chk5 : chk 1 12 J5 1 isMapAAU = true := by decide +kernel

/-- E5 (depth 2): `m[caller][caller] = callvalue`, key `keccak(caller . keccak(caller . w))` -/
theorem E5_depth2 (h : HashCtx) (w : Nat) (hw : h.table w = none) (fuel : Nat) :
    (analyse h Unify.idOrders (fuel + 1)
      [rebuild .storageWrite [] [mapKey [callerV, callerV] (K w), valueV]]).outcome =
      .layout [⟨w, 0, .mapping .address (.mapping .address (.uInt none))⟩] :=
  e2e h w fuel 1 12 1 _ _ (vals5 w) J5 isMapAAU _
    (mapping_write_lifted_eq h w hw [callerV, callerV]
      (fun k hk => by simp only [List.mem_cons, List.mem_nil_iff, or_false, or_self] at hk; rw [hk]; exact Inert_callerV)
      valueV Inert_valueV)
    (reg5 w) (oneSlot5 w) chk5 (fun _ => isMapAAU_eq)


/-! ### E5': two fields packed into one word -/

def p160 : Nat := 2 ^ 160
def and64 : SV := rebuild .and_ [] [valueV, K (mask 0 64)]
def sub64 : SV := rebuild .subWord [0, 64] [valueV]
/-- `(caller & (2^160-1)) | ((callvalue & (2^64-1)) * 2^160)` -/
def fieldsV : SV := rebuild .or_ [] [andV, rebuild .multiply [] [and64, K p160]]
def fields4 : SV := rebuild .or_ [] [subV, rebuild .multiply [] [sub64, K p160]]
def fields5 : SV := rebuild .or_ [] [subV, rebuild .shifted [160] [sub64]]
def pk2V : SV := rebuild .packed [0, 160, 160, 64] [subV, sub64]

theorem wp160 : whichPowerOf2 p160 = some 160 := by decide +kernel

theorem lift_write_fields (h : HashCtx) (w : Nat) (hw : h.table w = none) (hm : h.table (mask 0 160) = none)
    (hm64 : h.table (mask 0 64) = none) (hp : h.table p160 = none) :
    liftAll h (rebuild .storageWrite [] [K w, fieldsV]) = .ok (rebuild .storageWrite [] [sSlot (K w), pk2V]) := by
  have h4 : insertSubWords (cnt (rebuild .storageWrite [] [K w, fieldsV])) (rebuild .storageWrite [] [K w, fieldsV]) =
      .ok (rebuild .storageWrite [] [K w, fields4]) := by
    have hc : cnt (rebuild .storageWrite [] [K w, fieldsV]) = 12 := by
      simp [cnt, rebuild, fieldsV, andV, and64, valueV, callerV, K, mkKnownNat, nodeCount, nodeCountList]
    have hK : insertSubWords 11 (K w) = .ok (K w) := insertSubWords_id _ _ (Her_K (by decide))
    have hKp : insertSubWords 9 (K p160) = .ok (K p160) := insertSubWords_id _ _ (Her_K (by decide))
    have hA : insertSubWords 10 andV = .ok subV :=
      (and_mask_is_subword 0 160 (by omega) (by omega) callerV Inert_callerV 9 [] _).1
    have hB : insertSubWords 9 and64 = .ok sub64 :=
      (and_mask_is_subword 0 64 (by omega) (by omega) valueV Inert_valueV 8 [] _).1
    rw [hc]
    simp only [fieldsV, fields4, rebuild, insertSubWords, mapE, hK, hA, hB, hKp]
  have hpre : Her (okPre h) fieldsV := by
    simp [fieldsV, andV, and64, valueV, callerV, rebuild, K, mkKnownNat, Her, HerL, okPre, ok1, childSize, hm, hm64, hp]
  have hsha : Her (fun k _ _ => k ≠ .sha3) fieldsV := by
    simp [fieldsV, andV, and64, valueV, callerV, rebuild, K, mkKnownNat, Her, HerL, childSize]
  have h3 := stage3_access h (Or.inr rfl) [] (K w) fieldsV (K w) fieldsV (Her_K_okPre h w hw) hpre (unpick_K h w)
    (fun f _ => ima_K f w) (fun f _ => insertMappingAccesses_id f fieldsV hsha)
  have h5 : stage5 (rebuild .storageWrite [] [K w, fields4]) = rebuild .storageWrite [] [K w, fields5] := by
    have hc : cnt (rebuild .storageWrite [] [K w, fields4]) = 10 := by
      simp [cnt, rebuild, fields4, subV, sub64, valueV, callerV, K, mkKnownNat, nodeCount, nodeCountList]
    unfold stage5
    rw [hc]
    simp [fields4, fields5, subV, sub64, valueV, callerV, K, mkKnownNat, rebuild, insertMulShifts, fold, foldList, foldNode,
      knownBin, knownUn, knownOf, SV.kind, wp160, childSize]
  have h6 : liftPacked (cnt (rebuild .storageWrite [] [K w, fields5])) (rebuild .storageWrite [] [K w, fields5]) =
      .ok (rebuild .storageWrite [] [K w, pk2V]) := by
    have hc : cnt (rebuild .storageWrite [] [K w, fields5]) = 9 := by
      simp [cnt, rebuild, fields5, subV, sub64, valueV, callerV, K, mkKnownNat, nodeCount, nodeCountList]
    rw [hc]
    simp [rebuild, liftPacked, mapE, fields5, subV, sub64, pk2V, valueV, callerV, unpickOrs, nodeCount, nodeCountList, SV.kind,
      sortSpans, insertSpan, usizeMax]
  have hd7 : Her (fun k _ _ => k ≠ .sha3) pk2V := by
    simp [pk2V, subV, sub64, valueV, callerV, rebuild, Her, HerL, childSize]
  have hd8 : Her (fun k _ _ => k ≠ .mappingIndex ∧ k ≠ .storageWrite ∧ k ≠ .dynamicArrayIndex ∧ k ≠ .sLoad) pk2V := by
    simp [pk2V, subV, sub64, valueV, callerV, rebuild, Her, HerL, childSize]
  have hd9 : Her ok9 pk2V := by
    simp [pk2V, subV, sub64, valueV, callerV, rebuild, Her, HerL, childSize, ok9]
  rw [liftAll_eq, h3, h4]
  simp only [h5, h6]
  rw [stage9_access (Or.inr rfl) [] (K w) pk2V (K w) pk2V (K w) pk2V (fun f _ => lda_K f w)
      (fun f _ => liftDynArray_id f pk2V hd7) (by simp [K, mkKnownNat, SV.kind])
      (fun f _ => iss_K f w) (fun f _ => insertStorageSlots_id f pk2V hd8)
      (Her_K (fun hh => by cases hh)) hd9]


def isPk2 : AbiVal → Bool
  | .packed [(.address, 0), (.bytes (some 8), 160)] => true
  | _ => false

theorem isPk2_eq {av : AbiVal} (h : isPk2 av = true) : av = .packed [(.address, 0), (.bytes (some 8), 160)] := by
  unfold isPk2 at h; split at h <;> simp_all

def tSub64 : TV := .node .subWord [0, 64] [.node .callValue [] [] 4] 5
def tPk2 : TV := .node .packed [0, 160, 160, 64] [tSub, tSub64] 6

def vals6 (w : Nat) : List TV :=
  [tK w, tS w, .node .caller [] [] 2, tSub, .node .callValue [] [] 4, tSub64, tPk2,
   .node .storageWrite [] [tS w, tPk2] 7]

def J6 : List (Nat × TE) :=
  [(0, .word none .unsignedNumeric), (2, .word (some 160) .address), (3, .word (some 160) .bytes),
   (2, .packed [⟨3, 0, 160⟩] false), (4, .word none .unsignedNumeric), (5, .word (some 64) .bytes),
   (4, .packed [⟨5, 0, 64⟩] false), (6, .packed [⟨3, 0, 160⟩, ⟨5, 160, 64⟩] false), (1, .equal 6), (6, .equal 1)]

theorem reg6 (w : Nat) : (registerAll [rebuild .storageWrite [] [sSlot (K w), pk2V]]).values = vals6 w ∧
    (inferAll (registerAll [rebuild .storageWrite [] [sSlot (K w), pk2V]])).next = 8 ∧
    (inferAll (registerAll [rebuild .storageWrite [] [sSlot (K w), pk2V]])).judgements = J6 := by
  simp [registerAll, sSlot, K, mkKnownNat, callerV, valueV, pk2V, subV, sub64, rebuild, childSize, nodeCount, nodeCountList,
    register, isStable, vals6, J6, tSub, tSub64, tPk2, inferAll, applyRules, applyRules.spansOf, infer, uword, address,
    bytesN, TV.tv]

theorem oneSlot6 (w : Nat) : OneSlot (vals6 w) w 1 := by
  intro tf
  simp only [vals6, tSub, tSub64, tPk2, layoutEntries, isConstSlot, TV.tv]
  generalize abiTypeFor tf 4096 _ _ _ = A
  rcases A with e | ⟨av, seen⟩
  · rfl
  · cases av <;> simp [here]

theorem chk6 : chk 3 8 J6 1 isPk2 = true := by decide +kernel

/-- E5' (two fields in one word): `sstore(w, (caller & (2^160-1)) | ((callvalue & (2^64-1)) * 2^160))`.
The three constants of the value must not be recognised slot hashes (cf. `E2_needs_hm`). -/
theorem E5_packed_partial (h : HashCtx) (w : Nat) (hw : h.table w = none) (hm : h.table (mask 0 160) = none)
    (hm64 : h.table (mask 0 64) = none) (hp : h.table (2 ^ 160) = none) (fuel : Nat) :
    (analyse h Unify.idOrders (fuel + 3)
      [rebuild .storageWrite [] [K w,
        rebuild .or_ [] [rebuild .and_ [] [callerV, K (mask 0 160)],
          rebuild .multiply [] [rebuild .and_ [] [valueV, K (mask 0 64)], K (2 ^ 160)]]]]).outcome =
      .layout [⟨w, 0, .address⟩, ⟨w, 160, .bytes (some 8)⟩] := by
  obtain ⟨av, hpa, ht⟩ := e2e_av h w fuel 3 8 1 _ _ (vals6 w) J6 isPk2 (lift_write_fields h w hw hm hm64 hp) (reg6 w)
    (oneSlot6 w) chk6
  have hv : rebuild .or_ [] [rebuild .and_ [] [callerV, K (mask 0 160)],
      rebuild .multiply [] [rebuild .and_ [] [valueV, K (mask 0 64)], K (2 ^ 160)]] = fieldsV := rfl
  rw [hv, ht, isPk2_eq hpa]
  simp [here, Layout.buildLayout, Layout.add, Layout.insertStable, Layout.keyLt]


/-! ### the shapes, and the theorems at one concrete slot -/

example : callerV = rebuild .caller [] [] := rfl
example : mapKey [callerV] (K 5) = rebuild .sha3 [] [rebuild .concat [] [callerV, K 5]] := rfl
example : dynKey 5 valueV = rebuild .add [] [rebuild .sha3 [] [K 5], valueV] := rfl
example : mask 0 160 = 2 ^ 160 - 1 := by decide +kernel

def h0 : HashCtx := ⟨fun _ => none, fun _ => 0⟩

example : (analyse h0 Unify.idOrders 1 [rebuild .storageWrite [] [K 5, valueV]]).outcome =
    .layout [⟨5, 0, .uInt none⟩] := E1 h0 5 rfl 0
example : (analyse h0 Unify.idOrders 3
    [rebuild .storageWrite [] [K 5, rebuild .and_ [] [callerV, K (mask 0 160)]]]).outcome =
    .layout [⟨5, 0, .address⟩] := E2_partial h0 5 rfl rfl 0
example : (analyse h0 Unify.idOrders 1 [rebuild .storageWrite [] [K 5, callerV]]).outcome =
    .layout [⟨5, 0, .address⟩] := E2_unmasked h0 5 rfl 0
example : (analyse h0 Unify.idOrders 1 [rebuild .storageWrite [] [mapKey [callerV] (K 5), valueV]]).outcome =
    .layout [⟨5, 0, .mapping .address (.uInt none)⟩] := E3 h0 5 rfl 0
example : (analyse h0 Unify.idOrders 1 [rebuild .storageWrite [] [dynKey 5 valueV, callerV]]).outcome =
    .layout [⟨5, 0, .dynArray .address⟩] := E4 h0 5 rfl 0

end SLE.IdiomsE2E

