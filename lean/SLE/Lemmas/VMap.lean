import SLE.Model.Containers
/-! Helper lemmas: `VMap` refines a partial function `Nat → Option V`. -/
namespace SLE.Containers.VMap
variable {V : Type}

theorem padTo_length (l : List (Option V)) (k : Nat) : k < (padTo l k).length := by
  simp [padTo]; omega

theorem padTo_get_join (l : List (Option V)) (k i : Nat) :
    ((padTo l k)[i]?).join = (l[i]?).join := by
  unfold padTo
  by_cases h : i < l.length
  · simp [List.getElem?_append_left h]
  · have h' : l.length ≤ i := by omega
    rw [List.getElem?_append_right h']
    have : l[i]? = none := by simp; omega
    rw [this]
    by_cases h2 : i - l.length < k + 1 - l.length
    · simp [List.getElem?_replicate, h2]
    · simp [List.getElem?_replicate, h2]

theorem countSome_append (a b : List (Option V)) : countSome (a ++ b) = countSome a + countSome b := by
  induction a with
  | nil => simp [countSome]
  | cons x a ih => cases x <;> simp [countSome, ih] <;> omega

theorem countSome_replicate_none (n : Nat) : countSome (List.replicate n (none : Option V)) = 0 := by
  induction n with
  | zero => rfl
  | succ n ih => simp [List.replicate_succ, countSome, ih]

theorem countSome_padTo (l : List (Option V)) (k : Nat) : countSome (padTo l k) = countSome l := by
  simp [padTo, countSome_append, countSome_replicate_none]

theorem countSome_set_some (l : List (Option V)) (k : Nat) (v : V) (h : k < l.length) :
    countSome (l.set k (some v)) = if ((l[k]?).join).isSome then countSome l else countSome l + 1 := by
  induction l generalizing k with
  | nil => simp at h
  | cons x l ih =>
    cases k with
    | zero => cases x <;> simp [countSome]
    | succ k =>
      have h' : k < l.length := by simpa using h
      have := ih k h'
      cases x <;> simp [countSome, this] <;> split <;> simp

theorem countSome_set_none (l : List (Option V)) (k : Nat) (v : V)
    (hv : (l[k]?).join = some v) : countSome (l.set k none) + 1 = countSome l := by
  induction l generalizing k with
  | nil => simp at hv
  | cons x l ih =>
    cases k with
    | zero =>
      simp at hv; subst hv; simp [countSome]
    | succ k =>
      have hv' : (l[k]?).join = some v := by simpa using hv
      have := ih k hv'
      cases x <;> simp [countSome] <;> omega

/-- `get` after `insert`. -/
theorem get_insert (m : VMap V) (k : Nat) (v : V) (i : Nat) :
    (m.insert k v).get i = if i = k then some v else m.get i := by
  unfold insert get
  simp only []
  have hk := padTo_length m.data k
  by_cases h : i = k
  · subst h; simp [List.getElem?_set, hk]
  · have h' : ¬ k = i := fun e => h e.symm
    simp only [h, if_false]
    rw [List.getElem?_set]
    simp only [h', if_false]
    exact padTo_get_join _ _ _

/-- `remove` returns the old binding and deletes exactly that key. -/
theorem get_remove (m m' : VMap V) (k : Nat) (r : Option V) (h : m.remove k = .ok (m', r)) (i : Nat) :
    r = m.get k ∧ m'.get i = if i = k then none else m.get i := by
  unfold remove at h
  by_cases hk : k < m.data.length
  · simp only [hk, if_true] at h
    cases hv : (m.data[k]?).join with
    | none =>
      simp only [hv] at h
      injection h with h; injection h with h1 h2; subst h1 h2
      refine ⟨by simp [get, hv], ?_⟩
      by_cases hi : i = k
      · subst hi; simp [get, hv]
      · simp [hi]
    | some v =>
      simp only [hv] at h
      by_cases hs : m.size = 0
      · simp [hs] at h
      · simp only [hs, if_false] at h
        injection h with h; injection h with h1 h2; subst h1 h2
        refine ⟨by simp [get, hv], ?_⟩
        by_cases hi : i = k
        · subst hi; simp [get, List.getElem?_set, hk]
        · have hi' : ¬ k = i := fun e => hi e.symm
          simp [get, List.getElem?_set, hi, hi']
  · simp only [hk, if_false] at h
    injection h with h; injection h with h1 h2; subst h1 h2
    have : m.data[k]? = none := by simp; omega
    refine ⟨by simp [get, this], ?_⟩
    by_cases hi : i = k
    · subst hi; simp [get, this]
    · simp [hi]

theorem wf_empty : WF (empty : VMap V) := by simp [WF, empty, countSome]

theorem wf_insert (m : VMap V) (k : Nat) (v : V) (h : WF m) : WF (m.insert k v) := by
  unfold WF insert at *
  simp only []
  rw [countSome_set_some _ _ _ (padTo_length _ _), countSome_padTo, h]

/-- With the invariant, the overflow-checked `size -= 1` of `remove` can never fault. -/
theorem remove_no_fault (m : VMap V) (k : Nat) (h : WF m) : ∃ r, m.remove k = .ok r := by
  unfold remove
  by_cases hk : k < m.data.length
  · simp only [hk, if_true]
    cases hv : (m.data[k]?).join with
    | none => exact ⟨_, rfl⟩
    | some v =>
      have := countSome_set_none m.data k v hv
      have hs : m.size ≠ 0 := by unfold WF at h; omega
      simp [hs]
  · simp [hk]

theorem wf_remove (m m' : VMap V) (k : Nat) (r : Option V) (h : WF m)
    (hr : m.remove k = .ok (m', r)) : WF m' := by
  unfold remove at hr
  by_cases hk : k < m.data.length
  · simp only [hk, if_true] at hr
    cases hv : (m.data[k]?).join with
    | none => simp only [hv] at hr; injection hr with hr; injection hr with h1 _; subst h1; exact h
    | some v =>
      simp only [hv] at hr
      by_cases hs : m.size = 0
      · simp [hs] at hr
      · simp only [hs, if_false] at hr
        injection hr with hr; injection hr with h1 _; subst h1
        have := countSome_set_none m.data k v hv
        unfold WF at *; simp only []; omega
  · simp only [hk, if_false] at hr
    injection hr with hr; injection hr with h1 _; subst h1; exact h

theorem mem_iterFrom (l : List (Option V)) (n i : Nat) (v : V) :
    (i, v) ∈ iterFrom n l ↔ n ≤ i ∧ (l[i - n]?).join = some v := by
  induction l generalizing n with
  | nil => simp [iterFrom]
  | cons x l ih =>
    cases x with
    | none =>
      simp only [iterFrom, ih]
      constructor
      · rintro ⟨h1, h2⟩
        refine ⟨by omega, ?_⟩
        have : i - n = (i - (n + 1)) + 1 := by omega
        rw [this]; simpa using h2
      · rintro ⟨h1, h2⟩
        by_cases he : i = n
        · subst he; simp at h2
        · refine ⟨by omega, ?_⟩
          have : i - n = (i - (n + 1)) + 1 := by omega
          rw [this] at h2; simpa using h2
    | some w =>
      simp only [iterFrom, List.mem_cons, ih, Prod.mk.injEq]
      constructor
      · rintro (⟨h1, h2⟩ | ⟨h1, h2⟩)
        · subst h1 h2; simp
        · refine ⟨by omega, ?_⟩
          have : i - n = (i - (n + 1)) + 1 := by omega
          rw [this]; simpa using h2
      · rintro ⟨h1, h2⟩
        by_cases he : i = n
        · subst he; simp at h2; left; exact ⟨rfl, h2.symm⟩
        · right
          refine ⟨by omega, ?_⟩
          have : i - n = (i - (n + 1)) + 1 := by omega
          rw [this] at h2; simpa using h2

/-- `iter` enumerates exactly the bindings. -/
theorem mem_iter (m : VMap V) (i : Nat) (v : V) : (i, v) ∈ m.iter ↔ m.get i = some v := by
  simp [iter, mem_iterFrom, get]

theorem length_iterFrom (l : List (Option V)) (n : Nat) : (iterFrom n l).length = countSome l := by
  induction l generalizing n with
  | nil => rfl
  | cons x l ih => cases x <;> simp [iterFrom, countSome, ih]

/-- `len` is the number of bindings. -/
theorem len_eq_iter_length (m : VMap V) (h : WF m) : m.len = m.iter.length := by
  simp [len, iter, length_iterFrom]; exact h

end SLE.Containers.VMap
