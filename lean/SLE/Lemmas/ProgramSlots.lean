import SLE.Model.Pipe
import SLE.Lemmas.TCSlots
import SLE.Lemmas.ProgramLevel
import SLE.Lemmas.MachineFacts
import SLE.Lemmas.LitInv
import SLE.Lemmas.VMNoPanic
import SLE.Lemmas.VMTermination
/-!
# C06 at program level: no literal storage key of an explored path is missed

Program-level forms of C06 ("no missed slots") about `Pipe.analyseProgram`.

* P1 `program_literal_keys_reported`: if the analysis of a program returns a layout, every constant
  key that has a (non-empty) history in the constant-key storage map `stK` of some finished (stored)
  thread is the index of a row of the layout.
* P2 `sstore_literal_key_present`, `sload_literal_key_present_partial`, `execOp_keeps_keys`
  (+ `gens_of_keyIn`, `keyIn_of_gens`, `push_pushes_literal`): SSTORE / SLOAD with a literal key on
  top of the stack leave that key in `stK` with a non-empty history, and no later instruction of the
  thread removes it.
* P3 `step_continues`, `run_continues`, `run_add`, `program_reached_literal_keys_reported`,
  `program_sstore_literal_reported`, `program_sload_literal_reported` (+ the `_of_fuel` forms with
  the explicit fuel bound of `VM.run_terminates`): the scheduler of the model never drops a thread
  (see the section header of P3 for what happens on errors in strict and in permissive mode), so
  when the machine has finished every key ever held by a thread of an intermediate state is held by
  a stored thread, and P1 applies.
-/

namespace SLE.ProgramSlots
open SLE SLE.SV SLE.VM SLE.TCSpec
open SLE.MachineFacts
open SLE.Disasm (Instr)

/-! ## "the key `k` is the literal `w`" -/

/-- The key is a constant node whose first payload entry is exactly `w` — the test that
`TCSpec.literalAccess` applies to the key of a top-level load / write (and `TCSlots.IsLit` as a
`Bool`).  `mkKnown (BitVec.ofNat 256 w)` and every `.node .knownData [w] [] _` satisfy it (for
`w < 2^256`), and so does every value a PUSH instruction pushes (`push_pushes_literal`). -/
def litKey (w : Nat) : SV → Bool
  | .node .knownData (x :: _) _ _ => x == w
  | _ => false

theorem litKey_iff {w : Nat} {k : SV} :
    litKey w k = true ↔ ∃ r kk s, k = .node .knownData (w :: r) kk s := by
  constructor
  · intro h
    unfold litKey at h
    split at h
    · simp only [beq_iff_eq] at h
      subst h
      exact ⟨_, _, _, rfl⟩
    · cases h
  · rintro ⟨r, kk, s, rfl⟩
    simp [litKey]

theorem litKey_iff_isLit {w : Nat} {k : SV} : litKey w k = true ↔ TCSlots.IsLit w k := litKey_iff

theorem litKey_node (w : Nat) (r : List Nat) (kk : List SV) (s : Nat) :
    litKey w (.node .knownData (w :: r) kk s) = true := by simp [litKey]

theorem litKey_mkKnown (w : Word) : litKey w.toNat (mkKnown w) = true := by simp [litKey, mkKnown]

theorem litKey_mkKnown_ofNat (w : Nat) (hw : w < 2 ^ 256) :
    litKey w (mkKnown (BitVec.ofNat 256 w)) = true := by
  have := litKey_mkKnown (BitVec.ofNat 256 w)
  rwa [BitVec.toNat_ofNat, Nat.mod_eq_of_lt hw] at this

/-- a literal key is a constant key: it lives in `stK` (`known_writes`) -/
theorem litKey_isKnownKey {w : Nat} {k : SV} (h : litKey w k = true) : isKnownKey k = true := by
  obtain ⟨r, kk, s, rfl⟩ := litKey_iff.mp h
  rfl

/-- a literal key determines its literal -/
theorem litKey_unique {w w' : Nat} {k : SV} (h : litKey w k = true) (h' : litKey w' k = true) :
    w = w' := by
  obtain ⟨r, kk, s, rfl⟩ := litKey_iff.mp h
  simpa [litKey] using h'

/-- `literalAccess` of the exported `storageWrite` is `litKey` of its key. -/
theorem literalAccess_write (w : Nat) (k v : SV) :
    literalAccess w (rebuild .storageWrite [] [k, v]) = litKey w k := by
  rw [Bool.eq_iff_iff]
  constructor
  · intro h
    unfold literalAccess rebuild at h
    split at h
    · rename_i heq
      injection heq with hk
      cases hk
    · rename_i heq
      injection heq with _ _ hks _
      injection hks with hk _
      subst hk
      simpa [litKey] using h
    · cases h
  · intro h
    obtain ⟨r, kk, s, rfl⟩ := litKey_iff.mp h
    simp [literalAccess, rebuild]

/-- On a value all of whose literals are 256-bit words (`LitOK`: every value of every reachable
thread, `LitInv.litOK_run`), `as_word()` returning the word `w` is the same as `litKey w`. -/
theorem litKey_of_asWord {w : Nat} {k : SV} (hok : PathSim.Bridge.LitOK k)
    (h : k.asWord.map (·.toNat) = some w) : litKey w k = true := by
  unfold asWord at h
  split at h
  · rename_i x r kk s
    simp only [Option.map_some, Option.some.injEq, BitVec.toNat_ofNat] at h
    have hx : x < 2 ^ 256 := (LitInv.L_node.mp hok).1 rfl x r rfl
    rw [Nat.mod_eq_of_lt hx] at h
    subst h
    exact litKey_node ..
  · cases h

theorem asWord_of_litKey {w : Nat} {k : SV} (hw : w < 2 ^ 256) (h : litKey w k = true) :
    k.asWord.map (·.toNat) = some w := by
  obtain ⟨r, kk, s, rfl⟩ := litKey_iff.mp h
  simp [asWord, Nat.mod_eq_of_lt hw]

/-! ## P1 — final-state form -/

/-- the key has a non-empty history in the constant-key map of the thread state -/
def KeyIn (k : SV) (d : TData) : Prop := ∃ g, (k, g) ∈ d.stK ∧ g ≠ []

/-- every generation of every entry of `stK` is exported as a `storageWrite` under the entry's key -/
theorem key_exported {d : TData} {k : SV} {g : List SV} (hk : (k, g) ∈ d.stK) {v : SV} (hv : v ∈ g) :
    rebuild .storageWrite [] [k, v] ∈ Pipe.allValues d := by
  unfold Pipe.allValues
  simp only [List.mem_append, List.mem_flatMap, List.mem_map]
  exact Or.inl (Or.inl (Or.inr ⟨(k, g), Or.inl hk, v, hv, rfl⟩))

/-- in a thread of the final state, both ways of saying "`k` is the constant `w`" give `litKey` -/
theorem litKey_of_either {cfg : Cfg} {code : List Instr} {fuel : Nat} {t : Thread}
    (ht : t ∈ (run cfg code fuel (initVM cfg code)).queue ++ (run cfg code fuel (initVM cfg code)).stored)
    {k : SV} {g : List SV} (hk : (k, g) ∈ t.d.stK) {w : Nat}
    (hw : k.asWord.map (·.toNat) = some w ∨ litKey w k = true) : litKey w k = true := by
  rcases hw with hw | hw
  · have hpd := LitInv.litOK_run cfg code fuel t ht
    exact litKey_of_asWord ((ProgramLevel.P_D_iff.mp hpd).stK _ hk).1 hw
  · exact hw

/-- **P1.** If the analysis of a program returns a layout, every constant key with a history in the
storage of some finished thread is a slot of the layout, at exactly that index.

"`k` is the constant `w`" can be given in either form: `as_word()` returns `w` (then `w < 2^256`;
the two forms agree on machine values because every literal of a reachable thread is a 256-bit
word, `LitInv.litOK_run`), or `litKey w k` (the node is `knownData` with first payload entry `w`,
which is what `TCSpec.literalAccess` tests). -/
theorem program_literal_keys_reported (h : Lift.HashCtx) (o : Unify.Orders) (cfg : VM.Cfg) (bytes : List Nat)
    (vmFuel uFuel : Nat) (code : List Disasm.Instr) (a : TC.Analysis) (l : List (Layout.Entry JsonModel.AbiType))
    (hd : Disasm.disasm bytes = .ok code)
    (ha : Pipe.analyseProgram h o cfg bytes vmFuel uFuel = .analysed a) (hl : a.outcome = .layout l)
    (t : VM.Thread) (ht : t ∈ (VM.run cfg code vmFuel (VM.initVM cfg code)).stored)
    (k : SV) (g : List SV) (hk : (k, g) ∈ t.d.stK) (hg : g ≠ []) (w : Nat)
    (hw : k.asWord.map (·.toNat) = some w ∨ litKey w k = true)
    (hnot : h.table w = none) : ∃ e ∈ l, e.index = w := by
  have hlit : litKey w k = true := litKey_of_either (List.mem_append_right _ ht) hk hw
  obtain ⟨code', hd', rfl⟩ := ProgramLevel.analysed_eq ha
  rw [hd] at hd'
  cases hd'
  obtain ⟨v, hv⟩ := List.exists_mem_of_ne_nil _ hg
  have hmem : rebuild .storageWrite [] [k, v] ∈
      (run cfg code vmFuel (initVM cfg code)).stored.flatMap (fun t => Pipe.allValues t.d) :=
    List.mem_flatMap.mpr ⟨t, ht, key_exported hk hv⟩
  exact TCSlots.literal_key_reported h o uFuel _ l w _ hmem
    (ProgramLevel.program_values_raw cfg code vmFuel _ hmem)
    (by rw [literalAccess_write]; exact hlit) hnot hl

/-- P1 in terms of `KeyIn`. -/
theorem program_keyIn_reported (h : Lift.HashCtx) (o : Unify.Orders) (cfg : VM.Cfg) (bytes : List Nat)
    (vmFuel uFuel : Nat) (code : List Disasm.Instr) (a : TC.Analysis) (l : List (Layout.Entry JsonModel.AbiType))
    (hd : Disasm.disasm bytes = .ok code)
    (ha : Pipe.analyseProgram h o cfg bytes vmFuel uFuel = .analysed a) (hl : a.outcome = .layout l)
    (t : VM.Thread) (ht : t ∈ (VM.run cfg code vmFuel (VM.initVM cfg code)).stored)
    (k : SV) (hk : KeyIn k t.d) (w : Nat) (hw : litKey w k = true)
    (hnot : h.table w = none) : ∃ e ∈ l, e.index = w := by
  obtain ⟨g, hkg, hg⟩ := hk
  exact program_literal_keys_reported h o cfg bytes vmFuel uFuel code a l hd ha hl t ht k g hkg hg w
    (Or.inr hw) hnot

/-! ## P2 — execution form -/

/-- What a PUSH instruction pushes is a literal key: with room on the stack and a value-size limit
of at least one node, PUSHn `data` puts a value `v` with `litKey (big-endian value of data mod 2^256) v`
on top of the stack. (`buildKnown` goes through the culling constructor: with `valueLimit = 0` even a
one-node constant is replaced by an opaque `Value`.) -/
theorem push_pushes_literal (c : Ctx) (code : List Instr) (n : Nat) (data : List Nat) (d : TData)
    (ctr : Nat) (hlim : 1 ≤ c.cfg.valueLimit) (hdepth : d.stack.length < 1024) :
    ∃ v, (execOp c code (.push n data) d ctr).err = none ∧
      (execOp c code (.push n data) d ctr).d.stack = v :: d.stack ∧
      litKey (EvmSim.beVal data % 2 ^ 256) v = true := by
  rw [EvmSim.execOp_push, EvmSim.pushOut_eq, if_neg (by omega)]
  refine ⟨_, rfl, rfl, ?_⟩
  have hv : (buildKnown c ctr (BitVec.ofNat 256 (EvmSim.beVal data))).1 =
      .node .knownData [EvmSim.beVal data % 2 ^ 256] [] 1 := by
    simp only [buildKnown, build, SV.mk, childSize, List.map_nil, List.sum_nil, BitVec.toNat_ofNat]
    rw [if_neg (by omega)]
  rw [hv]
  exact litKey_node ..

/-! ### `gens` and membership in `stK` -/

/-- for a constant key, a non-empty history under `gens` is an entry of `stK` -/
theorem keyIn_of_gens {d : TData} {k : SV} (hk : isKnownKey k = true) (h : gens d k ≠ []) :
    (k, gens d k) ∈ d.stK := by
  unfold gens stMap at *
  rw [if_pos hk] at *
  cases hl : lookupSV d.stK k with
  | none => rw [hl] at h; exact absurd rfl h
  | some g => exact MachineFacts.lookupSV_mem _ _ _ hl

theorem keyIn_of_gens' {d : TData} {k : SV} (hk : isKnownKey k = true) (h : gens d k ≠ []) :
    KeyIn k d := ⟨_, keyIn_of_gens hk h, h⟩

theorem lookupSV_isSome_of_mem {β : Type} {m : List (SV × β)} {k : SV} {g : β} (h : (k, g) ∈ m) :
    (lookupSV m k).isSome = true := by
  unfold lookupSV
  rw [Option.isSome_map, List.find?_isSome]
  exact ⟨(k, g), h, TCSlots.beq_refl k⟩

/-- conversely, with the invariant `StWF` (no present key has an empty history; holds in every
reachable thread, `reachable_StWF`) an entry of `stK` under a constant key means `gens` is non-empty -/
theorem gens_of_keyIn {d : TData} {k : SV} (hk : isKnownKey k = true) (hwf : StWF d)
    {g : List SV} (h : (k, g) ∈ d.stK) : gens d k ≠ [] := by
  apply gens_ne_nil_of_present hwf
  unfold stMap
  rw [if_pos hk]
  exact lookupSV_isSome_of_mem h

/-! ### SSTORE / SLOAD put the key into `stK` -/

/-- **P2 (store).** SSTORE on a stack `k :: v :: rest` with `k` the literal `w`: no error, and
afterwards `k` is in the thread's constant-key storage with a non-empty history that ends in `v`. -/
theorem sstore_literal_key_present (c : Ctx) (code : List Instr) (d : TData) (ctr : Nat)
    (k v : SV) (rest : List SV) (w : Nat) (hs : d.stack = k :: v :: rest) (hw : litKey w k = true) :
    (execOp c code (.op 0x55) d ctr).err = none ∧
    ∃ g, (k, g) ∈ (execOp c code (.op 0x55) d ctr).d.stK ∧ g ≠ [] ∧ g.getLast? = some v := by
  obtain ⟨he, hd⟩ := execOp_sstore c code d ctr k v rest hs
  refine ⟨he, ?_⟩
  rw [hd]
  have hg := gens_stStore_self { d with stack := rest } k v
  have hne : gens (stStore { d with stack := rest } k v) k ≠ [] := by rw [hg]; simp
  refine ⟨_, keyIn_of_gens (litKey_isKnownKey hw) hne, hne, ?_⟩
  rw [hg]
  simp

/-- **P2 (load).** SLOAD with the literal key `k` on top of the stack, in a thread state with the
invariant `StWF` (true of every reachable thread: `reachable_StWF`; without it the claim fails,
`MachineFacts.stLoad_nonempty_counterexample`): afterwards `k` is in the thread's constant-key
storage with a non-empty history. -/
theorem sload_literal_key_present_partial (c : Ctx) (code : List Instr) (d : TData) (ctr : Nat)
    (k : SV) (rest : List SV) (w : Nat) (hs : d.stack = k :: rest) (hw : litKey w k = true)
    (hwf : StWF d) :
    ∃ g, (k, g) ∈ (execOp c code (.op 0x54) d ctr).d.stK ∧ g ≠ [] := by
  have hsame := execOp_sload c code d ctr k rest hs
  have hwf1 : StWF { d with stack := rest } := StWF_of_same rfl rfl hwf
  have hne := stLoad_nonempty_partial _ k hwf1
  rw [← gens_of_same hsame k] at hne
  exact ⟨_, keyIn_of_gens (litKey_isKnownKey hw) hne, hne⟩

/-! ### a key once present stays present -/

theorem updateSV_keeps {β : Type} (m : List (SV × β)) (k0 : SV) (x : β) (k : SV) (g : β)
    (h : (k, g) ∈ m) : (k, g) ∈ updateSV m k0 x ∨ (k, x) ∈ updateSV m k0 x := by
  unfold updateSV
  split
  · by_cases hb : k.beq k0 = true
    · right; exact List.mem_map.mpr ⟨(k, g), h, by simp [hb]⟩
    · left; exact List.mem_map.mpr ⟨(k, g), h, by simp [hb]⟩
  · left; exact List.mem_append_left _ h

/-- every key present before is present after -/
def KeepsKeys (d d' : TData) : Prop := ∀ k, KeyIn k d → KeyIn k d'

instance : StRel KeepsKeys where
  same := fun h k ⟨g, hg, hne⟩ => ⟨g, by rw [h.1]; exact hg, hne⟩
  trans := fun h1 h2 k hk => h2 k (h1 k hk)

theorem keepsKeys_stStore (d : TData) (key v : SV) : KeepsKeys d (stStore d key v) := by
  rintro k ⟨g, hg, hne⟩
  unfold stStore
  split
  · rcases updateSV_keeps d.stK key (((lookupSV d.stK key).getD []) ++ [v]) k g hg with h | h
    · exact ⟨g, h, hne⟩
    · exact ⟨_, h, by simp⟩
  · exact ⟨g, hg, hne⟩

theorem stLoad_stK_sub (d : TData) (key : SV) : ∀ p ∈ d.stK, p ∈ (stLoad d key).2.stK := by
  intro p hp
  cases hl : lookupSV (stMap d key) key with
  | some g => rw [stLoad_snd_some d key g hl]; exact hp
  | none =>
    unfold stMap at hl
    unfold stLoad
    simp only [hl]
    split
    · exact List.mem_append_left _ hp
    · exact hp

theorem keepsKeys_stLoad (d : TData) (key : SV) : KeepsKeys d (stLoad d key).2 := by
  rintro k ⟨g, hg, hne⟩
  exact ⟨g, stLoad_stK_sub d key _ hg, hne⟩

/-- **P2 (persistence).** Every instruction keeps every key of `stK` that has a non-empty history
(no invariant needed). -/
theorem execOp_keeps_keys (c : Ctx) (code : List Instr) (ins : Instr) (d : TData) (ctr : Nat)
    (k : SV) (hk : KeyIn k d) : KeyIn k (execOp c code ins d ctr).d :=
  execOp_rel KeepsKeys c code ins d ctr (fun _ d0 k v => keepsKeys_stStore d0 k v)
    (fun _ d0 k => keepsKeys_stLoad d0 k) k hk

/-- P2 (persistence, with the history): under `StWF` the history of a constant key of `stK` after an
instruction extends the one before it (`execOp_storage_monotone`), and is the history of an entry of
`stK`. -/
theorem execOp_keeps_history (c : Ctx) (code : List Instr) (ins : Instr) (d : TData) (ctr : Nat)
    (k : SV) (hk : isKnownKey k = true) (hwf : StWF d) {g : List SV} (hg : (k, g) ∈ d.stK) :
    gens d k ≠ [] ∧ gens d k <+: gens (execOp c code ins d ctr).d k ∧
    (k, gens (execOp c code ins d ctr).d k) ∈ (execOp c code ins d ctr).d.stK := by
  have h0 := gens_of_keyIn hk hwf hg
  have hm := execOp_storage_monotone c code ins d ctr k
  have h1 : gens (execOp c code ins d ctr).d k ≠ [] := by
    intro e
    rw [e] at hm
    exact h0 (List.prefix_nil.mp hm)
  exact ⟨h0, hm, keyIn_of_gens hk h1⟩

/-! ## P3 — across the scheduler

What `VM.step` does with the head thread `t` of the queue (all other queued threads and all stored
threads are kept verbatim, `step_touches_head_only`):

* the instruction returns `Ok`: `t` continues with the new data `o.d` — as the head of the queue, or
  retired to `stored` by `advance` (halting instruction, end of code, visit limit, gas); a JUMPI that
  forks appends a child whose data is `o.d` up to `forkPoint`;
* the instruction returns `Err e` (never a panic, `VMNoPanic.execOp_no_panic`): the thread is
  killed, which in `advance` means it is **retired to `stored` with the data `o.d`** it had when the
  error occurred.  In strict mode, and in permissive mode for the non-jump kinds, `(t.ip, e)` goes
  into `errors`, so `analyseProgram` returns `.execErrors` and no layout; in permissive mode an error
  of one of the four jump kinds is not recorded, the analysis goes on to return a layout, and the
  killed thread's values — its storage keys included — are part of what the type checker sees;
* the instruction pointer is outside the code, or a panic: the state is unchanged except for
  `aborted` (then `analyseProgram` returns `.execErrors`).

So in this model **no thread is ever dropped**: every thread of a state has a continuation in
`queue ++ stored` of every later state, whose storage extends its own.  What can keep a key out of
the layout is only fuel: a thread still queued when `vmFuel` runs out is not handed to the type
checker (`fuel_out_counterexample`).
-/

/-- the head thread after a step whose instruction did not panic: some thread of the new state
carries exactly the data the instruction left -/
theorem step_head_exec {cfg : Cfg} {code : List Instr} {s : VMS} {t : Thread} {rest : List Thread}
    {ins : Instr} (hq : s.queue = t :: rest) (hi : code[t.ip]? = some ins) :
    ∃ th' ∈ (step cfg code s).queue ++ (step cfg code s).stored,
      th'.d = (opOut cfg code s t ins).d := by
  cases he : (opOut cfg code s t ins).err with
  | none =>
    rw [step_ok hq hi he]
    obtain ⟨h, tl, hmq, hms, hhd, _⟩ := midOk_shape cfg s t rest ins (opOut cfg code s t ins)
    rcases advance_shape (cfg := cfg) (code := code) hmq with ⟨h1, _⟩ | ⟨_, h2⟩
    · exact ⟨{ h with ip := h.ip + 1 }, by rw [h1]; simp, hhd⟩
    · exact ⟨h, by rw [h2]; simp, hhd⟩
  | some e =>
    have hnp : ∀ site, e ≠ .panic site := by
      intro site hs
      have := (VMNoPanic.execOp_no_panic _ _ _ _ _).1 e he
      rw [hs] at this
      cases this
    rw [step_err hq hi he hnp]
    have hmq : (midErr cfg s t rest (opOut cfg code s t ins) e).queue =
        { t with visited := bump t.visited t.ip, d := (opOut cfg code s t ins).d } :: rest := rfl
    rcases advance_shape (cfg := cfg) (code := code) hmq with ⟨h1, _⟩ | ⟨_, h2⟩
    · exact ⟨(⟨t.ip + 1, bump t.visited t.ip, t.gas, (opOut cfg code s t ins).d⟩ : Thread),
        by rw [h1]; simp, rfl⟩
    · exact ⟨(⟨t.ip, bump t.visited t.ip, t.gas, (opOut cfg code s t ins).d⟩ : Thread),
        by rw [h2]; simp, rfl⟩

/-- **P3 (one iteration).** For any relation `R` between thread states that holds across
storage-free operations, is transitive, and holds across every instruction: every thread of a
machine state — queued or stored — has a continuation in the next state related to it by `R`.
No thread is dropped, whatever the instruction returns and whatever the mode. -/
theorem step_continues_rel (R : TData → TData → Prop) [StRel R] (cfg : Cfg) (code : List Instr)
    (hexec : ∀ c ins d ctr, R d (execOp c code ins d ctr).d) (s : VMS) :
    ∀ th ∈ s.queue ++ s.stored,
      ∃ th' ∈ (step cfg code s).queue ++ (step cfg code s).stored, R th.d th'.d := by
  intro th hth
  cases hq : s.queue with
  | nil =>
    rw [step_nil hq]
    exact ⟨th, hth, StRel.refl _⟩
  | cons t rest =>
    rw [hq] at hth
    simp only [List.cons_append, List.mem_cons] at hth
    rcases hth with rfl | hth
    · cases hi : code[th.ip]? with
      | none =>
        rw [step_oob hq hi]
        exact ⟨th, by simp [hq], StRel.refl _⟩
      | some ins =>
        obtain ⟨th', hmem, hd⟩ := step_head_exec (cfg := cfg) hq hi
        refine ⟨th', hmem, ?_⟩
        rw [hd]
        exact hexec _ ins th.d s.ctr
    · exact ⟨th, step_touches_head_only cfg code s th (by rw [hq]; exact hth), StRel.refl _⟩

theorem run_continues_rel (R : TData → TData → Prop) [StRel R] (cfg : Cfg) (code : List Instr)
    (hexec : ∀ c ins d ctr, R d (execOp c code ins d ctr).d) :
    ∀ (fuel : Nat) (s : VMS), ∀ th ∈ s.queue ++ s.stored,
      ∃ th' ∈ (run cfg code fuel s).queue ++ (run cfg code fuel s).stored, R th.d th'.d
  | 0, s, th, hth => ⟨th, hth, StRel.refl _⟩
  | fuel + 1, s, th, hth => by
    simp only [run]
    split
    · exact ⟨th, hth, StRel.refl _⟩
    · obtain ⟨th1, h1, r1⟩ := step_continues_rel R cfg code hexec s th hth
      obtain ⟨th2, h2, r2⟩ := run_continues_rel R cfg code hexec fuel _ th1 h1
      exact ⟨th2, h2, StRel.trans r1 r2⟩

/-- the storage of the continuation extends the storage of the thread: every history is a prefix
of the later one (`Grows`), and every key of `stK` with a non-empty history is kept (`KeepsKeys`) -/
def Extends (d d' : TData) : Prop := Grows d d' ∧ KeepsKeys d d'

instance : StRel Extends where
  same := fun h => ⟨StRel.same h, StRel.same h⟩
  trans := fun h1 h2 => ⟨StRel.trans h1.1 h2.1, StRel.trans h1.2 h2.2⟩

theorem execOp_extends (c : Ctx) (code : List Instr) (ins : Instr) (d : TData) (ctr : Nat) :
    Extends d (execOp c code ins d ctr).d :=
  ⟨fun k => execOp_storage_monotone c code ins d ctr k, fun k hk => execOp_keeps_keys c code ins d ctr k hk⟩

/-- **P3 (one iteration).** Every thread of `queue ++ stored` has a continuation in
`queue ++ stored` of the next state whose storage extends its own. -/
theorem step_continues (cfg : Cfg) (code : List Instr) (s : VMS) :
    ∀ th ∈ s.queue ++ s.stored,
      ∃ th' ∈ (step cfg code s).queue ++ (step cfg code s).stored, Extends th.d th'.d :=
  step_continues_rel Extends cfg code (fun c ins d ctr => execOp_extends c code ins d ctr) s

/-- **P3 (any number of iterations).** -/
theorem run_continues (cfg : Cfg) (code : List Instr) (fuel : Nat) (s : VMS) :
    ∀ th ∈ s.queue ++ s.stored,
      ∃ th' ∈ (run cfg code fuel s).queue ++ (run cfg code fuel s).stored, Extends th.d th'.d :=
  run_continues_rel Extends cfg code (fun c ins d ctr => execOp_extends c code ins d ctr) fuel s

/-! ### intermediate states of a run -/

theorem run_stop (cfg : Cfg) (code : List Instr) (s : VMS)
    (h : (s.queue.isEmpty || s.aborted.isSome) = true) : ∀ m, run cfg code m s = s
  | 0 => rfl
  | m + 1 => by simp only [run, h, if_true]

/-- the state after `n + m` iterations is the state `m` iterations after the state after `n` -/
theorem run_add (cfg : Cfg) (code : List Instr) (m : Nat) :
    ∀ (n : Nat) (s : VMS), run cfg code (n + m) s = run cfg code m (run cfg code n s)
  | 0, s => by rw [Nat.zero_add]; rfl
  | n + 1, s => by
    have e : n + 1 + m = (n + m) + 1 := by omega
    rw [e]
    by_cases h : (s.queue.isEmpty || s.aborted.isSome) = true
    · rw [run_stop cfg code s h, run_stop cfg code s h, run_stop cfg code s h]
    · simp only [run, h]
      exact run_add cfg code m n _

theorem run_succ_of_running (cfg : Cfg) (code : List Instr) (n : Nat) (s0 : VMS) {t : Thread}
    {rest : List Thread} (hq : (run cfg code n s0).queue = t :: rest)
    (hab : (run cfg code n s0).aborted = none) :
    run cfg code (n + 1) s0 = step cfg code (run cfg code n s0) := by
  rw [run_add]
  simp [run, hq, hab]

/-- a successful analysis means the run ended without an abort and without recorded errors -/
theorem analysed_clean {h : Lift.HashCtx} {o : Unify.Orders} {cfg : Cfg} {bytes : List Nat}
    {vmFuel uFuel : Nat} {code : List Instr} {a : TC.Analysis}
    (hd : Disasm.disasm bytes = .ok code)
    (ha : Pipe.analyseProgram h o cfg bytes vmFuel uFuel = .analysed a) :
    (run cfg code vmFuel (initVM cfg code)).aborted = none ∧
    (run cfg code vmFuel (initVM cfg code)).errors = [] := by
  rw [ProgramLevel.analyseProgram_ok hd] at ha
  split at ha
  · cases ha
  · rename_i hc
    simp only [Bool.not_eq_true, Bool.not_eq_false', List.isEmpty_iff] at hc
    unfold ProgramLevel.errsOf at hc
    split at hc
    · cases hc
    · rename_i hab
      exact ⟨hab, hc⟩

/-- **P3 (program level).** If the analysis returns a layout and the machine has finished within
its fuel (`queue = []` at the end; an abort is excluded by `ha`), then every constant key that has a
history in the storage of ANY thread — queued or stored — of ANY intermediate state of the run (the
state after `n ≤ vmFuel` iterations) is a slot of the layout. -/
theorem program_reached_literal_keys_reported (h : Lift.HashCtx) (o : Unify.Orders) (cfg : VM.Cfg)
    (bytes : List Nat) (vmFuel uFuel : Nat) (code : List Disasm.Instr) (a : TC.Analysis)
    (l : List (Layout.Entry JsonModel.AbiType))
    (hd : Disasm.disasm bytes = .ok code)
    (ha : Pipe.analyseProgram h o cfg bytes vmFuel uFuel = .analysed a) (hl : a.outcome = .layout l)
    (hfin : (VM.run cfg code vmFuel (VM.initVM cfg code)).queue = [])
    (n : Nat) (hn : n ≤ vmFuel) (t : VM.Thread)
    (ht : t ∈ (VM.run cfg code n (VM.initVM cfg code)).queue ++ (VM.run cfg code n (VM.initVM cfg code)).stored)
    (k : SV) (g : List SV) (hk : (k, g) ∈ t.d.stK) (hg : g ≠ []) (w : Nat)
    (hw : k.asWord.map (·.toNat) = some w ∨ litKey w k = true)
    (hnot : h.table w = none) : ∃ e ∈ l, e.index = w := by
  have hlit : litKey w k = true := litKey_of_either ht hk hw
  obtain ⟨t', ht', hext⟩ := run_continues cfg code (vmFuel - n) _ t ht
  rw [← run_add, show n + (vmFuel - n) = vmFuel by omega, hfin, List.nil_append] at ht'
  exact program_keyIn_reported h o cfg bytes vmFuel uFuel code a l hd ha hl t' ht' k
    (hext.2 k ⟨g, hk, hg⟩) w hlit hnot

/-- the same with the explicit iteration bound of `VM.run_terminates` in place of `queue = []` -/
theorem program_reached_literal_keys_reported_of_fuel (h : Lift.HashCtx) (o : Unify.Orders) (cfg : VM.Cfg)
    (bytes : List Nat) (vmFuel uFuel : Nat) (code : List Disasm.Instr) (a : TC.Analysis)
    (l : List (Layout.Entry JsonModel.AbiType))
    (hd : Disasm.disasm bytes = .ok code)
    (ha : Pipe.analyseProgram h o cfg bytes vmFuel uFuel = .analysed a) (hl : a.outcome = .layout l)
    (hc : 0 < code.length) (hi : 0 < cfg.iterLimit)
    (hfuel : vmFuel ≥ (code.length * cfg.iterLimit + 1) *
      (1 + cfg.forkLimit * (code.filter (· == .op 0x5b)).length))
    (n : Nat) (hn : n ≤ vmFuel) (t : VM.Thread)
    (ht : t ∈ (VM.run cfg code n (VM.initVM cfg code)).queue ++ (VM.run cfg code n (VM.initVM cfg code)).stored)
    (k : SV) (g : List SV) (hk : (k, g) ∈ t.d.stK) (hg : g ≠ []) (w : Nat)
    (hw : k.asWord.map (·.toNat) = some w ∨ litKey w k = true)
    (hnot : h.table w = none) : ∃ e ∈ l, e.index = w := by
  have hfin : (run cfg code vmFuel (initVM cfg code)).queue = [] := by
    rcases run_terminates hc hi vmFuel hfuel with hq | hab
    · exact hq
    · rw [(analysed_clean hd ha).1] at hab
      cases hab
  exact program_reached_literal_keys_reported h o cfg bytes vmFuel uFuel code a l hd ha hl hfin n hn t ht
    k g hk hg w hw hnot

/-- **P2 + P3 + P1 for a store.** If at some point of the run (after `n < vmFuel` iterations, not
aborted) the head thread stands on an SSTORE with the literal `w` as the key on top of its stack,
the machine finishes within its fuel and the analysis returns a layout, then `w` is a slot of the
layout. -/
theorem program_sstore_literal_reported (h : Lift.HashCtx) (o : Unify.Orders) (cfg : VM.Cfg)
    (bytes : List Nat) (vmFuel uFuel : Nat) (code : List Disasm.Instr) (a : TC.Analysis)
    (l : List (Layout.Entry JsonModel.AbiType))
    (hd : Disasm.disasm bytes = .ok code)
    (ha : Pipe.analyseProgram h o cfg bytes vmFuel uFuel = .analysed a) (hl : a.outcome = .layout l)
    (hfin : (VM.run cfg code vmFuel (VM.initVM cfg code)).queue = [])
    (n : Nat) (hn : n < vmFuel) (t : VM.Thread) (rest : List VM.Thread)
    (hq : (VM.run cfg code n (VM.initVM cfg code)).queue = t :: rest)
    (hab : (VM.run cfg code n (VM.initVM cfg code)).aborted = none)
    (hi : code[t.ip]? = some (.op 0x55))
    (k v : SV) (r : List SV) (hs : t.d.stack = k :: v :: r) (w : Nat) (hw : litKey w k = true)
    (hnot : h.table w = none) : ∃ e ∈ l, e.index = w := by
  obtain ⟨th', hmem, hd'⟩ := step_head_exec (cfg := cfg) hq hi
  rw [← run_succ_of_running cfg code n _ hq hab] at hmem
  obtain ⟨_, g, hkg, hg, _⟩ := sstore_literal_key_present
    { cfg := cfg, ip := t.ip, codeLen := code.length } code t.d
    (run cfg code n (initVM cfg code)).ctr k v r w hs hw
  exact program_reached_literal_keys_reported h o cfg bytes vmFuel uFuel code a l hd ha hl hfin (n + 1)
    (by omega) th' hmem k g (by rw [hd']; exact hkg) hg w (Or.inr hw) hnot

/-- **P2 + P3 + P1 for a load.** The same for an SLOAD with the literal `w` as the key on top of the
stack (the invariant `StWF` that the load form of P2 needs holds in every reachable thread). -/
theorem program_sload_literal_reported (h : Lift.HashCtx) (o : Unify.Orders) (cfg : VM.Cfg)
    (bytes : List Nat) (vmFuel uFuel : Nat) (code : List Disasm.Instr) (a : TC.Analysis)
    (l : List (Layout.Entry JsonModel.AbiType))
    (hd : Disasm.disasm bytes = .ok code)
    (ha : Pipe.analyseProgram h o cfg bytes vmFuel uFuel = .analysed a) (hl : a.outcome = .layout l)
    (hfin : (VM.run cfg code vmFuel (VM.initVM cfg code)).queue = [])
    (n : Nat) (hn : n < vmFuel) (t : VM.Thread) (rest : List VM.Thread)
    (hq : (VM.run cfg code n (VM.initVM cfg code)).queue = t :: rest)
    (hab : (VM.run cfg code n (VM.initVM cfg code)).aborted = none)
    (hi : code[t.ip]? = some (.op 0x54))
    (k : SV) (r : List SV) (hs : t.d.stack = k :: r) (w : Nat) (hw : litKey w k = true)
    (hnot : h.table w = none) : ∃ e ∈ l, e.index = w := by
  obtain ⟨th', hmem, hd'⟩ := step_head_exec (cfg := cfg) hq hi
  rw [← run_succ_of_running cfg code n _ hq hab] at hmem
  have hwf : StWF t.d := reachable_StWF cfg code n t (by rw [hq]; simp)
  obtain ⟨g, hkg, hg⟩ := sload_literal_key_present_partial
    { cfg := cfg, ip := t.ip, codeLen := code.length } code t.d
    (run cfg code n (initVM cfg code)).ctr k r w hs hw hwf
  exact program_reached_literal_keys_reported h o cfg bytes vmFuel uFuel code a l hd ha hl hfin (n + 1)
    (by omega) th' hmem k g (by rw [hd']; exact hkg) hg w (Or.inr hw) hnot

/-! ## Non-vacuity and the boundary cases, by kernel evaluation

PUSH1 1, PUSH1 7, SSTORE, STOP. -/

def exBytes : List Nat := [0x60, 0x01, 0x60, 0x07, 0x55, 0x00]
def exCode : List Instr := [.push 1 [1], .nop, .push 1 [7], .nop, .op 0x55, .op 0x00]
/-- no constant is a known slot hash -/
def exCtx : Lift.HashCtx := ⟨fun _ => none, fun _ => 0⟩
def exCfg : Cfg := ⟨30000000, 10, 50, 250, 394, false⟩
def exCfgPermissive : Cfg := ⟨30000000, 10, 50, 250, 394, true⟩

theorem ex_disasm : Disasm.disasm exBytes = .ok exCode := by rfl

/-- some thread of the list holds the literal key `w` with a non-empty history in `stK` -/
def holdsKey (w : Nat) (ts : List Thread) : Bool :=
  ts.any (fun t => t.d.stK.any (fun p => litKey w p.1 && !p.2.isEmpty))

theorem holdsKey_spec {w : Nat} {ts : List Thread} (h : holdsKey w ts = true) :
    ∃ t ∈ ts, ∃ k g, (k, g) ∈ t.d.stK ∧ g ≠ [] ∧ litKey w k = true := by
  unfold holdsKey at h
  rw [List.any_eq_true] at h
  obtain ⟨t, ht, h⟩ := h
  rw [List.any_eq_true] at h
  obtain ⟨⟨k, g⟩, hp, h⟩ := h
  simp only [Bool.and_eq_true, Bool.not_eq_true', List.isEmpty_eq_false_iff] at h
  exact ⟨t, ht, k, g, hp, h.2, h.1⟩

/-- the layout of a result, if it is one -/
def layoutOf : Pipe.Result → Option (List (Layout.Entry JsonModel.AbiType))
  | .analysed a => (match a.outcome with | .layout l => some l | _ => none)
  | _ => none

theorem layoutOf_spec {r : Pipe.Result} {l : List (Layout.Entry JsonModel.AbiType)}
    (h : layoutOf r = some l) : ∃ a, r = .analysed a ∧ a.outcome = .layout l := by
  unfold layoutOf at h
  split at h
  · rename_i a
    split at h
    · rename_i l' hl'
      injection h with h
      subst h
      exact ⟨a, rfl, hl'⟩
    · cases h
  · cases h

/-- On the example program all hypotheses of P1 hold together (with `w = 7`), and the layout is the
single slot 7. -/
theorem ex_hyps :
    ((layoutOf (Pipe.analyseProgram exCtx Unify.idOrders exCfg exBytes 100 400)).map
        (fun l => l.map (·.index))) = some [7] ∧
    holdsKey 7 (run exCfg exCode 100 (initVM exCfg exCode)).stored = true ∧
    (run exCfg exCode 100 (initVM exCfg exCode)).queue.isEmpty = true := by
  decide +kernel

/-- P1 instantiated on the example: its hypotheses are satisfiable. -/
example : ∃ a l, Pipe.analyseProgram exCtx Unify.idOrders exCfg exBytes 100 400 = .analysed a ∧
    a.outcome = .layout l ∧
    ∃ t ∈ (run exCfg exCode 100 (initVM exCfg exCode)).stored, ∃ k g, (k, g) ∈ t.d.stK ∧ g ≠ [] ∧
      litKey 7 k = true ∧ exCtx.table 7 = none ∧ ∃ e ∈ l, e.index = 7 := by
  obtain ⟨h1, h2, _⟩ := ex_hyps
  cases hl : layoutOf (Pipe.analyseProgram exCtx Unify.idOrders exCfg exBytes 100 400) with
  | none => rw [hl] at h1; cases h1
  | some l =>
    obtain ⟨a, ha, hout⟩ := layoutOf_spec hl
    obtain ⟨t, ht, k, g, hk, hg, hw⟩ := holdsKey_spec h2
    exact ⟨a, l, ha, hout, t, ht, k, g, hk, hg, hw, rfl,
      program_literal_keys_reported exCtx Unify.idOrders exCfg exBytes 100 400 exCode a l ex_disasm ha hout
        t ht k g hk hg 7 (Or.inr hw) rfl⟩

/-- The hypotheses of `program_sstore_literal_reported` hold on the example with `n = 4`: after four
iterations the only queued thread stands on the SSTORE with the literal 7 on top of its stack, the
run is not aborted, and after 100 iterations the queue is empty (`ex_hyps`). -/
theorem ex_sstore_hyps :
    (match (run exCfg exCode 4 (initVM exCfg exCode)).queue with
      | [t] => exCode[t.ip]? == some (.op 0x55) &&
          (match t.d.stack with | k :: _ :: _ => litKey 7 k | _ => false)
      | _ => false) = true ∧
    (run exCfg exCode 4 (initVM exCfg exCode)).aborted.isNone = true := by
  decide +kernel

/-- The hypothesis `queue = []` of the P3 theorems cannot be dropped: with fuel for only five
iterations (PUSH1, its data byte, PUSH1, its data byte, SSTORE) the thread has executed the SSTORE (it holds key 7) but is still queued, nothing is
stored, and the analysis returns the empty layout. -/
theorem fuel_out_counterexample :
    holdsKey 7 (run exCfg exCode 5 (initVM exCfg exCode)).queue = true ∧
    (run exCfg exCode 5 (initVM exCfg exCode)).stored.isEmpty = true ∧
    ((layoutOf (Pipe.analyseProgram exCtx Unify.idOrders exCfg exBytes 5 400)).map
        (fun l => l.map (·.index))) = some [] := by
  decide +kernel

/-- PUSH1 1, PUSH1 7, SSTORE, PUSH1 0, JUMP: the jump target is not a JUMPDEST, the instruction
returns `Err(InvalidJumpTarget)` and the thread is killed.  In strict mode the error is recorded and
the analysis returns execution errors; in permissive mode it is not recorded, the killed thread is
stored with its storage, and slot 7 is in the layout. -/
def exBytesBadJump : List Nat := [0x60, 0x01, 0x60, 0x07, 0x55, 0x60, 0x00, 0x56]

theorem killed_thread_keeps_keys :
    (match Pipe.analyseProgram exCtx Unify.idOrders exCfg exBytesBadJump 100 400 with
      | .execErrors es => es.map (·.1) == [7]
      | _ => false) = true ∧
    ((layoutOf (Pipe.analyseProgram exCtx Unify.idOrders exCfgPermissive exBytesBadJump 100 400)).map
        (fun l => l.map (·.index))) = some [7] := by
  decide +kernel

end SLE.ProgramSlots
