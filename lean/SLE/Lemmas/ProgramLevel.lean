import SLE.Model.Pipe
import SLE.Lemmas.VMNoPanic
import SLE.Lemmas.LiftInv
import SLE.Lemmas.TCSlots
import SLE.Props.C01
import SLE.Props.C12
/-!
Program-level theorems: the values the symbolic machine hands to the type checker are `Raw`
(no lifted construct), and `StorageFree` when the program has no SLOAD/SSTORE; hence the pipeline
theorems (C01, C05, C12) hold for PROGRAMS (`Pipe.analyseProgram`).
-/
namespace SLE.ProgramLevel
open SLE SLE.SV SLE.VM SLE.TCSpec
open SLE.Disasm (Instr)
open SLE.LiftInv (NoP NoP_node NoP_rebuild NoP_mkKnown fold_NoP)

/-! ### definitions -/

/-- every tree held by a thread state -/
def dataVals (d : TData) : List SV :=
  d.stack ++ d.memC.flatMap (fun q => q.2.map (·.data)) ++
  d.memS.flatMap (fun q => q.1 :: q.2.map (·.data)) ++
  d.stK.flatMap (fun q => q.1 :: q.2) ++ d.stS.flatMap (fun q => q.1 :: q.2) ++
  d.recorded ++ d.logged

def P_D (P : SV → Prop) (d : TData) : Prop := ∀ v ∈ dataVals d, P v
def P_S (P : SV → Prop) (s : VMS) : Prop := ∀ t ∈ s.queue ++ s.stored, P_D P t.d

def NoStorageOps (code : List Disasm.Instr) : Prop := ∀ ins ∈ code, ins ≠ .op 0x54 ∧ ins ≠ .op 0x55

/-- Component-wise form of the invariant, with a separate predicate `S` for what storage holds
(`S = P` in general; `S = fun _ => False` says that storage is empty). -/
structure DI (P S : SV → Prop) (d : TData) : Prop where
  stack : ∀ v ∈ d.stack, P v
  memC : ∀ q ∈ d.memC, ∀ c ∈ q.2, P c.data
  memS : ∀ q ∈ d.memS, P q.1 ∧ ∀ c ∈ q.2, P c.data
  stK : ∀ q ∈ d.stK, S q.1 ∧ ∀ v ∈ q.2, S v
  stS : ∀ q ∈ d.stS, S q.1 ∧ ∀ v ∈ q.2, S v
  recorded : ∀ v ∈ d.recorded, P v
  logged : ∀ v ∈ d.logged, P v

theorem P_D_iff {P : SV → Prop} {d : TData} : P_D P d ↔ DI P P d := by
  constructor
  · intro h
    refine ⟨fun v hv => h v ?_, fun q hq c hc => h _ ?_, fun q hq => ⟨h _ ?_, fun c hc => h _ ?_⟩,
      fun q hq => ⟨h _ ?_, fun c hc => h _ ?_⟩, fun q hq => ⟨h _ ?_, fun c hc => h _ ?_⟩,
      fun v hv => h v ?_, fun v hv => h v ?_⟩
    all_goals simp only [dataVals, List.mem_append, List.mem_flatMap, List.mem_map, List.mem_cons]
    all_goals grind
  · intro h v hv
    simp only [dataVals, List.mem_append, List.mem_flatMap, List.mem_map, List.mem_cons] at hv
    rcases hv with (((((hv | ⟨q, hq, c, hc, rfl⟩) | ⟨q, hq, hv⟩) | ⟨q, hq, hv⟩) | ⟨q, hq, hv⟩) | hv) | hv
    · exact h.stack v hv
    · exact h.memC q hq c hc
    · rcases hv with rfl | ⟨c, hc, rfl⟩
      · exact (h.memS q hq).1
      · exact (h.memS q hq).2 c hc
    · rcases hv with rfl | hv
      · exact (h.stK q hq).1
      · exact (h.stK q hq).2 v hv
    · rcases hv with rfl | hv
      · exact (h.stS q hq).1
      · exact (h.stS q hq).2 v hv
    · exact h.recorded v hv
    · exact h.logged v hv

/-! ### the value predicate -/

/-- kinds the machine never builds outside SLOAD: lifted ones and storage ones -/
def badKind (k : Kind) : Bool := isLiftedKind k || isStorageKind k

/-- no node of the tree has a kind satisfying `p` -/
def Pv (p : Kind → Bool) (v : SV) : Prop := NoP (fun k _ => p k) v

/-- `p` rejects no kind the machine builds (other than through SLOAD) -/
def Machine (p : Kind → Bool) : Prop := ∀ k, badKind k = false → p k = false

theorem raw_iff (v : SV) : Raw v ↔ Pv isLiftedKind v := Iff.rfl
theorem storageFree_iff (v : SV) : StorageFree v ↔ Pv isStorageKind v := Iff.rfl

theorem machine_lifted : Machine isLiftedKind := by
  intro k hk
  simp only [badKind, Bool.or_eq_false_iff] at hk
  exact hk.1

theorem machine_storage : Machine isStorageKind := by
  intro k hk
  simp only [badKind, Bool.or_eq_false_iff] at hk
  exact hk.2

section prim
variable {p : Kind → Bool} {P S : SV → Prop}

theorem Pv_node {k a ks s} : Pv p (.node k a ks s) ↔ p k = false ∧ ∀ x ∈ ks, Pv p x := NoP_node

theorem Pv_rebuild {k a ks} : Pv p (rebuild k a ks) ↔ p k = false ∧ ∀ x ∈ ks, Pv p x := NoP_rebuild

theorem Pv_mkKnown (hm : Machine p) (w : Word) : Pv p (mkKnown w) :=
  NoP_mkKnown (fun _ => hm _ rfl) w

theorem Pv_mkValue (hm : Machine p) (i : Nat) : Pv p (mkValue i) := by
  simp only [mkValue, Pv_node]
  exact ⟨hm _ rfl, by simp⟩

theorem Pv_fold (hm : Machine p) {v : SV} (hv : Pv p v) : Pv p (fold v) :=
  fold_NoP (fun _ => hm _ rfl) v hv

theorem Pv_mk (hm : Machine p) {lim fresh k a ks} (hk : p k = false) (hks : ∀ x ∈ ks, Pv p x) :
    Pv p (SV.mk lim fresh k a ks) := by
  unfold SV.mk
  split
  · dsimp only
    split
    · exact Pv_mkValue hm _
    · exact Pv_node.mpr ⟨hk, hks⟩
  · exact Pv_node.mpr ⟨hk, hks⟩

theorem build_v (hm : Machine p) {c ctr k a ks v ctr'} (e : build c ctr k a ks = (v, ctr'))
    (hk : p k = false) (hks : ∀ x ∈ ks, Pv p x) : Pv p v := by
  unfold build at e
  cases e
  exact Pv_mk hm hk hks

theorem buildKnown_v (hm : Machine p) {c ctr w v ctr'} (e : buildKnown c ctr w = (v, ctr')) : Pv p v :=
  build_v hm e (hm _ rfl) (by simp)

theorem buildValue_v (hm : Machine p) {c ctr v ctr'} (e : buildValue c ctr = (v, ctr')) : Pv p v := by
  unfold buildValue at e
  cases e
  exact Pv_mkValue hm _

/-! ### stack -/

theorem push_d {d d' : TData} {v : SV} (e : push d v = .ok d') (h : DI P S d) (hv : P v) : DI P S d' := by
  unfold push at e
  split at e
  · cases e
  · cases e
    exact ⟨fun x hx => by
      rcases List.mem_cons.mp hx with rfl | hx
      · exact hv
      · exact h.stack x hx, h.memC, h.memS, h.stK, h.stS, h.recorded, h.logged⟩

theorem pop_both {d d' : TData} {v : SV} (e : pop d = .ok (v, d')) (h : DI P S d) : P v ∧ DI P S d' := by
  unfold pop at e
  split at e
  · cases e
  · rename_i v0 r hs
    cases e
    have hst := h.stack
    rw [hs] at hst
    exact ⟨hst v (by simp), fun x hx => hst x (by simp [hx]), h.memC, h.memS, h.stK, h.stS, h.recorded, h.logged⟩

theorem pop_v {d d' : TData} {v : SV} (e : pop d = .ok (v, d')) (h : DI P S d) : P v := (pop_both e h).1
theorem pop_d {d d' : TData} {v : SV} (e : pop d = .ok (v, d')) (h : DI P S d) : DI P S d' := (pop_both e h).2

theorem popN_ok : ∀ (n : Nat) (d : TData) (acc : List SV) {args : List SV} {d' : TData},
    popN n d acc = .ok (args, d') → DI P S d → (∀ a ∈ acc, P a) → (∀ a ∈ args, P a) ∧ DI P S d'
  | 0, d, acc, args, d', e, h, ha => by
    unfold popN at e
    cases e
    exact ⟨fun a ha' => ha a (List.mem_reverse.mp ha'), h⟩
  | n + 1, d, acc, args, d', e, h, ha => by
    unfold popN at e
    split at e
    · cases e
    · rename_i v d1 hp
      obtain ⟨hv, hd1⟩ := pop_both hp h
      exact popN_ok n d1 (v :: acc) e hd1 (fun a ha' => by
        rcases List.mem_cons.mp ha' with rfl | ha'
        · exact hv
        · exact ha a ha')

theorem popN_err_d : ∀ (n : Nat) (d : TData) (acc : List SV) {e : XErr} {d' : TData},
    popN n d acc = .error (e, d') → DI P S d → DI P S d'
  | 0, d, acc, e, d', he, h => by
    unfold popN at he
    cases he
  | n + 1, d, acc, e, d', he, h => by
    unfold popN at he
    split at he
    · cases he; exact h
    · rename_i v d1 hp
      exact popN_err_d n d1 (v :: acc) he (pop_d hp h)

theorem popN_v {n : Nat} {d d' : TData} {args : List SV} (e : popN n d [] = .ok (args, d'))
    (h : DI P S d) : ∀ a ∈ args, P a := (popN_ok n d [] e h (by simp)).1
theorem popN_d {n : Nat} {d d' : TData} {args : List SV} (e : popN n d [] = .ok (args, d'))
    (h : DI P S d) : DI P S d' := (popN_ok n d [] e h (by simp)).2

theorem dup_d {d d' : TData} {n : Nat} (e : dup d n = .ok d') (h : DI P S d) : DI P S d' := by
  unfold dup at e
  split at e
  · cases e
  · split at e
    · rename_i v hv
      exact push_d e h (h.stack v (List.mem_of_getElem? hv))
    · cases e

theorem swap_d {d d' : TData} {n : Nat} (e : swap d n = .ok d') (h : DI P S d) : DI P S d' := by
  unfold swap at e
  split at e
  · cases e
  · rename_i top r hs
    split at e
    · cases e
    · split at e
      · rename_i v hv
        cases e
        refine ⟨fun x hx => ?_, h.memC, h.memS, h.stK, h.stS, h.recorded, h.logged⟩
        dsimp only at hx
        rcases List.mem_or_eq_of_mem_set hx with hx | rfl
        · rcases List.mem_or_eq_of_mem_set hx with hx | rfl
          · exact h.stack x hx
          · exact h.stack _ (by rw [hs]; simp)
        · exact h.stack _ (List.mem_of_getElem? hv)
      · cases e

theorem record_d {d : TData} {v : SV} (h : DI P S d) (hv : P v) : DI P S (record d v) :=
  ⟨h.stack, h.memC, h.memS, h.stK, h.stS, fun x hx => by
    rcases List.mem_append.mp hx with hx | hx
    · exact h.recorded x hx
    · rw [List.mem_singleton.mp hx]; exact hv, h.logged⟩

theorem logValue_d {d : TData} {v : SV} (h : DI P S d) (hv : P v) : DI P S (logValue d v) :=
  ⟨h.stack, h.memC, h.memS, h.stK, h.stS, h.recorded, fun x hx => by
    rcases List.mem_append.mp hx with hx | hx
    · exact h.logged x hx
    · rw [List.mem_singleton.mp hx]; exact hv⟩

end prim

/-! ### association lists -/

theorem updateSV_inv {β : Type} {K : SV → Prop} {V : β → Prop} {m : List (SV × β)} {k : SV} {v : β}
    (hm : ∀ q ∈ m, K q.1 ∧ V q.2) (hk : K k) (hv : V v) : ∀ q ∈ updateSV m k v, K q.1 ∧ V q.2 := by
  unfold updateSV
  split
  · intro q hq
    obtain ⟨q', hq', rfl⟩ := List.mem_map.mp hq
    split
    · exact ⟨(hm _ hq').1, hv⟩
    · exact hm _ hq'
  · intro q hq
    rcases List.mem_append.mp hq with hq | hq
    · exact hm _ hq
    · rw [List.mem_singleton.mp hq]; exact ⟨hk, hv⟩

theorem updateNat_inv {β : Type} {V : β → Prop} {m : List (Nat × β)} {k : Nat} {v : β}
    (hm : ∀ q ∈ m, V q.2) (hv : V v) : ∀ q ∈ updateNat m k v, V q.2 := by
  unfold updateNat
  split
  · intro q hq
    obtain ⟨q', hq', rfl⟩ := List.mem_map.mp hq
    split
    · exact hv
    · exact hm _ hq'
  · intro q hq
    rcases List.mem_append.mp hq with hq | hq
    · exact hm _ hq
    · rw [List.mem_singleton.mp hq]; exact hv

theorem lookupSV_mem {β : Type} {m : List (SV × β)} {k : SV} {g : β} (e : lookupSV m k = some g) :
    ∃ q ∈ m, q.2 = g := by
  unfold lookupSV at e
  cases hf : m.find? (fun p => p.1.beq k) with
  | none => rw [hf] at e; cases e
  | some q =>
    rw [hf] at e
    cases e
    exact ⟨q, List.mem_of_find?_eq_some hf, rfl⟩

theorem lookupNat_mem {β : Type} : ∀ {m : List (Nat × β)} {k : Nat} {g : β}, m.lookup k = some g →
    ∃ q ∈ m, q.2 = g
  | [], k, g, e => by cases e
  | (a, b) :: m, k, g, e => by
    rw [List.lookup_cons] at e
    split at e
    · cases e; exact ⟨(a, b), by simp, rfl⟩
    · obtain ⟨q, hq, hg⟩ := lookupNat_mem e
      exact ⟨q, by simp [hq], hg⟩

section mem
variable {p : Kind → Bool} {S : SV → Prop}

/-- all cells of a generation list hold good values -/
def CellsOK (p : Kind → Bool) (g : List MemCell) : Prop := ∀ c ∈ g, Pv p c.data

theorem cells_snoc {g : List MemCell} {v : SV} {w : Bool} (hg : CellsOK p g) (hv : Pv p v) :
    CellsOK p (g ++ [⟨v, w⟩]) := by
  intro c hc
  rcases List.mem_append.mp hc with hc | hc
  · exact hg c hc
  · rw [List.mem_singleton.mp hc]; exact hv

theorem cells_last (hm : Machine p) {g : List MemCell} (hg : CellsOK p g) :
    Pv p (g.getLast?.getD zeroCell).data := by
  cases hl : g.getLast? with
  | none => exact Pv_mkKnown hm _
  | some c => exact hg c (List.mem_of_getLast? hl)

theorem cells_zero (hm : Machine p) : CellsOK p [zeroCell] := by
  intro c hc
  rw [List.mem_singleton.mp hc]
  exact Pv_mkKnown hm _

theorem memStore_d (hm : Machine p) {d : TData} {off v : SV} {w : Bool} (h : DI (Pv p) S d)
    (ho : Pv p off) (hv : Pv p v) : DI (Pv p) S (memStore d off v w) := by
  unfold memStore
  dsimp only
  split
  · refine ⟨h.stack, ?_, h.memS, h.stK, h.stS, h.recorded, h.logged⟩
    dsimp only
    refine updateNat_inv (V := CellsOK p) h.memC (cells_snoc ?_ hv)
    cases hl : List.lookup _ d.memC with
    | none => intro c hc; cases hc
    | some g =>
      obtain ⟨q, hq, rfl⟩ := lookupNat_mem hl
      exact h.memC q hq
  · refine ⟨h.stack, h.memC, ?_, h.stK, h.stS, h.recorded, h.logged⟩
    dsimp only
    refine updateSV_inv (K := Pv p) (V := CellsOK p) h.memS (Pv_fold hm ho) (cells_snoc ?_ hv)
    cases hl : lookupSV d.memS (fold off) with
    | none => intro c hc; cases hc
    | some g =>
      obtain ⟨q, hq, rfl⟩ := lookupSV_mem hl
      exact (h.memS q hq).2

theorem memGetC_both (hm : Machine p) {d d' : TData} {k : Nat} {v : SV} (e : memGetC d k = (v, d'))
    (h : DI (Pv p) S d) : Pv p v ∧ DI (Pv p) S d' := by
  unfold memGetC at e
  split at e
  · rename_i cells hl
    cases e
    obtain ⟨q, hq, rfl⟩ := lookupNat_mem hl
    exact ⟨cells_last hm (h.memC q hq), h⟩
  · cases e
    refine ⟨Pv_mkKnown hm _, h.stack, ?_, h.memS, h.stK, h.stS, h.recorded, h.logged⟩
    intro q hq
    rcases List.mem_append.mp hq with hq | hq
    · exact h.memC q hq
    · rw [List.mem_singleton.mp hq]; exact cells_zero hm

theorem memGetS_both (hm : Machine p) {d d' : TData} {off v : SV} (e : memGetS d off = (v, d'))
    (h : DI (Pv p) S d) (ho : Pv p off) : Pv p v ∧ DI (Pv p) S d' := by
  unfold memGetS at e
  split at e
  · rename_i cells hl
    cases e
    obtain ⟨q, hq, rfl⟩ := lookupSV_mem hl
    exact ⟨cells_last hm (h.memS q hq).2, h⟩
  · cases e
    refine ⟨Pv_mkKnown hm _, h.stack, h.memC, ?_, h.stK, h.stS, h.recorded, h.logged⟩
    intro q hq
    rcases List.mem_append.mp hq with hq | hq
    · exact h.memS q hq
    · rw [List.mem_singleton.mp hq]; exact ⟨ho, cells_zero hm⟩

theorem memLoad_both (hm : Machine p) {d d' : TData} {off v : SV} (e : memLoad d off = (v, d'))
    (h : DI (Pv p) S d) (ho : Pv p off) : Pv p v ∧ DI (Pv p) S d' := by
  unfold memLoad at e
  dsimp only at e
  split at e
  · exact memGetC_both hm e h
  · exact memGetS_both hm e h (Pv_fold hm ho)

theorem memLoad_v (hm : Machine p) {d d' : TData} {off v : SV} (e : memLoad d off = (v, d'))
    (h : DI (Pv p) S d) (ho : Pv p off) : Pv p v := (memLoad_both hm e h ho).1
theorem memLoad_d (hm : Machine p) {d d' : TData} {off v : SV} (e : memLoad d off = (v, d'))
    (h : DI (Pv p) S d) (ho : Pv p off) : DI (Pv p) S d' := (memLoad_both hm e h ho).2

theorem memGetMany_both (hm : Machine p) : ∀ (ks : List Nat) {d d' : TData} {vs : List SV},
    memGetMany d ks = (vs, d') → DI (Pv p) S d → (∀ v ∈ vs, Pv p v) ∧ DI (Pv p) S d'
  | [], d, d', vs, e, h => by
    unfold memGetMany at e
    cases e
    exact ⟨by simp, h⟩
  | k :: ks, d, d', vs, e, h => by
    unfold memGetMany at e
    cases h1 : memGetC d k with
    | mk v d1 =>
      cases h2 : memGetMany d1 ks with
      | mk vs' d2 =>
        rw [h1] at e
        dsimp only at e
        rw [h2] at e
        cases e
        obtain ⟨hv, hd1⟩ := memGetC_both hm h1 h
        obtain ⟨hvs, hd2⟩ := memGetMany_both hm ks h2 hd1
        refine ⟨fun x hx => ?_, hd2⟩
        rcases List.mem_cons.mp hx with rfl | hx
        · exact hv
        · exact hvs x hx

theorem memLoadSlice_both (hm : Machine p) {c : Ctx} {d d' : TData} {off size v : SV}
    (e : memLoadSlice c d off size = .ok (v, d')) (h : DI (Pv p) S d) (ho : Pv p off) :
    Pv p v ∧ DI (Pv p) S d' := by
  unfold memLoadSlice at e
  dsimp only at e
  split at e
  · split at e
    · cases e
      obtain ⟨hvs, hd2⟩ := memGetMany_both hm _ rfl h
      exact ⟨Pv_rebuild.mpr ⟨hm _ rfl, hvs⟩, hd2⟩
    · injection e with e
      exact memGetC_both hm e h
  · injection e with e
    exact memGetS_both hm e h (Pv_fold hm ho)

theorem memLoadSlice_v (hm : Machine p) {c : Ctx} {d d' : TData} {off size v : SV}
    (e : memLoadSlice c d off size = .ok (v, d')) (h : DI (Pv p) S d) (ho : Pv p off) : Pv p v :=
  (memLoadSlice_both hm e h ho).1
theorem memLoadSlice_d (hm : Machine p) {c : Ctx} {d d' : TData} {off size v : SV}
    (e : memLoadSlice c d off size = .ok (v, d')) (h : DI (Pv p) S d) (ho : Pv p off) :
    DI (Pv p) S d' := (memLoadSlice_both hm e h ho).2

/-! ### storage (only reached through SLOAD / SSTORE, where `S = P`) -/

theorem stStore_d {P : SV → Prop} {d : TData} {key v : SV} (h : DI P P d) (hk : P key) (hv : P v) :
    DI P P (stStore d key v) := by
  have snoc : ∀ g : List SV, (∀ x ∈ g, P x) → ∀ x ∈ g ++ [v], P x := by
    intro g hg x hx
    rcases List.mem_append.mp hx with hx | hx
    · exact hg x hx
    · rw [List.mem_singleton.mp hx]; exact hv
  unfold stStore
  split
  · refine ⟨h.stack, h.memC, h.memS, ?_, h.stS, h.recorded, h.logged⟩
    dsimp only
    refine updateSV_inv (K := P) (V := fun g => ∀ x ∈ g, P x) h.stK hk (snoc _ ?_)
    cases hl : lookupSV d.stK key with
    | none => intro c hc; cases hc
    | some g =>
      obtain ⟨q, hq, rfl⟩ := lookupSV_mem hl
      exact (h.stK q hq).2
  · refine ⟨h.stack, h.memC, h.memS, h.stK, ?_, h.recorded, h.logged⟩
    dsimp only
    refine updateSV_inv (K := P) (V := fun g => ∀ x ∈ g, P x) h.stS hk (snoc _ ?_)
    cases hl : lookupSV d.stS key with
    | none => intro c hc; cases hc
    | some g =>
      obtain ⟨q, hq, rfl⟩ := lookupSV_mem hl
      exact (h.stS q hq).2

theorem sload_wrap (h1 : p .sLoad = false) {key recent : SV} (hk : Pv p key) (hr : Pv p recent) :
    Pv p (if recent.kind == .sLoad then buildNoLimit .sLoad recent.attrs recent.kids
      else buildNoLimit .sLoad [] [key, recent]) := by
  split
  · cases recent with
    | node k a ks s =>
      exact Pv_rebuild.mpr ⟨h1, (Pv_node.mp hr).2⟩
  · refine Pv_rebuild.mpr ⟨h1, ?_⟩
    intro x hx
    simp only [List.mem_cons, List.not_mem_nil, or_false] at hx
    rcases hx with rfl | rfl
    · exact hk
    · exact hr

theorem gens_last (hm : Machine p) {g : List SV} (hg : ∀ x ∈ g, Pv p x) :
    Pv p (g.getLast?.getD (mkKnown 0#256)) := by
  cases hl : g.getLast? with
  | none => exact Pv_mkKnown hm _
  | some c => exact hg c (List.mem_of_getLast? hl)

theorem stLoad_both (hm : Machine p) (h1 : p .sLoad = false) (h2 : p .unwrittenStorageValue = false)
    {d d' : TData} {key v : SV} (e : stLoad d key = (v, d')) (h : DI (Pv p) (Pv p) d) (hk : Pv p key) :
    Pv p v ∧ DI (Pv p) (Pv p) d' := by
  have hinit : ∀ x ∈ [buildNoLimit Kind.unwrittenStorageValue [] [key]], Pv p x := by
    intro x hx
    rw [List.mem_singleton.mp hx]
    exact Pv_rebuild.mpr ⟨h2, fun y hy => by rw [List.mem_singleton.mp hy]; exact hk⟩
  have hsnoc : ∀ m : List (SV × List SV), (∀ q ∈ m, Pv p q.1 ∧ ∀ v ∈ q.2, Pv p v) →
      ∀ q ∈ m ++ [(key, [buildNoLimit Kind.unwrittenStorageValue [] [key]])],
        Pv p q.1 ∧ ∀ v ∈ q.2, Pv p v := by
    intro m hmm q hq
    rcases List.mem_append.mp hq with hq | hq
    · exact hmm q hq
    · rw [List.mem_singleton.mp hq]; exact ⟨hk, hinit⟩
  unfold stLoad at e
  cases hkk : isKnownKey key
  · simp only [hkk, Bool.false_eq_true, if_false] at e
    cases hl : lookupSV d.stS key with
    | none =>
      simp only [hl] at e
      cases e
      exact ⟨sload_wrap h1 hk (gens_last hm hinit),
        h.stack, h.memC, h.memS, h.stK, hsnoc _ h.stS, h.recorded, h.logged⟩
    | some g =>
      simp only [hl] at e
      cases e
      obtain ⟨q, hq, rfl⟩ := lookupSV_mem hl
      exact ⟨sload_wrap h1 hk (gens_last hm (h.stS q hq).2), h⟩
  · simp only [hkk, if_true] at e
    cases hl : lookupSV d.stK key with
    | none =>
      simp only [hl] at e
      cases e
      exact ⟨sload_wrap h1 hk (gens_last hm hinit),
        h.stack, h.memC, h.memS, hsnoc _ h.stK, h.stS, h.recorded, h.logged⟩
    | some g =>
      simp only [hl] at e
      cases e
      obtain ⟨q, hq, rfl⟩ := lookupSV_mem hl
      exact ⟨sload_wrap h1 hk (gens_last hm (h.stK q hq).2), h⟩

end mem

/-! ### opcode templates -/

/-- every row of the template table decodes to a tree without bad kinds -/
def templatesOK : Bool :=
  opcodeTemplates.all (fun r =>
    match unflatten (r.2.2.length + 1) r.2.2 with
    | some (t, _) => !(anyNode (fun k _ _ => badKind k) t)
    | none => true)

set_option maxRecDepth 100000 in
theorem templatesOK_true : templatesOK = true := by
  simp [templatesOK, opcodeTemplates, unflatten, unflatten.kidsLoop, Kind.all, anyNode, anyNodeList,
    badKind, isLiftedKind, isStorageKind]

theorem templateOf_ok {b n : Nat} {tpl : SV} (e : templateOf b = some (n, tpl)) :
    NoP (fun k _ => badKind k) tpl := by
  unfold templateOf at e
  split at e
  · rename_i b' n' flat hf
    have hmem := List.mem_of_find?_eq_some hf
    have hall := templatesOK_true
    unfold templatesOK at hall
    have hrow := List.all_eq_true.mp hall _ hmem
    dsimp only at hrow
    cases hu : unflatten (flat.length + 1) flat with
    | none => rw [hu] at e; cases e
    | some q =>
      obtain ⟨t, r⟩ := q
      rw [hu] at e hrow
      simp only [Option.map_some, Option.some.injEq, Prod.mk.injEq] at e
      obtain ⟨_, rfl⟩ := e
      simpa [NoP] using hrow
  · cases e

mutual
theorem instantiate_P {p : Kind → Bool} (hm : Machine p) (c : Ctx) (args : List SV)
    (ha : ∀ a ∈ args, Pv p a) :
    ∀ (t : SV) (ctr : Nat), NoP (fun k _ => badKind k) t → Pv p (instantiate c args t ctr).1
  | .node k attrs kids s, ctr, ht => by
    rw [NoP_node] at ht
    have hk : p k = false := hm k ht.1
    have hkids := instantiate_go_P hm c args ha kids ctr ht.2
    simp only [instantiate]
    split
    · split
      · split
        · rename_i a hget
          exact ha a (List.mem_of_getElem? hget)
        · exact buildValue_v hm rfl
      · exact buildValue_v hm rfl
    · split
      · exact build_v hm rfl hk hkids
      · exact build_v hm rfl hk hkids
theorem instantiate_go_P {p : Kind → Bool} (hm : Machine p) (c : Ctx) (args : List SV)
    (ha : ∀ a ∈ args, Pv p a) :
    ∀ (ts : List SV) (n : Nat), (∀ t ∈ ts, NoP (fun k _ => badKind k) t) →
      ∀ x ∈ (instantiate.go c args ts n).1, Pv p x
  | [], n, _ => by simp [instantiate.go]
  | t :: ts, n, hts => by
    simp only [instantiate.go]
    intro x hx
    rcases List.mem_cons.mp hx with rfl | hx
    · exact instantiate_P hm c args ha t n (hts t (by simp))
    · exact instantiate_go_P hm c args ha ts _ (fun y hy => hts y (by simp [hy])) x hx
end

/-! ### outputs of an instruction -/

/-- the thread data of the output satisfies the invariant -/
structure OK (P S : SV → Prop) (o : OpOut) : Prop where
  di : DI P S o.d

section out
variable {p : Kind → Bool} {P S : SV → Prop}

theorem ok_fail {d : TData} {ctr : Nat} {e : XErr} (h : DI P S d) : OK P S (fail d ctr e) := ⟨h⟩

theorem ok_mk {d : TData} {ctr : Nat} {e : Option XErr} {k : Bool} {j f : Option Nat} {se : Option XErr}
    (h : DI P S d) : OK P S ⟨d, ctr, e, k, j, f, se⟩ := ⟨h⟩

theorem ok_pushOut {d : TData} {ctr : Nat} {v : SV} (h : DI P S d) (hv : P v) : OK P S (pushOut d ctr v) := by
  unfold pushOut
  split
  · exact ⟨push_d ‹_› h hv⟩
  · exact ⟨h⟩

theorem ok_ite {c : Prop} [Decidable c] {a b : OpOut} (ha : c → OK P S a) (hb : ¬c → OK P S b) :
    OK P S (if c then a else b) := by
  split
  · exact ha ‹_›
  · exact hb ‹_›

theorem memLoad_v' (hm : Machine p) {d : TData} {off : SV} (h : DI (Pv p) S d) (ho : Pv p off) :
    Pv p (memLoad d off).1 := memLoad_v hm rfl h ho
theorem memLoad_d' (hm : Machine p) {d : TData} {off : SV} (h : DI (Pv p) S d) (ho : Pv p off) :
    DI (Pv p) S (memLoad d off).2 := memLoad_d hm rfl h ho
theorem build_v' (hm : Machine p) {c ctr k a ks} (hk : p k = false) (hks : ∀ x ∈ ks, Pv p x) :
    Pv p (build c ctr k a ks).1 := build_v hm rfl hk hks
theorem buildKnown_v' (hm : Machine p) {c ctr w} : Pv p (buildKnown c ctr w).1 := buildKnown_v hm rfl
theorem buildValue_v' (hm : Machine p) {c ctr} : Pv p (buildValue c ctr).1 := buildValue_v hm rfl

theorem instantiate_v (hm : Machine p) {b n : Nat} {tpl : SV} {c : Ctx} {args : List SV} {ctr : Nat}
    (e : templateOf b = some (n, tpl)) (ha : ∀ a ∈ args, Pv p a) :
    Pv p (instantiate c args tpl ctr).1 := instantiate_P hm c args ha tpl ctr (templateOf_ok e)

theorem instantiate_ve (hm : Machine p) {b n : Nat} {tpl : SV} {c : Ctx} {args : List SV} {ctr ctr' : Nat}
    {v : SV} (e2 : instantiate c args tpl ctr = (v, ctr')) (e : templateOf b = some (n, tpl))
    (ha : ∀ a ∈ args, Pv p a) : Pv p v := by
  have := instantiate_v (c := c) (ctr := ctr) hm e ha
  rw [e2] at this
  exact this

end out

/-- Backward prover for invariant goals after the case analysis of an opcode: relies on the local
names `hm : Machine p` and `S`. -/
syntax "di" : tactic
set_option hygiene false in
macro_rules
  | `(tactic| di) => `(tactic| first
    | assumption
    | exact hm _ rfl
    | (split <;> exact hm _ rfl)
    -- outputs
    | (refine ok_fail ?_ <;> di)
    | (refine ok_pushOut ?_ ?_ <;> di)
    | (refine ok_mk ?_ <;> di)
    -- thread data
    | (refine record_d ?_ ?_ <;> di)
    | (refine logValue_d ?_ ?_ <;> di)
    | (refine memStore_d hm ?_ ?_ ?_ <;> di)
    | (apply pop_d; assumption; di)
    | (apply popN_d; assumption; di)
    | (apply popN_err_d; assumption; di)
    | (apply dup_d; assumption; di)
    | (apply swap_d; assumption; di)
    | (apply memLoad_d hm; assumption; di; di)
    | (refine memLoad_d' hm ?_ ?_ <;> di)
    | (apply memLoadSlice_d hm; assumption; di; di)
    -- values
    | (apply buildKnown_v hm; assumption)
    | exact buildKnown_v' hm
    | (apply buildValue_v hm; assumption)
    | exact buildValue_v' hm
    | (apply pop_v (S := S); assumption; di)
    | (apply popN_v (S := S); assumption; di; (simp; done))
    | (apply memLoad_v (S := S) hm; assumption; di; di)
    | (refine memLoad_v' (S := S) hm ?_ ?_ <;> di)
    | (apply memLoadSlice_v (S := S) hm; assumption; di; di)
    | (apply build_v hm; assumption; di; di)
    | (refine build_v' hm ?_ ?_ <;> di)
    | (refine Pv_fold hm ?_ <;> di)
    | (apply instantiate_v hm; assumption; di)
    | (apply instantiate_ve hm; assumption; assumption; di)
    -- lists of values
    | (intro x hx; apply popN_v (S := S); assumption; di; (simp [hx]; done))
    | (intro x hx; apply popN_v (S := S) (a := x); assumption; di; exact hx)
    | (simp only [List.mem_cons, List.not_mem_nil, or_false, forall_eq_or_imp, forall_eq,
        false_implies, implies_true]
       repeat' apply And.intro
       all_goals di))

section exec
variable {p : Kind → Bool} {S : SV → Prop}

theorem foldl_inv {α β : Type} (I : α → Prop) (f : α → β → α) (hf : ∀ a b, I a → I (f a b)) :
    ∀ (l : List β) (a : α), I a → I (l.foldl f a)
  | [], _, h => h
  | b :: l, a, h => foldl_inv I f hf l (f a b) (hf a b h)

theorem copyLoop_d (hm : Machine p) {c : Ctx} {dest : SV} {srcBase : Option SV}
    {mkVal : SV → SV → Nat → SV × Nat} {foldDest : Bool} {limit : Nat} {d : TData} {ctr : Nat}
    (h : DI (Pv p) S d) (hdest : Pv p dest) (hsrc : ∀ s, srcBase = some s → Pv p s)
    (hmk : ∀ src n32 ctr, Pv p src → Pv p n32 → Pv p (mkVal src n32 ctr).1) :
    DI (Pv p) S (copyLoop c d ctr dest srcBase mkVal limit foldDest).1 := by
  unfold copyLoop
  refine foldl_inv (fun (acc : TData × Nat) => DI (Pv p) S acc.1) _ ?_ _ _ h
  rintro ⟨d, ctr⟩ i h
  dsimp only at h ⊢
  have hdest' : Pv p (if foldDest = true then dest.fold else dest) := by
    split
    · exact Pv_fold hm hdest
    · exact hdest
  refine memStore_d hm h ?_ ?_
  · di
  · apply hmk
    · split
      · rename_i s
        have := hsrc s rfl
        di
      · di
    · di

theorem ok_copyOp (hm : Machine p) {c : Ctx} {d : TData} {ctr : Nat} {kind : Kind} {wa : Bool}
    {bound : Nat} (h : DI (Pv p) S d) (hk : p kind = false) :
    OK (Pv p) S (copyOp c d ctr kind wa bound) := by
  unfold copyOp
  split
  · di
  · rename_i args d1 hpop
    have hargs := popN_v (S := S) hpop h
    have hd1 := popN_d hpop h
    cases wa
    · simp only [Bool.false_eq_true, if_false]
      split
      · rename_i dest offset0 size0
        have hdest : Pv p dest := hargs _ (by simp)
        have hoff : Pv p offset0 := hargs _ (by simp)
        have hsize : Pv p size0 := hargs _ (by simp)
        split
        · refine ok_mk (copyLoop_d hm hd1 hdest ?_ ?_)
          · intro s hs; cases hs; di
          · intro src n32 ctr hsrc hn32
            split <;> di
        · refine ok_mk (memStore_d hm hd1 hdest ?_)
          split <;> di
      · di
    · simp only [if_true]
      split
      · rename_i dest offset0 size0 hdrop
        have hmem : ∀ a ∈ [dest, offset0, size0], Pv p a := by
          intro a ha
          rw [← hdrop] at ha
          exact hargs a (List.mem_of_mem_drop ha)
        have hdest : Pv p dest := hmem _ (by simp)
        have hoff : Pv p offset0 := hmem _ (by simp)
        have hsize : Pv p size0 := hmem _ (by simp)
        have haddr : ∀ a, args.head? = some a → Pv p a := fun a ha => hargs a (List.mem_of_head? ha)
        split
        · refine ok_mk (copyLoop_d hm hd1 hdest ?_ ?_)
          · intro s hs; cases hs; di
          · intro src n32 ctr hsrc hn32
            split
            · di
            · split
              · rename_i a ha
                have := haddr a ha
                di
              · di
        · refine ok_mk (memStore_d hm hd1 hdest ?_)
          split
          · di
          · split
            · rename_i a ha
              have := haddr a ha
              di
            · di
      · di

theorem storeReturnData_d (hm : Machine p) {c : Ctx} {d : TData} {ctr : Nat} {retSize retOffset : SV}
    (h : DI (Pv p) S d) (ho : Pv p retOffset) :
    DI (Pv p) S (storeReturnData c d ctr retSize retOffset).1 := by
  unfold storeReturnData
  split
  · refine copyLoop_d hm h ho (by intro s hs; cases hs) ?_
    intro src n32 ctr h1 h2
    di
  · dsimp only
    refine memStore_d hm h ho ?_
    di

theorem ok_callOp (hm : Machine p) {c : Ctx} {d : TData} {ctr : Nat} {wv : Bool}
    (h : DI (Pv p) S d) : OK (Pv p) S (callOp c d ctr wv) := by
  unfold callOp
  split
  · di
  · rename_i args d1 hpop
    have hargs := popN_v (S := S) hpop h
    have hd1 := popN_d hpop h
    cases wv
    · simp only [Bool.false_eq_true, if_false]
      split
      · rename_i gas address argOffset argSize retOffset retSize hg ha hdrop
        have hmem : ∀ a ∈ [argOffset, argSize, retOffset, retSize], Pv p a := by
          intro a ha
          rw [← hdrop] at ha
          exact hargs a (List.mem_of_mem_drop ha)
        have h1 : Pv p gas := hargs _ (List.mem_of_getElem? hg)
        have h2 : Pv p address := hargs _ (List.mem_of_getElem? ha)
        have h3 : Pv p argOffset := hmem _ (by simp)
        have h4 : Pv p argSize := hmem _ (by simp)
        have h5 : Pv p retOffset := hmem _ (by simp)
        have h6 : Pv p retSize := hmem _ (by simp)
        split
        · di
        · rename_i argData d2 hls
          have h7 : Pv p argData := memLoadSlice_v hm hls hd1 h3
          have hd2 := memLoadSlice_d hm hls hd1 h3
          refine ok_pushOut (storeReturnData_d hm hd2 h5) ?_
          di
      · di
    · simp only [if_true]
      split
      · rename_i gas address argOffset argSize retOffset retSize hg ha hdrop
        have hmem : ∀ a ∈ [argOffset, argSize, retOffset, retSize], Pv p a := by
          intro a ha
          rw [← hdrop] at ha
          exact hargs a (List.mem_of_mem_drop ha)
        have h1 : Pv p gas := hargs _ (List.mem_of_getElem? hg)
        have h2 : Pv p address := hargs _ (List.mem_of_getElem? ha)
        have h3 : Pv p argOffset := hmem _ (by simp)
        have h4 : Pv p argSize := hmem _ (by simp)
        have h5 : Pv p retOffset := hmem _ (by simp)
        have h6 : Pv p retSize := hmem _ (by simp)
        have hval : ∀ v, args[2]? = some v → Pv p v := fun v hv => hargs _ (List.mem_of_getElem? hv)
        split
        · di
        · rename_i argData d2 hls
          have h7 : Pv p argData := memLoadSlice_v hm hls hd1 h3
          have hd2 := memLoadSlice_d hm hls hd1 h3
          refine ok_pushOut (storeReturnData_d hm hd2 h5) ?_
          split
          · rename_i v hv
            have := hval v hv
            di
          · di
      · di

set_option maxRecDepth 8000 in
/-- The data effect of any instruction keeps the invariant.  SLOAD / SSTORE are the only
instructions that touch storage; for them storage must be held to the same standard as the rest
(`S = Pv p`) and `p` must accept the two kinds SLOAD builds. -/
theorem ok_execOp (hm : Machine p) {c : Ctx} {code : List Instr} {ins : Instr} {d : TData} {ctr : Nat}
    (h : DI (Pv p) S d)
    (hs : ins = .op 0x54 ∨ ins = .op 0x55 →
      S = Pv p ∧ p .sLoad = false ∧ p .unwrittenStorageValue = false) :
    OK (Pv p) S (execOp c code ins d ctr) := by
  unfold execOp
  split
  · di
  · di
  · dsimp only; di
  · rename_i b
    repeat' (refine ok_ite (fun _ => ?_) (fun _ => ?_))
    all_goals first
      | di
      | exact ok_copyOp hm h (hm _ rfl)
      | exact ok_callOp hm h
      | (obtain ⟨hS, h1, h2⟩ := hs (Or.inl (congrArg Instr.op (eq_of_beq ‹(b == 0x54) = true›)))
         subst hS
         split
         · exact ok_fail h
         · rename_i key d1 hpop
           obtain ⟨hkey, hd1⟩ := pop_both hpop h
           obtain ⟨hv, hd2⟩ := stLoad_both hm h1 h2 rfl hd1 hkey
           dsimp only
           split
           · exact ok_pushOut hd2 (buildValue_v' hm)
           · exact ok_pushOut hd2 hv)
      | (obtain ⟨hS, h1, h2⟩ := hs (Or.inr (congrArg Instr.op (eq_of_beq ‹(b == 0x55) = true›)))
         subst hS
         split
         · exact ok_fail (popN_err_d _ _ _ ‹_› h)
         · exact ok_mk (stStore_d (popN_d ‹_› h) (popN_v ‹_› h _ (by simp)) (popN_v ‹_› h _ (by simp)))
         · exact ok_fail (popN_d ‹_› h))
      | (split_all
         all_goals di)

end exec

/-! ### the machine loop -/

/-- every thread (live or stored) satisfies `I` -/
def TI (I : TData → Prop) (s : VMS) : Prop := ∀ t ∈ s.queue ++ s.stored, I t.d

section loop
variable {I : TData → Prop} {cfg : Cfg} {code : List Instr}

theorem ti_init (h0 : I {}) : TI I (initVM cfg code) := by
  intro t ht
  simp only [initVM, List.append_nil, List.mem_singleton] at ht
  rw [ht]
  exact h0

theorem ti_mk {s' : VMS} (hq : ∀ t ∈ s'.queue, I t.d) (hs : ∀ t ∈ s'.stored, I t.d) : TI I s' :=
  List.forall_mem_append.mpr ⟨hq, hs⟩

theorem ti_queue {s : VMS} (h : TI I s) : ∀ t ∈ s.queue, I t.d := (List.forall_mem_append.mp h).1
theorem ti_stored {s : VMS} (h : TI I s) : ∀ t ∈ s.stored, I t.d := (List.forall_mem_append.mp h).2

theorem ti_advance {s : VMS} (h : TI I s) : TI I (advance cfg code s) := by
  cases hq : s.queue with
  | nil =>
    rw [advance_nil hq]
    exact h
  | cons t rest =>
    rw [advance_cons hq]
    have hqueue := ti_queue h
    rw [hq] at hqueue
    obtain ⟨ht, hrest⟩ := List.forall_mem_cons.mp hqueue
    have hstored := ti_stored h
    split
    · refine ti_mk hrest ?_
      exact List.forall_mem_append.mpr ⟨hstored, fun t' ht' => by rw [List.mem_singleton.mp ht']; exact ht⟩
    · exact ti_mk (List.forall_mem_cons.mpr ⟨ht, hrest⟩) hstored

theorem ti_midOk {s : VMS} {t : Thread} {rest : List Thread} {ins : Instr} {o : OpOut}
    (hfork : ∀ d fp, I d → I { d with forkPoint := fp })
    (hq : s.queue = t :: rest) (h : TI I s) (ho : I o.d) : TI I (midOk cfg s t rest ins o) := by
  have hqueue := ti_queue h
  rw [hq] at hqueue
  obtain ⟨_, hrest⟩ := List.forall_mem_cons.mp hqueue
  have hstored := ti_stored h
  unfold midOk
  dsimp only
  split_all
  all_goals refine ti_mk ?_ hstored
  all_goals first
    | exact List.forall_mem_cons.mpr ⟨ho, hrest⟩
    | exact List.forall_mem_append.mpr ⟨List.forall_mem_cons.mpr ⟨ho, hrest⟩,
        fun t' ht' => by rw [List.mem_singleton.mp ht']; exact hfork _ _ ho⟩

theorem ti_midErr {s : VMS} {t : Thread} {rest : List Thread} {o : OpOut} {e : XErr}
    (hq : s.queue = t :: rest) (h : TI I s) (ho : I o.d) : TI I (midErr cfg s t rest o e) := by
  have hqueue := ti_queue h
  rw [hq] at hqueue
  obtain ⟨_, hrest⟩ := List.forall_mem_cons.mp hqueue
  have hstored := ti_stored h
  exact ti_mk (s' := midErr cfg s t rest o e) (List.forall_mem_cons.mpr ⟨ho, hrest⟩) hstored

/-- A property of thread data that every instruction of `code` keeps is kept by the loop. -/
theorem ti_step {s : VMS} (hfork : ∀ d fp, I d → I { d with forkPoint := fp })
    (hexec : ∀ c ins d ctr, ins ∈ code → I d → I (execOp c code ins d ctr).d)
    (h : TI I s) : TI I (step cfg code s) := by
  cases hq : s.queue with
  | nil => rw [step_nil hq]; exact h
  | cons t rest =>
    cases hi : code[t.ip]? with
    | none =>
      rw [step_oob hq hi]
      exact h
    | some ins =>
      have hmem : ins ∈ code := List.mem_of_getElem? hi
      have ht : I t.d := h t (by rw [hq]; simp)
      have ho : I (opOut cfg code s t ins).d := hexec _ ins t.d s.ctr hmem ht
      cases he : (opOut cfg code s t ins).err with
      | none =>
        rw [step_ok hq hi he]
        exact ti_advance (ti_midOk hfork hq h ho)
      | some e =>
        cases e with
        | panic site =>
          rw [step_panic hq hi he]
          exact h
        | _ =>
          rw [step_err hq hi he (by intro site hs; cases hs)]
          exact ti_advance (ti_midErr hq h ho)

theorem ti_run (hfork : ∀ d fp, I d → I { d with forkPoint := fp })
    (hexec : ∀ c ins d ctr, ins ∈ code → I d → I (execOp c code ins d ctr).d) :
    ∀ (fuel : Nat) (s : VMS), TI I s → TI I (run cfg code fuel s)
  | 0, _, h => h
  | fuel + 1, s, h => by
    unfold run
    split
    · exact h
    · exact ti_run hfork hexec fuel _ (ti_step hfork hexec h)

end loop

/-! ### G1 — machine values are raw -/

theorem di_fork {P S : SV → Prop} (d : TData) (fp : Nat) (h : DI P S d) :
    DI P S { d with forkPoint := fp } :=
  ⟨h.stack, h.memC, h.memS, h.stK, h.stS, h.recorded, h.logged⟩

theorem di_empty {P S : SV → Prop} : DI P S {} := by
  refine ⟨?_, ?_, ?_, ?_, ?_, ?_, ?_⟩ <;> intro x hx <;> cases hx

/-- G1. One instruction keeps all values of the thread state raw. -/
theorem raw_execOp (c : Ctx) (code : List Disasm.Instr) (ins : Disasm.Instr) (d : TData) (ctr : Nat) :
    P_D Raw d → P_D Raw (execOp c code ins d ctr).d := by
  intro h
  have h' : DI (Pv isLiftedKind) (Pv isLiftedKind) d := P_D_iff.mp h
  exact P_D_iff.mpr (ok_execOp machine_lifted h' (fun _ => ⟨rfl, rfl, rfl⟩)).di

theorem P_S_iff {P : SV → Prop} {s : VMS} : P_S P s ↔ TI (P_D P) s := Iff.rfl

theorem pd_fork {P : SV → Prop} (d : TData) (fp : Nat) (h : P_D P d) : P_D P { d with forkPoint := fp } := h

/-- G1. `P_S Raw` is an invariant of `step`. -/
theorem raw_step (cfg : Cfg) (code : List Disasm.Instr) (s : VMS) :
    P_S Raw s → P_S Raw (step cfg code s) :=
  ti_step pd_fork (fun c ins d ctr _ h => raw_execOp c code ins d ctr h)

theorem raw_run' (cfg : Cfg) (code : List Disasm.Instr) (fuel : Nat) (s : VMS) :
    P_S Raw s → P_S Raw (run cfg code fuel s) :=
  ti_run pd_fork (fun c ins d ctr _ h => raw_execOp c code ins d ctr h) fuel s

/-- G1. Every value of every thread of a run from the initial state is raw. -/
theorem raw_run (cfg : Cfg) (code : List Disasm.Instr) (fuel : Nat) :
    P_S Raw (run cfg code fuel (initVM cfg code)) :=
  raw_run' cfg code fuel _ (ti_init (P_D_iff.mpr di_empty))

/-! ### G2 — no storage instruction ⇒ storage-free values and empty storage -/

/-- the invariant of G2: all values storage-free, and the two storage maps empty -/
abbrev SF (d : TData) : Prop := DI (Pv isStorageKind) (fun _ => False) d

theorem sf_empty_storage {d : TData} (h : SF d) : d.stK = [] ∧ d.stS = [] := by
  constructor
  · cases hk : d.stK with
    | nil => rfl
    | cons q r => exact ((h.stK q (by rw [hk]; simp)).1).elim
  · cases hk : d.stS with
    | nil => rfl
    | cons q r => exact ((h.stS q (by rw [hk]; simp)).1).elim

theorem sf_pd {d : TData} (h : SF d) : P_D StorageFree d :=
  P_D_iff.mpr ⟨h.stack, h.memC, h.memS, fun q hq => (h.stK q hq).1.elim, fun q hq => (h.stS q hq).1.elim,
    h.recorded, h.logged⟩

theorem sf_execOp {code : List Disasm.Instr} (hns : NoStorageOps code) (c : Ctx) (ins : Disasm.Instr)
    (d : TData) (ctr : Nat) (hmem : ins ∈ code) (h : SF d) : SF (execOp c code ins d ctr).d :=
  (ok_execOp machine_storage h (fun hins => by
    rcases hins with hins | hins
    · exact absurd hins (hns ins hmem).1
    · exact absurd hins (hns ins hmem).2)).di

theorem sf_run {code : List Disasm.Instr} (hns : NoStorageOps code) (cfg : Cfg) (fuel : Nat) :
    TI SF (run cfg code fuel (initVM cfg code)) :=
  ti_run di_fork (sf_execOp hns) fuel _ (ti_init di_empty)

/-- G2. Without SLOAD / SSTORE in the code, every value of every thread is storage-free. -/
theorem storageFree_run {cfg : Cfg} {code : List Disasm.Instr} {fuel : Nat} :
    NoStorageOps code → P_S StorageFree (run cfg code fuel (initVM cfg code)) :=
  fun hns t ht => sf_pd (sf_run hns cfg fuel t ht)

/-- G2. … and the storage maps of every thread stay empty. -/
theorem storage_empty_run {cfg : Cfg} {code : List Disasm.Instr} {fuel : Nat} (hns : NoStorageOps code) :
    ∀ t ∈ (run cfg code fuel (initVM cfg code)).queue ++ (run cfg code fuel (initVM cfg code)).stored,
      t.d.stK = [] ∧ t.d.stS = [] :=
  fun t ht => sf_empty_storage (sf_run hns cfg fuel t ht)

/-! ### G3 — program-level corollaries -/

/-- What `all_values` hands over satisfies `Pv p` when the thread state does and the
`storageWrite` wrappers of the storage generations do. -/
theorem allValues_P {p : Kind → Bool} {S : SV → Prop} {d : TData} (h : DI (Pv p) S d)
    (hw : ∀ k v, S k → S v → Pv p (rebuild .storageWrite [] [k, v])) :
    ∀ v ∈ Pipe.allValues d, Pv p v := by
  intro v hv
  simp only [Pipe.allValues, List.mem_append, List.mem_flatMap, List.mem_map, List.mem_reverse,
    List.mem_cons] at hv
  rcases hv with ((((hv | ⟨q, hq, c, hc, rfl⟩) | ⟨q, hq, hv⟩) | ⟨q, hq, g, hg, rfl⟩) | hv) | hv
  · exact h.stack v hv
  · exact h.memC q hq c hc
  · rcases hv with rfl | ⟨c, hc, rfl⟩
    · exact (h.memS q hq).1
    · exact (h.memS q hq).2 c hc
  · rcases hq with hq | hq
    · exact hw _ _ (h.stK q hq).1 ((h.stK q hq).2 g hg)
    · exact hw _ _ (h.stS q hq).1 ((h.stS q hq).2 g hg)
  · exact h.recorded v hv
  · exact h.logged v hv

/-- G3. Every value the machine hands to the type checker is raw. -/
theorem program_values_raw (cfg : Cfg) (code : List Disasm.Instr) (fuel : Nat) :
    ∀ v ∈ (run cfg code fuel (initVM cfg code)).stored.flatMap (fun t => Pipe.allValues t.d), Raw v := by
  intro v hv
  obtain ⟨t, ht, hv⟩ := List.mem_flatMap.mp hv
  have hpd : P_D Raw t.d := raw_run cfg code fuel t (List.mem_append.mpr (Or.inr ht))
  have hdi : DI (Pv isLiftedKind) (Pv isLiftedKind) t.d := P_D_iff.mp hpd
  refine allValues_P hdi (fun k v hk hv => Pv_rebuild.mpr ⟨rfl, ?_⟩) v hv
  intro x hx
  simp only [List.mem_cons, List.not_mem_nil, or_false] at hx
  rcases hx with rfl | rfl
  · exact hk
  · exact hv

/-- G3. Without storage instructions every value handed over is storage-free. -/
theorem program_values_storageFree {cfg : Cfg} {code : List Disasm.Instr} {fuel : Nat}
    (hns : NoStorageOps code) :
    ∀ v ∈ (run cfg code fuel (initVM cfg code)).stored.flatMap (fun t => Pipe.allValues t.d),
      StorageFree v := by
  intro v hv
  obtain ⟨t, ht, hv⟩ := List.mem_flatMap.mp hv
  have hsf : SF t.d := sf_run hns cfg fuel t (List.mem_append.mpr (Or.inr ht))
  exact allValues_P hsf (fun k v hk _ => hk.elim) v hv

/-- the error list `analyze` looks at: the early-exit error if any, else the error buffer -/
def errsOf (s : VMS) : List (Nat × XErr) :=
  match s.aborted with
  | some e => [(0, e)]
  | none => s.errors

theorem analyseProgram_error {h : Lift.HashCtx} {o : Unify.Orders} {cfg : Cfg} {bytes : List Nat}
    {vmFuel uFuel : Nat} {e : Disasm.DErr} (hd : Disasm.disasm bytes = .error e) :
    Pipe.analyseProgram h o cfg bytes vmFuel uFuel = .disasmError e := by
  unfold Pipe.analyseProgram
  rw [hd]

theorem analyseProgram_ok {h : Lift.HashCtx} {o : Unify.Orders} {cfg : Cfg} {bytes : List Nat}
    {vmFuel uFuel : Nat} {code : List Disasm.Instr} (hd : Disasm.disasm bytes = .ok code) :
    Pipe.analyseProgram h o cfg bytes vmFuel uFuel =
      if !(errsOf (run cfg code vmFuel (initVM cfg code))).isEmpty then
        .execErrors (errsOf (run cfg code vmFuel (initVM cfg code)))
      else .analysed (TC.analyse h o uFuel
        ((run cfg code vmFuel (initVM cfg code)).stored.flatMap (fun t => Pipe.allValues t.d))) := by
  unfold Pipe.analyseProgram
  rw [hd]
  rfl

theorem errsOf_clean (cfg : Cfg) (code : List Disasm.Instr) (fuel : Nat) :
    ∀ e ∈ errsOf (run cfg code fuel (initVM cfg code)), e.2.isPanic = false := by
  have hclean := VMNoPanic.run_no_panic cfg code fuel
  intro e he
  unfold errsOf at he
  split at he
  · rename_i x hx
    rw [List.mem_singleton.mp he]
    exact hclean.2 x hx
  · exact hclean.1 e he

/-- G3 (C01). The analysis of a program ends in a disassembly error, in structured (non-panic)
execution errors, or in an analysis whose outcome is a layout, the unifier's step budget running
out, or a structured rendering error — never a lift fault, never another unifier fault. -/
theorem program_total (h : Lift.HashCtx) (o : Unify.Orders) (ho : Unify.OrdersOk o) (cfg : Cfg)
    (bytes : List Nat) (vmFuel uFuel : Nat) :
    match Pipe.analyseProgram h o cfg bytes vmFuel uFuel with
    | .disasmError _ => True
    | .execErrors es => ∀ e ∈ es, e.2.isPanic = false
    | .analysed a =>
      match a.outcome with
      | .layout _ => True
      | .liftFault _ => False
      | .unifyFault e => e = .outOfFuel
      | .renderFault _ => True := by
  cases hd : Disasm.disasm bytes with
  | error e => rw [analyseProgram_error hd]; trivial
  | ok code =>
    rw [analyseProgram_ok hd]
    by_cases hc : (!(errsOf (run cfg code vmFuel (initVM cfg code))).isEmpty) = true
    · rw [if_pos hc]
      exact errsOf_clean cfg code vmFuel
    · rw [if_neg hc]
      exact C01.C01_pipeline_total h o ho uFuel _ (program_values_raw cfg code vmFuel)

/-- shape of a successful analysis -/
theorem analysed_eq {h : Lift.HashCtx} {o : Unify.Orders} {cfg : Cfg} {bytes : List Nat} {vmFuel uFuel : Nat}
    {a : TC.Analysis} (ha : Pipe.analyseProgram h o cfg bytes vmFuel uFuel = .analysed a) :
    ∃ code, Disasm.disasm bytes = .ok code ∧
      a = TC.analyse h o uFuel
        ((run cfg code vmFuel (initVM cfg code)).stored.flatMap (fun t => Pipe.allValues t.d)) := by
  cases hd : Disasm.disasm bytes with
  | error e => rw [analyseProgram_error hd] at ha; cases ha
  | ok code =>
    rw [analyseProgram_ok hd] at ha
    split at ha
    · cases ha
    · injection ha with ha
      exact ⟨code, rfl, ha.symm⟩

/-- G3 (C05). A program without SLOAD / SSTORE gets the empty layout. -/
theorem program_storage_free_empty (h : Lift.HashCtx) (o : Unify.Orders) (cfg : Cfg) (bytes : List Nat)
    (vmFuel uFuel : Nat) (code : List Disasm.Instr) (a : TC.Analysis)
    (l : List (Layout.Entry JsonModel.AbiType))
    (hd : Disasm.disasm bytes = .ok code) (hns : NoStorageOps code)
    (ha : Pipe.analyseProgram h o cfg bytes vmFuel uFuel = .analysed a)
    (hl : a.outcome = .layout l) : l = [] := by
  obtain ⟨code', hd', rfl⟩ := analysed_eq ha
  rw [hd] at hd'
  cases hd'
  exact LiftInv.storage_free_empty h o uFuel _ l (program_values_raw cfg code vmFuel)
    (program_values_storageFree hns) hl

/-- G3 (C12). The layout of a program is sorted. -/
theorem program_sorted (h : Lift.HashCtx) (o : Unify.Orders) (cfg : Cfg) (bytes : List Nat)
    (vmFuel uFuel : Nat) (a : TC.Analysis) (l : List (Layout.Entry JsonModel.AbiType))
    (ha : Pipe.analyseProgram h o cfg bytes vmFuel uFuel = .analysed a)
    (hl : a.outcome = .layout l) : Layout.Sorted l := by
  obtain ⟨code, _, rfl⟩ := analysed_eq ha
  exact C12.C12_sorted h o uFuel _ l hl

/-- G3 (C05). Every slot index of a program's layout is the literal key of a `storageSlot` node of
a lifted value of the run. -/
theorem program_slots_from_accesses (h : Lift.HashCtx) (o : Unify.Orders) (cfg : Cfg) (bytes : List Nat)
    (vmFuel uFuel : Nat) (a : TC.Analysis) (l : List (Layout.Entry JsonModel.AbiType))
    (ha : Pipe.analyseProgram h o cfg bytes vmFuel uFuel = .analysed a)
    (hl : a.outcome = .layout l) :
    ∀ e ∈ l, ∃ code lifted, Disasm.disasm bytes = .ok code ∧
      TC.liftValues h (TC.uniqueSV
        ((run cfg code vmFuel (initVM cfg code)).stored.flatMap (fun t => Pipe.allValues t.d))) = .ok lifted ∧
      ∃ v ∈ lifted, hasConstSlot e.index v = true := by
  intro e he
  obtain ⟨code, hd, rfl⟩ := analysed_eq ha
  obtain ⟨lifted, hlift, hv⟩ := TCSlots.slots_from_slot_nodes h o uFuel _ l hl e he
  exact ⟨code, lifted, hd, hlift, hv⟩

/-! ### Non-vacuity -/

example : NoStorageOps [.push 1 [5], .op 0x01, .op 0x00] := by
  intro ins h
  simp only [List.mem_cons, List.not_mem_nil, or_false] at h
  rcases h with rfl | rfl | rfl
  all_goals
    constructor
    · intro h'; cases h'
    · intro h'; cases h'

example : ¬ NoStorageOps [.push 1 [0], .op 0x54] := fun h => (h (.op 0x54) (by simp)).1 rfl

end SLE.ProgramLevel

section
open SLE SLE.SV SLE.VM SLE.TCSpec
#print axioms SLE.ProgramLevel.raw_execOp
#print axioms SLE.ProgramLevel.raw_step
#print axioms SLE.ProgramLevel.raw_run
#print axioms SLE.ProgramLevel.storageFree_run
#print axioms SLE.ProgramLevel.storage_empty_run
#print axioms SLE.ProgramLevel.program_values_raw
#print axioms SLE.ProgramLevel.program_total
#print axioms SLE.ProgramLevel.program_storage_free_empty
#print axioms SLE.ProgramLevel.program_sorted
#print axioms SLE.ProgramLevel.program_slots_from_accesses
end
