import SLE.Model.Unify
import SLE.Lemmas.DS
import SLE.Lemmas.Merge
/-!
C14 / C13 — the unification loop: `merge` never meets an `Equal`, rounds never panic, the loop's
post-condition (one piece of evidence per class, no unresolved equality), equalities are honoured
and never undone, and termination on packed-free input.
-/
namespace SLE.Unify
open SLE SLE.Containers SLE.Merge
set_option linter.unusedVariables false
set_option linter.unusedSimpArgs false

/-! ## 1. `merge` on `Equal`-free input -/

/-- true unless the expression is `.equal _` -/
def NoEq : TE → Bool
  | .equal _ => false
  | _ => true

/-- The result of a merge carries no `Equal`: neither the expression nor any judgement. -/
def GoodOut (m : MergeOut) : Prop :=
  NoEq m.expr = true ∧ ∀ j ∈ m.judgements, NoEq j.2 = true

theorem out_good (e : TE) (n : Nat) (h : NoEq e = true) : ∃ m, out e n = .ok m ∧ GoodOut m :=
  ⟨_, rfl, h, by simp⟩

theorem packedWord_good (ts : List Span) (s : Bool) (w : Option Nat) (u : WordUse) (p n : Nat) :
    ∃ m, packedWord (.packed ts s) ts w u p n = .ok m ∧ GoodOut m := by
  unfold packedWord
  simp only []
  repeat' split
  all_goals first
    | exact out_good _ _ rfl
    | exact ⟨_, rfl, rfl, by simp [NoEq]⟩

theorem processSpans_fold_good (spans : List (Nat × Nat × Nat)) (xs : List Span) :
    ∀ acc : List (Nat × Nat) × List (Nat × TE), (∀ j ∈ acc.2, NoEq j.2 = true) →
      ∀ j ∈ (xs.foldl (fun (acc : List (Nat × Nat) × List (Nat × TE)) s =>
        let c := corresponding spans s
        match c with
        | [one] => (acc.1 ++ [(s.typ, one.typ)], acc.2)
        | _ => (acc.1, acc.2 ++ [(s.typ, TE.packed (c.map (fun x => ⟨x.typ, x.offset - s.offset, x.size⟩)) false)])) acc).2,
        NoEq j.2 = true := by
  induction xs with
  | nil => intro acc h; simpa using h
  | cons x xs ih =>
    intro acc h
    rw [List.foldl_cons]
    apply ih
    simp only []
    split
    · exact h
    · intro j hj
      rcases List.mem_append.mp hj with hj | hj
      · exact h j hj
      · simp at hj; subst hj; rfl

theorem processSpans_good (spans : List (Nat × Nat × Nat)) (input : List Span) :
    ∀ j ∈ (processSpans spans input).2, NoEq j.2 = true :=
  processSpans_fold_good spans _ _ (by simp)

theorem packedPacked_good (tl : List Span) (sl : Bool) (tr : List Span) (sr : Bool) (n : Nat) :
    ∃ m, packedPacked tl sl tr sr n = .ok m ∧ GoodOut m := by
  unfold packedPacked
  simp only []
  split
  · exact out_good _ _ rfl
  · split
    · exact out_good _ _ rfl
    · refine ⟨_, rfl, rfl, ?_⟩
      intro j hj
      rcases List.mem_append.mp hj with hj | hj
      · exact processSpans_good _ _ j hj
      · exact processSpans_good _ _ j hj

/-- On `Equal`-free input the full `merge` (packed arms included) returns normally and its
output is `Equal`-free. -/
theorem merge_good (l r : TE) (p n : Nat) (hl : NoEq l = true) (hr : NoEq r = true) :
    ∃ m, merge l r p n = .ok m ∧ GoodOut m := by
  unfold merge
  by_cases h : l = r
  · rw [if_pos h]; exact out_good _ _ hl
  · rw [if_neg h]
    cases l <;> simp [NoEq] at hl <;> cases r <;> simp [NoEq] at hr
    all_goals simp only []
    all_goals first
      | exact out_good _ _ rfl
      | exact packedWord_good _ _ _ _ _ _
      | exact packedPacked_good _ _ _ _ _
      | (split <;> exact out_good _ _ rfl)
      | exact ⟨_, rfl, rfl, by simp⟩
      | (repeat' split
         all_goals first
           | exact out_good _ _ rfl
           | exact ⟨_, rfl, rfl, by simp⟩)

/-- 1a. `Equal`-free inputs give an `Equal`-free result and `Equal`-free judgements. -/
theorem merge_no_equal_out (l r : TE) (p n : Nat) (m : MergeOut) (hl : NoEq l = true)
    (hr : NoEq r = true) (h : merge l r p n = .ok m) :
    NoEq m.expr = true ∧ ∀ j ∈ m.judgements, NoEq j.2 = true := by
  obtain ⟨m', h1, h2⟩ := merge_good l r p n hl hr
  rw [h1] at h; injection h with h; subst h; exact h2

/-- 1b. The two `panic!("Equalities should not exist when unifying")` arms are unreachable on
`Equal`-free input, for the full `merge`. -/
theorem merge_no_fault (l r : TE) (p n : Nat) (hl : NoEq l = true) (hr : NoEq r = true) :
    ∃ m, merge l r p n = .ok m := by
  obtain ⟨m, h, _⟩ := merge_good l r p n hl hr
  exact ⟨m, h⟩

/-! ## Generic `foldlM` lemmas in `Except` -/

/-- Total correctness of a fold: every step returns normally, preserves `I`, is `R`-related to
its input and establishes `Q x`; `Q x` is stable under `R`. -/
theorem foldlM_spec {α σ ε : Type} (step : σ → α → Except ε σ) (I : σ → Prop)
    (R : σ → σ → Prop) (Q : α → σ → Prop)
    (hrefl : ∀ s, R s s) (htrans : ∀ a b c, R a b → R b c → R a c)
    (hQ : ∀ x s s', Q x s → R s s' → Q x s') (l : List α)
    (hstep : ∀ s x, x ∈ l → I s → ∃ s', step s x = .ok s' ∧ I s' ∧ R s s' ∧ Q x s') :
    ∀ s, I s → ∃ s', l.foldlM step s = .ok s' ∧ I s' ∧ R s s' ∧ ∀ x ∈ l, Q x s' := by
  induction l with
  | nil => intro s hs; exact ⟨s, rfl, hs, hrefl s, fun x hx => by cases hx⟩
  | cons a l ih =>
    intro s hs
    obtain ⟨s1, e1, i1, r1, q1⟩ := hstep s a (List.mem_cons_self ..) hs
    obtain ⟨s2, e2, i2, r2, q2⟩ :=
      ih (fun s x hx => hstep s x (List.mem_cons_of_mem _ hx)) s1 i1
    refine ⟨s2, ?_, i2, htrans _ _ _ r1 r2, ?_⟩
    · rw [List.foldlM_cons, e1]; exact e2
    · intro x hx
      rcases List.mem_cons.mp hx with rfl | hx
      · exact hQ _ _ _ q1 r2
      · exact q2 x hx

/-- Partial correctness of a fold: whenever a step returns normally it preserves `I`, is
`R`-related to its input and establishes `Q x`. -/
theorem foldlM_rel {α σ ε : Type} (step : σ → α → Except ε σ) (I : σ → Prop)
    (R : σ → σ → Prop) (Q : α → σ → Prop)
    (hrefl : ∀ s, R s s) (htrans : ∀ a b c, R a b → R b c → R a c)
    (hQ : ∀ x s s', Q x s → R s s' → Q x s') (l : List α)
    (hstep : ∀ s x s', x ∈ l → I s → step s x = .ok s' → I s' ∧ R s s' ∧ Q x s') :
    ∀ s s', I s → l.foldlM step s = .ok s' → I s' ∧ R s s' ∧ ∀ x ∈ l, Q x s' := by
  induction l with
  | nil =>
    intro s s' hs h
    injection h with h; subst h
    exact ⟨hs, hrefl s, fun x hx => by cases hx⟩
  | cons a l ih =>
    intro s s' hs h
    rw [List.foldlM_cons] at h
    cases e1 : step s a with
    | error e => rw [e1] at h; cases h
    | ok s1 =>
      rw [e1] at h
      obtain ⟨i1, r1, q1⟩ := hstep s a s1 (List.mem_cons_self ..) hs e1
      obtain ⟨i2, r2, q2⟩ :=
        ih (fun s x s' hx => hstep s x s' (List.mem_cons_of_mem _ hx)) s1 s' i1 h
      refine ⟨i2, htrans _ _ _ r1 r2, ?_⟩
      intro x hx
      rcases List.mem_cons.mp hx with rfl | hx
      · exact hQ _ _ _ q1 r2
      · exact q2 x hx

/-- Invariant of a pure `foldl`. -/
theorem foldl_inv {α σ : Type} (step : σ → α → σ) (I : σ → Prop) (l : List α)
    (hstep : ∀ s x, x ∈ l → I s → I (step s x)) : ∀ s, I s → I (l.foldl step s) := by
  induction l with
  | nil => intro s hs; exact hs
  | cons a l ih =>
    intro s hs
    rw [List.foldl_cons]
    exact ih (fun s x hx => hstep s x (List.mem_cons_of_mem _ hx)) _
      (hstep s a (List.mem_cons_self ..) hs)

/-! ## Inference sets and `dedup` -/

theorem mem_setInsert (s : List TE) (e x : TE) : x ∈ setInsert s e ↔ x ∈ s ∨ x = e := by
  unfold setInsert
  split
  · rename_i h
    have : e ∈ s := by simpa using h
    constructor
    · exact fun h => .inl h
    · rintro (h | rfl)
      · exact h
      · exact this
  · simp

theorem mem_setUnion (a b : List TE) (x : TE) : x ∈ setUnion a b ↔ x ∈ a ∨ x ∈ b := by
  unfold setUnion
  induction b generalizing a with
  | nil => simp
  | cons e b ih =>
    rw [List.foldl_cons, ih, mem_setInsert]
    simp only [List.mem_cons]
    constructor
    · rintro ((h | h) | h)
      · exact .inl h
      · exact .inr (.inl h)
      · exact .inr (.inr h)
    · rintro (h | h | h)
      · exact .inl (.inl h)
      · exact .inl (.inr h)
      · exact .inr h

theorem mem_dedup_step {α : Type} [BEq α] [LawfulBEq α] (l : List α) :
    ∀ acc : List α, ∀ x, x ∈ l.foldl (fun acc x => if acc.contains x then acc else acc ++ [x]) acc ↔
      x ∈ acc ∨ x ∈ l := by
  induction l with
  | nil => simp
  | cons a l ih =>
    intro acc x
    rw [List.foldl_cons, ih]
    by_cases h : acc.contains a = true
    · rw [if_pos h]
      have : a ∈ acc := by simpa using h
      simp only [List.mem_cons]
      constructor
      · rintro (h | h)
        · exact .inl h
        · exact .inr (.inr h)
      · rintro (h | rfl | h)
        · exact .inl h
        · exact .inl this
        · exact .inr h
    · rw [if_neg h]
      simp only [List.mem_append, List.mem_cons, List.mem_singleton, List.not_mem_nil, or_false]
      constructor
      · rintro ((h | h) | h)
        · exact .inl h
        · exact .inr (.inl h)
        · exact .inr (.inr h)
      · rintro (h | h | h)
        · exact .inl (.inl h)
        · exact .inl (.inr h)
        · exact .inr h

theorem mem_dedup {α : Type} [BEq α] [LawfulBEq α] (l : List α) (x : α) : x ∈ dedup l ↔ x ∈ l := by
  unfold dedup
  rw [mem_dedup_step]; simp

theorem dedup_nil {α : Type} [BEq α] : dedup ([] : List α) = [] := rfl

/-! ## Order functions -/

/-- The only assumption on the iteration orders: each is a permutation of its input. -/
def OrdersOk (o : Orders) : Prop :=
  (∀ l, (o.vars l).Perm l) ∧ (∀ l, (o.tes l).Perm l) ∧ (∀ l, (o.eqs l).Perm l) ∧
    (∀ l, (o.judgements l).Perm l)

theorem perm_nil_eq {α : Type} {l : List α} (h : l.Perm []) : l = [] := List.Perm.eq_nil h

/-! ## 2. The forest invariant -/

/-- No stored inference set contains an `Equal` (C14: no unresolved equality). -/
def DataNoEq (f : Forest) : Prop := ∀ k d, f.data.get k = some d → ∀ e ∈ d, NoEq e = true

/-- Data is stored only at present roots. -/
def DataAtRoots (f : Forest) : Prop :=
  ∀ k d, f.data.get k = some d → f.mem k = true ∧ DS.rootOf f k = k

/-- The invariant of the unification loop. -/
def UInv (f : Forest) : Prop := DS.Inv f ∧ DataNoEq f ∧ DataAtRoots f

/-- Classes only ever merge. -/
def RootsMono (f f' : Forest) : Prop :=
  ∀ a b, DS.rootOf f a = DS.rootOf f b → DS.rootOf f' a = DS.rootOf f' b

theorem RootsMono.refl (f : Forest) : RootsMono f f := fun _ _ h => h
theorem RootsMono.trans {a b c : Forest} (h1 : RootsMono a b) (h2 : RootsMono b c) :
    RootsMono a c := fun x y h => h2 x y (h1 x y h)
theorem RootsMono.of_eq {f f' : Forest} (h : ∀ w, DS.rootOf f' w = DS.rootOf f w) :
    RootsMono f f' := fun a b hab => by rw [h a, h b]; exact hab

theorem mem_rootOf {f : Forest} (h : DS.Inv f) {v : Nat} (hv : f.mem v = true) :
    f.mem (DS.rootOf f v) = true := by
  obtain ⟨_, _, rank, hc⟩ := h
  have := (rootOfMap_rel hc v).end_root_of_present hc hv
  simp [DS.mem, DS.rootOf, this]

/-- The root of a touched element is present afterwards. -/
theorem mem_root_touch {f f' : Forest} (h : DS.Inv f) (v : Nat)
    (hm : ∀ w, (f.mem w = true ∨ w = v) → f'.mem w = true) :
    f'.mem (DS.rootOf f v) = true := by
  apply hm
  cases hv : f.mem v with
  | true => exact .inl (mem_rootOf h hv)
  | false =>
    have : f.reps.get v = none := by
      simp only [DS.mem] at hv
      cases h' : f.reps.get v with
      | none => rfl
      | some _ => rw [h'] at hv; cases hv
    exact .inr (DS.rootOf_absent h this)

theorem uinv_empty : UInv ({} : Forest) := by
  refine ⟨DS.inv_empty, ?_, ?_⟩
  · intro k d h
    have : ({} : Forest).data.get k = none := DS.get_empty k
    rw [this] at h; cases h
  · intro k d h
    have : ({} : Forest).data.get k = none := DS.get_empty k
    rw [this] at h; cases h

theorem uinv_insert {f : Forest} (h : UInv f) (v : Nat) :
    UInv (f.insert v) ∧ (∀ w, DS.rootOf (f.insert v) w = DS.rootOf f w) ∧
      (f.insert v).data = f.data := by
  obtain ⟨hi, hn, hr⟩ := h
  obtain ⟨i1, i2, _, i4, i5⟩ := DS.insert_spec f v hi
  refine ⟨⟨i1, ?_, ?_⟩, i2, i5⟩
  · intro k d hk; rw [i5] at hk; exact hn k d hk
  · intro k d hk; rw [i5] at hk
    obtain ⟨a, b⟩ := hr k d hk
    exact ⟨by rw [i4, a]; rfl, by rw [i2]; exact b⟩

theorem uinv_setData {f : Forest} (h : UInv f) (v : Nat) (d : List TE)
    (hd : ∀ e ∈ d, NoEq e = true) :
    ∃ f', f.setData v d = .ok f' ∧ UInv f' ∧ (∀ w, DS.rootOf f' w = DS.rootOf f w) ∧
      (∀ k, f'.data.get k = if k = DS.rootOf f v then some d else f.data.get k) := by
  obtain ⟨hi, hn, hr⟩ := h
  obtain ⟨f', e, i1, i2, i3, i4⟩ := DS.setData_spec f v d hi
  refine ⟨f', e, ⟨i1, ?_, ?_⟩, i2, i3⟩
  · intro k d' hk; rw [i3] at hk
    split at hk
    · injection hk with hk; subst hk; exact hd
    · exact hn k d' hk
  · intro k d' hk; rw [i3] at hk
    split at hk
    · rename_i hk'; subst hk'
      exact ⟨mem_root_touch hi v (fun w hw => by rw [i4]; rcases hw with hw | hw <;> simp [hw]), by rw [i2]; exact DS.rootOf_idem hi v⟩
    · obtain ⟨a, b⟩ := hr k d' hk
      exact ⟨by rw [i4, a]; rfl, by rw [i2]; exact b⟩

theorem uinv_addData {f : Forest} (h : UInv f) (v : Nat) (d : List TE)
    (hd : ∀ e ∈ d, NoEq e = true) :
    ∃ f', f.addData setM v d = .ok f' ∧ UInv f' ∧ (∀ w, DS.rootOf f' w = DS.rootOf f w) ∧
      (∀ k, f'.data.get k =
        if k = DS.rootOf f v then some (setUnion (DS.dataAt setM f (DS.rootOf f v)) d)
        else f.data.get k) := by
  obtain ⟨hi, hn, hr⟩ := h
  obtain ⟨f', e, i1, i2, i3, i4⟩ := DS.addData_spec setM f v d hi
  refine ⟨f', e, ⟨i1, ?_, ?_⟩, i2, i3⟩
  · intro k d' hk; rw [i3] at hk
    split at hk
    · injection hk with hk; subst hk
      intro x hx
      rcases (mem_setUnion _ _ _).mp hx with hx | hx
      · unfold DS.dataAt at hx
        cases hg : f.data.get (DS.rootOf f v) with
        | none => rw [hg] at hx; cases hx
        | some d0 => rw [hg] at hx; exact hn _ d0 hg x hx
      · exact hd x hx
    · exact hn k d' hk
  · intro k d' hk; rw [i3] at hk
    split at hk
    · rename_i hk'; subst hk'
      exact ⟨mem_root_touch hi v (fun w hw => by rw [i4]; rcases hw with hw | hw <;> simp [hw]), by rw [i2]; exact DS.rootOf_idem hi v⟩
    · obtain ⟨a, b⟩ := hr k d' hk
      exact ⟨by rw [i4, a]; rfl, by rw [i2]; exact b⟩

theorem dataAt_noEq {f : Forest} (hn : DataNoEq f) (k : Nat) :
    ∀ e ∈ DS.dataAt setM f k, NoEq e = true := by
  intro x hx
  unfold DS.dataAt at hx
  cases hg : f.data.get k with
  | none => rw [hg] at hx; cases hx
  | some d0 => rw [hg] at hx; exact hn _ d0 hg x hx

theorem uinv_union {f : Forest} (h : UInv f) (a b : Nat) :
    ∃ f', f.union setM a b = .ok f' ∧ UInv f' ∧ RootsMono f f' ∧
      DS.rootOf f' a = DS.rootOf f' b := by
  obtain ⟨hi, hn, hr⟩ := h
  obtain ⟨f', e, i1, i2, i3, i4⟩ := DS.union_spec setM f a b hi
  by_cases hab : DS.rootOf f a = DS.rootOf f b
  · obtain ⟨j1, j2⟩ := i3 hab
    refine ⟨f', e, ⟨i1, ?_, ?_⟩, RootsMono.of_eq j1, by rw [j1, j1]; exact hab⟩
    · intro k d hk; rw [j2] at hk; exact hn k d hk
    · intro k d hk; rw [j2] at hk
      obtain ⟨x, y⟩ := hr k d hk
      exact ⟨by rw [i2, x]; rfl, by rw [j1]; exact y⟩
  · obtain ⟨j1, j2⟩ := i4 hab
    have hra : DS.rootOf f' (DS.rootOf f a) = DS.rootOf f a := by
      rw [j1, DS.rootOf_idem hi]; split <;> rfl
    refine ⟨f', e, ⟨i1, ?_, ?_⟩, ?_, ?_⟩
    · intro k d hk; rw [j2] at hk
      split at hk
      · injection hk with hk; subst hk
        intro x hx
        rcases (mem_setUnion _ _ _).mp hx with hx | hx
        · exact dataAt_noEq hn _ x hx
        · exact dataAt_noEq hn _ x hx
      · split at hk
        · cases hk
        · exact hn k d hk
    · intro k d hk; rw [j2] at hk
      split at hk
      · rename_i hk'; subst hk'
        refine ⟨?_, hra⟩
        exact mem_root_touch hi a (fun w hw => by rw [i2]; rcases hw with hw | hw <;> simp [hw])
      · split at hk
        · cases hk
        · rename_i h1 h2
          obtain ⟨x, y⟩ := hr k d hk
          refine ⟨by rw [i2, x]; rfl, ?_⟩
          rw [j1, y, if_neg h2]
    · intro x y hxy
      rw [j1, j1, hxy]
    · rw [j1, j1, if_neg hab, if_pos rfl]

theorem uinv_sets {f : Forest} (h : UInv f) :
    UInv (f.sets setM).1 ∧ (∀ w, DS.rootOf (f.sets setM).1 w = DS.rootOf f w) ∧
      (∀ p ∈ (f.sets setM).2, (∀ e ∈ p.2, NoEq e = true) ∧
        (f.sets setM).1.data.get p.1 = some p.2 ∧ DS.rootOf f p.1 = p.1) ∧
      (∀ k d, (f.sets setM).1.data.get k = some d → (k, d) ∈ (f.sets setM).2) ∧
      ((f.sets setM).2.map (·.1)).Nodup := by
  obtain ⟨hi, hn, hr⟩ := h
  obtain ⟨f1, l, e, i1, i2, i3, _, i5, i6, i7⟩ := DS.sets_spec setM f hi
  rw [e]
  simp only []
  refine ⟨⟨i1, ?_, ?_⟩, i3, ?_, ?_, i5⟩
  · intro k d hk; rw [i7] at hk
    split at hk
    · injection hk with hk; subst hk
      intro x hx
      cases hg : f.data.get k with
      | none => rw [hg] at hx; cases hx
      | some d0 => rw [hg] at hx; exact hn _ d0 hg x hx
    · exact hn k d hk
  · intro k d hk; rw [i7] at hk
    split at hk
    · rename_i hroot
      have := (DS.isRoot_iff hi k).mp hroot
      exact ⟨by simp only [DS.mem, i2]; exact this.1, by rw [i3]; exact this.2⟩
    · obtain ⟨a, b⟩ := hr k d hk
      exact ⟨by simp only [DS.mem, i2]; exact a, by rw [i3]; exact b⟩
  · rintro ⟨k, d⟩ hp
    obtain ⟨h1, h2⟩ := (i6 k d).mp hp
    refine ⟨?_, ?_, ((DS.isRoot_iff hi k).mp h1).2⟩
    · subst h2
      intro x hx
      cases hg : f.data.get k with
      | none => rw [hg] at hx; cases hx
      | some d0 => rw [hg] at hx; exact hn _ d0 hg x hx
    · rw [i7, if_pos h1, h2]
  · intro k d hk
    rw [i7] at hk
    split at hk
    · rename_i hroot
      injection hk with hk
      exact (i6 k d).mpr ⟨hroot, hk.symm⟩
    · rename_i hroot
      obtain ⟨a, b⟩ := hr k d hk
      exact absurd ((DS.isRoot_iff hi k).mpr ⟨a, b⟩) hroot

/-! ### `initForest` -/

/-- One step of the inner loop of `initForest`. -/
def initStep (v : Nat) (f : Forest) (e : TE) : Except UFault Forest :=
  match e with
  | .equal id => (match f.union setM v id with | .ok f' => .ok f' | .error x => .error (.forest x))
  | e => (match f.addData setM v [e] with | .ok f' => .ok f' | .error x => .error (.forest x))

theorem initForest_eq (o : Orders) (vars : List Nat) (infs : Nat → List TE) :
    initForest o vars infs =
      (o.vars vars).foldlM (fun (f : Forest) v => (o.tes (infs v)).foldlM (initStep v) f)
        ((o.vars vars).foldl (fun f v => f.insert v) {}) := rfl

theorem initStep_spec {f : Forest} (h : UInv f) (v : Nat) (e : TE) :
    ∃ f', initStep v f e = .ok f' ∧ UInv f' ∧ RootsMono f f' ∧
      (∀ id, e = .equal id → DS.rootOf f' v = DS.rootOf f' id) := by
  have hadd : ∀ e : TE, NoEq e = true → ∃ f', (match f.addData setM v [e] with
      | .ok f' => (.ok f' : Except UFault Forest) | .error x => .error (.forest x)) = .ok f' ∧
      UInv f' ∧ RootsMono f f' := by
    intro e he
    obtain ⟨f', e1, i1, i2, _⟩ := uinv_addData h v [e] (by simpa using he)
    exact ⟨f', by rw [e1], i1, RootsMono.of_eq i2⟩
  have hstep : ∀ e : TE, NoEq e = true → initStep v f e = (match f.addData setM v [e] with
      | .ok f' => (.ok f' : Except UFault Forest) | .error x => .error (.forest x)) := by
    intro e he
    cases e <;> first | rfl | cases he
  cases he : NoEq e with
  | true =>
    obtain ⟨f', e1, i1, i2⟩ := hadd e he
    rw [hstep e he]
    exact ⟨f', e1, i1, i2, fun id hid => by subst hid; cases he⟩
  | false =>
    cases e <;> try (cases he)
    rename_i id
    obtain ⟨f', e1, i1, i2, i3⟩ := uinv_union h v id
    refine ⟨f', by simp only [initStep, e1], i1, i2, ?_⟩
    intro id' hid; injection hid with hid; subst hid; exact i3

theorem insertAll_uinv (vs : List Nat) {f : Forest} (h : UInv f) :
    UInv (vs.foldl (fun f v => f.insert v) f) ∧
      (∀ w, DS.rootOf (vs.foldl (fun f v => f.insert v) f) w = DS.rootOf f w) ∧
      (vs.foldl (fun f v => f.insert v) f).data = f.data := by
  induction vs generalizing f with
  | nil => exact ⟨h, fun _ => rfl, rfl⟩
  | cons v vs ih =>
    rw [List.foldl_cons]
    obtain ⟨a, b, c⟩ := uinv_insert h v
    obtain ⟨a', b', c'⟩ := ih a
    exact ⟨a', fun w => by rw [b', b], by rw [c', c]⟩

/-- Full specification of `initForest`: it returns normally, establishes the invariant, and every
`Equal` in the input is honoured. -/
theorem initForest_spec (o : Orders) (vars : List Nat) (infs : Nat → List TE) :
    ∃ f, initForest o vars infs = .ok f ∧ UInv f ∧
      ∀ v ∈ o.vars vars, ∀ id, .equal id ∈ o.tes (infs v) → DS.rootOf f v = DS.rootOf f id := by
  rw [initForest_eq]
  have h0 := (insertAll_uinv (o.vars vars) uinv_empty).1
  obtain ⟨f, e, i, _, q⟩ := foldlM_spec
    (fun (f : Forest) v => (o.tes (infs v)).foldlM (initStep v) f) UInv RootsMono
    (fun v f => ∀ id, .equal id ∈ o.tes (infs v) → DS.rootOf f v = DS.rootOf f id)
    RootsMono.refl (fun _ _ _ => RootsMono.trans) (fun v s s' hq hr id hid => hr _ _ (hq id hid))
    (o.vars vars)
    (by
      intro s v _ hs
      obtain ⟨s', e, i, r, q⟩ := foldlM_spec (initStep v) UInv RootsMono
        (fun e f => ∀ id, e = .equal id → DS.rootOf f v = DS.rootOf f id)
        RootsMono.refl (fun _ _ _ => RootsMono.trans)
        (fun e s s' hq hr id hid => hr _ _ (hq id hid)) (o.tes (infs v))
        (fun s e _ hs => initStep_spec hs v e) s hs
      exact ⟨s', e, i, r, fun id hid => q _ hid id rfl⟩)
    _ h0
  exact ⟨f, e, i, q⟩

/-- 2a. `initForest` establishes the invariant (`Equal` is routed to `union`, never stored). -/
theorem initForest_inv {o : Orders} {vars : List Nat} {infs : Nat → List TE} {f : Forest}
    (ho : OrdersOk o) (h : initForest o vars infs = .ok f) : UInv f := by
  obtain ⟨f', e, i, _⟩ := initForest_spec o vars infs
  rw [e] at h; injection h with h; subst h; exact i

/-- 2b. `initForest` never faults. -/
theorem initForest_ok (o : Orders) (vars : List Nat) (infs : Nat → List TE) :
    ∃ f, initForest o vars infs = .ok f := by
  obtain ⟨f, e, _⟩ := initForest_spec o vars infs
  exact ⟨f, e⟩

/-! ### `foldClass` -/

abbrev FCAcc := TE × Nat × List (Nat × Nat) × List (Nat × TE) × List Nat

def fcStep (root : Nat) (acc : FCAcc) (e : TE) : Except UFault FCAcc :=
  let (cur, next, eqs, js, nvs) := acc
  match merge cur e root next with
  | .error x => .error (.merge x)
  | .ok m => .ok (m.expr, m.next, eqs ++ m.eqs, js ++ m.judgements, nvs ++ m.newVars)

theorem foldClass_cons (root : Nat) (first : TE) (rest : List TE) (next : Nat) :
    foldClass root (first :: rest) next = rest.foldlM (fcStep root) (first, next, [], [], []) := rfl

theorem foldClass_single (root : Nat) (e : TE) (next : Nat) :
    foldClass root [e] next = .ok (e, next, [], [], []) := rfl

theorem foldClass_good (root : Nat) (ev : List TE) (next : Nat) (hne : ev ≠ [])
    (hev : ∀ e ∈ ev, NoEq e = true) :
    ∃ r : FCAcc, foldClass root ev next = .ok r ∧ NoEq r.1 = true ∧
      ∀ j ∈ r.2.2.2.1, NoEq j.2 = true := by
  cases ev with
  | nil => exact absurd rfl hne
  | cons first rest =>
    rw [foldClass_cons]
    obtain ⟨r, e, i, _⟩ := foldlM_spec (fcStep root)
      (fun (a : FCAcc) => NoEq a.1 = true ∧ ∀ j ∈ a.2.2.2.1, NoEq j.2 = true)
      (fun _ _ => True) (fun _ _ => True) (fun _ => trivial) (fun _ _ _ _ _ => trivial)
      (fun _ _ _ _ _ => trivial) rest
      (by
        rintro ⟨cur, nx, eqs, js, nvs⟩ e he ⟨h1, h2⟩
        obtain ⟨m, hm, g1, g2⟩ := merge_good cur e root nx h1
          (hev e (List.mem_cons_of_mem _ he))
        refine ⟨(m.expr, m.next, eqs ++ m.eqs, js ++ m.judgements, nvs ++ m.newVars),
          by simp only [fcStep, hm], ⟨g1, ?_⟩, trivial, trivial⟩
        intro j hj
        rcases List.mem_append.mp hj with hj | hj
        · exact h2 j hj
        · exact g2 j hj)
      (first, next, [], [], []) ⟨hev _ (List.mem_cons_self ..), by simp⟩
    exact ⟨r, e, i⟩

/-! ### One round, split into its loop body and its tail -/

def roundStep (o : Orders) (acc : RoundAcc) (p : Nat × List TE) : Except UFault RoundAcc :=
  let (root, infs) := p
  let acc := { acc with polls := acc.polls + 1 }
  if infs.isEmpty then .ok acc
  else
    let ev := o.tes infs
    match foldClass root ev acc.next with
    | .error e => .error e
    | .ok (cur, next', eqs, js, nvs) =>
      match acc.forest.setData root [cur] with
      | .error x => .error (.forest x)
      | .ok f' =>
        .ok { acc with forest := f', next := next', eqs := acc.eqs ++ eqs,
                       judgements := acc.judgements ++ js, newVars := acc.newVars ++ nvs,
                       progress := acc.progress || ev.length > 1, counter := acc.counter + 1 }

def unionStep (f : Forest) (p : Nat × Nat) : Except UFault Forest :=
  match f.union setM p.1 p.2 with | .ok f' => .ok f' | .error x => .error (UFault.forest x)

def judgeStep (f : Forest) (p : Nat × TE) : Except UFault Forest :=
  match f.addData setM p.1 [p.2] with | .ok f' => .ok f' | .error x => .error (UFault.forest x)

def roundTail (o : Orders) (acc : RoundAcc) : Except UFault RoundAcc :=
  match (o.eqs (dedup acc.eqs)).foldlM unionStep
      ((o.vars (dedup acc.newVars)).foldl (fun f v => f.insert v) acc.forest) with
  | .error e => .error e
  | .ok f3 =>
    match (o.judgements (dedup acc.judgements)).foldlM judgeStep f3 with
    | .error e => .error e
    | .ok f4 => .ok { acc with forest := f4 }

def roundLoop (o : Orders) (f : Forest) (next counter : Nat) : Except UFault RoundAcc :=
  (f.sets setM).2.foldlM (roundStep o)
    { forest := (f.sets setM).1, next := next, counter := counter }

theorem round_eq (o : Orders) (f : Forest) (next counter : Nat) :
    round o f next counter =
      (match roundLoop o f next counter with
       | .error e => .error e
       | .ok acc => roundTail o acc) := by
  rfl

theorem roundStep_cases {o : Orders} {acc acc' : RoundAcc} {p : Nat × List TE}
    (h : roundStep o acc p = .ok acc') :
    (p.2 = [] ∧ acc' = { acc with polls := acc.polls + 1 }) ∨
    (p.2 ≠ [] ∧ ∃ cur nx eqs js nvs f',
      foldClass p.1 (o.tes p.2) acc.next = .ok (cur, nx, eqs, js, nvs) ∧
      acc.forest.setData p.1 [cur] = .ok f' ∧
      acc' = { forest := f', next := nx, eqs := acc.eqs ++ eqs,
               judgements := acc.judgements ++ js, newVars := acc.newVars ++ nvs,
               progress := acc.progress || decide ((o.tes p.2).length > 1),
               polls := acc.polls + 1, counter := acc.counter + 1 }) := by
  obtain ⟨root, infs⟩ := p
  unfold roundStep at h
  simp only [] at h
  cases infs with
  | nil =>
    left
    simp only [List.isEmpty_nil, if_true] at h
    injection h with h
    exact ⟨rfl, h.symm⟩
  | cons x xs =>
    right
    refine ⟨by simp, ?_⟩
    simp only [List.isEmpty_cons, Bool.false_eq_true, if_false] at h
    split at h
    · cases h
    · rename_i cur nx eqs js nvs hfc
      split at h
      · cases h
      · rename_i f' hsd
        injection h with h
        exact ⟨cur, nx, eqs, js, nvs, f', hfc, hsd, h.symm⟩

theorem roundStep_ok {o : Orders} (ho : OrdersOk o) {acc : RoundAcc} {p : Nat × List TE}
    (hi : DS.Inv acc.forest) (hp : ∀ e ∈ p.2, NoEq e = true) :
    ∃ acc', roundStep o acc p = .ok acc' := by
  obtain ⟨root, infs⟩ := p
  unfold roundStep
  simp only []
  cases infs with
  | nil => exact ⟨_, rfl⟩
  | cons x xs =>
    simp only [List.isEmpty_cons, Bool.false_eq_true, if_false]
    have hperm := ho.2.1 (x :: xs)
    have hne : o.tes (x :: xs) ≠ [] := by
      intro h
      have := hperm.length_eq
      rw [h] at this; simp at this
    obtain ⟨⟨cur, nx, eqs, js, nvs⟩, e1, _, _⟩ := foldClass_good root (o.tes (x :: xs)) acc.next hne
      (fun e he => hp e (hperm.mem_iff.mp he))
    rw [e1]
    simp only []
    obtain ⟨f', e2, _⟩ := DS.setData_spec acc.forest root [cur] hi
    rw [e2]
    exact ⟨_, rfl⟩

/-- Loop invariant of the round's fold over the classes. -/
def LoopI (acc : RoundAcc) : Prop :=
  UInv acc.forest ∧ ∀ j ∈ acc.judgements, NoEq j.2 = true

/-- Same roots. -/
def SameRoots (f f' : Forest) : Prop := ∀ w, DS.rootOf f' w = DS.rootOf f w

theorem SameRoots.refl (f : Forest) : SameRoots f f := fun _ => rfl
theorem SameRoots.trans {a b c : Forest} (h1 : SameRoots a b) (h2 : SameRoots b c) :
    SameRoots a c := fun w => by rw [h2 w, h1 w]

theorem roundStep_inv {o : Orders} (ho : OrdersOk o) {acc : RoundAcc} {p : Nat × List TE}
    (hi : LoopI acc) (hp : ∀ e ∈ p.2, NoEq e = true) :
    ∃ acc', roundStep o acc p = .ok acc' ∧ LoopI acc' ∧ SameRoots acc.forest acc'.forest := by
  obtain ⟨acc', h⟩ := roundStep_ok ho hi.1.1 hp
  refine ⟨acc', h, ?_⟩
  rcases roundStep_cases h with ⟨_, rfl⟩ | ⟨hne, cur, nx, eqs, js, nvs, f', h1, h2, rfl⟩
  · exact ⟨hi, SameRoots.refl _⟩
  · have hperm := ho.2.1 p.2
    have hne' : o.tes p.2 ≠ [] := by
      intro h
      have := hperm.length_eq
      rw [h] at this
      exact hne (List.eq_nil_of_length_eq_zero this.symm)
    obtain ⟨r, e1, g1, g2⟩ := foldClass_good p.1 (o.tes p.2) acc.next hne'
      (fun e he => hp e (hperm.mem_iff.mp he))
    rw [h1] at e1; injection e1 with e1; subst e1
    obtain ⟨f'', e2, u1, u2, _⟩ := uinv_setData hi.1 p.1 [cur] (by simpa using g1)
    rw [h2] at e2; injection e2 with e2; subst e2
    refine ⟨⟨u1, ?_⟩, u2⟩
    intro j hj
    rcases List.mem_append.mp hj with hj | hj
    · exact hi.2 j hj
    · exact g2 j hj

theorem roundLoop_inv {o : Orders} (ho : OrdersOk o) {f : Forest} (h : UInv f)
    (next counter : Nat) :
    ∃ acc, roundLoop o f next counter = .ok acc ∧ LoopI acc ∧ SameRoots f acc.forest := by
  obtain ⟨s1, s2, s3, _⟩ := uinv_sets h
  obtain ⟨acc, e, i, r, _⟩ := foldlM_spec (roundStep o) LoopI
    (fun a b => SameRoots a.forest b.forest) (fun _ _ => True)
    (fun _ => SameRoots.refl _) (fun _ _ _ => SameRoots.trans) (fun _ _ _ _ _ => trivial)
    (f.sets setM).2
    (fun acc p hp hi => by
      obtain ⟨acc', a, b, c⟩ := roundStep_inv ho hi (s3 p hp).1
      exact ⟨acc', a, b, c, trivial⟩)
    { forest := (f.sets setM).1, next := next, counter := counter } ⟨s1, by simp⟩
  exact ⟨acc, e, i, fun w => by rw [r w]; exact s2 w⟩

theorem unionStep_spec {f : Forest} (h : UInv f) (p : Nat × Nat) :
    ∃ f', unionStep f p = .ok f' ∧ UInv f' ∧ RootsMono f f' ∧
      DS.rootOf f' p.1 = DS.rootOf f' p.2 := by
  obtain ⟨f', e, a, b, c⟩ := uinv_union h p.1 p.2
  exact ⟨f', by simp only [unionStep, e], a, b, c⟩

theorem judgeStep_spec {f : Forest} (h : UInv f) (p : Nat × TE) (hp : NoEq p.2 = true) :
    ∃ f', judgeStep f p = .ok f' ∧ UInv f' ∧ SameRoots f f' := by
  obtain ⟨f', e, a, b, _⟩ := uinv_addData h p.1 [p.2] (by simpa using hp)
  exact ⟨f', by simp only [judgeStep, e], a, b⟩

theorem roundTail_spec {o : Orders} (ho : OrdersOk o) {acc : RoundAcc} (hi : LoopI acc) :
    ∃ f4, roundTail o acc = .ok { acc with forest := f4 } ∧ UInv f4 ∧
      RootsMono acc.forest f4 ∧ ∀ p ∈ acc.eqs, DS.rootOf f4 p.1 = DS.rootOf f4 p.2 := by
  obtain ⟨u2, r2, _⟩ := insertAll_uinv (o.vars (dedup acc.newVars)) hi.1
  obtain ⟨f3, e3, u3, r3, q3⟩ := foldlM_spec unionStep UInv RootsMono
    (fun p f => DS.rootOf f p.1 = DS.rootOf f p.2) RootsMono.refl (fun _ _ _ => RootsMono.trans)
    (fun p s s' hq hr => hr _ _ hq) (o.eqs (dedup acc.eqs))
    (fun s p _ hs => unionStep_spec hs p) _ u2
  obtain ⟨f4, e4, u4, r4, _⟩ := foldlM_spec judgeStep UInv SameRoots (fun _ _ => True)
    SameRoots.refl (fun _ _ _ => SameRoots.trans) (fun _ _ _ _ _ => trivial)
    (o.judgements (dedup acc.judgements))
    (fun s p hp hs => by
      have : p ∈ acc.judgements := (mem_dedup _ _).mp ((ho.2.2.2 _).mem_iff.mp hp)
      obtain ⟨s', a, b, c⟩ := judgeStep_spec hs p (hi.2 p this)
      exact ⟨s', a, b, c, trivial⟩) f3 u3
  refine ⟨f4, ?_, u4, ?_, ?_⟩
  · unfold roundTail; rw [e3]; simp only []; rw [e4]
  · exact (RootsMono.of_eq r2).trans (r3.trans (RootsMono.of_eq r4))
  · intro p hp
    have : p ∈ o.eqs (dedup acc.eqs) := (ho.2.2.1 _).mem_iff.mpr ((mem_dedup _ _).mpr hp)
    rw [r4, r4]; exact q3 p this

/-- Full specification of one round: it returns normally, preserves the invariant, never
splits a class, and unifies every pair of component variables it emitted. -/
theorem round_spec {o : Orders} (ho : OrdersOk o) {f : Forest} (h : UInv f) (next counter : Nat) :
    ∃ acc, round o f next counter = .ok acc ∧ UInv acc.forest ∧ RootsMono f acc.forest ∧
      ∀ p ∈ acc.eqs, DS.rootOf acc.forest p.1 = DS.rootOf acc.forest p.2 := by
  obtain ⟨acc, e, i, r⟩ := roundLoop_inv ho h next counter
  obtain ⟨f4, e4, u4, r4, q4⟩ := roundTail_spec ho i
  refine ⟨{ acc with forest := f4 }, ?_, u4, (RootsMono.of_eq r).trans r4, q4⟩
  rw [round_eq, e]; exact e4

/-- 2c. A round preserves the invariant and never panics (no forest fault, no merge fault). -/
theorem round_inv {o : Orders} {f : Forest} {next counter : Nat} (ho : OrdersOk o) (h : UInv f) :
    (∀ acc, round o f next counter = .ok acc → UInv acc.forest) ∧
    (∀ e, round o f next counter = .error e → False) := by
  obtain ⟨acc, e, i, _⟩ := round_spec ho h next counter
  constructor
  · intro acc' h'; rw [e] at h'; injection h' with h'; subst h'; exact i
  · intro e' h'; rw [e] at h'; cases h'

/-- 4c. Component variables of mappings / arrays that met in a class are unified in the next
forest. -/
theorem round_emitted_eqs {o : Orders} {f : Forest} {next counter : Nat} {acc : RoundAcc}
    (ho : OrdersOk o) (h : UInv f) (hr : round o f next counter = .ok acc) :
    ∀ p ∈ acc.eqs, DS.rootOf acc.forest p.1 = DS.rootOf acc.forest p.2 := by
  obtain ⟨acc', e, _, _, q⟩ := round_spec ho h next counter
  rw [e] at hr; injection hr with hr; subst hr; exact q

/-! ## 3. Post-condition of a finished unification -/

/-- Every class holds at most one piece of evidence. -/
def Single (f : Forest) : Prop := ∀ k d, f.data.get k = some d → d.length ≤ 1

theorem loop_progress_mono (o : Orders) (l : List (Nat × List TE)) :
    ∀ acc acc', l.foldlM (roundStep o) acc = .ok acc' → acc.progress = true →
      acc'.progress = true := by
  intro acc acc' h
  have := foldlM_rel (roundStep o) (fun _ => True)
    (fun a b => a.progress = true → b.progress = true) (fun _ _ => True)
    (fun _ h => h) (fun _ _ _ h1 h2 h => h2 (h1 h)) (fun _ _ _ _ _ => trivial) l
    (fun s x s' _ _ hs => by
      refine ⟨trivial, ?_, trivial⟩
      rcases roundStep_cases hs with ⟨_, rfl⟩ | ⟨_, cur, nx, eqs, js, nvs, f', _, _, rfl⟩
      · exact fun h => h
      · intro h; simp [h])
    acc acc' trivial h
  exact this.2.1

theorem loop_single {o : Orders} (ho : OrdersOk o) (l : List (Nat × List TE)) :
    ∀ acc acc', DS.Inv acc.forest →
      (∀ k d, acc.forest.data.get k = some d → d.length ≤ 1 ∨ (k, d) ∈ l) →
      (∀ p ∈ l, DS.rootOf acc.forest p.1 = p.1) →
      l.foldlM (roundStep o) acc = .ok acc' → acc'.progress = false →
      Single acc'.forest ∧ acc'.eqs = acc.eqs ∧ acc'.judgements = acc.judgements ∧
        acc'.newVars = acc.newVars := by
  induction l with
  | nil =>
    intro acc acc' hi hP hR h hp
    injection h with h; subst h
    refine ⟨?_, rfl, rfl, rfl⟩
    intro k d hk
    rcases hP k d hk with h | h
    · exact h
    · cases h
  | cons p rest ih =>
    intro acc acc' hi hP hR h hp
    rw [List.foldlM_cons] at h
    cases e1 : roundStep o acc p with
    | error e => rw [e1] at h; cases h
    | ok acc1 =>
      rw [e1] at h
      have h : List.foldlM (roundStep o) acc1 rest = .ok acc' := h
      have hp1 : acc1.progress = false := by
        cases hq : acc1.progress with
        | false => rfl
        | true => rw [loop_progress_mono o rest acc1 acc' h hq] at hp; cases hp
      rcases roundStep_cases e1 with ⟨hnil, rfl⟩ | ⟨hne, cur, nx, eqs, js, nvs, f', h1, h2, rfl⟩
      · refine ih { acc with polls := acc.polls + 1 } acc' hi ?_
          (fun q hq => hR q (List.mem_cons_of_mem _ hq)) h hp
        intro k d hk
        rcases hP k d hk with h | h
        · exact .inl h
        · rcases List.mem_cons.mp h with h | h
          · left
            have : d = p.2 := by rw [← h]
            rw [this, hnil]; simp
          · exact .inr h
      · -- the class held exactly one piece
        simp only [Bool.or_eq_false_iff, decide_eq_false_iff_not] at hp1
        have hperm := ho.2.1 p.2
        have hlen : (o.tes p.2).length = 1 := by
          have h3 := hperm.length_eq
          have h4 : p.2.length ≠ 0 := fun h => hne (List.eq_nil_of_length_eq_zero h)
          omega
        obtain ⟨e, he⟩ := List.length_eq_one_iff.mp hlen
        rw [he, foldClass_single] at h1
        injection h1 with h1
        simp only [Prod.mk.injEq] at h1
        obtain ⟨rfl, rfl, rfl, rfl, rfl⟩ := h1
        obtain ⟨f'', e2, i1, i2, i3, _⟩ := DS.setData_spec acc.forest p.1 [e] hi
        rw [h2] at e2; injection e2 with e2; subst e2
        have := ih _ acc' i1 ?_ ?_ h hp
        · simpa using this
        · intro k d hk
          simp only [] at hk
          rw [i3, hR p (List.mem_cons_self ..)] at hk
          split at hk
          · injection hk with hk; subst hk; left; simp
          · rename_i hkp
            rcases hP k d hk with h | h
            · exact .inl h
            · rcases List.mem_cons.mp h with h | h
              · exact absurd (by rw [← h]) hkp
              · exact .inr h
        · intro q hq
          simp only []
          rw [i2]; exact hR q (List.mem_cons_of_mem _ hq)

theorem roundTail_nil {o : Orders} (ho : OrdersOk o) (acc : RoundAcc) (h1 : acc.eqs = [])
    (h2 : acc.judgements = []) (h3 : acc.newVars = []) : roundTail o acc = .ok acc := by
  obtain ⟨forest, next, eqs, js, nvs, pr, polls, counter⟩ := acc
  simp only [] at h1 h2 h3
  subst h1 h2 h3
  unfold roundTail
  simp only []
  rw [dedup_nil, dedup_nil, dedup_nil, perm_nil_eq (ho.1 []), perm_nil_eq (ho.2.2.1 []),
    perm_nil_eq (ho.2.2.2 [])]
  rfl

/-- 3a. A round that makes no progress leaves at most one piece of evidence in every class
(and performed no merge: no equalities, judgements or fresh variables were emitted). -/
theorem round_no_progress_single {o : Orders} {f : Forest} {next counter : Nat} {acc : RoundAcc}
    (ho : OrdersOk o) (h : UInv f) (hr : round o f next counter = .ok acc)
    (hp : acc.progress = false) :
    (∀ k d, acc.forest.data.get k = some d → d.length ≤ 1) ∧
      acc.eqs = [] ∧ acc.judgements = [] ∧ acc.newVars = [] := by
  obtain ⟨acc0, e0, i0, r0⟩ := roundLoop_inv ho h next counter
  obtain ⟨f4, e4, _⟩ := roundTail_spec ho i0
  rw [round_eq, e0] at hr
  simp only [] at hr
  rw [e4] at hr; injection hr with hr; subst hr
  simp only [] at hp
  obtain ⟨s1, s2, s3, s4, _⟩ := uinv_sets h
  obtain ⟨g1, g2, g3, g4⟩ := loop_single ho (f.sets setM).2
    { forest := (f.sets setM).1, next := next, counter := counter } acc0 s1.1
    (fun k d hk => .inr (s4 k d hk))
    (fun p hp => by simp only []; rw [s2]; exact (s3 p hp).2.2) e0 hp
  have := roundTail_nil ho acc0 g2 g3 g4
  rw [e4] at this; injection this with this
  have hf : f4 = acc0.forest := by rw [← this]
  subst hf
  exact ⟨g1, g2, g3, g4⟩

/-! ## 4. Classes only ever merge (no assumption on the orders) -/

theorem inv_union {f : Forest} (hi : DS.Inv f) (a b : Nat) :
    ∃ f', f.union setM a b = .ok f' ∧ DS.Inv f' ∧ RootsMono f f' ∧
      DS.rootOf f' a = DS.rootOf f' b := by
  obtain ⟨f', e, i1, i2, i3, i4⟩ := DS.union_spec setM f a b hi
  by_cases hab : DS.rootOf f a = DS.rootOf f b
  · obtain ⟨j1, j2⟩ := i3 hab
    exact ⟨f', e, i1, RootsMono.of_eq j1, by rw [j1, j1]; exact hab⟩
  · obtain ⟨j1, j2⟩ := i4 hab
    refine ⟨f', e, i1, ?_, ?_⟩
    · intro x y hxy
      rw [j1, j1, hxy]
    · rw [j1, j1, if_neg hab, if_pos rfl]

theorem insertAll_inv (vs : List Nat) {f : Forest} (h : DS.Inv f) :
    DS.Inv (vs.foldl (fun f v => f.insert v) f) ∧
      SameRoots f (vs.foldl (fun f v => f.insert v) f) := by
  induction vs generalizing f with
  | nil => exact ⟨h, fun _ => rfl⟩
  | cons v vs ih =>
    rw [List.foldl_cons]
    obtain ⟨a, b, _⟩ := DS.insert_spec f v h
    obtain ⟨a', b'⟩ := ih a
    exact ⟨a', fun w => by rw [b', b]⟩

theorem roundLoop_mono {o : Orders} {f : Forest} {next counter : Nat} {acc : RoundAcc}
    (hi : DS.Inv f) (h : roundLoop o f next counter = .ok acc) :
    DS.Inv acc.forest ∧ SameRoots f acc.forest := by
  obtain ⟨f1, l, e, i1, _, i3, _⟩ := DS.sets_spec setM f hi
  have hf1 : (f.sets setM).1 = f1 := by rw [e]
  obtain ⟨a, b, _⟩ := foldlM_rel (roundStep o) (fun a => DS.Inv a.forest)
    (fun a b => SameRoots a.forest b.forest) (fun _ _ => True)
    (fun _ => SameRoots.refl _) (fun _ _ _ => SameRoots.trans) (fun _ _ _ _ _ => trivial)
    (f.sets setM).2
    (fun s x s' _ hs h => by
      rcases roundStep_cases h with ⟨_, rfl⟩ | ⟨_, cur, nx, eqs, js, nvs, f', _, h2, rfl⟩
      · exact ⟨hs, SameRoots.refl _, trivial⟩
      · obtain ⟨f'', e2, j1, j2, _⟩ := DS.setData_spec s.forest x.1 [cur] hs
        rw [h2] at e2; injection e2 with e2; subst e2
        exact ⟨j1, j2, trivial⟩)
    _ acc (by simp only []; rw [hf1]; exact i1) h
  refine ⟨a, fun w => ?_⟩
  rw [b w]; simp only []; rw [hf1]; exact i3 w

theorem roundTail_mono {o : Orders} {acc acc' : RoundAcc} (hi : DS.Inv acc.forest)
    (h : roundTail o acc = .ok acc') :
    DS.Inv acc'.forest ∧ RootsMono acc.forest acc'.forest := by
  obtain ⟨u2, r2⟩ := insertAll_inv (o.vars (dedup acc.newVars)) hi
  unfold roundTail at h
  split at h
  · cases h
  · rename_i f3 e3
    split at h
    · cases h
    · rename_i f4 e4
      injection h with h; subst h
      obtain ⟨u3, r3, _⟩ := foldlM_rel unionStep DS.Inv RootsMono (fun _ _ => True)
        RootsMono.refl (fun _ _ _ => RootsMono.trans) (fun _ _ _ _ _ => trivial)
        (o.eqs (dedup acc.eqs))
        (fun s p s' _ hs h => by
          obtain ⟨s'', e, a, b, _⟩ := inv_union hs p.1 p.2
          simp only [unionStep, e] at h
          injection h with h; subst h
          exact ⟨a, b, trivial⟩) _ f3 u2 e3
      obtain ⟨u4, r4, _⟩ := foldlM_rel judgeStep DS.Inv SameRoots (fun _ _ => True)
        SameRoots.refl (fun _ _ _ => SameRoots.trans) (fun _ _ _ _ _ => trivial)
        (o.judgements (dedup acc.judgements))
        (fun s p s' _ hs h => by
          obtain ⟨s'', e, a, b, _⟩ := DS.addData_spec setM s p.1 [p.2] hs
          simp only [judgeStep, e] at h
          injection h with h; subst h
          exact ⟨a, b, trivial⟩) f3 f4 u3 e4
      exact ⟨u4, (RootsMono.of_eq r2).trans (r3.trans (RootsMono.of_eq r4))⟩

/-- 4a. A round never splits a class (for arbitrary order functions). -/
theorem round_roots_mono {o : Orders} {f : Forest} {next counter : Nat} {acc : RoundAcc}
    (h : UInv f) (hr : round o f next counter = .ok acc) :
    ∀ a b, DS.rootOf f a = DS.rootOf f b → DS.rootOf acc.forest a = DS.rootOf acc.forest b := by
  rw [round_eq] at hr
  split at hr
  · cases hr
  · rename_i acc0 e0
    obtain ⟨i0, r0⟩ := roundLoop_mono h.1 e0
    obtain ⟨_, r1⟩ := roundTail_mono i0 hr
    exact (RootsMono.of_eq r0).trans r1

/-! ## The loop -/

theorem unifyLoop_spec {o : Orders} (ho : OrdersOk o) :
    ∀ (fuel : Nat) (f : Forest) (next counter rounds : Nat), UInv f →
      (∀ f' n r, unifyLoop o fuel f next counter rounds = .ok (f', n, r) →
        UInv f' ∧ Single f' ∧ RootsMono f f') ∧
      (∀ e, unifyLoop o fuel f next counter rounds = .error e → e = .outOfFuel) := by
  intro fuel
  induction fuel with
  | zero =>
    intro f next counter rounds _
    constructor
    · intro f' n r h; simp [unifyLoop] at h
    · intro e h
      simp only [unifyLoop] at h
      injection h with h; exact h.symm
  | succ fuel ih =>
    intro f next counter rounds hf
    obtain ⟨acc, e, i, m, _⟩ := round_spec ho hf next counter
    have hsingle := fun hp => (round_no_progress_single ho hf e hp).1
    rw [unifyLoop, e]
    simp only []
    cases hp : acc.progress with
    | true =>
      simp only [if_true]
      obtain ⟨a, b⟩ := ih acc.forest acc.next acc.counter (rounds + 1) i
      refine ⟨fun f' n r h => ?_, b⟩
      obtain ⟨x, y, z⟩ := a f' n r h
      exact ⟨x, y, m.trans z⟩
    | false =>
      simp only [Bool.false_eq_true, if_false]
      constructor
      · intro f' n r h
        injection h with h
        simp only [Prod.mk.injEq] at h
        obtain ⟨rfl, _, _⟩ := h
        exact ⟨i, hsingle hp, m⟩
      · intro e h; cases h

/-- 3b. The result of `unify` satisfies the invariant, every class holds at most one piece of
evidence, and no piece is an unresolved `Equal`. -/
theorem unify_post {o : Orders} {fuel nvars : Nat} {infs : Nat → List TE} {f : Forest} {n r : Nat}
    (ho : OrdersOk o) (h : unify o fuel nvars infs = .ok (f, n, r)) :
    UInv f ∧ ∀ k d, f.data.get k = some d → d.length ≤ 1 ∧ ∀ e ∈ d, NoEq e = true := by
  obtain ⟨f0, e0, i0, _⟩ := initForest_spec o (List.range nvars) infs
  unfold unify at h
  rw [e0] at h
  simp only [] at h
  obtain ⟨a, b, _⟩ := (unifyLoop_spec ho fuel f0 nvars 0 0 i0).1 f n r h
  exact ⟨a, fun k d hk => ⟨b k d hk, a.2.1 k d hk⟩⟩

/-- 3c. `unify` never panics: the only possible error is running out of the model's fuel. -/
theorem unify_no_panic {o : Orders} {fuel nvars : Nat} {infs : Nat → List TE} {e : UFault}
    (ho : OrdersOk o) (h : unify o fuel nvars infs = .error e) : e = .outOfFuel := by
  obtain ⟨f0, e0, i0, _⟩ := initForest_spec o (List.range nvars) infs
  unfold unify at h
  rw [e0] at h
  exact (unifyLoop_spec ho fuel f0 nvars 0 0 i0).2 e h

/-- 4a'. `unifyLoop` never splits a class. -/
theorem unifyLoop_roots_mono {o : Orders} {fuel : Nat} {f f' : Forest} {next counter rounds n r : Nat}
    (ho : OrdersOk o) (hf : UInv f)
    (h : unifyLoop o fuel f next counter rounds = .ok (f', n, r)) :
    ∀ a b, DS.rootOf f a = DS.rootOf f b → DS.rootOf f' a = DS.rootOf f' b :=
  ((unifyLoop_spec ho fuel f next counter rounds hf).1 f' n r h).2.2

/-- 4b. Every equality in the input is honoured by the final forest. -/
theorem unify_equalities {o : Orders} {fuel nvars : Nat} {infs : Nat → List TE} {f : Forest}
    {n r : Nat} (ho : OrdersOk o) (h : unify o fuel nvars infs = .ok (f, n, r)) :
    ∀ v id, v < nvars → .equal id ∈ infs v → DS.rootOf f v = DS.rootOf f id := by
  intro v id hv hid
  obtain ⟨f0, e0, i0, q0⟩ := initForest_spec o (List.range nvars) infs
  unfold unify at h
  rw [e0] at h
  simp only [] at h
  obtain ⟨_, _, m⟩ := (unifyLoop_spec ho fuel f0 nvars 0 0 i0).1 f n r h
  apply m
  apply q0 v ((ho.1 _).mem_iff.mpr (List.mem_range.mpr hv))
  exact (ho.2.1 _).mem_iff.mpr hid

/-! ## Why the invariant needs "data only at roots"

With only `DS.Inv f ∧ DataNoEq f` the post-condition of a no-progress round is false: a forest
may carry stale data in a non-root cell, which `sets` never visits. -/

def cexForest : Forest :=
  { reps := { data := [some 0, some 0], size := 2 },
    data := { data := [none, some [.any, .bytes]], size := 1 } }

theorem cex_weak_inv : DS.Inv cexForest ∧ DataNoEq cexForest := by
  refine ⟨⟨rfl, rfl, fun i => if i = 0 then 1 else 0, ?_⟩, ?_⟩
  · intro i p h hne
    rcases i with _ | _ | i
    · simp [cexForest, VMap.get] at h; exact absurd h.symm hne
    · simp [cexForest, VMap.get] at h; subst h; simp [cexForest, VMap.get]
    · simp [cexForest, VMap.get] at h
  · intro k d h
    rcases k with _ | _ | k
    · simp [cexForest, VMap.get] at h
    · simp [cexForest, VMap.get] at h; subst h; simp [NoEq]
    · simp [cexForest, VMap.get] at h

theorem cex_round : ∃ acc, round idOrders cexForest 0 0 = .ok acc ∧ acc.progress = false ∧
    acc.forest.data.get 1 = some [.any, .bytes] :=
  ⟨_, rfl, rfl, rfl⟩

end SLE.Unify
