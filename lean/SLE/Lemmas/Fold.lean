import SLE.Model.Fold
/-! Helper lemmas for C09 / C18: folding preserves denotation, shape, true sizes. -/
namespace SLE.SV

theorem knownBin_not_known : knownBin .knownData = none := rfl
theorem knownUn_not_known : knownUn .knownData = none := rfl

/-- `eval` ignores the recorded size. -/
theorem eval_node_size (I : Interp) (k : Kind) (attrs : List Nat) (ks : List SV) (s s' : Nat) :
    eval I (.node k attrs ks s) = eval I (.node k attrs ks s') := by
  simp [eval]

theorem eval_mkKnown (I : Interp) (w : Word) : eval I (mkKnown w) = w := by
  simp [mkKnown, eval]

theorem asWord_eval (I : Interp) (a : SV) (x : Word) (h : a.asWord = some x) : eval I a = x := by
  cases a with
  | node k attrs ks s =>
    cases k <;> simp [asWord] at h
    cases attrs with
    | nil => simp at h
    | cons w r => simp at h; simp [eval, h]

/-- One folding step preserves the denotation, provided the Rust word operations are the
EVM's (hypotheses discharged by `SLE.Lemmas.Word`). -/
theorem eval_foldNode (I : Interp)
    (hb : ∀ k, knownBin k = specBin k) (hu : ∀ k, knownUn k = specUn k)
    (k : Kind) (attrs : List Nat) (ks : List SV) (s : Nat) :
    eval I (foldNode k attrs ks) = eval I (.node k attrs ks s) := by
  unfold foldNode
  cases hkb : knownBin k with
  | some f =>
    have hk : k ≠ .knownData := by intro h; subst h; simp [knownBin] at hkb
    have hsb : specBin k = some f := by rw [← hb k]; exact hkb
    match ks with
    | [a, b] =>
      simp only []
      cases ha : a.asWord with
      | none => simp only []; exact eval_node_size I k attrs _ _ _
      | some x =>
        cases hbw : b.asWord with
        | none => simp only []; exact eval_node_size I k attrs _ _ _
        | some y =>
          simp only []
          rw [eval_mkKnown]
          have e1 := asWord_eval I a x ha
          have e2 := asWord_eval I b y hbw
          cases k <;> simp_all [eval, evalList]
    | [] => simp only []; cases hku : knownUn k <;> simp only [] <;> exact eval_node_size I k attrs _ _ _
    | [a] =>
      simp only []
      cases hku : knownUn k with
      | none => simp only []; exact eval_node_size I k attrs _ _ _
      | some g => cases k <;> simp [knownBin, knownUn] at hkb hku
    | a :: b :: c :: r =>
      simp only []
      cases hku : knownUn k <;> simp only [] <;> exact eval_node_size I k attrs _ _ _
  | none =>
    simp only []
    cases hku : knownUn k with
    | none => simp only []; exact eval_node_size I k attrs _ _ _
    | some g =>
      have hk : k ≠ .knownData := by intro h; subst h; simp [knownUn] at hku
      have hsu : specUn k = some g := by rw [← hu k]; exact hku
      have hsb : specBin k = none := by rw [← hb k]; exact hkb
      match ks with
      | [a] =>
        simp only []
        cases ha : a.asWord with
        | none => simp only []; exact eval_node_size I k attrs _ _ _
        | some x =>
          simp only []
          rw [eval_mkKnown]
          have e1 := asWord_eval I a x ha
          cases k <;> simp_all [eval, evalList]
      | [] => simp only []; exact eval_node_size I k attrs _ _ _
      | a :: b :: r => simp only []; exact eval_node_size I k attrs _ _ _

theorem eval_congr_kids (I : Interp) (k : Kind) (attrs : List Nat) (ks ks' : List SV) (s : Nat)
    (h : evalList I ks = evalList I ks') :
    eval I (.node k attrs ks s) = eval I (.node k attrs ks' s) := by
  simp [eval, h]

mutual
theorem fold_eval (I : Interp) (hb : ∀ k, knownBin k = specBin k) (hu : ∀ k, knownUn k = specUn k) :
    ∀ t : SV, eval I (fold t) = eval I t
  | .node k attrs ks s => by
    rw [fold, eval_foldNode I hb hu k attrs (foldList ks) s]
    exact eval_congr_kids I k attrs _ _ s (foldList_eval I hb hu ks)
theorem foldList_eval (I : Interp) (hb : ∀ k, knownBin k = specBin k) (hu : ∀ k, knownUn k = specUn k) :
    ∀ ts : List SV, evalList I (foldList ts) = evalList I ts
  | [] => rfl
  | t :: ts => by
    simp only [foldList, evalList]
    rw [fold_eval I hb hu t, foldList_eval I hb hu ts]
end

/-! ### Shape -/

/-- A folding step yields a constant, or the same operator over the given operands. -/
theorem foldNode_shape (k : Kind) (attrs : List Nat) (ks : List SV) :
    (∃ w, foldNode k attrs ks = mkKnown w ∧ (∀ a ∈ ks, (a.asWord).isSome) ∧
        ((knownBin k).isSome ∨ (knownUn k).isSome)) ∨
    foldNode k attrs ks = rebuild k attrs ks := by
  unfold foldNode
  cases hkb : knownBin k with
  | some f =>
    match ks with
    | [a, b] =>
      simp only []
      cases ha : a.asWord with
      | none => right; rfl
      | some x =>
        cases hbw : b.asWord with
        | none => right; rfl
        | some y => left; exact ⟨_, rfl, by simp [ha, hbw], by simp⟩
    | [] => right; simp only []; cases knownUn k <;> rfl
    | [a] =>
      simp only []
      cases hku : knownUn k with
      | none => right; rfl
      | some g => cases k <;> simp [knownBin, knownUn] at hkb hku
    | a :: b :: c :: r => right; simp only []; cases knownUn k <;> rfl
  | none =>
    simp only []
    cases hku : knownUn k with
    | none => right; rfl
    | some g =>
      match ks with
      | [a] =>
        simp only []
        cases ha : a.asWord with
        | none => right; rfl
        | some x => left; exact ⟨_, rfl, by simp [ha], by simp⟩
      | [] => right; rfl
      | a :: b :: r => right; rfl

/-! ### Idempotence -/

theorem fold_mkKnown (w : Word) : fold (mkKnown w) = mkKnown w := by
  simp [mkKnown, fold, foldList, foldNode, knownBin, knownUn, rebuild, childSize]

theorem fold_rebuild (k : Kind) (attrs : List Nat) (ks : List SV) :
    fold (rebuild k attrs ks) = foldNode k attrs (foldList ks) := by
  simp [rebuild, fold]

mutual
theorem fold_idem : ∀ t : SV, fold (fold t) = fold t
  | .node k attrs ks s => by
    have ih := foldList_idem ks
    rw [fold]
    rcases foldNode_shape k attrs (foldList ks) with ⟨w, hw, _⟩ | h
    · rw [hw, fold_mkKnown]
    · rw [h, fold_rebuild, ih, h]
theorem foldList_idem : ∀ ts : List SV, foldList (foldList ts) = foldList ts
  | [] => rfl
  | t :: ts => by simp only [foldList]; rw [fold_idem t, foldList_idem ts]
end

/-! ### True sizes (used by C18) -/

theorem childSize_eq_nodeCountList (ks : List SV) (h : WFList ks) : childSize ks = nodeCountList ks := by
  induction ks with
  | nil => rfl
  | cons a ks ih =>
    cases a with
    | node k at' cs s =>
      simp only [WFList, WF] at h
      simp only [childSize, List.map_cons, List.sum_cons, recSize, nodeCountList, nodeCount]
      have := ih h.2
      simp only [childSize] at this
      omega

theorem wf_rebuild (k : Kind) (attrs : List Nat) (ks : List SV) (h : WFList ks) : WF (rebuild k attrs ks) := by
  simp only [rebuild, WF]
  exact ⟨by rw [childSize_eq_nodeCountList ks h], h⟩

theorem wf_mkKnown (w : Word) : WF (mkKnown w) := by simp [mkKnown, WF, WFList, nodeCountList]
theorem wf_mkValue (i : Nat) : WF (mkValue i) := by simp [mkValue, WF, WFList, nodeCountList]

theorem wf_foldNode (k : Kind) (attrs : List Nat) (ks : List SV) (h : WFList ks) : WF (foldNode k attrs ks) := by
  rcases foldNode_shape k attrs ks with ⟨w, hw, _⟩ | h'
  · rw [hw]; exact wf_mkKnown w
  · rw [h']; exact wf_rebuild k attrs ks h

mutual
/-- Folding yields a tree whose every node records its true size — whatever the input recorded. -/
theorem wf_fold : ∀ t : SV, WF (fold t)
  | .node k attrs ks s => by rw [fold]; exact wf_foldNode k attrs _ (wfList_foldList ks)
theorem wfList_foldList : ∀ ts : List SV, WFList (foldList ts)
  | [] => trivial
  | t :: ts => by simp only [foldList, WFList]; exact ⟨wf_fold t, wfList_foldList ts⟩
end

/-- The culling constructor always records the true size of what it returns (given well-formed kids). -/
theorem wf_mk (limit : Option Nat) (fresh : Nat) (k : Kind) (attrs : List Nat) (ks : List SV)
    (h : WFList ks) : WF (mk limit fresh k attrs ks) := by
  unfold mk
  cases limit with
  | none => exact wf_rebuild k attrs ks h
  | some lim =>
    simp only []
    split
    · simp [WF, WFList, nodeCountList]
    · exact wf_rebuild k attrs ks h

/-- …and never exceeds the limit (a limit of 0 still yields the one-node opaque value). -/
theorem nodeCount_mk_le (lim fresh : Nat) (k : Kind) (attrs : List Nat) (ks : List SV)
    (h : WFList ks) : nodeCount (mk (some lim) fresh k attrs ks) ≤ max lim 1 := by
  unfold mk
  simp only []
  split
  · simp [nodeCount, nodeCountList]; omega
  · rename_i hle
    simp only [nodeCount]
    rw [← childSize_eq_nodeCountList ks h]
    omega

end SLE.SV

namespace SLE.SV

mutual
/-- Any transformer that hands back well-formed kids yields well-formed trees. -/
theorem wf_transform (f : Transformer)
    (hf : ∀ k a ks k' a' ks', WFList ks → f k a ks = some (k', a', ks') → WFList ks') :
    ∀ t : SV, WF t → WF (transform f t)
  | .node k attrs ks s, h => by
    simp only [WF] at h
    rw [transform]
    cases hfk : f k attrs ks with
    | none => simp only []; exact wf_rebuild k attrs _ (wfList_transformList f hf ks h.2)
    | some r =>
      obtain ⟨k', a', ks'⟩ := r
      simp only []
      exact wf_rebuild k' a' ks' (hf k attrs ks k' a' ks' h.2 hfk)
theorem wfList_transformList (f : Transformer)
    (hf : ∀ k a ks k' a' ks', WFList ks → f k a ks = some (k', a', ks') → WFList ks') :
    ∀ ts : List SV, WFList ts → WFList (transformList f ts)
  | [], _ => trivial
  | t :: ts, h => by
    simp only [WFList] at h
    simp only [transformList, WFList]
    exact ⟨wf_transform f hf t h.1, wfList_transformList f hf ts h.2⟩
end

/-- `mk` keeps the node (with its true size) exactly when the real node count fits the limit,
and otherwise returns the one-node opaque value. -/
theorem mk_cull_iff (lim fresh : Nat) (k : Kind) (attrs : List Nat) (ks : List SV) (h : WFList ks) :
    (nodeCountList ks + 1 ≤ lim → mk (some lim) fresh k attrs ks = .node k attrs ks (nodeCountList ks + 1)) ∧
    (lim < nodeCountList ks + 1 → mk (some lim) fresh k attrs ks = mkValue fresh) := by
  have hc := childSize_eq_nodeCountList ks h
  unfold mk
  simp only [hc]
  constructor
  · intro hle
    have : ¬ (nodeCountList ks + 1 > lim) := by omega
    simp [this]
  · intro hlt
    have : nodeCountList ks + 1 > lim := by omega
    simp [this, mkValue]

end SLE.SV

namespace SLE.SV

theorem nodeCount_foldNode_le (k : Kind) (attrs : List Nat) (ks : List SV) :
    nodeCount (foldNode k attrs ks) ≤ nodeCountList ks + 1 := by
  rcases foldNode_shape k attrs ks with ⟨w, hw, _⟩ | h
  · rw [hw]; simp [mkKnown, nodeCount, nodeCountList]
  · rw [h]; simp [rebuild, nodeCount]

mutual
/-- Folding never grows a tree. -/
theorem nodeCount_fold_le : ∀ t : SV, nodeCount (fold t) ≤ nodeCount t
  | .node k attrs ks s => by
    rw [fold]
    have h1 := nodeCount_foldNode_le k attrs (foldList ks)
    have h2 := nodeCountList_foldList_le ks
    simp only [nodeCount]; omega
theorem nodeCountList_foldList_le : ∀ ts : List SV, nodeCountList (foldList ts) ≤ nodeCountList ts
  | [] => Nat.le_refl _
  | t :: ts => by
    simp only [foldList, nodeCountList]
    have := nodeCount_fold_le t
    have := nodeCountList_foldList_le ts
    omega
end

end SLE.SV
